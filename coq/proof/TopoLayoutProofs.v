(* Proofs about model/TopoLayout.v (C11).
   Structure: association-list and location-list lemmas; the per-vid "view" of a
   layout and frame lemmas (an operation on vid v leaves every other vid's view
   alone); specifications of RegisterVolume / UnRegisterVolume /
   ensureCorrectWritables / SetVolumeUnavailable at their own vid; the invariant
   [Inv] and its preservation by every event; the C11 theorems. *)
From Coq Require Import List NArith Bool Lia Permutation.
From SW Require Import model.TopoLayout.
Import ListNotations.
Local Open Scope N_scope.

Lemma NoDup_snoc : forall {A} (l : list A) x, NoDup l -> ~ In x l -> NoDup (l ++ [x]).
Proof.
  induction l as [|y l IH]; intros x Hnd Hni; simpl.
  - constructor; [tauto|constructor].
  - inversion Hnd as [|? ? Hy Hl]; subst. constructor.
    + rewrite in_app_iff; simpl. intros [H|[H|[]]]; [tauto|subst; apply Hni; now left].
    + apply IH; [assumption|]. intros H; apply Hni; now right.
Qed.

(* ---------- association lists ---------- *)
Section AL.
  Context {V : Type}.
  Implicit Types m : list (N * V).

  Lemma aget_aset_eq : forall m k (x : V), aget k (aset k x m) = Some x.
  Proof.
    induction m as [|[k' y] m IH]; intros k x; simpl.
    - now rewrite N.eqb_refl.
    - destruct (k' =? k) eqn:E; simpl.
      + now rewrite N.eqb_refl.
      + now rewrite E.
  Qed.

  Lemma aget_aset_neq : forall m k k' (x : V), k <> k' -> aget k' (aset k x m) = aget k' m.
  Proof.
    induction m as [|[k0 y] m IH]; intros k k' x Hne; simpl.
    - destruct (k =? k') eqn:E; [apply N.eqb_eq in E; congruence|reflexivity].
    - destruct (k0 =? k) eqn:E; simpl.
      + apply N.eqb_eq in E; subst k0.
        destruct (k =? k') eqn:E'; [apply N.eqb_eq in E'; congruence|reflexivity].
      + destruct (k0 =? k'); [reflexivity|now apply IH].
  Qed.

  Lemma aget_adel_eq : forall m k, aget k (@adel V k m) = None.
  Proof.
    induction m as [|[k0 y] m IH]; intros k; simpl; [reflexivity|].
    destruct (k0 =? k) eqn:E; simpl; [apply IH|].
    rewrite E; apply IH.
  Qed.

  Lemma aget_adel_neq : forall m k k', k <> k' -> aget k' (@adel V k m) = aget k' m.
  Proof.
    induction m as [|[k0 y] m IH]; intros k k' Hne; simpl; [reflexivity|].
    destruct (k0 =? k) eqn:E; simpl.
    - apply N.eqb_eq in E; subst k0.
      destruct (k =? k') eqn:E'; [apply N.eqb_eq in E'; congruence|now apply IH].
    - destruct (k0 =? k'); [reflexivity|now apply IH].
  Qed.

  Lemma aget_In : forall m k (x : V), aget k m = Some x -> In (k, x) m.
  Proof.
    induction m as [|[k0 y] m IH]; intros k x; simpl; [discriminate|].
    destruct (k0 =? k) eqn:E.
    - intros H; inversion H; subst. apply N.eqb_eq in E; subst; now left.
    - intros H; right; now apply IH.
  Qed.

  Lemma In_aget : forall m k (x : V), NoDup (map fst m) -> In (k, x) m -> aget k m = Some x.
  Proof.
    induction m as [|[k0 y] m IH]; intros k x Hnd Hin; simpl in *; [contradiction|].
    inversion Hnd as [|? ? Hni Hnd']; subst.
    destruct Hin as [Heq|Hin].
    - inversion Heq; subst. now rewrite N.eqb_refl.
    - destruct (k0 =? k) eqn:E.
      + apply N.eqb_eq in E; subst k0. exfalso; apply Hni.
        change k with (fst (k, x)); now apply in_map.
      + now apply IH.
  Qed.

  Lemma aget_None_notin : forall m k, aget k m = None -> ~ In k (map fst m).
  Proof.
    induction m as [|[k0 y] m IH]; intros k; simpl; [tauto|].
    destruct (k0 =? k) eqn:E; [discriminate|].
    intros H [Heq|Hin]; [subst; now rewrite N.eqb_refl in E|now apply (IH k)].
  Qed.

  Lemma in_keys_aget : forall m k, In k (map fst m) -> exists x, aget k m = Some x.
  Proof.
    intros m k Hin. destruct (aget k m) eqn:E; [eauto|].
    now apply aget_None_notin in E.
  Qed.

  Lemma keys_aset : forall m k (x : V),
    map fst (aset k x m) = if existsb (N.eqb k) (map fst m) then map fst m else map fst m ++ [k].
  Proof.
    induction m as [|[k0 y] m IH]; intros k x; simpl; [reflexivity|].
    destruct (k0 =? k) eqn:E; simpl.
    - apply N.eqb_eq in E; subst. now rewrite N.eqb_refl.
    - rewrite N.eqb_sym, E; simpl. rewrite IH. now destruct (existsb (N.eqb k) (map fst m)).
  Qed.

  Lemma existsb_eqb_In : forall (l : list N) k, existsb (N.eqb k) l = true <-> In k l.
  Proof.
    intros l k; rewrite existsb_exists; split.
    - intros [x [Hin E]]; apply N.eqb_eq in E; now subst.
    - intros Hin; exists k; split; [assumption|apply N.eqb_refl].
  Qed.

  Lemma NoDup_keys_aset : forall m k (x : V), NoDup (map fst m) -> NoDup (map fst (aset k x m)).
  Proof.
    intros m k x Hnd; rewrite keys_aset.
    destruct (existsb (N.eqb k) (map fst m)) eqn:E; [assumption|].
    apply NoDup_snoc; [assumption|].
    intros Hin; apply existsb_eqb_In in Hin; congruence.
  Qed.

  Lemma keys_adel : forall m k, map fst (@adel V k m) = filter (fun x => negb (x =? k)) (map fst m).
  Proof.
    induction m as [|[k0 y] m IH]; intros k; simpl; [reflexivity|].
    destruct (k0 =? k); simpl; now rewrite IH.
  Qed.

  Lemma NoDup_keys_adel : forall m k, NoDup (map fst m) -> NoDup (map fst (@adel V k m)).
  Proof. intros; rewrite keys_adel; now apply NoDup_filter. Qed.

  Lemma adel_nil_of_keys : forall m k, (forall k', k' <> k -> aget k' m = None) -> @adel V k m = [].
  Proof.
    induction m as [|[k0 y] m IH]; intros k H; simpl; [reflexivity|].
    destruct (k0 =? k) eqn:E; simpl.
    - apply IH. intros k' Hne. specialize (H k' Hne). simpl in H.
      apply N.eqb_eq in E; subst k0.
      destruct (k =? k') eqn:E'; [apply N.eqb_eq in E'; congruence|assumption].
    - specialize (H k0). simpl in H. rewrite N.eqb_refl in H.
      assert (k0 <> k) by (intros ->; now rewrite N.eqb_refl in E).
      specialize (H H0); discriminate.
  Qed.

  Lemma aget_nil_all_None : forall m, (forall k, aget k m = None) -> m = [].
  Proof.
    intros [|[k0 y] m] H; [reflexivity|].
    specialize (H k0); simpl in H; now rewrite N.eqb_refl in H.
  Qed.
End AL.

(* ---------- location lists ---------- *)
Lemma mem_In : forall n l, mem n l = true <-> In n l.
Proof. intros; apply existsb_eqb_In. Qed.

Lemma mem_false : forall n l, mem n l = false <-> ~ In n l.
Proof.
  intros n l; rewrite <- mem_In. destruct (mem n l); split; congruence.
Qed.

Lemma In_lset : forall m n l, In m (lset n l) <-> m = n \/ In m l.
Proof.
  intros m n l; unfold lset. destruct (mem n l) eqn:E.
  - apply mem_In in E. split; [tauto|]. intros [->|H]; assumption.
  - rewrite in_app_iff; simpl. split; [intros [H|[H|[]]]; auto|intros [H|H]; auto].
Qed.

Lemma NoDup_lset : forall n l, NoDup l -> NoDup (lset n l).
Proof.
  intros n l H; unfold lset. destruct (mem n l) eqn:E; [assumption|].
  apply NoDup_snoc; [assumption|now apply mem_false].
Qed.

Lemma In_lremove_sub : forall m n l, In m (lremove n l) -> In m l.
Proof.
  induction l as [|x l IH]; simpl; [tauto|].
  destruct (x =? n); simpl; [tauto|]. intros [H|H]; auto.
Qed.

Lemma In_lremove_neq : forall m n l, m <> n -> In m l -> In m (lremove n l).
Proof.
  induction l as [|x l IH]; simpl; [tauto|]. intros Hne [H|H].
  - subst x. destruct (m =? n) eqn:E; [apply N.eqb_eq in E; congruence|now left].
  - destruct (x =? n); [assumption|right; auto].
Qed.

Lemma NoDup_lremove : forall n l, NoDup l -> NoDup (lremove n l).
Proof.
  induction l as [|x l IH]; simpl; intros H; [constructor|].
  inversion H as [|? ? Hx Hl]; subst.
  destruct (x =? n); [assumption|]. constructor; [|auto].
  intros Hin; apply Hx; eapply In_lremove_sub; eauto.
Qed.

Lemma notin_lremove : forall n l, NoDup l -> ~ In n (lremove n l).
Proof.
  induction l as [|x l IH]; simpl; intros H; [tauto|].
  inversion H as [|? ? Hx Hl]; subst.
  destruct (x =? n) eqn:E.
  - apply N.eqb_eq in E; now subst.
  - simpl. intros [Heq|Hin]; [subst; now rewrite N.eqb_refl in E|now apply IH].
Qed.

Lemma In_lremove : forall m n l, NoDup l -> (In m (lremove n l) <-> m <> n /\ In m l).
Proof.
  intros m n l Hnd; split.
  - intros H; split; [|eapply In_lremove_sub; eauto].
    intros ->; now apply (notin_lremove n l).
  - intros [Hne Hin]; now apply In_lremove_neq.
Qed.

Lemma lremove_notin : forall n l, ~ In n l -> lremove n l = l.
Proof.
  induction l as [|x l IH]; simpl; intros H; [reflexivity|].
  destruct (x =? n) eqn:E; [apply N.eqb_eq in E; subst; tauto|].
  f_equal; apply IH; tauto.
Qed.

Lemma length_lremove : forall n l, In n l -> S (length (lremove n l)) = length l.
Proof.
  induction l as [|x l IH]; simpl; [tauto|]. intros H.
  destruct (x =? n) eqn:E; [reflexivity|]. simpl. f_equal. apply IH.
  destruct H as [H|H]; [subst; now rewrite N.eqb_refl in E|assumption].
Qed.

Lemma mem_lremove_neq : forall v v' l, v <> v' -> mem v' (lremove v l) = mem v' l.
Proof.
  intros v v' l Hne. destruct (mem v' l) eqn:E.
  - apply mem_In. apply mem_In in E. apply In_lremove_neq; [congruence|assumption].
  - apply mem_false. apply mem_false in E. intros H; apply E; eapply In_lremove_sub; eauto.
Qed.

Lemma mem_lremove_eq : forall v l, NoDup l -> mem v (lremove v l) = false.
Proof. intros; apply mem_false; now apply notin_lremove. Qed.

Lemma mem_snoc : forall v v' l, mem v' (l ++ [v]) = mem v' l || (v' =? v).
Proof. intros; unfold mem; rewrite existsb_app; simpl; now rewrite orb_false_r. Qed.

Lemma nlen_nil : forall l, nlen l = 0 <-> l = [].
Proof.
  intros l; unfold nlen; destruct l; simpl; split; try reflexivity; try discriminate; lia.
Qed.

(* ---------- volumesBinaryState ---------- *)
Definition olist (o : option (list N)) : list N := match o with Some x => x | None => [] end.

Lemma bs_add_neq : forall v v' n m, v <> v' -> aget v' (bs_add v n m) = aget v' m.
Proof. intros; unfold bs_add; destruct (aget v m); now apply aget_aset_neq. Qed.

Lemma bs_add_eq : forall v n m, aget v (bs_add v n m) = Some (lset n (olist (aget v m))).
Proof. intros; unfold bs_add; destruct (aget v m); simpl; now rewrite aget_aset_eq. Qed.

Lemma bs_remove_neq : forall v v' n m, v <> v' -> aget v' (bs_remove v n m) = aget v' m.
Proof.
  intros; unfold bs_remove; destruct (aget v m); [|reflexivity].
  destruct (nlen (lremove n l) =? 0); [now apply aget_adel_neq|now apply aget_aset_neq].
Qed.

Lemma bs_remove_eq : forall v n m,
  aget v (bs_remove v n m) =
  match aget v m with
  | Some l => if nlen (lremove n l) =? 0 then None else Some (lremove n l)
  | None => None
  end.
Proof.
  intros; unfold bs_remove; destruct (aget v m) eqn:E; [|assumption].
  destruct (nlen (lremove n l) =? 0); [apply aget_adel_eq|apply aget_aset_eq].
Qed.

(* a copy map entry is a non-empty duplicate-free sublist of the location list *)
Definition okset (L : list N) (o : option (list N)) : Prop :=
  match o with None => True | Some rs => NoDup rs /\ rs <> [] /\ incl rs L end.

Lemma okset_mono : forall L L' o, incl L L' -> okset L o -> okset L' o.
Proof.
  intros L L' [rs|] Hi; simpl; [|tauto]. intros (A & B & C); repeat split; auto.
  eapply incl_tran; eauto.
Qed.

Lemma okset_nil : forall o, okset [] o -> o = None.
Proof.
  intros [rs|]; simpl; [|reflexivity]. intros (A & B & C). destruct rs; [congruence|].
  exfalso; apply (C n); now left.
Qed.

Lemma okset_add : forall L v n m, In n L -> okset L (aget v m) -> okset L (aget v (bs_add v n m)).
Proof.
  intros L v n m Hin H; rewrite bs_add_eq; simpl. destruct (aget v m) as [rs|]; simpl in *.
  - destruct H as (A & B & C). repeat split.
    + now apply NoDup_lset.
    + intros E. assert (In n (lset n rs)) by (apply In_lset; now left). rewrite E in H; contradiction.
    + intros x Hx; apply In_lset in Hx; destruct Hx as [->|Hx]; auto.
  - repeat split; [unfold lset; simpl; constructor; [tauto|constructor]|discriminate|].
    intros x [<-|[]]; assumption.
Qed.

Lemma okset_remove_same : forall L v n m, okset L (aget v m) -> okset L (aget v (bs_remove v n m)).
Proof.
  intros L v n m H; rewrite bs_remove_eq. destruct (aget v m) as [rs|]; simpl in *; [|exact I].
  destruct (nlen (lremove n rs) =? 0) eqn:E; simpl; [exact I|].
  destruct H as (A & B & C). repeat split.
  - now apply NoDup_lremove.
  - intros E'; rewrite E' in E; discriminate.
  - intros x Hx; apply C; eapply In_lremove_sub; eauto.
Qed.

Lemma okset_remove : forall L v n m, okset L (aget v m) -> okset (lremove n L) (aget v (bs_remove v n m)).
Proof.
  intros L v n m H; rewrite bs_remove_eq. destruct (aget v m) as [rs|]; simpl in *; [|exact I].
  destruct (nlen (lremove n rs) =? 0) eqn:E; simpl; [exact I|].
  destruct H as (A & B & C). repeat split.
  - now apply NoDup_lremove.
  - intros E'; rewrite E' in E; discriminate.
  - intros x Hx. apply In_lremove in Hx; [|assumption]. destruct Hx as [Hne Hx].
    apply In_lremove_neq; auto.
Qed.

(* ---------- the view of one vid ---------- *)
Record view := { w_loc : option (list N); w_w : bool; w_ro : option (list N); w_os : option (list N) }.
Definition view_of (l : layout) (v : N) : view :=
  {| w_loc := aget v (l_loc l); w_w := mem v (l_writ l); w_ro := aget v (l_ro l); w_os := aget v (l_os l) |}.

Lemma view_ext : forall l l' v,
  aget v (l_loc l') = aget v (l_loc l) -> mem v (l_writ l') = mem v (l_writ l) ->
  aget v (l_ro l') = aget v (l_ro l) -> aget v (l_os l') = aget v (l_os l) ->
  view_of l' v = view_of l v.
Proof. intros l l' v A B C D; unfold view_of; now rewrite A, B, C, D. Qed.

Lemma loc_olist : forall l v, loc l v = olist (aget v (l_loc l)).
Proof. reflexivity. Qed.

(* layout-only invariant of one vid *)
Definition Jv (w : view) : Prop :=
  (w_loc w = None -> w_w w = false) /\
  NoDup (olist (w_loc w)) /\
  okset (olist (w_loc w)) (w_ro w) /\ okset (olist (w_loc w)) (w_os w).

Definition LJ (l : layout) : Prop := NoDup (l_writ l) /\ forall v, Jv (view_of l v).

(* writable => enough copies and no registered replica is read-only *)
Definition I3v (c : cfg) (ns : nodes) (v : N) (w : view) : Prop :=
  w_w w = true ->
  enough c (nlen (olist (w_loc w))) = true /\
  forall m i, In m (olist (w_loc w)) -> ginfo ns m v = Some i -> vi_ro i = false.

(* ---------- frame: operations on v leave v' alone ---------- *)
Lemma remove_writable_frame : forall v v' l, v <> v' -> view_of (remove_writable v l) v' = view_of l v'.
Proof. intros; apply view_ext; simpl; auto. now apply mem_lremove_neq. Qed.

Lemma set_writable_frame : forall v v' l, v <> v' -> view_of (set_writable v l) v' = view_of l v'.
Proof.
  intros v v' l Hne; unfold set_writable. destruct (mem v (l_writ l)); [reflexivity|].
  apply view_ext; simpl; auto. rewrite mem_snoc.
  destruct (v' =? v) eqn:E; [apply N.eqb_eq in E; congruence|apply orb_false_r].
Qed.

Lemma ensure_frame : forall c ns v v' l, v <> v' -> view_of (ensure c ns v l) v' = view_of l v'.
Proof.
  intros c ns v v' l Hne; unfold ensure.
  destruct (enough c (nlen (loc l v)) && all_writable ns v (loc l v)).
  - destruct (negb (bs_true v (l_os l))); [now apply set_writable_frame|reflexivity].
  - now apply remove_writable_frame.
Qed.

Lemma reg_loop_spec : forall ns v locs l,
  let l' := reg_loop ns v locs l in
  l_loc l' = l_loc l /\ l_os l' = l_os l /\
  (l_writ l' = l_writ l \/ l_writ l' = lremove v (l_writ l)) /\
  (forall v', v <> v' -> aget v' (l_ro l') = aget v' (l_ro l)) /\
  (forall L, incl locs L -> okset L (aget v (l_ro l)) -> okset L (aget v (l_ro l'))).
Proof.
  induction locs as [|m rest IH]; intros l; simpl.
  - repeat split; auto.
  - destruct (ginfo ns m v) as [i|] eqn:Ei.
    + destruct (vi_ro i).
      * simpl. repeat split; auto.
        -- intros; now apply bs_add_neq.
        -- intros L Hi Hok. apply okset_add; [apply Hi; now left|assumption].
      * specialize (IH (with_ro (bs_remove v m (l_ro l)) l)). simpl in IH.
        destruct IH as (A & B & C & D & E). repeat split; auto.
        -- intros v' Hne. rewrite D by assumption. now apply bs_remove_neq.
        -- intros L Hi Hok. apply E; [intros x Hx; apply Hi; now right|].
           now apply okset_remove_same.
    + simpl. repeat split; auto.
      * intros; now apply bs_remove_neq.
      * intros L Hi Hok. now apply okset_remove_same.
Qed.

Lemma remember_oversized_spec : forall c vi n l,
  let l' := remember_oversized c vi n l in
  l_loc l' = l_loc l /\ l_writ l' = l_writ l /\ l_ro l' = l_ro l /\
  (forall v', vi_id vi <> v' -> aget v' (l_os l') = aget v' (l_os l)) /\
  (forall L, In n L -> okset L (aget (vi_id vi) (l_os l)) -> okset L (aget (vi_id vi) (l_os l'))).
Proof.
  intros c vi n l; unfold remember_oversized. destruct (c_limit c <=? vi_size vi); simpl; repeat split; auto.
  - intros; now apply bs_add_neq.
  - intros; now apply okset_add.
  - intros; now apply bs_remove_neq.
  - intros; now apply okset_remove_same.
Qed.

Lemma register_volume_frame : forall c ns vi n v' l,
  vi_id vi <> v' -> view_of (register_volume c ns vi n l) v' = view_of l v'.
Proof.
  intros c ns vi n v' l Hne; unfold register_volume.
  set (l1 := with_loc _ l).
  destruct (remember_oversized_spec c vi n (reg_loop ns (vi_id vi) (lset n (loc l (vi_id vi))) l1)) as (A & B & C & D & _).
  destruct (reg_loop_spec ns (vi_id vi) (lset n (loc l (vi_id vi))) l1) as (A' & B' & C' & D' & _).
  apply view_ext.
  - rewrite A, A'. subst l1; simpl. now apply aget_aset_neq.
  - rewrite B. destruct C' as [C'|C']; rewrite C'; subst l1; simpl; [reflexivity|now apply mem_lremove_neq].
  - rewrite C, D' by assumption. reflexivity.
  - rewrite D, B' by assumption. reflexivity.
Qed.

Lemma register_layout_frame : forall c ns vi n v' l,
  vi_id vi <> v' -> view_of (register_layout c ns vi n l) v' = view_of l v'.
Proof.
  intros; unfold register_layout. rewrite ensure_frame by assumption. now apply register_volume_frame.
Qed.

Lemma unregister_volume_frame : forall c ns v n v' l,
  v <> v' -> view_of (unregister_volume c ns v n l) v' = view_of l v'.
Proof.
  intros c ns v n v' l Hne; unfold unregister_volume.
  destruct (aget v (l_loc l)) as [locs|]; [|reflexivity].
  destruct (mem n locs); [|reflexivity].
  set (l3 := with_os _ _).
  assert (H3 : view_of l3 v' = view_of l v').
  { subst l3; apply view_ext; simpl; auto.
    - now apply aget_aset_neq.
    - now apply bs_remove_neq.
    - now apply bs_remove_neq. }
  destruct (nlen (lremove n locs) =? 0).
  - rewrite <- H3, <- (ensure_frame c ns v v' l3) by assumption.
    apply view_ext; simpl; auto. now apply aget_adel_neq.
  - rewrite ensure_frame by assumption. exact H3.
Qed.

Lemma set_unavailable_frame : forall c n v v' l,
  v <> v' -> view_of (set_unavailable c n v l) v' = view_of l v'.
Proof.
  intros c n v v' l Hne; unfold set_unavailable.
  destruct (aget v (l_loc l)) as [locs|]; [|reflexivity].
  destruct (mem n locs); [|reflexivity].
  set (l3 := with_os _ _).
  assert (H3 : view_of l3 v' = view_of l v').
  { subst l3; apply view_ext; simpl; auto.
    - now apply aget_aset_neq.
    - now apply bs_remove_neq.
    - now apply bs_remove_neq. }
  destruct (nlen (lremove n locs) <? c_copy c); [|exact H3].
  rewrite remove_writable_frame by assumption. exact H3.
Qed.

(* ---------- the operations at their own vid ---------- *)
Lemma enough_zero : forall c, 1 <= c_copy c -> enough c 0 = false.
Proof.
  intros c Hc; unfold enough. apply orb_false_iff; split.
  - apply N.eqb_neq; lia.
  - apply andb_false_iff; right. apply N.ltb_ge; lia.
Qed.

Lemma all_writable_spec : forall ns v locs,
  all_writable ns v locs = true <-> (forall m i, In m locs -> ginfo ns m v = Some i -> vi_ro i = false).
Proof.
  intros ns v locs; unfold all_writable; rewrite forallb_forall; split.
  - intros H m i Hin Hi. specialize (H m Hin). rewrite Hi in H. now apply negb_true_iff in H.
  - intros H m Hin. destruct (ginfo ns m v) as [i|] eqn:E; [|reflexivity].
    apply negb_true_iff; eapply H; eauto.
Qed.

Lemma Jv_ext : forall w w', w_loc w' = w_loc w -> w_ro w' = w_ro w -> w_os w' = w_os w ->
  (w_loc w = None -> w_w w' = false) -> Jv w -> Jv w'.
Proof.
  intros w w' A B C D (J1 & J2 & J3 & J4); unfold Jv; rewrite A, B, C; repeat split; auto.
Qed.

Section Ops.
  Variable c : cfg.
  Hypothesis Hc : 1 <= c_copy c.

  Lemma remove_writable_own : forall v l, LJ l ->
    LJ (remove_writable v l) /\ w_w (view_of (remove_writable v l) v) = false /\
    w_loc (view_of (remove_writable v l) v) = w_loc (view_of l v).
  Proof.
    intros v l [Hnd HJ]; split; [split|split].
    - simpl; now apply NoDup_lremove.
    - intros v'. destruct (N.eq_dec v v') as [<-|Hne].
      + eapply Jv_ext; [| | | |apply (HJ v)]; try reflexivity.
        intros _; simpl; now apply mem_lremove_eq.
      + rewrite remove_writable_frame by assumption; apply HJ.
    - simpl; now apply mem_lremove_eq.
    - reflexivity.
  Qed.

  Lemma ensure_own : forall ns v l, LJ l ->
    let l' := ensure c ns v l in
    LJ l' /\ I3v c ns v (view_of l' v) /\ l_loc l' = l_loc l.
  Proof.
    intros ns v l HL; unfold ensure.
    destruct (enough c (nlen (loc l v)) && all_writable ns v (loc l v)) eqn:E.
    - apply andb_true_iff in E; destruct E as [E1 E2].
      assert (HI : forall l', l_loc l' = l_loc l -> I3v c ns v (view_of l' v)).
      { intros l' Hl _. simpl. rewrite Hl. split; [exact E1|]. now apply all_writable_spec. }
      destruct (negb (bs_true v (l_os l))).
      + unfold set_writable. destruct (mem v (l_writ l)) eqn:Em.
        * split; [exact HL|split; [now apply HI|reflexivity]].
        * destruct HL as [Hnd HJ]. split; [split|split].
          -- simpl. apply NoDup_snoc; [assumption|now apply mem_false].
          -- intros v'. destruct (N.eq_dec v v') as [<-|Hne].
             ++ eapply Jv_ext; [| | | |apply (HJ v)]; try reflexivity.
                intros En. exfalso. unfold loc in E1. simpl in En. rewrite En in E1. simpl in E1.
                change (nlen []) with 0 in E1. rewrite enough_zero in E1; [discriminate|assumption].
             ++ replace (view_of (with_writ (l_writ l ++ [v]) l) v') with (view_of l v'); [apply HJ|].
                symmetry; apply view_ext; simpl; auto. rewrite mem_snoc.
                destruct (v' =? v) eqn:E'; [apply N.eqb_eq in E'; congruence|apply orb_false_r].
          -- now apply HI.
          -- reflexivity.
      + split; [exact HL|split; [now apply HI|reflexivity]].
    - destruct (remove_writable_own v l HL) as (A & B & C). split; [exact A|split; [|reflexivity]].
      intros Hw. rewrite B in Hw; discriminate.
  Qed.

  Lemma ensure_keeps : forall ns v l, l_ro (ensure c ns v l) = l_ro l /\ l_os (ensure c ns v l) = l_os l.
  Proof.
    intros; unfold ensure, set_writable, remove_writable.
    destruct (_ && _); [destruct (negb _); [destruct (mem _ _)|]|]; simpl; auto.
  Qed.

  Lemma register_volume_own : forall ns vi n l, LJ l ->
    let l' := register_volume c ns vi n l in
    LJ l' /\ aget (vi_id vi) (l_loc l') = Some (lset n (loc l (vi_id vi))).
  Proof.
    intros ns vi n l [Hnd HJ]; unfold register_volume.
    set (v := vi_id vi). set (locs := lset n (loc l v)). set (l1 := with_loc _ l).
    destruct (remember_oversized_spec c vi n (reg_loop ns v locs l1)) as (A & B & C & D & E).
    destruct (reg_loop_spec ns v locs l1) as (A' & B' & C' & D' & E').
    fold v in D, E.
    assert (Hloc : aget v (l_loc (remember_oversized c vi n (reg_loop ns v locs l1))) = Some locs).
    { rewrite A, A'. subst l1; simpl. apply aget_aset_eq. }
    split; [split|exact Hloc].
    - rewrite B. destruct C' as [C'|C']; rewrite C'; subst l1; simpl; [assumption|now apply NoDup_lremove].
    - intros v'. destruct (N.eq_dec v v') as [<-|Hne].
      + destruct (HJ v) as (J1 & J2 & J3 & J4). unfold Jv; simpl. rewrite Hloc; simpl.
        split; [discriminate|]. split; [subst locs; now apply NoDup_lset|]. split.
        * rewrite C. apply E'; [apply incl_refl|]. subst l1; simpl.
          eapply okset_mono; [|exact J3]. intros x Hx; subst locs; apply In_lset; now right.
        * apply E; [subst locs; apply In_lset; now left|]. rewrite B'. subst l1; simpl.
          eapply okset_mono; [|exact J4]. intros x Hx; subst locs; apply In_lset; now right.
      + change (Jv (view_of (register_volume c ns vi n l) v')).
        rewrite (register_volume_frame c ns vi n v' l Hne). apply HJ.
  Qed.

  Lemma register_layout_own : forall ns vi n l, LJ l ->
    let l' := register_layout c ns vi n l in
    LJ l' /\ aget (vi_id vi) (l_loc l') = Some (lset n (loc l (vi_id vi))) /\
    I3v c ns (vi_id vi) (view_of l' (vi_id vi)).
  Proof.
    intros ns vi n l HL; unfold register_layout.
    destruct (register_volume_own ns vi n l HL) as [A B].
    destruct (ensure_own ns (vi_id vi) _ A) as (A' & B' & C').
    split; [exact A'|split; [|exact B']]. rewrite C'. exact B.
  Qed.

  Lemma unregister_volume_own : forall ns v n l, LJ l ->
    let l' := unregister_volume c ns v n l in
    LJ l' /\ (forall m, In m (loc l' v) <-> m <> n /\ In m (loc l v)) /\
    (I3v c ns v (view_of l v) -> I3v c ns v (view_of l' v)).
  Proof.
    intros ns v n l HL; unfold unregister_volume.
    destruct (aget v (l_loc l)) as [locs|] eqn:El.
    2:{ split; [exact HL|split; [|auto]]. intros m; unfold loc; rewrite El; simpl; tauto. }
    destruct (mem n locs) eqn:Em.
    2:{ split; [exact HL|split; [|auto]]. intros m; unfold loc; rewrite El; simpl.
        apply mem_false in Em. split; [intros H; split; [intros ->; tauto|assumption]|tauto]. }
    destruct HL as [Hnd HJ]. destruct (HJ v) as (J1 & J2 & J3 & J4). simpl in J2, J3, J4.
    rewrite El in J2, J3, J4; simpl in J2, J3, J4.
    set (l3 := with_os _ _).
    assert (HL3 : LJ l3).
    { split; [exact Hnd|]. intros v'. destruct (N.eq_dec v v') as [<-|Hne].
      - unfold Jv; subst l3; simpl. rewrite aget_aset_eq; simpl.
        split; [discriminate|]. split; [now apply NoDup_lremove|]. split; now apply okset_remove.
      - replace (view_of l3 v') with (view_of l v'); [apply HJ|].
        symmetry; subst l3; apply view_ext; simpl; auto;
          [now apply aget_aset_neq|now apply bs_remove_neq|now apply bs_remove_neq]. }
    destruct (ensure_own ns v l3 HL3) as (A & B & C).
    assert (Hloc4 : aget v (l_loc (ensure c ns v l3)) = Some (lremove n locs)).
    { rewrite C; subst l3; simpl; apply aget_aset_eq. }
    destruct (nlen (lremove n locs) =? 0) eqn:E0.
    - apply N.eqb_eq, nlen_nil in E0.
      assert (Hw : mem v (l_writ (ensure c ns v l3)) = false).
      { destruct (mem v (l_writ (ensure c ns v l3))) eqn:Ew; [|reflexivity].
        destruct (B Ew) as [B1 _]. simpl in B1. rewrite Hloc4, E0 in B1; simpl in B1.
        change (nlen []) with 0 in B1. rewrite enough_zero in B1; [discriminate|assumption]. }
      split; [split|split].
      + simpl; apply A.
      + intros v'. destruct (N.eq_dec v v') as [<-|Hne].
        * destruct A as [_ A]. destruct (A v) as (K1 & K2 & K3 & K4). simpl in K3, K4.
          rewrite Hloc4, E0 in K3, K4; simpl in K3, K4.
          unfold Jv; simpl. rewrite aget_adel_eq; simpl. repeat split; auto. constructor.
        * replace (view_of (with_loc (adel v (l_loc (ensure c ns v l3))) (ensure c ns v l3)) v')
            with (view_of (ensure c ns v l3) v'); [apply A|].
          symmetry; apply view_ext; simpl; auto. now apply aget_adel_neq.
      + intros m; unfold loc; simpl. rewrite aget_adel_eq, El; simpl.
        rewrite <- (In_lremove m n locs J2), E0. simpl; tauto.
      + intros _ Hw'. simpl in Hw'. rewrite Hw in Hw'; discriminate.
    - split; [exact A|split].
      + intros m; unfold loc. rewrite Hloc4, El; simpl. now apply In_lremove.
      + intros _; exact B.
  Qed.

  Lemma view_empty_of_LJ : forall l, LJ l -> l_loc l = [] -> forall v, view_of empty_layout v = view_of l v.
  Proof.
    intros l [_ HJ] He v. destruct (HJ v) as (J1 & J2 & J3 & J4).
    simpl in J1, J3, J4. rewrite He in J1, J3, J4; simpl in J1, J3, J4.
    apply okset_nil in J3. apply okset_nil in J4.
    unfold view_of; simpl. rewrite He, J3, J4, J1; reflexivity.
  Qed.

  Lemma LJ_empty : LJ empty_layout.
  Proof. split; [constructor|]. intros v; unfold Jv; simpl. repeat split; auto. constructor. Qed.

  Lemma unregister_layout_view : forall ns v n l, LJ l -> forall v',
    view_of (unregister_layout c ns v n l) v' = view_of (unregister_volume c ns v n l) v'.
  Proof.
    intros ns v n l HL v'; unfold unregister_layout.
    destruct (l_loc (unregister_volume c ns v n l)) eqn:E; [|reflexivity].
    apply view_empty_of_LJ; [|exact E]. apply (unregister_volume_own ns v n l HL).
  Qed.

  Lemma LJ_of_views : forall l l', LJ l -> NoDup (l_writ l') -> (forall v, view_of l' v = view_of l v) -> LJ l'.
  Proof. intros l l' [_ HJ] Hnd H; split; [exact Hnd|]. intros v; rewrite H; apply HJ. Qed.

  Lemma unregister_layout_own : forall ns v n l, LJ l ->
    let l' := unregister_layout c ns v n l in
    LJ l' /\ (forall m, In m (loc l' v) <-> m <> n /\ In m (loc l v)) /\
    (I3v c ns v (view_of l v) -> I3v c ns v (view_of l' v)).
  Proof.
    intros ns v n l HL.
    destruct (unregister_volume_own ns v n l HL) as (A & B & C).
    pose proof (unregister_layout_view ns v n l HL) as HV.
    split; [|split].
    - unfold unregister_layout in *. destruct (l_loc (unregister_volume c ns v n l)); [apply LJ_empty|exact A].
    - intros m. specialize (HV v). unfold loc.
      change (aget v (l_loc (unregister_layout c ns v n l))) with (w_loc (view_of (unregister_layout c ns v n l) v)).
      rewrite HV. apply B.
    - intros H. rewrite HV. now apply C.
  Qed.

  Lemma unregister_layout_frame : forall ns v n v' l, LJ l -> v <> v' ->
    view_of (unregister_layout c ns v n l) v' = view_of l v'.
  Proof.
    intros. rewrite unregister_layout_view by assumption. now apply unregister_volume_frame.
  Qed.

  Lemma enough_pred : forall k, enough c (N.succ k) = true -> c_copy c <= k -> enough c k = true.
  Proof.
    intros k H Hle; unfold enough in *. apply orb_true_iff in H. apply orb_true_iff.
    destruct H as [H|H].
    - apply N.eqb_eq in H. lia.
    - apply andb_true_iff in H; destruct H as [H1 H2]. apply N.ltb_lt in H2.
      destruct (N.eq_dec k (c_copy c)) as [->|Hne]; [left; apply N.eqb_refl|].
      right; rewrite H1; simpl. apply N.ltb_lt; lia.
  Qed.

  Lemma set_unavailable_own : forall ns n v l, LJ l ->
    let l' := set_unavailable c n v l in
    LJ l' /\ (forall m, In m (loc l' v) <-> m <> n /\ In m (loc l v)) /\
    (I3v c ns v (view_of l v) -> I3v c ns v (view_of l' v)).
  Proof.
    intros ns n v l HL; unfold set_unavailable.
    destruct (aget v (l_loc l)) as [locs|] eqn:El.
    2:{ split; [exact HL|split; [|auto]]. intros m; unfold loc; rewrite El; simpl; tauto. }
    destruct (mem n locs) eqn:Em.
    2:{ split; [exact HL|split; [|auto]]. intros m; unfold loc; rewrite El; simpl.
        apply mem_false in Em. split; [intros H; split; [intros ->; tauto|assumption]|tauto]. }
    destruct HL as [Hnd HJ]. destruct (HJ v) as (J1 & J2 & J3 & J4). simpl in J2, J3, J4.
    rewrite El in J2, J3, J4; simpl in J2, J3, J4.
    set (l3 := with_os _ _).
    assert (HL3 : LJ l3).
    { split; [exact Hnd|]. intros v'. destruct (N.eq_dec v v') as [<-|Hne].
      - unfold Jv; subst l3; simpl. rewrite aget_aset_eq; simpl.
        split; [discriminate|]. split; [now apply NoDup_lremove|]. split; now apply okset_remove.
      - replace (view_of l3 v') with (view_of l v'); [apply HJ|].
        symmetry; subst l3; apply view_ext; simpl; auto;
          [now apply aget_aset_neq|now apply bs_remove_neq|now apply bs_remove_neq]. }
    assert (Hloc3 : aget v (l_loc l3) = Some (lremove n locs)) by (subst l3; simpl; apply aget_aset_eq).
    assert (Hmem : forall m, In m (lremove n locs) <-> m <> n /\ In m locs) by (intros; now apply In_lremove).
    destruct (nlen (lremove n locs) <? c_copy c) eqn:Elt.
    - destruct (remove_writable_own v l3 HL3) as (A & B & C). split; [exact A|split].
      + intros m; unfold loc.
        change (aget v (l_loc (remove_writable v l3))) with (w_loc (view_of (remove_writable v l3) v)).
        rewrite C. change (w_loc (view_of l3 v)) with (aget v (l_loc l3)).
        rewrite Hloc3, El; simpl. apply Hmem.
      + intros _ Hw. rewrite B in Hw; discriminate.
    - split; [exact HL3|split].
      + intros m; unfold loc. rewrite Hloc3, El; simpl. apply Hmem.
      + intros H3 Hw. assert (Hw0 : w_w (view_of l v) = true) by exact Hw.
        destruct (H3 Hw0) as [H31 H32]. simpl in H31, H32. rewrite El in H31, H32; simpl in H31, H32.
        change (w_loc (view_of l3 v)) with (aget v (l_loc l3)). rewrite Hloc3; simpl. split.
        * apply N.ltb_ge in Elt. apply enough_pred; [|exact Elt].
          apply mem_In in Em. apply length_lremove in Em.
          unfold nlen in *. rewrite <- Em in H31. now rewrite Nat2N.inj_succ in H31.
        * intros m i Hin Hi. eapply H32; [|exact Hi]. eapply In_lremove_sub; eauto.
  Qed.
End Ops.

(* ---------- folds of per-vid operations ---------- *)
Section Fold.
  Variables (A : Type) (op : layout -> A -> layout) (key : A -> N).
  Hypothesis op_LJ : forall l a, LJ l -> LJ (op l a).
  Hypothesis op_frame : forall l a v, LJ l -> key a <> v -> view_of (op l a) v = view_of l v.

  Lemma fold_LJ : forall xs l, LJ l -> LJ (fold_left op xs l).
  Proof. induction xs as [|x xs IH]; intros l H; simpl; auto. Qed.

  Lemma fold_untouched : forall xs l v, LJ l -> ~ In v (map key xs) ->
    view_of (fold_left op xs l) v = view_of l v.
  Proof.
    induction xs as [|x xs IH]; intros l v HL Hni; simpl; [reflexivity|].
    simpl in Hni. rewrite IH; [apply op_frame|apply op_LJ|]; tauto.
  Qed.

  Lemma fold_touched : forall xs l v a, LJ l -> NoDup (map key xs) -> In a xs -> key a = v ->
    exists l1, LJ l1 /\ view_of l1 v = view_of l v /\
               view_of (fold_left op xs l) v = view_of (op l1 a) v.
  Proof.
    induction xs as [|x xs IH]; intros l v a HL Hnd Hin Hk; simpl in *; [contradiction|].
    inversion Hnd as [|? ? Hx Hnd']; subst.
    destruct Hin as [->|Hin].
    - exists l; split; [exact HL|split; [reflexivity|]].
      apply fold_untouched; [now apply op_LJ|assumption].
    - assert (Hne : key x <> key a).
      { intros E; apply Hx; rewrite E; now apply in_map. }
      destruct (IH (op l x) (key a) a (op_LJ l x HL) Hnd' Hin eq_refl) as (l1 & A1 & A2 & A3).
      exists l1; split; [exact A1|split; [|exact A3]]. rewrite A2. now apply op_frame.
  Qed.
End Fold.

(* ---------- DataNode.UpdateVolumes / DeltaUpdateVolumes ---------- *)
Definition is_new (vs : vols) (a : vinfo) : bool :=
  match aget (vi_id a) vs with None => true | Some _ => false end.
Definition is_chg (vs : vols) (a : vinfo) : bool :=
  match aget (vi_id a) vs with Some old => negb (Bool.eqb (vi_ro old) (vi_ro a)) | None => false end.

Lemma NoDup_map_filter : forall {A B} (f : A -> B) p (l : list A), NoDup (map f l) -> NoDup (map f (filter p l)).
Proof.
  induction l as [|x l IH]; simpl; intros H; [constructor|].
  inversion H as [|? ? Hx Hl]; subst. destruct (p x); simpl; [constructor|]; auto.
  intros Hin; apply Hx. apply in_map_iff in Hin. destruct Hin as (y & E & Hy).
  apply filter_In in Hy. rewrite <- E. apply in_map; tauto.
Qed.

Lemma fold_aou_spec : forall actual u, NoDup (map vi_id actual) ->
  let u' := fold_left add_or_update actual u in
  u_new u' = u_new u ++ filter (is_new (u_vols u)) actual /\
  u_chg u' = u_chg u ++ filter (is_chg (u_vols u)) actual /\
  (forall a, In a actual -> aget (vi_id a) (u_vols u') = Some a) /\
  (forall v, ~ In v (map vi_id actual) -> aget v (u_vols u') = aget v (u_vols u)) /\
  (NoDup (map fst (u_vols u)) -> NoDup (map fst (u_vols u'))).
Proof.
  induction actual as [|a rest IH]; intros u Hnd; simpl.
  - rewrite !app_nil_r; repeat split; auto; tauto.
  - inversion Hnd as [|? ? Ha Hrest]; subst.
    destruct (IH (add_or_update u a) Hrest) as (N1 & C1 & V1 & V2 & K1).
    assert (Hvols : u_vols (add_or_update u a) = aset (vi_id a) a (u_vols u)).
    { unfold add_or_update; destruct (aget (vi_id a) (u_vols u)); reflexivity. }
    assert (Hext : forall r, In r rest -> aget (vi_id r) (u_vols (add_or_update u a)) = aget (vi_id r) (u_vols u)).
    { intros r Hr. rewrite Hvols. apply aget_aset_neq. intros E; apply Ha; rewrite E; now apply in_map. }
    split; [|split; [|split; [|split]]].
    + rewrite N1. rewrite (filter_ext_in (is_new (u_vols (add_or_update u a))) (is_new (u_vols u))).
      2:{ intros r Hr; unfold is_new; now rewrite Hext. }
      unfold add_or_update, is_new at 2. destruct (aget (vi_id a) (u_vols u)); simpl; [reflexivity|].
      now rewrite <- app_assoc.
    + rewrite C1. rewrite (filter_ext_in (is_chg (u_vols (add_or_update u a))) (is_chg (u_vols u))).
      2:{ intros r Hr; unfold is_chg; now rewrite Hext. }
      unfold add_or_update, is_chg at 2. destruct (aget (vi_id a) (u_vols u)) as [old|]; simpl; [|reflexivity].
      destruct (Bool.eqb (vi_ro old) (vi_ro a)); simpl; [reflexivity|now rewrite <- app_assoc].
    + intros x [->|Hx]; [|now apply V1].
      rewrite V2 by assumption. rewrite Hvols. apply aget_aset_eq.
    + intros v Hv. rewrite V2 by tauto. rewrite Hvols. apply aget_aset_neq. tauto.
    + intros Hk. apply K1. rewrite Hvols. now apply NoDup_keys_aset.
Qed.

Lemma fold_adel_spec : forall (ds : list vinfo) (m : vols) v,
  aget v (fold_left (fun m d => adel (vi_id d) m) ds m) =
  if existsb (fun d => vi_id d =? v) ds then None else aget v m.
Proof.
  induction ds as [|d ds IH]; intros m v; simpl; [reflexivity|].
  rewrite IH. destruct (vi_id d =? v) eqn:E; simpl.
  - apply N.eqb_eq in E; subst. destruct (existsb _ ds); [reflexivity|apply aget_adel_eq].
  - destruct (existsb _ ds); [reflexivity|]. apply aget_adel_neq.
    intros Heq; rewrite Heq in E; now rewrite N.eqb_refl in E.
Qed.

Lemma fold_adel_keys : forall (ds : list vinfo) (m : vols),
  NoDup (map fst m) -> NoDup (map fst (fold_left (fun m d => adel (vi_id d) m) ds m)).
Proof. induction ds as [|d ds IH]; intros m H; simpl; [assumption|]. apply IH. now apply NoDup_keys_adel. Qed.

Lemma in_actual_spec : forall actual v, in_actual actual v = true <-> In v (map vi_id actual).
Proof.
  intros; unfold in_actual; rewrite existsb_exists, in_map_iff; split.
  - intros (a & Ha & E); apply N.eqb_eq in E; eauto.
  - intros (a & E & Ha); exists a; split; [assumption|now apply N.eqb_eq].
Qed.

Lemma existsb_id_spec : forall (ds : list vinfo) v, existsb (fun d => vi_id d =? v) ds = true <-> In v (map vi_id ds).
Proof. intros; apply (in_actual_spec ds v). Qed.

(* keys agree with the ids of the stored infos *)
Definition vols_ok (vs : vols) : Prop :=
  NoDup (map fst vs) /\ forall v i, aget v vs = Some i -> vi_id i = v.

Lemma deleted_of_spec : forall vs actual, vols_ok vs ->
  NoDup (map vi_id (deleted_of vs actual)) /\
  forall v, In v (map vi_id (deleted_of vs actual)) <-> (aget v vs <> None /\ ~ In v (map vi_id actual)).
Proof.
  intros vs actual [Hnd Hid]; unfold deleted_of.
  assert (Hmap : map vi_id (map snd (filter (fun p => negb (in_actual actual (fst p))) vs))
                 = map fst (filter (fun p => negb (in_actual actual (fst p))) vs)).
  { rewrite map_map. apply map_ext_in. intros [k i] Hin; simpl.
    apply filter_In in Hin. destruct Hin as [Hin _]. apply Hid. now apply In_aget. }
  rewrite Hmap. split; [now apply NoDup_map_filter|].
  intros v; rewrite in_map_iff; split.
  - intros ([k i] & E & Hin); simpl in E; subst k. apply filter_In in Hin; destruct Hin as [Hin Hf]; simpl in Hf.
    split.
    + rewrite (In_aget vs v i Hnd Hin); discriminate.
    + intros H; apply in_actual_spec in H. rewrite H in Hf; discriminate.
  - intros [H1 H2]. destruct (aget v vs) as [i|] eqn:E; [|congruence].
    exists (v, i); split; [reflexivity|]. apply filter_In; split; [now apply aget_In|]; simpl.
    destruct (in_actual actual v) eqn:Ea; [apply in_actual_spec in Ea; tauto|reflexivity].
Qed.

(* the volume map after deleting [dels] and adding/overwriting [news] (each id once) *)
Lemma after_update : forall vs dels news, vols_ok vs -> NoDup (map vi_id news) ->
  (forall a, In a news -> ~ In (vi_id a) (map vi_id dels)) ->
  let u := fold_left add_or_update news
             {| u_vols := fold_left (fun m d => adel (vi_id d) m) dels vs; u_new := []; u_chg := [] |} in
  vols_ok (u_vols u) /\
  (forall a, In a news -> aget (vi_id a) (u_vols u) = Some a) /\
  (forall v, ~ In v (map vi_id news) ->
     aget v (u_vols u) = if existsb (fun d => vi_id d =? v) dels then None else aget v vs) /\
  u_new u = filter (is_new vs) news /\ u_chg u = filter (is_chg vs) news.
Proof.
  intros vs dels news [Hnd Hid] Hn Hdisj u.
  set (vs1 := fold_left (fun m d => adel (vi_id d) m) dels vs) in *.
  destruct (fold_aou_spec news {| u_vols := vs1; u_new := []; u_chg := [] |} Hn) as (N1 & C1 & V1 & V2 & K1).
  fold u in N1, C1, V1, V2, K1. simpl in *.
  assert (Hvs1 : forall a, In a news -> aget (vi_id a) vs1 = aget (vi_id a) vs).
  { intros a Ha. subst vs1. rewrite fold_adel_spec.
    destruct (existsb _ dels) eqn:E; [|reflexivity].
    apply existsb_id_spec in E. exfalso; eapply Hdisj; eauto. }
  split; [split|split; [|split; [|split]]].
  - apply K1. subst vs1; now apply fold_adel_keys.
  - intros v i Hi. destruct (in_dec N.eq_dec v (map vi_id news)) as [Hin|Hni].
    + apply in_map_iff in Hin. destruct Hin as (a & E & Ha). rewrite <- E in Hi.
      rewrite V1 in Hi by assumption. inversion Hi; subst; reflexivity.
    + rewrite V2 in Hi by assumption. subst vs1. rewrite fold_adel_spec in Hi.
      destruct (existsb _ dels); [discriminate|]. now apply Hid.
  - exact V1.
  - intros v Hv. rewrite V2 by assumption. subst vs1. apply fold_adel_spec.
  - rewrite N1. apply filter_ext_in. intros a Ha; unfold is_new. now rewrite Hvs1.
  - rewrite C1. apply filter_ext_in. intros a Ha; unfold is_chg. now rewrite Hvs1.
Qed.

(* ---------- node maps ---------- *)
Definition nodes_ok (ns : nodes) : Prop :=
  NoDup (map fst ns) /\ forall n vs, aget n ns = Some vs -> vols_ok vs.

Lemma vols_ok_nil : vols_ok [].
Proof. split; [constructor|]. intros v i H; discriminate. Qed.

Lemma node_vols_ok : forall ns n, nodes_ok ns -> vols_ok (node_vols ns n).
Proof.
  intros ns n [_ H]; unfold node_vols. destruct (aget n ns) eqn:E; [eauto|apply vols_ok_nil].
Qed.

Lemma ginfo_node_vols : forall ns n v, ginfo ns n v = aget v (node_vols ns n).
Proof. intros; unfold ginfo, node_vols. now destruct (aget n ns). Qed.

Lemma ginfo_aset_eq : forall ns n vs v, ginfo (aset n vs ns) n v = aget v vs.
Proof. intros; unfold ginfo; now rewrite aget_aset_eq. Qed.

Lemma ginfo_aset_neq : forall ns n m vs v, n <> m -> ginfo (aset n vs ns) m v = ginfo ns m v.
Proof. intros; unfold ginfo; now rewrite aget_aset_neq. Qed.

Lemma ginfo_adel_eq : forall ns n v, ginfo (adel n ns) n v = None.
Proof. intros; unfold ginfo; now rewrite aget_adel_eq. Qed.

Lemma ginfo_adel_neq : forall ns n m v, n <> m -> ginfo (adel n ns) m v = ginfo ns m v.
Proof. intros; unfold ginfo; now rewrite aget_adel_neq. Qed.

Lemma nodes_ok_aset : forall ns n vs, nodes_ok ns -> vols_ok vs -> nodes_ok (aset n vs ns).
Proof.
  intros ns n vs [A B] Hv; split; [now apply NoDup_keys_aset|].
  intros m vs' H. destruct (N.eq_dec n m) as [<-|Hne].
  - rewrite aget_aset_eq in H; inversion H; now subst.
  - rewrite aget_aset_neq in H by assumption. eauto.
Qed.

Lemma nodes_ok_adel : forall ns n, nodes_ok ns -> nodes_ok (adel n ns).
Proof.
  intros ns n [A B]; split; [now apply NoDup_keys_adel|].
  intros m vs' H. destruct (N.eq_dec n m) as [<-|Hne].
  - rewrite aget_adel_eq in H; discriminate.
  - rewrite aget_adel_neq in H by assumption. eauto.
Qed.

Lemma ginfo_id : forall ns n v i, nodes_ok ns -> ginfo ns n v = Some i -> vi_id i = v.
Proof.
  intros ns n v i [_ H] Hi; unfold ginfo in Hi. destruct (aget n ns) as [vs|] eqn:E; [|discriminate].
  destruct (H n vs E) as [_ K]; eauto.
Qed.

Lemma loc_of_view : forall l l' v, view_of l v = view_of l' v -> loc l v = loc l' v.
Proof. intros l l' v H; unfold loc. change (aget v (l_loc l)) with (w_loc (view_of l v)). now rewrite H. Qed.

Lemma I3v_transfer : forall c ns ns' v w,
  (forall m i, In m (olist (w_loc w)) -> ginfo ns' m v = Some i ->
               exists i0, ginfo ns m v = Some i0 /\ vi_ro i0 = vi_ro i) ->
  I3v c ns v w -> I3v c ns' v w.
Proof.
  intros c ns ns' v w H H3 Hw. destruct (H3 Hw) as [A B]. split; [exact A|].
  intros m i Hin Hi. destruct (H m i Hin Hi) as (i0 & E0 & Er). rewrite <- Er. eauto.
Qed.

(* ---------- the invariant ---------- *)
Record Inv (c : cfg) (s : state) : Prop := {
  inv_LJ : LJ (s_lay s);
  inv_nodes : nodes_ok (s_nodes s);
  inv_loc : forall v m, In m (loc (s_lay s) v) <-> (exists i, ginfo (s_nodes s) m v = Some i);
  inv_w : forall v, I3v c (s_nodes s) v (view_of (s_lay s) v)
}.

Definition ids (l : list vinfo) : list N := map vi_id l.

Section Events.
  Variable c : cfg.
  Hypothesis Hc : 1 <= c_copy c.

  (* what the final view of vid v is after the three loops of SyncDataNodeRegistration *)
  Lemma three_phase : forall ns n news dels chg l0,
    LJ l0 -> NoDup (ids news) -> NoDup (ids dels) -> NoDup (ids chg) ->
    (forall v, In v (ids news) -> ~ In v (ids dels) /\ ~ In v (ids chg)) ->
    (forall v, In v (ids dels) -> ~ In v (ids chg)) ->
    let l1 := fold_left (fun l vi => register_layout c ns vi n l) news l0 in
    let l2 := fold_left (fun l vi => unregister_layout c ns (vi_id vi) n l) dels l1 in
    let l3 := fold_left (fun l vi => ensure c ns (vi_id vi) l) chg l2 in
    LJ l3 /\ forall v,
      (forall a, In a news -> vi_id a = v ->
         exists l', LJ l' /\ view_of l' v = view_of l0 v /\ view_of l3 v = view_of (register_layout c ns a n l') v) /\
      (In v (ids dels) ->
         exists l', LJ l' /\ view_of l' v = view_of l0 v /\ view_of l3 v = view_of (unregister_layout c ns v n l') v) /\
      (In v (ids chg) ->
         exists l', LJ l' /\ view_of l' v = view_of l0 v /\ view_of l3 v = view_of (ensure c ns v l') v) /\
      (~ In v (ids news) -> ~ In v (ids dels) -> ~ In v (ids chg) -> view_of l3 v = view_of l0 v).
  Proof.
    intros ns n news dels chg l0 HL0 Hn Hd Hg D1 D2 l1 l2 l3.
    assert (R_LJ : forall l (a : vinfo), LJ l -> LJ (register_layout c ns a n l)).
    { intros l a H; apply (register_layout_own c Hc ns a n l H). }
    assert (R_fr : forall l (a : vinfo) v, LJ l -> vi_id a <> v -> view_of (register_layout c ns a n l) v = view_of l v).
    { intros; now apply register_layout_frame. }
    assert (U_LJ : forall l (a : vinfo), LJ l -> LJ (unregister_layout c ns (vi_id a) n l)).
    { intros l a H; apply (unregister_layout_own c Hc ns (vi_id a) n l H). }
    assert (U_fr : forall l (a : vinfo) v, LJ l -> vi_id a <> v -> view_of (unregister_layout c ns (vi_id a) n l) v = view_of l v).
    { intros; now apply unregister_layout_frame. }
    assert (E_LJ : forall l (a : vinfo), LJ l -> LJ (ensure c ns (vi_id a) l)).
    { intros l a H; apply (ensure_own c Hc ns (vi_id a) l H). }
    assert (E_fr : forall l (a : vinfo) v, LJ l -> vi_id a <> v -> view_of (ensure c ns (vi_id a) l) v = view_of l v).
    { intros; now apply ensure_frame. }
    assert (HL1 : LJ l1) by (apply (fold_LJ vinfo _ R_LJ); assumption).
    assert (HL2 : LJ l2) by (apply (fold_LJ vinfo _ U_LJ); assumption).
    assert (HL3 : LJ l3) by (apply (fold_LJ vinfo _ E_LJ); assumption).
    split; [exact HL3|]. intros v. split; [|split; [|split]].
    - intros a Ha Hk.
      assert (Hin : In v (ids news)) by (rewrite <- Hk; now apply in_map).
      destruct (D1 v Hin) as [Nd Ng].
      destruct (fold_touched vinfo _ vi_id R_LJ R_fr news l0 v a HL0 Hn Ha Hk) as (l' & A1 & A2 & A3).
      exists l'; split; [exact A1|split; [exact A2|]].
      subst l3 l2. rewrite (fold_untouched vinfo _ vi_id E_LJ E_fr) by assumption.
      rewrite (fold_untouched vinfo _ vi_id U_LJ U_fr) by assumption. exact A3.
    - intros Hin.
      assert (Nn : ~ In v (ids news)) by (intros H; destruct (D1 v H); tauto).
      pose proof (D2 v Hin) as Ng.
      apply in_map_iff in Hin. destruct Hin as (a & Hk & Ha).
      destruct (fold_touched vinfo _ vi_id U_LJ U_fr dels l1 v a HL1 Hd Ha Hk) as (l' & A1 & A2 & A3).
      exists l'; split; [exact A1|split].
      + rewrite A2. subst l1. now apply (fold_untouched vinfo _ vi_id R_LJ R_fr).
      + subst l3. rewrite (fold_untouched vinfo _ vi_id E_LJ E_fr) by assumption.
        etransitivity; [exact A3|]. now rewrite Hk.
    - intros Hin.
      assert (Nn : ~ In v (ids news)) by (intros H; destruct (D1 v H); tauto).
      assert (Nd : ~ In v (ids dels)) by (intros H; apply (D2 v H); assumption).
      apply in_map_iff in Hin. destruct Hin as (a & Hk & Ha).
      destruct (fold_touched vinfo _ vi_id E_LJ E_fr chg l2 v a HL2 Hg Ha Hk) as (l' & A1 & A2 & A3).
      exists l'; split; [exact A1|split].
      + rewrite A2. subst l2. rewrite (fold_untouched vinfo _ vi_id U_LJ U_fr) by assumption.
        subst l1. now apply (fold_untouched vinfo _ vi_id R_LJ R_fr).
      + etransitivity; [exact A3|]. now rewrite Hk.
    - intros Nn Nd Ng. subst l3 l2 l1.
      rewrite (fold_untouched vinfo _ vi_id E_LJ E_fr) by assumption.
      rewrite (fold_untouched vinfo _ vi_id U_LJ U_fr) by assumption.
      now apply (fold_untouched vinfo _ vi_id R_LJ R_fr).
  Qed.

  (* the invariant at vid v after each kind of operation *)
  Definition loc_ok (ns : nodes) (l : layout) (v : N) : Prop :=
    forall m, In m (loc l v) <-> (exists i, ginfo ns m v = Some i).

  Lemma reg_case : forall ns0 ns n a l0 l' l3 v,
    vi_id a = v -> LJ l' -> view_of l' v = view_of l0 v ->
    view_of l3 v = view_of (register_layout c ns a n l') v ->
    loc_ok ns0 l0 v ->
    (forall m, n <> m -> ginfo ns m v = ginfo ns0 m v) -> (exists i, ginfo ns n v = Some i) ->
    loc_ok ns l3 v /\ I3v c ns v (view_of l3 v).
  Proof.
    intros ns0 ns n a l0 l' l3 v Hk HL Hv H3 H0 Hm Hn.
    destruct (register_layout_own c Hc ns a n l' HL) as (A & B & C). rewrite Hk in B, C.
    split; [|rewrite H3; exact C].
    intros m. rewrite (loc_of_view _ _ _ H3). unfold loc at 1. rewrite B; simpl.
    rewrite In_lset, (loc_of_view _ _ _ Hv), (H0 m).
    destruct (N.eq_dec n m) as [<-|Hne].
    - split; [intros _; exact Hn|intros _; now left].
    - rewrite (Hm m Hne). split; [intros [E|H]; [congruence|exact H]|intros H; now right].
  Qed.

  Lemma unreg_case : forall ns0 ns n l0 l' l3 v,
    LJ l' -> view_of l' v = view_of l0 v ->
    view_of l3 v = view_of (unregister_layout c ns v n l') v ->
    loc_ok ns0 l0 v -> I3v c ns0 v (view_of l0 v) ->
    (forall m, n <> m -> ginfo ns m v = ginfo ns0 m v) -> ginfo ns n v = None ->
    loc_ok ns l3 v /\ I3v c ns v (view_of l3 v).
  Proof.
    intros ns0 ns n l0 l' l3 v HL Hv H3 H0 HI Hm Hn.
    destruct (unregister_layout_own c Hc ns v n l' HL) as (A & B & C).
    split.
    - intros m. rewrite (loc_of_view _ _ _ H3), (B m), (loc_of_view _ _ _ Hv), (H0 m).
      destruct (N.eq_dec n m) as [<-|Hne].
      + rewrite Hn. split; [intros [H _]; congruence|intros [i Hi]; discriminate].
      + rewrite (Hm m Hne). split; [tauto|intros H; split; [congruence|exact H]].
    - rewrite H3. apply C. rewrite Hv. eapply I3v_transfer; [|exact HI].
      intros m i Hin Hi. destruct (N.eq_dec n m) as [<-|Hne]; [congruence|].
      rewrite (Hm m Hne) in Hi. eauto.
  Qed.

  Lemma ens_case : forall ns0 ns l0 l' l3 v,
    LJ l' -> view_of l' v = view_of l0 v ->
    view_of l3 v = view_of (ensure c ns v l') v ->
    loc_ok ns0 l0 v ->
    (forall m, (exists i, ginfo ns m v = Some i) <-> (exists i, ginfo ns0 m v = Some i)) ->
    loc_ok ns l3 v /\ I3v c ns v (view_of l3 v).
  Proof.
    intros ns0 ns l0 l' l3 v HL Hv H3 H0 Hm.
    destruct (ensure_own c Hc ns v l' HL) as (A & B & C).
    split; [|rewrite H3; exact B].
    intros m. rewrite (loc_of_view _ _ _ H3). unfold loc. rewrite C. fold (loc l' v).
    rewrite (loc_of_view _ _ _ Hv), (H0 m). symmetry; apply Hm.
  Qed.

  Lemma same_case : forall ns0 ns l0 l3 v,
    view_of l3 v = view_of l0 v ->
    loc_ok ns0 l0 v -> I3v c ns0 v (view_of l0 v) ->
    (forall m, (exists i, ginfo ns m v = Some i) <-> (exists i, ginfo ns0 m v = Some i)) ->
    (forall m i i0, ginfo ns m v = Some i -> ginfo ns0 m v = Some i0 -> vi_ro i0 = vi_ro i) ->
    loc_ok ns l3 v /\ I3v c ns v (view_of l3 v).
  Proof.
    intros ns0 ns l0 l3 v H3 H0 HI Hm Hr. split.
    - intros m. rewrite (loc_of_view _ _ _ H3), (H0 m). symmetry; apply Hm.
    - rewrite H3. eapply I3v_transfer; [|exact HI].
      intros m i Hin Hi. destruct (proj1 (Hm m) (ex_intro _ i Hi)) as [i0 Hi0].
      exists i0; split; [exact Hi0|eapply Hr; eauto].
  Qed.

  Lemma NoDup_map_inj : forall {A B} (f : A -> B) (l : list A) x y,
    NoDup (map f l) -> In x l -> In y l -> f x = f y -> x = y.
  Proof.
    induction l as [|z l IH]; intros x y Hnd Hx Hy E; simpl in *; [contradiction|].
    inversion Hnd as [|? ? Hz Hl]; subst.
    destruct Hx as [->|Hx]; destruct Hy as [->|Hy]; auto.
    - exfalso; apply Hz; rewrite E; now apply in_map.
    - exfalso; apply Hz; rewrite <- E; now apply in_map.
  Qed.

  (* SyncDataNodeRegistration *)
  Lemma sync_full_inv : forall n actual s, Inv c s -> NoDup (ids actual) -> Inv c (sync_full c n actual s).
  Proof.
    intros n actual s [HLJ Hns Hloc Hw] Hnd.
    unfold sync_full, update_volumes.
    set (ns0 := s_nodes s) in *. set (l0 := s_lay s) in *.
    set (vs0 := node_vols ns0 n).
    set (dels := deleted_of vs0 actual).
    pose proof (node_vols_ok _ n Hns) as Hvs0. fold vs0 in Hvs0.
    destruct (deleted_of_spec vs0 actual Hvs0) as [Dnd Dspec]. fold dels in Dnd, Dspec.
    assert (Hdisj : forall a, In a actual -> ~ In (vi_id a) (map vi_id dels)).
    { intros a Ha H. apply Dspec in H. destruct H as [_ H]. apply H. now apply in_map. }
    destruct (after_update vs0 dels actual Hvs0 Hnd Hdisj) as (Vok & V1 & V2 & Un & Uc).
    set (u := fold_left add_or_update actual _) in *.
    set (ns := aset n (u_vols u) ns0).
    assert (Nnew : NoDup (ids (u_new u))) by (rewrite Un; now apply NoDup_map_filter).
    assert (Nchg : NoDup (ids (u_chg u))) by (rewrite Uc; now apply NoDup_map_filter).
    assert (InNew : forall v, In v (ids (u_new u)) <-> exists a, In a actual /\ vi_id a = v /\ aget v vs0 = None).
    { intros v; unfold ids; rewrite Un, in_map_iff; split.
      - intros (a & E & Ha). apply filter_In in Ha. destruct Ha as [Ha Hf]. exists a; repeat split; auto.
        unfold is_new in Hf. rewrite E in Hf. now destruct (aget v vs0).
      - intros (a & Ha & E & Hn). exists a; split; [exact E|]. apply filter_In; split; [exact Ha|].
        unfold is_new. now rewrite E, Hn. }
    assert (InChg : forall v, In v (ids (u_chg u)) <->
              exists a old, In a actual /\ vi_id a = v /\ aget v vs0 = Some old /\ vi_ro old <> vi_ro a).
    { intros v; unfold ids; rewrite Uc, in_map_iff; split.
      - intros (a & E & Ha). apply filter_In in Ha. destruct Ha as [Ha Hf].
        unfold is_chg in Hf. rewrite E in Hf. destruct (aget v vs0) as [old|]; [|discriminate].
        exists a, old; repeat split; auto. intros Er. rewrite Er, eqb_reflx in Hf. discriminate.
      - intros (a & old & Ha & E & Ho & Hr). exists a; split; [exact E|]. apply filter_In; split; [exact Ha|].
        unfold is_chg. rewrite E, Ho. apply negb_true_iff. apply eqb_false_iff. exact Hr. }
    assert (D1 : forall v, In v (ids (u_new u)) -> ~ In v (ids dels) /\ ~ In v (ids (u_chg u))).
    { intros v Hv. apply InNew in Hv. destruct Hv as (a & Ha & E & Hn). split.
      - intros H. apply Dspec in H. destruct H as [H _]. congruence.
      - intros H. apply InChg in H. destruct H as (a' & old & _ & _ & Ho & _). congruence. }
    assert (D2 : forall v, In v (ids dels) -> ~ In v (ids (u_chg u))).
    { intros v Hv H. apply Dspec in Hv. destruct Hv as [_ Hv]. apply InChg in H.
      destruct H as (a & old & Ha & E & _). apply Hv. rewrite <- E. now apply in_map. }
    destruct (three_phase ns n (u_new u) dels (u_chg u) l0 HLJ Nnew Dnd Nchg D1 D2) as [HL3 Hview].
    set (l3 := fold_left _ (u_chg u) _) in *.
    assert (Hm : forall v m, n <> m -> ginfo ns m v = ginfo ns0 m v).
    { intros; subst ns; now apply ginfo_aset_neq. }
    assert (Hn : forall v, ginfo ns n v = aget v (u_vols u)) by (intros; subst ns; apply ginfo_aset_eq).
    assert (Hn0 : forall v, ginfo ns0 n v = aget v vs0) by (intros; apply ginfo_node_vols).
    assert (Hall : forall v, loc_ok ns l3 v /\ I3v c ns v (view_of l3 v)).
    { intros v. destruct (Hview v) as (VR & VU & VE & VS).
      assert (Hex : forall P, (forall m, n <> m -> P m) -> P n -> forall m, P m).
      { intros P H1 H2 m. destruct (N.eq_dec n m) as [<-|Hne]; auto. }
      destruct (in_dec N.eq_dec v (ids actual)) as [Hin|Hni].
      - apply in_map_iff in Hin. destruct Hin as (a & E & Ha).
        assert (Hnv : ginfo ns n v = Some a) by (rewrite Hn, <- E; now apply V1).
        destruct (aget v vs0) as [old|] eqn:Eo.
        + destruct (bool_dec (vi_ro old) (vi_ro a)) as [Er|Er].
          * (* only the size may have changed *)
            assert (Nn : ~ In v (ids (u_new u))).
            { intros H; apply InNew in H. destruct H as (_ & _ & _ & H). congruence. }
            assert (Nd : ~ In v (ids dels)).
            { intros H; apply Dspec in H. destruct H as [_ H]. apply H. rewrite <- E. now apply in_map. }
            assert (Ng : ~ In v (ids (u_chg u))).
            { intros H; apply InChg in H. destruct H as (a' & old' & Ha' & E' & Ho' & Hr').
              assert (a' = a) by (eapply (NoDup_map_inj vi_id actual); eauto; congruence). subst a'.
              rewrite Eo in Ho'. inversion Ho'; subst. contradiction. }
            apply (same_case ns0 ns l0 l3 v (VS Nn Nd Ng) (Hloc v) (Hw v)).
            -- apply Hex.
               ++ intros m Hne. now rewrite (Hm v m Hne).
               ++ rewrite Hnv, Hn0, Eo. split; eauto.
            -- intros m i i0. destruct (N.eq_dec n m) as [<-|Hne].
               ++ rewrite Hnv, Hn0, Eo. intros H1 H2; inversion H1; inversion H2; subst. exact Er.
               ++ rewrite (Hm v m Hne). intros H1 H2; rewrite H1 in H2; inversion H2; reflexivity.
          * assert (Hg : In v (ids (u_chg u))) by (apply InChg; exists a, old; auto).
            destruct (VE Hg) as (l' & A1 & A2 & A3).
            apply (ens_case ns0 ns l0 l' l3 v A1 A2 A3 (Hloc v)).
            apply Hex.
            -- intros m Hne. now rewrite (Hm v m Hne).
            -- rewrite Hnv, Hn0, Eo. split; eauto.
        + assert (Hnw : In a (u_new u)).
          { rewrite Un. apply filter_In; split; [exact Ha|]. unfold is_new. now rewrite E, Eo. }
          destruct (VR a Hnw E) as (l' & A1 & A2 & A3).
          apply (reg_case ns0 ns n a l0 l' l3 v E A1 A2 A3 (Hloc v) (Hm v)). eauto.
      - assert (Nn : ~ In v (ids (u_new u))).
        { intros H; apply InNew in H. destruct H as (a & Ha & E & _). apply Hni. rewrite <- E. now apply in_map. }
        assert (Ng : ~ In v (ids (u_chg u))).
        { intros H; apply InChg in H. destruct H as (a & old & Ha & E & _). apply Hni. rewrite <- E. now apply in_map. }
        pose proof (V2 v Hni) as Hv2.
        destruct (aget v vs0) as [old|] eqn:Eo.
        + assert (Hd : In v (ids dels)) by (apply Dspec; split; [congruence|exact Hni]).
          destruct (VU Hd) as (l' & A1 & A2 & A3).
          apply (unreg_case ns0 ns n l0 l' l3 v A1 A2 A3 (Hloc v) (Hw v) (Hm v)).
          rewrite Hn, Hv2. apply existsb_id_spec in Hd. now rewrite Hd.
        + assert (Nd : ~ In v (ids dels)).
          { intros H; apply Dspec in H. destruct H as [H _]. congruence. }
          assert (Hnone : ginfo ns n v = None).
          { rewrite Hn, Hv2. now destruct (existsb _ dels). }
          apply (same_case ns0 ns l0 l3 v (VS Nn Nd Ng) (Hloc v) (Hw v)).
          * apply Hex.
            -- intros m Hne. now rewrite (Hm v m Hne).
            -- rewrite Hnone, Hn0, Eo. tauto.
          * intros m i i0. destruct (N.eq_dec n m) as [<-|Hne].
            -- rewrite Hnone. discriminate.
            -- rewrite (Hm v m Hne). intros H1 H2; rewrite H1 in H2; inversion H2; reflexivity. }
    constructor; simpl.
    - exact HL3.
    - now apply nodes_ok_aset.
    - intros v m. apply (proj1 (Hall v)).
    - intros v. apply (proj2 (Hall v)).
  Qed.

  Lemma ids_short : forall l, ids (map short_info l) = l.
  Proof. intros; unfold ids; rewrite map_map; simpl. apply map_id. Qed.

  (* IncrementalSyncDataNodeRegistration *)
  Lemma sync_incr_inv : forall n news dels s, Inv c s ->
    NoDup news -> NoDup dels -> (forall v, In v news -> ~ In v dels) ->
    Inv c (sync_incr c n news dels s).
  Proof.
    intros n news dels s [HLJ Hns Hloc Hw] Hnn Hnd Hdj.
    unfold sync_incr, delta_update_volumes.
    set (ns0 := s_nodes s) in *. set (l0 := s_lay s) in *.
    set (vs0 := node_vols ns0 n).
    set (nv := map short_info news). set (dv := map short_info dels).
    pose proof (node_vols_ok _ n Hns) as Hvs0. fold vs0 in Hvs0.
    assert (Inv_ids : ids nv = news) by apply ids_short.
    assert (Idv_ids : ids dv = dels) by apply ids_short.
    assert (Hnn' : NoDup (map vi_id nv)) by (fold (ids nv); now rewrite Inv_ids).
    assert (Hdisj : forall a, In a nv -> ~ In (vi_id a) (map vi_id dv)).
    { intros a Ha. fold (ids dv). rewrite Idv_ids. apply Hdj. rewrite <- Inv_ids. now apply in_map. }
    destruct (after_update vs0 dv nv Hvs0 Hnn' Hdisj) as (Vok & V1 & V2 & _ & _).
    set (u := fold_left add_or_update nv _) in *.
    set (ns := aset n (u_vols u) ns0).
    assert (N1 : NoDup (ids nv)) by now rewrite Inv_ids.
    assert (N2 : NoDup (ids dv)) by now rewrite Idv_ids.
    assert (N3 : NoDup (ids [])) by constructor.
    assert (D1 : forall v, In v (ids nv) -> ~ In v (ids dv) /\ ~ In v (ids [])).
    { intros v Hv. rewrite Inv_ids in Hv. rewrite Idv_ids. split; [now apply Hdj|simpl; tauto]. }
    assert (D2 : forall v, In v (ids dv) -> ~ In v (ids [])) by (simpl; tauto).
    destruct (three_phase ns n nv dv [] l0 HLJ N1 N2 N3 D1 D2) as [HL3 Hview]. simpl in HL3, Hview.
    set (l3 := fold_left (fun l vi => unregister_layout c ns (vi_id vi) n l) dv _) in *.
    assert (Hm : forall v m, n <> m -> ginfo ns m v = ginfo ns0 m v).
    { intros; subst ns; now apply ginfo_aset_neq. }
    assert (Hn : forall v, ginfo ns n v = aget v (u_vols u)) by (intros; subst ns; apply ginfo_aset_eq).
    assert (Hn0 : forall v, ginfo ns0 n v = aget v vs0) by (intros; apply ginfo_node_vols).
    assert (Hall : forall v, loc_ok ns l3 v /\ I3v c ns v (view_of l3 v)).
    { intros v. destruct (Hview v) as (VR & VU & _ & VS).
      assert (Hex : forall P, (forall m, n <> m -> P m) -> P n -> forall m, P m).
      { intros P H1 H2 m. destruct (N.eq_dec n m) as [<-|Hne]; auto. }
      destruct (in_dec N.eq_dec v news) as [Hin|Hni].
      - assert (Ha : In (short_info v) nv) by (subst nv; now apply in_map).
        destruct (VR (short_info v) Ha eq_refl) as (l' & A1 & A2 & A3).
        apply (reg_case ns0 ns n (short_info v) l0 l' l3 v eq_refl A1 A2 A3 (Hloc v) (Hm v)).
        exists (short_info v). rewrite Hn. apply (V1 (short_info v) Ha).
      - assert (Hni' : ~ In v (map vi_id nv)) by (fold (ids nv); now rewrite Inv_ids).
        pose proof (V2 v Hni') as Hv2.
        destruct (in_dec N.eq_dec v dels) as [Hd|Hnd'].
        + assert (Hd' : In v (ids dv)) by now rewrite Idv_ids.
          destruct (VU Hd') as (l' & A1 & A2 & A3).
          apply (unreg_case ns0 ns n l0 l' l3 v A1 A2 A3 (Hloc v) (Hw v) (Hm v)).
          rewrite Hn, Hv2. apply existsb_id_spec in Hd'. now rewrite Hd'.
        + assert (Hd' : ~ In v (ids dv)) by now rewrite Idv_ids.
          assert (Hsame : ginfo ns n v = ginfo ns0 n v).
          { rewrite Hn, Hv2, Hn0. destruct (existsb _ dv) eqn:E; [|reflexivity].
            apply existsb_id_spec in E. contradiction. }
          assert (Hn' : ~ In v (ids nv)) by now rewrite Inv_ids.
          apply (same_case ns0 ns l0 l3 v (VS Hn' Hd' (fun H => H)) (Hloc v) (Hw v)).
          * apply Hex; [intros m Hne; now rewrite (Hm v m Hne)|now rewrite Hsame].
          * intros m i i0. destruct (N.eq_dec n m) as [<-|Hne].
            -- rewrite Hsame. intros H1 H2; rewrite H1 in H2; inversion H2; reflexivity.
            -- rewrite (Hm v m Hne). intros H1 H2; rewrite H1 in H2; inversion H2; reflexivity. }
    constructor; simpl.
    - exact HL3.
    - now apply nodes_ok_aset.
    - intros v m. apply (proj1 (Hall v)).
    - intros v. apply (proj2 (Hall v)).
  Qed.

  (* a sweep of the full-volume collector only removes vids from writables *)
  Lemma collect_spec : forall vs l, LJ l ->
    let l' := fold_left (fun l v => set_capacity_full v l) vs l in
    LJ l' /\ l_loc l' = l_loc l /\
    (forall v, mem v (l_writ l') = true -> mem v (l_writ l) = true /\ ~ In v vs).
  Proof.
    induction vs as [|x vs IH]; intros l HL; simpl.
    - split; [exact HL|split; [reflexivity|]]. intros v Hv; split; [exact Hv|tauto].
    - destruct (remove_writable_own x l HL) as (A & B & C).
      destruct (IH (remove_writable x l) A) as (A' & B' & C').
      split; [exact A'|split; [exact B'|]].
      intros v Hv. destruct (C' v Hv) as [Hm Hni]. simpl in Hm.
      destruct (N.eq_dec x v) as [<-|Hne].
      + simpl in B. unfold set_capacity_full in *. congruence.
      + rewrite mem_lremove_neq in Hm by assumption. split; [exact Hm|]. intros [H|H]; auto.
  Qed.

  Lemma collect_inv : forall s, Inv c s -> Inv c (collect_full c s).
  Proof.
    intros s [HLJ Hns Hloc Hw]; unfold collect_full.
    destruct (collect_spec (full_vids c (s_nodes s)) (s_lay s) HLJ) as (A & B & C).
    constructor; simpl.
    - exact A.
    - exact Hns.
    - intros v m. unfold loc. rewrite B. apply Hloc.
    - intros v Hv. simpl in Hv. destruct (C v Hv) as [Hv0 _].
      destruct (Hw v Hv0) as [W1 W2]. simpl in *. rewrite B. split; assumption.
  Qed.

  (* UnRegisterDataNode *)
  Lemma disconnect_inv : forall n s, Inv c s -> Inv c (disconnect c n s).
  Proof.
    intros n s [HLJ Hns Hloc Hw]; unfold disconnect.
    set (ns0 := s_nodes s) in *. set (l0 := s_lay s) in *.
    set (vs0 := node_vols ns0 n).
    pose proof (node_vols_ok _ n Hns) as [Hk _]. fold vs0 in Hk.
    assert (S_LJ : forall l (p : N * vinfo), LJ l -> LJ (set_unavailable c n (fst p) l)).
    { intros l p H; apply (set_unavailable_own c Hc ns0 n (fst p) l H). }
    assert (S_fr : forall l (p : N * vinfo) v, LJ l -> fst p <> v -> view_of (set_unavailable c n (fst p) l) v = view_of l v).
    { intros; now apply set_unavailable_frame. }
    set (l3 := fold_left _ vs0 l0).
    assert (HL3 : LJ l3) by (apply (fold_LJ (N * vinfo) _ S_LJ); assumption).
    set (ns := adel n ns0).
    assert (Hn0 : forall v, ginfo ns0 n v = aget v vs0) by (intros; apply ginfo_node_vols).
    assert (Hall : forall v, loc_ok ns l3 v /\ I3v c ns v (view_of l3 v)).
    { intros v.
      assert (Htr : forall w, I3v c ns0 v w -> I3v c ns v w).
      { intros w. apply I3v_transfer. intros m i _ Hi. destruct (N.eq_dec n m) as [<-|Hne].
        - subst ns. rewrite ginfo_adel_eq in Hi. discriminate.
        - subst ns. rewrite ginfo_adel_neq in Hi by assumption. eauto. }
      assert (Hex : forall m, (exists i, ginfo ns m v = Some i) <-> (m <> n /\ exists i, ginfo ns0 m v = Some i)).
      { intros m. subst ns. destruct (N.eq_dec n m) as [<-|Hne].
        - rewrite ginfo_adel_eq. split; [intros [i H]; discriminate|intros [H _]; congruence].
        - rewrite ginfo_adel_neq by assumption. split; [intros H; split; [congruence|exact H]|tauto]. }
      destruct (in_dec N.eq_dec v (map fst vs0)) as [Hin|Hni].
      - apply in_map_iff in Hin. destruct Hin as (p & E & Hp).
        destruct (fold_touched (N * vinfo) _ fst S_LJ S_fr vs0 l0 v p HLJ Hk Hp E) as (l' & A1 & A2 & A3).
        fold l3 in A3. rewrite E in A3.
        destruct (set_unavailable_own c Hc ns0 n v l' A1) as (B1 & B2 & B3).
        split.
        + intros m. rewrite (loc_of_view _ _ _ A3), (B2 m), (loc_of_view _ _ _ A2), (Hloc v m). symmetry; apply Hex.
        + rewrite A3. apply Htr, B3. rewrite A2. apply Hw.
      - assert (Hv : view_of l3 v = view_of l0 v).
        { subst l3. now apply (fold_untouched (N * vinfo) _ fst S_LJ S_fr). }
        assert (Hnone : ginfo ns0 n v = None).
        { rewrite Hn0. destruct (aget v vs0) eqn:E; [|reflexivity].
          exfalso; apply Hni. apply aget_In in E. change v with (fst (v, v0)). now apply in_map. }
        split.
        + intros m. rewrite (loc_of_view _ _ _ Hv), (Hloc v m), (Hex m).
          split; [intros [i Hi]; split; [intros ->; congruence|eauto]|tauto].
        + rewrite Hv. apply Htr, Hw. }
    constructor; simpl.
    - exact HL3.
    - now apply nodes_ok_adel.
    - intros v m. apply (proj1 (Hall v)).
    - intros v. apply (proj2 (Hall v)).
  Qed.

  Lemma nodupb_spec : forall l, nodupb l = true -> NoDup l.
  Proof.
    induction l as [|x l IH]; simpl; intros H; [constructor|].
    apply andb_true_iff in H. destruct H as [H1 H2]. constructor; [|auto].
    apply negb_true_iff in H1. now apply mem_false.
  Qed.

  Lemma init_inv : Inv c init.
  Proof.
    constructor; simpl.
    - apply LJ_empty.
    - split; [constructor|]. intros n vs H; discriminate.
    - intros v m. split; [intros []|intros [i H]; discriminate].
    - intros v H; discriminate.
  Qed.

  Lemma step_inv : forall s e, Inv c s -> wf_event e = true -> Inv c (step c s e).
  Proof.
    intros s [n vs|n news dels| |n] HI Hwf; simpl in *.
    - apply sync_full_inv; [assumption|]. now apply nodupb_spec.
    - apply andb_true_iff in Hwf. destruct Hwf as [Hwf H3]. apply andb_true_iff in Hwf. destruct Hwf as [H1 H2].
      apply sync_incr_inv; [assumption|now apply nodupb_spec|now apply nodupb_spec|].
      intros v Hv. rewrite forallb_forall in H3. specialize (H3 v Hv).
      apply negb_true_iff in H3. now apply mem_false.
    - now apply collect_inv.
    - now apply disconnect_inv.
  Qed.

  Lemma run_inv : forall es s, Inv c s -> forallb wf_event es = true -> Inv c (run c s es).
  Proof.
    induction es as [|e es IH]; intros s HI Hwf; simpl in *; [assumption|].
    apply andb_true_iff in Hwf. destruct Hwf as [H1 H2].
    apply IH; [now apply step_inv|assumption].
  Qed.

End Events.

(* ---------- the registered state: holders ---------- *)
Lemma holders_spec : forall ns v n, nodes_ok ns ->
  (In n (holders ns v) <-> exists i, ginfo ns n v = Some i).
Proof.
  intros ns v n [Hnd _]; unfold holders, ginfo. rewrite in_map_iff. split.
  - intros ([k vs] & E & Hin); simpl in E; subst k. apply filter_In in Hin. destruct Hin as [Hin Hf]; simpl in Hf.
    rewrite (In_aget ns n vs Hnd Hin). destruct (aget v vs); [eauto|discriminate].
  - intros [i Hi]. destruct (aget n ns) as [vs|] eqn:E; [|discriminate].
    exists (n, vs); split; [reflexivity|]. apply filter_In; split; [now apply aget_In|]; simpl. now rewrite Hi.
Qed.

Lemma holders_NoDup : forall ns v, nodes_ok ns -> NoDup (holders ns v).
Proof. intros ns v [Hnd _]; unfold holders. now apply NoDup_map_filter. Qed.

Lemma NoDup_same_length : forall (l1 l2 : list N), NoDup l1 -> NoDup l2 ->
  (forall x, In x l1 <-> In x l2) -> nlen l1 = nlen l2.
Proof.
  intros l1 l2 H1 H2 H. unfold nlen. f_equal. apply Permutation_length. now apply NoDup_Permutation.
Qed.

(* all registered sizes are below the limit *)
Definition small (c : cfg) (ns : nodes) : Prop :=
  forall n v i, ginfo ns n v = Some i -> vi_size i < c_limit c.

Section Theorems.
  Variable c : cfg.
  Hypothesis Hc : 1 <= c_copy c.

  Definition wf_history (es : list event) : Prop := forallb wf_event es = true.

  Lemma reach_inv : forall es, wf_history es -> Inv c (run c init es).
  Proof. intros es H; apply run_inv; [assumption|apply init_inv|exact H]. Qed.

  (* Lookup returns exactly the registered servers, each once *)
  Lemma lookup_exact : forall es, wf_history es -> forall v,
    let s := run c init es in
    NoDup (lookup s v) /\ forall n, In n (lookup s v) <-> In n (holders (s_nodes s) v).
  Proof.
    intros es Hwf v s. destruct (reach_inv es Hwf) as [[_ HJ] Hns Hloc _]. fold s in HJ, Hns, Hloc.
    split.
    - destruct (HJ v) as (_ & J2 & _). exact J2.
    - intros n. unfold lookup. rewrite (Hloc v n). symmetry. now apply holders_spec.
  Qed.

  Lemma inv_lookup_len : forall s v, Inv c s -> nlen (loc (s_lay s) v) = nlen (holders (s_nodes s) v).
  Proof.
    intros s v [[_ HJ] Hns Hloc _]. apply NoDup_same_length.
    - destruct (HJ v) as (_ & J2 & _). exact J2.
    - now apply holders_NoDup.
    - intros n. rewrite (Hloc v n). symmetry. now apply holders_spec.
  Qed.

  (* the part of the criterion that holds on every history: replica count and writability *)
  Lemma writable_copies_rw_inv : forall s v, Inv c s -> writable s v = true ->
    enough c (nlen (holders (s_nodes s) v)) = true /\
    forallb (replica_rw (s_nodes s) v) (holders (s_nodes s) v) = true.
  Proof.
    intros s v HI Hw. pose proof (inv_lookup_len s v HI) as Hlen.
    destruct HI as [HLJ Hns Hloc H3]. destruct (H3 v Hw) as [A B]. simpl in A, B.
    fold (loc (s_lay s) v) in A, B. split; [now rewrite <- Hlen|].
    apply forallb_forall. intros n Hn. apply (holders_spec _ _ _ Hns) in Hn. destruct Hn as [i Hi].
    unfold replica_rw. rewrite Hi. apply negb_true_iff. apply (B n i); [|exact Hi].
    apply Hloc. eauto.
  Qed.

  Lemma crit_of_parts : forall ns v, nodes_ok ns ->
    enough c (nlen (holders ns v)) = true ->
    forallb (replica_rw ns v) (holders ns v) = true ->
    (forall n i, ginfo ns n v = Some i -> vi_size i < c_limit c) ->
    crit c ns v = true.
  Proof.
    intros ns v Hns A B S. unfold crit. rewrite A; simpl. apply forallb_forall. intros n Hn.
    rewrite forallb_forall in B. specialize (B n Hn). unfold replica_rw in B. unfold replica_ok.
    destruct (ginfo ns n v) as [i|] eqn:E; [|discriminate]. rewrite B; simpl.
    apply N.ltb_lt. eauto.
  Qed.

  (* sizes stay below the limit as long as no full heartbeat reports one at or over it *)
  Lemma small_step : forall s e, 0 < c_limit c -> Inv c s -> wf_event e = true ->
    reports_full c e = false -> small c (s_nodes s) -> small c (s_nodes (step c s e)).
  Proof.
    intros s e Hl HI Hwf Hr Hs. destruct HI as [_ Hns _ _].
    destruct e as [n actual|n news dels| |n]; simpl in *.
    - unfold sync_full, update_volumes.
      set (vs0 := node_vols (s_nodes s) n). set (dels := deleted_of vs0 actual).
      pose proof (node_vols_ok _ n Hns) as Hvs0. fold vs0 in Hvs0.
      apply nodupb_spec in Hwf.
      destruct (deleted_of_spec vs0 actual Hvs0) as [_ Dspec]. fold dels in Dspec.
      assert (Hdisj : forall a, In a actual -> ~ In (vi_id a) (map vi_id dels)).
      { intros a Ha H. apply Dspec in H. destruct H as [_ H]. apply H. now apply in_map. }
      destruct (after_update vs0 dels actual Hvs0 Hwf Hdisj) as (_ & V1 & V2 & _ & _).
      set (u := fold_left add_or_update actual _) in *. simpl.
      intros m v i Hi. destruct (N.eq_dec n m) as [<-|Hne].
      + rewrite ginfo_aset_eq in Hi.
        destruct (in_dec N.eq_dec v (map vi_id actual)) as [Hin|Hni].
        * apply in_map_iff in Hin. destruct Hin as (a & E & Ha).
          rewrite <- E, (V1 a Ha) in Hi. inversion Hi; subst i.
          destruct (c_limit c <=? vi_size a) eqn:El; [|now apply N.leb_gt].
          exfalso. assert (existsb (fun vi => c_limit c <=? vi_size vi) actual = true).
          { apply existsb_exists; eauto. } congruence.
        * rewrite (V2 v Hni) in Hi. destruct (existsb _ dels); [discriminate|].
          apply (Hs n v i). now rewrite ginfo_node_vols.
      + rewrite ginfo_aset_neq in Hi by assumption. eauto.
    - unfold sync_incr, delta_update_volumes.
      set (vs0 := node_vols (s_nodes s) n).
      set (nv := map short_info news). set (dv := map short_info dels).
      pose proof (node_vols_ok _ n Hns) as Hvs0. fold vs0 in Hvs0.
      apply andb_true_iff in Hwf. destruct Hwf as [Hwf H3]. apply andb_true_iff in Hwf. destruct Hwf as [H1 H2].
      apply nodupb_spec in H1. apply nodupb_spec in H2.
      assert (Hnn' : NoDup (map vi_id nv)) by (fold (ids nv); subst nv; now rewrite ids_short).
      assert (Hdisj : forall a, In a nv -> ~ In (vi_id a) (map vi_id dv)).
      { intros a Ha. fold (ids dv). subst dv. rewrite ids_short.
        subst nv. apply in_map_iff in Ha. destruct Ha as (x & <- & Hx). simpl.
        rewrite forallb_forall in H3. specialize (H3 x Hx). apply negb_true_iff in H3. now apply mem_false. }
      destruct (after_update vs0 dv nv Hvs0 Hnn' Hdisj) as (_ & V1 & V2 & _ & _).
      set (u := fold_left add_or_update nv _) in *. simpl.
      intros m v i Hi. destruct (N.eq_dec n m) as [<-|Hne].
      + rewrite ginfo_aset_eq in Hi.
        destruct (in_dec N.eq_dec v (map vi_id nv)) as [Hin|Hni].
        * apply in_map_iff in Hin. destruct Hin as (a & E & Ha).
          rewrite <- E, (V1 a Ha) in Hi. inversion Hi; subst i.
          subst nv. apply in_map_iff in Ha. destruct Ha as (x & <- & _). simpl. exact Hl.
        * rewrite (V2 v Hni) in Hi. destruct (existsb _ dv); [discriminate|].
          apply (Hs n v i). now rewrite ginfo_node_vols.
      + rewrite ginfo_aset_neq in Hi by assumption. eauto.
    - exact Hs.
    - intros m v i Hi. destruct (N.eq_dec n m) as [<-|Hne].
      + rewrite ginfo_adel_eq in Hi. discriminate.
      + rewrite ginfo_adel_neq in Hi by assumption. eauto.
  Qed.

  Lemma small_run : forall es s, 0 < c_limit c -> Inv c s -> forallb wf_event es = true ->
    trigger_size c es = false -> small c (s_nodes s) -> small c (s_nodes (run c s es)).
  Proof.
    induction es as [|e es IH]; intros s Hl HI Hwf Ht Hs; simpl in *; [assumption|].
    apply andb_true_iff in Hwf. destruct Hwf as [W1 W2].
    apply orb_false_iff in Ht. destruct Ht as [T1 T2].
    apply IH; auto; [now apply step_inv|now apply small_step].
  Qed.

  (* C11, clause 1, the statement at full strength *)
  Definition writable_sound : Prop :=
    forall es, wf_history es -> forall v,
      let s := run c init es in writable s v = true -> crit c (s_nodes s) v = true.

  (* what holds on every history *)
  Lemma writable_copies_rw : forall es, wf_history es -> forall v,
    let s := run c init es in
    writable s v = true ->
    enough c (nlen (holders (s_nodes s) v)) = true /\
    forallb (replica_rw (s_nodes s) v) (holders (s_nodes s) v) = true.
  Proof. intros es Hwf v s. apply writable_copies_rw_inv. now apply reach_inv. Qed.

  (* the whole criterion when no full heartbeat reports a size at or over the limit *)
  Lemma writable_sound_partial : 0 < c_limit c ->
    forall es, wf_history es -> trigger_size c es = false -> forall v,
      let s := run c init es in writable s v = true -> crit c (s_nodes s) v = true.
  Proof.
    intros Hl es Hwf Ht v s Hw. pose proof (reach_inv es Hwf) as HI. fold s in HI.
    destruct (writable_copies_rw_inv s v HI Hw) as [A B].
    apply crit_of_parts; auto; [apply HI|].
    intros n i Hi. eapply (small_run es init Hl (init_inv c) Hwf Ht); [|exact Hi].
    intros n' v' i' H; discriminate.
  Qed.

  (* ... and on every history right after a sweep of the full-volume collector *)
  Lemma full_vids_spec : forall ns n v i, nodes_ok ns -> ginfo ns n v = Some i ->
    c_limit c <= vi_size i -> In v (full_vids c ns).
  Proof.
    intros ns n v i Hns Hi Hsz. pose proof (ginfo_id ns n v i Hns Hi) as Hid.
    unfold ginfo in Hi. destruct (aget n ns) as [vs|] eqn:E; [|discriminate].
    unfold full_vids. apply in_flat_map. exists (n, vs); split; [now apply aget_In|]. simpl.
    apply in_map_iff. exists (v, i); split; [exact Hid|]. apply filter_In; split; [now apply aget_In|]. simpl.
    now apply N.leb_le.
  Qed.

  Lemma writable_sound_after_collect : forall es, wf_history es -> forall v,
    let s := run c init (es ++ [ECollect]) in writable s v = true -> crit c (s_nodes s) v = true.
  Proof.
    intros es Hwf v s Hw.
    assert (Hwf' : wf_history (es ++ [ECollect])).
    { unfold wf_history in *. rewrite forallb_app, Hwf. reflexivity. }
    pose proof (reach_inv _ Hwf') as HI. fold s in HI.
    destruct (writable_copies_rw_inv s v HI Hw) as [A B].
    apply crit_of_parts; auto; [apply HI|].
    intros n i Hi.
    assert (Hs : s = collect_full c (run c init es)).
    { subst s. unfold run. rewrite fold_left_app. reflexivity. }
    pose proof (reach_inv es Hwf) as HI0.
    destruct (collect_spec (full_vids c (s_nodes (run c init es))) (s_lay (run c init es)) (inv_LJ _ _ HI0)) as (_ & _ & C).
    rewrite Hs in Hw, Hi. unfold writable, collect_full in Hw. simpl in Hw, Hi.
    destruct (C v Hw) as [_ Hni].
    destruct (N.lt_ge_cases (vi_size i) (c_limit c)) as [Hlt|Hge]; [exact Hlt|].
    exfalso; apply Hni. eapply full_vids_spec; eauto. apply HI0.
  Qed.
End Theorems.

(* ---------- the confirmed defect: a volume removed as full is re-admitted ---------- *)
Definition cfg000 : cfg := {| c_copy := 1; c_asmin := false; c_limit := 100 |}.
Definition vi (v sz : N) (ro : bool) : vinfo := {| vi_id := v; vi_size := sz; vi_ro := ro |}.
Definition readmit_history : list event :=
  [EFull 1 [vi 1 10 false]; EFull 1 [vi 1 150 false]; ECollect;
   EFull 1 [vi 1 150 true]; EFull 1 [vi 1 150 false]].

Lemma writable_sound_refuted : ~ writable_sound cfg000.
Proof.
  intros H. specialize (H readmit_history eq_refl 1). vm_compute in H. specialize (H eq_refl). discriminate.
Qed.

(* the size clause also fails between a size report and the next sweep *)
Lemma size_lag_witness :
  let s := run cfg000 init [EFull 1 [vi 1 10 false]; EFull 1 [vi 1 150 false]] in
  writable s 1 = true /\ crit cfg000 (s_nodes s) 1 = false.
Proof. vm_compute; split; reflexivity. Qed.

(* non-vacuity: a two-replica history that is well formed, has no trigger, and
   ends with volume 1 writable and volume 2 not (one replica read-only) *)
Definition cfg001 : cfg := {| c_copy := 2; c_asmin := false; c_limit := 100 |}.
Definition sample_history : list event :=
  [EFull 1 [vi 1 10 false; vi 2 20 false]; EIncr 2 [1] []; EFull 2 [vi 1 30 false; vi 2 20 true];
   EDisconnect 1; EFull 1 [vi 1 10 false; vi 2 20 false]].
Lemma sample_history_ok :
  wf_history sample_history /\ trigger_size cfg001 sample_history = false /\
  let s := run cfg001 init sample_history in
  writable s 1 = true /\ writable s 2 = false /\ lookup s 1 = [2; 1] /\ crit cfg001 (s_nodes s) 1 = true.
Proof. vm_compute; repeat split; reflexivity. Qed.
