(* C22: the invariant is preserved by every step that does not fall under a known-finding
   trigger; the subscriber has always received exactly the events in (t0, lastRead]. *)
From Coq Require Import List ZArith NArith Bool Lia.
From SW Require Import model.LogBuf proof.LogBufProofs proof.LogBufInv.
Import ListNotations.
Local Open Scope Z_scope.

(* ---------- the persisted log ---------- *)
Definition later (t : Z) (e : entry) : bool := t <? e_ts e.

Lemma read_disk_gen : forall t d acc v,
  read_disk t d acc v =
  (acc ++ filter (later t) (concat d),
   match d with [] => v | _ => last_ts (filter (later t) (last d [])) 0 end).
Proof.
  intros t d. induction d as [|g d IH]; intros acc v.
  - cbn [read_disk concat filter]. rewrite app_nil_r. reflexivity.
  - cbn [read_disk read_seg concat]. fold (later t). rewrite IH, filter_app, app_assoc.
    f_equal. destruct d as [|g' d]; reflexivity.
Qed.

Lemma last_ts_default : forall l d d', l <> [] -> last_ts l d = last_ts l d'.
Proof. destruct l as [|x l]; intros; [congruence|]. rewrite !last_ts_cons. reflexivity. Qed.

Lemma filter_later_nil : forall t l, filter (later t) l = [] -> forall e, In e l -> e_ts e <= t.
Proof.
  induction l as [|x l IH]; intros H e He; [contradiction|]. cbn [filter] in H.
  destruct (later t x) eqn:E; [discriminate|]. unfold later in E. destruct He as [<-|He]; [lia|auto].
Qed.

Lemma filter_later_all_le : forall t l, (forall e, In e l -> e_ts e <= t) -> filter (later t) l = [].
Proof.
  induction l as [|x l IH]; intros H; [reflexivity|]. cbn [filter].
  assert (e_ts x <= t) by (apply H; left; reflexivity). unfold later at 1.
  destruct (t <? e_ts x) eqn:E; [lia|]. apply IH. intros; apply H; right; auto.
Qed.

Lemma disk_processed : forall t d lo, incr lo (concat d) -> (forall g, In g d -> g <> []) ->
  match d with [] => 0 | _ => last_ts (filter (later t) (last d [])) 0 end
  = last_ts (filter (later t) (concat d)) 0.
Proof.
  intros t d lo Hinc Hne. destruct d as [|g0 d0] eqn:Hd; [reflexivity|]. rewrite <- Hd in *.
  assert (Hnn : d <> []) by (rewrite Hd; congruence).
  destruct (exists_last Hnn) as [d' [g Heq]]. rewrite Heq in *. rewrite last_last.
  destruct d' as [|a d'']; [| ]; cbn [app]; rewrite ?concat_app; cbn [concat]; rewrite ?app_nil_r.
  - reflexivity.
  - change ((a :: d'') ++ [g]) with ((a :: d'') ++ [g]).
    replace (match (a :: d'') ++ [g] with [] => 0 | _ :: _ => last_ts (filter (later t) g) 0 end)
      with (last_ts (filter (later t) g) 0) by reflexivity.
    change (a ++ concat (d'' ++ [g])) with (concat ((a :: d'') ++ [g])).
    rewrite concat_app. cbn [concat]. rewrite app_nil_r, filter_app, last_ts_app.
    destruct (filter (later t) g) as [|x l] eqn:Hf.
    + rewrite last_ts_nil.
      assert (Hg : g <> []) by (apply Hne; apply in_or_app; right; left; reflexivity).
      destruct g as [|x g]; [congruence|].
      assert (Hx : e_ts x <= t) by (apply (filter_later_nil _ _ Hf); left; reflexivity).
      rewrite filter_later_all_le; [reflexivity|].
      intros e He. rewrite concat_app in Hinc. cbn [concat] in Hinc. rewrite app_nil_r in Hinc.
      pose proof (incr_app_lt _ _ _ e x Hinc He (or_introl eq_refl)). lia.
    + apply last_ts_default. congruence.
Qed.

Lemma disk_read_spec : forall gh s t X p, InvCore gh s ->
  read_disk t (disk s) [] 0 = (X, p) ->
  X = filter (later t) (concat (disk s)) /\ p = last_ts X 0 /\ splits (E_of gh s) t X.
Proof.
  intros gh s t X p HI H. rewrite read_disk_gen in H. cbn [app] in H. inversion H; subst X p; clear H.
  pose proof (i_incr _ _ HI) as Hinc. rewrite <- (i_disk _ _ HI) in Hinc.
  assert (Hd : incr 0 (concat (disk s))) by (apply incr_app in Hinc; tauto).
  split; [reflexivity|]. split.
  - apply (disk_processed t (disk s) 0 Hd (i_dne _ _ HI)).
  - destruct (incr_split _ 0 t Hd) as [pre [suf [Heq [Hp [Hs Hf]]]]]. fold (later t) in Hf.
    rewrite <- Hf. exists pre, (concat (map g_data (queue s)) ++ cur s). split; [|split; auto].
    rewrite <- (i_disk _ _ HI), Heq, <- app_assoc. reflexivity.
Qed.

(* ---------- frame: InvCore only looks at these fields ---------- *)
Lemma InvCore_ext : forall gh s s',
  cur s' = cur s -> lastTs s' = lastTs s -> lastFlush s' = lastFlush s ->
  s0 s' = s0 s -> s1 s' = s1 s -> s2 s' = s2 s ->
  disk s' = disk s -> queue s' = queue s -> inflight s' = inflight s ->
  InvCore gh s -> InvCore gh s'.
Proof.
  intros gh s s' H1 H2 H3 H4 H5 H6 H7 H8 H9 HI.
  assert (HE : E_of gh s' = E_of gh s) by (unfold E_of; rewrite H1; reflexivity).
  destruct HI. constructor; rewrite ?HE, ?H1, ?H2, ?H3, ?H4, ?H5, ?H6, ?H7, ?H8, ?H9; assumption.
Qed.

Lemma slot_is_mono : forall lf lf' m o, lf <= lf' -> slot_is lf m o -> slot_is lf' m o.
Proof.
  intros lf lf' m o Hle H. destruct o as [g|]; cbn [slot_is] in *; [|exact H].
  destruct H as [A [B [C D]]]. repeat split; auto. destruct D; [left; lia|right; auto].
Qed.

Lemma pos_zero_iff : forall s, (pos s =? 0) = true <-> cur s = [].
Proof.
  intros s. unfold pos. split; intros H.
  - apply recs_len_zero. lia.
  - rewrite H. reflexivity.
Qed.

(* the pieces of E are increasing from 0 *)
Lemma E_pieces : forall gh s, InvCore gh s ->
  incr 0 (ev_old gh) /\ incr 0 (dat (r0 gh)) /\ incr 0 (dat (r1 gh)) /\ incr 0 (dat (r2 gh)).
Proof.
  intros gh s HI. pose proof (i_incr _ _ HI) as Hinc. unfold E_of in Hinc.
  split; [apply incr_app in Hinc; tauto|].
  split; [destruct (incr_sub _ _ _ _ Hinc); [auto|lia]|].
  split.
  - rewrite app_assoc in Hinc. destruct (incr_sub _ _ _ _ Hinc); [auto|lia].
  - rewrite app_assoc, app_assoc in Hinc. destruct (incr_sub _ _ _ _ Hinc); [auto|lia].
Qed.

(* ---------- copyToFlush ---------- *)
Lemma seal_inv : forall gh s, Inv gh s -> trig_seal s = false ->
  exists gh', Inv gh' (seal true s) /\ E_of gh' (seal true s) = E_of gh s.
Proof.
  intros gh s [HI Hcur] Htr. unfold seal. destruct (pos s =? 0) eqn:Ep.
  { exists gh. split; [split; assumption|reflexivity]. }
  assert (Hne : cur s <> []).
  { intro Hc. apply pos_zero_iff in Hc. congruence. }
  unfold cur_times in Hcur. destruct (cur s) as [|x l] eqn:Hc; [congruence|]. destruct Hcur as [Hst Hsp].
  set (g := {| g_start := startT s; g_stop := stopT s; g_data := x :: l |}).
  assert (Hg : seg_ok g).
  { unfold seg_ok, g. cbn. split; [congruence|]. split; assumption. }
  exists {| ev_old := ev_old gh ++ dat (r0 gh); r0 := r1 gh; r1 := r2 gh; r2 := Some g |}.
  assert (HE : forall c', ev_old gh ++ dat (r0 gh) ++ dat (r1 gh) ++ dat (r2 gh) ++ x :: l
               = (ev_old gh ++ dat (r0 gh)) ++ dat (r1 gh) ++ dat (r2 gh) ++ (x :: l) ++ c' -> True) by auto.
  assert (HEq : (ev_old gh ++ dat (r0 gh)) ++ dat (r1 gh) ++ dat (r2 gh) ++ (x :: l) ++ []
                = E_of gh s).
  { unfold E_of. rewrite Hc, app_nil_r, <- !app_assoc. reflexivity. }
  destruct (E_pieces _ _ HI) as [_ [Hi0 _]].
  split; [split|].
  - assert (HEq' := HEq). unfold E_of in HEq'.
    constructor; unfold E_of;
      cbn [ev_old r0 r1 r2 dat cur lastTs lastFlush s0 s1 s2 disk queue inflight g g_data];
      rewrite ?HEq'; fold (E_of gh s).
    + apply (i_incr _ _ HI).
    + apply (i_last _ _ HI).
    + apply (i_last0 _ _ HI).
    + apply (i_len _ _ HI).
    + apply (i_ok1 _ _ HI).
    + apply (i_ok2 _ _ HI).
    + exact Hg.
    + apply (i_s1 _ _ HI).
    + apply (i_s2 _ _ HI).
    + cbn [slot_is m_start m_stop m_size m_arr g g_start g_stop g_data]. repeat split.
      * unfold pos. rewrite Hc. reflexivity.
      * right. exists (tail s). reflexivity.
    + intros e He. apply in_app_or in He. destruct He as [He|He]; [apply (i_old _ _ HI); auto|].
      pose proof (i_s0 _ _ HI) as Hs0. pose proof (i_ok0 _ _ HI) as Hk0.
      destruct (r0 gh) as [g0|]; [|destruct He]. cbn [dat slot_is oseg_ok] in *.
      destruct Hs0 as [A [B [C D]]].
      pose proof (seg_ok_bounds g0 0 e Hk0 Hi0 He) as [Hb _].
      unfold trig_seal in Htr. rewrite Ep in Htr. cbn [negb andb] in Htr.
      assert (0 < m_size (s0 s)).
      { rewrite C. destruct Hk0 as [Hn _]. destruct (g_data g0) as [|y yl]; [congruence|].
        cbn [recs_len fold_right]. pose proof (rec_len_ge4 y). pose proof (recs_len_nonneg yl).
        unfold recs_len in *. lia. }
      destruct (0 <? m_size (s0 s)) eqn:E1; [|lia]. cbn [andb] in Htr. lia.
    + rewrite map_app, concat_app. cbn [map concat g_data]. rewrite !app_nil_r.
      rewrite <- (i_disk _ _ HI), Hc, <- ?app_assoc. reflexivity.
    + apply (i_dne _ _ HI).
    + intros g' Hg'. apply in_app_or in Hg'. destruct Hg' as [Hg'|[<-|[]]]; [apply (i_q _ _ HI); auto|exact Hg].
    + apply (i_lf _ _ HI).
    + apply (i_infl _ _ HI).
  - unfold cur_times. cbn [cur stopT]. lia.
  - unfold E_of at 1. cbn [ev_old r0 r1 r2 dat cur g g_data]. exact HEq.
Qed.

(* ---------- the write at the end of AddToBuffer ---------- *)
Lemma write_inv : forall gh s e,
  InvCore gh s -> lastTs s < e_ts e -> 0 < e_len e ->
  match cur s with [] => startT s = e_ts e | x :: _ => startT s = e_ts x end ->
  Inv gh (write s e) /\ E_of gh (write s e) = E_of gh s ++ [e].
Proof.
  intros gh s e HI Hts Hlen Hstart.
  assert (HE : E_of gh (write s e) = E_of gh s ++ [e]).
  { unfold E_of. cbn [write cur]. rewrite <- !app_assoc. reflexivity. }
  split; [|exact HE]. split.
  - constructor; rewrite ?HE; cbn [write lastTs lastFlush s0 s1 s2 disk queue inflight cur].
    + apply incr_app. split; [apply (i_incr _ _ HI)|]. cbn [incr]. split; [|exact I].
      destruct (E_of gh s) as [|y yl] eqn:Hy; [rewrite last_ts_nil; pose proof (i_last0 _ _ HI); lia|].
      destruct (last_ts_in (y :: yl) 0 ltac:(congruence)) as [el [Hin Hel]]. rewrite <- Hel.
      rewrite <- Hy in Hin. pose proof (i_last _ _ HI el Hin). lia.
    + intros x Hx. apply in_app_or in Hx. destruct Hx as [Hx|[<-|[]]]; [|lia].
      pose proof (i_last _ _ HI x Hx). lia.
    + pose proof (i_last0 _ _ HI). lia.
    + intros x Hx. apply in_app_or in Hx. destruct Hx as [Hx|[<-|[]]]; [apply (i_len _ _ HI); auto|exact Hlen].
    + apply (i_ok0 _ _ HI).
    + apply (i_ok1 _ _ HI).
    + apply (i_ok2 _ _ HI).
    + apply (i_s0 _ _ HI).
    + apply (i_s1 _ _ HI).
    + apply (i_s2 _ _ HI).
    + apply (i_old _ _ HI).
    + rewrite <- (i_disk _ _ HI), <- !app_assoc. reflexivity.
    + apply (i_dne _ _ HI).
    + apply (i_q _ _ HI).
    + apply (i_lf _ _ HI).
    + apply (i_infl _ _ HI).
  - unfold cur_times. cbn [write cur startT stopT]. destruct (cur s) as [|x l]; cbn [app].
    + split; [exact Hstart|]. rewrite last_ts_cons, last_ts_nil. reflexivity.
    + split; [exact Hstart|]. rewrite last_ts_cons, last_ts_app, last_ts_cons, last_ts_nil. reflexivity.
Qed.
