(* Proofs about model/FilerNS.v (C18): moveEntry / AtomicRenameEntry. *)
From Coq Require Import List NArith Bool String Arith Lia Permutation.
From SW Require Import model.FilerNS proof.FilerNSBase proof.FilerNSCreate proof.FilerNSDelete.
Import ListNotations.
Local Open Scope list_scope.

(* ================= well-formedness is kept in every case ================= *)
Lemma iter_err_pres : forall {X} (step : store -> X -> store * err) (P : store -> Prop),
  (forall s x, P s -> P (fst (step s x))) ->
  forall xs s, P s -> P (fst (iter_err step xs s)).
Proof.
  intros X step P H xs. induction xs as [|x xs IH]; intros s Hs; simpl; auto.
  specialize (H s x Hs). destruct (step s x) as [s1 r]. simpl in H.
  destruct (is_err r); simpl; auto.
Qed.

Lemma move_entry_wf : forall f s oldp e newp, wf s -> wf (fst (move_entry f s oldp e newp)).
Proof.
  induction f as [|f IH]; intros s oldp e newp Hwf; [exact Hwf|].
  cbn [move_entry]. destruct (path_eqb oldp newp); [exact Hwf|].
  pose proof (create_entry_wf s newp (strip_hl e) false Hwf) as H1.
  destruct (create_entry s newp (strip_hl e) false) as [s1 r1]. simpl in H1.
  destruct (is_err r1); [exact H1|].
  assert (H2 : wf (fst (if e_dir e
                        then iter_err (fun s0 (c : name * entry) => move_entry f s0 (child oldp (fst c)) (snd c) (child newp (fst c)))
                                      (list_children s1 oldp) s1
                        else (s1, OK)))).
  { destruct (e_dir e); [|exact H1]. apply iter_err_pres; auto. }
  destruct (if e_dir e then _ else _) as [s2 r2]. simpl in H2.
  destruct (is_err r2); [exact H2|]. apply delete_entry_wf. exact H2.
Qed.

Theorem rename_wf : forall s od on nd nn, wf s -> wf (fst (rename s od on nd nn)).
Proof.
  intros s od on nd nn Hwf. unfold rename, rename_fuel.
  destruct (is_prefix (child od on) nd); [exact Hwf|].
  destruct (find_entry s (child od on)); [|exact Hwf]. apply move_entry_wf. exact Hwf.
Qed.

(* ================= disjoint paths ================= *)
Definition disjoint (a b : path) : Prop := is_prefix a b = false /\ is_prefix b a = false.

Lemma app_cons_assoc : forall (p : path) n r, p ++ n :: r = (p ++ [n]) ++ r.
Proof. intros. rewrite <- app_assoc. reflexivity. Qed.

Lemma disjoint_strip : forall a b r, disjoint a b -> strip_prefix a (b ++ r) = None.
Proof.
  intros a b r [H1 H2]. apply strip_prefix_none. intros t Ht. symmetry in Ht.
  destruct (prefix_comparable _ _ _ _ Ht) as [[u Hu]|[u Hu]].
  - rewrite is_prefix_false in H1. apply (H1 u). exact Hu.
  - rewrite is_prefix_false in H2. apply (H2 u). exact Hu.
Qed.

Lemma disjoint_sym : forall a b, disjoint a b -> disjoint b a.
Proof. intros a b [H1 H2]. split; assumption. Qed.

Lemma disjoint_child : forall a b n, disjoint a b -> disjoint (a ++ [n]) (b ++ [n]).
Proof.
  intros a b n H. split; apply is_prefix_false; intros r Hr.
  - assert (E : strip_prefix a (b ++ [n]) = None) by (apply disjoint_strip; exact H).
    rewrite Hr, <- app_assoc, strip_prefix_app in E. discriminate.
  - assert (E : strip_prefix b (a ++ [n]) = None) by (apply disjoint_strip, disjoint_sym; exact H).
    rewrite Hr, <- app_assoc, strip_prefix_app in E. discriminate.
Qed.

Lemma disjoint_neq : forall a b, disjoint a b -> a <> b.
Proof. intros a b [H _] E. subst. rewrite is_prefix_refl in H. discriminate. Qed.

Lemma strip_child_same : forall (a : path) n r, strip_prefix (a ++ [n]) (a ++ n :: r) = Some r.
Proof. intros a n r. rewrite (app_cons_assoc a n r). apply strip_prefix_app. Qed.

Lemma strip_child_other : forall (a : path) n n' r, n <> n' -> strip_prefix (a ++ [n]) (a ++ n' :: r) = None.
Proof.
  intros a n n' r H. rewrite strip_prefix_child, strip_prefix_app.
  destruct (String.eqb_spec n n'); congruence.
Qed.

Lemma strip_dis_child : forall (a b : path) n n' r, disjoint a b -> strip_prefix (a ++ [n]) (b ++ n' :: r) = None.
Proof. intros a b n n' r H. rewrite strip_prefix_child, (disjoint_strip a b (n' :: r) H). reflexivity. Qed.

(* the result of strip_prefix on a child, read backwards *)
Lemma strip_child_inv : forall (a : path) n q r, strip_prefix (a ++ [n]) q = Some r -> q = a ++ n :: r.
Proof. intros a n q r H. apply strip_prefix_spec in H. rewrite H. symmetry. apply app_cons_assoc. Qed.

(* ================= moving a subtree to a free place ================= *)
Definition moved_find (s : store) (oldp newp : path) (base : path -> option entry) (q : path) : option entry :=
  match strip_prefix newp q with
  | Some r => option_map strip_hl (find s (oldp ++ r))
  | None => match strip_prefix oldp q with Some _ => None | None => base q end
  end.

(* the namespace after the implicit ancestors of p were created from tmpl *)
Definition with_ancestors (s : store) (p : path) (tmpl : entry) (q : path) : option entry :=
  match find s q with
  | Some y => Some y
  | None => if existsb (path_eqb q) (ancestors p) then Some (implicit_dir tmpl) else None
  end.

Lemma with_ancestors_exist : forall s p tmpl x, tree_ok s -> find s p = Some x ->
  forall q, with_ancestors s p tmpl q = find s q.
Proof.
  intros s p tmpl x Hs Hp q. unfold with_ancestors. destruct (find s q) eqn:Eq; auto.
  destruct (path_cases p) as [->|[d [n ->]]]; [reflexivity|].
  rewrite ancestors_mem. destruct (nonroot q) eqn:Nq; auto. simpl.
  destruct (is_prefix q d) eqn:Pq; auto.
  apply is_prefix_true in Pq. destruct Pq as [t ->].
  rewrite <- app_assoc in Hp. rewrite (wf_absent_below s Hs q (t ++ [n])) in Hp; auto; [discriminate|].
  destruct q; [discriminate|congruence].
Qed.

Lemma strip_hl_dir : forall e, e_dir (strip_hl e) = e_dir e.
Proof. reflexivity. Qed.

Lemma move_entry_clean : forall f s oldp e newp, wf s -> oldp <> [] -> newp <> [] ->
  disjoint oldp newp ->
  find s oldp = Some e ->
  (forall m r, find s (newp ++ m :: r) = None) ->
  (forall en, find s newp = Some en -> e_dir en = e_dir e) ->
  has_file_ancestor s newp = false ->
  (forall q x, find s q = Some x -> is_prefix oldp q = true -> List.length q < List.length oldp + f) ->
  exists s', move_entry f s oldp e newp = (s', OK) /\ wf s' /\
    forall q, find s' q = moved_find s oldp newp (with_ancestors s newp (strip_hl e)) q.
Proof.
  induction f as [|f IH]; intros s oldp e newp Hwf Hop Hnp Hdis He Hbelow Htype Hanc Hb.
  - exfalso. specialize (Hb oldp e He (is_prefix_refl oldp)). lia.
  - cbn [move_entry].
    destruct (path_eqb_spec oldp newp) as [E|_]; [exfalso; exact (disjoint_neq _ _ Hdis E)|].
    set (B := with_ancestors s newp (strip_hl e)).
    (* step 1: CreateEntry of the target *)
    assert (H1 : exists s1, create_entry s newp (strip_hl e) false = (s1, OK) /\ wf s1 /\
                 forall q, find s1 q = if path_eqb newp q then Some (strip_hl e) else B q).
    { destruct (create_entry s newp (strip_hl e) false) as [s1 r1] eqn:Ec.
      destruct (create_entry_spec _ _ _ _ _ _ Hwf Hnp Ec) as [Hwf1 Hc].
      destruct (find s newp) as [en|] eqn:En.
      - rewrite strip_hl_dir, (Htype en eq_refl) in Hc.
        destruct (e_dir e); simpl in Hc; destruct Hc as [-> ->]; exists (insert s newp (strip_hl e));
          (split; [reflexivity|split; [exact Hwf1|]]); intro q; rewrite find_insert;
          destruct (path_eqb newp q); auto; unfold B; symmetry; eapply with_ancestors_exist; eauto; apply Hwf.
      - destruct Hc as [[_ [_ Hh]]|[-> [_ Hf]]]; [congruence|].
        exists s1. split; [reflexivity|]. split; [exact Hwf1|]. exact Hf. }
    destruct H1 as [s1 [Hc [Hwf1 Hf1]]]. rewrite Hc. cbn [is_err].
    assert (B1 : forall r, B (oldp ++ r) = find s (oldp ++ r)).
    { intro r. unfold B, with_ancestors. destruct (find s (oldp ++ r)) eqn:Eq; auto.
      destruct (path_cases newp) as [->|[d [n ->]]]; [reflexivity|].
      rewrite ancestors_mem. destruct (is_prefix (oldp ++ r) d) eqn:Pq; [|now rewrite andb_false_r].
      exfalso. apply is_prefix_true in Pq. destruct Pq as [t ->].
      destruct Hdis as [Hd _]. rewrite is_prefix_false in Hd. apply (Hd (r ++ t ++ [n])).
      rewrite <- !app_assoc. reflexivity. }
    assert (B2 : forall m r, B (newp ++ m :: r) = None).
    { intros m r. unfold B, with_ancestors. rewrite Hbelow.
      destruct (path_cases newp) as [->|[d [n ->]]]; [reflexivity|].
      rewrite ancestors_mem. destruct (is_prefix ((d ++ [n]) ++ m :: r) d) eqn:Pq; [|now rewrite andb_false_r].
      exfalso. apply is_prefix_true in Pq. destruct Pq as [t Ht].
      assert (L : List.length d = List.length (((d ++ [n]) ++ m :: r) ++ t)) by congruence.
      rewrite !app_length in L. simpl in L. lia. }
    assert (Hs1old : forall r, find s1 (oldp ++ r) = find s (oldp ++ r)).
    { intro r. rewrite Hf1. destruct (path_eqb_spec newp (oldp ++ r)) as [E|_]; [|apply B1].
      exfalso. destruct Hdis as [Hd _]. rewrite is_prefix_false in Hd. apply (Hd r). exact E. }
    assert (Hs1new : forall m r, find s1 (newp ++ m :: r) = None).
    { intros m r. rewrite Hf1. destruct (path_eqb_spec newp (newp ++ m :: r)) as [E|_]; [|apply B2].
      apply app_eq_self_nil in E. discriminate. }
    assert (Hs1np : find s1 newp = Some (strip_hl e)) by (rewrite Hf1, path_eqb_refl; reflexivity).
    (* steps 2 and 3 yield (s2, OK) where s2 has the children moved *)
    assert (H2 : exists s2,
      (if e_dir e
       then iter_err (fun s0 (c : name * entry) => move_entry f s0 (child oldp (fst c)) (snd c) (child newp (fst c)))
                     (list_children s1 oldp) s1
       else (s1, OK)) = (s2, OK) /\ wf s2 /\
      find s2 oldp = Some e /\ find s2 newp = Some (strip_hl e) /\
      (forall n r, find s2 (oldp ++ n :: r) = None) /\
      (forall n r, find s2 (newp ++ n :: r) = option_map strip_hl (find s (oldp ++ n :: r))) /\
      (forall q, strip_prefix newp q = None -> strip_prefix oldp q = None -> find s2 q = B q)).
    { destruct (e_dir e) eqn:Edir.
      2:{ (* a file: nothing below it *)
        exists s1. split; [reflexivity|]. split; [exact Hwf1|].
        assert (Hnone : forall n r, find s (oldp ++ n :: r) = None).
        { intros n r. eapply wf_file_below; eauto; [apply Hwf|discriminate]. }
        split; [rewrite <- (app_nil_r oldp), Hs1old, app_nil_r; exact He|].
        split; [exact Hs1np|]. split; [intros; rewrite Hs1old; apply Hnone|].
        split; [intros; rewrite Hs1new, Hnone; reflexivity|].
        intros q Hq1 Hq2. rewrite Hf1. destruct (path_eqb_spec newp q) as [<-|_]; auto.
        rewrite strip_prefix_refl in Hq1. discriminate. }
      set (cs := list_children s1 oldp).
      assert (Hcs : forall n ce, In (n, ce) cs <-> find s1 (oldp ++ [n]) = Some ce).
      { intros n ce. apply list_children_spec. apply Hwf1. }
      pose (outside := fun q : path => forall n ce r, In (n, ce) cs -> q <> newp ++ n :: r /\ q <> oldp ++ n :: r).
      pose (P := fun s0 : store => wf s0 /\ forall q, outside q -> find s0 q = find s1 q).
      pose (R := fun (c : name * entry) (s0 : store) =>
                   forall r, find s0 (oldp ++ fst c :: r) = find s1 (oldp ++ fst c :: r) /\
                             find s0 (newp ++ fst c :: r) = None).
      pose (Q := fun (c : name * entry) (s0 : store) =>
                   forall r, find s0 (oldp ++ fst c :: r) = None /\
                             find s0 (newp ++ fst c :: r) = option_map strip_hl (find s1 (oldp ++ fst c :: r))).
      assert (Hout_old : outside oldp).
      { intros n ce r _. split.
        - intro E. assert (X := disjoint_strip newp oldp [] (disjoint_sym _ _ Hdis)).
          rewrite app_nil_r, E, strip_prefix_app in X. discriminate.
        - intro E. apply app_eq_self_nil in E. discriminate. }
      assert (Hout_new : outside newp).
      { intros n ce r _. split.
        - intro E. apply app_eq_self_nil in E. discriminate.
        - intro E. assert (X := disjoint_strip oldp newp [] Hdis).
          rewrite app_nil_r, E, strip_prefix_app in X. discriminate. }
      destruct (iter_err_all (fun s0 (c : name * entry) => move_entry f s0 (child oldp (fst c)) (snd c) (child newp (fst c)))
                             P R Q cs) with (s := s1) as [s2 [Hit [[Hwf2 Hfr2] HQ]]].
      - (* one child *)
        intros s0 [n ce] Hin [Hwf0 Hfr0] HR. cbn [fst snd]. unfold R in HR. cbn [fst] in HR.
        assert (Hce1 : find s1 (oldp ++ [n]) = Some ce) by (apply Hcs; exact Hin).
        assert (Hnp0 : find s0 newp = Some (strip_hl e)) by (rewrite Hfr0; auto).
        destruct (IH s0 (child oldp n) ce (child newp n)) as [s3 [Hmv [Hwf3 Hf3]]]; unfold child; auto.
        + apply snoc_nonnil.
        + apply snoc_nonnil.
        + apply disjoint_child. exact Hdis.
        + destruct (HR []) as [H _]. rewrite H. exact Hce1.
        + intros m r. rewrite <- app_cons_assoc. apply (HR (m :: r)).
        + intros en Hen. destruct (HR []) as [_ H]. rewrite H in Hen. discriminate.
        + destruct (has_file_ancestor s0 (newp ++ [n])) eqn:Eh; auto. exfalso.
          apply has_file_ancestor_spec in Eh. destruct Eh as [a [fl [Ha [Hpa [Hfl Hdl]]]]].
          apply is_prefix_true in Hpa. destruct Hpa as [t Ht].
          destruct t as [|m t].
          * rewrite app_nil_r in Ht. subst a. rewrite Hnp0 in Hfl. inversion Hfl; subst fl.
            rewrite strip_hl_dir in Hdl. congruence.
          * rewrite Ht in Hnp0. rewrite (wf_file_below s0 (proj2 Hwf0) a (m :: t) fl) in Hnp0; auto; try discriminate.
            destruct a; [discriminate|congruence].
        + intros q x Hq Hp. apply is_prefix_true in Hp. destruct Hp as [r ->].
          rewrite <- app_cons_assoc in Hq. destruct (HR r) as [H _]. rewrite H, Hs1old in Hq.
          assert (Hb' := Hb (oldp ++ n :: r) x Hq (is_prefix_app _ _)).
          rewrite <- app_cons_assoc. rewrite !app_length in *. simpl in *. lia.
        + (* the consequences for the loop *)
          unfold child in *.
          assert (Hbase : forall q, with_ancestors s0 (newp ++ [n]) (strip_hl ce) q = find s0 q).
          { intro q. unfold with_ancestors. destruct (find s0 q) eqn:Eq; auto.
            rewrite ancestors_mem. destruct (nonroot q) eqn:Nq; auto. simpl.
            destruct (is_prefix q newp) eqn:Pq; auto.
            apply is_prefix_true in Pq. destruct Pq as [t Ht]. rewrite Ht in Hnp0.
            rewrite (wf_absent_below s0 (proj2 Hwf0) q t) in Hnp0; auto; [discriminate|].
            destruct q; [discriminate|congruence]. }
          assert (Hf3' : forall q, find s3 q =
                   match strip_prefix (newp ++ [n]) q with
                   | Some r => option_map strip_hl (find s0 (oldp ++ n :: r))
                   | None => match strip_prefix (oldp ++ [n]) q with Some _ => None | None => find s0 q end
                   end).
          { intro q. rewrite Hf3. unfold moved_find. rewrite Hbase.
            destruct (strip_prefix (newp ++ [n]) q); auto. rewrite <- app_cons_assoc. reflexivity. }
          exists s3. split; [exact Hmv|]. split; [|split].
          * split; [exact Hwf3|]. intros q Hq. rewrite Hf3'.
            destruct (strip_prefix (newp ++ [n]) q) as [r|] eqn:E1.
            { apply strip_child_inv in E1. destruct (Hq n ce r Hin) as [X _]. congruence. }
            destruct (strip_prefix (oldp ++ [n]) q) as [r|] eqn:E2.
            { apply strip_child_inv in E2. destruct (Hq n ce r Hin) as [_ X]. congruence. }
            apply Hfr0. exact Hq.
          * intro r. cbn [fst]. split.
            -- rewrite Hf3', (strip_dis_child newp oldp n n r (disjoint_sym _ _ Hdis)), strip_child_same. reflexivity.
            -- rewrite Hf3', strip_child_same. destruct (HR r) as [H _]. rewrite H. reflexivity.
          * intros [n' ce'] Hin' Hne. assert (Hnn : n <> n').
            { intro E. symmetry in E. revert E. apply (NoDup_fst_neq cs (n, ce) (n', ce')); auto. apply list_children_NoDup, Hwf1. }
            assert (Hsame : forall r, find s3 (oldp ++ n' :: r) = find s0 (oldp ++ n' :: r) /\
                                      find s3 (newp ++ n' :: r) = find s0 (newp ++ n' :: r)).
            { intro r. split; rewrite Hf3'.
              - rewrite (strip_dis_child newp oldp n n' r (disjoint_sym _ _ Hdis)), strip_child_other by auto. reflexivity.
              - rewrite strip_child_other by auto. rewrite (strip_dis_child oldp newp n n' r Hdis). reflexivity. }
            unfold R, Q. cbn [fst]. split; intros H r; destruct (Hsame r) as [-> ->]; apply H.
      - apply NoDup_fst. apply list_children_NoDup. apply Hwf1.
      - unfold P. split; [exact Hwf1|]. auto.
      - intros [n ce] Hin r. cbn [fst]. split; [reflexivity|apply Hs1new].
      - (* after the loop *)
        fold cs. exists s2. split; [exact Hit|]. split; [exact Hwf2|].
        split; [rewrite Hfr2 by exact Hout_old; rewrite <- (app_nil_r oldp), Hs1old, app_nil_r; exact He|].
        split; [rewrite Hfr2 by exact Hout_new; exact Hs1np|].
        assert (Hchild : forall n, (exists ce, In (n, ce) cs) \/ (find s1 (oldp ++ [n]) = None)).
        { intro n. destruct (find s1 (oldp ++ [n])) as [ce|] eqn:Ec; auto. left. exists ce. apply Hcs. exact Ec. }
        assert (Hout_child : forall n, find s1 (oldp ++ [n]) = None -> forall p r, p = oldp \/ p = newp -> outside (p ++ n :: r)).
        { intros n Hn p r Hp n' ce' r' Hin'.
          assert (Hnn : n' <> n). { intro E. subst n'. apply Hcs in Hin'. congruence. }
          destruct Hp as [-> | ->]; split; intro E.
          - assert (X := disjoint_strip newp oldp (n :: r) (disjoint_sym _ _ Hdis)).
            rewrite E, strip_prefix_app in X. discriminate.
          - apply app_inv_head in E. congruence.
          - apply app_inv_head in E. congruence.
          - assert (X := disjoint_strip oldp newp (n :: r) Hdis).
            rewrite E, strip_prefix_app in X. discriminate. }
        split; [|split].
        + intros n r. destruct (Hchild n) as [[ce Hin]|Hn].
          * apply (HQ (n, ce) Hin r).
          * rewrite Hfr2 by (apply Hout_child; auto). rewrite Hs1old.
            rewrite app_cons_assoc. apply wf_absent_below; [apply Hwf|apply snoc_nonnil|].
            rewrite <- Hs1old. exact Hn.
        + intros n r. destruct (Hchild n) as [[ce Hin]|Hn].
          * destruct (HQ (n, ce) Hin r) as [_ H]. cbn [fst] in H. rewrite H, Hs1old. reflexivity.
          * rewrite Hfr2 by (apply Hout_child; auto). rewrite Hs1new.
            rewrite (app_cons_assoc oldp). rewrite wf_absent_below; [reflexivity|apply Hwf|apply snoc_nonnil|].
            rewrite <- Hs1old. exact Hn.
        + intros q Hq1 Hq2. rewrite Hfr2.
          * rewrite Hf1. destruct (path_eqb_spec newp q) as [<-|_]; auto.
            rewrite strip_prefix_refl in Hq1. discriminate.
          * intros n ce r _. split; intro E; subst q; rewrite strip_prefix_app in *; discriminate. }
    destruct H2 as [s2 [Hl [Hwf2 [Ho2 [Hn2 [Hold2 [Hnew2 Hrest2]]]]]]].
    rewrite Hl. cbn [is_err].
    (* step 4: delete the (now empty) source *)
    destruct (delete_entry_ref s2 oldp false false Hwf2) as [Hwf3 [Hr3 He3]].
    destruct (delete_entry s2 oldp false false) as [s3 r3]. cbn [fst snd] in *.
    assert (Hnc : has_children s2 oldp = false).
    { apply has_children_false. intro n. apply (Hold2 n []). }
    unfold ref_delete in Hr3, He3. destruct oldp as [|a0 o0] eqn:Eo; [congruence|]. rewrite <- Eo in *.
    rewrite Ho2, Hnc, andb_false_r in Hr3, He3. cbn [fst snd] in *. subst r3.
    exists s3. split; [reflexivity|]. split; [exact Hwf3|].
    intro q. rewrite He3, find_ref_remove_subtree. unfold moved_find, is_prefix.
    destruct (strip_prefix newp q) as [r|] eqn:E1.
    + apply strip_prefix_spec in E1. subst q. rewrite (disjoint_strip oldp newp r Hdis).
      destruct r as [|n r].
      * rewrite !app_nil_r. rewrite Hn2, He. reflexivity.
      * apply Hnew2.
    + destruct (strip_prefix oldp q) as [r|] eqn:E2; auto.
Qed.

(* ================= the reference rename ================= *)
Lemma anc_not_under : forall oldp newp r, disjoint oldp newp ->
  existsb (path_eqb (oldp ++ r)) (ancestors newp) = false.
Proof.
  intros oldp newp r Hdis. destruct (path_cases newp) as [->|[d [n ->]]]; [reflexivity|].
  rewrite ancestors_mem. destruct (is_prefix (oldp ++ r) d) eqn:Pq; [|now rewrite andb_false_r].
  exfalso. apply is_prefix_true in Pq. destruct Pq as [t ->].
  destruct Hdis as [Hd _]. rewrite is_prefix_false in Hd. apply (Hd (r ++ t ++ [n])).
  rewrite <- !app_assoc. reflexivity.
Qed.

Lemma anc_not_below : forall (newp : path) r, existsb (path_eqb (newp ++ r)) (ancestors newp) = false.
Proof.
  intros newp r. destruct (path_cases newp) as [->|[d [n ->]]]; [reflexivity|].
  rewrite ancestors_mem. destruct (is_prefix ((d ++ [n]) ++ r) d) eqn:Pq; [|now rewrite andb_false_r].
  exfalso. apply is_prefix_true in Pq. destruct Pq as [t Ht].
  assert (L : List.length d = List.length (((d ++ [n]) ++ r) ++ t)) by congruence.
  rewrite !app_length in L. simpl in L. lia.
Qed.

Lemma find_moved_list : forall oldp newp s q,
  find (flat_map (fun kv => match strip_prefix oldp (fst kv) with
                            | Some r => [(newp ++ r, strip_hl (snd kv))]
                            | None => []
                            end) s) q =
  match strip_prefix newp q with
  | Some r => option_map strip_hl (find s (oldp ++ r))
  | None => None
  end.
Proof.
  intros oldp newp s q. induction s as [|[k e] s IH]; simpl.
  - destruct (strip_prefix newp q); reflexivity.
  - destruct (strip_prefix oldp k) as [r|] eqn:Ek; simpl.
    + apply strip_prefix_spec in Ek. subst k.
      destruct (path_eqb_spec (newp ++ r) q) as [<-|Hne].
      * rewrite strip_prefix_app, path_eqb_refl. reflexivity.
      * rewrite IH. destruct (strip_prefix newp q) as [r'|] eqn:Eq; auto.
        apply strip_prefix_spec in Eq. subst q.
        destruct (path_eqb_spec (oldp ++ r) (oldp ++ r')) as [E|_]; auto.
        apply app_inv_head in E. congruence.
    + rewrite IH. destruct (strip_prefix newp q) as [r'|] eqn:Eq; auto.
      destruct (path_eqb_spec k (oldp ++ r')) as [E|_]; auto.
      subst k. rewrite strip_prefix_app in Ek. discriminate.
Qed.

Lemma moved_find_ref_move : forall s oldp newp eo, disjoint oldp newp ->
  find s oldp = Some eo -> (forall m r, find s (newp ++ m :: r) = None) ->
  forall q, moved_find s oldp newp (with_ancestors s newp (strip_hl eo)) q = find (ref_move s oldp newp eo) q.
Proof.
  intros s oldp newp eo Hdis He Hbelow q. unfold ref_move, moved_find.
  rewrite find_app, find_moved_list, find_add_missing_ancestors, find_ref_remove_subtree.
  destruct (strip_prefix newp q) as [r|] eqn:E1.
  - apply strip_prefix_spec in E1. subst q.
    destruct (find s (oldp ++ r)) as [x|] eqn:Ex; simpl; auto.
    destruct r as [|m r]; [rewrite app_nil_r in Ex; congruence|].
    unfold is_prefix. rewrite (disjoint_strip oldp newp (m :: r) Hdis), Hbelow, anc_not_below. reflexivity.
  - unfold is_prefix. destruct (strip_prefix oldp q) as [r|] eqn:E2; auto.
    apply strip_prefix_spec in E2. subst q. rewrite anc_not_under; auto.
Qed.

Lemma child_nonnil : forall d n, child d n <> [].
Proof. intros. apply snoc_nonnil. Qed.

(* outside the trigger, AtomicRenameEntry does what the reference says *)
Theorem rename_ref : forall s od on nd nn se re, wf s ->
  ref_rename s od on nd nn = Some (se, re) ->
  snd (rename s od on nd nn) = re /\ equiv (fst (rename s od on nd nn)) se.
Proof.
  intros s od on nd nn se re Hwf Href. unfold ref_rename in Href. unfold rename, rename_fuel.
  set (oldp := child od on) in *. set (newp := child nd nn) in *.
  assert (Hop : oldp <> []) by apply child_nonnil. assert (Hnp : newp <> []) by apply child_nonnil.
  destruct (is_prefix oldp nd) eqn:Hpre; [injection Href as <- <-; split; [reflexivity|apply equiv_refl]|].
  rewrite find_entry_nonroot by assumption.
  destruct (find s oldp) as [eo|] eqn:Eo; [|injection Href as <- <-; split; [reflexivity|apply equiv_refl]].
  unfold default_fuel.
  destruct (path_eqb_spec oldp newp) as [Eon|Hne].
  { injection Href as <- <-. cbn [move_entry]. rewrite Eon, path_eqb_refl. split; [reflexivity|apply equiv_refl]. }
  assert (Hd1 : is_prefix oldp newp = false).
  { unfold newp, child. rewrite is_prefix_snoc, Hpre. simpl. fold (child nd nn). fold newp.
    destruct (path_eqb_spec oldp newp); [congruence|reflexivity]. }
  (* the clean move, once its side conditions are known *)
  assert (Hclean : is_prefix newp oldp = false ->
                   (forall m r, find s (newp ++ m :: r) = None) ->
                   (forall en, find s newp = Some en -> e_dir en = e_dir eo) ->
                   has_file_ancestor s newp = false ->
                   snd (move_entry (S (max_len s)) s oldp eo newp) = OK /\
                   equiv (fst (move_entry (S (max_len s)) s oldp eo newp)) (ref_move s oldp newp eo)).
  { intros Hd2 Hbelow Htype Hanc.
    destruct (move_entry_clean (S (max_len s)) s oldp eo newp Hwf Hop Hnp (conj Hd1 Hd2) Eo Hbelow Htype Hanc)
      as [s' [Hmv [_ Hf]]].
    - intros q x Hq _. apply max_len_find in Hq. lia.
    - rewrite Hmv. split; [reflexivity|]. intro q. cbn [fst]. rewrite Hf.
      apply moved_find_ref_move; auto. split; auto. }
  destruct (find s newp) as [en|] eqn:En.
  - (* the target exists *)
    assert (Hcreate : create_entry s newp (strip_hl eo) false =
              if e_dir en && negb (e_dir eo) then (s, EIsDir)
              else if negb (e_dir en) && e_dir eo then (s, EIsFile)
              else (insert s newp (strip_hl eo), OK)).
    { unfold create_entry. destruct newp as [|a0 n0] eqn:E0; [congruence|]. rewrite <- E0 in *.
      rewrite find_entry_nonroot by assumption. rewrite En. reflexivity. }
    destruct (e_dir eo) eqn:Deo, (e_dir en) eqn:Den; cbn [negb andb] in *.
    + (* directory onto directory *)
      destruct (has_children s newp) eqn:Hc; [discriminate|]. injection Href as <- <-. apply Hclean; auto.
      * apply is_prefix_false. intros r Hr. destruct r as [|m r].
        -- rewrite app_nil_r in Hr. congruence.
        -- assert (Hch : has_children s newp = true).
           { apply has_children_spec. rewrite Hr, app_cons_assoc in Eo.
             destruct r as [|m' r'].
             - rewrite app_nil_r in Eo. eauto.
             - destruct (wf_ancestors s (proj2 Hwf) (m' :: r') (newp ++ [m]) eo Eo) as [de [Hde _]];
                 [apply snoc_nonnil|discriminate|eauto]. }
           congruence.
      * apply no_children_nothing_below; [apply Hwf|auto|]. apply has_children_false. exact Hc.
      * intros en' H. inversion H; subst. congruence.
      * destruct (has_file_ancestor s newp) eqn:Eh; auto. exfalso.
        destruct (path_cases newp) as [E|[d [n E]]]; [congruence|]. rewrite E in Eh, En.
        apply has_file_ancestor_spec in Eh. destruct Eh as [a [fl [Ha [Hpa [Hfl Hdl]]]]].
        apply is_prefix_true in Hpa. destruct Hpa as [t ->]. rewrite <- app_assoc in En.
        rewrite (wf_file_below s (proj2 Hwf) a (t ++ [n]) fl) in En; auto; try discriminate.
        -- destruct a; [discriminate|congruence].
        -- destruct t; discriminate.
    + (* directory onto file *)
      injection Href as <- <-. cbn [move_entry]. destruct (path_eqb_spec oldp newp); [congruence|].
      rewrite Hcreate. cbn [is_err]. split; [reflexivity|apply equiv_refl].
    + (* file onto directory *)
      injection Href as <- <-. cbn [move_entry]. destruct (path_eqb_spec oldp newp); [congruence|].
      rewrite Hcreate. cbn [is_err]. split; [reflexivity|apply equiv_refl].
    + (* file onto file *)
      injection Href as <- <-. apply Hclean; auto.
      * apply is_prefix_false. intros r Hr. destruct r as [|m r].
        -- rewrite app_nil_r in Hr. congruence.
        -- rewrite Hr in Eo. rewrite (wf_file_below s (proj2 Hwf) newp (m :: r) en) in Eo; auto; discriminate.
      * intros m r. eapply wf_file_below; eauto; [apply Hwf|discriminate].
      * intros en' H. inversion H; subst. congruence.
      * destruct (has_file_ancestor s newp) eqn:Eh; auto. exfalso.
        destruct (path_cases newp) as [E|[d [n E]]]; [congruence|]. rewrite E in Eh, En.
        apply has_file_ancestor_spec in Eh. destruct Eh as [a [fl [Ha [Hpa [Hfl Hdl]]]]].
        apply is_prefix_true in Hpa. destruct Hpa as [t ->]. rewrite <- app_assoc in En.
        rewrite (wf_file_below s (proj2 Hwf) a (t ++ [n]) fl) in En; auto; try discriminate.
        -- destruct a; [discriminate|congruence].
        -- destruct t; discriminate.
  - (* the target does not exist *)
    destruct (has_file_ancestor s newp) eqn:Eh.
    + injection Href as <- <-. cbn [move_entry]. destruct (path_eqb_spec oldp newp); [congruence|].
      destruct (create_entry s newp (strip_hl eo) false) as [s1 r1] eqn:Ec.
      destruct (create_entry_spec _ _ _ _ _ _ Hwf Hnp Ec) as [_ Hc]. rewrite En in Hc.
      destruct Hc as [[-> [-> _]]|[_ [Hh _]]]; [|congruence].
      cbn [is_err]. split; [reflexivity|apply equiv_refl].
    + injection Href as <- <-. apply Hclean; auto.
      * apply is_prefix_false. intros r Hr. rewrite Hr in Eo.
        rewrite (wf_absent_below s (proj2 Hwf) newp r) in Eo; auto. discriminate.
      * intros m r. apply wf_absent_below; auto. apply Hwf.
      * intros en' H. discriminate.
Qed.

(* renaming a directory into itself or one of its descendants is refused, nothing changes *)
Theorem rename_into_own_subtree_refused : forall s od on nd nn,
  is_prefix (child od on) nd = true -> rename s od on nd nn = (s, EInvalid).
Proof. intros s od on nd nn H. unfold rename, rename_fuel. rewrite H. reflexivity. Qed.
