(* C06: rebuildEcFiles regenerates every lost shard byte-identically, relative to
   the Reed-Solomon oracle (MDS law per byte column). *)
From Coq Require Import List ZArith NArith Bool Lia ZifyBool.
From SW Require Import model.EC proof.ECProofs proof.ECReadProofs.
Import ListNotations.
Local Open Scope Z_scope.

(* ================= generic list facts ================= *)
Lemma concat_uniform_list {A B} (f : A -> list B) c (d : B) (a0 : A) :
  0 <= c -> (forall x, zlen (f x) = c) ->
  forall bs, zlen (concat (map f bs)) = zlen bs * c /\
  forall q r, 0 <= q < zlen bs -> 0 <= r < c ->
    znth (concat (map f bs)) (q * c + r) d = znth (f (znth bs q a0)) r d.
Proof.
  intros Hc Hf. induction bs as [|b bs [IHl IHn]].
  - split; [reflexivity|]. intros q r Hq. unfold zlen in Hq. cbn in Hq. lia.
  - cbn [map concat]. split.
    + rewrite zlen_app, IHl, Hf, zlen_cons. lia.
    + intros q r Hq Hr. rewrite zlen_cons in Hq. destruct (Z.eq_dec q 0) as [->|Hq0].
      * replace (0 * c + r) with r by lia. rewrite znth_cons_0. apply znth_app_l. rewrite Hf. lia.
      * assert (c <= q * c + r) by nia. rewrite znth_app_r by (rewrite Hf; lia). rewrite Hf.
        replace (q * c + r - c) with ((q - 1) * c + r) by lia. rewrite IHn by lia.
        rewrite znth_cons_pos by lia. reflexivity.
Qed.

Lemma list_eq_map_znth {A} (d : A) : forall l, map (fun m => znth l m d) (zrange 0 (zlen l)) = l.
Proof.
  induction l as [|x l IH].
  - reflexivity.
  - rewrite zlen_cons. rewrite zrange_cons by apply zlen_nonneg. cbn [map]. rewrite znth_cons_0. f_equal.
    rewrite <- IH at 2. apply map_zrange_ext. intros t Ht.
    rewrite znth_cons_pos by lia. f_equal. lia.
Qed.

Lemma nth_firstn_lt {A} : forall (l : list A) k i d, (i < k)%nat -> nth i (firstn k l) d = nth i l d.
Proof.
  induction l as [|x l IH]; intros k i d H.
  - rewrite firstn_nil. reflexivity.
  - destruct k as [|k]; [lia|]. destruct i as [|i]; cbn; auto. apply IH. lia.
Qed.

Lemma nth_skipn_add {A} : forall k (l : list A) i d, nth i (skipn k l) d = nth (k + i) l d.
Proof.
  induction k as [|k IH]; intros l i d; cbn; auto.
  destruct l as [|x l]; cbn; auto. destruct i; reflexivity.
Qed.

Lemma zlen_slice l start B : 0 <= start -> zlen (slice l start B) = Z.max 0 (Z.min B (zlen l - start)).
Proof.
  intros Hs. unfold slice, zlen. rewrite firstn_length, skipn_length. lia.
Qed.

Lemma znth_slice l start B t d : 0 <= start -> 0 <= t < zlen (slice l start B) ->
  znth (slice l start B) t d = znth l (start + t) d.
Proof.
  intros Hs Ht. rewrite zlen_slice in Ht by lia. unfold slice, znth, zlen in *.
  rewrite nth_firstn_lt by lia. rewrite nth_skipn_add. f_equal; lia.
Qed.

(* a segment of a list *)
Definition seg (l : list byte) (a n : Z) : list byte := dslice (fun p => znth l p 0%N) a n.

Lemma seg_full l : seg l 0 (zlen l) = l.
Proof. unfold seg, dslice. apply list_eq_map_znth. Qed.

Lemma slice_seg l start B : 0 <= start ->
  slice l start B = seg l start (Z.max 0 (Z.min B (zlen l - start))).
Proof.
  intros Hs. rewrite <- (zlen_slice l start B Hs).
  rewrite <- (list_eq_map_znth 0%N (slice l start B)) at 1.
  unfold seg, dslice. apply map_zrange_ext. intros t Ht.
  rewrite znth_slice by lia. f_equal; lia.
Qed.

(* ---------- masks ---------- *)
Lemma map_option_apply_mask {A B} (f : A -> B) : forall p l,
  map (option_map f) (apply_mask p l) = apply_mask p (map f l).
Proof.
  induction p as [|b p IH]; intros l; [reflexivity|].
  destruct l as [|x l]; [reflexivity|]. cbn. rewrite IH. destruct b; reflexivity.
Qed.

Lemma znth_apply_mask {A} (d : A) : forall p l i, length p = length l -> 0 <= i < zlen l ->
  znth (apply_mask p l) i None = if znth p i true then Some (znth l i d) else None.
Proof.
  induction p as [|b p IH]; intros l i Hl Hi.
  - destruct l; [unfold zlen in Hi; cbn in Hi; lia|discriminate].
  - destruct l as [|x l]; [discriminate|]. cbn [apply_mask]. rewrite zlen_cons in Hi.
    destruct (Z.eq_dec i 0) as [->|Hi0].
    + rewrite !znth_cons_0. reflexivity.
    + rewrite !znth_cons_pos by lia. apply IH; [cbn in Hl; lia|lia].
Qed.

Definition has_some {A} (l : list (option A)) : bool :=
  existsb (fun o => match o with Some _ => true | None => false end) l.

Lemma no_some_all_lost {A} : forall p (l : list A), length p = length l ->
  has_some (apply_mask p l) = false -> count_lost p = zlen p.
Proof.
  induction p as [|b p IH]; intros l Hl H; [reflexivity|].
  destruct l as [|x l]; [discriminate|]. cbn in H. destruct b; [discriminate|].
  cbn in H. unfold count_lost in *. cbn [filter negb]. rewrite !zlen_cons. rewrite (IH l); auto.
Qed.

Lemma all_some_map_some {A B} (f : A -> B) : forall l, all_some (map (fun x => Some (f x)) l) = Some (map f l).
Proof. induction l as [|x l IH]; cbn; [reflexivity|]. rewrite IH. reflexivity. Qed.

(* ---------- the read loop of rebuildEcFiles ---------- *)
Lemma read_fold_stuck B start : forall shs st, (forall i, st <> RsGo i) ->
  fold_left (rb_read_step B start) shs st = st.
Proof.
  induction shs as [|sh shs IH]; intros st Hst; [reflexivity|].
  cbn [fold_left]. destruct st as [i| |]; [exfalso; eapply Hst; reflexivity| |]; cbn; apply IH; congruence.
Qed.

Lemma read_fold B start len : 0 <= start ->
  let n := Z.max 0 (Z.min B (len - start)) in
  forall shs ibds, (forall l, In (Some l) shs -> zlen l = len) ->
  fold_left (rb_read_step B start) shs (RsGo ibds) =
  if has_some shs then
    (if n =? 0 then RsReturn else if (ibds =? 0) || (ibds =? n) then RsGo n else RsErr)
  else RsGo ibds.
Proof.
  intros Hstart n. induction shs as [|sh shs IH]; intros ibds Hlen; [reflexivity|].
  cbn [fold_left has_some existsb]. destruct sh as [l|].
  - cbn [rb_read_step orb]. rewrite zlen_slice by lia. rewrite (Hlen l (or_introl eq_refl)). fold n.
    destruct (n =? 0) eqn:En.
    + apply read_fold_stuck. congruence.
    + destruct (ibds =? 0) eqn:E0.
      * rewrite Z.eqb_refl. rewrite IH by (intros; apply Hlen; right; auto).
        fold (has_some shs). destruct (has_some shs); auto.
        rewrite Z.eqb_refl, orb_true_r. reflexivity.
      * cbn [orb]. destruct (ibds =? n) eqn:E1.
        -- rewrite IH by (intros; apply Hlen; right; auto).
           fold (has_some shs). destruct (has_some shs).
           ++ rewrite E0, E1. reflexivity.
           ++ assert (ibds = n) by lia. subst. reflexivity.
        -- apply read_fold_stuck. congruence.
  - cbn [rb_read_step orb]. apply IH. intros; apply Hlen; right; auto.
Qed.

Lemma len0_fold len : 0 <= len -> forall (shs : list (option (list byte))) acc,
  (forall l, In (Some l) shs -> zlen l = len) ->
  fold_left (fun acc sh => match sh with Some l => Z.max acc (zlen l) | None => acc end) shs acc =
  if has_some shs then Z.max acc len else acc.
Proof.
  intros Hlen. induction shs as [|sh shs IH]; intros acc H; [reflexivity|].
  cbn [fold_left has_some existsb]. destruct sh as [l|].
  - rewrite (H l (or_introl eq_refl)). rewrite IH by (intros; apply H; right; auto).
    fold (has_some shs). cbn [orb]. destruct (has_some shs); lia.
  - cbn [orb]. apply IH. intros; apply H; right; auto.
Qed.

(* ================= the theorem, relative to the RS oracle ================= *)
Section RS.
  Variable rs_col : list byte -> list byte.
  Variable rs_rec : list (option byte) -> option (list byte).
  (* Encode yields 4 parity bytes per column *)
  Hypothesis rs_col_len : forall d, length d = 10%nat -> length (rs_col d) = 4%nat.
  (* MDS: any column of data+parity with at most 4 erasures is reconstructed *)
  Hypothesis rs_mds : forall d present, length d = 10%nat -> length present = 14%nat ->
    count_lost present <= 4 -> rs_rec (apply_mask present (d ++ rs_col d)) = Some (d ++ rs_col d).

  (* ---- what generateEcFiles wrote, column by column ---- *)
  Definition well_coded (shards : list (list byte)) (len : Z) : Prop :=
    length shards = 14%nat /\ 0 <= len /\
    (forall i, 0 <= i < 14 -> zlen (znth shards i []) = len) /\
    (forall t, 0 <= t < len -> exists d, length d = 10%nat /\ column shards t = d ++ rs_col d).

  Lemma all_shards_well_coded dat L S buf D : 0 < buf ->
    exists len, well_coded (all_shards rs_col dat L S buf D) len.
  Proof.
    intros Hbuf.
    set (bs := all_batches buf (encode_layout L S D)).
    set (F := fun (i : Z) (b : batch) =>
                if i <? 10 then data_buf dat D buf i b else parity_buf rs_col dat D buf (i - 10) b).
    assert (HF : forall i b, zlen (F i b) = buf).
    { intros i [bstart bsz]. unfold F, data_buf, parity_buf, read_zfill.
      destruct (i <? 10); rewrite zlen_map; apply zlen_zrange; lia. }
    assert (Hsh : all_shards rs_col dat L S buf D = map (fun i => concat (map (F i) bs)) (zrange 0 14)).
    { (* both sides are maps over the literal index lists [0..9] ++ [0..3] / [0..13] *)
      reflexivity. }
    exists (zlen bs * buf). unfold well_coded. rewrite Hsh.
    assert (Hz : forall i, 0 <= i < 14 ->
              znth (map (fun i => concat (map (F i) bs)) (zrange 0 14)) i [] = concat (map (F i) bs)).
    { intros i Hi. rewrite znth_map with (d' := 0) by (rewrite zlen_zrange; lia).
      rewrite znth_zrange by lia. f_equal. }
    split; [rewrite map_length; reflexivity|]. split; [pose proof (zlen_nonneg bs); nia|]. split.
    - intros i Hi. rewrite Hz by lia.
      apply (concat_uniform_list (F i) buf 0%N (0, 0) ltac:(lia) (HF i) bs).
    - intros t Ht.
      pose proof (Z.div_mod t buf ltac:(lia)) as Hdm. pose proof (Z.mod_pos_bound t buf Hbuf) as Hmb.
      set (q := t / buf) in *. set (r := t mod buf) in *.
      assert (Hq : 0 <= q < zlen bs) by nia.
      set (b := znth bs q (0, 0)).
      set (d := map (fun i => znth (data_buf dat D buf i b) r 0%N) (zrange 0 10)).
      exists d. split; [unfold d; rewrite map_length; apply zcount_length|].
      unfold column. rewrite map_map.
      transitivity (map (fun i => znth (F i b) r 0%N) (zrange 0 14)).
      { apply map_ext_in. intros i Hi. apply in_zrange in Hi.
        replace t with (q * buf + r) by lia.
        apply (concat_uniform_list (F i) buf 0%N (0, 0) ltac:(lia) (HF i) bs); lia. }
      change 14 with (10 + 4). rewrite zrange_app by lia. rewrite map_app.
      apply (f_equal2 (@app byte)).
      + reflexivity.
      + assert (Hd : column (map (fun i => data_buf dat D buf i b) (zrange 0 10)) r = d).
        { unfold column, d. rewrite map_map. reflexivity. }
        assert (Hl4 : zlen (rs_col d) = 4).
        { unfold zlen. rewrite rs_col_len; [reflexivity|]. unfold d. rewrite map_length. apply zcount_length. }
        transitivity (map (fun m => znth (rs_col d) m 0%N) (zrange 0 4));
          [|rewrite <- Hl4; apply list_eq_map_znth].
        apply map_zrange_ext. intros m Hm. unfold F.
        destruct (0 + 10 + m <? 10) eqn:E; [lia|]. unfold parity_buf.
        rewrite znth_map with (d' := 0) by (rewrite zlen_zrange; lia).
        rewrite znth_zrange by lia. replace (0 + r) with r by lia. rewrite Hd. f_equal; lia.
  Qed.

  (* ---- the rebuild loop ---- *)
  Section Loop.
    Variables (shards : list (list byte)) (len B : Z) (present : list bool).
    Hypothesis WC : well_coded shards len.
    Hypothesis HB : 0 < B.
    Hypothesis Hp14 : length present = 14%nat.
    Hypothesis Hlost : count_lost present <= 4.

    Let shs := apply_mask present shards.

    Lemma shs_len : forall l, In (Some l) shs -> zlen l = len.
    Proof.
      intros l Hin. destruct WC as [H14 [Hlen0 [Hlen _]]].
      apply In_nth with (d := None) in Hin. destruct Hin as [k [Hk Hnth]].
      assert (Hk14 : (k < 14)%nat).
      { subst shs. clear - Hk H14 Hp14. revert Hk.
        assert (length (apply_mask present shards) <= length shards)%nat.
        { clear. revert shards. induction present as [|b p IH]; intros [|x l]; cbn; try lia. specialize (IH l). lia. }
        lia. }
      pose proof (znth_apply_mask [] present shards (Z.of_nat k) ltac:(lia) ltac:(unfold zlen; lia)) as Hz.
      unfold znth in Hz at 1. rewrite Nat2Z.id in Hz. fold shs in Hz. rewrite Hnth in Hz.
      destruct (znth present (Z.of_nat k) true); [|discriminate]. inversion Hz. apply Hlen. lia.
    Qed.

    Lemma shs_has_some : has_some shs = true.
    Proof.
      destruct (has_some shs) eqn:E; auto. exfalso.
      pose proof (no_some_all_lost present shards ltac:(destruct WC; lia) E) as H.
      unfold zlen in H. rewrite Hp14 in H. lia.
    Qed.

    Lemma znth_shs i : 0 <= i < 14 ->
      znth shs i None = if znth present i true then Some (znth shards i []) else None.
    Proof.
      intros Hi. apply znth_apply_mask; destruct WC as [H14 _]; [lia|unfold zlen; lia].
    Qed.

    (* one chunk of n columns at start *)
    Lemma reconstruct_chunk start n : 0 <= start -> 0 <= n -> start + n <= len ->
      n = Z.max 0 (Z.min B (len - start)) ->
      reconstruct rs_rec n (map (option_map (fun l => slice l start B)) shs) =
      Some (map (fun i => seg (znth shards i []) start n) (zrange 0 14)).
    Proof.
      intros Hstart Hn Hle Hnn. destruct WC as [H14 [Hlen0 [Hlen Hcol]]].
      unfold reconstruct. subst shs. rewrite map_option_apply_mask.
      assert (Hcols : map (fun t => rs_rec (ocolumn (apply_mask present (map (fun l => slice l start B) shards)) t)) (zrange 0 n) =
                      map (fun t => Some (column shards (start + t))) (zrange 0 n)).
      { apply map_ext_in. intros t Ht. apply in_zrange in Ht.
        unfold ocolumn. rewrite map_option_apply_mask.
        assert (Hc : map (fun b => znth b t 0%N) (map (fun l => slice l start B) shards) = column shards (start + t)).
        { unfold column. rewrite map_map. apply map_ext_in. intros l Hl.
          apply In_nth with (d := []) in Hl. destruct Hl as [k [Hk Hnth]].
          assert (Hll : zlen l = len).
          { rewrite <- Hnth. assert (Hk' : 0 <= Z.of_nat k < 14) by (unfold byte in *; lia).
            specialize (Hlen (Z.of_nat k) Hk'). unfold znth in Hlen.
            rewrite Nat2Z.id in Hlen. exact Hlen. }
          apply znth_slice; [lia|]. rewrite zlen_slice by lia. unfold byte in *. rewrite Hll. lia. }
        rewrite Hc. destruct (Hcol (start + t) ltac:(lia)) as [d [Hd10 Hd]].
        rewrite Hd. apply rs_mds; auto. }
      rewrite Hcols. rewrite all_some_map_some. f_equal.
      apply map_ext_in. intros i Hi. apply in_zrange in Hi.
      rewrite map_map. unfold seg, dslice. apply map_zrange_ext. intros t Ht.
      unfold column. rewrite znth_map with (d' := []) by (unfold zlen, byte in *; lia). f_equal; lia.
    Qed.

    (* the files after `start` bytes have been regenerated *)
    Definition Inv (start : Z) (outs : list (list byte)) : Prop :=
      length outs = 14%nat /\
      forall i, 0 <= i < 14 ->
        znth outs i [] = if znth present i true then znth shards i [] else seg (znth shards i []) 0 start.

    Lemma Inv_final outs : Inv len outs -> outs = shards.
    Proof.
      intros [Ho Hi]. destruct WC as [H14 [Hlen0 [Hlen _]]].
      rewrite <- (list_eq_map_znth [] outs), <- (list_eq_map_znth [] shards).
      unfold zlen. rewrite Ho, H14. apply map_ext_in. intros i Hin. apply in_zrange in Hin.
      rewrite Hi by lia. destruct (znth present i true); auto.
      rewrite <- (Hlen i) by lia. apply seg_full.
    Qed.

    Variables (n0 c : Z).
    Hypothesis Hc : 0 <= c.
    Hypothesis Hlen_c : len = c * n0.
    Hypothesis Hn0 : 0 <= n0.
    Hypothesis Hchunk : forall j, 0 <= j < c -> Z.min B (len - j * n0) = n0 /\ 0 < n0.

    Lemma rebuild_loop_exact : forall fuel j outs,
      0 <= j <= c -> (Z.to_nat (c - j) < fuel)%nat -> Inv (j * n0) outs ->
      rebuild_loop rs_rec fuel B (j * n0) (if j =? 0 then 0 else n0) shs outs = Some shards.
    Proof.
      induction fuel as [|f IH]; intros j outs Hj Hf HI; [lia|].
      cbn [rebuild_loop].
      assert (Hst : 0 <= j * n0) by nia.
      rewrite (read_fold B (j * n0) len Hst shs _ shs_len). rewrite shs_has_some.
      destruct (Z.eq_dec j c) as [->|Hne].
      - (* everything regenerated: the next read returns 0 bytes *)
        replace (Z.max 0 (Z.min B (len - c * n0))) with 0 by lia.
        cbn. f_equal. apply Inv_final. rewrite Hlen_c. exact HI.
      - destruct (Hchunk j ltac:(lia)) as [Hmin Hpos].
        replace (Z.max 0 (Z.min B (len - j * n0))) with n0 by lia.
        destruct (n0 =? 0) eqn:E0; [lia|].
        assert (Hor : ((if j =? 0 then 0 else n0) =? 0) || ((if j =? 0 then 0 else n0) =? n0) = true).
        { destruct (j =? 0); [reflexivity|]. rewrite Z.eqb_refl. apply orb_true_r. }
        rewrite Hor.
        assert (Hjn : (j + 1) * n0 <= c * n0) by nia.
        rewrite (reconstruct_chunk (j * n0) n0) by lia.
        replace (j * n0 + n0) with ((j + 1) * n0) by lia.
        assert (Hif : (if j + 1 =? 0 then 0 else n0) = n0) by (destruct (j + 1 =? 0) eqn:E; lia).
        pose proof (IH (j + 1)) as IH'. rewrite Hif in IH'.
        apply IH'; [lia|lia|].
        destruct HI as [Ho Hi]. split; [rewrite map_length; apply zcount_length|].
        intros i Hi14. rewrite znth_map with (d' := 0) by (rewrite zlen_zrange; lia).
        rewrite znth_zrange by lia. replace (0 + i) with i by lia.
        rewrite znth_shs by lia. rewrite Hi by lia.
        destruct (znth present i true); [reflexivity|].
        rewrite znth_map with (d' := 0) by (rewrite zlen_zrange; lia).
        rewrite znth_zrange by lia. replace (0 + i) with i by lia.
        unfold seg. replace (j * n0) with (0 + j * n0) at 2 by lia.
        rewrite dslice_app by lia. f_equal. lia.
    Qed.
  End Loop.

  Lemma Inv_init shards len present : well_coded shards len -> length present = 14%nat ->
    Inv shards present 0 (map (fun sh => match sh with Some l => l | None => [] end) (apply_mask present shards)).
  Proof.
    intros WC Hp. destruct WC as [H14 _]. split.
    - rewrite map_length. clear - H14 Hp. revert shards H14 Hp.
      generalize 14%nat as k. induction present as [|b p IH]; intros k [|x l] H1 H2; cbn in *; try lia.
      destruct k; [lia|]. f_equal. apply (IH k); lia.
    - intros i Hi.
      assert (Hz : 0 <= i < zlen (apply_mask present shards)).
      { unfold zlen. assert (length (apply_mask present shards) = 14%nat); [|lia].
        clear - H14 Hp. revert shards H14 Hp.
        generalize 14%nat as k. induction present as [|b p IH]; intros k [|x l] H1 H2; cbn in *; try lia.
        destruct k; [lia|]. f_equal. apply (IH k); lia. }
      rewrite znth_map with (d' := None) by exact Hz.
      rewrite (znth_apply_mask [] present shards i) by (unfold zlen; lia).
      destruct (znth present i true); reflexivity.
  Qed.

  Theorem rebuild_well_coded : forall shards len B present,
    well_coded shards len -> 0 < B -> length present = 14%nat -> count_lost present <= 4 ->
    (len mod B = 0 \/ len < B) ->
    rebuild rs_rec B (apply_mask present shards) = Some shards.
  Proof.
    intros shards len B present WC HB Hp Hlost Hlen.
    assert (Hlen0 : 0 <= len) by apply WC.
    unfold rebuild.
    rewrite (len0_fold len Hlen0 _ 0 (shs_len shards len present WC Hp)).
    rewrite (shs_has_some shards len present WC Hp Hlost).
    replace (Z.max 0 len) with len by lia.
    rewrite Z.quot_div_nonneg by lia.
    pose proof (Inv_init shards len present WC Hp) as HI0.
    destruct (Z_lt_ge_dec len B) as [Hlt|Hge].
    - (* the whole shard fits in one buffer *)
      rewrite Z.div_small by lia.
      destruct (Z.eq_dec len 0) as [Hz|Hnz].
      + apply (rebuild_loop_exact shards len B present WC HB Hp Hlost 0 0 ltac:(lia) ltac:(lia)
                 ltac:(intros; lia) _ 0); [lia|cbn; lia|exact HI0].
      + apply (rebuild_loop_exact shards len B present WC HB Hp Hlost len 1 ltac:(lia) ltac:(lia)
                 ltac:(intros; split; lia) _ 0); [lia|cbn; lia|].
        replace (0 * len) with 0 by lia. exact HI0.
    - destruct Hlen as [Hmod|]; [|lia].
      pose proof (Z.div_mod len B ltac:(lia)) as Hdm.
      set (c := len / B) in *.
      assert (Hc : 0 <= c) by (apply Z.div_pos; lia).
      apply (rebuild_loop_exact shards len B present WC HB Hp Hlost B c ltac:(lia) ltac:(lia)
               ltac:(intros j Hj; split; [nia|lia]) _ 0); [lia|lia|].
      replace (0 * B) with 0 by lia. exact HI0.
  Qed.

  (* for the shards generateEcFiles writes *)
  Theorem rebuild_exact : forall dat L S buf D B present,
    sizes_ok L S buf -> 0 < B -> length present = 14%nat -> count_lost present <= 4 ->
    let shards := all_shards rs_col dat L S buf D in
    let len := zlen (znth shards 0 []) in
    (len mod B = 0 \/ len < B) ->
    rebuild rs_rec B (apply_mask present shards) = Some shards.
  Proof.
    intros dat L S buf D B present Hok HB Hp Hlost shards len Hlen.
    destruct (sizes_ok_pos _ _ _ Hok) as [_ [_ Hb]].
    destruct (all_shards_well_coded dat L S buf D Hb) as [len' WC].
    assert (len = len').
    { destruct WC as [_ [_ [Hl _]]]. unfold len, shards. apply Hl. lia. }
    subst len'. eapply rebuild_well_coded; eauto.
  Qed.
End RS.
