(* C05 proofs, part 9: the counters maintained while running are the reference counters (both
   writable map kinds, every history); reopening from the .idx reproduces them for disciplined,
   write-once histories (LevelDB kind, sorted-file kind). *)
From Coq Require Import List NArith ZArith Bool Lia Sorted Arith.
From Coq Require Import ZifyBool ZifyN ZifyNat.
From SW Require Import model.NeedleMap proof.EcIndexProofs proof.NeedleMapSearch proof.NeedleMapSec
  proof.NeedleMapCm proof.NeedleMapRefine proof.NeedleMapProofs proof.NeedleMapKinds
  proof.NeedleMapCounters proof.NeedleMapCountersMain.
Import ListNotations.
Local Open Scope N_scope.

(* logPut / logDelete against the reference step *)
Lemma log_put_ref : forall m k old sz,
  log_put m k old sz =
  (let m1 := add_file (maybe_max m k) sz in if (0 <? old)%Z then add_del m1 old else m1).
Proof.
  intros. unfold log_put, log_deletion, size_is_valid, tombstone.
  destruct (Z.ltb_spec 0 old); [|reflexivity].
  destruct (Z.eqb_spec old (-1)); [lia|]. reflexivity.
Qed.
Lemma log_delete_ref : forall m ret, log_delete m ret = if (0 <? ret)%Z then add_del m ret else m.
Proof. reflexivity. Qed.

Lemma ref_metric_step_fst : forall r m o, fst (ref_metric_step (r, m) o) = fst (ref_step r o).
Proof. reflexivity. Qed.

(* ---------- LevelDB kind ---------- *)
Lemma ldb_step_met : forall osz s r o, ldb_rel s r ->
  l_met (fst (ldb_step osz s o)) = snd (ref_metric_step (r, l_met s) o).
Proof.
  intros osz s r o [_ Hrel]. destruct o as [k off sz|k off|k]; cbn [ldb_step fst ref_metric_step snd].
  - unfold ldb_put. cbn [l_met]. rewrite Hrel, log_put_ref. cbv zeta.
    destruct (ref_get r k) as [[ro rs]|]; reflexivity.
  - unfold ldb_delete. rewrite Hrel. destruct (ref_get r k) as [[ro rs]|]; [|reflexivity].
    unfold size_is_deleted, tombstone.
    destruct (Z.ltb_spec rs 0) as [Hn|Hn]; cbn [orb].
    + destruct (Z.ltb_spec 0 rs); [lia|reflexivity].
    + destruct (rs =? -1)%Z eqn:Eq; [apply Z.eqb_eq in Eq; lia|]. cbn [l_met]. apply log_delete_ref.
  - reflexivity.
Qed.

Lemma ldb_run_met : forall osz ops s r, ldb_rel s r ->
  l_met (snd (ldb_run osz s ops)) = snd (fold_left ref_metric_step ops (r, l_met s)).
Proof.
  intros osz ops. induction ops as [|o ops IH]; intros s r H; [reflexivity|].
  cbn [ldb_run fold_left]. pose proof (ldb_step_met osz s r o H) as Hm.
  destruct (ldb_step_rel osz s r o H) as [Hn _].
  destruct (ldb_step osz s o) as [s' x]. cbn [fst] in *.
  specialize (IH s' _ Hn). destruct (ldb_run osz s' ops) as [rs fin]. cbn [snd] in *.
  rewrite IH, Hm. reflexivity.
Qed.

(* the LevelDB-backed map's counters, after any history, are the reference counters *)
Theorem ldb_counters_running : forall osz ops,
  l_met (snd (ldb_run osz ldb0 ops)) = ref_metric ops.
Proof. intros. rewrite (ldb_run_met osz ops ldb0 [] ldb_rel0). reflexivity. Qed.

(* ---------- in-memory kind ---------- *)
Lemma nm_step_met : forall osz batch s r o, refines batch (nm_map s) r -> op_key o < two64 ->
  nm_met (fst (nm_step osz batch s o)) = snd (ref_metric_step (r, nm_met s) o) /\
  refines batch (nm_map (fst (nm_step osz batch s o))) (fst (ref_step r o)).
Proof.
  intros osz batch s r o Href Hk.
  destruct (step_refines batch (nm_map s) r o Href Hk) as [Hnext Hres].
  destruct Href as [Hinv Hrel].
  destruct o as [k off sz|k off|k]; cbn [op_key] in Hk; cbn [nm_step fst ref_metric_step snd].
  - unfold nm_put. cbn [cm_step] in Hnext, Hres.
    destruct (cm_set batch (nm_map s) k off sz) as [[cm' oo] os] eqn:E. cbn [fst snd nm_map nm_met] in *.
    split; [|exact Hnext]. rewrite ref_step_put_snd in Hres.
    rewrite log_put_ref. cbv zeta.
    destruct (ref_get r k) as [[ro rs]|]; injection Hres as _ ->; reflexivity.
  - unfold nm_delete. cbn [cm_step] in Hnext, Hres.
    destruct (cm_delete batch (nm_map s) k) as [cm' ret] eqn:E. cbn [fst snd nm_map nm_met] in *.
    split; [|exact Hnext]. rewrite log_delete_ref.
    cbn [ref_step] in Hres.
    destruct (ref_get r k) as [[ro rs]|].
    + destruct (Z.ltb_spec 0 rs); cbn [snd] in Hres; injection Hres as ->.
      * destruct (Z.ltb_spec 0 rs); [reflexivity|lia].
      * reflexivity.
    + cbn [snd] in Hres. injection Hres as ->. reflexivity.
  - split; [reflexivity|exact Hnext].
Qed.

Lemma nm_run_met : forall osz batch ops s r, refines batch (nm_map s) r -> keys_ok ops ->
  nm_met (snd (nm_run osz batch s ops)) = snd (fold_left ref_metric_step ops (r, nm_met s)).
Proof.
  intros osz batch ops. induction ops as [|o ops IH]; intros s r H Hk; [reflexivity|].
  inversion Hk as [|? ? Hk1 Hk2]; subst.
  rewrite nm_run_cons_snd. cbn [fold_left].
  destruct (nm_step_met osz batch s r o H Hk1) as [Hm Hn].
  rewrite (IH _ _ Hn Hk2), Hm. reflexivity.
Qed.

(* the in-memory map's counters, after any history, are the reference counters *)
Theorem nm_counters_running : forall osz batch ops, keys_ok ops ->
  nm_met (snd (nm_run osz batch nm0 ops)) = ref_metric ops.
Proof.
  intros osz batch ops Hk. rewrite (nm_run_met osz batch ops nm0 [] (refines_nil batch) Hk). reflexivity.
Qed.

(* ---------- reopening from the .idx ---------- *)
Theorem ldb_reload_counters_partial : forall osz ops, ok_osz osz ->
  forallb (op_in_range osz) ops = true ->
  disciplined ops = true -> trig_empty_put ops = false -> trig_rewrite ops = false ->
  let s := snd (ldb_run osz ldb0 ops) in
  l_met (ldb_load osz (l_idx s)) = l_met s.
Proof.
  intros osz ops Hosz Hr Hd He Hw s. unfold s. rewrite ldb_counters_running.
  pose proof (ldb_run_idx osz ops ldb0 [] ldb_rel0 Hd) as Hidx. cbn [ldb0 l_idx app] in Hidx. fold ldb0 in Hidx.
  unfold ldb_load. cbn [l_met]. rewrite Hidx. apply index_counters; assumption.
Qed.

(* ---------- the structural invariants, stated directly ---------- *)
Theorem reachable_sections_sorted : forall batch ops, keys_ok ops ->
  let cm := snd (cm_run batch [] ops) in
  forall i j a b, (i < j)%nat -> nth_error cm i = Some a -> nth_error cm j = Some b ->
    s_start a <= s_end a /\ s_end a < s_start b /\ s_start a < s_start b.
Proof.
  intros batch ops Hk cm i j a b Hij Ha Hb. pose proof (reachable_inv batch ops Hk) as Hinv. fold cm in Hinv.
  pose proof (ci_ord _ _ Hinv i j a b Hij Ha Hb). pose proof (sw_se _ _ (ci_wf _ _ Hinv _ _ Ha)). lia.
Qed.

Theorem reachable_values_sorted : forall batch ops, keys_ok ops ->
  let cm := snd (cm_run batch [] ops) in
  forall i s, nth_error cm i = Some s ->
    sorted (s_values s) /\ sorted (s_overflow s) /\
    (forall k, In k (map sk (s_overflow s)) -> ~ In k (map sk (s_values s))) /\
    (forall v, In v (s_values s ++ s_overflow s) -> sk v <= sec_lim /\ s_start s + sk v <= s_end s).
Proof.
  intros batch ops Hk cm i s Hs. pose proof (reachable_inv batch ops Hk) as Hinv. fold cm in Hinv.
  pose proof (ci_wf _ _ Hinv _ _ Hs) as W. destruct (sw_inv _ _ W) as [A B C D].
  repeat split; auto; apply (sw_keys _ _ W); assumption.
Qed.

(* ---------- the repaired overflow re-delete with the real section capacity ---------- *)
Definition asc_puts (n : nat) : list op :=
  map (fun i => Put (10 * N.of_nat i) (N.of_nat i + 1) (100 + Z.of_nat i)%Z) (seq 0 n).
Definition redelete_real : list op := asc_puts 140 ++ [Put 55 7 778%Z; Del 55 9; Del 55 9].

Lemma redelete_real_witness :
  keys_ok redelete_real /\
  map (fun s => map sk (s_overflow s)) (snd (cm_run 100000 [] redelete_real)) = [[55]] /\
  nth 141 (fst (cm_run 100000 [] redelete_real)) (RGet None) = RDel 778%Z /\
  nth 142 (fst (cm_run 100000 [] redelete_real)) (RGet None) = RDel 0%Z.
Proof.
  split; [|vm_compute; repeat split; reflexivity].
  unfold keys_ok. rewrite Forall_forall. intros o Ho. unfold redelete_real in Ho. apply in_app_or in Ho.
  destruct Ho as [Ho|Ho].
  - unfold asc_puts in Ho. apply in_map_iff in Ho. destruct Ho as [i [<- Hi]]. apply in_seq in Hi.
    cbn [op_key]. unfold two64. lia.
  - simpl in Ho. destruct Ho as [<-|[<-|[<-|[]]]]; vm_compute; reflexivity.
Qed.

(* ---------- the bloom filter as an oracle ---------- *)
Lemma mfi_oracle_exact : forall es m seen,
  mfi_oracle m es (exact_answers seen es) = fst (fold_left mfi_step es (m, seen)).
Proof.
  induction es as [|e es IH]; intros m seen; [reflexivity|].
  cbn [exact_answers mfi_oracle fold_left]. rewrite IH. f_equal. f_equal.
  unfold mfi_step, mfi_metric_step. destruct (existsb (N.eqb (e_key e)) seen); reflexivity.
Qed.

Lemma bool_list_eqb_eq : forall a b, bool_list_eqb a b = true -> a = b.
Proof.
  induction a as [|x a IH]; intros [|y b] H; simpl in H; try discriminate; [reflexivity|].
  apply andb_true_iff in H. destruct H as [H1 H2]. apply Bool.eqb_prop in H1. subst. f_equal. auto.
Qed.

(* when no answer of the filter is a false positive, the oracle walk is the exact-set walk *)
Theorem bloom_no_false_positive : forall osz idx ans, trig_bloom_fp osz idx ans = false ->
  metric_from_index_o osz idx ans = metric_from_index osz idx.
Proof.
  intros osz idx ans H. unfold trig_bloom_fp in H. apply negb_false_iff in H.
  apply bool_list_eqb_eq in H. subst ans. unfold metric_from_index_o, metric_from_index.
  apply mfi_oracle_exact.
Qed.

(* ... and a single false positive turns a file into a deletion *)
Lemma bloom_false_positive_witness :
  let idx := encode 4 [mk_entry 1 1 10%Z; mk_entry 2 2 20%Z] in
  trig_bloom_fp 4 idx [false; true] = true /\
  metric_from_index 4 idx = {| m_del := 0; m_file := 2; m_delb := 0; m_fileb := 30; m_max := 2 |} /\
  metric_from_index_o 4 idx [false; true] = {| m_del := 1; m_file := 1; m_delb := 10; m_fileb := 30; m_max := 2 |}.
Proof. vm_compute. repeat split; reflexivity. Qed.

Theorem sorted_file_counters_partial : forall osz batch ops, ok_osz osz ->
  forallb (op_in_range osz) ops = true ->
  disciplined ops = true -> trig_empty_put ops = false -> trig_rewrite ops = false ->
  let s := snd (nm_run osz batch nm0 ops) in
  metric_from_index osz (nm_idx s) = nm_met s.
Proof.
  intros osz batch ops Hosz Hr Hd He Hw s. unfold s.
  rewrite nm_counters_running by (apply (keys_ok_of_range osz); assumption).
  pose proof (nm_run_idx osz batch ops nm0) as Hidx. cbn [nm0 nm_idx app] in Hidx. fold nm0 in Hidx.
  rewrite Hidx. apply index_counters; assumption.
Qed.
