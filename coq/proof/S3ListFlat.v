(* C27, pagination without delimiter over a bucket directory whose sub directories
   hold files only (one level of nesting): the marker may point into a sub directory
   ("d/x"), which exercises the marker branch of doListFilerEntries. *)
From Coq Require Import List NArith ZArith Bool String Ascii Arith Lia.
From SW Require Import model.S3List proof.S3ListProofs proof.S3ListSound proof.S3ListExact proof.S3ListPaging.
Import ListNotations.
Local Open Scope string_scope.
Local Open Scope list_scope.
Local Notation length := List.length.

Definition is_file (t : tree) : bool := match t with File _ => true | Dir _ _ => false end.

(* a file, or a directory (not ".uploads") that holds at least one file and only files *)
Definition flat1 (t : tree) : bool :=
  match t with
  | File _ => true
  | Dir n fs => negb (n =? uploads) && match fs with [] => false | _ :: _ => true end && forallb is_file fs
  end.

Lemma files_productive : forall ae fs, forallb is_file fs = true -> forallb (productive ae false) fs = true.
Proof.
  intros ae fs H. apply forallb_forall. intros t Ht. rewrite forallb_forall in H. specialize (H t Ht).
  destruct t; [reflexivity | discriminate].
Qed.

Lemma flat1_productive : forall ae t, flat1 t = true -> productive ae false t = true.
Proof.
  intros ae t H. destruct t as [n|n fs]; [reflexivity|]. simpl in *.
  apply andb_true_iff in H. destruct H as [H H3]. apply andb_true_iff in H. destruct H as [H1 H2].
  rewrite H1, H2. simpl. apply files_productive. exact H3.
Qed.

Lemma R_files : forall ae D fs, forallb is_file fs = true ->
  R ae false D fs = map (fun f => IKey (D ++ [tname f])) fs.
Proof.
  intros ae D. induction fs as [|f fs IH]; intros H; [reflexivity|]. simpl in H. apply andb_true_iff in H.
  destruct H as [H1 H2]. unfold R, ref_forest in *. simpl. rewrite (IH H2). destruct f; [reflexivity | discriminate].
Qed.

Lemma R_app : forall ae delim D A B, R ae delim D (A ++ B) = R ae delim D A ++ R ae delim D B.
Proof. intros. unfold R, ref_forest. apply flat_map_app. Qed.

Lemma R_cons : forall ae delim D e B, R ae delim D (e :: B) = ref_tree ae delim D e ++ R ae delim D B.
Proof. reflexivity. Qed.

Lemma ref_tree_flat_dir : forall ae D n fs, flat1 (Dir n fs) = true ->
  ref_tree ae false D (Dir n fs) = R ae false (D ++ [n]) fs.
Proof.
  intros ae D n fs H. simpl in H. apply andb_true_iff in H. destruct H as [H _]. apply andb_true_iff in H.
  destruct H as [H _]. apply negb_true_iff in H. simpl. rewrite H. reflexivity.
Qed.

Lemma last_marker_last : forall D d A x, last_marker D d (A ++ [x]) = rel_marker D x.
Proof. intros. unfold last_marker. rewrite rev_app_distr. reflexivity. Qed.

Lemma rel_marker_two : forall D n g, rel_marker D (IKey ((D ++ [n]) ++ [g])) = (n ++ "/" ++ g)%string.
Proof.
  intros D n g. unfold rel_marker. simpl item_path. rewrite <- app_assoc. rewrite skipn_app_exact. reflexivity.
Qed.

(* where the M-th item of a listing lies *)
Inductive cut_at (ae : bool) (D : list string) (E : list tree) (Mn : nat) : string -> list item -> Prop :=
| cut_file : forall X n B,
    E = X ++ File n :: B ->
    skipn Mn (R ae false D E) = R ae false D B ->
    cut_at ae D E Mn n (R ae false D B)
| cut_dir : forall X n fs B F1 g F2,
    E = X ++ Dir n fs :: B -> fs = F1 ++ File g :: F2 ->
    skipn Mn (R ae false D E) = R ae false (D ++ [n]) F2 ++ R ae false D B ->
    cut_at ae D E Mn (n ++ "/" ++ g)%string (R ae false (D ++ [n]) F2 ++ R ae false D B).

Lemma all_files_split : forall fs Mn, forallb is_file fs = true -> 1 <= Mn -> Mn <= length fs ->
  exists F1 g F2, fs = F1 ++ File g :: F2 /\ length F1 = Mn - 1.
Proof.
  intros fs Mn H H1 H2. destruct (split_at _ fs Mn H1 H2) as [F1 [f [F2 [E L]]]].
  rewrite forallb_forall in H. assert (Hf : is_file f = true) by (apply H; rewrite E; apply in_or_app; right; left; reflexivity).
  destruct f as [g|]; [|discriminate]. exists F1, g, F2. split; assumption.
Qed.

Lemma take_cut : forall ae D E Mn, forallb flat1 E = true -> 1 <= Mn -> Mn <= length (R ae false D E) ->
  exists m' rest, cut_at ae D E Mn m' rest /\
                  last_marker D "" (firstn Mn (R ae false D E)) = m' /\ skipn Mn (R ae false D E) = rest.
Proof.
  intros ae D. induction E as [|e E IH]; intros Mn HF H1 H2; [simpl in H2; lia|].
  simpl in HF. apply andb_true_iff in HF. destruct HF as [He HE].
  rewrite R_cons in *. rewrite app_length in H2.
  destruct (Nat.le_gt_cases Mn (length (ref_tree ae false D e))) as [Hin|Hout].
  - (* the cut lies inside e *)
    rewrite firstn_app. replace (Mn - length (ref_tree ae false D e)) with 0 by lia. rewrite firstn_O, app_nil_r.
    rewrite skipn_app. replace (Mn - length (ref_tree ae false D e)) with 0 by lia. simpl skipn at 2.
    destruct e as [n|n fs].
    + simpl in Hin. assert (Mn = 1) by lia. subst Mn. simpl.
      exists n, (R ae false D E). split; [|split; [apply (rel_marker_leaf D n); reflexivity | reflexivity]].
      apply (cut_file ae D (File n :: E) 1 [] n E); reflexivity.
    + pose proof He as He'. simpl in He. apply andb_true_iff in He. destruct He as [_ Hfs].
      rewrite (ref_tree_flat_dir ae D n fs He') in *. rewrite (R_files ae (D ++ [n]) fs Hfs) in *.
      rewrite map_length in Hin.
      destruct (all_files_split fs Mn Hfs H1 Hin) as [F1 [g [F2 [EF LF]]]].
      assert (Hf2 : forallb is_file F2 = true).
      { apply forallb_forall. intros t Ht. rewrite forallb_forall in Hfs. apply Hfs. rewrite EF. apply in_or_app. right. right. exact Ht. }
      exists (n ++ "/" ++ g)%string, (R ae false (D ++ [n]) F2 ++ R ae false D E).
      assert (ES : skipn Mn (map (fun f => IKey ((D ++ [n]) ++ [tname f])) fs) = R ae false (D ++ [n]) F2).
      { rewrite skipn_map. rewrite EF. replace Mn with (length (F1 ++ [File g])) by (rewrite app_length; simpl; lia).
        change (F1 ++ File g :: F2) with (F1 ++ [File g] ++ F2). rewrite app_assoc, skipn_app_exact.
        symmetry. apply R_files. exact Hf2. }
      split; [|split].
      * apply (cut_dir ae D (Dir n fs :: E) Mn [] n fs E F1 g F2); [reflexivity | exact EF |].
        rewrite R_cons, (ref_tree_flat_dir ae D n fs He'), (R_files ae (D ++ [n]) fs Hfs).
        rewrite skipn_app, map_length. replace (Mn - length fs) with 0 by lia. rewrite ES. reflexivity.
      * rewrite firstn_map. rewrite EF.
        assert (EFi : firstn Mn (F1 ++ File g :: F2) = F1 ++ [File g]).
        { rewrite firstn_app. rewrite firstn_all2 by lia. replace (Mn - length F1) with 1 by lia. reflexivity. }
        rewrite EFi, map_app. simpl map. rewrite last_marker_last. apply rel_marker_two.
      * rewrite ES. reflexivity.
  - (* the cut lies behind e *)
    assert (HNE : ref_tree ae false D e <> []) by (apply prod_ref_nonempty; apply flat1_productive; exact He).
    destruct (IH (Mn - length (ref_tree ae false D e)) HE ltac:(lia) ltac:(lia)) as [m' [rest [HC [HL HS]]]].
    exists m', rest. split; [|split].
    + destruct HC as [X n B HE1 HS1 | X n fs B F1 g F2 HE1 HF1 HS1].
      * apply (cut_file ae D (e :: E) Mn (e :: X) n B); [rewrite HE1; reflexivity|].
        rewrite R_cons, skipn_app. rewrite (skipn_all2 (ref_tree ae false D e)) by lia. exact HS1.
      * apply (cut_dir ae D (e :: E) Mn (e :: X) n fs B F1 g F2); [rewrite HE1; reflexivity | exact HF1 |].
        rewrite R_cons, skipn_app. rewrite (skipn_all2 (ref_tree ae false D e)) by lia. exact HS1.
    + rewrite firstn_app. rewrite firstn_all2 by lia. rewrite last_marker_app.
      assert (NE : firstn (Mn - length (ref_tree ae false D e)) (R ae false D E) <> []).
      { destruct (R ae false D E) as [|x xs]; [simpl in H2; lia|].
        destruct (Mn - length (ref_tree ae false D e)) eqn:EM; [lia | discriminate]. }
      rewrite (last_marker_dflt D _ "" _ NE). exact HL.
    + rewrite skipn_app. rewrite (skipn_all2 (ref_tree ae false D e)) by lia. exact HS.
Qed.

Lemma cut_slash_app : forall n g, no_slash n = true -> cut_slash (n ++ String slash g)%string = Some (n, g).
Proof.
  induction n as [|c n IH]; intros g H; [reflexivity|]. simpl in H. apply andb_true_iff in H. destruct H as [H1 H2].
  apply negb_true_iff in H1. simpl. rewrite H1. rewrite (IH g H2). reflexivity.
Qed.

Lemma count_slash_app : forall n g, no_slash n = true -> count_slash (n ++ String slash g)%string = S (count_slash g).
Proof.
  induction n as [|c n IH]; intros g H; [reflexivity|]. simpl in H. apply andb_true_iff in H. destruct H as [H1 H2].
  apply negb_true_iff in H1. simpl. rewrite H1. exact (IH g H2).
Qed.

Lemma forallb_app_r : forall A (f : A -> bool) a b, forallb f (a ++ b) = true -> forallb f b = true.
Proof. intros A f a b H. rewrite forallb_app in H. apply andb_true_iff in H. exact (proj2 H). Qed.

Lemma forallb_app_l : forall A (f : A -> bool) a b, forallb f (a ++ b) = true -> forallb f a = true.
Proof. intros A f a b H. rewrite forallb_app in H. apply andb_true_iff in H. exact (proj1 H). Qed.

Section Flat.
  Variable ae : bool.
  Variable rootk : list tree.
  Hypothesis Hwf : wf rootk = true.
  Variable prefix : string.
  Hypothesis Hbp : bad_prefix prefix = false.
  Variable K : list tree.
  Hypothesis HW : walk rootk (req_dir prefix) = Some K.
  Variable M : Z.
  Hypothesis HM : (1 <= M)%Z.

  Let D := req_dir prefix.
  Let pfx := snd (split_prefix prefix).
  Let E0 := filter (fun t => String.prefix pfx (tname t)) K.
  Let Mn := Z.to_nat M.

  (* every entry with the name prefix is a file or a directory of files *)
  Hypothesis Hflat : forallb flat1 E0 = true.

  Let HP : plain D := plain_of_bad_prefix prefix Hbp.
  Let HK : wf K = true := walk_wf D rootk K Hwf HW.

  Definition RallF : list item := ref_list ae rootk prefix false.

  Lemma RallF_eq : RallF = R ae false D E0.
  Proof. unfold RallF, ref_list. fold D. fold pfx. rewrite (resolve_plain rootk D K HP HW). reflexivity. Qed.

  Definition page_f (m : string) : res := list_items ae rootk prefix M m false.

  Inductive validF : string -> nat -> Prop :=
  | vA : forall m p P B, count_slash m = 0 -> E0 = P ++ B ->
      filter (fun t => String.ltb m (tname t)) E0 = B -> skipn p RallF = R ae false D B -> validF m p
  | vB : forall p P n fs B F1 g F2, E0 = P ++ Dir n fs :: B -> fs = F1 ++ File g :: F2 ->
      skipn p RallF = R ae false (D ++ [n]) F2 ++ R ae false D B -> validF (n ++ "/" ++ g)%string p.

  Lemma E0_in_K : forall t, In t E0 -> In t K.
  Proof. intros t H. unfold E0 in H. apply filter_In in H. exact (proj1 H). Qed.

  Lemma E0_sortedF : tsorted E0.
  Proof. apply tsorted_filter. apply tsorted_of_wf. exact HK. Qed.

  Lemma name_count0 : forall t, In t K -> count_slash (tname t) = 0.
  Proof.
    intros t H. apply no_slash_count. pose proof (wf_good_names K t HK H) as GN.
    unfold good_name in GN. apply andb_true_iff in GN. exact (proj2 GN).
  Qed.

  (* from the place of the cut to the validity of the next marker *)
  Lemma cut_valid : forall P B Mn' m' rest q, E0 = P ++ B -> cut_at ae D B Mn' m' rest ->
    skipn q RallF = rest -> validF m' q.
  Proof.
    intros P B Mn' m' rest q HE HC HS. destruct HC as [X n B2 HB HS1 | X n fs B2 F1 g F2 HB HF HS1].
    - apply (vA n q (P ++ X ++ [File n]) B2).
      + apply (name_count0 (File n)). apply E0_in_K. rewrite HE, HB. apply in_or_app. right. apply in_or_app. right. left. reflexivity.
      + rewrite HE, HB. rewrite <- !app_assoc. reflexivity.
      + assert (EQ : E0 = (P ++ X) ++ File n :: B2) by (rewrite HE, HB, <- app_assoc; reflexivity).
        pose proof E0_sortedF as TS. rewrite EQ in TS. rewrite EQ. exact (filter_gt_split _ (File n) B2 TS).
      + exact HS.
    - apply (vB q (P ++ X) n fs B2 F1 g F2); [rewrite HE, HB, <- app_assoc; reflexivity | exact HF | exact HS].
  Qed.

  Lemma flat_suffix : forall P B, E0 = P ++ B -> forallb flat1 B = true.
  Proof. intros P B H. apply (forallb_app_r _ _ P). rewrite <- H. exact Hflat. Qed.

  Lemma prod_suffix : forall P B, E0 = P ++ B -> forallb (productive ae false) B = true.
  Proof.
    intros P B H. apply forallb_forall. intros t Ht. apply flat1_productive.
    pose proof (flat_suffix P B H) as F. rewrite forallb_forall in F. exact (F t Ht).
  Qed.

  Lemma HpageA : forall m p P B, count_slash m = 0 -> E0 = P ++ B ->
    filter (fun t => String.ltb m (tname t)) E0 = B -> skipn p RallF = R ae false D B ->
    r_items (page_f m) = firstn Mn (skipn p RallF) /\
    r_trunc (page_f m) = Nat.ltb Mn (length (skipn p RallF)) /\
    (r_trunc (page_f m) = true -> validF (r_next (page_f m)) (p + Mn) /\ r_next (page_f m) = last_marker D "" (r_items (page_f m))).
  Proof.
    intros m p P B Hm HE Hf HS. unfold page_f, list_items, list_fuel. rewrite Hm, Nat.add_0_r. fold D. fold pfx.
    assert (EE : filter (fun t => String.prefix pfx (tname t) && String.ltb m (tname t)) K = B).
    { rewrite filter_filter_and. exact Hf. }
    assert (HPr : forallb (productive ae false) (filter (fun t => String.prefix pfx (tname t) && String.ltb m (tname t)) K) = true).
    { rewrite EE. exact (prod_suffix P B HE). }
    pose proof (walk_height D rootk K HW) as HH.
    destruct (page_exact ae rootk false (S (forest_height rootk)) D K pfx M m HP HW HK HPr ltac:(lia) HM Hm
                ltac:(apply andb_false_r)) as [G1 [G2 [G3 G4]]].
    rewrite EE in G1, G3. rewrite HS. fold Mn in G1.
    split; [exact G1|]. split; [rewrite G3; apply gtb_ltb_nat; exact HM|].
    intros HT. rewrite G3 in HT. rewrite (gtb_ltb_nat _ M HM) in HT. apply Nat.ltb_lt in HT. fold Mn in HT.
    destruct (take_cut ae D B Mn (flat_suffix P B HE) ltac:(unfold Mn; lia) ltac:(lia)) as [m' [rest [HC [HL HR]]]].
    split; [|exact G4].
    rewrite G4, G1, HL.
    apply (cut_valid P B Mn m' rest (p + Mn) HE HC). rewrite skipn_add, HS. exact HR.
  Qed.

  Lemma firstn_le : forall A n (l : list A), length (firstn n l) <= n.
  Proof. intros. apply firstn_le_length. Qed.

  Lemma HpageB : forall p P n fs B F1 g F2, E0 = P ++ Dir n fs :: B -> fs = F1 ++ File g :: F2 ->
    skipn p RallF = R ae false (D ++ [n]) F2 ++ R ae false D B ->
    let m := (n ++ "/" ++ g)%string in
    r_items (page_f m) = firstn Mn (skipn p RallF) /\
    r_trunc (page_f m) = Nat.ltb Mn (length (skipn p RallF)) /\
    (r_trunc (page_f m) = true -> validF (r_next (page_f m)) (p + Mn) /\ r_next (page_f m) = last_marker D "" (r_items (page_f m))).
  Proof.
    intros p P n fs B F1 g F2 HE HF HS m.
    assert (HeE : In (Dir n fs) E0) by (rewrite HE; apply in_or_app; right; left; reflexivity).
    pose proof (E0_in_K _ HeE) as HeK.
    assert (Nn : no_slash n = true).
    { pose proof (wf_good_names K (Dir n fs) HK HeK) as GN. unfold good_name in GN. apply andb_true_iff in GN. exact (proj2 GN). }
    pose proof (wf_kids n fs K HK HeK) as Wfs.
    destruct (resolve_child rootk D K n fs HP HW HK HeK) as [RC [WC PC]].
    assert (Hflat1 : flat1 (Dir n fs) = true) by (rewrite forallb_forall in Hflat; exact (Hflat _ HeE)).
    assert (Hfiles : forallb is_file fs = true).
    { simpl in Hflat1. apply andb_true_iff in Hflat1. exact (proj2 Hflat1). }
    assert (HgIn : In (File g) fs) by (rewrite HF; apply in_or_app; right; left; reflexivity).
    assert (Cg : count_slash g = 0).
    { apply no_slash_count. pose proof (wf_good_names fs (File g) Wfs HgIn) as GN. unfold good_name in GN.
      apply andb_true_iff in GN. exact (proj2 GN). }
    assert (HF2 : forallb is_file F2 = true).
    { apply forallb_forall. intros t Ht. rewrite forallb_forall in Hfiles. apply Hfiles. rewrite HF. apply in_or_app. right. right. exact Ht. }
    (* the sub listing behind g *)
    assert (Esub : filter (fun t => String.prefix "" (tname t) && String.ltb g (tname t)) fs = F2).
    { assert (EQ : filter (fun t => String.prefix "" (tname t) && String.ltb g (tname t)) fs =
                   filter (fun t => String.ltb (tname (File g)) (tname t)) fs).
      { apply filter_ext. intros t. destruct (tname t); reflexivity. }
      rewrite EQ. pose proof (tsorted_of_wf fs Wfs) as TS. rewrite HF in *. exact (filter_gt_split F1 (File g) F2 TS). }
    pose proof (walk_height (D ++ [n]) rootk fs WC) as HHs.
    assert (HPrs : forallb (productive ae false) (filter (fun t => String.prefix "" (tname t) && String.ltb g (tname t)) fs) = true).
    { rewrite Esub. apply files_productive. exact HF2. }
    destruct (page_exact ae rootk false (forest_height rootk + 1) (D ++ [n]) fs "" M g PC WC Wfs HPrs ltac:(lia) HM Cg eq_refl)
      as [S1 [S2 [S3 S4]]].
    rewrite Esub in S1, S3. fold Mn in S1.
    set (sub := do_list ae rootk false (S (forest_height rootk + 1)) (D ++ [n]) "" M g) in *.
    set (A1 := R ae false (D ++ [n]) F2) in *. set (A2 := R ae false D B) in *.
    (* the parent listing behind n *)
    assert (EB : filter (fun t => String.prefix pfx (tname t) && String.ltb n (tname t)) K = B).
    { rewrite filter_filter_and. fold E0. pose proof E0_sortedF as TS. rewrite HE in *.
      exact (filter_gt_split P (Dir n fs) B TS). }
    assert (HEB : E0 = (P ++ [Dir n fs]) ++ B) by (rewrite HE, <- app_assoc; reflexivity).
    assert (Hc : r_count sub = Z.of_nat (length (firstn Mn A1))) by (rewrite S2, S1; reflexivity).
    pose proof (firstn_le _ Mn A1) as Hcl.
    pose proof (walk_height D rootk K HW) as HH.
    assert (HEs : forall e, In e B -> In e K /\ productive ae false e = true).
    { intros e He. split; [apply E0_in_K; rewrite HEB; apply in_or_app; right; exact He|].
      pose proof (prod_suffix _ _ HEB) as PS. rewrite forallb_forall in PS. exact (PS e He). }
    pose proof (loop_exact ae rootk false (S (forest_height rootk + 1))
                  (fun D' m' => do_list ae rootk false (S (forest_height rootk + 1)) D' "" m' "") D K (M - r_count sub)%Z
                  (do_list_exact ae rootk false (S (forest_height rootk + 1))) HP HW HK ltac:(lia) B HEs
                  (Z.to_nat (M - r_count sub + 1)) (r_items sub) 0%Z (r_trunc sub) (n ++ "/" ++ r_next sub)%string
                  ltac:(unfold Mn in *; lia) ltac:(unfold Mn in *; lia)) as G.
    cbv zeta in G. replace (M - r_count sub - 0)%Z with (M - r_count sub)%Z in G by lia. destruct G as [G1 [G2 [G3 G4]]].
    fold A2 in G1, G2, G3, G4.
    (* unfold the top call *)
    assert (Epage : page_f m = loop ae rootk false (fun D' m' => do_list ae rootk false (S (forest_height rootk + 1)) D' "" m' "") D
                      (M - r_count sub) (firstn (Z.to_nat (M - r_count sub + 1)) B) (r_items sub) 0 (r_trunc sub) (n ++ "/" ++ r_next sub)%string).
    { unfold page_f, list_items, list_fuel. fold D. fold pfx. unfold m.
      change (n ++ "/" ++ g)%string with (n ++ String slash g)%string.
      rewrite (count_slash_app n g Nn), Cg. replace (forest_height rootk + 1) with (S (forest_height rootk + 0)) by lia.
      rewrite do_list_S. rewrite andb_false_r.
      destruct (M <=? 0)%Z eqn:EM; [apply Z.leb_le in EM; lia|].
      rewrite (cut_slash_app n g Nn). cbv iota beta zeta.
      unfold list_entries. rewrite (resolve_plain rootk D K HP HW). rewrite EB.
      replace (S (forest_height rootk + 0)) with (forest_height rootk + 1) by lia. reflexivity. }
    rewrite Hc in *. rewrite S1 in *. rewrite <- Epage in G1, G2, G3, G4. rewrite HS.
    assert (Ecut : firstn Mn (A1 ++ A2) = firstn Mn A1 ++ firstn (Z.to_nat (M - Z.of_nat (length (firstn Mn A1)))) A2).
    { rewrite firstn_app. f_equal. f_equal. rewrite firstn_length. unfold Mn. lia. }
    split; [rewrite G1, Ecut; reflexivity|].
    assert (Etr : (r_trunc sub || (Z.of_nat (length A2) >? M - Z.of_nat (length (firstn Mn A1)))%Z) = Nat.ltb Mn (length (A1 ++ A2))).
    { rewrite S3. fold A1. rewrite app_length. rewrite firstn_length.
      destruct (Nat.ltb Mn (length A1 + length A2)) eqn:E1.
      - apply Nat.ltb_lt in E1. destruct (Z.of_nat (length A1) >? M)%Z eqn:E2; [reflexivity|].
        rewrite Z.gtb_ltb in E2. apply Z.ltb_ge in E2. simpl. apply Z.gtb_lt. unfold Mn in *. lia.
      - apply Nat.ltb_ge in E1. destruct (Z.of_nat (length A1) >? M)%Z eqn:E2; [apply Z.gtb_lt in E2; unfold Mn in *; lia|].
        simpl. rewrite Z.gtb_ltb. apply Z.ltb_ge. unfold Mn in *. lia. }
    split; [rewrite G3; exact Etr|].
    intros HT. rewrite G3, Etr in HT. apply Nat.ltb_lt in HT. rewrite app_length in HT.
    rewrite G4.
    destruct (Nat.le_gt_cases Mn (length A1)) as [Hin|Hout].
    - (* the page ends inside the sub directory *)
      assert (EX1 : firstn (Z.to_nat (M - Z.of_nat (length (firstn Mn A1)))) A2 = []).
      { rewrite firstn_length. replace (Z.to_nat (M - Z.of_nat (Nat.min Mn (length A1)))) with 0 by (unfold Mn in *; lia). reflexivity. }
      rewrite EX1. rewrite last_marker_nil. rewrite S4.
      pose proof Hin as Hin0. unfold A1 in Hin. rewrite (R_files ae (D ++ [n]) F2 HF2), map_length in Hin.
      destruct (all_files_split F2 Mn HF2 ltac:(unfold Mn; lia) Hin) as [G1' [g' [G2' [EF LF]]]].
      assert (Enext : last_marker (D ++ [n]) "" (firstn Mn A1) = g').
      { unfold A1. rewrite (R_files ae (D ++ [n]) F2 HF2). rewrite firstn_map, EF.
        assert (EFi : firstn Mn (G1' ++ File g' :: G2') = G1' ++ [File g']).
        { rewrite firstn_app. rewrite firstn_all2 by lia. replace (Mn - length G1') with 1 by lia. reflexivity. }
        rewrite EFi, map_app. simpl map. rewrite last_marker_last. apply (rel_marker_leaf (D ++ [n]) g'). reflexivity. }
      rewrite Enext.
      split; [|rewrite G1, EX1, app_nil_r; unfold A1; rewrite (R_files ae (D ++ [n]) F2 HF2), firstn_map, EF;
               assert (EFi : firstn Mn (G1' ++ File g' :: G2') = G1' ++ [File g']) by
                 (rewrite firstn_app; rewrite firstn_all2 by lia; replace (Mn - length G1') with 1 by lia; reflexivity);
               rewrite EFi, map_app; simpl map; rewrite last_marker_last; symmetry; apply rel_marker_two].
      apply (vB (p + Mn) P n fs B (F1 ++ File g :: G1') g' G2' HE).
      + rewrite HF, EF. rewrite <- app_assoc. reflexivity.
      + rewrite skipn_add, HS. rewrite skipn_app.
        replace (Mn - length A1) with 0 by lia. simpl skipn at 2. f_equal.
        assert (HG2 : forallb is_file G2' = true).
        { apply forallb_forall. intros t Ht. rewrite forallb_forall in HF2. apply HF2. rewrite EF. apply in_or_app. right. right. exact Ht. }
        unfold A1. rewrite (R_files ae (D ++ [n]) F2 HF2), (R_files ae (D ++ [n]) G2' HG2). rewrite skipn_map, EF.
        replace Mn with (length (G1' ++ [File g'])) by (rewrite app_length; simpl; lia).
        change (G1' ++ File g' :: G2') with (G1' ++ [File g'] ++ G2'). rewrite app_assoc, skipn_app_exact. reflexivity.
    - (* the page ends in the parent directory *)
      assert (EL : length (firstn Mn A1) = length A1) by (rewrite firstn_length; lia).
      rewrite EL.
      assert (EMn : Z.to_nat (M - Z.of_nat (length A1)) = Mn - length A1) by (unfold Mn; lia).
      rewrite EMn.
      destruct (take_cut ae D B (Mn - length A1) (flat_suffix _ _ HEB) ltac:(lia) ltac:(fold A2; lia)) as [m' [rest [HC [HL HR]]]].
      fold A2 in HL, HR.
      assert (NE : firstn (Mn - length A1) A2 <> []).
      { destruct A2 as [|x xs]; [simpl in HT; lia|]. destruct (Mn - length A1) eqn:EM; [lia | discriminate]. }
      rewrite (last_marker_dflt D _ "" _ NE), HL.
      split; [|rewrite G1, EL, EMn, last_marker_app, (last_marker_dflt D _ "" _ NE); symmetry; exact HL].
      apply (cut_valid _ B (Mn - length A1) m' rest (p + Mn) HEB HC).
      rewrite skipn_add, HS, skipn_app. rewrite (skipn_all2 A1) by lia. exact HR.
  Qed.

  Lemma HpageF : forall m p, validF m p ->
    r_items (page_f m) = firstn Mn (skipn p RallF) /\
    r_trunc (page_f m) = Nat.ltb Mn (length (skipn p RallF)) /\
    (r_trunc (page_f m) = true -> validF (r_next (page_f m)) (p + Mn) /\ r_next (page_f m) = last_marker D "" (r_items (page_f m))).
  Proof.
    intros m p H. destruct H as [m p P B Hm HE Hf HS | p P n fs B F1 g F2 HE HF HS].
    - exact (HpageA m p P B Hm HE Hf HS).
    - exact (HpageB p P n fs B F1 g F2 HE HF HS).
  Qed.

  Lemma validF_start : validF "" 0.
  Proof.
    apply (vA "" 0 [] E0); [reflexivity | reflexivity | | simpl; exact RallF_eq].
    apply forallb_filter_id. apply forallb_forall. intros t Ht.
    rewrite ltb_empty. apply negb_true_iff. apply String.eqb_neq. apply good_name_nonempty.
    exact (wf_good_names K t HK (E0_in_K t Ht)).
  Qed.

  Theorem pages_complete_flat : forall n, length RallF < n ->
    flat_map r_items (pag page_f n "") = RallF /\
    exists l r, pag page_f n "" = l ++ [r] /\ r_trunc r = false.
  Proof.
    intros n Hn.
    refine (pag_complete page_f RallF Mn ltac:(unfold Mn; lia) validF _ n "" 0 validF_start Hn).
    intros m p Hv. destruct (HpageF m p Hv) as [H1 [H2 H3]]. split; [exact H1|]. split; [exact H2|].
    intros HT. exact (proj1 (H3 HT)).
  Qed.

  (* ----- continuing from the last key (V1 marker / V2 start-after) ----- *)

  Lemma items_keys : forall (X : list item), (forall it, In it X -> exists q, it = IKey q) ->
    flat_map cp_of X = [] /\ flat_map key_of X = map (fun it => join_slash (item_path it)) X.
  Proof.
    induction X as [|x X IH]; intros H; [split; reflexivity|].
    destruct (IH (fun it Hit => H it (or_intror Hit))) as [I1 I2].
    destruct (H x (or_introl eq_refl)) as [q Eq]. subst x. simpl. rewrite I1, I2. split; reflexivity.
  Qed.

  Lemma page_items_in_ref : forall m p, validF m p -> forall it, In it (r_items (page_f m)) -> In it RallF.
  Proof.
    intros m p Hv it Hit. destruct (HpageF m p Hv) as [H1 _]. rewrite H1 in Hit.
    apply firstn_in in Hit. rewrite <- (firstn_skipn p RallF). apply in_or_app. right. exact Hit.
  Qed.

  Hypothesis HD0 : D = [].   (* the prefix has no directory part *)

  Lemma last_key_is_next : forall m p, validF m p -> r_trunc (page_f m) = true ->
    last_key (render (page_f m)) = Some (r_next (page_f m)).
  Proof.
    intros m p Hv HT. destruct (HpageF m p Hv) as [H1 [H2 H3]]. destruct (H3 HT) as [_ HN].
    assert (HK' : forall it, In it (r_items (page_f m)) -> exists q, it = IKey q).
    { intros it Hit. pose proof (page_items_in_ref m p Hv it Hit) as G. unfold RallF, ref_list in G.
      exact (ref_nodelim_keys ae _ _ it G). }
    destruct (items_keys _ HK') as [E1 E2].
    assert (NE : r_items (page_f m) <> []).
    { rewrite H1. rewrite H2 in HT. apply Nat.ltb_lt in HT. destruct (skipn p RallF) as [|x xs]; [simpl in HT; lia|].
      unfold Mn in *. destruct (Z.to_nat M) eqn:EM; [lia | discriminate]. }
    unfold last_key, render. simpl pg_keys. simpl pg_cps. rewrite E1, E2. simpl rev at 2.
    rewrite HN. unfold last_marker. rewrite <- map_rev.
    destruct (rev (r_items (page_f m))) as [|it rx] eqn:ER.
    - apply (f_equal (@rev item)) in ER. rewrite rev_involutive in ER. contradiction.
    - simpl. unfold rel_marker. rewrite HD0. reflexivity.
  Qed.

  Lemma paginate_lastkey : forall st, (st = V1LastKey \/ st = V2StartAfter) ->
    forall n m p, validF m p ->
      paginate n ae rootk prefix M false st m = map render (pag page_f n m).
  Proof.
    intros st Hst. induction n as [|n IH]; intros m p Hv; [reflexivity|].
    simpl paginate. simpl pag. cbv zeta.
    change (list_objects ae rootk prefix M m false) with (render (page_f m)).
    simpl map. f_equal. simpl pg_trunc.
    change (list_items ae rootk prefix M m false) with (page_f m).
    destruct (r_trunc (page_f m)) eqn:ET; [|reflexivity].
    assert (EN : next_marker st (render (page_f m)) = Some (r_next (page_f m))).
    { destruct Hst; subst st; simpl next_marker; exact (last_key_is_next m p Hv ET). }
    rewrite EN. destruct (HpageF m p Hv) as [_ [_ H3]]. destruct (H3 ET) as [Hv' _].
    exact (IH (r_next (page_f m)) (p + Mn) Hv').
  Qed.
End Flat.

(* FINAL (ii): without delimiter, over a prefix directory whose sub directories hold
   files only, a client following the continuation token / NextMarker gets every key of
   the reference listing exactly in order; so does a client that continues from the
   last key when the prefix has no directory part *)
Theorem paginate_complete_flat : forall ae rootk prefix K M n st,
  wf rootk = true -> bad_prefix prefix = false -> walk rootk (req_dir prefix) = Some K -> (1 <= M)%Z ->
  forallb flat1 (filter (fun t => String.prefix (snd (split_prefix prefix)) (tname t)) K) = true ->
  (st = V2Token \/ st = V1NextMarker \/ (req_dir prefix = [] /\ (st = V1LastKey \/ st = V2StartAfter))) ->
  length (ref_list ae rootk prefix false) < n ->
  let pages := paginate n ae rootk prefix M false st "" in
  flat_map pg_keys pages = flat_map key_of (ref_list ae rootk prefix false) /\
  flat_map pg_cps pages = flat_map cp_of (ref_list ae rootk prefix false) /\
  exists l p, pages = l ++ [p] /\ pg_trunc p = false.
Proof.
  intros ae rootk prefix K M n st Hwf Hbp HW HM Hflat Hst Hn pages. unfold pages.
  assert (EP : paginate n ae rootk prefix M false st "" = map render (pag (page_f ae rootk prefix M) n "")).
  { destruct Hst as [Hst|[Hst|[HD Hst]]].
    - exact (paginate_token ae rootk prefix M false st (or_introl Hst) n "").
    - exact (paginate_token ae rootk prefix M false st (or_intror Hst) n "").
    - exact (paginate_lastkey ae rootk Hwf prefix Hbp K HW M HM Hflat HD st Hst n "" 0
               (validF_start ae rootk Hwf prefix Hbp K HW)). }
  rewrite EP.
  destruct (pages_complete_flat ae rootk Hwf prefix Hbp K HW M HM Hflat n Hn) as [H1 [l [r [H2 H3]]]].
  rewrite flat_map_render_keys, flat_map_render_cps, H1. unfold RallF. split; [reflexivity|]. split; [reflexivity|].
  exists (map render l), (render r). split; [rewrite H2, map_app; reflexivity | exact H3].
Qed.
