(* C04 proofs, part 3: the two copy loops (Compact / Compact2). *)
From Coq Require Import List NArith ZArith Bool Lia.
From SW Require Import model.Volume model.Compaction proof.CompactionInv proof.CompactionRead.
Import ListNotations.
Local Open Scope N_scope.

Lemma fold_left_ext_fn : forall {A B} (f g : A -> B -> A) l a,
  (forall a x, f a x = g a x) -> fold_left f l a = fold_left g l a.
Proof. intros A B f g l. induction l as [|x l IH]; intros a H; simpl; [reflexivity|]. rewrite H. apply IH. exact H. Qed.

Lemma mod8_add : forall a b, a mod 8 = 0 -> b mod 8 = 0 -> (a + b) mod 8 = 0.
Proof. intros a b Ha Hb. rewrite N.add_mod by lia. rewrite Ha, Hb. reflexivity. Qed.

(* ---------- facts about a live entry of a running volume ---------- *)
Lemma live_facts : forall s k off size, cinv s -> live (nm (cv s)) k = Some (off, size) ->
  (0 <= size)%Z /\ off <> 0 /\
  idx_get (cidx s) k = Some {| ie_key := k; ie_off := off; ie_size := size |} /\
  exists r, find_rec (recs (cv s)) off = Some r /\ Z.of_N (r_size r) = size /\ n_id (r_n r) = k /\
            read_data (cv s) off size = Some r.
Proof.
  intros s k off size H L. unfold live in L. pose proof (ci_ent _ H k) as He. unfold ent_ok in He.
  destruct (nm_get (nm (cv s)) k) as [nv|]; [|discriminate].
  destruct (nv_off nv =? 0) eqn:O; [discriminate|].
  destruct (size_deleted (nv_size nv)) eqn:D; [discriminate|]. inversion L; subst. clear L.
  assert (Hs : (0 <= nv_size nv)%Z).
  { destruct (Z_lt_le_dec (nv_size nv) 0) as [Hn|Hn]; [|exact Hn].
    apply size_deleted_neg in Hn. congruence. }
  destruct He as [_ He]. assert (Hb : (0 <=? nv_size nv)%Z = true) by (apply Z.leb_le; exact Hs).
  rewrite Hb in He. destruct He as [Hi [r [Hf [Hsz Hid]]]].
  split; [exact Hs|]. split; [apply N.eqb_neq; exact O|]. split; [exact Hi|].
  exists r. repeat split; auto. unfold read_data. rewrite Hf, Hsz, Z.eqb_refl. reflexivity.
Qed.

Lemma idx_live : forall s k e, cinv s -> idx_get (cidx s) k = Some e -> entry_dead e = false ->
  live (nm (cv s)) k = Some (ie_off e, ie_size e) /\ ie_key e = k.
Proof.
  intros s k e H Hi Hd. pose proof (ci_ent _ H k) as He. unfold ent_ok in He. unfold live.
  destruct (nm_get (nm (cv s)) k) as [nv|]; [|congruence].
  destruct He as [_ He]. unfold entry_dead in Hd. apply orb_false_elim in Hd. destruct Hd as [Ho Hdel].
  destruct (0 <=? nv_size nv)%Z.
  - destruct He as [Hi' _]. rewrite Hi in Hi'. inversion Hi'; subst. simpl in *. rewrite Ho, Hdel. auto.
  - destruct He as [o Hi']. rewrite Hi in Hi'. inversion Hi'; subst. simpl in Hdel. discriminate.
Qed.

(* ---------- the generic copy loop ---------- *)
Section Copy.
Variable X : Type.
Variable sel : X -> option rec.

Definition visit (a : cacc) (x : X) : cacc := match sel x with Some r => copy_rec a r | None => a end.

Record jinv (P : list X) (a : cacc) : Prop := {
  j_sorted : sorted_recs (a_recs a) (a_end a);
  j_asc : asc (a_db a);
  j_mod8 : a_end a mod 8 = 0;
  j_some : forall k e, idx_get (a_db a) k = Some e ->
      8 <= ie_off e /\ (0 <= ie_size e)%Z /\
      exists r' x r, find_rec (a_recs a) (ie_off e) = Some r' /\ Z.of_N (r_size r') = ie_size e /\
                     In x P /\ sel x = Some r /\ n_id (r_n r) = k /\ pl r' = pl r;
  j_none : forall x r, In x P -> sel x = Some r -> idx_get (a_db a) (n_id (r_n r)) <> None
}.

Lemma jinv_acc0 : jinv [] acc0.
Proof.
  constructor; simpl.
  - constructor. lia.
  - constructor.
  - reflexivity.
  - intros k e H. discriminate.
  - intros x r [].
Qed.

Lemma jinv_step : forall P a x, jinv P a -> jinv (x :: P) (visit a x).
Proof.
  intros P a x [Hs Ha Hm Hsome Hnone]. unfold visit. destruct (sel x) as [r|] eqn:Sx.
  - pose proof (sorted_recs_end _ _ Hs) as He8.
    constructor; simpl.
    + constructor; simpl; [lia | exact Hs].
    + apply db_set_asc. exact Ha.
    + apply mod8_add; [exact Hm | apply actual_size_mod8].
    + intros k e H. rewrite db_get_set in H. simpl in H. destruct (n_id (r_n r) =? k) eqn:E.
      * apply N.eqb_eq in E. inversion H; subst. simpl. split; [exact He8|]. split; [lia|].
        eexists. exists x, r. rewrite N.eqb_refl. repeat split; auto.
      * destruct (Hsome k e H) as [A [B [r' [x0 [r0 [Hf [Hsz [Hin [Hsel [Hid Hpl]]]]]]]]]].
        split; [exact A|]. split; [exact B|]. exists r', x0, r0.
        assert (Hne : a_end a =? ie_off e = false).
        { apply N.eqb_neq. intro Heq. pose proof (find_rec_In _ _ _ Hf) as Hin'.
          pose proof (find_rec_off _ _ _ Hf) as Hoff.
          destruct (sorted_recs_bound _ _ _ Hs Hin') as [_ Hb]. pose proof (actual_size_pos (r_size r')). lia. }
        rewrite Hne. repeat split; auto.
    + intros x0 r0 [<-|Hin] Hsel.
      * rewrite Sx in Hsel. inversion Hsel; subst. rewrite db_get_set. simpl. rewrite N.eqb_refl. discriminate.
      * rewrite db_get_set. simpl. destruct (n_id (r_n r) =? n_id (r_n r0)); [discriminate|]. eapply Hnone; eauto.
  - constructor; auto.
    + intros k e H. destruct (Hsome k e H) as [A [B [r' [x0 [r0 [Hf [Hsz [Hin [Hsel [Hid Hpl]]]]]]]]]].
      split; [exact A|]. split; [exact B|]. exists r', x0, r0. repeat split; auto. right. exact Hin.
    + intros x0 r0 [<-|Hin] Hsel; [congruence | eapply Hnone; eauto].
Qed.

Lemma jinv_fold : forall L P a, jinv P a -> jinv (rev L ++ P) (fold_left visit L a).
Proof.
  induction L as [|x L IH]; intros P a H; simpl; [exact H|].
  rewrite <- app_assoc. simpl. apply IH. apply jinv_step. exact H.
Qed.
End Copy.

Arguments visit {X}.
Arguments jinv {X}.

(* ---------- what both algorithms guarantee ---------- *)
Record copy_spec (vt : N * N) (now_s : N) (s : cvol) (a : cacc) : Prop := {
  cs_sorted : sorted_recs (a_recs a) (a_end a);
  cs_asc : asc (a_db a);
  cs_mod8 : a_end a mod 8 = 0;
  (* an entry of the new index: the key was not deleted, and the record it points to is a copy of
     the record a read of the key parses *)
  cs_some : forall k e, idx_get (a_db a) k = Some e ->
      8 <= ie_off e /\ (0 <= ie_size e)%Z /\
      (exists nv, nm_get (nm (cv s)) k = Some nv /\ (0 <= nv_size nv)%Z) /\
      exists r', find_rec (a_recs a) (ie_off e) = Some r' /\ Z.of_N (r_size r') = ie_size e /\
                 content (cv s) k = Some (pl r');
  (* no entry: nothing readable, or dropped by the TTL filter *)
  cs_none : forall k, (forall nv, nm_get (nm (cv s)) k = Some nv -> nv_size nv <> 0%Z) -> idx_get (a_db a) k = None ->
      content (cv s) k = None \/
      exists p, content (cv s) k = Some p /\ 0 < fst (fst p) /\ ttl_dropped vt now_s (view_pl p) = true
}.

(* --- scan --- *)
Definition sel_scan (vt : N * N) (now_s : N) (live_nm : nmap) (r : rec) : option rec :=
  if negb (ttl_dropped vt now_s (view_of_rec r)) &&
     match nm_get live_nm (n_id (r_n r)) with
     | Some nv => (nv_off nv =? r_off r) && (0 <? nv_size nv)%Z && size_valid (nv_size nv)
     | None => false
     end
  then Some r else None.

Lemma scan_visit_eq : forall vt now_s m a r, scan_visit vt now_s m a r = visit (sel_scan vt now_s m) a r.
Proof.
  intros. unfold scan_visit, visit, sel_scan.
  destruct (ttl_dropped vt now_s (view_of_rec r)); simpl; [reflexivity|].
  destruct (nm_get m (n_id (r_n r))) as [nv|]; [|reflexivity].
  destruct ((nv_off nv =? r_off r) && (0 <? nv_size nv)%Z && size_valid (nv_size nv)); reflexivity.
Qed.

Lemma sel_scan_some : forall vt now_s m r r', sel_scan vt now_s m r = Some r' ->
  r' = r /\ ttl_dropped vt now_s (view_of_rec r) = false /\
  exists nv, nm_get m (n_id (r_n r)) = Some nv /\ nv_off nv = r_off r /\ (0 < nv_size nv)%Z.
Proof.
  intros vt now_s m r r' H. unfold sel_scan in H.
  destruct (ttl_dropped vt now_s (view_of_rec r)); simpl in H; [discriminate|].
  destruct (nm_get m (n_id (r_n r))) as [nv|]; [|discriminate].
  destruct ((nv_off nv =? r_off r) && (0 <? nv_size nv)%Z && size_valid (nv_size nv)) eqn:C; [|discriminate].
  inversion H; subst. apply andb_prop in C. destruct C as [C _]. apply andb_prop in C. destruct C as [C1 C2].
  split; [reflexivity|]. split; [reflexivity|]. exists nv. repeat split; [apply N.eqb_eq; exact C1 | apply Z.ltb_lt; exact C2].
Qed.

Lemma scan_spec : forall vt now_s s, cinv s -> copy_spec vt now_s s (compact_scan vt now_s s).
Proof.
  intros vt now_s s H. unfold compact_scan.
  rewrite (fold_left_ext_fn _ (visit (sel_scan vt now_s (nm (cv s)))) _ _ (scan_visit_eq vt now_s (nm (cv s)))).
  pose proof (jinv_fold _ (sel_scan vt now_s (nm (cv s))) (rev (recs (cv s))) [] acc0 (jinv_acc0 _ _)) as J.
  rewrite rev_involutive, app_nil_r in J. destruct J as [Js Ja Jm Jsome Jnone].
  pose proof (ci_sorted _ H) as Hsr.
  (* a kept record is what a read of its key parses *)
  assert (Kept : forall r r0, In r (recs (cv s)) -> sel_scan vt now_s (nm (cv s)) r = Some r0 ->
            r0 = r /\ (exists nv, nm_get (nm (cv s)) (n_id (r_n r)) = Some nv /\ (0 <= nv_size nv)%Z) /\
            content (cv s) (n_id (r_n r)) = Some (pl r)).
  { intros r r0 Hin Hsel. destruct (sel_scan_some _ _ _ _ _ Hsel) as [-> [Hd [nv [G [Ho Hp]]]]].
    split; [reflexivity|]. split; [exists nv; split; [exact G | lia]|].
    destruct (sorted_recs_bound _ _ _ Hsr Hin) as [Hb8 _].
    assert (L : live (nm (cv s)) (n_id (r_n r)) = Some (nv_off nv, nv_size nv)).
    { unfold live. rewrite G.
      assert (O : nv_off nv =? 0 = false) by (apply N.eqb_neq; lia). rewrite O.
      assert (D : size_deleted (nv_size nv) = false).
      { destruct (size_deleted (nv_size nv)) eqn:D; [|reflexivity]. apply size_deleted_neg in D. lia. }
      rewrite D. reflexivity. }
    destruct (live_facts _ _ _ _ H L) as [_ [_ [_ [r1 [Hf [Hsz [Hid Hrd]]]]]]].
    unfold content. rewrite L, Hrd. rewrite Ho in Hf.
    rewrite (find_rec_sorted _ _ _ Hsr Hin) in Hf. inversion Hf; subst. reflexivity. }
  constructor; auto.
  - intros k e Hg. destruct (Jsome k e Hg) as [A [B [r' [x [r [Hf [Hsz [Hin [Hsel [Hid Hpl]]]]]]]]]].
    split; [exact A|]. split; [exact B|].
    destruct (Kept x r Hin Hsel) as [-> [Hnv Hc]]. rewrite Hid in *.
    split; [exact Hnv|]. exists r'. repeat split; auto. rewrite Hpl. exact Hc.
  - intros k Hz Hg. destruct (content (cv s) k) as [p|] eqn:C; [|left; reflexivity]. right.
    unfold content in C. destruct (live (nm (cv s)) k) as [[off size]|] eqn:L; [|discriminate].
    destruct (live_facts _ _ _ _ H L) as [Hs0 [Ho [Hi [r [Hf [Hsz [Hid Hrd]]]]]]].
    rewrite Hrd in C. inversion C; subst p. clear C.
    assert (Hin : In r (recs (cv s))) by (eapply find_rec_In; eauto).
    assert (Hpos : (0 < size)%Z).
    { unfold live in L. destruct (nm_get (nm (cv s)) k) as [nv|] eqn:G; [|discriminate].
      destruct (nv_off nv =? 0); [discriminate|]. destruct (size_deleted (nv_size nv)); [discriminate|].
      inversion L as [[E1 E2]]. specialize (Hz nv eq_refl). lia. }
    exists (pl r). split; [reflexivity|]. split; [simpl; lia|].
    destruct (sel_scan vt now_s (nm (cv s)) r) as [r0|] eqn:Sel.
    + exfalso. apply (Jnone r r0 Hin Sel). destruct (sel_scan_some _ _ _ _ _ Sel) as [-> _]. rewrite Hid. exact Hg.
    + unfold sel_scan in Sel. rewrite <- view_of_rec_pl.
      destruct (ttl_dropped vt now_s (view_of_rec r)); [reflexivity|]. exfalso. simpl in Sel.
      unfold live in L. rewrite Hid in Sel. destruct (nm_get (nm (cv s)) k) as [nv|]; [|discriminate].
      destruct (nv_off nv =? 0); [discriminate|]. destruct (size_deleted (nv_size nv)); [discriminate|].
      inversion L; subst. pose proof (find_rec_off _ _ _ Hf) as Hro.
      assert (C1 : nv_off nv =? r_off r = true) by (apply N.eqb_eq; congruence).
      assert (C2 : (0 <? nv_size nv)%Z = true) by (apply Z.ltb_lt; lia).
      assert (C3 : size_valid (nv_size nv) = true) by (apply size_valid_pos; lia).
      rewrite C1, C2, C3 in Sel. discriminate.
Qed.

(* --- index --- *)
Definition sel_index (vt : N * N) (now_s : N) (st : vol) (e : ientry) : option rec :=
  if entry_dead e then None
  else match read_data st (ie_off e) (ie_size e) with
       | None => None
       | Some r => if ttl_dropped vt now_s (view_of_rec r) then None else Some r
       end.

Lemma index_visit_eq : forall vt now_s st a e, index_visit vt now_s st a e = visit (sel_index vt now_s st) a e.
Proof.
  intros. unfold index_visit, visit, sel_index. destruct (entry_dead e); [reflexivity|].
  destruct (read_data st (ie_off e) (ie_size e)) as [r|]; [|reflexivity].
  destruct (ttl_dropped vt now_s (view_of_rec r)); reflexivity.
Qed.

Lemma index_spec : forall vt now_s s, cinv s -> copy_spec vt now_s s (compact_index vt now_s s).
Proof.
  intros vt now_s s H. unfold compact_index.
  rewrite (fold_left_ext_fn _ (visit (sel_index vt now_s (cv s))) _ _ (index_visit_eq vt now_s (cv s))).
  pose proof (jinv_fold _ (sel_index vt now_s (cv s)) (db_load (cidx s)) [] acc0 (jinv_acc0 _ _)) as J.
  rewrite app_nil_r in J. destruct J as [Js Ja Jm Jsome Jnone].
  (* an entry of the loaded MemDb is the live map entry of its key *)
  assert (Ent : forall x, In x (db_load (cidx s)) ->
            entry_dead x = false /\ live (nm (cv s)) (ie_key x) = Some (ie_off x, ie_size x)).
  { intros x Hin.
    pose proof (idx_get_nodup _ _ (asc_nodup _ (db_load_asc (cidx s))) Hin) as Hg.
    rewrite db_load_get in Hg. destruct (idx_get (cidx s) (ie_key x)) as [e|] eqn:G; [|discriminate].
    destruct (entry_dead e) eqn:D; [discriminate|]. inversion Hg; subst e.
    split; [exact D|]. apply (idx_live _ _ _ H G D). }
  assert (Kept : forall x r, In x (db_load (cidx s)) -> sel_index vt now_s (cv s) x = Some r ->
            n_id (r_n r) = ie_key x /\
            (exists nv, nm_get (nm (cv s)) (ie_key x) = Some nv /\ (0 <= nv_size nv)%Z) /\
            content (cv s) (ie_key x) = Some (pl r)).
  { intros x r Hin Hsel. destruct (Ent x Hin) as [D L]. unfold sel_index in Hsel. rewrite D in Hsel.
    destruct (read_data (cv s) (ie_off x) (ie_size x)) as [r0|] eqn:Rd; [|discriminate].
    destruct (ttl_dropped vt now_s (view_of_rec r0)); [discriminate|]. inversion Hsel; subst r0.
    destruct (live_facts _ _ _ _ H L) as [Hs0 [_ [_ [r1 [_ [_ [Hid Hrd]]]]]]].
    rewrite Rd in Hrd. inversion Hrd; subst r1.
    split; [exact Hid|]. split.
    - unfold live in L. destruct (nm_get (nm (cv s)) (ie_key x)) as [nv|]; [|discriminate].
      destruct (nv_off nv =? 0); [discriminate|]. destruct (size_deleted (nv_size nv)); [discriminate|].
      inversion L. exists nv. split; [reflexivity | lia].
    - unfold content. rewrite L, Rd. reflexivity. }
  constructor; auto.
  - intros k e Hg. destruct (Jsome k e Hg) as [A [B [r' [x [r [Hf [Hsz [Hin [Hsel [Hid Hpl]]]]]]]]]].
    split; [exact A|]. split; [exact B|].
    rewrite <- in_rev in Hin.
    destruct (Kept x r Hin Hsel) as [Hk [Hnv Hc]]. rewrite Hk in Hid. subst k.
    split; [exact Hnv|]. exists r'. repeat split; auto. rewrite Hpl. exact Hc.
  - intros k Hz Hg. destruct (content (cv s) k) as [p|] eqn:C; [|left; reflexivity]. right.
    unfold content in C. destruct (live (nm (cv s)) k) as [[off size]|] eqn:L; [|discriminate].
    destruct (live_facts _ _ _ _ H L) as [Hs0 [Ho [Hi [r [Hf [Hsz [Hid Hrd]]]]]]].
    rewrite Hrd in C. inversion C; subst p. clear C.
    assert (Hpos : (0 < size)%Z).
    { unfold live in L. destruct (nm_get (nm (cv s)) k) as [nv|] eqn:G; [|discriminate].
      destruct (nv_off nv =? 0); [discriminate|]. destruct (size_deleted (nv_size nv)); [discriminate|].
      inversion L as [[E1 E2]]. specialize (Hz nv eq_refl). lia. }
    exists (pl r). split; [reflexivity|]. split; [simpl; lia|].
    set (x := {| ie_key := k; ie_off := off; ie_size := size |}) in *.
    assert (D : entry_dead x = false).
    { unfold entry_dead. simpl. apply orb_false_intro; [apply N.eqb_neq; exact Ho|].
      destruct (size_deleted size) eqn:D; [|reflexivity]. apply size_deleted_neg in D. lia. }
    assert (Hin : In x (db_load (cidx s))).
    { apply (idx_get_In _ k). rewrite db_load_get, Hi, D. reflexivity. }
    destruct (sel_index vt now_s (cv s) x) as [r0|] eqn:Sel.
    + exfalso. apply in_rev in Hin. apply (Jnone x r0 Hin Sel).
      unfold sel_index in Sel. rewrite D in Sel. simpl in Sel. rewrite Hrd in Sel.
      destruct (ttl_dropped vt now_s (view_of_rec r)); [discriminate|]. inversion Sel; subst r0. rewrite Hid. exact Hg.
    + unfold sel_index in Sel. rewrite D in Sel. simpl in Sel. rewrite Hrd in Sel. rewrite <- view_of_rec_pl.
      destruct (ttl_dropped vt now_s (view_of_rec r)); [reflexivity | discriminate].
Qed.

Lemma compact_spec : forall al vt now_s s, cinv s ->
  copy_spec vt now_s s (match al with Scan => compact_scan vt now_s s | Index => compact_index vt now_s s end).
Proof. intros [] vt now_s s H; [apply scan_spec | apply index_spec]; exact H. Qed.
