(* C02, second part: (1) what a scan-based copy (Volume.Compact) writes - every checksum is
   recomputed from whatever data the scan decoded, so an altered record comes out as a
   valid one; (2) the scan on a torn tail; (3) the self-checking clause instantiated with
   the real CRC32-C of model/NeedleCrc.v. *)
From Coq Require Import List NArith ZArith Bool Lia ZifyBool ZifyN ZifyNat.
From SW Require Import model.Needle model.NeedleCrc proof.NeedleProofs proof.NeedleCrcProofs.
Import ListNotations.
Local Open Scope N_scope.
Ltac Zify.zify_post_hook ::= Z.div_mod_to_equations.

Arguments N.add : simpl never.
Arguments N.mul : simpl never.
Arguments N.div : simpl never.
Arguments N.modulo : simpl never.
Arguments N.sub : simpl never.
Arguments N.pow : simpl never.
Arguments N.ltb : simpl never.
Arguments N.leb : simpl never.
Arguments N.eqb : simpl never.
Arguments N.land : simpl never.
Arguments N.lxor : simpl never.

(* ---------- re-encoding what was decoded ---------- *)
Lemma encode_view : forall v n, encode v (view v n) = encode v n.
Proof.
  intros v n. destruct n as [c i dt fl nm mm ps pr lm tt ck ns].
  unfold encode, header_bytes, body_bytes, tail_bytes, pad_source, body_size, name_field, mime_field,
    lm_field, ttl_field, pairs_field, data_size, name_size, mime_size, view,
    has_name, has_mime, has_lm, has_ttl, has_pairs.
  cbn [cookie id data flags name mime pairs_size pairs last_modified ttl checksum append_at_ns].
  destruct (has_flag fl FlagHasName), (has_flag fl FlagHasMime), (has_flag fl FlagHasLastModifiedDate),
    (has_flag fl FlagHasTtl), (has_flag fl FlagHasPairs), (v =? 3), (0 <? len dt); reflexivity.
Qed.

Definition fix_checksum (crc : list N -> N) (n : needle) : needle := n_set_checksum n (crc (data n)).

Lemma fix_checksum_id : forall crc n, checksum n = crc (data n) -> fix_checksum crc n = n.
Proof. intros crc n H. unfold fix_checksum. rewrite <- H. destruct n; reflexivity. Qed.

Lemma body_size_fix : forall crc n, body_size (fix_checksum crc n) = body_size n.
Proof. intros. destruct n; reflexivity. Qed.

Lemma data_fix : forall crc n, data (fix_checksum crc n) = data n.
Proof. intros. destruct n; reflexivity. Qed.

Lemma checksum_fix : forall crc n, checksum (fix_checksum crc n) = crc (data (fix_checksum crc n)).
Proof. intros. destruct n; reflexivity. Qed.

Lemma enc_okb_fix : forall crc n, enc_okb (fix_checksum crc n) = enc_okb n.
Proof. intros. destruct n; reflexivity. Qed.

Lemma ranges_ok_fix : forall crc n, ranges_ok n -> ranges_ok (fix_checksum crc n).
Proof.
  intros crc n H. unfold ranges_ok in *. rewrite body_size_fix. destruct n; cbn in *. exact H.
Qed.

Lemma rec_ok_fix : forall crc n, rec_ok n -> rec_ok (fix_checksum crc n).
Proof. intros crc n [H1 H2]. split; [rewrite enc_okb_fix; assumption|apply ranges_ok_fix; assumption]. Qed.

Lemma scan_visit_fix : forall crc v n, scan_visit crc v (fix_checksum crc n) = scan_visit crc v n.
Proof. intros. destruct n; reflexivity. Qed.

Section ScanCopy.
  Variable crc : list N -> N.

  (* the visit of a record re-encodes to the record with its checksum REPLACED by the CRC of
     its data - whatever checksum the record carried *)
  Lemma scan_visit_encode : forall v n,
    encode v (d_n (scan_visit crc v n)) = encode v (fix_checksum crc n).
  Proof.
    intros v n. destruct (0 <? data_size n) eqn:Ed.
    - assert (Hne : data n <> []) by (intro E0; unfold data_size in Ed; rewrite E0 in Ed; discriminate).
      rewrite <- scan_visit_fix.
      rewrite scan_visit_wf by (rewrite ?data_fix; auto using checksum_fix).
      cbn [dview d_n]. apply encode_view.
    - unfold scan_visit. rewrite Ed.
      assert (He : data n = []) by (apply len_zero_nil; unfold data_size in Ed; lia).
      destruct n as [c i dt fl nm mm ps pr lm tt ck ns]. cbn [data] in He. subst dt.
      unfold fix_checksum, stripped, encode, header_bytes, body_bytes, tail_bytes, pad_source, body_size, data_size.
      cbn [cookie id data flags name mime pairs_size pairs last_modified ttl checksum append_at_ns d_n n_set_checksum len length N.of_nat].
      change (0 <? 0) with false. cbn [andb]. destruct (v =? 3); reflexivity.
  Qed.

  Lemma scan_visit_size : forall v n,
    d_size (scan_visit crc v n) = body_size n /\ body_size (d_n (scan_visit crc v n)) = body_size n.
  Proof.
    intros v n. destruct (0 <? data_size n) eqn:Ed.
    - assert (Hne : data n <> []) by (intro E0; unfold data_size in Ed; rewrite E0 in Ed; discriminate).
      rewrite <- scan_visit_fix.
      rewrite scan_visit_wf by (rewrite ?data_fix; auto using checksum_fix).
      cbn [dview d_n d_size]. rewrite body_size_fix. split; [reflexivity|].
      destruct n as [c i dt fl nm mm ps pr lm tt ck ns].
      unfold body_size, data_size, name_size, mime_size, view, fix_checksum, has_name, has_mime, has_lm, has_ttl, has_pairs.
      cbn [cookie id data flags name mime pairs_size pairs last_modified ttl checksum append_at_ns n_set_checksum].
      destruct (has_flag fl FlagHasName), (has_flag fl FlagHasMime), (has_flag fl FlagHasLastModifiedDate),
        (has_flag fl FlagHasTtl), (has_flag fl FlagHasPairs); reflexivity.
    - unfold scan_visit. rewrite Ed.
      assert (He : data n = []) by (apply len_zero_nil; unfold data_size in Ed; lia).
      unfold body_size. rewrite Ed. split; reflexivity.
  Qed.

  Lemma copy_bytes_expected : forall v rs off,
    copy_bytes v (scan_expected crc v rs off) = concat (map (encode v) (map (fix_checksum crc) rs)).
  Proof.
    intros v rs. induction rs as [|n rs IH]; intros off; [reflexivity|].
    unfold copy_bytes in *. cbn [scan_expected map concat fst]. rewrite IH, scan_visit_encode. reflexivity.
  Qed.

  (* the records as laid out from [off] on: (offset, size) *)
  Fixpoint layout (v : N) (rs : list needle) (off : N) : list (N * N) :=
    match rs with
    | [] => []
    | n :: rs' => (off, body_size n) :: layout v rs' (off + actual_size (body_size n) v)
    end.

  Lemma copy_entries_expected : forall v rs off noff,
    copy_entries v (scan_expected crc v rs off) noff = layout v rs noff.
  Proof.
    intros v rs. induction rs as [|n rs IH]; intros off noff; [reflexivity|].
    cbn [scan_expected copy_entries layout]. destruct (scan_visit_size v n) as [H1 H2].
    rewrite H1, H2, IH. reflexivity.
  Qed.

  (* THE COPY: scanning [pre ++ records] and re-appending every visit after [npre] writes the
     same records with every checksum recomputed - for every list of records, whatever
     checksums they carry *)
  Theorem scan_copy_fixes : forall v npre pre rs, Forall rec_ok rs ->
    scan_copy crc v npre (pre ++ concat (map (encode v) rs)) (len pre)
      = npre ++ concat (map (encode v) (map (fix_checksum crc) rs)) /\
    scan_copy_index crc v npre (pre ++ concat (map (encode v) rs)) (len pre) = layout v rs (len npre).
  Proof.
    intros v npre pre rs Hall. unfold scan_copy, scan_copy_index. rewrite scan_records by assumption.
    rewrite copy_bytes_expected, copy_entries_expected. split; reflexivity.
  Qed.

  (* decidable: no record's checksum disagrees with its data *)
  Definition unaltered (rs : list needle) : bool := forallb (fun n => checksum n =? crc (data n)) rs.

  Lemma map_fix_unaltered : forall rs, unaltered rs = true -> map (fix_checksum crc) rs = rs.
  Proof.
    induction rs as [|n rs IH]; intros H; [reflexivity|].
    cbn [unaltered forallb] in H. apply andb_true_iff in H. destruct H as [H1 H2].
    cbn [map]. rewrite IH by exact H2. rewrite fix_checksum_id by lia. reflexivity.
  Qed.

  (* partial: a copy of an undamaged file is the file (after the new prefix) *)
  Theorem scan_copy_clean : forall v npre pre rs, Forall rec_ok rs -> unaltered rs = true ->
    scan_copy crc v npre (pre ++ concat (map (encode v) rs)) (len pre) = npre ++ concat (map (encode v) rs).
  Proof.
    intros v npre pre rs Hall Hun. destruct (scan_copy_fixes v npre pre rs Hall) as [H _].
    rewrite H, map_fix_unaltered by assumption. reflexivity.
  Qed.

  Lemma len_concat_fix : forall v rs, Forall rec_ok rs ->
    len (concat (map (encode v) (map (fix_checksum crc) rs))) = len (concat (map (encode v) rs)).
  Proof.
    intros v rs. induction rs as [|n rs IH]; intros H; [reflexivity|].
    inversion H as [|? ? [Hok Hr] Hrs]; subst. cbn [map concat]. rewrite !len_app, IH by assumption.
    rewrite !len_encode by (rewrite ?enc_okb_fix; assumption). rewrite body_size_fix. reflexivity.
  Qed.

  (* every record with payload of the copy reads back WITHOUT error, with the data the scan saw *)
  Theorem scan_copy_reads_ok : forall v npre pre rs1 n rs2,
    Forall rec_ok (rs1 ++ n :: rs2) -> data n <> [] ->
    read_data crc (scan_copy crc v npre (pre ++ concat (map (encode v) (rs1 ++ n :: rs2))) (len pre))
              (len npre + len (concat (map (encode v) rs1))) (body_size n) v
      = (dview v (fix_checksum crc n), SOk).
  Proof.
    intros v npre pre rs1 n rs2 Hall Hne.
    destruct (scan_copy_fixes v npre pre _ Hall) as [H _]. rewrite H. clear H.
    apply Forall_app in Hall. destruct Hall as [H1 H2]. inversion H2 as [|? ? Hn H3]; subst.
    rewrite map_app, map_app, concat_app. cbn [map concat].
    rewrite <- (len_concat_fix v rs1 H1), <- len_app, app_assoc.
    rewrite <- (body_size_fix crc n).
    destruct (rec_ok_fix crc n Hn) as [Hok Hr].
    apply roundtrip_in_file; try assumption.
    - unfold empty_payload. rewrite data_fix. destruct (data n); [congruence|reflexivity].
    - apply checksum_fix.
  Qed.

  (* ... in particular a record whose data bytes were overwritten in place: it is "returned",
     not "reported" *)
  Theorem scan_copy_launders : forall v npre pre rs1 n d' rs2,
    Forall rec_ok (rs1 ++ n :: rs2) -> data n <> [] -> len d' = len (data n) ->
    let file := pre ++ concat (map (encode v) rs1) ++ overwrite_data (encode v n) (len (data n)) d'
                    ++ concat (map (encode v) rs2) in
    exists r, read_data crc (scan_copy crc v npre file (len pre))
                        (len npre + len (concat (map (encode v) rs1))) (body_size n) v = (r, SOk)
              /\ data (d_n r) = d'.
  Proof.
    intros v npre pre rs1 n d' rs2 Hall Hne Hl file.
    set (n' := n_set_data n d').
    assert (Hbs : body_size n' = body_size n) by (apply body_size_set_data; assumption).
    assert (Hd : data n' = d') by (destruct n; reflexivity).
    assert (Hne' : data n' <> []).
    { rewrite Hd. intro E. apply Hne, len_zero_nil. rewrite <- Hl, E. reflexivity. }
    assert (Hall' : Forall rec_ok (rs1 ++ n' :: rs2)).
    { apply Forall_app in Hall. destruct Hall as [H1 H2].
      apply Forall_cons_iff in H2. destruct H2 as [[Hok Hr] H3].
      apply Forall_app. split; [assumption|]. constructor; [|assumption]. split.
      - unfold n'. rewrite enc_okb_set_data. assumption.
      - unfold ranges_ok in *. rewrite Hbs. unfold n'. destruct n; cbn in *. tauto. }
    assert (Hfile : file = pre ++ concat (map (encode v) (rs1 ++ n' :: rs2))).
    { unfold file. rewrite map_app, concat_app. cbn [map concat].
      unfold n'. rewrite encode_set_data by assumption. reflexivity. }
    exists (dview v (fix_checksum crc n')). split.
    - rewrite Hfile, <- Hbs. apply scan_copy_reads_ok; assumption.
    - cbn [dview d_n view data]. rewrite data_fix. exact Hd.
  Qed.

  (* ---------- torn tail ---------- *)
  Lemma scan_from_app : forall v rs fuel off R, Forall rec_ok rs -> (length rs <= fuel)%nat ->
    scan_from crc fuel v (concat (map (encode v) rs) ++ R) off
      = scan_expected crc v rs off
        ++ scan_from crc (fuel - length rs) v R (off + len (concat (map (encode v) rs))).
  Proof.
    intros v rs. induction rs as [|n rs IH]; intros fuel off R Hall Hf.
    - cbn [map concat app scan_expected length]. rewrite Nat.sub_0_r, len_nil, N.add_0_r. reflexivity.
    - destruct fuel as [|fuel]; [simpl in Hf; lia|].
      inversion Hall as [|? ? Hn Hrs]; subst.
      cbn [map concat scan_expected length]. rewrite <- app_assoc, scan_step by assumption.
      rewrite IH by (auto; simpl in Hf; lia). cbn [app]. f_equal. f_equal.
      cbn [Nat.sub]. f_equal. destruct Hn as [Hok _]. rewrite len_app, len_encode by assumption. lia.
  Qed.

  Lemma takeN_takeN : forall A (l : list A) j k, j <= k -> takeN j (takeN k l) = takeN j l.
  Proof.
    intros A l j k H. rewrite !takeN_firstn, firstn_firstn. f_equal. lia.
  Qed.

  Lemma dropN_takeN : forall A (l : list A) j k, dropN j (takeN k l) = takeN (k - j) (dropN j l).
  Proof.
    intros A l j k. rewrite !takeN_firstn, !dropN_skipn.
    replace (N.to_nat (k - j)) with (N.to_nat k - N.to_nat j)%nat by lia.
    generalize (N.to_nat j) as a, (N.to_nat k) as b. clear. intros a. revert l.
    induction a as [|a IH]; intros l b; [cbn [skipn]; rewrite Nat.sub_0_r; reflexivity|].
    destruct b as [|b]; [reflexivity|].
    destruct l as [|x l]; [cbn [firstn skipn]; rewrite firstn_nil; reflexivity|]. cbn [firstn skipn Nat.sub]. apply IH.
  Qed.

  Lemma parse_header_takeN : forall l k, 16 <= k -> parse_header (takeN k l) = parse_header l.
  Proof.
    intros l k H. unfold parse_header.
    rewrite !dropN_takeN, !takeN_takeN by lia. reflexivity.
  Qed.

  (* a record cut anywhere: no visit if even the header is incomplete, else ONE visit carrying
     the header only (ReadNeedleBody's short read is logged and ignored) *)
  Lemma scan_from_torn : forall fuel v n k off, rec_ok n -> k < len (encode v n) ->
    scan_from crc (S fuel) v (takeN k (encode v n)) off =
      if k <? 16 then [] else [(header_needle (cookie n) (id n) (body_size n), off)].
  Proof.
    intros fuel v n k off [Hok Hr] Hk.
    pose proof Hr as [Hc [Hi [Hbs _]]].
    assert (Hbs32 : body_size n < 2 ^ 32) by (change (2 ^ 32) with 4294967296; change (2 ^ 31) with 2147483648 in Hbs; lia).
    assert (Hlen : len (takeN k (encode v n)) = k) by (apply len_takeN; lia).
    cbn [scan_from]. rewrite Hlen. unfold NeedleHeaderSize.
    destruct (k <? 16) eqn:E; [reflexivity|].
    rewrite parse_header_takeN by lia.
    rewrite <- (app_nil_r (encode v n)) at 1. rewrite encode_split, parse_header_bytes by assumption.
    cbv beta iota.
    assert (Hshort : len (takeN (body_length (body_size n) v) (dropN 16 (takeN k (encode v n)))) <? body_length (body_size n) v = true).
    { rewrite len_encode in Hk by assumption. unfold actual_size, NeedleHeaderSize in Hk.
      generalize dependent (body_length (body_size n) v). intros bl Hk.
      rewrite takeN_firstn, dropN_skipn, takeN_firstn. unfold len.
      rewrite firstn_length, skipn_length, firstn_length. lia. }
    rewrite Hshort. reflexivity.
  Qed.

  Theorem scan_torn : forall v pre rs n k, Forall rec_ok rs -> rec_ok n -> k < len (encode v n) ->
    scan crc v (pre ++ concat (map (encode v) rs) ++ takeN k (encode v n)) (len pre) =
      scan_expected crc v rs (len pre)
      ++ (if k <? 16 then []
          else [(header_needle (cookie n) (id n) (body_size n), len pre + len (concat (map (encode v) rs)))]).
  Proof.
    intros v pre rs n k Hall Hn Hk. unfold scan. rewrite dropN_app by reflexivity.
    assert (Hlen : len (takeN k (encode v n)) = k) by (apply len_takeN; lia).
    pose proof (length_concat_ge v rs) as Hge.
    rewrite scan_from_app; [|assumption|rewrite !app_length; lia].
    f_equal.
    destruct (k <? 16) eqn:E.
    - destruct (length (pre ++ concat (map (encode v) rs) ++ takeN k (encode v n)) - length rs)%nat as [|f].
      + reflexivity.
      + rewrite scan_from_torn, E by assumption. reflexivity.
    - assert (Hf : exists f, (length (pre ++ concat (map (encode v) rs) ++ takeN k (encode v n)) - length rs)%nat = S f).
      { rewrite !app_length. unfold len in Hlen.
        exists (length pre + length (concat (map (encode v) rs)) + length (takeN k (encode v n)) - length rs - 1)%nat. lia. }
      destruct Hf as [f Hf]. rewrite Hf, scan_from_torn, E by assumption. reflexivity.
  Qed.
End ScanCopy.

(* ---------- the self-checking clause with a local range assumption ---------- *)
Lemma altered_data_detected_loc : forall crc v n d', data n <> [] -> enc_okb n = true -> ranges_ok n ->
  checksum n = crc (data n) -> len d' = len (data n) ->
  crc d' < 2 ^ 32 -> crc (data n) < 2 ^ 32 -> crc d' <> crc (data n) ->
  snd (read_bytes crc (overwrite_data (encode v n) (len (data n)) d') (body_size n) v) = SCrc.
Proof.
  intros crc v n d' Hne Hok Hr Hck Hl Hb1 Hb2 Hcrc.
  rewrite <- encode_set_data by assumption.
  rewrite <- (app_nil_r (encode v (n_set_data n d'))).
  rewrite <- (body_size_set_data n d' Hl).
  apply read_bytes_crc_error.
  - replace (data (n_set_data n d')) with d' by (destruct n; reflexivity).
    intro E. apply Hne. apply len_zero_nil. rewrite <- Hl, E. reflexivity.
  - rewrite enc_okb_set_data. assumption.
  - destruct Hr as [Hc [Hi [Hbs [Hnm [Hlm [Hps Hns]]]]]].
    unfold ranges_ok. rewrite (body_size_set_data n d' Hl). destruct n; cbn in *. tauto.
  - replace (checksum (n_set_data n d')) with (checksum n) by (destruct n; reflexivity).
    replace (data (n_set_data n d')) with d' by (destruct n; reflexivity).
    rewrite Hck. intro E. apply crc_value_inj in E; auto.
Qed.

(* flipping a byte of the record inside its data region = overwriting the data with the
   flipped data *)
Lemma flip_byte_app_r : forall (a b : list N) k p m, len a = k -> flip_byte (a ++ b) (k + p) m = a ++ flip_byte b p m.
Proof.
  induction a as [|x a IH]; intros b k p m H.
  - rewrite len_nil in H. subst k. rewrite N.add_0_l. reflexivity.
  - rewrite len_cons in H. cbn [app flip_byte]. destruct (k + p =? 0) eqn:E; [lia|].
    f_equal. replace (N.pred (k + p)) with ((k - 1) + p) by lia. apply IH. lia.
Qed.

Lemma flip_byte_app_l : forall (a b : list N) p m, p < len a -> flip_byte (a ++ b) p m = flip_byte a p m ++ b.
Proof.
  induction a as [|x a IH]; intros b p m H.
  - rewrite len_nil in H. lia.
  - rewrite len_cons in H. cbn [app flip_byte]. destruct (p =? 0) eqn:E; [reflexivity|].
    cbn [app]. f_equal. apply IH. lia.
Qed.

Lemma n_set_data_same : forall n, n_set_data n (data n) = n.
Proof. intros. destruct n; reflexivity. Qed.

Lemma overwrite_flip : forall v n pos mask, enc_okb n = true -> pos < len (data n) ->
  overwrite_data (encode v n) (len (data n)) (flip_byte (data n) pos mask)
    = flip_byte (encode v n) (20 + pos) mask.
Proof.
  intros v n pos mask Hok Hp.
  assert (Hne : data n <> []) by (intro E; rewrite E, len_nil in Hp; lia).
  pose proof (encode_set_data v n (data n) Hne eq_refl) as HE. rewrite n_set_data_same in HE.
  unfold overwrite_data in *.
  assert (HA : len (takeN 20 (encode v n)) = 20).
  { apply len_takeN. rewrite len_encode by assumption.
    pose proof (body_size_ge5 n Hne). unfold actual_size, body_length, NeedleHeaderSize. lia. }
  rewrite HE at 3.
  rewrite flip_byte_app_r by exact HA.
  rewrite flip_byte_app_l by exact Hp. reflexivity.
Qed.

(* THE CLAUSE for the real checksum: xor any non-zero mask into any data byte of a stored
   record (every single-bit flip in particular): ReadBytes answers the CRC error. *)
Theorem crc32c_flip_detected : forall v n pos mask, enc_okb n = true -> ranges_ok n -> bytes_ok (data n) ->
  checksum n = crc32c (data n) -> pos < len (data n) -> 0 < mask < 256 ->
  snd (read_bytes crc32c (flip_byte (encode v n) (20 + pos) mask) (body_size n) v) = SCrc.
Proof.
  intros v n pos mask Hok Hr Hb Hck Hp Hm.
  assert (Hne : data n <> []) by (intro E; rewrite E, len_nil in Hp; lia).
  rewrite <- overwrite_flip by assumption.
  apply altered_data_detected_loc; try assumption.
  - apply len_flip_byte.
  - apply crc32c_lt. apply flip_byte_bytes_ok; [assumption|lia].
  - apply crc32c_lt. assumption.
  - apply crc32c_detects_byte; assumption.
Qed.

(* ... and for any change confined to 4 consecutive data bytes (a burst of up to 32 bits in a
   byte-aligned window): the data is a ++ x ++ b and x is xor-ed with the pattern w *)
Theorem crc32c_burst_detected : forall v n a x b w, enc_okb n = true -> ranges_ok n -> bytes_ok (data n) ->
  checksum n = crc32c (data n) -> data n = a ++ x ++ b ->
  length x = length w -> (length w <= 4)%nat -> bytes_ok w -> Exists (fun m => m <> 0) w ->
  snd (read_bytes crc32c (overwrite_data (encode v n) (len (data n)) (a ++ xor_list x w ++ b)) (body_size n) v) = SCrc.
Proof.
  intros v n a x b w Hok Hr Hb Hck Hd Hl H4 Hw Hex.
  assert (Hne : data n <> []).
  { intro E. rewrite E in Hd. destruct a; [|discriminate]. destruct x; [|discriminate].
    destruct w; [inversion Hex|discriminate]. }
  assert (Hb' : bytes_ok (a ++ xor_list x w ++ b)).
  { rewrite Hd in Hb. unfold bytes_ok in *. apply Forall_app in Hb. destruct Hb as [Ha Hxb].
    apply Forall_app in Hxb. destruct Hxb as [Hx Hbb].
    apply Forall_app. split; [assumption|]. apply Forall_app. split; [|assumption].
    apply xor_list_bytes_ok; assumption. }
  apply altered_data_detected_loc; try assumption.
  - rewrite Hd, !len_app, len_xor_list. reflexivity.
  - apply crc32c_lt. assumption.
  - apply crc32c_lt. assumption.
  - rewrite Hd. apply crc32c_detects_burst; assumption.
Qed.

(* the same through ReadData at the record's offset inside any file *)
Theorem crc32c_flip_detected_in_file : forall v n pre post pos mask, enc_okb n = true -> ranges_ok n ->
  bytes_ok (data n) -> checksum n = crc32c (data n) -> pos < len (data n) -> 0 < mask < 256 ->
  snd (read_data crc32c (flip_byte (pre ++ encode v n ++ post) (len pre + (20 + pos)) mask) (len pre) (body_size n) v) = SCrc.
Proof.
  intros v n pre post pos mask Hok Hr Hb Hck Hp Hm.
  assert (Hne : data n <> []) by (intro E; rewrite E, len_nil in Hp; lia).
  rewrite flip_byte_app_r by reflexivity.
  assert (Hlt : 20 + pos < len (encode v n)).
  { rewrite len_encode by assumption. pose proof (data_size_lt_body n Hne) as H.
    unfold actual_size, body_length, NeedleHeaderSize, NeedleChecksumSize, data_size in *. lia. }
  rewrite flip_byte_app_l by exact Hlt.
  rewrite <- overwrite_flip by assumption.
  set (d' := flip_byte (data n) pos mask).
  assert (Hl : len d' = len (data n)) by apply len_flip_byte.
  rewrite <- encode_set_data by assumption.
  rewrite <- (body_size_set_data n d' Hl).
  rewrite read_data_at by (rewrite ?enc_okb_set_data; auto).
  rewrite (body_size_set_data n d' Hl), encode_set_data by assumption.
  unfold d'. rewrite overwrite_flip by assumption.
  apply crc32c_flip_detected; assumption.
Qed.

(* ---------- the scan is NOT self-checking ---------- *)
(* full statement one would like: after a scan-based copy of a file in which the data of a
   record was altered (and the checksum tells), reading that record does not succeed *)
Definition scan_self_checking (crc : list N -> N) : Prop :=
  forall v pre n d', rec_ok n -> data n <> [] -> checksum n = crc (data n) ->
    len d' = len (data n) -> crc d' <> crc (data n) ->
    snd (read_data crc (scan_copy crc v pre (pre ++ overwrite_data (encode v n) (len (data n)) d') (len pre))
                   (len pre) (body_size n) v) <> SOk.

(* the witness of known finding 1: id 1 "hello", one bit of the first byte flipped: "iello" *)
Definition launder_witness : needle :=
  {| cookie := 4660; id := 1; data := [104; 101; 108; 108; 111]; flags := 0; name := []; mime := [];
     pairs_size := 0; pairs := []; last_modified := 0; ttl := None;
     checksum := crc32c [104; 101; 108; 108; 111]; append_at_ns := 5 |}.

Lemma launder_witness_ok : rec_ok launder_witness.
Proof. split; [reflexivity|]. unfold ranges_ok. vm_compute. repeat split; try reflexivity; discriminate. Qed.

Theorem scan_self_checking_refuted : ~ scan_self_checking crc32c.
Proof.
  intros H.
  specialize (H 3 [3; 0; 0; 0; 0; 0; 0; 0] launder_witness [105; 101; 108; 108; 111] launder_witness_ok).
  apply H.
  - discriminate.
  - reflexivity.
  - reflexivity.
  - vm_compute. congruence.
  - (* by scan_copy_launders; here simply computed *) vm_compute. reflexivity.
Qed.

(* every CRC function that tells some pair of equally long byte strings apart fails the
   statement (the refutation does not depend on CRC32-C) *)
Theorem scan_self_checking_refuted_gen : forall crc n d', rec_ok n -> data n <> [] ->
  checksum n = crc (data n) -> len d' = len (data n) -> crc d' <> crc (data n) ->
  ~ scan_self_checking crc.
Proof.
  intros crc n d' Hn Hne Hck Hl Hcrc H.
  apply (H 3 [] n d' Hn Hne Hck Hl Hcrc).
  destruct (scan_copy_launders crc 3 [] [] [] n d' []) as [r [Hr _]]; try assumption.
  - constructor; [assumption|constructor].
  - cbn [map concat app] in Hr. rewrite app_nil_r in Hr. cbn [app].
    change (len (@nil N) + len (@nil N)) with (len (@nil N)) in Hr. rewrite Hr. reflexivity.
Qed.

(* the witness, computed: the direct read reports the CRC error, the read after the copy
   returns the altered bytes with status ok *)
Lemma launder_witness_computed :
  let n := launder_witness in
  let sb := [3; 0; 0; 0; 0; 0; 0; 0] in
  let bad := sb ++ overwrite_data (encode 3 n) 5 [105; 101; 108; 108; 111] in
  snd (read_data crc32c bad 8 (body_size n) 3) = SCrc /\
  (let '(r, s) := read_data crc32c (scan_copy crc32c 3 sb bad 8) 8 (body_size n) 3 in
   (data (d_n r), s)) = ([105; 101; 108; 108; 111], SOk).
Proof. vm_compute. split; reflexivity. Qed.

(* ---------- non-vacuity (used by props/C02.v) ---------- *)
Definition example_needle_c : needle := fix_checksum crc32c example_needle.

Lemma example_bytes_ok : bytes_ok (data example_needle_c).
Proof. unfold bytes_ok. cbn. repeat constructor. Qed.

(* a version-3 needle with every defined flag set satisfies all the hypotheses of the
   theorems, is 8-aligned, round-trips, is found by the scan after an 8-byte super block, a
   changed data byte is detected with the real CRC32-C, a torn copy of it is visited header
   only, and a scan-based copy of the undamaged file is the file *)
Lemma example_holds :
  let n := example_needle_c in
  let sb := [3; 0; 0; 0; 0; 0; 0; 0] in
  enc_okb n = true /\ ranges_ok n /\ rec_ok n /\ checksum n = crc32c (data n) /\
  empty_payload n = false /\ normalb 3 n = true /\ unaltered crc32c [n; n] = true /\
  len (encode 3 n) = 64 /\
  read_bytes crc32c (encode 3 n) (body_size n) 3 = (dview 3 n, SOk) /\
  scan crc32c 3 (sb ++ encode 3 n ++ encode 3 n) 8 = [(dview 3 n, 8); (dview 3 n, 72)] /\
  snd (read_bytes crc32c (flip_byte (encode 3 n) (20 + 2) 4) (body_size n) 3) = SCrc /\
  scan crc32c 3 (sb ++ encode 3 n ++ takeN 40 (encode 3 n)) 8
    = [(dview 3 n, 8); (header_needle (cookie n) (id n) (body_size n), 72)] /\
  scan_copy crc32c 3 sb (sb ++ encode 3 n ++ encode 3 n) 8 = sb ++ encode 3 n ++ encode 3 n.
Proof. vm_compute. repeat split; try reflexivity; discriminate. Qed.

(* toy-checksum example of the first version, kept *)
Lemma example_toy_holds :
  let n := example_needle in
  enc_okb n = true /\ ranges_ok n /\ rec_ok n /\ checksum n = toy_crc (data n) /\
  empty_payload n = false /\ normalb 3 n = true /\
  len (encode 3 n) = 64 /\
  read_bytes toy_crc (encode 3 n) (body_size n) 3 = (dview 3 n, SOk) /\
  scan toy_crc 3 ([3; 0; 0; 0; 0; 0; 0; 0] ++ encode 3 n ++ encode 3 n) 8 = [(dview 3 n, 8); (dview 3 n, 72)] /\
  snd (read_bytes toy_crc (overwrite_data (encode 3 n) 5 [1; 2; 7; 255; 0]) (body_size n) 3) = SCrc.
Proof. vm_compute. repeat split; try reflexivity; discriminate. Qed.
