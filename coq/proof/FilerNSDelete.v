(* Proofs about model/FilerNS.v (C18): DeleteEntryMetaAndData. *)
From Coq Require Import List NArith Bool String Arith Lia Permutation.
From SW Require Import model.FilerNS proof.FilerNSBase proof.FilerNSCreate.
Import ListNotations.
Local Open Scope list_scope.

(* ================= a loop rule for iter_err =================
   P: invariant of the store; R x: "x is still untouched"; Q x: "x is done".
   Processing x needs P and R x, establishes Q x, and keeps R y / Q y of every other y. *)
Section IterErr.
  Context {X : Type}.
  Variable step : store -> X -> store * err.
  Variable P : store -> Prop.
  Variables R Q : X -> store -> Prop.
  Variable all : list X.
  Hypothesis Hstep : forall s x, In x all -> P s -> R x s ->
    exists s1, step s x = (s1, OK) /\ P s1 /\ Q x s1 /\
      forall y, In y all -> y <> x -> (R y s -> R y s1) /\ (Q y s -> Q y s1).

  Lemma iter_err_all_gen : forall xs done, all = done ++ xs -> NoDup all ->
    forall s, P s -> (forall x, In x xs -> R x s) -> (forall x, In x done -> Q x s) ->
    exists s', iter_err step xs s = (s', OK) /\ P s' /\ forall x, In x all -> Q x s'.
  Proof.
    induction xs as [|x xs IH]; intros done Hall Hnd s HP HR HQ.
    - simpl. exists s. repeat split; auto. intros x Hx. apply HQ. rewrite Hall, app_nil_r in Hx. exact Hx.
    - assert (Hx : In x all) by (rewrite Hall; apply in_or_app; right; left; reflexivity).
      destruct (Hstep s x Hx HP (HR x (or_introl eq_refl))) as [s1 [Hs [HP1 [HQ1 Hst]]]].
      simpl. rewrite Hs. simpl.
      assert (Hall' : all = (done ++ [x]) ++ xs) by (rewrite <- app_assoc; exact Hall).
      apply (IH (done ++ [x]) Hall' Hnd s1 HP1).
      + intros y Hy. assert (Hya : In y all) by (rewrite Hall; apply in_or_app; right; right; exact Hy).
        apply (Hst y Hya).
        * intro E. subst y. rewrite Hall in Hnd. apply NoDup_remove_2 in Hnd. apply Hnd.
          apply in_or_app. right. exact Hy.
        * apply HR. right. exact Hy.
      + intros y Hy. apply in_app_or in Hy. destruct Hy as [Hy|[Hy|[]]].
        * assert (Hya : In y all) by (rewrite Hall; apply in_or_app; left; exact Hy).
          apply (Hst y Hya).
          -- intro E. subst y. rewrite Hall in Hnd. apply NoDup_remove_2 in Hnd. apply Hnd.
             apply in_or_app. left. exact Hy.
          -- apply HQ. exact Hy.
        * subst y. exact HQ1.
  Qed.

  Lemma iter_err_all : NoDup all ->
    forall s, P s -> (forall x, In x all -> R x s) ->
    exists s', iter_err step all s = (s', OK) /\ P s' /\ forall x, In x all -> Q x s'.
  Proof.
    intros Hnd s HP HR. apply (iter_err_all_gen all [] eq_refl Hnd s HP HR). intros x [].
  Qed.
End IterErr.

Lemma NoDup_fst : forall {A B} (l : list (A * B)), NoDup (map fst l) -> NoDup l.
Proof.
  intros A B l. induction l as [|x l IH]; simpl; intro H; [constructor|].
  inversion H as [|? ? Hn Hd]; subst. constructor; auto.
  intro Hin. apply Hn. apply in_map. exact Hin.
Qed.

Lemma NoDup_fst_neq : forall {A B} (l : list (A * B)) x y, NoDup (map fst l) ->
  In x l -> In y l -> y <> x -> fst y <> fst x.
Proof.
  intros A B l. induction l as [|z l IH]; simpl; intros x y H Hx Hy Hne; [tauto|].
  inversion H as [|? ? Hn Hd]; subst.
  destruct Hx as [Hx|Hx], Hy as [Hy|Hy]; subst.
  - congruence.
  - intro E. apply Hn. rewrite <- E. apply in_map. exact Hy.
  - intro E. apply Hn. rewrite E. apply in_map. exact Hx.
  - eapply IH; eauto.
Qed.

(* ================= doBatchDeleteFolderMetaAndData ================= *)
Lemma snoc_nonnil : forall (d : path) n, d ++ [n] <> [].
Proof. intros d n E. apply app_eq_nil in E. destruct E; discriminate. Qed.

Lemma is_prefix_trans_child : forall (d : path) n q, is_prefix (d ++ [n]) q = true -> is_prefix d q = true.
Proof.
  intros d n q H. apply is_prefix_true in H. destruct H as [r Hr]. apply is_prefix_true.
  exists ([n] ++ r). rewrite app_assoc. exact Hr.
Qed.

Lemma batch_delete_rec : forall f s d ign e, wf s -> d <> [] -> find s d = Some e ->
  (forall q x, find s q = Some x -> is_prefix d q = true -> List.length q < List.length d + f) ->
  exists s', batch_delete f s d true ign = (s', OK) /\ wf s' /\
    forall q, find s' q = match strip_prefix d q with Some (_ :: _) => None | _ => find s q end.
Proof.
  induction f as [|f IH]; intros s d ign e Hwf Hd He Hb.
  - exfalso. specialize (Hb d e He (is_prefix_refl d)). lia.
  - cbn [batch_delete]. cbn [negb andb].
    set (cs := list_children s d).
    set (step := fun (s0 : store) (c : name * entry) =>
                   if e_dir (snd c)
                   then let (s2, r2) := batch_delete f s0 (child d (fst c)) true ign in
                        if is_fuel r2 then (s2, r2) else if is_err r2 && negb ign then (s2, r2) else (s2, OK)
                   else (s0, OK)).
    pose (P := fun s0 : store => wf s0 /\ (forall q x, find s0 q = Some x -> find s q = Some x) /\
                 (forall q, (forall n m r, q <> d ++ n :: m :: r) -> find s0 q = find s q)).
    pose (Q := fun (c : name * entry) (s0 : store) =>
                 e_dir (snd c) = true -> forall m r, find s0 (d ++ fst c :: m :: r) = None).
    assert (Hcs : forall c, In c cs -> find s (d ++ [fst c]) = Some (snd c)).
    { intros [n ce] Hin. apply list_children_spec in Hin; [exact Hin|apply Hwf]. }
    destruct (iter_err_all step P (fun _ _ => True) Q cs) with (s := s) as [s1 [Hit [[Hwf1 [Hsub Hframe]] HQ]]].
    + (* one step *)
      intros s0 [n ce] Hin [Hwf0 [Hsub0 Hframe0]] _. unfold step. simpl fst. simpl snd.
      destruct (e_dir ce) eqn:Edir.
      * assert (Hc0 : find s0 (d ++ [n]) = Some ce).
        { rewrite Hframe0; [apply (Hcs (n, ce) Hin)|].
          intros n' m r E. apply app_inv_head in E. discriminate. }
        destruct (IH s0 (child d n) ign ce Hwf0 (snoc_nonnil d n) Hc0) as [s1 [Hbd [Hwf1 Hf1]]].
        { intros q x Hq Hp. unfold child in *. rewrite app_length. simpl.
          specialize (Hb q x (Hsub0 _ _ Hq) (is_prefix_trans_child _ _ _ Hp)). lia. }
        exists s1. rewrite Hbd. simpl. split; [reflexivity|].
        assert (Hmono : forall q x, find s1 q = Some x -> find s0 q = Some x).
        { intros q x Hq. rewrite Hf1 in Hq. destruct (strip_prefix (child d n) q) as [[|? ?]|]; congruence. }
        split; [|split].
        -- split; [exact Hwf1|]. split; [intros q x Hq; apply Hsub0, Hmono, Hq|].
           intros q Hq. rewrite Hf1. unfold child.
           destruct (strip_prefix (d ++ [n]) q) as [[|m r]|] eqn:Es; try (apply Hframe0, Hq).
           apply strip_prefix_spec in Es. exfalso. apply (Hq n m r). rewrite Es, <- app_assoc. reflexivity.
        -- intros _ m r. cbn [fst]. rewrite Hf1. unfold child.
           replace (d ++ n :: m :: r) with ((d ++ [n]) ++ m :: r) by (rewrite <- app_assoc; reflexivity).
           rewrite strip_prefix_app. reflexivity.
        -- intros y _ _. split; [auto|]. intros HQy Hdy m r.
           destruct (find s1 (d ++ fst y :: m :: r)) eqn:Ey; auto.
           apply Hmono in Ey. rewrite (HQy Hdy) in Ey. discriminate.
      * exists s0. split; [reflexivity|]. split; [unfold P; tauto|]. split; [unfold Q; simpl; intro; congruence|].
        intros y _ _. split; auto.
    + apply NoDup_fst. apply list_children_NoDup. apply Hwf.
    + unfold P. repeat split; auto; apply Hwf.
    + auto.
    + fold step. fold cs. rewrite Hit. cbn [is_err].
      (* every entry two or more levels below d is gone *)
      assert (Hgone : forall n m r, find s1 (d ++ n :: m :: r) = None).
      { intros n m r. destruct (find s1 (d ++ n :: m :: r)) as [x|] eqn:Ex; auto. exfalso.
        replace (d ++ n :: m :: r) with ((d ++ [n]) ++ m :: r) in Ex by (rewrite <- app_assoc; reflexivity).
        destruct (wf_ancestors s1 (proj2 Hwf1) (m :: r) (d ++ [n]) x Ex (snoc_nonnil d n)) as [de [Hde Hdd]]; [discriminate|].
        assert (Hin : In (n, de) cs).
        { apply list_children_spec; [apply Hwf|]. apply Hsub. exact Hde. }
        specialize (HQ (n, de) Hin Hdd m r). simpl in HQ.
        rewrite <- app_assoc in Ex. simpl in Ex. congruence. }
      eexists. split; [reflexivity|]. split.
      * split; [apply keys_filter_NoDup, Hwf1|].
        unfold delete_folder_children.
        apply (tree_ok_filter (fun k => negb (is_child_of d k))); [apply Hwf1|].
        intros d0 n0 e0 Hf0 Hk. destruct d0 as [|a0 d0']; auto. right.
        destruct (is_child_of d (a0 :: d0')) eqn:Ec; auto.
        apply is_child_of_spec in Ec. destruct Ec as [m Em]. rewrite Em in Hf0.
        rewrite <- app_assoc in Hf0. simpl in Hf0. rewrite Hgone in Hf0. discriminate.
      * intro q. rewrite find_delete_folder_children. unfold is_child_of.
        destruct (strip_prefix d q) as [[|m [|m' r]]|] eqn:Es.
        -- apply Hframe. apply strip_prefix_spec in Es. rewrite app_nil_r in Es. subst q.
           intros n m r E. apply app_eq_self_nil in E. discriminate.
        -- reflexivity.
        -- apply strip_prefix_spec in Es. subst q. apply Hgone.
        -- apply Hframe. intros n m r E. rewrite E in Es. rewrite strip_prefix_app in Es. discriminate.
Qed.

Lemma batch_delete_nonrec_empty : forall f s d ign, list_children s d = [] ->
  batch_delete (S f) s d false ign = (delete_folder_children s d, OK).
Proof. intros f s d ign H. cbn [batch_delete]. rewrite H. reflexivity. Qed.

Lemma batch_delete_nonrec_nonempty : forall f s d ign, list_children s d <> [] ->
  batch_delete (S f) s d false ign = (s, ENotEmpty).
Proof. intros f s d ign H. cbn [batch_delete]. destruct (list_children s d); [congruence|reflexivity]. Qed.

(* ================= the reference delete ================= *)
Lemma find_ref_remove_subtree : forall s p q,
  find (ref_remove_subtree s p) q = if is_prefix p q then None else find s q.
Proof.
  intros. unfold ref_remove_subtree. rewrite (find_filter_key (fun k => negb (is_prefix p k))).
  destruct (is_prefix p q); reflexivity.
Qed.

Lemma ref_remove_subtree_wf : forall s p, wf s -> wf (ref_remove_subtree s p).
Proof.
  intros s p Hwf. split; [apply keys_filter_NoDup, Hwf|].
  unfold ref_remove_subtree. apply (tree_ok_filter (fun k => negb (is_prefix p k))); [apply Hwf|].
  intros d n e Hf Hk. destruct d as [|a d]; auto. right.
  apply negb_true_iff. apply negb_true_iff in Hk. apply is_prefix_false. intros r Hr.
  rewrite is_prefix_false in Hk. apply (Hk (r ++ [n])). rewrite Hr, <- app_assoc. reflexivity.
Qed.

Lemma wf_equiv : forall a b, NoDup (keys b) -> equiv a b -> wf a -> wf b.
Proof. intros a b Hnd He [_ Ht]. split; auto. eapply tree_ok_equiv; eauto. Qed.

Lemma has_children_list : forall s d, NoDup (keys s) ->
  (has_children s d = false <-> list_children s d = []).
Proof. intros. rewrite has_children_false, list_children_nil; tauto. Qed.

Lemma no_children_nothing_below : forall s p, tree_ok s -> p <> [] ->
  (forall n, find s (p ++ [n]) = None) -> forall m r, find s (p ++ m :: r) = None.
Proof.
  intros s p Hs Hp Hn m r.
  replace (p ++ m :: r) with ((p ++ [m]) ++ r) by (rewrite <- app_assoc; reflexivity).
  apply wf_absent_below; auto. apply snoc_nonnil.
Qed.

Theorem delete_entry_ref : forall s p rec ign, wf s ->
  wf (fst (delete_entry s p rec ign)) /\
  snd (delete_entry s p rec ign) = snd (ref_delete s p rec) /\
  equiv (fst (delete_entry s p rec ign)) (fst (ref_delete s p rec)).
Proof.
  intros s p rec ign Hwf. unfold delete_entry, delete_entry_fuel, ref_delete.
  destruct (path_eqb_spec p []) as [->|Hp]; [cbn [fst snd]; split; [assumption|split; [reflexivity|apply equiv_refl]]|].
  destruct p as [|a0 p0] eqn:Ep; [congruence|]. rewrite <- Ep in *. clear Ep a0 p0.
  rewrite find_entry_nonroot by assumption.
  destruct (find s p) as [e|] eqn:Ef; [|cbn [fst snd]; split; [assumption|split; [reflexivity|apply equiv_refl]]].
  destruct (e_dir e) eqn:Ed; cbn [andb].
  - destruct rec; cbn [negb andb].
    + (* recursive *)
      destruct (batch_delete_rec (default_fuel s) s p ign e Hwf Hp Ef) as [s1 [Hbd [Hwf1 Hf1]]].
      { intros q x Hq _. apply max_len_find in Hq. unfold default_fuel. lia. }
      rewrite Hbd. cbn [is_err fst snd].
      assert (Heq : equiv (delete_one s1 p) (ref_remove_subtree s p)).
      { intro q. unfold delete_one. rewrite find_remove, find_ref_remove_subtree, Hf1. unfold is_prefix.
        destruct (path_eqb_spec p q) as [<-|Hpq].
        - rewrite strip_prefix_refl. reflexivity.
        - destruct (strip_prefix p q) as [[|m r]|] eqn:Es; auto.
          apply strip_prefix_spec in Es. rewrite app_nil_r in Es. congruence. }
      split; [|split; [reflexivity|exact Heq]].
      eapply wf_equiv; [apply keys_filter_NoDup, Hwf1|apply equiv_sym, Heq|apply ref_remove_subtree_wf, Hwf].
    + (* non-recursive *)
      destruct (has_children s p) eqn:Hc.
      * unfold default_fuel. rewrite batch_delete_nonrec_nonempty.
        -- cbn [is_err fst snd]. cbn [fst snd]; split; [assumption|split; [reflexivity|apply equiv_refl]].
        -- intro E. apply has_children_list in E; [congruence|apply Hwf].
      * unfold default_fuel. rewrite batch_delete_nonrec_empty by (apply has_children_list; [apply Hwf|exact Hc]).
        cbn [is_err fst snd].
        assert (Hno := proj1 (has_children_false s p) Hc).
        assert (Heq : equiv (delete_one (delete_folder_children s p) p) (ref_remove_subtree s p)).
        { intro q. unfold delete_one. rewrite find_remove, find_delete_folder_children, find_ref_remove_subtree.
          unfold is_prefix, is_child_of.
          destruct (path_eqb_spec p q) as [<-|Hpq].
          - rewrite strip_prefix_refl. reflexivity.
          - destruct (strip_prefix p q) as [[|m [|m' r]]|] eqn:Es; auto;
              apply strip_prefix_spec in Es; subst q.
            + rewrite app_nil_r in Hpq. congruence.
            + apply (no_children_nothing_below s p (proj2 Hwf) Hp Hno). }
        split; [|split; [reflexivity|exact Heq]].
        eapply wf_equiv; [apply keys_filter_NoDup, keys_filter_NoDup, Hwf|apply equiv_sym, Heq|apply ref_remove_subtree_wf, Hwf].
  - (* a file *)
    cbn [fst snd].
    assert (Heq : equiv (delete_one s p) (ref_remove_subtree s p)).
    { intro q. unfold delete_one. rewrite find_remove, find_ref_remove_subtree. unfold is_prefix.
      destruct (path_eqb_spec p q) as [<-|Hpq].
      - rewrite strip_prefix_refl. reflexivity.
      - destruct (strip_prefix p q) as [[|m r]|] eqn:Es; auto.
        + apply strip_prefix_spec in Es. rewrite app_nil_r in Es. congruence.
        + apply strip_prefix_spec in Es. subst q.
          eapply wf_file_below; eauto; [apply Hwf|discriminate]. }
    split; [|split; [reflexivity|exact Heq]].
    eapply wf_equiv; [apply keys_filter_NoDup, Hwf|apply equiv_sym, Heq|apply ref_remove_subtree_wf, Hwf].
Qed.

Lemma delete_entry_wf : forall s p rec ign, wf s -> wf (fst (delete_entry s p rec ign)).
Proof. intros. apply delete_entry_ref. assumption. Qed.

(* a non-recursive delete of a non-empty directory fails and changes nothing *)
Theorem delete_nonrec_nonempty : forall s p e ign, wf s -> p <> [] ->
  find s p = Some e -> e_dir e = true -> has_children s p = true ->
  delete_entry s p false ign = (s, ENotEmpty).
Proof.
  intros s p e ign Hwf Hp Hf Hd Hc. unfold delete_entry, delete_entry_fuel.
  destruct p as [|a0 p0] eqn:Ep.
  - congruence.
  - rewrite <- Ep in *. rewrite find_entry_nonroot by congruence. rewrite Hf, Hd.
    unfold default_fuel. rewrite batch_delete_nonrec_nonempty; [reflexivity|].
    intro E. apply has_children_list in E; [congruence|apply Hwf].
Qed.

(* any successful delete removes exactly the subtree *)
Theorem delete_removes_subtree : forall s p rec ign s', wf s -> p <> [] ->
  delete_entry s p rec ign = (s', OK) ->
  forall q, find s' q = if is_prefix p q then None else find s q.
Proof.
  intros s p rec ign s' Hwf Hp H q.
  destruct (delete_entry_ref s p rec ign Hwf) as [_ [Hr He]]. rewrite H in *. simpl in *.
  rewrite He. unfold ref_delete in *. destruct p as [|a0 p0] eqn:Ep; [congruence|]. rewrite <- Ep in *.
  destruct (find s p) as [e|]; [|discriminate].
  destruct (e_dir e && negb rec && has_children s p); [discriminate|].
  simpl. apply find_ref_remove_subtree.
Qed.

(* a recursive delete of an existing entry always succeeds *)
Theorem delete_rec_succeeds : forall s p e ign, wf s -> p <> [] -> find s p = Some e ->
  snd (delete_entry s p true ign) = OK.
Proof.
  intros s p e ign Hwf Hp Hf. destruct (delete_entry_ref s p true ign Hwf) as [_ [Hr _]]. rewrite Hr.
  unfold ref_delete. destruct p as [|a0 p0] eqn:Ep; [congruence|]. rewrite <- Ep in *.
  rewrite Hf. rewrite andb_false_r. reflexivity.
Qed.
