(* Proofs about the replicated-write model (C40). *)
From Coq Require Import List NArith Bool String Ascii Lia.
From SW Require Import model.ReplWrite.
Import ListNotations.
Local Open Scope string_scope.
Local Open Scope N_scope.

(* ---------- path.Base is idempotent ---------- *)

Lemma after_last_slash_noslash : forall s, existsb_slash (after_last_slash s) = false.
Proof.
  induction s as [|c r IH]; [reflexivity|]. cbn [after_last_slash].
  destruct (existsb_slash r) eqn:Er; [exact IH|].
  destruct (Ascii.eqb c slash) eqn:Ec; [exact Er|].
  cbn [existsb_slash]. rewrite Ec, Er. reflexivity.
Qed.

Lemma after_last_slash_id : forall s, existsb_slash s = false -> after_last_slash s = s.
Proof.
  intros [|c r] H; [reflexivity|]. cbn [existsb_slash] in H. apply orb_false_iff in H. destruct H as [Hc Hr].
  cbn [after_last_slash]. rewrite Hr, Hc. reflexivity.
Qed.

Lemma strip_slashes_id : forall s, existsb_slash s = false -> strip_slashes s = s.
Proof.
  induction s as [|c r IH]; intros H; [reflexivity|].
  cbn [existsb_slash] in H. apply orb_false_iff in H. destruct H as [Hc Hr].
  cbn [strip_slashes]. rewrite (IH Hr). destruct r; [rewrite Hc; reflexivity | reflexivity].
Qed.

Lemma after_strip_nonempty : forall s,
  strip_slashes s = EmptyString \/ after_last_slash (strip_slashes s) <> EmptyString.
Proof.
  induction s as [|c r IH]; [left; reflexivity|]. cbn [strip_slashes].
  destruct (strip_slashes r) as [|c' r'] eqn:Er.
  - destruct (Ascii.eqb c slash) eqn:Ec; [left; reflexivity|]. right.
    cbn [after_last_slash existsb_slash]. rewrite Ec. discriminate.
  - right. destruct IH as [IH|IH]; [discriminate|].
    cbn [after_last_slash]. destruct (existsb_slash (String c' r')); [exact IH|].
    destruct (Ascii.eqb c slash); discriminate.
Qed.

Lemma base_noslash_id : forall u, u <> EmptyString -> existsb_slash u = false -> base u = u.
Proof.
  intros u Hne Hns. unfold base. destruct u as [|c r]; [congruence|].
  rewrite (strip_slashes_id _ Hns). apply after_last_slash_id. exact Hns.
Qed.

Theorem base_idempotent : forall s, base (base s) = base s.
Proof.
  intros s. unfold base at 2 3. destruct s as [|c r]; [reflexivity|].
  destruct (after_strip_nonempty (String c r)) as [H|H].
  - rewrite H. reflexivity.
  - destruct (strip_slashes (String c r)) as [|c' r'] eqn:E; [reflexivity|].
    apply base_noslash_id; [exact H | apply after_last_slash_noslash].
Qed.

(* the file name survives the replication request *)
Lemma parsed_name_fix : forall q,
  match parsed_name q with EmptyString => EmptyString | nm => base nm end = parsed_name q.
Proof.
  intros q. unfold parsed_name. destruct (q_put q); [reflexivity|].
  destruct (q_name q) as [|c r] eqn:E; [reflexivity|]. cbv iota.
  destruct (base (String c r)) as [|c' r'] eqn:Eb; [reflexivity|].
  rewrite <- Eb. apply base_idempotent.
Qed.

(* ---------- small facts ---------- *)

Lemma pairs_eqb_refl : forall p, pairs_eqb p p = true.
Proof.
  induction p as [|[k v] p IH]; [reflexivity|]. cbn. rewrite !String.eqb_refl. exact IH.
Qed.

Lemma ttl_norm_idem : forall t, ttl_norm (ttl_norm t) = ttl_norm t.
Proof.
  intros [c u]. unfold ttl_norm.
  destruct ((c =? 0) || (u =? 0) || (6 <? u)) eqn:E; [reflexivity|]. rewrite E. reflexivity.
Qed.

Lemma ttl_norm_zero : forall t, (fst (ttl_norm t) =? 0) && (snd (ttl_norm t) =? 0) = true -> ttl_norm t = (0, 0).
Proof.
  intros t H. apply andb_true_iff in H. destruct H as [H1 H2].
  apply N.eqb_eq in H1. apply N.eqb_eq in H2. destruct (ttl_norm t) as [a b]. cbn in *. congruence.
Qed.

Lemma keep256_short : forall s, slen s <? 256 = true -> keep256 s = s.
Proof. intros s H. unfold keep256. rewrite H. reflexivity. Qed.

Lemma keep256_idem : forall s, keep256 (keep256 s) = keep256 s.
Proof. intros s. unfold keep256. destruct (slen s <? 256) eqn:E; [rewrite E|]; reflexivity. Qed.

Lemma n_mime_keep : forall o q, n_mime (create_needle o q) = keep256 (parsed_mime o q).
Proof. reflexivity. Qed.

Lemma n_name_keep : forall o q, n_name (create_needle o q) = keep256 (parsed_name q).
Proof. reflexivity. Qed.

(* ---------- the replica's needle, field by field ---------- *)

Lemma parsed_name_replicate : forall o q,
  parsed_name (replicate o (create_needle o q)) = keep256 (parsed_name q).
Proof.
  intros o q.
  assert (H1 : q_put (replicate o (create_needle o q)) = false) by reflexivity.
  assert (H2 : q_name (replicate o (create_needle o q)) = keep256 (parsed_name q)) by reflexivity.
  unfold parsed_name at 1. rewrite H1, H2. unfold keep256.
  destruct (slen (parsed_name q) <? 256); [apply parsed_name_fix | reflexivity].
Qed.

Lemma name_view : forall o q,
  (if n_has_name (create_needle o q) then n_name (create_needle o q) else "") = keep256 (parsed_name q).
Proof.
  intros o q. cbn [create_needle n_has_name n_name]. unfold keep256.
  destruct (slen (parsed_name q) <? 256); reflexivity.
Qed.

Lemma mime_view : forall o q,
  (if n_has_mime (create_needle o q) then n_mime (create_needle o q) else "") = n_mime (create_needle o q).
Proof.
  intros o q. cbn [create_needle n_has_mime n_mime].
  destruct (slen (parsed_mime o q) <? 256); reflexivity.
Qed.

Lemma gz_now_compressed : forall o n, n_compressed n = true -> repl_gz_now o n = false.
Proof. intros o n H. unfold repl_gz_now. rewrite H. reflexivity. Qed.

Section Replica.
Variable o : oracles.
Variable q : request.
Local Notation N0 := (create_needle o q).
Local Notation R0 := (replicate o (create_needle o q)).
Local Notation N1 := (create_needle o (replicate o (create_needle o q))).

Lemma replica_name_view :
  (if n_has_name N1 then n_name N1 else "") = (if n_has_name N0 then n_name N0 else "").
Proof. rewrite !name_view, parsed_name_replicate. apply keep256_idem. Qed.

Lemma replica_pairs_view :
  (if n_has_pairs N1 then n_pairs N1 else []) = (if n_has_pairs N0 then n_pairs N0 else []).
Proof.
  cbn [create_needle replicate n_has_pairs n_pairs q_pairs].
  destruct (q_pairs q); reflexivity.
Qed.

Lemma replica_lastmod : n_lastmod N1 = n_lastmod N0.
Proof.
  cbn [create_needle replicate n_lastmod q_ts].
  destruct (q_ts q =? 0) eqn:E; [reflexivity|]. rewrite E. reflexivity.
Qed.

Lemma replica_ttl_view :
  (if n_ttl_set N1 then ttl_norm (n_ttl N1) else (0, 0)) = (if n_ttl_set N0 then ttl_norm (n_ttl N0) else (0, 0)).
Proof.
  cbn [create_needle replicate n_ttl_set n_ttl q_ttl_set q_ttl].
  destruct (q_ttl_set q); [|reflexivity]. cbv iota.
  remember (ttl_norm (q_ttl q)) as T eqn:ET.
  destruct ((fst T =? 0) && (snd T =? 0)) eqn:E; cbn [negb]; cbv iota; subst T.
  - symmetry. apply ttl_norm_zero. exact E.
  - apply ttl_norm_idem.
Qed.

Lemma replica_compressed : n_compressed N1 = n_compressed N0 || repl_gz_now o N0.
Proof. reflexivity. Qed.

Lemma replica_body :
  n_body N1 = if repl_gz_now o N0
              then {| b_len := b_len (n_body N0); b_crc := b_crc (n_body N0); b_gz := true |}
              else n_body N0.
Proof. reflexivity. Qed.

(* the decoded content: a body the replication client gzips decodes to the same bytes *)
Lemma replica_content :
  (if n_compressed N1 then b_gz (n_body N1) else true) = (if n_compressed N0 then b_gz (n_body N0) else true) /\
  b_len (n_body N1) = b_len (n_body N0) /\ b_crc (n_body N1) = b_crc (n_body N0).
Proof.
  rewrite replica_compressed, replica_body. destruct (n_compressed N0) eqn:E.
  - rewrite (gz_now_compressed o _ E). cbn [orb]. auto.
  - cbn [orb]. destruct (repl_gz_now o N0); cbn [b_len b_crc b_gz]; auto.
Qed.

Lemma replica_body_nonempty : body_empty (n_body N0) = false -> body_empty (n_body N1) = false.
Proof.
  intros H. rewrite replica_body. destruct (repl_gz_now o N0); [reflexivity | exact H].
Qed.

(* the mime type, outside the trigger *)
Lemma replica_mime (nrepl fault : N) (d : bool) :
  trig_mime {| u_req := q; u_oracles := o; u_nrepl := nrepl; u_fault := fault; u_delete := d |} = false ->
  n_mime N1 = n_mime N0.
Proof.
  intros H. unfold trig_mime, primary_needle in H. cbn [u_req u_oracles] in H. cbv zeta in H.
  assert (Hput : q_put R0 = false) by reflexivity.
  assert (Hcm : q_cm R0 = n_cm N0) by reflexivity.
  assert (Hct : q_ctype R0 = if String.eqb (repl_mtype1 o N0) "" then tbe o (ext_filepath (n_name N0))
                             else repl_mtype1 o N0) by reflexivity.
  rewrite (n_mime_keep o R0). unfold parsed_mime at 1. rewrite Hput, Hcm, Hct.
  destruct (n_cm N0) eqn:Ecm.
  - (* chunk manifest: neither side keeps a mime *)
    rewrite (n_mime_keep o q). unfold parsed_mime.
    assert (Hcm0 : n_cm N0 = if q_put q then false else q_cm q) by reflexivity.
    rewrite Hcm0 in Ecm. destruct (q_put q); [discriminate|]. rewrite Ecm. reflexivity.
  - cbn [negb andb] in H. apply orb_false_iff in H. destruct H as [Hoct H].
    destruct (String.eqb (n_mime N0) "") eqn:Eempty.
    + (* the primary keeps no mime *)
      cbn [andb] in H.
      set (t := if String.eqb (repl_mtype1 o N0) "" then tbe o (ext_filepath (n_name N0)) else repl_mtype1 o N0) in *.
      apply String.eqb_eq in Eempty. rewrite Eempty.
      destruct (String.eqb t "") eqn:Et; cbn [negb andb]; [reflexivity|].
      destruct (String.eqb t octet) eqn:Eo; cbn [negb andb]; [reflexivity|].
      destruct (String.eqb (tbe o (ext_lastindex (parsed_name R0))) t) eqn:Ee; cbn [negb]; [reflexivity|].
      rewrite String.eqb_sym in Ee. rewrite Ee in H. cbn [negb andb] in H.
      rewrite !andb_true_r in H. apply negb_false_iff in H. apply String.eqb_eq in H. exact H.
    + (* the primary keeps a mime other than octet-stream: it travels as the part's Content-Type *)
      assert (Hm1 : repl_mtype1 o N0 = n_mime N0).
      { unfold repl_mtype1. rewrite Eempty, andb_false_r. reflexivity. }
      rewrite Hm1, Eempty. cbv iota. rewrite Eempty, Hoct. cbn [negb andb].
      assert (Hshort : keep256 (n_mime N0) = n_mime N0).
      { rewrite n_mime_keep. apply keep256_idem. }
      assert (Hext : String.eqb (tbe o (ext_lastindex (parsed_name R0))) (n_mime N0) = false).
      { (* the replica sees the same file name, or none *)
        rewrite parsed_name_replicate. rewrite n_mime_keep in *.
        unfold parsed_mime in *. destruct (q_put q) eqn:Eput.
        - (* PUT: no file name at all *)
          unfold parsed_name. rewrite Eput. cbn [keep256 slen String.length N.of_nat N.ltb N.compare ext_lastindex tbe].
          rewrite String.eqb_sym. exact Eempty.
        - destruct (q_cm q); [cbv in Eempty; discriminate|].
          destruct (negb (String.eqb (q_ctype q) "") && negb (String.eqb (q_ctype q) octet)
                    && negb (String.eqb (tbe o (ext_lastindex (parsed_name q))) (q_ctype q))) eqn:Econd;
            [|cbv in Eempty; discriminate].
          apply andb_true_iff in Econd. destruct Econd as [_ Hne]. apply negb_true_iff in Hne.
          unfold keep256 in Eempty |- *.
          destruct (slen (q_ctype q) <? 256); [|cbv in Eempty; discriminate].
          destruct (slen (parsed_name q) <? 256); [exact Hne|].
          cbn [ext_lastindex tbe]. rewrite String.eqb_sym. exact Eempty. }
      rewrite Hext. cbn [negb]. exact Hshort.
Qed.

End Replica.

(* ---------- the property ---------- *)

Lemma same_outcome_views : forall o q nrepl fault d,
  let u := {| u_req := q; u_oracles := o; u_nrepl := nrepl; u_fault := fault; u_delete := d |} in
  trig_empty u = false -> trig_mime u = false ->
  same_outcome (view_of (primary_needle u)) (view_of (replica_needle u)) = true.
Proof.
  intros o q nrepl fault d u Hemp Hmime.
  unfold replica_needle, primary_needle, u. cbn [u_req u_oracles].
  set (n := create_needle o q). set (n' := create_needle o (replicate o n)).
  assert (Hb : body_empty (n_body n) = false) by exact Hemp.
  pose proof (replica_body_nonempty o q Hb) as Hb'. fold n n' in Hb'.
  unfold view_of. rewrite Hb, Hb'. unfold same_outcome.
  cbn [so_state so_name so_mime so_pairs so_lastmod so_ttl so_dec_ok so_len so_crc].
  pose proof (replica_name_view o q) as Hn. fold n n' in Hn.
  pose proof (replica_pairs_view o q) as Hp. fold n n' in Hp.
  pose proof (replica_lastmod o q) as Hl. fold n n' in Hl.
  pose proof (replica_ttl_view o q) as Ht. fold n n' in Ht.
  pose proof (replica_content o q) as [Hc1 [Hc2 Hc3]]. fold n n' in Hc1, Hc2, Hc3.
  pose proof (replica_mime o q nrepl fault d Hmime) as Hm. fold n n' in Hm.
  assert (Hmv : (if n_has_mime n' then n_mime n' else "") = (if n_has_mime n then n_mime n else "")).
  { assert (Hx : forall m, (if n_has_mime m then n_mime m else "") = n_mime m -> True) by auto.
    assert (Hk : forall oo qq, (if n_has_mime (create_needle oo qq) then n_mime (create_needle oo qq) else "")
                               = n_mime (create_needle oo qq)).
    { intros oo qq. cbn [create_needle n_has_mime n_mime]. destruct (slen (parsed_mime oo qq) <? 256); reflexivity. }
    unfold n', n. rewrite !Hk. exact Hm. }
  rewrite Hn, Hmv, Hp, Hl, Ht, Hc1, Hc2, Hc3.
  rewrite !String.eqb_refl, pairs_eqb_refl, !N.eqb_refl, Bool.eqb_reflx. reflexivity.
Qed.

Lemma forallb_repeat : forall (A : Type) (f : A -> bool) x n, f x = true -> forallb f (repeat x n) = true.
Proof. intros A f x n H. induction n as [|n IH]; [reflexivity|]. cbn. rewrite H. exact IH. Qed.

(* outside the two triggers an acknowledged upload leaves every replica with the
   primary's outcome, and an acknowledged delete leaves the file served nowhere -
   whatever the fault *)
Theorem same_outcome_partial : forall u,
  trig_empty u = false -> trig_mime u = false ->
  upload_consistent (upload_status u) (views_after_upload u) = true /\
  delete_consistent (delete_status u) (views_after_delete u) = true.
Proof.
  intros [q o nrepl fault d] Hemp Hmime.
  set (u := {| u_req := q; u_oracles := o; u_nrepl := nrepl; u_fault := fault; u_delete := d |}) in *.
  split.
  - unfold upload_consistent, views_after_upload.
    destruct (fault =? 3) eqn:Ef.
    + (* a listed location without the volume: the upload is not acknowledged *)
      apply N.eqb_eq in Ef. unfold upload_status. cbn [u u_fault]. rewrite Ef. reflexivity.
    + apply orb_true_iff. right. apply forallb_repeat.
      unfold replica_view. cbn [u u_fault]. rewrite Ef.
      exact (same_outcome_views o q nrepl fault d Hemp Hmime).
  - unfold delete_consistent, views_after_delete. apply orb_true_iff. right.
    assert (Hb : body_empty (n_body (primary_needle u)) = false) by exact Hemp.
    cbn [forallb]. unfold deleted_view at 1. rewrite Hb.
    assert (Hd : is_deleted (blank 2 false) = true) by reflexivity. rewrite Hd. cbn [andb].
    apply forallb_repeat. cbn [u u_fault]. destruct (fault =? 3); [reflexivity|]. unfold deleted_view.
    unfold replica_needle, primary_needle in *. cbn [u u_req u_oracles] in *.
    rewrite (replica_body_nonempty o q Hb). reflexivity.
Qed.

(* a replica that answers with an error, is unreachable, or is a volume server that
   does not hold the volume makes the upload fail; the first two also make the delete fail *)
Theorem failure_reported : forall u,
  (u_fault u = 1 \/ u_fault u = 2 \/ u_fault u = 3 -> success (upload_status u) = false) /\
  (u_fault u = 1 \/ u_fault u = 2 -> success (delete_status u) = false).
Proof.
  intros u. split.
  - intros [H|[H|H]]; unfold upload_status; rewrite H; reflexivity.
  - intros [H|H]; unfold delete_status; rewrite H; reflexivity.
Qed.

(* ---------- the full statement fails: witnesses ---------- *)

Definition mk_upload (put : bool) (name ctype : string) (blen bcrc : N) (detect : string)
  (exts : list (string * string)) (nrepl fault : N) : upload :=
  {| u_req := {| q_put := put; q_name := name; q_ctype := ctype; q_gzip := false; q_pairs := [];
                 q_ts := 12345; q_ttl_set := false; q_ttl := (0, 0); q_cm := false;
                 q_body := {| b_len := blen; b_crc := bcrc; b_gz := false |} |};
     u_oracles := {| o_detect := detect; o_gz128 := false; o_ext_types := exts |};
     u_nrepl := nrepl; u_fault := fault; u_delete := true |}.

(* no mime on the primary, a text payload: the replica stores the sniffed type *)
Definition witness_sniffed : upload :=
  mk_upload false "b.bin" "" 24 1485685935 "text/plain; charset=utf-8" [(".bin", octet)] 1 0.
(* PUT with application/octet-stream: kept by the primary, dropped by the replica *)
Definition witness_put_octet : upload :=
  mk_upload true "" octet 10 1164760902 octet [] 1 0.
(* empty payload *)
Definition witness_empty : upload :=
  mk_upload false "a.txt" "text/plain" 0 0 "text/plain; charset=utf-8" [(".txt", "text/plain; charset=utf-8")] 1 0.
(* a listed location without the volume *)
Definition witness_lost_volume : upload :=
  mk_upload false "a.txt" "text/plain" 24 1485685935 "text/plain; charset=utf-8" [(".txt", "text/plain; charset=utf-8")] 1 3.

Theorem same_outcome_refuted_mime :
  success (upload_status witness_sniffed) = true /\
  upload_consistent (upload_status witness_sniffed) (views_after_upload witness_sniffed) = false /\
  map so_mime (views_after_upload witness_sniffed) = [""; "text/plain; charset=utf-8"] /\
  success (upload_status witness_put_octet) = true /\
  map so_mime (views_after_upload witness_put_octet) = [octet; ""].
Proof. vm_compute. repeat split. Qed.

Theorem same_outcome_refuted_empty :
  success (upload_status witness_empty) = true /\
  upload_consistent (upload_status witness_empty) (views_after_upload witness_empty) = false /\
  map so_name (views_after_upload witness_empty) = [""; "a.txt"] /\
  success (delete_status witness_empty) = true /\
  map so_state (views_after_delete witness_empty) = [0; 2].
Proof. vm_compute. repeat split. Qed.

(* regression witness of the repaired defect: the location without the volume holds
   nothing, and the upload is no longer acknowledged *)
Theorem lost_volume_reported :
  map so_state (views_after_upload witness_lost_volume) = [0; 3] /\
  upload_status witness_lost_volume = 500 /\
  upload_consistent (upload_status witness_lost_volume) (views_after_upload witness_lost_volume) = true.
Proof. vm_compute. repeat split. Qed.

Theorem same_outcome_refuted : exists u,
  success (upload_status u) = true /\ upload_consistent (upload_status u) (views_after_upload u) = false.
Proof. exists witness_sniffed. vm_compute. split; reflexivity. Qed.
