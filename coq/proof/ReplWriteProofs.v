(* Proofs about the replicated-write model (C40). *)
From Coq Require Import List NArith Bool String Ascii Lia.
From SW Require Import model.ReplWrite.
Import ListNotations.
Local Open Scope string_scope.
Local Open Scope N_scope.

(* ---------- path.Base is idempotent ---------- *)

Lemma after_last_slash_noslash : forall s, existsb_slash (after_last_slash s) = false.
Proof.
  induction s as [|c r IH]; [reflexivity|]. cbn [after_last_slash].
  destruct (existsb_slash r) eqn:Er; [exact IH|].
  destruct (Ascii.eqb c slash) eqn:Ec; [exact Er|].
  cbn [existsb_slash]. rewrite Ec, Er. reflexivity.
Qed.

Lemma after_last_slash_id : forall s, existsb_slash s = false -> after_last_slash s = s.
Proof.
  intros [|c r] H; [reflexivity|]. cbn [existsb_slash] in H. apply orb_false_iff in H. destruct H as [Hc Hr].
  cbn [after_last_slash]. rewrite Hr, Hc. reflexivity.
Qed.

Lemma strip_slashes_id : forall s, existsb_slash s = false -> strip_slashes s = s.
Proof.
  induction s as [|c r IH]; intros H; [reflexivity|].
  cbn [existsb_slash] in H. apply orb_false_iff in H. destruct H as [Hc Hr].
  cbn [strip_slashes]. rewrite (IH Hr). destruct r; [rewrite Hc; reflexivity | reflexivity].
Qed.

Lemma after_strip_nonempty : forall s,
  strip_slashes s = EmptyString \/ after_last_slash (strip_slashes s) <> EmptyString.
Proof.
  induction s as [|c r IH]; [left; reflexivity|]. cbn [strip_slashes].
  destruct (strip_slashes r) as [|c' r'] eqn:Er.
  - destruct (Ascii.eqb c slash) eqn:Ec; [left; reflexivity|]. right.
    cbn [after_last_slash existsb_slash]. rewrite Ec. discriminate.
  - right. destruct IH as [IH|IH]; [discriminate|].
    cbn [after_last_slash]. destruct (existsb_slash (String c' r')); [exact IH|].
    destruct (Ascii.eqb c slash); discriminate.
Qed.

Lemma base_noslash_id : forall u, u <> EmptyString -> existsb_slash u = false -> base u = u.
Proof.
  intros u Hne Hns. unfold base. destruct u as [|c r]; [congruence|].
  rewrite (strip_slashes_id _ Hns). apply after_last_slash_id. exact Hns.
Qed.

Theorem base_idempotent : forall s, base (base s) = base s.
Proof.
  intros s. unfold base at 2 3. destruct s as [|c r]; [reflexivity|].
  destruct (after_strip_nonempty (String c r)) as [H|H].
  - rewrite H. reflexivity.
  - destruct (strip_slashes (String c r)) as [|c' r'] eqn:E; [reflexivity|].
    apply base_noslash_id; [exact H | apply after_last_slash_noslash].
Qed.

(* the file name survives the replication request *)
Lemma parsed_name_fix : forall q,
  match parsed_name q with EmptyString => EmptyString | nm => base nm end = parsed_name q.
Proof.
  intros q. unfold parsed_name. destruct (q_put q); [reflexivity|].
  destruct (q_name q) as [|c r] eqn:E; [reflexivity|]. cbv iota.
  destruct (base (String c r)) as [|c' r'] eqn:Eb; [reflexivity|].
  rewrite <- Eb. apply base_idempotent.
Qed.

(* ---------- small facts ---------- *)

Lemma pairs_eqb_refl : forall p, pairs_eqb p p = true.
Proof.
  induction p as [|[k v] p IH]; [reflexivity|]. cbn. rewrite !String.eqb_refl. exact IH.
Qed.

Lemma ttl_norm_idem : forall t, ttl_norm (ttl_norm t) = ttl_norm t.
Proof.
  intros [c u]. unfold ttl_norm.
  destruct ((c =? 0) || (u =? 0) || (6 <? u)) eqn:E; [reflexivity|]. rewrite E. reflexivity.
Qed.

Lemma ttl_norm_zero : forall t, (fst (ttl_norm t) =? 0) && (snd (ttl_norm t) =? 0) = true -> ttl_norm t = (0, 0).
Proof.
  intros t H. apply andb_true_iff in H. destruct H as [H1 H2].
  apply N.eqb_eq in H1. apply N.eqb_eq in H2. destruct (ttl_norm t) as [a b]. cbn in *. congruence.
Qed.

Lemma keep256_short : forall s, slen s <? 256 = true -> keep256 s = s.
Proof. intros s H. unfold keep256. rewrite H. reflexivity. Qed.

Lemma keep256_idem : forall s, keep256 (keep256 s) = keep256 s.
Proof. intros s. unfold keep256. destruct (slen s <? 256) eqn:E; [rewrite E|]; reflexivity. Qed.

Lemma n_mime_keep : forall o q, n_mime (create_needle o q) = keep256 (parsed_mime o q).
Proof. reflexivity. Qed.

Lemma n_name_keep : forall o q, n_name (create_needle o q) = keep256 (parsed_name q).
Proof. reflexivity. Qed.

(* ---------- the replica's needle, field by field ---------- *)

Lemma parsed_name_replicate : forall o q,
  parsed_name (replicate o (create_needle o q)) = keep256 (parsed_name q).
Proof.
  intros o q.
  assert (H1 : q_put (replicate o (create_needle o q)) = false) by reflexivity.
  assert (H2 : q_name (replicate o (create_needle o q)) = keep256 (parsed_name q)) by reflexivity.
  unfold parsed_name at 1. rewrite H1, H2. unfold keep256.
  destruct (slen (parsed_name q) <? 256); [apply parsed_name_fix | reflexivity].
Qed.

Lemma name_view : forall o q,
  (if n_has_name (create_needle o q) then n_name (create_needle o q) else "") = keep256 (parsed_name q).
Proof.
  intros o q. cbn [create_needle n_has_name n_name]. unfold keep256.
  destruct (slen (parsed_name q) <? 256); reflexivity.
Qed.

Lemma mime_view : forall o q,
  (if n_has_mime (create_needle o q) then n_mime (create_needle o q) else "") = n_mime (create_needle o q).
Proof.
  intros o q. cbn [create_needle n_has_mime n_mime].
  destruct (slen (parsed_mime o q) <? 256); reflexivity.
Qed.

Lemma gz_now_compressed : forall o n, n_compressed n = true -> repl_gz_now o n = false.
Proof. intros o n H. unfold repl_gz_now. rewrite H. reflexivity. Qed.

Section Replica.
Variable o : oracles.
Variable q : request.
Local Notation N0 := (create_needle o q).
Local Notation R0 := (replicate o (create_needle o q)).
Local Notation N1 := (create_needle o (replicate o (create_needle o q))).

Lemma replica_name_view :
  (if n_has_name N1 then n_name N1 else "") = (if n_has_name N0 then n_name N0 else "").
Proof. rewrite !name_view, parsed_name_replicate. apply keep256_idem. Qed.

Lemma replica_pairs_view :
  (if n_has_pairs N1 then n_pairs N1 else []) = (if n_has_pairs N0 then n_pairs N0 else []).
Proof.
  cbn [create_needle replicate n_has_pairs n_pairs q_pairs].
  destruct (q_pairs q); reflexivity.
Qed.

Lemma replica_lastmod : n_lastmod N1 = n_lastmod N0.
Proof.
  cbn [create_needle replicate n_lastmod q_ts].
  destruct (q_ts q =? 0) eqn:E; [reflexivity|]. rewrite E. reflexivity.
Qed.

Lemma replica_ttl_view :
  (if n_ttl_set N1 then ttl_norm (n_ttl N1) else (0, 0)) = (if n_ttl_set N0 then ttl_norm (n_ttl N0) else (0, 0)).
Proof.
  cbn [create_needle replicate n_ttl_set n_ttl q_ttl_set q_ttl].
  destruct (q_ttl_set q); [|reflexivity]. cbv iota.
  remember (ttl_norm (q_ttl q)) as T eqn:ET.
  destruct ((fst T =? 0) && (snd T =? 0)) eqn:E; cbn [negb]; cbv iota; subst T.
  - symmetry. apply ttl_norm_zero. exact E.
  - apply ttl_norm_idem.
Qed.

Lemma replica_compressed : n_compressed N1 = n_compressed N0 || repl_gz_now o N0.
Proof. reflexivity. Qed.

Lemma replica_body :
  n_body N1 = if repl_gz_now o N0
              then {| b_len := b_len (n_body N0); b_crc := b_crc (n_body N0); b_gz := true |}
              else n_body N0.
Proof. reflexivity. Qed.

(* the decoded content: a body the replication client gzips decodes to the same bytes *)
Lemma replica_content :
  (if n_compressed N1 then b_gz (n_body N1) else true) = (if n_compressed N0 then b_gz (n_body N0) else true) /\
  b_len (n_body N1) = b_len (n_body N0) /\ b_crc (n_body N1) = b_crc (n_body N0).
Proof.
  rewrite replica_compressed, replica_body. destruct (n_compressed N0) eqn:E.
  - rewrite (gz_now_compressed o _ E). cbn [orb]. auto.
  - cbn [orb]. destruct (repl_gz_now o N0); cbn [b_len b_crc b_gz]; auto.
Qed.

Lemma replica_body_nonempty : body_empty (n_body N0) = false -> body_empty (n_body N1) = false.
Proof.
  intros H. rewrite replica_body. destruct (repl_gz_now o N0); [reflexivity | exact H].
Qed.

(* the mime type, outside the trigger *)
Lemma replica_mime :
  body_empty (n_body N0) = false ->
  trig_mime o q = false ->
  n_mime N1 = n_mime N0.
Proof.
  intros Hbody H. unfold trig_mime in H. cbv zeta in H. rewrite Hbody in H. cbn [negb andb] in H.
  assert (Hput : q_put R0 = false) by reflexivity.
  assert (Hcm : q_cm R0 = n_cm N0) by reflexivity.
  assert (Hct : q_ctype R0 = if String.eqb (repl_mtype1 o N0) "" then tbe o (ext_filepath (n_name N0))
                             else repl_mtype1 o N0) by reflexivity.
  rewrite (n_mime_keep o R0). unfold parsed_mime at 1. rewrite Hput, Hcm, Hct.
  destruct (n_cm N0) eqn:Ecm.
  - (* chunk manifest: neither side keeps a mime *)
    rewrite (n_mime_keep o q). unfold parsed_mime.
    assert (Hcm0 : n_cm N0 = if q_put q then false else q_cm q) by reflexivity.
    rewrite Hcm0 in Ecm. destruct (q_put q); [discriminate|]. rewrite Ecm. reflexivity.
  - cbn [negb andb] in H. apply orb_false_iff in H. destruct H as [Hoct H].
    destruct (String.eqb (n_mime N0) "") eqn:Eempty.
    + (* the primary keeps no mime *)
      cbn [andb] in H.
      set (t := if String.eqb (repl_mtype1 o N0) "" then tbe o (ext_filepath (n_name N0)) else repl_mtype1 o N0) in *.
      apply String.eqb_eq in Eempty. rewrite Eempty.
      destruct (String.eqb t "") eqn:Et; cbn [negb andb]; [reflexivity|].
      destruct (String.eqb t octet) eqn:Eo; cbn [negb andb]; [reflexivity|].
      destruct (String.eqb (tbe o (ext_lastindex (parsed_name R0))) t) eqn:Ee; cbn [negb]; [reflexivity|].
      rewrite String.eqb_sym in Ee. rewrite Ee in H. cbn [negb andb] in H.
      rewrite !andb_true_r in H. apply negb_false_iff in H. apply String.eqb_eq in H. exact H.
    + (* the primary keeps a mime other than octet-stream: it travels as the part's Content-Type *)
      assert (Hm1 : repl_mtype1 o N0 = n_mime N0).
      { unfold repl_mtype1. rewrite Eempty, andb_false_r. reflexivity. }
      rewrite Hm1, Eempty. cbv iota. rewrite Eempty, Hoct. cbn [negb andb].
      assert (Hshort : keep256 (n_mime N0) = n_mime N0).
      { rewrite n_mime_keep. apply keep256_idem. }
      assert (Hext : String.eqb (tbe o (ext_lastindex (parsed_name R0))) (n_mime N0) = false).
      { (* the replica sees the same file name, or none *)
        rewrite parsed_name_replicate. rewrite n_mime_keep in *.
        unfold parsed_mime in *. destruct (q_put q) eqn:Eput.
        - (* PUT: no file name at all *)
          unfold parsed_name. rewrite Eput. cbn [keep256 slen String.length N.of_nat N.ltb N.compare ext_lastindex tbe].
          rewrite String.eqb_sym. exact Eempty.
        - destruct (q_cm q); [cbv in Eempty; discriminate|].
          destruct (negb (String.eqb (q_ctype q) "") && negb (String.eqb (q_ctype q) octet)
                    && negb (String.eqb (tbe o (ext_lastindex (parsed_name q))) (q_ctype q))) eqn:Econd;
            [|cbv in Eempty; discriminate].
          apply andb_true_iff in Econd. destruct Econd as [_ Hne]. apply negb_true_iff in Hne.
          unfold keep256 in Eempty |- *.
          destruct (slen (q_ctype q) <? 256); [|cbv in Eempty; discriminate].
          destruct (slen (parsed_name q) <? 256); [exact Hne|].
          cbn [ext_lastindex tbe]. rewrite String.eqb_sym. exact Eempty. }
      rewrite Hext. cbn [negb]. exact Hshort.
Qed.

End Replica.
