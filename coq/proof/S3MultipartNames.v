(* C28 proofs, part 1: part file names ("%04d.part") and the order in which a
   directory lists them. *)
From Coq Require Import List NArith ZArith Bool Arith Lia.
From SW Require Import model.S3Multipart.
Import ListNotations.
Local Open Scope N_scope.

(* ---------- the lexicographic order on byte strings ---------- *)
Lemma lex_cmp_refl : forall a, lex_cmp a a = Eq.
Proof. induction a as [|x a IH]; simpl; auto. rewrite N.compare_refl. exact IH. Qed.

Lemma lex_cmp_eq : forall a b, lex_cmp a b = Eq -> a = b.
Proof.
  induction a as [|x a IH]; destruct b as [|y b]; simpl; intros H; try discriminate; auto.
  destruct (N.compare_spec x y) as [E|E|E]; try discriminate. subst. f_equal. auto.
Qed.

Lemma lex_cmp_antisym : forall a b, lex_cmp b a = CompOpp (lex_cmp a b).
Proof.
  induction a as [|x a IH]; destruct b as [|y b]; simpl; auto.
  rewrite (N.compare_antisym x y). destruct (N.compare x y); simpl; auto.
Qed.

Lemma lex_lt_trans : forall a b c, lex_cmp a b = Lt -> lex_cmp b c = Lt -> lex_cmp a c = Lt.
Proof.
  induction a as [|x a IH]; destruct b as [|y b]; destruct c as [|z c]; simpl; intros H1 H2;
    try discriminate; auto.
  destruct (N.compare_spec x y) as [E1|E1|E1]; try discriminate;
  destruct (N.compare_spec y z) as [E2|E2|E2]; try discriminate; subst.
  - rewrite N.compare_refl. eauto.
  - destruct (N.compare_spec z z); try lia. destruct (N.compare_spec y z); try lia; auto.
  - destruct (N.compare_spec x z); try lia; auto.
  - destruct (N.compare_spec x z); try lia; auto.
Qed.

(* ---------- ranges of numbers for the finite sweeps ---------- *)
Definition nrange (lo len : N) : list N := map N.of_nat (seq (N.to_nat lo) (N.to_nat len)).

Lemma in_nrange : forall lo len n, lo <= n -> n < lo + len -> In n (nrange lo len).
Proof.
  intros lo len n H1 H2. unfold nrange. rewrite <- (N2Nat.id n). apply in_map. apply in_seq. lia.
Qed.

(* ---------- the sweeps (evaluated by the kernel's VM) ---------- *)
(* consecutive numbers below 10000 have consecutive names *)
Lemma sweep_adjacent :
  forallb (fun n => lex_ltb (part_name n) (part_name (n + 1))) (nrange 0 9999) = true.
Proof. vm_compute. reflexivity. Qed.

(* "10000.part" sorts before every "1001.part" .. "9999.part" *)
Lemma sweep_10000_before :
  forallb (fun m => lex_ltb (part_name 10000) (part_name m)) (nrange 1001 8999) = true.
Proof. vm_compute. reflexivity. Qed.

(* .. and after "0000.part" .. "1000.part" *)
Lemma sweep_10000_after :
  forallb (fun m => lex_ltb (part_name m) (part_name 10000)) (nrange 0 1001) = true.
Proof. vm_compute. reflexivity. Qed.

(* strconv.Atoi inverts the format for every number the gateway accepts in 0..10000 *)
Lemma sweep_atoi :
  forallb (fun n => (part_number_of (part_name n) =? n) && has_part_suffix (part_name n) &&
                    lex_leb (part_name 0) (part_name n)) (nrange 0 10001) = true.
Proof. vm_compute. reflexivity. Qed.

Lemma adjacent_lt : forall n, n < 9999 -> lex_cmp (part_name n) (part_name (n + 1)) = Lt.
Proof.
  intros n H. pose proof sweep_adjacent as S. rewrite forallb_forall in S.
  specialize (S n (in_nrange 0 9999 n ltac:(lia) ltac:(lia))).
  unfold lex_ltb in S. destruct (lex_cmp (part_name n) (part_name (n + 1))); auto; discriminate.
Qed.

(* names of numbers below 10000 are ordered like the numbers *)
Lemma name_lt_below : forall k n, n + N.of_nat (S k) < 10000 ->
  lex_cmp (part_name n) (part_name (n + N.of_nat (S k))) = Lt.
Proof.
  induction k as [|k IH]; intros n H.
  - replace (n + N.of_nat 1) with (n + 1) by lia. apply adjacent_lt. lia.
  - apply lex_lt_trans with (part_name (n + N.of_nat (S k))).
    + apply IH. lia.
    + replace (n + N.of_nat (S (S k))) with (n + N.of_nat (S k) + 1) by lia. apply adjacent_lt. lia.
Qed.

Lemma name_lt : forall n m, n < m -> m < 10000 -> lex_cmp (part_name n) (part_name m) = Lt.
Proof.
  intros n m H1 H2.
  replace m with (n + N.of_nat (S (N.to_nat (m - n - 1)))) by lia. apply name_lt_below. lia.
Qed.

(* C28 lemma: for part numbers below 10000 the listing order of the "%04d.part"
   names is the numeric order *)
Theorem name_order_below_10000 : forall n m, n < 10000 -> m < 10000 ->
  lex_cmp (part_name n) (part_name m) = N.compare n m.
Proof.
  intros n m Hn Hm. destruct (N.compare_spec n m) as [E|E|E].
  - subst. apply lex_cmp_refl.
  - apply name_lt; auto.
  - rewrite lex_cmp_antisym. rewrite (name_lt m n); auto.
Qed.

Lemma name_10000_before : forall m, 1001 <= m -> m <= 9999 -> lex_cmp (part_name 10000) (part_name m) = Lt.
Proof.
  intros m H1 H2. pose proof sweep_10000_before as S. rewrite forallb_forall in S.
  specialize (S m (in_nrange 1001 8999 m ltac:(lia) ltac:(lia))).
  unfold lex_ltb in S. destruct (lex_cmp (part_name 10000) (part_name m)); auto; discriminate.
Qed.

Lemma name_10000_after : forall m, m <= 1000 -> lex_cmp (part_name m) (part_name 10000) = Lt.
Proof.
  intros m H. pose proof sweep_10000_after as S. rewrite forallb_forall in S.
  specialize (S m (in_nrange 0 1001 m ltac:(lia) ltac:(lia))).
  unfold lex_ltb in S. destruct (lex_cmp (part_name m) (part_name 10000)); auto; discriminate.
Qed.

Lemma part_name_facts : forall n, n <= 10000 ->
  part_number_of (part_name n) = n /\ has_part_suffix (part_name n) = true /\
  lex_leb (part_name 0) (part_name n) = true.
Proof.
  intros n H. pose proof sweep_atoi as S. rewrite forallb_forall in S.
  specialize (S n (in_nrange 0 10001 n ltac:(lia) ltac:(lia))).
  apply andb_prop in S. destruct S as [S S3]. apply andb_prop in S. destruct S as [S1 S2].
  apply N.eqb_eq in S1. auto.
Qed.

(* the pair (n, m) is ordered by name as by number unless one is 10000 and the other in 1001..9999 *)
Definition bad_pair (n m : N) : bool :=
  ((n =? 10000) && in_range 1001 9999 m) || ((m =? 10000) && in_range 1001 9999 n).

Theorem name_order : forall n m, n <= 10000 -> m <= 10000 -> bad_pair n m = false ->
  lex_cmp (part_name n) (part_name m) = N.compare n m.
Proof.
  intros n m Hn Hm Hb. unfold bad_pair, in_range in Hb.
  destruct (N.eq_dec n 10000) as [En|En]; destruct (N.eq_dec m 10000) as [Em|Em].
  - subst. rewrite N.compare_refl. apply lex_cmp_refl.
  - subst n. rewrite N.eqb_refl in Hb. simpl in Hb.
    apply orb_false_elim in Hb. destruct Hb as [Hb _].
    assert (m <= 1000).
    { destruct (1001 <=? m) eqn:E1; destruct (m <=? 9999) eqn:E2; simpl in Hb; try discriminate;
        try (apply N.leb_gt in E1; lia); apply N.leb_gt in E2; lia. }
    rewrite lex_cmp_antisym. rewrite name_10000_after by assumption. cbn [CompOpp].
    symmetry. apply N.compare_gt_iff. lia.
  - subst m. rewrite N.eqb_refl in Hb. simpl in Hb.
    apply orb_false_elim in Hb. destruct Hb as [_ Hb].
    assert (n <= 1000).
    { destruct (1001 <=? n) eqn:E1; destruct (n <=? 9999) eqn:E2; simpl in Hb; try discriminate;
        try (apply N.leb_gt in E1; lia); apply N.leb_gt in E2; lia. }
    rewrite name_10000_after by assumption. symmetry. apply N.compare_lt_iff. lia.
  - apply name_order_below_10000; lia.
Qed.

(* the defect: a pair the listing orders the other way round *)
Theorem name_order_refuted : exists n m, n <= 10000 /\ m <= 10000 /\ n < m /\
  lex_cmp (part_name n) (part_name m) = Gt.
Proof.
  exists 1001, 10000. split; [lia|]. split; [lia|]. split; [lia|]. vm_compute. reflexivity.
Qed.

Lemma bad_pair_sym : forall n m, bad_pair n m = bad_pair m n.
Proof. intros. unfold bad_pair. apply orb_comm. Qed.

(* no bad pair inside a list whose [trig_order] is false *)
Lemma trig_order_pairs : forall l n m, trig_order l = false -> In n l -> In m l -> bad_pair n m = false.
Proof.
  intros l n m H Hn Hm. unfold trig_order in H. unfold bad_pair.
  apply andb_false_iff in H. destruct H as [H|H].
  - assert (F : forall x, In x l -> (x =? 10000) = false).
    { intros x Hx. destruct (x =? 10000) eqn:E; auto. exfalso.
      assert (existsb (N.eqb 10000) l = true). { apply existsb_exists. exists x. split; auto. rewrite N.eqb_sym. exact E. }
      congruence. }
    rewrite (F n Hn), (F m Hm). reflexivity.
  - assert (F : forall x, In x l -> in_range 1001 9999 x = false).
    { intros x Hx. destruct (in_range 1001 9999 x) eqn:E; auto. exfalso.
      assert (existsb (in_range 1001 9999) l = true). { apply existsb_exists. exists x. split; auto. }
      congruence. }
    rewrite (F n Hn), (F m Hm). rewrite !andb_false_r. reflexivity.
Qed.
