(* C22: every step outside the known-finding triggers preserves the invariant; safety of
   the subscriber on every schedule. *)
From Coq Require Import List ZArith NArith Bool Lia.
From SW Require Import model.LogBuf proof.LogBufProofs proof.LogBufInv proof.LogBufSteps.
Import ListNotations.
Local Open Scope Z_scope.

(* ---------- loopFlush ---------- *)
Lemma flush_write_inv : forall gh s, Inv gh s -> Inv gh (flush_write s).
Proof.
  intros gh s [HI Hcur]. unfold flush_write.
  destruct (inflight s) as [gi|] eqn:Ei; [split; assumption|].
  destruct (queue s) as [|g q] eqn:Eq; [split; assumption|].
  assert (Hg : seg_ok g) by (apply (i_q _ _ HI); rewrite Eq; left; reflexivity).
  split; [|exact Hcur].
  assert (HE : forall s', cur s' = cur s -> E_of gh s' = E_of gh s) by (intros s' H; unfold E_of; rewrite H; reflexivity).
  constructor; unfold E_of; cbn [lastTs lastFlush s0 s1 s2 disk queue inflight cur]; fold (E_of gh s).
  - apply (i_incr _ _ HI).
  - apply (i_last _ _ HI).
  - apply (i_last0 _ _ HI).
  - apply (i_len _ _ HI).
  - apply (i_ok0 _ _ HI).
  - apply (i_ok1 _ _ HI).
  - apply (i_ok2 _ _ HI).
  - apply (i_s0 _ _ HI).
  - apply (i_s1 _ _ HI).
  - apply (i_s2 _ _ HI).
  - apply (i_old _ _ HI).
  - rewrite concat_app. cbn [concat]. rewrite app_nil_r, <- (i_disk _ _ HI), Eq. cbn [map concat].
    rewrite <- !app_assoc. reflexivity.
  - intros x Hx. apply in_app_or in Hx. destruct Hx as [Hx|[<-|[]]]; [apply (i_dne _ _ HI); auto|].
    destruct Hg; auto.
  - intros x Hx. apply (i_q _ _ HI). rewrite Eq. right. exact Hx.
  - destruct (i_lf _ _ HI) as [H|[e [He1 He2]]]; [left; exact H|right].
    exists e. split; [|exact He2]. rewrite concat_app. apply in_or_app. left. exact He1.
  - intros g' Hg'. inversion Hg'; subst g'. split; [exact Hg|]. exists (disk s). reflexivity.
Qed.

Lemma inflight_facts : forall gh s g, InvCore gh s -> inflight s = Some g ->
  lastFlush s <= g_stop g /\ exists e, In e (concat (disk s)) /\ e_ts e = g_stop g.
Proof.
  intros gh s g HI Hi. pose proof zeroT_neg as Hz.
  destruct (i_infl _ _ HI g Hi) as [Hg [d' Hd]].
  pose proof (i_incr _ _ HI) as Hinc. rewrite <- (i_disk _ _ HI) in Hinc.
  assert (Hdk : incr 0 (concat (disk s))) by (apply incr_app in Hinc; tauto).
  assert (Hcd : concat (disk s) = concat d' ++ g_data g).
  { rewrite Hd, concat_app. cbn [concat]. rewrite app_nil_r. reflexivity. }
  destruct Hg as [Hne [_ Hstop]].
  destruct (last_ts_in (g_data g) 0 Hne) as [el [Hel1 Hel2]].
  assert (Hin : In el (concat (disk s))) by (rewrite Hcd; apply in_or_app; right; exact Hel1).
  split; [|exists el; split; [exact Hin|congruence]].
  destruct (i_lf _ _ HI) as [H|[e [He1 He2]]].
  - pose proof (incr_lb _ _ _ Hdk Hin). lia.
  - pose proof (incr_le_last _ _ _ Hdk He1) as Hle. rewrite Hcd, last_ts_app in Hle.
    rewrite (last_ts_default (g_data g) _ 0 Hne) in Hle. lia.
Qed.

Lemma flush_mark_inv : forall gh s, Inv gh s -> Inv gh (flush_mark s).
Proof.
  intros gh s [HI Hcur]. unfold flush_mark.
  destruct (inflight s) as [g|] eqn:Ei; [|split; assumption].
  destruct (inflight_facts gh s g HI Ei) as [Hle Hex].
  split; [|exact Hcur].
  assert (HE : forall s', cur s' = cur s -> E_of gh s' = E_of gh s) by (intros s' H; unfold E_of; rewrite H; reflexivity).
  constructor; unfold E_of; cbn [lastTs lastFlush s0 s1 s2 disk queue inflight cur]; fold (E_of gh s).
  - apply (i_incr _ _ HI).
  - apply (i_last _ _ HI).
  - apply (i_last0 _ _ HI).
  - apply (i_len _ _ HI).
  - apply (i_ok0 _ _ HI).
  - apply (i_ok1 _ _ HI).
  - apply (i_ok2 _ _ HI).
  - apply (slot_is_mono _ _ _ _ Hle (i_s0 _ _ HI)).
  - apply (slot_is_mono _ _ _ _ Hle (i_s1 _ _ HI)).
  - apply (slot_is_mono _ _ _ _ Hle (i_s2 _ _ HI)).
  - intros e He. pose proof (i_old _ _ HI e He). lia.
  - apply (i_disk _ _ HI).
  - apply (i_dne _ _ HI).
  - apply (i_q _ _ HI).
  - right. exact Hex.
  - intros g' Hg'. discriminate Hg'.
Qed.

(* ---------- AddToBuffer ---------- *)
Lemma add_inv : forall iv gh s ev len id,
  Inv gh s -> add_trig iv true s ev len = None -> 0 < len ->
  exists gh', Inv gh' (add iv true s ev len id) /\
              E_of gh' (add iv true s ev len id) = E_of gh s ++ [new_entry s ev len id].
Proof.
  intros iv gh s ev len id [HI Hcur] Htr Hlen.
  set (ts := adjust_ts (lastTs s) ev).
  assert (Hpre : exists gh', InvCore gh' (add_pre iv true s ev len) /\
                   E_of gh' (add_pre iv true s ev len) = E_of gh s /\
                   match cur (add_pre iv true s ev len) with
                   | [] => startT (add_pre iv true s ev len) = ts
                   | x :: _ => startT (add_pre iv true s ev len) = e_ts x
                   end).
  { unfold add_trig in Htr. unfold add_pre. fold ts in Htr. fold ts.
    destruct (pos s =? 0) eqn:Ep.
    - (* empty current buffer *)
      assert (Hc : cur s = []) by (apply pos_zero_iff; exact Ep).
      assert (Hseal : seal true (set_start s ts) = set_start s ts).
      { unfold seal. replace (pos (set_start s ts)) with (pos s) by reflexivity. rewrite Ep. reflexivity. }
      exists gh. rewrite Hseal.
      destruct (rotates iv (set_start s ts) ts (Z.max 0 len + 4)).
      + destruct (cap (set_start (set_start s ts) ts) <? Z.max 0 len + 4);
          (split; [eapply InvCore_ext; [..|exact HI]; reflexivity|]);
          (split; [unfold E_of; reflexivity|]); cbn [realloc set_start cur startT]; rewrite Hc; reflexivity.
      + split; [eapply InvCore_ext; [..|exact HI]; reflexivity|].
        split; [unfold E_of; reflexivity|]. cbn [set_start cur startT]. rewrite Hc. reflexivity.
    - destruct (rotates iv s ts (Z.max 0 len + 4)) eqn:Er.
      + try rewrite Ep in Htr. try rewrite Er in Htr. cbn [andb] in Htr. destruct (trig_seal s) eqn:Ets; [discriminate|].
        destruct (seal_inv gh s (conj HI Hcur) Ets) as [gh' [[HI' _] HE']].
        assert (Hc' : cur (seal true s) = []) by (unfold seal; rewrite Ep; reflexivity).
        exists gh'.
        destruct (cap (set_start (seal true s) ts) <? Z.max 0 len + 4);
          (split; [eapply InvCore_ext; [..|exact HI']; reflexivity|]);
          (split; [unfold E_of in *; exact HE'|]); cbn [realloc set_start cur startT]; rewrite Hc'; reflexivity.
      + exists gh. split; [exact HI|]. split; [reflexivity|].
        unfold cur_times in Hcur. destruct (cur s) as [|x l] eqn:Hc.
        * exfalso. assert (Hz : (pos s =? 0) = true) by (apply pos_zero_iff; exact Hc). congruence.
        * tauto. }
  destruct Hpre as [gh' [HI' [HE' Hst]]].
  exists gh'. unfold add. fold ts.
  destruct (write_inv gh' (add_pre iv true s ev len) {| e_ts := ts; e_len := len; e_id := id |} HI') as [Hinv HE''].
  - cbn [e_ts]. rewrite add_pre_lastTs. apply adjust_gt.
  - exact Hlen.
  - cbn [e_ts]. exact Hst.
  - split; [exact Hinv|]. rewrite HE'', HE'. reflexivity.
Qed.

(* ---------- the subscriber ---------- *)
Definition in_range (t0 hi : Z) (e : entry) : bool := (t0 <? e_ts e) && (e_ts e <=? hi).

(* what the subscriber has been handed so far is exactly the appended events with
   t0 < ts <= lastRead, in append order *)
Definition SubInv (t0 : Z) (E : list entry) (lts : Z) (u : sub) : Prop :=
  t0 <= lastRead u /\ got u = filter (in_range t0 (lastRead u)) E /\
  (lastRead u = t0 \/ lastRead u <= lts).

Lemma filter_all_true : forall (f : entry -> bool) l, (forall e, In e l -> f e = true) -> filter f l = l.
Proof.
  induction l as [|x l IH]; intros H; [reflexivity|]. cbn [filter].
  rewrite (H x (or_introl eq_refl)). f_equal. apply IH. intros; apply H; right; auto.
Qed.
Lemma filter_all_false : forall (f : entry -> bool) l, (forall e, In e l -> f e = false) -> filter f l = [].
Proof.
  induction l as [|x l IH]; intros H; [reflexivity|]. cbn [filter].
  rewrite (H x (or_introl eq_refl)). apply IH. intros; apply H; right; auto.
Qed.

Lemma range_extend : forall E lo t0 t X, incr lo E -> splits E t X -> t0 <= t ->
  filter (in_range t0 (last_ts X t)) E = filter (in_range t0 t) E ++ X.
Proof.
  intros E lo t0 t X Hinc [E1 [E3 [HE [H1 HX]]]] Ht0. subst E.
  assert (HincX : exists lx, incr lx X).
  { apply incr_app in Hinc. destruct Hinc as [_ H]. apply incr_app in H. destruct H as [H _]. eauto. }
  destruct HincX as [lx HincX].
  rewrite !filter_app.
  assert (Hge : t <= last_ts X t).
  { destruct X as [|x X']; [rewrite last_ts_nil; lia|].
    destruct (last_ts_in (x :: X') t ltac:(congruence)) as [el [Hel1 Hel2]].
    specialize (HX _ Hel1). lia. }
  assert (F1 : filter (in_range t0 (last_ts X t)) E1 = filter (in_range t0 t) E1).
  { apply filter_ext_in. intros e He. specialize (H1 _ He). unfold in_range.
    destruct (t0 <? e_ts e); [|reflexivity]. cbn [andb].
    destruct (e_ts e <=? last_ts X t) eqn:A, (e_ts e <=? t) eqn:B; try reflexivity; lia. }
  assert (F2 : filter (in_range t0 t) X = []).
  { apply filter_all_false. intros e He. specialize (HX _ He). unfold in_range.
    destruct (e_ts e <=? t) eqn:B; [lia|]. apply andb_false_r. }
  assert (F3 : filter (in_range t0 (last_ts X t)) X = X).
  { apply filter_all_true. intros e He. pose proof (HX _ He).
    pose proof (incr_le_last _ _ _ HincX He) as Hle.
    rewrite (last_ts_default X lx t) in Hle by (intro Hn; subst X; destruct He).
    unfold in_range. apply andb_true_iff. split; lia. }
  rewrite F1, F2, F3. cbn [app].
  destruct X as [|x X'].
  - rewrite last_ts_nil. cbn [app]. rewrite app_nil_r. reflexivity.
  - destruct (last_ts_in (x :: X') t ltac:(congruence)) as [el [Hel1 Hel2]].
    assert (F4 : forall hi, hi <= last_ts (x :: X') t -> filter (in_range t0 hi) E3 = []).
    { intros hi Hhi. apply filter_all_false. intros e He.
      rewrite app_assoc in Hinc.
      assert (Hlt : e_ts el < e_ts e).
      { apply (incr_app_lt _ _ _ el e Hinc); [apply in_or_app; right; exact Hel1|exact He]. }
      unfold in_range. destruct (e_ts e <=? hi) eqn:B; [lia|]. apply andb_false_r. }
    rewrite (F4 _ (Z.le_refl _)), (F4 t Hge). rewrite !app_nil_r. reflexivity.
Qed.
