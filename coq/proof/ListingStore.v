(* C19 proofs, part 2: sorted directories, candidates, the store scans
   (leveldb rule, generic prefixFilterEntries path). *)
From Coq Require Import List NArith Bool String Ascii Arith Lia.
From SW Require Import model.Listing proof.ListingBase.
Import ListNotations.
Local Open Scope string_scope.
Local Open Scope list_scope.
Local Notation length := List.length.

(* ================= well-formed directories ================= *)
Inductive sorted : dirst -> Prop :=
| sorted_nil : sorted []
| sorted_cons : forall e l, (forall x, In x l -> slt (ename e) (ename x)) -> sorted l -> sorted (e :: l).

(* children in strict byte order of their names (so names are unique), no empty name *)
Definition wf (d : dirst) : Prop := sorted d /\ forall e, In e d -> ename e <> "".

Lemma sorted_filter : forall f d, sorted d -> sorted (filter f d).
Proof.
  intros f d H. induction H as [|e l Hlt Hs IH]; simpl; [constructor|].
  destruct (f e); auto. constructor; auto.
  intros x Hx. apply filter_In in Hx. apply Hlt. tauto.
Qed.

Lemma wf_filter : forall f d, wf d -> wf (filter f d).
Proof.
  intros f d [Hs Hn]. split; [apply sorted_filter; auto|].
  intros e He. apply filter_In in He. apply Hn. tauto.
Qed.

Lemma sorted_app : forall l1 l2, sorted (l1 ++ l2) ->
  sorted l1 /\ sorted l2 /\ forall x y, In x l1 -> In y l2 -> slt (ename x) (ename y).
Proof.
  induction l1 as [|e l1 IH]; intros l2 H; simpl in *.
  - repeat split; auto. constructor. intros x y [].
  - inversion H as [|? ? Hlt Hs]; subst. destruct (IH l2 Hs) as [H1 [H2 H3]].
    repeat split; auto.
    + constructor; auto. intros x Hx. apply Hlt. apply in_or_app. auto.
    + intros x y [Hx|Hx] Hy; [subst; apply Hlt; apply in_or_app; auto|auto].
Qed.

Lemma sorted_firstn : forall n d, sorted d -> sorted (firstn n d).
Proof. intros n d H. rewrite <- (firstn_skipn n d) in H. apply sorted_app in H. tauto. Qed.

Lemma sorted_skipn : forall n d, sorted d -> sorted (skipn n d).
Proof. intros n d H. rewrite <- (firstn_skipn n d) in H. apply sorted_app in H. tauto. Qed.

Lemma sorted_unique : forall d e1 e2, sorted d -> In e1 d -> In e2 d -> ename e1 = ename e2 -> e1 = e2.
Proof.
  intros d e1 e2 H. induction H as [|e l Hlt Hs IH]; intros H1 H2 Hn; [destruct H1|].
  destruct H1 as [H1|H1], H2 as [H2|H2]; subst; auto.
  - exfalso. specialize (Hlt _ H2). rewrite Hn in Hlt. eapply slt_irrefl; eauto.
  - exfalso. specialize (Hlt _ H1). rewrite Hn in Hlt. eapply slt_irrefl; eauto.
Qed.

Lemma wfb_wf : forall d, wfb d = true -> wf d.
Proof.
  intros d H. unfold wfb in H. apply andb_true_iff in H. destruct H as [Hs Hn]. split.
  - clear Hn. induction d as [|e d IH]; [constructor|].
    simpl in Hs. apply andb_true_iff in Hs. destruct Hs as [H1 H2].
    specialize (IH H2). constructor; auto.
    intros x Hx. destruct d as [|e' d]; [destruct Hx|].
    simpl in H1. apply ltb_slt in H1.
    destruct Hx as [Hx|Hx]; [subst; auto|].
    inversion IH as [|? ? Hlt Hs']; subst. eapply slt_trans; eauto.
  - intros e He. rewrite forallb_forall in Hn. specialize (Hn e He).
    intro Hc. unfold ename in *. rewrite Hc in Hn. discriminate.
Qed.

(* ---- last_name ---- *)
Lemma last_name_app1 : forall l e, last_name (l ++ [e]) = ename e.
Proof.
  induction l as [|x l IH]; intros e; simpl; auto.
  rewrite IH. destruct (l ++ [e]) eqn:E; auto. destruct l; discriminate.
Qed.

Lemma last_name_nil : forall l, (forall e, In e l -> ename e <> "") -> last_name l = "" -> l = [].
Proof.
  intros l Hn H. destruct l as [|x l] using rev_ind; auto.
  rewrite last_name_app1 in H. exfalso. apply (Hn x); auto. apply in_or_app. right. left. auto.
Qed.

Lemma last_name_in : forall l, l <> [] -> exists l' e, l = l' ++ [e] /\ last_name l = ename e.
Proof.
  intros l H. destruct (exists_last H) as [l' [e He]]. exists l', e. split; auto.
  subst. apply last_name_app1.
Qed.

Lemma sorted_le_last : forall l x, sorted l -> In x l -> sle (ename x) (last_name l).
Proof.
  intros l x Hs Hx. assert (Hne : l <> []) by (intro; subst; destruct Hx).
  destruct (last_name_in l Hne) as [l' [e [El En]]]. rewrite En. subst l.
  apply in_app_or in Hx. destruct Hx as [Hx|[Hx|[]]]; [|subst; apply sle_refl].
  left. apply sorted_app in Hs. destruct Hs as [_ [_ H]]. apply H; auto. left. auto.
Qed.

(* ================= candidates of a request ================= *)
Definition sel (start : string) (incl : bool) (p : string) (e : entry) : bool :=
  after start incl (ename e) && String.prefix p (ename e).
Definition cand (start : string) (incl : bool) (p : string) (d : dirst) : dirst :=
  filter (sel start incl p) d.

Lemma after_true : forall start incl n, after start incl n = true <-> (if incl then sle start n else slt start n).
Proof. intros. unfold after. destruct incl; [apply leb_sle|apply ltb_slt]. Qed.

Lemma after_sle : forall start incl n, after start incl n = true -> sle start n.
Proof. intros start incl n H. apply after_true in H. destruct incl; auto. left. auto. Qed.

Lemma after_above : forall start incl x n, sle start x -> slt x n -> after start incl n = true.
Proof.
  intros. apply after_true. pose proof (sle_slt_trans _ _ _ H H0). destruct incl; auto. left. auto.
Qed.

(* Following the last name of a non-empty initial segment of the selection
   (exclusive) selects exactly the rest. *)
Lemma sel_cont : forall (g : entry -> bool) d start incl l1 l2,
  sorted d ->
  filter (fun e => after start incl (ename e) && g e) d = l1 ++ l2 -> l1 <> [] ->
  filter (fun e => after (last_name l1) false (ename e) && g e) d = l2.
Proof.
  intros g d start incl l1 l2 Hs E Hne.
  assert (HS : sorted (l1 ++ l2)) by (rewrite <- E; apply sorted_filter; auto).
  destruct (sorted_app _ _ HS) as [Hs1 [Hs2 H12]].
  destruct (last_name_in l1 Hne) as [l1' [e1 [El En]]].
  assert (Hin1 : In e1 (l1 ++ l2)) by (subst l1; apply in_or_app; left; apply in_or_app; right; left; auto).
  assert (Hsel1 : after start incl (ename e1) = true).
  { rewrite <- E in Hin1. apply filter_In in Hin1. destruct Hin1 as [_ H]. apply andb_true_iff in H. tauto. }
  transitivity (filter (fun e => String.ltb (last_name l1) (ename e)) (l1 ++ l2)).
  - rewrite <- E. rewrite filter_filter. apply filter_ext_in_eq. intros e _.
    change (after (last_name l1) false (ename e)) with (String.ltb (last_name l1) (ename e)).
    destruct (String.ltb (last_name l1) (ename e)) eqn:El1.
    + rewrite (after_above start incl (ename e1) (ename e)); [destruct (g e); reflexivity| |].
      * eapply after_sle; eauto.
      * rewrite <- En. apply ltb_slt. auto.
    + rewrite andb_false_r. reflexivity.
  - rewrite filter_app. rewrite (filter_none _ l1), (filter_all _ l2); auto.
    + intros x Hx. apply ltb_slt. rewrite En. apply H12; auto. subst l1. apply in_or_app. right. left. auto.
    + intros x Hx. apply ltb_false. apply sorted_le_last; auto.
Qed.

Lemma cand_cont : forall d start incl p L,
  sorted d -> firstn L (cand start incl p d) <> [] ->
  cand (last_name (firstn L (cand start incl p d))) false p d = skipn L (cand start incl p d).
Proof.
  intros d start incl p L Hs Hne. unfold cand, sel.
  apply (sel_cont (fun e => String.prefix p (ename e)) d start incl); auto.
  symmetry. apply firstn_skipn.
Qed.

(* ================= deleting expired entries ================= *)
Lemma del_expired_nil : forall d, del_expired [] d = d.
Proof. intros. unfold del_expired. apply filter_all. intros. reflexivity. Qed.

Lemma del_expired_app : forall v1 v2 d, del_expired v2 (del_expired v1 d) = del_expired (v1 ++ v2) d.
Proof.
  intros. unfold del_expired. rewrite filter_filter. apply filter_ext_in_eq. intros e _.
  rewrite existsb_app, negb_orb. reflexivity.
Qed.

Lemma wf_del_expired : forall v d, wf d -> wf (del_expired v d).
Proof. intros. apply wf_filter. auto. Qed.

Lemma del_expired_in : forall v d e, In e (del_expired v d) -> In e d.
Proof. intros v d e H. apply filter_In in H. tauto. Qed.

(* entries whose names are above every deleted name are untouched *)
Lemma filter_del_expired_above : forall (f : entry -> bool) v d x,
  (forall e, In e v -> sle (ename e) x) ->
  (forall e, f e = true -> slt x (ename e)) ->
  filter f (del_expired v d) = filter f d.
Proof.
  intros f v d x Hv Hf. unfold del_expired. rewrite filter_filter. apply filter_ext_in_eq. intros e _.
  destruct (f e) eqn:Ef; [|apply andb_false_r]. rewrite andb_true_r.
  apply negb_true_iff. apply not_true_iff_false. intro Hex.
  apply existsb_exists in Hex. destruct Hex as [u [Hu Hue]].
  apply andb_true_iff in Hue. destruct Hue as [_ Hue]. apply String.eqb_eq in Hue.
  specialize (Hv u Hu). specialize (Hf e Ef). rewrite Hue in Hv.
  eapply slt_irrefl. eapply sle_slt_trans; eauto.
Qed.

(* only expired children are ever deleted *)
Lemma del_expired_live : forall v d, wf d -> (forall e, In e v -> In e d) ->
  filter elive (del_expired v d) = filter elive d.
Proof.
  intros v d [Hs _] Hv. unfold del_expired. rewrite filter_filter. apply filter_ext_in_eq. intros e He.
  destruct (elive e) eqn:El; [|apply andb_false_r]. rewrite andb_true_r.
  apply negb_true_iff. apply not_true_iff_false. intro Hex.
  apply existsb_exists in Hex. destruct Hex as [u [Hu Hue]].
  apply andb_true_iff in Hue. destruct Hue as [Hx Hue]. apply String.eqb_eq in Hue.
  assert (u = e) by (eapply sorted_unique; eauto). subst u.
  unfold elive, eexp in *. rewrite Hx in El. discriminate.
Qed.

Lemma del_expired_subset_live : forall v d e, In e d -> elive e = true -> wf d -> (forall u, In u v -> In u d) ->
  In e (del_expired v d).
Proof.
  intros v d e He El Hwf Hv.
  assert (H : In e (filter elive (del_expired v d))).
  { rewrite del_expired_live; auto. apply filter_In. auto. }
  apply filter_In in H. tauto.
Qed.

(* ================= leveldb rule ================= *)
Lemma seek_spec : forall k d, sorted d ->
  sorted (seek k d) /\
  (forall e, In e (seek k d) -> sle k (ename e)) /\
  (forall e, In e (seek k d) -> In e d) /\
  (forall f : entry -> bool, (forall e, In e d -> slt (ename e) k -> f e = false) -> filter f d = filter f (seek k d)).
Proof.
  intros k d H. induction H as [|e l Hlt Hs IH]; simpl.
  - split; [constructor|]. split; [intros x []|]. split; [intros x []|]. auto.
  - destruct (String.ltb (ename e) k) eqn:E.
    + destruct IH as [I1 [I2 [I3 I4]]].
      split; [auto|]. split; [auto|]. split; [intros x Hx; right; auto|].
      intros f Hf. rewrite (Hf e); [|left; auto|apply ltb_slt; auto].
      apply I4. intros. apply Hf; auto.
    + apply ltb_false in E.
      split; [constructor; auto|]. split; [|split; auto].
      intros x [Hx|Hx]; [subst; auto|]. eapply sle_trans; eauto. left. auto.
Qed.

Lemma lvl_iter_spec : forall p start incl l L,
  sorted l -> (forall e, In e l -> ename e <> "") ->
  (forall e, In e l -> sle p (ename e)) -> (forall e, In e l -> sle start (ename e)) ->
  lvl_iter l start incl L p = firstn L (filter (sel start incl p) l).
Proof.
  intros p start incl l. induction l as [|e l IH]; intros L Hs Hn Hp Hst; [rewrite firstn_nil; reflexivity|].
  inversion Hs as [|? ? Hlt Hs']; subst.
  assert (IH' : forall L, lvl_iter l start incl L p = firstn L (filter (sel start incl p) l)).
  { intros. apply IH; auto; intros; [apply Hn|apply Hp|apply Hst]; right; auto. }
  cbn [lvl_iter filter]. unfold sel at 1.
  destruct (String.prefix p (ename e)) eqn:Ep; cbn [negb].
  - destruct (String.eqb_spec (ename e) "") as [E0|E0]; [exfalso; apply (Hn e); [left; auto|auto]|].
    destruct (String.eqb_spec (ename e) start) as [Es|Es]; cbn [andb].
    + destruct incl; cbn [negb].
      * (* inclusive: selected *)
        unfold after. rewrite Es. assert (Hl : String.leb start start = true) by (apply leb_sle; apply sle_refl).
        rewrite Hl. cbn [andb]. destruct L as [|L]; [reflexivity|]. cbn [firstn]. f_equal. apply IH'.
      * unfold after. rewrite Es. assert (Hl : String.ltb start start = false) by (apply ltb_false; apply sle_refl).
        rewrite Hl. cbn [andb]. apply IH'.
    + assert (Ha : after start incl (ename e) = true).
      { apply after_true. specialize (Hst e (or_introl eq_refl)).
        destruct incl; auto. destruct Hst as [H|H]; [auto|congruence]. }
      rewrite Ha. cbn [andb]. destruct L as [|L]; [reflexivity|]. cbn [firstn]. f_equal. apply IH'.
  - rewrite andb_false_r.
    rewrite filter_none; [rewrite firstn_nil; reflexivity|].
    intros x Hx. unfold sel. rewrite (prefix_past p (ename e) (ename x)); [apply andb_false_r| |auto|].
    + apply Hp. left. auto.
    + left. apply Hlt. auto.
Qed.

Lemma lvl_iter_prefix : forall p start incl l L e, In e (lvl_iter l start incl L p) -> String.prefix p (ename e) = true.
Proof.
  intros p start incl l. induction l as [|x l IH]; intros L e H; [destruct H|].
  cbn [lvl_iter] in H. destruct (String.prefix p (ename x)) eqn:Ep; cbn [negb] in H; [|destruct H].
  destruct (String.eqb (ename x) ""); [eapply IH; eauto|].
  destruct (String.eqb (ename x) start && negb incl); [eapply IH; eauto|].
  destruct L as [|L]; [destruct H|]. destruct H as [H|H]; [subst; auto|eapply IH; eauto].
Qed.

Lemma lvl_iter_in : forall p start incl l L e, In e (lvl_iter l start incl L p) -> In e l.
Proof.
  intros p start incl l. induction l as [|x l IH]; intros L e H; [destruct H|].
  cbn [lvl_iter] in H. destruct (negb (String.prefix p (ename x))); [destruct H|].
  destruct (String.eqb (ename x) ""); [right; eapply IH; eauto|].
  destruct (String.eqb (ename x) start && negb incl); [right; eapply IH; eauto|].
  destruct L as [|L]; [destruct H|]. destruct H as [H|H]; [left; auto|right; eapply IH; eauto].
Qed.

