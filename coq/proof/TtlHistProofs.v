(* Proofs about model/TtlHist.v (C09): over histories of uploads of one key, the
   lifetime counts from the LAST acknowledged upload. *)
From Coq Require Import List NArith ZArith Bool String Lia.
From Coq Require Import ZifyBool ZifyN.
From SW Require Import model.Ttl model.TtlHist proof.TtlProofs.
Import ListNotations.
Local Open Scope N_scope.

Arguments N.mul : simpl never.
Arguments N.add : simpl never.
Arguments read_ttl : simpl never.
Arguments ttl_string : simpl never.
Arguments write_needle : simpl never.
Arguments create_needle : simpl never.
Arguments read_visible : simpl never.
Arguments volume_expired : simpl never.

Lemma hrun_cons : forall vttl st o r,
  fst (hrun vttl st (o :: r)) = fst (hrun vttl (fst (hstep vttl st o)) r).
Proof.
  intros vttl st o r. simpl. destruct (hstep vttl st o) as [st1 res]. simpl.
  destruct (hrun vttl st1 r) as [st2 out]. reflexivity.
Qed.

(* in a TTL volume no upload is ever deduplicated *)
Lemma ttl_volume_unchanged_false : forall vttl st cookie data,
  ttl_volume vttl = true -> is_file_unchanged vttl st cookie data = false.
Proof.
  intros vttl st cookie data H. unfold is_file_unchanged. unfold ttl_volume in H. rewrite H. reflexivity.
Qed.

Lemma ttl_volume_no_dedup : forall vttl l st, ttl_volume vttl = true -> dedup_trigger vttl st l = false.
Proof.
  intros vttl l. induction l as [|o r IH]; intros st H; simpl; [reflexivity|].
  rewrite IH by exact H. rewrite orb_false_r.
  destruct o; simpl; try reflexivity. apply ttl_volume_unchanged_false; exact H.
Qed.

(* one step: without deduplication the live record is the promised one *)
Lemma hwant_step_rec : forall vttl st o, dedup_step vttl st o = false ->
  hwant_step vttl st (h_rec st) o = h_rec (fst (hstep vttl st o)).
Proof.
  intros vttl st o Hd. destruct o as [req ts cookie data parse_s append_ns|a s|now|now_s size limit];
    unfold hwant_step; simpl in *.
  - rewrite Hd. destruct (h_rec st) as [r|] eqn:Hr; simpl.
    + destruct (negb (hr_cookie r =? cookie)); simpl; [exact (eq_sym Hr)|reflexivity].
    + reflexivity.
  - reflexivity.
  - reflexivity.
  - reflexivity.
Qed.

Lemma hist_want_partial : forall vttl l st, dedup_trigger vttl st l = false ->
  hwant vttl st (h_rec st) l = h_rec (fst (hrun vttl st l)).
Proof.
  intros vttl l. induction l as [|o r IH]; intros st H; [reflexivity|].
  simpl in H. apply orb_false_iff in H. destruct H as [H1 H2].
  rewrite hrun_cons. cbn [hwant]. rewrite (hwant_step_rec vttl st o H1). apply IH; exact H2.
Qed.

(* the window over histories: a read after any history returns what the last
   acknowledged upload promised *)
Lemma hist_window_partial : forall vttl l st now, dedup_trigger vttl st l = false ->
  hread now (fst (hrun vttl st l)) = hpromise now (hwant vttl st (h_rec st) l).
Proof. intros vttl l st now H. unfold hread. rewrite (hist_want_partial vttl l st H). reflexivity. Qed.

Lemma hist_window_ttl_volume : forall vttl l st now, ttl_volume vttl = true ->
  hread now (fst (hrun vttl st l)) = hpromise now (hwant vttl st (h_rec st) l).
Proof. intros vttl l st now H. apply hist_window_partial. apply ttl_volume_no_dedup; exact H. Qed.

(* refutation for volumes without TTL: a blob uploaded with ttl=1m, uploaded again with
   the same bytes two minutes later (acknowledged, unchanged): not readable 30 s later *)
Definition refute_hist : list hop :=
  [HUpload "1m" 0 7 1 0 0; HUpload "1m" 0 7 1 120 120000000000].
Lemma hist_window_refuted :
  exists vttl l st now, hread now (fst (hrun vttl st l)) <> hpromise now (hwant vttl st (h_rec st) l).
Proof.
  exists EmptyString, refute_hist, {| h_rec := None; h_stamp := 0 |}, 150000000000.
  vm_compute. discriminate.
Qed.
Lemma hist_window_refuted_in_trigger :
  dedup_trigger EmptyString {| h_rec := None; h_stamp := 0 |} refute_hist = true.
Proof. vm_compute. reflexivity. Qed.

(* ---- the explicit form: history, then an acknowledged upload, then only queries ---- *)
Definition hquery (o : hop) : bool :=
  match o with HRead _ | HExpired _ _ _ => true | _ => false end.

Lemma hquery_keeps : forall vttl st o, hquery o = true -> fst (hstep vttl st o) = st.
Proof. intros vttl st o H. destruct o; simpl in *; try discriminate; reflexivity. Qed.

Lemma hrun_queries : forall vttl l st, forallb hquery l = true -> fst (hrun vttl st l) = st.
Proof.
  intros vttl l. induction l as [|o r IH]; intros st H; [reflexivity|].
  simpl in H. apply andb_true_iff in H. destruct H as [H1 H2].
  rewrite hrun_cons, (hquery_keeps vttl st o H1). apply IH; exact H2.
Qed.

Lemma hrun_app : forall vttl a b st, fst (hrun vttl st (a ++ b)) = fst (hrun vttl (fst (hrun vttl st a)) b).
Proof.
  intros vttl a. induction a as [|o r IH]; intros b st; [reflexivity|].
  rewrite <- app_comm_cons, !hrun_cons. apply IH.
Qed.

(* an upload into a TTL volume is either refused (cookie mismatch, nothing changes) or
   acknowledged with a NEW record carrying this upload's append clock, and the volume's
   stamp is raised to this upload's LastModified *)
Lemma ttl_volume_upload : forall vttl st req ts cookie data parse_s append_ns,
  ttl_volume vttl = true ->
  let o := HUpload req ts cookie data parse_s append_ns in
  (hstep vttl st o = (st, HRefused)) \/
  (snd (hstep vttl st o) = HAck false /\
   h_rec (fst (hstep vttl st o)) = Some (hstored vttl req ts cookie data parse_s append_ns) /\
   h_stamp (fst (hstep vttl st o)) = vol_stamp_after_write (h_stamp st) (last_modified (create_needle req ts parse_s))).
Proof.
  intros vttl st req ts cookie data parse_s append_ns H o. unfold o. simpl.
  rewrite (ttl_volume_unchanged_false vttl st cookie data H).
  destruct (h_rec st) as [r|].
  - destruct (negb (hr_cookie r =? cookie)); [left; reflexivity|right; simpl; auto].
  - right; simpl; auto.
Qed.

(* THE WINDOW COUNTS FROM THE LAST ACKNOWLEDGED UPLOAD: after any history [pre], an
   acknowledged upload into a TTL volume whose record has a TTL of m > 0 minutes, and
   any number of reads and expiry questions [post]: a read returns this upload's
   content exactly while now < this upload's append clock + m minutes, whatever was
   uploaded (same bytes, other bytes, other TTL) before *)
Lemma hist_last_upload_window : forall vttl pre post st req ts cookie data parse_s append_ns u now,
  ttl_volume vttl = true -> forallb hquery post = true ->
  let o := HUpload req ts cookie data parse_s append_ns in
  let n := write_needle vttl (create_needle req ts parse_s) append_ns in
  snd (hstep vttl (fst (hrun vttl st pre)) o) = HAck u ->
  expiring n = true ->
  (hread now (fst (hrun vttl st (pre ++ o :: post))) = Some data <->
   now < append_ns + minutes (n_ttl n) * 60000000000) /\
  (hread now (fst (hrun vttl st (pre ++ o :: post))) = None <->
   append_ns + minutes (n_ttl n) * 60000000000 <= now).
Proof.
  intros vttl pre post st req ts cookie data parse_s append_ns u now Hv Hq o n Hack He.
  rewrite hrun_app, hrun_cons, (hrun_queries vttl post _ Hq).
  destruct (ttl_volume_upload vttl (fst (hrun vttl st pre)) req ts cookie data parse_s append_ns Hv)
    as [Hr|[_ [Hrec _]]].
  - fold o in Hr. rewrite Hr in Hack. simpl in Hack. discriminate.
  - fold o in Hrec. unfold hread. rewrite Hrec. unfold hpromise, hstored. cbn [hr_needle hr_data]. fold n.
    pose proof (read_window now n He) as Hw. unfold read_deadline, MIN_NS in Hw.
    assert (Ha : append_at_ns n = append_ns) by reflexivity. rewrite Ha in Hw.
    destruct (read_visible now n) eqn:Hrv.
    + split; split; intro X; try discriminate; try reflexivity.
      * apply Hw; reflexivity.
      * exfalso. assert (now < append_ns + minutes (n_ttl n) * 60000000000) by (apply Hw; reflexivity). lia.
    + split; split; intro X; try discriminate; try reflexivity.
      * exfalso. apply Hw in X. discriminate.
      * destruct (N.lt_ge_cases now (append_ns + minutes (n_ttl n) * 60000000000)) as [L|G]; [|exact G].
        apply Hw in L. discriminate.
Qed.

(* ... and the volume is not called expired before the volume's TTL (+1 minute) has
   passed since that upload's LastModified *)
Lemma hist_last_upload_volume_alive : forall vttl pre post st req ts cookie data parse_s append_ns u now_s size limit,
  ttl_volume vttl = true -> forallb hquery post = true ->
  let o := HUpload req ts cookie data parse_s append_ns in
  snd (hstep vttl (fst (hrun vttl st pre)) o) = HAck u ->
  volume_expired now_s (hvolume vttl (fst (hrun vttl st (pre ++ o :: post))) size limit) = true ->
  last_modified (create_needle req ts parse_s) + (minutes (read_ttl vttl) + 1) * 60 <= now_s.
Proof.
  intros vttl pre post st req ts cookie data parse_s append_ns u now_s size limit Hv Hq o Hack He.
  rewrite hrun_app, hrun_cons, (hrun_queries vttl post _ Hq) in He.
  destruct (ttl_volume_upload vttl (fst (hrun vttl st pre)) req ts cookie data parse_s append_ns Hv)
    as [Hr|[_ [_ Hst]]].
  - fold o in Hr. rewrite Hr in Hack. simpl in Hack. discriminate.
  - fold o in Hst. rewrite volume_expired_spec in He. apply andb_true_iff in He. destruct He as [_ He].
    unfold hvolume in He. cbn [v_last_mod v_ttl] in He. rewrite Hst in He.
    unfold vol_stamp_after_write in He.
    destruct (h_stamp (fst (hrun vttl st pre)) <? last_modified (create_needle req ts parse_s)) eqn:Hlt; lia.
Qed.

(* non-vacuity: upload, age by two hours, upload the same bytes again, read *)
Definition example_hist : list hop :=
  [HUpload "" 0 7 1 1000 1000000000000; HAge 1000000000000 1000; HRead 8300000000000].
Lemma hist_example :
  ttl_volume "1h" = true /\
  snd (hstep "1h" (fst (hrun "1h" {| h_rec := None; h_stamp := 0 |} example_hist))
         (HUpload "" 0 7 1 8200 8200000000000)) = HAck false /\
  expiring (write_needle "1h" (create_needle "" 0 8200) 8200000000000) = true /\
  hread 8300000000000 (fst (hrun "1h" {| h_rec := None; h_stamp := 0 |} example_hist)) = None /\
  hread 8300000000000 (fst (hrun "1h" {| h_rec := None; h_stamp := 0 |}
                              (example_hist ++ [HUpload "" 0 7 1 8200 8200000000000]))) = Some 1.
Proof. vm_compute. repeat split; reflexivity. Qed.
