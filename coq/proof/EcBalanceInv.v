(* Invariants of the ec.balance model (C16): conservation of shard copies. *)
From Coq Require Import List NArith ZArith Bool Lia Arith.
From SW Require Import model.EcBalance proof.EcBalanceBase.
Import ListNotations.
Local Open Scope N_scope.

(* ---------- well-formed books: distinct node ids, one entry per volume and node ---------- *)
Definition wf_entries (ns : list node) : Prop := Forall (fun n => NoDup (map e_vid (entries n))) ns.
Definition wf (ns : list node) : Prop := wf_ids ns /\ wf_entries ns.

Lemma add_in_vids : forall es v s es' d, add_in es v s = Some (es', d) -> map e_vid es' = map e_vid es.
Proof.
  induction es as [|e es IH]; intros v s es' d H; simpl in H; [discriminate|].
  destruct (e_vid e =? v).
  - inv H. reflexivity.
  - destruct (add_in es v s) as [[r d0]|] eqn:A; [|discriminate]. inv H. simpl. f_equal. eapply IH; eauto.
Qed.
Lemma add_in_none_notin : forall es v s, add_in es v s = None -> ~ In v (map e_vid es).
Proof.
  induction es as [|e es IH]; intros v s H; simpl in *; auto.
  destruct (N.eqb_spec (e_vid e) v); [discriminate|].
  destruct (add_in es v s) as [[r d]|] eqn:A; [discriminate|].
  intros [X|X]; [contradiction|]. eapply IH; eauto.
Qed.
Lemma del_in_vids : forall es v s, map e_vid (fst (del_in es v s)) = map e_vid es.
Proof.
  induction es as [|e es IH]; intros v s; simpl; auto.
  specialize (IH v s). destruct (del_in es v s) as [r d]. simpl in *.
  destruct (e_vid e =? v); simpl; f_equal; auto.
Qed.

Lemma NoDup_snoc : forall (l : list N) x, NoDup l -> ~ In x l -> NoDup (l ++ [x]).
Proof.
  induction l as [|y l IH]; intros x H Hn; simpl.
  - constructor; [intros []|constructor].
  - inv H. constructor.
    + intros X. apply in_app_or in X. destruct X as [X|[X|[]]]; [contradiction|]. subst. apply Hn. left. reflexivity.
    + apply IH; auto. intros X. apply Hn. right. exact X.
Qed.

Lemma add_shard_entries_nodup : forall v c s n,
  NoDup (map e_vid (entries n)) -> NoDup (map e_vid (entries (add_shard v c s n))).
Proof.
  intros v c s n H. unfold add_shard, entries in *. destruct (n_disk n) as [es|]; simpl.
  - destruct (add_in es v s) as [[es' d]|] eqn:A; simpl.
    + rewrite (add_in_vids _ _ _ _ _ A). exact H.
    + rewrite map_app. simpl. apply add_in_none_notin in A.
      apply NoDup_snoc; auto.
  - constructor; [intros []|constructor].
Qed.
Lemma del_shard_entries_nodup : forall v s n,
  NoDup (map e_vid (entries n)) -> NoDup (map e_vid (entries (del_shard v s n))).
Proof.
  intros v s n H. unfold del_shard, entries in *. destruct (n_disk n) as [es|] eqn:D; simpl.
  - pose proof (del_in_vids es v s) as X. destruct (del_in es v s) as [es' d]. simpl in *. rewrite X. exact H.
  - rewrite D. exact H.
Qed.

Lemma wf_upd : forall ns id f, keeps_id_rack f ->
  (forall n, NoDup (map e_vid (entries n)) -> NoDup (map e_vid (entries (f n)))) ->
  wf ns -> wf (upd_node ns id f).
Proof.
  intros ns id f Hk Hf [Hi He]. split; [apply upd_wf; auto|].
  unfold wf_entries, upd_node in *. rewrite Forall_forall in *. intros n Hn.
  apply in_map_iff in Hn. destruct Hn as [x [Hx Hin]]. specialize (He x Hin).
  destruct (n_id x =? id); subst; auto.
Qed.
Lemma wf_add : forall ns id v c s, wf ns -> wf (upd_node ns id (add_shard v c s)).
Proof. intros. apply wf_upd; auto with c16. intros. apply add_shard_entries_nodup; auto. Qed.
Lemma wf_del : forall ns id v s, wf ns -> wf (upd_node ns id (del_shard v s)).
Proof. intros. apply wf_upd; auto with c16. intros. apply del_shard_entries_nodup; auto. Qed.
Lemma wf_move : forall ns src v c s dst, wf ns -> wf (move_shard ns src v c s dst).
Proof. intros. unfold move_shard. apply wf_del. apply wf_add. auto. Qed.

(* ---------- does node id hold shard (v,s) ---------- *)
Definition hb (ns : list node) (id v s : N) : bool := has (node_bits ns id v) s.

Lemma node_bits_del : forall ns id v s x v',
  node_bits (upd_node ns id (del_shard v s)) x v' =
  if (x =? id) && (v' =? v) then remove_id (node_bits ns x v) s else node_bits ns x v'.
Proof.
  intros. unfold node_bits. rewrite get_upd by auto with c16.
  destruct (N.eqb_spec x id); simpl; auto. subst.
  destruct (get_node ns id) as [n|]; simpl.
  - rewrite find_del_shard. destruct (v' =? v); reflexivity.
  - destruct (v' =? v); reflexivity.
Qed.

Lemma node_bits_add : forall ns id v c s x v' n, get_node ns id = Some n ->
  node_bits (upd_node ns id (add_shard v c s)) x v' =
  if (x =? id) && (v' =? v) then add_id (node_bits ns x v) s else node_bits ns x v'.
Proof.
  intros. unfold node_bits. rewrite get_upd by auto with c16.
  destruct (N.eqb_spec x id); simpl; auto. subst. rewrite H. simpl.
  rewrite find_add_shard. destruct (v' =? v); reflexivity.
Qed.

Lemma hb_del : forall ns id v s x v' s',
  hb (upd_node ns id (del_shard v s)) x v' s' =
  hb ns x v' s' && negb ((x =? id) && (v' =? v) && (s =? s')).
Proof.
  intros. unfold hb. rewrite node_bits_del.
  destruct (x =? id); simpl; [|rewrite andb_true_r; reflexivity].
  destruct (N.eqb_spec v' v); simpl; [|rewrite andb_true_r; reflexivity].
  subst. apply has_remove_id.
Qed.
Lemma hb_add : forall ns id v c s x v' s' n, get_node ns id = Some n ->
  hb (upd_node ns id (add_shard v c s)) x v' s' =
  hb ns x v' s' || ((x =? id) && (v' =? v) && (s =? s')).
Proof.
  intros. unfold hb. rewrite (node_bits_add _ _ _ _ _ _ _ _ H).
  destruct (x =? id); simpl; [|rewrite orb_false_r; reflexivity].
  destruct (N.eqb_spec v' v); simpl; [|rewrite orb_false_r; reflexivity].
  subst. apply has_add_id.
Qed.

Lemma get_upd_some : forall ns id f x n, keeps_id_rack f -> get_node ns x = Some n ->
  exists n', get_node (upd_node ns id f) x = Some n'.
Proof.
  intros. rewrite get_upd by auto. destruct (N.eqb_spec x id).
  - subst. rewrite H0. simpl. eauto.
  - eauto.
Qed.

Lemma hb_total : forall ns id v s, hb ns id v s = true -> (1 <= total ns v s)%nat.
Proof.
  intros ns id v s H. unfold hb, node_bits in H.
  destruct (get_node ns id) as [n|] eqn:G; [|rewrite has_zero in H; discriminate].
  apply get_node_in in G. destruct G as [Hin _]. rewrite total_eq.
  assert (In n (filter (holds v s) ns)) by (apply filter_In; split; auto).
  destruct (filter (holds v s) ns); [destruct H0|simpl; lia].
Qed.

(* exact effect of the two bookkeeping primitives on the number of holders *)
Definition same (v s v' s' : N) : bool := (v' =? v) && (s =? s').
Lemma total_del : forall ns id v s v' s', wf_ids ns ->
  (total (upd_node ns id (del_shard v s)) v' s' + b2n (same v s v' s' && hb ns id v s) = total ns v' s')%nat.
Proof.
  intros ns id v s v' s' Hwf. unfold same. destruct (get_node ns id) as [n|] eqn:G.
  - pose proof (total_upd ns id (del_shard v s) n v' s' (keeps_del v s) Hwf G) as T.
    rewrite holds_del in T. unfold hb, node_bits. rewrite G.
    destruct (N.eqb_spec v' v); simpl in *.
    + subst. unfold holds in *. destruct (s =? s') eqn:E; simpl in *.
      * apply N.eqb_eq in E. subst. destruct (has (find n v) s'); simpl in *; lia.
      * rewrite andb_true_r in T. destruct (has (find n v) s'); simpl in *; lia.
    + rewrite andb_true_r in T. destruct (holds v' s' n); simpl in *; lia.
  - rewrite get_node_none_upd by auto. unfold hb, node_bits. rewrite G, has_zero.
    rewrite andb_false_r. simpl. lia.
Qed.

Lemma total_add : forall ns id v c s v' s' n, wf_ids ns -> get_node ns id = Some n ->
  (total (upd_node ns id (add_shard v c s)) v' s' =
   total ns v' s' + b2n (same v s v' s' && negb (hb ns id v s)))%nat.
Proof.
  intros ns id v c s v' s' n Hwf G. unfold same.
  pose proof (total_upd ns id (add_shard v c s) n v' s' (keeps_add v c s) Hwf G) as T.
  rewrite holds_add in T. unfold hb, node_bits. rewrite G.
  destruct (N.eqb_spec v' v); simpl in *.
  - subst. unfold holds in *. destruct (s =? s') eqn:E; simpl in *.
    + apply N.eqb_eq in E. subst. destruct (has (find n v) s'); simpl in *; lia.
    + rewrite orb_false_r in T. destruct (has (find n v) s'); simpl in *; lia.
  - rewrite orb_false_r in T. destruct (holds v' s' n); simpl in *; lia.
Qed.

Lemma mem_In : forall x l, mem x l = true <-> In x l.
Proof.
  intros. unfold mem. rewrite existsb_exists. split.
  - intros [y [Hy E]]. apply N.eqb_eq in E. subst. auto.
  - intros. exists x. split; auto. apply N.eqb_refl.
Qed.

Lemma rack_node_ids_get : forall ns r x, In x (rack_node_ids ns r) ->
  exists n, get_node ns x = Some n.
Proof.
  induction ns as [|n ns IH]; intros r x H; simpl in *; [destruct H|].
  destruct (N.eqb_spec (n_id n) x); eauto.
  unfold rack_node_ids in *. simpl in H. destruct (n_rack n =? r); simpl in H.
  - destruct H; [contradiction|]. eapply IH; eauto.
  - eapply IH; eauto.
Qed.

(* ====================== picked map ====================== *)
Definition pin (p : list (N * N)) (s : N) : bool := mem s (map fst p).
Definition phi (ns : list node) (p : list (N * N)) (v s : N) : nat := (total ns v s + b2n (pin p s))%nat.

Lemma pin_pset : forall p k x s, pin (pset p k x) s = pin p s || (s =? k).
Proof.
  induction p as [|[k' y] p IH]; intros k x s; unfold pin in *; simpl.
  - rewrite orb_false_r. reflexivity.
  - destruct (N.eqb_spec k' k); simpl.
    + subst. destruct (s =? k); simpl; auto. rewrite orb_false_r. reflexivity.
    + rewrite IH. destruct (s =? k'); simpl; auto.
Qed.
Lemma keys_pset_nodup : forall p k x, NoDup (map fst p) -> NoDup (map fst (pset p k x)).
Proof.
  induction p as [|[k' y] p IH]; intros k x H; simpl.
  - constructor; [intros []|constructor].
  - inv H. destruct (N.eqb_spec k' k); simpl.
    + constructor; auto.
    + constructor; auto. intros X. apply H2.
      apply mem_In in X. fold (pin (pset p k x) k') in X. rewrite pin_pset in X.
      apply orb_true_iff in X. destruct X as [X|X].
      * apply mem_In. exact X.
      * apply N.eqb_eq in X. congruence.
Qed.
Lemma ptake_spec : forall p k x p', ptake p k = Some (x, p') -> NoDup (map fst p) ->
  pin p k = true /\ (forall s, pin p' s = pin p s && negb (s =? k)) /\ NoDup (map fst p').
Proof.
  induction p as [|[k' y] p IH]; intros k x p' H Hnd; simpl in H; [discriminate|].
  inv Hnd. destruct (N.eqb_spec k' k).
  - inv H. unfold pin; simpl. rewrite N.eqb_refl. simpl. split; auto. split; auto.
    intros s. destruct (N.eqb_spec s k); simpl.
    + subst. destruct (mem k (map fst p')) eqn:M; auto. apply mem_In in M. contradiction.
    + rewrite andb_true_r. reflexivity.
  - destruct (ptake p k) as [[x0 r]|] eqn:T; [|discriminate]. inv H.
    destruct (IH _ _ _ T H3) as [A [B C]]. unfold pin in *; simpl. split; [|split].
    + rewrite A. apply orb_true_r.
    + intros s. rewrite B. destruct (N.eqb_spec s k'); simpl; auto.
      subst. destruct (N.eqb_spec k' k); [contradiction|]. reflexivity.
    + constructor; auto. intros X. apply H2. apply mem_In in X. rewrite B in X.
      apply andb_true_iff in X. apply mem_In. tauto.
Qed.

(* ====================== results of a run: legality of the recorded moves ====================== *)
Definition move_ok (i : item) : Prop :=
  match i with
  | IMove _ m => m_dst_held m = false /\ (0 < m_dst_free m)%Z
  | _ => True
  end.
Definition moves_ok (its : list item) : Prop := Forall move_ok its.
Definition unique (ns : list node) : Prop := forall v s, (total ns v s <= 1)%nat.

Lemma has_drop_app : forall a b, has_drop (a ++ b) = has_drop a || has_drop b.
Proof. intros. unfold has_drop. apply existsb_app. Qed.
Lemma moves_ok_app : forall a b, moves_ok a -> moves_ok b -> moves_ok (a ++ b).
Proof. intros. apply Forall_app. auto. Qed.

(* ====================== pickNEcShardsToMoveFrom ====================== *)
Lemma first_nonzero_spec : forall ns v cands i0 i id b,
  first_nonzero ns v cands i0 = Some (i, id, b) -> b = node_bits ns id v.
Proof.
  induction cands as [|[id0 c0] cands IH]; intros i0 i id b H; simpl in H; [discriminate|].
  destruct (0 <? node_bits ns id0 v).
  - inv H. reflexivity.
  - eapply IH; eauto.
Qed.

Lemma pick_step_inv : forall ns picked v id s,
  wf ns -> NoDup (map fst picked) -> (forall s0, (phi ns picked v s0 <= 1)%nat) ->
  hb ns id v s = true ->
  let ns' := upd_node ns id (del_shard v s) in
  let picked' := pset picked s id in
  wf ns' /\ NoDup (map fst picked') /\
  (forall s0, phi ns' picked' v s0 = phi ns picked v s0) /\
  (forall v' s0, v' <> v -> total ns' v' s0 = total ns v' s0).
Proof.
  intros ns picked v id s Hwf Hnd Hphi Hb ns' picked'.
  split; [apply wf_del; auto|]. split; [apply keys_pset_nodup; auto|].
  destruct Hwf as [Hi _]. split.
  - intros s0. unfold phi, ns', picked'. rewrite pin_pset.
    pose proof (total_del ns id v s v s0 Hi) as T. unfold same in T. rewrite N.eqb_refl, Hb in T. simpl in T.
    destruct (N.eqb_spec s0 s).
    + subst s0. rewrite N.eqb_refl in T. simpl in T.
      pose proof (hb_total _ _ _ _ Hb) as T1. specialize (Hphi s). unfold phi in Hphi.
      destruct (pin picked s); simpl in *; lia.
    + destruct (N.eqb_spec s s0); [congruence|]. simpl in T. rewrite orb_false_r. lia.
  - intros v' s0 Hv. pose proof (total_del ns id v s v' s0 Hi) as T. unfold same in T.
    destruct (N.eqb_spec v' v); [contradiction|]. simpl in T. unfold ns'. lia.
Qed.

Lemma pick_n_inv : forall n v cands ns picked ns' picked',
  pick_n n v cands ns picked = (ns', picked') ->
  wf ns -> NoDup (map fst picked) -> (forall s0, (phi ns picked v s0 <= 1)%nat) ->
  wf ns' /\ NoDup (map fst picked') /\
  (forall s0, phi ns' picked' v s0 = phi ns picked v s0) /\
  (forall v' s0, v' <> v -> total ns' v' s0 = total ns v' s0).
Proof.
  induction n as [|n IH]; intros v cands ns picked ns' picked' H Hwf Hnd Hphi; simpl in H.
  - inv H. auto.
  - destruct (first_nonzero ns v cands 0) as [[[i id] b]|] eqn:F; [|inv H; auto].
    destruct (shard_ids b) as [|s rest] eqn:S; [inv H; auto|].
    assert (Hb : hb ns id v s = true).
    { unfold hb. rewrite <- (first_nonzero_spec _ _ _ _ _ _ _ F). apply shard_ids_has. rewrite S. left. reflexivity. }
    destruct (pick_step_inv ns picked v id s Hwf Hnd Hphi Hb) as [A [B [C D]]].
    apply IH in H; auto.
    + destruct H as [A' [B' [C' D']]]. split; [auto|split; [auto|split]].
      * intros. rewrite C', C. reflexivity.
      * intros. rewrite D', D; auto.
    + intros. rewrite C. apply Hphi.
Qed.

Lemma pick_racks_inv : forall ro ns v avg rsc locs picked ns' picked',
  pick_racks ns v avg rsc locs ro picked = Some (ns', picked') ->
  wf ns -> NoDup (map fst picked) -> (forall s0, (phi ns picked v s0 <= 1)%nat) ->
  wf ns' /\ NoDup (map fst picked') /\
  (forall s0, phi ns' picked' v s0 = phi ns picked v s0) /\
  (forall v' s0, v' <> v -> total ns' v' s0 = total ns v' s0).
Proof.
  induction ro as [|[r cands] ro IH]; intros ns v avg rsc locs picked ns' picked' H Hwf Hnd Hphi; simpl in H.
  - inv H. auto.
  - destruct (alookup rsc r >? avg)%Z.
    + destruct (valid_cands ns (filter (fun id => node_rack ns id =? r) locs) v cands); [|discriminate].
      destruct (pick_n (Z.to_nat (alookup rsc r - avg)) v
                  (map (fun id => (id, count (node_bits ns id v))) cands) ns picked) as [ns1 picked1] eqn:P.
      destruct (pick_n_inv _ _ _ _ _ _ _ P Hwf Hnd Hphi) as [A [B [C D]]].
      apply IH in H; auto.
      * destruct H as [A' [B' [C' D']]]. split; [auto|split; [auto|split]].
        -- intros. rewrite C', C. reflexivity.
        -- intros. rewrite D', D; auto.
      * intros. rewrite C. apply Hphi.
    + eapply IH; eauto.
Qed.

(* ====================== one bookkeeping move ====================== *)
Lemma move_total : forall ns src v c s dst nd v' s', wf_ids ns -> get_node ns dst = Some nd -> src <> dst ->
  (total (move_shard ns src v c s dst) v' s' + b2n (same v s v' s' && hb ns src v s) =
   total ns v' s' + b2n (same v s v' s' && negb (hb ns dst v s)))%nat.
Proof.
  intros ns src v c s dst nd v' s' Hwf G Hne. unfold move_shard.
  pose proof (total_add ns dst v c s v' s' nd Hwf G) as TA.
  assert (Hwf1 : wf_ids (upd_node ns dst (add_shard v c s))) by (apply upd_wf; auto with c16).
  pose proof (total_del (upd_node ns dst (add_shard v c s)) src v s v' s' Hwf1) as TD.
  rewrite (hb_add _ _ _ _ _ _ _ _ _ G) in TD.
  destruct (N.eqb_spec src dst); [contradiction|]. simpl in TD. rewrite orb_false_r in TD. lia.
Qed.

Lemma valid_dest_some : forall ns src v limit dests x,
  valid_dest ns src v limit dests (Some x) = true ->
  In x dests /\ x <> src /\ (0 < node_free ns x)%Z /\ (count (node_bits ns x v) < limit)%Z.
Proof.
  intros ns src v limit dests x H. unfold valid_dest, eligible in H.
  apply andb_true_iff in H. destruct H as [H _].
  apply andb_true_iff in H. destruct H as [Hm He].
  apply andb_true_iff in He. destruct He as [He Hc].
  apply andb_true_iff in He. destruct He as [Hn Hf].
  apply mem_In in Hm. split; auto. split.
  - intros E. subst. rewrite N.eqb_refl in Hn. discriminate.
  - split; apply Z.ltb_lt; auto.
Qed.

Lemma hb_false_of_total0 : forall ns id v s, total ns v s = 0%nat -> hb ns id v s = false.
Proof.
  intros ns id v s H. destruct (hb ns id v s) eqn:E; auto.
  apply hb_total in E. lia.
Qed.

(* ====================== second loop of doBalanceEcShardsAcrossRacks ====================== *)
Lemma across_moves_inv : forall ms c v avg st rsc picked st' its,
  across_moves c v avg st rsc picked ms = Some (st', its) ->
  wf (nodes st) -> NoDup (map fst picked) -> (forall s0, (phi (nodes st) picked v s0 <= 1)%nat) ->
  wf (nodes st') /\
  (forall s0, (total (nodes st') v s0 <= phi (nodes st) picked v s0)%nat) /\
  (has_drop its = false -> forall s0, total (nodes st') v s0 = phi (nodes st) picked v s0) /\
  (forall v' s0, v' <> v -> total (nodes st') v' s0 = total (nodes st) v' s0) /\
  moves_ok its.
Proof.
  induction ms as [|[s ch] ms IH]; intros c v avg st rsc picked st' its H Hwf Hnd Hphi; simpl in H.
  - destruct picked; [|discriminate]. inv H. unfold phi, pin. simpl.
    split; auto. split; [intros; lia|]. split; [intros; lia|]. split; auto. constructor.
  - destruct (ptake picked s) as [[src picked']|] eqn:T; [|discriminate].
    destruct (ptake_spec _ _ _ _ T Hnd) as [Pin [Pin' Pnd]].
    assert (Hle : forall s0, (phi (nodes st) picked' v s0 <= phi (nodes st) picked v s0)%nat).
    { intros s0. unfold phi. rewrite Pin'. destruct (pin picked s0), (s0 =? s); simpl; lia. }
    destruct ch as [|r d].
    + (* NoRack: dropped *)
      destruct (existsb (rack_ok st rsc avg) (rack_ids st)); [discriminate|].
      destruct (across_moves c v avg st rsc picked' ms) as [[st1 its1]|] eqn:R; [|discriminate]. inv H.
      destruct (IH _ _ _ _ _ _ _ _ R Hwf Pnd) as [A [B [C [D E]]]].
      { intros s0. specialize (Hle s0). specialize (Hphi s0). lia. }
      split; auto. split; [intros s0; specialize (B s0); specialize (Hle s0); lia|].
      split; [simpl; discriminate|]. split; auto. constructor; simpl; auto.
    + destruct (mem r (rack_ids st) && rack_ok st rsc avg r); [|discriminate].
      destruct (valid_dest (nodes st) src v avg (rack_node_ids (nodes st) r) d) eqn:V; [|discriminate].
      destruct d as [dst|].
      * (* moved *)
        match type of H with context [across_moves c v avg ?S ?R picked' ms] =>
          destruct (across_moves c v avg S R picked' ms) as [[st1 its1]|] eqn:R1; [|discriminate] end.
        inv H.
        destruct (valid_dest_some _ _ _ _ _ _ V) as [Hin [Hne [Hfree _]]].
        destruct (rack_node_ids_get _ _ _ Hin) as [nd G].
        assert (T0 : total (nodes st) v s = 0%nat).
        { specialize (Hphi s). unfold phi in Hphi. rewrite Pin in Hphi. simpl in Hphi. lia. }
        assert (Hd : hb (nodes st) dst v s = false) by (apply hb_false_of_total0; auto).
        assert (Hs : hb (nodes st) src v s = false) by (apply hb_false_of_total0; auto).
        assert (Hne' : src <> dst) by congruence.
        assert (MT : forall v' s', total (move_shard (nodes st) src v c s dst) v' s' =
                                   (total (nodes st) v' s' + b2n (same v s v' s'))%nat).
        { intros v' s'. pose proof (move_total (nodes st) src v c s dst nd v' s' (proj1 Hwf) G Hne') as M.
          rewrite Hd, Hs in M. rewrite andb_false_r, andb_true_r in M. simpl in M. lia. }
        assert (Hphi1 : forall s0, phi (move_shard (nodes st) src v c s dst) picked' v s0 = phi (nodes st) picked v s0).
        { intros s0. unfold phi. rewrite MT, Pin'. unfold same. rewrite N.eqb_refl. simpl.
          destruct (N.eqb_spec s0 s).
          - subst. rewrite N.eqb_refl, Pin. simpl. lia.
          - destruct (N.eqb_spec s s0); [congruence|]. simpl. rewrite andb_true_r. lia. }
        destruct (IH _ _ _ _ _ _ _ _ R1) as [A [B [C [D E]]]]; simpl.
        { apply wf_move; auto. }
        { auto. }
        { intros s0. rewrite Hphi1. apply Hphi. }
        simpl in *. split; auto. split; [intros s0; rewrite <- Hphi1; apply B|].
        split; [intros X s0; rewrite <- Hphi1; apply C; exact X|].
        split.
        { intros v' s0 Hv. rewrite D by auto. rewrite MT. unfold same.
          destruct (N.eqb_spec v' v); [contradiction|]. simpl. lia. }
        constructor; auto. simpl. unfold hb in Hd. rewrite Hd. split; auto.
      * (* rack found, no node: dropped *)
        match type of H with context [across_moves c v avg ?S ?R picked' ms] =>
          destruct (across_moves c v avg S R picked' ms) as [[st1 its1]|] eqn:R1; [|discriminate] end.
        inv H.
        destruct (IH _ _ _ _ _ _ _ _ R1) as [A [B [C [D E]]]]; simpl; auto.
        { intros s0. specialize (Hle s0). specialize (Hphi s0). lia. }
        simpl in *. split; auto. split; [intros s0; specialize (B s0); specialize (Hle s0); lia|].
        split; [discriminate|]. split; auto. constructor; simpl; auto.
Qed.

(* what every phase guarantees: books stay well formed, copies never multiply,
   nothing is lost unless a picked shard is abandoned, recorded moves are legal *)
Definition phase_ok (ns ns' : list node) (its : list item) : Prop :=
  wf ns' /\
  (forall v s, (total ns' v s <= total ns v s)%nat) /\
  (has_drop its = false -> forall v s, total ns' v s = total ns v s) /\
  moves_ok its.

Lemma phase_ok_refl : forall ns, wf ns -> phase_ok ns ns [].
Proof. intros. split; auto. split; [intros; lia|]. split; [intros; reflexivity|constructor]. Qed.

Lemma phase_ok_trans : forall a b c i1 i2, phase_ok a b i1 -> phase_ok b c i2 -> phase_ok a c (i1 ++ i2).
Proof.
  intros a b c i1 i2 [A1 [B1 [C1 D1]]] [A2 [B2 [C2 D2]]]. split; auto. split.
  - intros v s. specialize (B1 v s). specialize (B2 v s). lia.
  - split.
    + rewrite has_drop_app. intros X. apply orb_false_iff in X. destruct X as [X1 X2].
      intros v s. rewrite C2, C1; auto.
    + apply moves_ok_app; auto.
Qed.

Lemma phase_ok_unique : forall a b i, phase_ok a b i -> unique a -> unique b.
Proof. intros a b i [_ [B _]] U v s. specialize (B v s). specialize (U v s). lia. Qed.

Lemma across_vid_ok : forall c st o st' its,
  across_vid c st o = Some (st', its) -> wf (nodes st) -> unique (nodes st) ->
  phase_ok (nodes st) (nodes st') its.
Proof.
  intros c st o st' its H Hwf U. unfold across_vid in H.
  destruct (perm_eqb _ _); [|discriminate].
  destruct (pick_racks _ _ _ _ _ _ _) as [[ns1 picked]|] eqn:P; [|discriminate].
  assert (Hphi0 : forall s0, (phi (nodes st) [] (av_vid o) s0 <= 1)%nat).
  { intros s0. unfold phi, pin. simpl. specialize (U (av_vid o) s0). lia. }
  destruct (pick_racks_inv _ _ _ _ _ _ _ _ _ P Hwf (NoDup_nil _) Hphi0) as [A [B [C D]]].
  apply across_moves_inv in H; simpl; auto.
  - simpl in H. destruct H as [A' [B' [C' [D' E']]]]. split; auto. split; [|split; auto].
    + intros v s. destruct (N.eq_dec v (av_vid o)).
      * subst. specialize (B' s). rewrite C in B'. unfold phi, pin in B'. simpl in B'. lia.
      * rewrite D', D; auto.
    + intros X v s. destruct (N.eq_dec v (av_vid o)).
      * subst. rewrite (C' X s), C. unfold phi, pin. simpl. lia.
      * rewrite D', D; auto.
  - intros s0. rewrite C. apply Hphi0.
Qed.

Lemma across_vids_ok : forall os c st st' its,
  across_vids c st os = Some (st', its) -> wf (nodes st) -> unique (nodes st) ->
  phase_ok (nodes st) (nodes st') its.
Proof.
  induction os as [|o os IH]; intros c st st' its H Hwf U; simpl in H.
  - inv H. apply phase_ok_refl; auto.
  - destruct (across_vid c st o) as [[st1 i1]|] eqn:A; [|discriminate].
    destruct (across_vids c st1 os) as [[st2 i2]|] eqn:B; [|discriminate]. inv H.
    pose proof (across_vid_ok _ _ _ _ _ A Hwf U) as P1.
    eapply phase_ok_trans; eauto. eapply IH; eauto.
    + apply P1.
    + eapply phase_ok_unique; eauto.
Qed.

Lemma across_phase_ok : forall c st os st' its,
  across_phase c st os = Some (st', its) -> wf (nodes st) -> unique (nodes st) ->
  phase_ok (nodes st) (nodes st') its.
Proof.
  intros c st os st' its H. unfold across_phase in H. destruct (perm_eqb _ _); [|discriminate].
  eapply across_vids_ok; eauto.
Qed.

(* ====================== balanceEcShardsWithinRacks ====================== *)
Definition present (ns : list node) (x : N) : Prop := exists n, get_node ns x = Some n.

Lemma present_upd : forall ns id f x, keeps_id_rack f -> present ns x -> present (upd_node ns id f) x.
Proof. intros ns id f x Hk [n G]. eapply get_upd_some; eauto. Qed.
Lemma present_move : forall ns src v c s dst x, present ns x -> present (move_shard ns src v c s dst) x.
Proof. intros. unfold move_shard. apply present_upd; auto with c16. apply present_upd; auto with c16. Qed.

Lemma unique_other : forall ns src v s x, wf_ids ns -> unique ns ->
  hb ns src v s = true -> x <> src -> hb ns x v s = false.
Proof.
  intros ns src v s x Hwf U Hs Hne.
  pose proof (total_del ns src v s v s Hwf) as T. unfold same in T. rewrite !N.eqb_refl, Hs in T. simpl in T.
  specialize (U v s).
  assert (T0 : total (upd_node ns src (del_shard v s)) v s = 0%nat) by lia.
  pose proof (hb_false_of_total0 _ x _ _ T0) as X. rewrite hb_del in X.
  destruct (N.eqb_spec x src); [contradiction|]. simpl in X. rewrite andb_true_r in X. exact X.
Qed.

(* a move of a shard the source holds, to another node, under uniqueness *)
Lemma move_held_ok : forall ns src v c s dst, wf ns -> unique ns -> present ns dst -> src <> dst ->
  hb ns src v s = true ->
  hb ns dst v s = false /\ (forall v' s', total (move_shard ns src v c s dst) v' s' = total ns v' s').
Proof.
  intros ns src v c s dst [Hwf He] U [nd G] Hne Hs.
  assert (Hd : hb ns dst v s = false) by (eapply unique_other; eauto).
  split; auto. intros v' s'.
  pose proof (move_total ns src v c s dst nd v' s' Hwf G Hne) as M. rewrite Hs, Hd in M. simpl in M.
  rewrite !andb_true_r in M. lia.
Qed.

Lemma hb_move_src : forall ns src v c s dst s', present ns dst -> src <> dst ->
  hb (move_shard ns src v c s dst) src v s' = hb ns src v s' && negb (s =? s').
Proof.
  intros ns src v c s dst s' [nd G] Hne. unfold move_shard. rewrite hb_del.
  rewrite (hb_add _ _ _ _ _ _ _ _ _ G). rewrite !N.eqb_refl. simpl.
  destruct (N.eqb_spec src dst); [contradiction|]. simpl. rewrite orb_false_r. reflexivity.
Qed.

Definition quiet_ok (ns ns' : list node) (its : list item) : Prop :=
  phase_ok ns ns' its /\ has_drop its = false.

Lemma quiet_ok_trans : forall a b c i1 i2, quiet_ok a b i1 -> quiet_ok b c i2 -> quiet_ok a c (i1 ++ i2).
Proof.
  intros a b c i1 i2 [P1 D1] [P2 D2]. split; [eapply phase_ok_trans; eauto|].
  rewrite has_drop_app, D1, D2. reflexivity.
Qed.
Lemma quiet_ok_refl : forall ns, wf ns -> quiet_ok ns ns [].
Proof. intros. split; [apply phase_ok_refl; auto|reflexivity]. Qed.

Lemma quiet_total : forall a b i, quiet_ok a b i -> forall v s, total b v s = total a v s.
Proof. intros a b i [[_ [_ [C _]]] D]. auto. Qed.
Lemma quiet_unique : forall a b i, quiet_ok a b i -> unique a -> unique b.
Proof. intros a b i [P _]. eapply phase_ok_unique; eauto. Qed.
Lemma quiet_wf : forall a b i, quiet_ok a b i -> wf b.
Proof. intros a b i [[W _] _]. exact W. Qed.

Lemma within_shards_ok : forall ss c v avgn nracks ns src dests over ch ns' its ch',
  within_shards c v avgn nracks ns src dests ss over ch = Some (ns', its, ch') ->
  wf ns -> unique ns -> NoDup ss -> (forall s, In s ss -> hb ns src v s = true) ->
  (forall x, In x dests -> present ns x) ->
  quiet_ok ns ns' its /\ (forall x, present ns x -> present ns' x).
Proof.
  induction ss as [|s ss IH]; intros c v avgn nracks ns src dests over ch ns' its ch' H Hwf U Hnd Hh Hp; simpl in H.
  - inv H. split; [apply quiet_ok_refl; auto|auto].
  - destruct (over <=? 0)%Z; [inv H; split; [apply quiet_ok_refl; auto|auto]|].
    destruct ch as [|d ch1]; [discriminate|].
    destruct (valid_dest ns src v avgn dests d) eqn:V; [|discriminate].
    inv Hnd.
    destruct d as [dst|].
    + destruct (within_shards c v avgn nracks (move_shard ns src v c s dst) src dests ss (over - 1) ch1)
        as [[[ns2 its2] ch2]|] eqn:R; [|discriminate]. inv H.
      destruct (valid_dest_some _ _ _ _ _ _ V) as [Hin [Hne [Hfree _]]].
      assert (Hne' : src <> dst) by congruence.
      assert (Hs : hb ns src v s = true) by (apply Hh; left; reflexivity).
      destruct (move_held_ok ns src v c s dst Hwf U (Hp _ Hin) Hne' Hs) as [Hd MT].
      apply IH in R; auto.
      * destruct R as [Q Pr]. split.
        -- change (IEvent (EOver src over v s) :: IMove (EMove src v s dst) (mk_mrec KWithin ns (move_shard ns src v c s dst) (ceil_div total_shards (Z.of_nat nracks)) src v s dst) :: its2)
             with ([IEvent (EOver src over v s); IMove (EMove src v s dst) (mk_mrec KWithin ns (move_shard ns src v c s dst) (ceil_div total_shards (Z.of_nat nracks)) src v s dst)] ++ its2).
           eapply quiet_ok_trans; [|exact Q].
           split; [|reflexivity]. split; [apply wf_move; auto|].
           split; [intros; rewrite MT; lia|]. split; [intros; apply MT|].
           constructor; [simpl; auto|]. constructor; [|constructor].
           simpl. unfold hb in Hd. rewrite Hd. split; auto.
        -- intros x Px. apply Pr. apply present_move. exact Px.
      * apply wf_move; auto.
      * intros v' s'. rewrite MT. apply U.
      * intros s' Hs'. rewrite hb_move_src; auto. rewrite Hh by (right; exact Hs').
        destruct (N.eqb_spec s s'); [subst; contradiction|reflexivity].
      * intros x Hx. apply present_move. auto.
    + destruct (within_shards c v avgn nracks ns src dests ss (over - 1) ch1)
        as [[[ns2 its2] ch2]|] eqn:R; [|discriminate]. inv H.
      apply IH in R; auto.
      * destruct R as [Q Pr]. split; auto.
        change (IEvent (EOver src over v s) :: its2) with ([IEvent (EOver src over v s)] ++ its2).
        eapply quiet_ok_trans; [|exact Q]. split; [|reflexivity].
        split; auto. split; [intros; lia|]. split; [intros; reflexivity|]. constructor; [simpl; auto|constructor].
      * intros s' Hs'. apply Hh. right. exact Hs'.
Qed.

Lemma within_sources_ok : forall srcs c v avgn nracks ns dests ch ns' its ch',
  within_sources c v avgn nracks ns srcs dests ch = Some (ns', its, ch') ->
  wf ns -> unique ns -> (forall x, In x dests -> present ns x) ->
  quiet_ok ns ns' its.
Proof.
  induction srcs as [|src srcs IH]; intros c v avgn nracks ns dests ch ns' its ch' H Hwf U Hp; simpl in H.
  - inv H. apply quiet_ok_refl; auto.
  - destruct (within_shards c v avgn nracks ns src dests (shard_ids (node_bits ns src v))
                (count (node_bits ns src v) - avgn) ch) as [[[ns1 i1] ch1]|] eqn:A; [|discriminate].
    destruct (within_sources c v avgn nracks ns1 srcs dests ch1) as [[[ns2 i2] ch2]|] eqn:B; [|discriminate].
    inv H.
    apply within_shards_ok in A; auto.
    + destruct A as [Q Pr]. eapply quiet_ok_trans; [exact Q|].
      eapply IH; eauto.
      * eapply quiet_wf; eauto.
      * eapply quiet_unique; eauto.
    + apply shard_ids_NoDup.
    + intros s Hs. unfold hb. apply shard_ids_has. exact Hs.
Qed.

Lemma within_racks_ok : forall ros c v nracks rsc locs ns ns' its,
  within_racks c v nracks rsc locs ns ros = Some (ns', its) ->
  wf ns -> unique ns -> quiet_ok ns ns' its.
Proof.
  induction ros as [|ro ros IH]; intros c v nracks rsc locs ns ns' its H Hwf U; simpl in H.
  - inv H. apply quiet_ok_refl; auto.
  - match type of H with context [within_sources ?a ?b ?c0 ?d ?e ?f ?g ?h] =>
      destruct (within_sources a b c0 d e f g h) as [[[ns1 i1] ch1]|] eqn:A; [|discriminate] end.
    destruct ch1; [|discriminate].
    destruct (within_racks c v nracks rsc locs ns1 ros) as [[ns2 i2]|] eqn:B; [|discriminate]. inv H.
    apply within_sources_ok in A; auto.
    + eapply quiet_ok_trans; [exact A|]. eapply IH; eauto.
      * eapply quiet_wf; eauto.
      * eapply quiet_unique; eauto.
    + intros x Hx. apply filter_In in Hx. destruct Hx as [Hx _]. eapply rack_node_ids_get; eauto.
Qed.

Lemma within_vids_ok : forall os c nracks ns ns' its,
  within_vids c nracks ns os = Some (ns', its) -> wf ns -> unique ns -> quiet_ok ns ns' its.
Proof.
  induction os as [|o os IH]; intros c nracks ns ns' its H Hwf U; simpl in H.
  - inv H. apply quiet_ok_refl; auto.
  - destruct (within_vid c nracks ns o) as [[ns1 i1]|] eqn:A; [|discriminate].
    destruct (within_vids c nracks ns1 os) as [[ns2 i2]|] eqn:B; [|discriminate]. inv H.
    unfold within_vid in A. destruct (perm_eqb _ _); [|discriminate].
    apply within_racks_ok in A; auto.
    eapply quiet_ok_trans; [exact A|]. eapply IH; eauto.
    + eapply quiet_wf; eauto.
    + eapply quiet_unique; eauto.
Qed.

Lemma within_phase_ok : forall c st os st' its,
  within_phase c st os = Some (st', its) -> wf (nodes st) -> unique (nodes st) ->
  quiet_ok (nodes st) (nodes st') its.
Proof.
  intros c st os st' its H Hwf U. unfold within_phase in H. destruct (perm_eqb _ _); [|discriminate].
  destruct (within_vids c (length (racks st)) (nodes st) os) as [[ns its0]|] eqn:A; [|discriminate]. inv H.
  simpl. eapply within_vids_ok; eauto.
Qed.

(* ====================== balanceEcRacks ====================== *)
Lemma find_bits_notin : forall es v, ~ In v (map e_vid es) -> find_bits es v = 0.
Proof.
  induction es as [|e es IH]; intros v H; simpl in *; auto.
  destruct (N.eqb_spec (e_vid e) v); [exfalso; apply H; auto|]. apply IH. tauto.
Qed.
Lemma find_bits_in_nodup : forall es en, NoDup (map e_vid es) -> In en es -> find_bits es (e_vid en) = e_bits en.
Proof.
  induction es as [|e es IH]; intros en Hnd Hin; simpl in *; [destruct Hin|].
  inv Hnd. destruct Hin as [E|Hin].
  - subst. rewrite N.eqb_refl. reflexivity.
  - destruct (N.eqb_spec (e_vid e) (e_vid en)) as [E|E].
    + exfalso. apply H1. rewrite E. apply in_map. exact Hin.
    + apply IH; auto.
Qed.
Lemma first_foreign_spec : forall es vids en, first_foreign es vids = Some en ->
  In en es /\ ~ In (e_vid en) vids.
Proof.
  induction es as [|e es IH]; intros vids en H; simpl in H; [discriminate|].
  destruct (mem (e_vid e) vids) eqn:M.
  - apply IH in H. destruct H as [A B]. split; [right; exact A|exact B].
  - inv H. split; [left; reflexivity|]. intros X. apply mem_In in X. congruence.
Qed.

Lemma valid_ends_spec : forall ns ids e f, valid_ends ns ids e f = true -> In e ids /\ In f ids /\ e <> f.
Proof.
  intros ns ids e f H. unfold valid_ends in H.
  apply andb_true_iff in H. destruct H as [H _].
  apply andb_true_iff in H. destruct H as [H Hne].
  apply andb_true_iff in H. destruct H as [He Hf].
  apply mem_In in He. apply mem_In in Hf. split; auto. split; auto.
  intros E. subst. rewrite N.eqb_refl in Hne. discriminate.
Qed.

Lemma rack_move_ok : forall ns e f en s, wf ns -> present ns e -> e <> f ->
  first_foreign (node_entries ns f) (map e_vid (node_entries ns e)) = Some en ->
  In s (shard_ids (e_bits en)) ->
  hb ns e (e_vid en) s = false /\
  (forall v' s', total (move_shard ns f (e_vid en) (e_coll en) s e) v' s' = total ns v' s').
Proof.
  intros ns e f en s [Hwf He] [ne Ge] Hne FF Hs.
  apply first_foreign_spec in FF. destruct FF as [Hin Hnot].
  assert (Hd : hb ns e (e_vid en) s = false).
  { unfold hb, node_bits. rewrite Ge. unfold find. unfold node_entries in Hnot. rewrite Ge in Hnot.
    rewrite find_bits_notin by auto. apply has_zero. }
  assert (Hsrc : hb ns f (e_vid en) s = true).
  { unfold hb, node_bits. unfold node_entries in Hin.
    destruct (get_node ns f) as [nf|] eqn:Gf; [|destruct Hin].
    unfold find. rewrite find_bits_in_nodup; auto.
    - apply shard_ids_has. exact Hs.
    - unfold wf_entries in He. rewrite Forall_forall in He. apply He. apply get_node_in in Gf. tauto. }
  split; auto. intros v' s'.
  assert (Hne' : f <> e) by congruence.
  pose proof (move_total ns f (e_vid en) (e_coll en) s e ne v' s' Hwf Ge Hne') as M.
  rewrite Hsrc, Hd in M. simpl in M. rewrite !andb_true_r in M. lia.
Qed.

Lemma rack_loop_ok : forall steps nracks ns ids cnts avg ns' its,
  rack_loop nracks ns ids cnts avg steps = Some (ns', its) ->
  wf ns -> (forall x, In x ids -> present ns x) -> quiet_ok ns ns' its.
Proof.
  induction steps as [|[e f] rest IH]; intros nracks ns ids cnts avg ns' its H Hwf Hp; simpl in H; [discriminate|].
  destruct (valid_ends ns ids e f) eqn:V; [|discriminate].
  destruct (valid_ends_spec _ _ _ _ V) as [He [Hf Hne]].
  assert (Stop : match rest with [] => Some (ns, []) | _ :: _ => None end = Some (ns', its) -> quiet_ok ns ns' its).
  { intros X. destruct rest; [|discriminate]. inv X. apply quiet_ok_refl; auto. }
  destruct ((alookup cnts f >? avg)%Z && (alookup cnts e + 1 <=? avg)%Z && (0 <? node_free ns e)%Z) eqn:Cond; [|auto].
  apply andb_true_iff in Cond. destruct Cond as [_ Hfree]. apply Z.ltb_lt in Hfree.
  destruct (first_foreign (node_entries ns f) (map e_vid (node_entries ns e))) as [en|] eqn:FF; [|auto].
  destruct (shard_ids (e_bits en)) as [|s ss] eqn:S; [auto|].
  match type of H with context [rack_loop nracks ?a ids ?b avg rest] =>
    destruct (rack_loop nracks a ids b avg rest) as [[ns2 its2]|] eqn:R; [|discriminate] end.
  inv H.
  assert (Hs : In s (shard_ids (e_bits en))) by (rewrite S; left; reflexivity).
  destruct (rack_move_ok ns e f en s Hwf (Hp _ He) Hne FF Hs) as [Hd MT].
  apply IH in R.
  - match goal with |- quiet_ok _ _ (?i :: its2) => change (i :: its2) with ([i] ++ its2) end.
    eapply quiet_ok_trans; [|exact R]. split; [|reflexivity].
    split; [apply wf_move; auto|]. split; [intros; rewrite MT; lia|]. split; [intros; apply MT|].
    constructor; [|constructor]. simpl. unfold hb in Hd. rewrite Hd. split; auto.
  - apply wf_move; auto.
  - intros x Hx. apply present_move. auto.
Qed.

Lemma balance_rack_ok : forall nracks ns o ns' its,
  balance_rack nracks ns o = Some (ns', its) -> wf ns -> quiet_ok ns ns' its.
Proof.
  intros nracks ns o ns' its H Hwf. unfold balance_rack in H.
  destruct (length (rack_node_ids ns (rb_rack o)) <=? 1)%nat.
  - destruct (rb_steps o); [|discriminate]. inv H. apply quiet_ok_refl; auto.
  - eapply rack_loop_ok; eauto. intros x Hx. eapply rack_node_ids_get; eauto.
Qed.

Lemma balance_racks_list_ok : forall os nracks ns ns' its,
  balance_racks_list nracks ns os = Some (ns', its) -> wf ns -> quiet_ok ns ns' its.
Proof.
  induction os as [|o os IH]; intros nracks ns ns' its H Hwf; simpl in H.
  - inv H. apply quiet_ok_refl; auto.
  - destruct (balance_rack nracks ns o) as [[ns1 i1]|] eqn:A; [|discriminate].
    destruct (balance_racks_list nracks ns1 os) as [[ns2 i2]|] eqn:B; [|discriminate]. inv H.
    apply balance_rack_ok in A; auto.
    eapply quiet_ok_trans; [exact A|]. eapply IH; eauto. eapply quiet_wf; eauto.
Qed.

Lemma balance_racks_ok : forall st os st' its,
  balance_racks st os = Some (st', its) -> wf (nodes st) -> quiet_ok (nodes st) (nodes st') its.
Proof.
  intros st os st' its H Hwf. unfold balance_racks in H. destruct (perm_eqb _ _); [|discriminate].
  destruct (balance_racks_list _ _ _) as [[ns its0]|] eqn:A; [|discriminate]. inv H. simpl.
  eapply balance_racks_list_ok; eauto.
Qed.

(* ====================== deleteDuplicatedEcShards, dry run ====================== *)
Lemma dedup_shards_dry : forall ss ns locs v keeps ns' its,
  dedup_shards false ns locs v ss keeps = Some (ns', its) ->
  ns' = ns /\ has_drop its = false /\ moves_ok its.
Proof.
  induction ss as [|s ss IH]; intros ns locs v keeps ns' its H; simpl in H.
  - destruct keeps; [|discriminate]. inv H. repeat split. constructor.
  - destruct (length (holders ns locs v s) <=? 1)%nat; [eapply IH; eauto|].
    destruct keeps as [|k keeps]; [discriminate|].
    destruct (mem k (holders ns locs v s) && _); [|discriminate].
    destruct (dedup_shards false ns locs v ss keeps) as [[ns2 its2]|] eqn:R; [|discriminate]. inv H.
    apply IH in R. destruct R as [A [B C]]. subst. repeat split; auto. constructor; simpl; auto.
Qed.

Lemma dedup_vids_dry : forall os ns ns' its,
  dedup_vids false ns os = Some (ns', its) -> ns' = ns /\ has_drop its = false /\ moves_ok its.
Proof.
  induction os as [|o os IH]; intros ns ns' its H; cbn [dedup_vids] in H.
  - inv H. repeat split. constructor.
  - destruct (dedup_shards false ns _ _ _ _) as [[ns1 i1]|] eqn:A; [|discriminate].
    destruct (dedup_vids false ns1 os) as [[ns2 i2]|] eqn:B; [|discriminate]. inv H.
    apply dedup_shards_dry in A. destruct A as [A1 [A2 A3]]. subst.
    apply IH in B. destruct B as [B1 [B2 B3]]. subst. repeat split.
    + rewrite has_drop_app, A2, B2. reflexivity.
    + apply moves_ok_app; auto.
Qed.

Lemma dedup_phase_dry : forall st os st' its,
  dedup_phase false st os = Some (st', its) -> st' = st /\ has_drop its = false /\ moves_ok its.
Proof.
  intros st os st' its H. unfold dedup_phase in H. destruct (perm_eqb _ _); [|discriminate].
  destruct (dedup_vids false (nodes st) os) as [[ns its0]|] eqn:A; [|discriminate]. inv H.
  apply dedup_vids_dry in A. destruct A as [A [B C]]. subst. destruct st; auto.
Qed.

(* ====================== balanceEcVolumes, EcBalance (dry run) ====================== *)
Lemma quiet_phase : forall a b i, quiet_ok a b i -> phase_ok a b i.
Proof. intros a b i [P _]. exact P. Qed.

Lemma round_ok : forall st o st' its,
  round false st o = Some (st', its) -> wf (nodes st) -> unique (nodes st) ->
  phase_ok (nodes st) (nodes st') its.
Proof.
  intros st o st' its H Hwf U. unfold round in H.
  destruct (dedup_phase false st (ro_dedup o)) as [[st1 i1]|] eqn:A; [|discriminate].
  destruct (across_phase (ro_coll o) st1 (ro_across o)) as [[st2 i2]|] eqn:B; [|discriminate].
  destruct (within_phase (ro_coll o) st2 (ro_within o)) as [[st3 i3]|] eqn:C; [|discriminate]. inv H.
  apply dedup_phase_dry in A. destruct A as [A1 [A2 A3]]. subst st1.
  pose proof (across_phase_ok _ _ _ _ _ B Hwf U) as PB.
  assert (W2 : wf (nodes st2)) by apply PB.
  assert (U2 : unique (nodes st2)) by (eapply phase_ok_unique; eauto).
  pose proof (within_phase_ok _ _ _ _ _ C W2 U2) as PC.
  change (IEvent (ERound (ro_coll o)) :: i1 ++ i2 ++ i3) with ((IEvent (ERound (ro_coll o)) :: i1) ++ i2 ++ i3).
  eapply phase_ok_trans with (b := nodes st).
  - split; auto. split; [intros; lia|]. split; [intros; reflexivity|]. constructor; simpl; auto.
  - eapply phase_ok_trans; [exact PB|apply quiet_phase; exact PC].
Qed.

Lemma rounds_ok : forall os st st' its,
  rounds false st os = Some (st', its) -> wf (nodes st) -> unique (nodes st) ->
  phase_ok (nodes st) (nodes st') its.
Proof.
  induction os as [|o os IH]; intros st st' its H Hwf U; simpl in H.
  - inv H. apply phase_ok_refl; auto.
  - destruct (round false st o) as [[st1 i1]|] eqn:A; [|discriminate].
    destruct (rounds false st1 os) as [[st2 i2]|] eqn:B; [|discriminate]. inv H.
    pose proof (round_ok _ _ _ _ A Hwf U) as P1.
    eapply phase_ok_trans; [exact P1|]. eapply IH; eauto.
    + apply P1.
    + eapply phase_ok_unique; eauto.
Qed.

Theorem run_plan_ok : forall st o st' its,
  run_plan false st o = Some (st', its) -> wf (nodes st) -> unique (nodes st) ->
  phase_ok (nodes st) (nodes st') its.
Proof.
  intros st o st' its H Hwf U. unfold run_plan in H.
  destruct (rounds false st (po_rounds o)) as [[st1 i1]|] eqn:A; [|discriminate].
  pose proof (rounds_ok _ _ _ _ A Hwf U) as P1.
  destruct (po_racks o) as [rbs|].
  - destruct (balance_racks st1 rbs) as [[st2 i2]|] eqn:B; [|discriminate]. inv H.
    eapply phase_ok_trans; [exact P1|]. apply quiet_phase. eapply balance_racks_ok; eauto. apply P1.
  - inv H. exact P1.
Qed.
