(* Proofs about model/EC.v (C06). *)
From Coq Require Import List ZArith NArith Bool Lia ZifyBool.
From SW Require Import model.EC.
Import ListNotations.
Local Open Scope Z_scope.

(* ================= A. lists indexed by Z ================= *)
Lemma zlen_nonneg {A} (l : list A) : 0 <= zlen l.
Proof. unfold zlen. lia. Qed.
Lemma zlen_nil {A} : zlen (@nil A) = 0.
Proof. reflexivity. Qed.
Lemma zlen_cons {A} (x : A) l : zlen (x :: l) = zlen l + 1.
Proof. unfold zlen. simpl length. lia. Qed.
Lemma zlen_app {A} (l1 l2 : list A) : zlen (l1 ++ l2) = zlen l1 + zlen l2.
Proof. unfold zlen. rewrite app_length. lia. Qed.
Lemma zlen_map {A B} (f : A -> B) l : zlen (map f l) = zlen l.
Proof. unfold zlen. rewrite map_length. reflexivity. Qed.

Lemma zcount_length : forall n a, length (zcount a n) = n.
Proof. induction n as [|n IH]; intros a; simpl; auto. Qed.

Lemma zlen_zrange a n : 0 <= n -> zlen (zrange a n) = n.
Proof. intros H. unfold zlen, zrange. rewrite zcount_length. lia. Qed.

Lemma zrange_nonpos a n : n <= 0 -> zrange a n = [].
Proof. intros H. unfold zrange. replace (Z.to_nat n) with O by lia. reflexivity. Qed.

Lemma zcount_app : forall n m a, zcount a (n + m) = zcount a n ++ zcount (a + Z.of_nat n) m.
Proof.
  induction n as [|n IH]; intros m a.
  - simpl. f_equal. lia.
  - cbn [Nat.add zcount app]. f_equal. rewrite IH. f_equal. f_equal. lia.
Qed.

Lemma zrange_app a n m : 0 <= n -> 0 <= m -> zrange a (n + m) = zrange a n ++ zrange (a + n) m.
Proof.
  intros Hn Hm. unfold zrange. rewrite Z2Nat.inj_add by lia. rewrite zcount_app.
  f_equal. f_equal. lia.
Qed.

Lemma zrange_cons a n : 0 <= n -> zrange a (n + 1) = a :: zrange (a + 1) n.
Proof.
  intros Hn. unfold zrange. replace (Z.to_nat (n + 1)) with (S (Z.to_nat n)) by lia. reflexivity.
Qed.

Lemma zcount_nth : forall n a k d, (k < n)%nat -> nth k (zcount a n) d = a + Z.of_nat k.
Proof.
  induction n as [|n IH]; intros a k d Hk; [lia|].
  destruct k as [|k]; simpl zcount; cbn [nth].
  - lia.
  - rewrite IH by lia. lia.
Qed.

Lemma znth_zrange a n k d : 0 <= k < n -> znth (zrange a n) k d = a + k.
Proof. intros H. unfold znth, zrange. rewrite zcount_nth by lia. lia. Qed.

Lemma zcount_in : forall n a x, In x (zcount a n) <-> a <= x < a + Z.of_nat n.
Proof.
  induction n as [|n IH]; intros a x; simpl.
  - lia.
  - rewrite IH. lia.
Qed.

Lemma in_zrange a n x : In x (zrange a n) <-> a <= x < a + n /\ 0 < n.
Proof. unfold zrange. rewrite zcount_in. lia. Qed.

Lemma zcount_shift : forall n a c, zcount (a + c) n = map (fun x => x + c) (zcount a n).
Proof.
  induction n as [|n IH]; intros a c; simpl; auto.
  f_equal. replace (a + c + 1) with (a + 1 + c) by lia. apply IH.
Qed.

Lemma map_zrange_ext {B} (f g : Z -> B) a b n :
  (forall t, 0 <= t < n -> f (a + t) = g (b + t)) -> map f (zrange a n) = map g (zrange b n).
Proof.
  intros H. unfold zrange.
  replace a with (0 + a) at 1 by lia. replace b with (0 + b) at 1 by lia.
  rewrite !zcount_shift, !map_map. apply map_ext_in.
  intros x Hx. apply zcount_in in Hx.
  replace (x + a) with (a + x) by lia. replace (x + b) with (b + x) by lia. apply H. lia.
Qed.

Lemma znth_app_l {A} (l1 l2 : list A) p d : 0 <= p < zlen l1 -> znth (l1 ++ l2) p d = znth l1 p d.
Proof. intros H. unfold znth, zlen in *. apply app_nth1. lia. Qed.

Lemma znth_app_r {A} (l1 l2 : list A) p d : zlen l1 <= p -> znth (l1 ++ l2) p d = znth l2 (p - zlen l1) d.
Proof.
  intros H. unfold znth, zlen in *. rewrite app_nth2 by lia. f_equal. lia.
Qed.

Lemma znth_map {A B} (f : A -> B) l p d d' : 0 <= p < zlen l -> znth (map f l) p d = f (znth l p d').
Proof.
  intros H. unfold znth, zlen in *.
  rewrite nth_indep with (d' := f d') by (rewrite map_length; lia). apply map_nth.
Qed.

Lemma znth_cons_0 {A} (x : A) l d : znth (x :: l) 0 d = x.
Proof. reflexivity. Qed.
Lemma znth_cons_pos {A} (x : A) l p d : 0 < p -> znth (x :: l) p d = znth l (p - 1) d.
Proof.
  intros H. unfold znth. replace (Z.to_nat p) with (S (Z.to_nat (p - 1))) by lia. reflexivity.
Qed.

(* ================= B. slices of the file ================= *)
Definition datz (dat : Z -> byte) (D p : Z) : byte := if p <? D then dat p else 0%N.
Definition dslice (dat : Z -> byte) (a n : Z) : list byte := map dat (zrange a n).

Lemma read_zfill_eq dat D pos len : read_zfill dat D pos len = map (datz dat D) (zrange pos len).
Proof. reflexivity. Qed.

Lemma dslice_app dat a n m : 0 <= n -> 0 <= m -> dslice dat a n ++ dslice dat (a + n) m = dslice dat a (n + m).
Proof. intros. unfold dslice. rewrite zrange_app by lia. rewrite map_app. reflexivity. Qed.

Lemma dslice_0 dat a : dslice dat a 0 = [].
Proof. reflexivity. Qed.

Lemma zlen_dslice dat a n : 0 <= n -> zlen (dslice dat a n) = n.
Proof. intros. unfold dslice. rewrite zlen_map. apply zlen_zrange. lia. Qed.

(* concatenating the consecutive batches of a block gives the block *)
Lemma concat_chunks {B} (g : Z -> B) A buf : 0 <= buf ->
  forall n a0,
  concat (map (fun b => map g (zrange (A + b * buf) buf)) (zcount a0 n)) =
  map g (zrange (A + a0 * buf) (Z.of_nat n * buf)).
Proof.
  intros Hbuf. induction n as [|n IH]; intros a0.
  - reflexivity.
  - cbn [zcount map concat]. rewrite IH.
    replace (Z.of_nat (S n) * buf) with (buf + Z.of_nat n * buf) by lia.
    rewrite zrange_app by lia. rewrite map_app. f_equal. f_equal. f_equal. lia.
Qed.

Lemma concat_map_flat_map {A B C} (f : B -> list C) (g : A -> list B) (l : list A) :
  concat (map f (flat_map g l)) = concat (map (fun r => concat (map f (g r))) l).
Proof.
  induction l as [|x l IH]; simpl; auto.
  rewrite map_app, concat_app, IH. reflexivity.
Qed.

(* uniform chunks: length and indexing *)
Lemma concat_uniform {B} (f : Z -> list B) c d : 0 <= c -> (forall x, zlen (f x) = c) ->
  forall n a,
  zlen (concat (map f (zcount a n))) = Z.of_nat n * c /\
  forall k r, 0 <= k < Z.of_nat n -> 0 <= r < c ->
    znth (concat (map f (zcount a n))) (k * c + r) d = znth (f (a + k)) r d.
Proof.
  intros Hc Hf. induction n as [|n IH]; intros a.
  - split; [reflexivity|]. intros; lia.
  - cbn [zcount map concat]. destruct (IH (a + 1)) as [IHl IHn]. split.
    + rewrite zlen_app, IHl, Hf. lia.
    + intros k r Hk Hr. destruct (Z.eq_dec k 0) as [->|Hk0].
      * replace (0 * c + r) with r by lia. replace (a + 0) with a by lia.
        apply znth_app_l. rewrite Hf. lia.
      * assert (c <= k * c + r) by nia.
        rewrite znth_app_r by (rewrite Hf; lia). rewrite Hf.
        replace (k * c + r - c) with ((k - 1) * c + r) by lia.
        rewrite IHn by lia. f_equal. f_equal. lia.
Qed.

(* ================= C. the rows written by encodeDatFile ================= *)
Definition lrows (L proc R : Z) : list row := map (fun k => (proc + k * (L * 10), L)) (zrange 0 R).
Definition srows (S proc s : Z) : list row := map (fun k => (proc + k * (S * 10), S)) (zrange 0 s).

Lemma rows_cons (c bs proc n : Z) : 0 <= n ->
  map (fun k => (proc + k * c, bs)) (zrange 0 (n + 1)) =
  (proc, bs) :: map (fun k => (proc + c + k * c, bs)) (zrange 0 n).
Proof.
  intros Hn. rewrite zrange_cons by lia. cbn [map]. f_equal.
  - f_equal. lia.
  - apply map_zrange_ext. intros t Ht. f_equal. lia.
Qed.

(* R large rows then s small rows cover D exactly as the encoder's two loops do *)
Definition layout (L S D R s : Z) : Prop :=
  0 <= R /\ 0 <= s /\
  (D <= 0 -> R = 0 /\ s = 0) /\
  (0 < D -> R * (L * 10) < D <= R * (L * 10) + L * 10 /\
            (s - 1) * (S * 10) < D - R * (L * 10) <= s * (S * 10)).

Lemma encode_rows_small_spec S : 0 < S ->
  forall fuel rem proc, (Z.to_nat rem <= fuel)%nat ->
  exists s, 0 <= s /\ (rem <= 0 -> s = 0) /\ (0 < rem -> (s - 1) * (S * 10) < rem <= s * (S * 10)) /\
            encode_rows_small fuel S rem proc = srows S proc s.
Proof.
  intros HS. induction fuel as [|f IH]; intros rem proc Hf.
  - exists 0. repeat split; try lia.
  - cbn [encode_rows_small]. destruct (rem >? 0) eqn:E.
    + destruct (IH (rem - S * 10) (proc + S * 10)) as [s' [Hs0 [Hz [Hp Heq]]]]; [lia|].
      exists (s' + 1). split; [lia|]. split; [lia|]. split.
      * intros _. destruct (Z_le_gt_dec (rem - S * 10) 0) as [Hle|Hgt].
        -- rewrite (Hz Hle). lia.
        -- specialize (Hp ltac:(lia)). lia.
      * rewrite Heq. unfold srows. rewrite rows_cons by lia. reflexivity.
    + exists 0. repeat split; try lia.
Qed.

Lemma encode_rows_large_spec L S : 0 < L -> 0 < S ->
  forall fuel rem proc, (Z.to_nat rem < fuel)%nat ->
  exists R s, layout L S rem R s /\
    encode_rows_large fuel L S rem proc = lrows L proc R ++ srows S (proc + R * (L * 10)) s.
Proof.
  intros HL HS. induction fuel as [|f IH]; intros rem proc Hf; [lia|].
  cbn [encode_rows_large]. destruct (rem >? L * 10) eqn:E.
  - destruct (IH (rem - L * 10) (proc + L * 10)) as [R' [s [Hlay Heq]]]; [lia|].
    exists (R' + 1), s. destruct Hlay as [HR [Hs [Hz Hp]]]. split.
    + unfold layout. split; [lia|]. split; [lia|]. split; [lia|]. intros _.
      specialize (Hp ltac:(lia)). lia.
    + rewrite Heq. unfold lrows. rewrite rows_cons by lia. cbn [app]. f_equal.
      f_equal. f_equal. lia.
  - destruct (encode_rows_small_spec S HS (Z.to_nat rem) rem proc (le_n _)) as [s [Hs0 [Hz [Hp Heq]]]].
    exists 0, s. split.
    + unfold layout. split; [lia|]. split; [lia|]. split; [intros; split; [lia|apply Hz; lia]|].
      intros Hpos. specialize (Hp Hpos). lia.
    + rewrite Heq. unfold lrows. cbn [zrange zcount Z.to_nat map app]. f_equal. lia.
Qed.

Lemma encode_layout_spec L S D : 0 < L -> 0 < S ->
  exists R s, layout L S D R s /\ encode_layout L S D = lrows L 0 R ++ srows S (R * (L * 10)) s.
Proof.
  intros HL HS. unfold encode_layout.
  destruct (encode_rows_large_spec L S HL HS (Datatypes.S (Z.to_nat D)) D 0 ltac:(lia)) as [R [s [H1 H2]]].
  exists R, s. split; auto.
Qed.

(* the layout is a function of D *)
Lemma layout_unique L S D R s R' s' : 0 < L -> 0 < S ->
  layout L S D R s -> layout L S D R' s' -> R = R' /\ s = s'.
Proof.
  intros HL HS [H1 [H2 [H3 H4]]] [H1' [H2' [H3' H4']]].
  destruct (Z_le_gt_dec D 0) as [Hle|Hgt].
  - destruct (H3 Hle), (H3' Hle). lia.
  - specialize (H4 ltac:(lia)). specialize (H4' ltac:(lia)).
    assert (R = R') by nia. subst R'. split; auto. nia.
Qed.

(* with small | large the small rows never exceed one large block per shard *)
Lemma layout_small_le L S D R s m : 0 < S -> 0 < L -> L = m * S -> layout L S D R s -> s * S <= L.
Proof.
  intros HS HL0 HL [H1 [H2 [H3 H4]]].
  destruct (Z_le_gt_dec D 0) as [Hle|Hgt].
  - destruct (H3 Hle). subst s. lia.
  - specialize (H4 ltac:(lia)). subst L. assert (s - 1 < m) by nia. nia.
Qed.

Lemma layout_pos L S D R s : 0 < S -> 0 < D -> layout L S D R s -> 1 <= s.
Proof. intros HS HD [H1 [H2 [H3 H4]]]. specialize (H4 HD). nia. Qed.

(* ================= D. what every data shard file contains ================= *)
(* the block of shard i in a row *)
Definition blk (dat : Z -> byte) (D i : Z) (r : row) : list byte :=
  map (datz dat D) (zrange (fst r + snd r * i) (snd r)).

Lemma row_shard dat D buf i start bs m : 0 < buf -> 0 <= m -> bs = m * buf ->
  concat (map (data_buf dat D buf i) (row_batches buf (start, bs))) = blk dat D i (start, bs).
Proof.
  intros Hbuf Hm Hbs. unfold row_batches, blk. cbn [fst snd].
  replace (Z.quot bs buf) with m by (subst bs; rewrite Z.quot_mul; lia).
  rewrite map_map.
  transitivity (concat (map (fun b => map (datz dat D) (zrange ((start + bs * i) + b * buf) buf))
                            (zcount 0 (Z.to_nat m)))).
  - f_equal. apply map_ext. intros b. unfold data_buf. rewrite read_zfill_eq. f_equal. f_equal. lia.
  - rewrite concat_chunks by lia. f_equal. f_equal; lia.
Qed.

Lemma data_shard_rows dat buf D i rows : 0 < buf ->
  (forall r, In r rows -> exists m, 0 <= m /\ snd r = m * buf) ->
  concat (map (data_buf dat D buf i) (all_batches buf rows)) = concat (map (blk dat D i) rows).
Proof.
  intros Hbuf Hrows. unfold all_batches. rewrite concat_map_flat_map. f_equal.
  apply map_ext_in. intros [start bs] Hin. destruct (Hrows _ Hin) as [m [Hm Hbs]].
  eapply row_shard; eauto.
Qed.

(* region of equal-size rows: length and content of shard i *)
Lemma region_shard dat D i c bs proc n d : 0 <= bs -> 0 <= n ->
  let reg := concat (map (blk dat D i) (map (fun k => (proc + k * c, bs)) (zrange 0 n))) in
  zlen reg = n * bs /\
  forall k r, 0 <= k < n -> 0 <= r < bs -> znth reg (k * bs + r) d = datz dat D (proc + k * c + bs * i + r).
Proof.
  intros Hbs Hn reg. subst reg. rewrite map_map. unfold blk. cbn [fst snd].
  change (zrange 0 n) with (zcount 0 (Z.to_nat n)).
  destruct (concat_uniform (fun k => map (datz dat D) (zrange (proc + k * c + bs * i) bs)) bs d Hbs
              ltac:(intros; cbv beta; rewrite zlen_map; apply zlen_zrange; lia) (Z.to_nat n) 0) as [Hl Hn'].
  split.
  - rewrite Hl. lia.
  - intros k r Hk Hr. rewrite Hn' by lia.
    rewrite znth_map with (d' := 0) by (rewrite zlen_zrange; lia).
    rewrite znth_zrange by lia. f_equal; lia.
Qed.

(* the facts about the shard files that the readers rely on *)
Record enc_facts (dat : Z -> byte) (L S D R s : Z) (sh : list (list byte)) : Prop := {
  ef_len : forall i, 0 <= i < 10 -> zlen (znth sh i []) = R * L + s * S;
  ef_large : forall i k r, 0 <= i < 10 -> 0 <= k < R -> 0 <= r < L ->
     znth (znth sh i []) (k * L + r) 0%N = datz dat D (k * (L * 10) + i * L + r);
  ef_small : forall i k r, 0 <= i < 10 -> 0 <= k < s -> 0 <= r < S ->
     znth (znth sh i []) (R * L + k * S + r) 0%N = datz dat D (R * (L * 10) + k * (S * 10) + i * S + r)
}.

Lemma znth_data_shards dat L S buf D i : 0 <= i < 10 ->
  znth (data_shards dat L S buf D) i [] = data_shard dat L S buf D i.
Proof.
  intros Hi. unfold data_shards. rewrite znth_map with (d' := 0) by (rewrite zlen_zrange; lia).
  rewrite znth_zrange by lia. f_equal.
Qed.

Lemma data_shard_facts dat L S buf D R s ml ms : 0 < L -> 0 < S -> 0 < buf ->
  0 <= ml -> L = ml * buf -> 0 <= ms -> S = ms * buf ->
  layout L S D R s -> encode_layout L S D = lrows L 0 R ++ srows S (R * (L * 10)) s ->
  enc_facts dat L S D R s (data_shards dat L S buf D).
Proof.
  intros HL HS Hbuf Hml HLb Hms HSb Hlay Hrows.
  assert (HR : 0 <= R) by apply Hlay. assert (Hs : 0 <= s) by apply Hlay.
  assert (Hsh : forall i, data_shard dat L S buf D i =
     concat (map (blk dat D i) (lrows L 0 R)) ++ concat (map (blk dat D i) (srows S (R * (L * 10)) s))).
  { intros i. unfold data_shard. rewrite Hrows. rewrite data_shard_rows; auto.
    - rewrite map_app, concat_app. reflexivity.
    - intros r Hin. apply in_app_or in Hin. destruct Hin as [Hin|Hin]; apply in_map_iff in Hin;
        destruct Hin as [k [Hk _]]; subst r; cbn [snd]; eauto. }
  split.
  - intros i Hi. rewrite znth_data_shards by lia. rewrite Hsh, zlen_app.
    destruct (region_shard dat D i (L * 10) L 0 R 0%N ltac:(lia) HR) as [H1 _].
    destruct (region_shard dat D i (S * 10) S (R * (L * 10)) s 0%N ltac:(lia) Hs) as [H2 _].
    unfold lrows, srows. rewrite H1, H2. reflexivity.
  - intros i k r Hi Hk Hr. rewrite znth_data_shards by lia. rewrite Hsh.
    destruct (region_shard dat D i (L * 10) L 0 R 0%N ltac:(lia) HR) as [H1 H1n].
    unfold lrows. rewrite znth_app_l by (rewrite H1; nia).
    rewrite H1n by lia. f_equal. lia.
  - intros i k r Hi Hk Hr. rewrite znth_data_shards by lia. rewrite Hsh.
    destruct (region_shard dat D i (L * 10) L 0 R 0%N ltac:(lia) HR) as [H1 _].
    destruct (region_shard dat D i (S * 10) S (R * (L * 10)) s 0%N ltac:(lia) Hs) as [_ H2n].
    unfold lrows, srows. rewrite znth_app_r by (rewrite H1; nia). rewrite H1.
    replace (R * L + k * S + r - R * L) with (k * S + r) by lia.
    rewrite H2n by lia. f_equal. lia.
Qed.
