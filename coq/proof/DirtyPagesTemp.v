(* C30: theorems about the temp-file dirty pages (WrittenContinuousIntervals / TempFileDirtyPages). *)
From Coq Require Import List ZArith NArith Bool Lia.
From SW Require Import model.DirtyPages proof.DirtyPagesBase proof.DirtyPagesIntervals proof.DirtyPagesState
                       proof.DirtyPagesMem.
Import ListNotations.
Local Open Scope Z_scope.

Ltac bfin :=
  brefl; try reflexivity;
  repeat match goal with |- context [match ?x with Some _ => _ | None => _ end] => destruct x end; reflexivity.

(* ================= the temp-file instance: a node's bytes live in the temp file ================= *)
Definition t_valid (tf : list N) (t : tnode) : Prop :=
  0 < n_size t /\ 0 <= n_pay t /\ n_pay t + n_size t <= zlen tf.

Lemma t_nbytes : forall tf t, nbytes Z (t_fetch tf) t = slice tf (n_pay t) (n_pay t + n_size t).
Proof. intros. unfold nbytes, t_fetch. rewrite Z.add_0_r. reflexivity. Qed.

Lemma t_H_len : forall tf t, t_valid tf t -> 0 < n_size t /\ zlen (nbytes Z (t_fetch tf) t) = n_size t.
Proof.
  intros tf t [H1 [H2 H3]]. split; auto. rewrite t_nbytes. rewrite zlen_slice; lia.
Qed.

Lemma t_H_fetch : forall tf t a b, t_valid tf t -> 0 <= a -> a <= b -> b <= n_size t ->
  t_fetch tf (n_pay t) a b = slice (nbytes Z (t_fetch tf) t) a b.
Proof.
  intros tf t a b [H1 [H2 H3]] Ha Hab Hb. rewrite t_nbytes. unfold t_fetch.
  rewrite slice_slice by lia. reflexivity.
Qed.

Lemma t_H_sub : forall tf t a b, t_valid tf t -> 0 <= a -> a < b -> b <= n_size t ->
  t_valid tf {| n_off := n_off t + a; n_size := b - a; n_pay := t_psub (n_pay t) a b |} /\
  nbytes Z (t_fetch tf) {| n_off := n_off t + a; n_size := b - a; n_pay := t_psub (n_pay t) a b |}
  = slice (nbytes Z (t_fetch tf) t) a b.
Proof.
  intros tf t a b [H1 [H2 H3]] Ha Hab Hb. split.
  - unfold t_valid, t_psub. cbn [n_size n_pay]. lia.
  - rewrite !t_nbytes. unfold t_psub. cbn [n_size n_pay]. rewrite slice_slice by lia.
    f_equal. lia.
Qed.

Lemma t_H_merge : forall tf (t u w : tnode), t_valid tf t -> t_valid tf u -> n_off u = n_off t + n_size t ->
  t_merge t u = Some w ->
  t_valid tf w /\ n_off w = n_off t /\ n_size w = n_size t + n_size u /\
  nbytes Z (t_fetch tf) w = nbytes Z (t_fetch tf) t ++ nbytes Z (t_fetch tf) u.
Proof.
  intros tf t u w [H1 [H2 H3]] [U1 [U2 U3]] Ho Hm. unfold t_merge in Hm.
  destruct (n_pay t + n_size t =? n_pay u) eqn:E; [|discriminate]. apply Z.eqb_eq in E.
  inversion Hm; subst w. cbn [n_off n_size n_pay].
  split; [unfold t_valid; cbn [n_size n_pay]; lia|]. split; auto. split; auto.
  rewrite !t_nbytes. cbn [n_size n_pay].
  rewrite (slice_split tf (n_pay t) (n_pay t + n_size t) (n_pay t + (n_size t + n_size u))) by lia.
  f_equal. f_equal; lia.
Qed.

Notation t_wf tf := (wf Z (t_valid tf)).
Notation t_wfl tf := (wfl Z (t_valid tf)).
Notation t_cat tf := (cat Z (t_fetch tf)).
Notation t_lat tf := (lat Z (t_fetch tf)).
Notation t_nat tf := (nat_ Z (t_fetch tf)).

(* ---- the temp file only grows: earlier nodes keep their bytes ---- *)
Lemma t_valid_mono : forall tf d t, t_valid tf t -> t_valid (tf ++ d) t.
Proof.
  intros tf d t [H1 [H2 H3]]. unfold t_valid. rewrite zlen_app. pose proof (zlen_nonneg d). lia.
Qed.

Lemma t_chain_mono : forall tf d l, chain Z (t_valid tf) l -> chain Z (t_valid (tf ++ d)) l.
Proof.
  induction l as [|t l IH]; simpl; auto. intros [H1 [H2 H3]]. split; [apply t_valid_mono; auto|]. split; auto.
Qed.

Lemma t_wf_mono : forall tf d c, t_wf tf c -> t_wf (tf ++ d) c.
Proof.
  intros tf d c [H1 H2]. split; auto. rewrite Forall_forall in *. intros l Hl.
  destruct (H1 l Hl) as [A B]. split; auto. apply t_chain_mono; auto.
Qed.

Lemma t_nat_mono : forall tf d t p, t_valid tf t -> t_nat (tf ++ d) t p = t_nat tf t p.
Proof.
  intros tf d t p [H1 [H2 H3]]. unfold nat_. rewrite !t_nbytes. rewrite slice_app_l by lia. reflexivity.
Qed.

Lemma t_lat_mono : forall tf d l p, Forall (t_valid tf) l -> t_lat (tf ++ d) l p = t_lat tf l p.
Proof.
  induction l as [|t l IH]; intros p H; simpl; auto. inversion H; subst.
  rewrite t_nat_mono by auto. rewrite IH by auto. reflexivity.
Qed.

Lemma t_cat_mono : forall tf d c p, t_wf tf c -> t_cat (tf ++ d) c p = t_cat tf c p.
Proof.
  induction c as [|l c IH]; intros p [H1 H2]; simpl; auto.
  inversion H1 as [|? ? Hl Hc]; subst. destruct H2 as [_ H2]. destruct Hl as [_ Hl].
  rewrite t_lat_mono by (eapply chain_valid; eauto). rewrite IH by (split; auto). reflexivity.
Qed.

Definition t_node (off : Z) (data : list N) (tf : list N) : tnode :=
  {| n_off := off; n_size := zlen data; n_pay := zlen tf |}.

Theorem t_add_spec : forall tf c off data, t_wf tf c -> data <> [] ->
  t_wf (tf ++ data) (t_add c (t_node off data tf)) /\
  forall p, t_cat (tf ++ data) (t_add c (t_node off data tf)) p =
            if (off <=? p) && (p <? off + zlen data) then zget data (p - off) else t_cat tf c p.
Proof.
  intros tf c off data Hwf Hd.
  assert (Hlen : 0 < zlen data).
  { destruct data; [congruence|]. rewrite zlen_cons. pose proof (zlen_nonneg data). lia. }
  assert (Hv : t_valid (tf ++ data) (t_node off data tf)).
  { unfold t_valid, t_node. cbn [n_size n_pay]. rewrite zlen_app. pose proof (zlen_nonneg tf). lia. }
  destruct (add_interval_spec Z t_psub t_merge (t_fetch (tf ++ data)) (t_valid (tf ++ data))
              (t_H_len _) (t_H_sub _) (t_H_merge _) c (t_node off data tf) (t_wf_mono tf data c Hwf) Hv) as [H1 H2].
  split; auto. intros p. unfold t_add. rewrite H2.
  unfold nat_ at 1. rewrite t_nbytes.
  change (n_off (t_node off data tf)) with off. change (n_size (t_node off data tf)) with (zlen data).
  change (n_pay (t_node off data tf)) with (zlen tf).
  rewrite slice_app_r. rewrite t_cat_mono by auto.
  destruct ((off <=? p) && (p <? off + zlen data)) eqn:E; auto.
  apply andb_true_iff in E. destruct E as [E1 E2]. apply Z.leb_le in E1. apply Z.ltb_lt in E2.
  destruct (zget_in_range data (p - off)) as [b Hb]; [lia|]. rewrite Hb. auto.
Qed.

(* ================= FlushData: the pieces of one list ================= *)
Lemma fold_add_chunk : forall saved m,
  f_attr (fold_left add_chunk saved m) = f_attr m /\
  f_chunks (fold_left add_chunk saved m) = f_chunks m ++ saved /\
  f_pin (fold_left add_chunk saved m) = f_pin m.
Proof.
  induction saved as [|c saved IH]; intros m; simpl.
  - rewrite app_nil_r. auto.
  - destruct (IH (add_chunk m c)) as [A [B C]]. rewrite A, B, C. cbn [add_chunk f_attr f_chunks f_pin].
    rewrite <- app_assoc. auto.
Qed.

Lemma t_pieces_spec : forall tf limit l, t_wfl tf l -> 0 < limit ->
  forall fuel u, 0 <= u ->
  (forall c, In c (t_pieces fuel tf l limit u (tail_end Z l)) ->
     Z.max (head_off Z l) u <= fst c /\ fst c + zlen (snd c) <= tail_end Z l) /\
  (forall p, cget (t_pieces fuel tf l limit u (tail_end Z l)) p =
             if (u <=? p) && (p <? Z.min (tail_end Z l) (u + Z.of_nat fuel * limit)) then t_lat tf l p else None).
Proof.
  intros tf limit l Hw Hlim. pose proof Hw as [Hne Hc].
  pose proof (wfl_hd_lt_te Z (t_fetch tf) (t_valid tf) (t_H_len tf) l Hw) as Hlt.
  induction fuel as [|fuel IH]; intros u Hu.
  - simpl. split; [intros c []|]. intros p. bfin.
  - cbn [t_pieces]. destruct (u <? tail_end Z l) eqn:E.
    + apply Z.ltb_lt in E.
      destruct (IH (u + limit)) as [I1 I2]; [lia|].
      set (start := Z.max (head_off Z l) u). set (stop := Z.min (tail_end Z l) (u + limit)).
      replace (u + Z.of_nat (S fuel) * limit) with (u + limit + Z.of_nat fuel * limit) by lia.
      destruct (start <? stop) eqn:E1; cycle 1.
      { (* the page lies wholly before the list: `continue` *)
        apply Z.ltb_ge in E1. cbn [app]. split.
        - intros c Hc'. destruct (I1 c Hc'). lia.
        - intros p. rewrite I2. unfold start, stop in E1.
          destruct (Z_lt_dec p (head_off Z l)).
          + rewrite (lat_none_outside Z (t_fetch tf) (t_valid tf) (t_H_len tf) l p Hw) by lia.
            bfin.
          + bfin. }
      apply Z.ltb_lt in E1. rename E1 into Hss.
      destruct (list_bytes_spec Z t_psub (t_fetch tf) (t_valid tf) (t_H_len tf) (t_H_fetch tf) (t_H_sub tf)
                  l start stop Hw) as [B1 B2]; try (unfold start, stop; lia).
      assert (Hlb : limit_bytes (list_bytes Z (t_fetch tf) l start stop) (stop - start)
                    = list_bytes Z (t_fetch tf) l start stop).
      { unfold limit_bytes. rewrite <- B1. apply firstn_zlen. }
      rewrite Hlb. split.
      * intros c Hc'. cbn [app] in Hc'. destruct Hc' as [Hc'|Hc'].
        { subst c. cbn [fst snd]. rewrite B1. unfold start, stop. lia. }
        { destruct (I1 c Hc'). lia. }
      * intros p. cbn [app cget]. rewrite I2. unfold covers. cbn [fst snd]. rewrite B1.
        replace (start + (stop - start)) with stop by lia.
        destruct (Z_le_dec start p); [destruct (Z_lt_dec p stop)|].
        { rewrite B2 by lia. replace (start + (p - start)) with p by lia.
          unfold start, stop in *. bfin. }
        { unfold start, stop in *. bfin. }
        { (* below the list *)
          unfold start, stop in *.
          destruct (Z_lt_dec p (head_off Z l)).
          - rewrite (lat_none_outside Z (t_fetch tf) (t_valid tf) (t_H_len tf) l p Hw) by lia.
            bfin.
          - bfin. }
    + apply Z.ltb_ge in E. split; [intros c []|]. intros p. simpl. bfin.
Qed.

Lemma t_list_chunks_spec : forall tf limit l, t_wfl tf l -> 0 < limit -> 0 <= head_off Z l ->
  (forall c, In c (t_list_chunks tf limit l) ->
     head_off Z l <= fst c /\ fst c + zlen (snd c) <= tail_end Z l) /\
  (forall p, cget (t_list_chunks tf limit l) p = t_lat tf l p).
Proof.
  intros tf limit l Hw Hlim Hhd. unfold t_list_chunks.
  pose proof (wfl_hd_lt_te Z (t_fetch tf) (t_valid tf) (t_H_len tf) l Hw) as Hlt.
  replace (head_off Z l + l_size Z l) with (tail_end Z l) by (unfold l_size; lia).
  replace (Z.max 1 limit) with limit by lia.
  set (fuel := S (Z.to_nat (tail_end Z l / limit))).
  destruct (t_pieces_spec tf limit l Hw Hlim fuel 0) as [P1 P2]; [lia|].
  split.
  - intros c Hc. destruct (P1 c Hc). lia.
  - intros p. rewrite P2.
    assert (Hf : tail_end Z l <= 0 + Z.of_nat fuel * limit).
    { unfold fuel. rewrite Nat2Z.inj_succ, Z2Nat.id by (apply Z.div_pos; lia).
      pose proof (Z.div_mod (tail_end Z l) limit). pose proof (Z.mod_pos_bound (tail_end Z l) limit). nia. }
    destruct (Z_le_dec 0 p); [destruct (Z_lt_dec p (tail_end Z l))|].
    + bfin.
    + rewrite (lat_none_outside Z (t_fetch tf) (t_valid tf) (t_H_len tf) l p Hw) by lia. bfin.
    + rewrite (lat_none_outside Z (t_fetch tf) (t_valid tf) (t_H_len tf) l p Hw) by lia. bfin.
Qed.

Lemma t_all_chunks_spec : forall tf limit c, t_wf tf c -> 0 < limit ->
  (forall l, In l c -> 0 <= head_off Z l) ->
  (forall k, In k (flat_map (t_list_chunks tf limit) c) ->
     exists l, In l c /\ head_off Z l <= fst k /\ fst k + zlen (snd k) <= tail_end Z l) /\
  (forall p, cget (flat_map (t_list_chunks tf limit) c) p = t_cat tf c p).
Proof.
  intros tf limit. induction c as [|l c IH]; intros Hwf Hlim Hpos.
  - simpl. split; [intros k []|auto].
  - destruct Hwf as [Hw Hp]. inversion Hw as [|? ? Hwl Hwc]; subst. destruct Hp as [Hs Hp].
    assert (Hwf' : t_wf tf c) by (split; auto).
    destruct (IH Hwf' Hlim) as [I1 I2]; [intros; apply Hpos; right; auto|].
    destruct (t_list_chunks_spec tf limit l Hwl Hlim) as [L1 L2]; [apply Hpos; left; auto|].
    cbn [flat_map]. split.
    + intros k Hk. apply in_app_or in Hk. destruct Hk as [Hk|Hk].
      * exists l. split; [left; auto|]. apply L1; auto.
      * destruct (I1 k Hk) as [m [Hm Hr]]. exists m. split; [right; auto|auto].
    + intros p. rewrite cget_app, I2, L2. cbn [cat].
      destruct (t_lat tf l p) eqn:E1; destruct (t_cat tf c p) eqn:E2; auto.
      exfalso. apply (cat_holds Z (t_fetch tf) (t_valid tf) (t_H_len tf) c p _ Hwf') in E2.
      destruct E2 as [m [Hm E2]]. rewrite Forall_forall in Hs, Hwc.
      eapply (sepd_disjoint Z (t_fetch tf) (t_valid tf) (t_H_len tf) l m); eauto.
Qed.

(* ================= TempFileDirtyPages: the invariant ================= *)
Record tinv (s : tstate) (g : Z -> N) (A : Z) : Prop := {
  ti_wf : t_wf (t_file s) (t_iv s);
  ti_none : t_tf s = None -> t_iv s = [];
  ti_attr : f_attr (t_meta s) = A;
  ti_A : 0 <= A;
  ti_lists : forall l, In l (t_iv s) -> 0 <= head_off _ l /\ tail_end _ l <= A;
  ti_chunks : forall c, In c (f_chunks (t_meta s)) -> 0 <= fst c /\ fst c + zlen (snd c) <= A;
  ti_bytes : forall p, 0 <= p < A ->
     g p = match t_cat (t_file s) (t_iv s) p with
           | Some b => b
           | None => match cget (f_chunks (t_meta s)) p with Some b => b | None => 0%N end
           end }.

Lemma t_add_page_inv : forall s g A off data, tinv s g A ->
  0 <= off -> data <> [] -> off + zlen data <= A ->
  tinv (t_add_page s off data) (override g off data) A.
Proof.
  intros s g A off data [H1 H0 H2 H3 H4 H5 H6] Hoff Hd Hend.
  unfold t_add_page. fold (t_node off data (t_file s)).
  destruct (t_add_spec (t_file s) (t_iv s) off data H1 Hd) as [W C].
  assert (Hlen : 0 < zlen data).
  { destruct data; [congruence|]. rewrite zlen_cons. pose proof (zlen_nonneg data). lia. }
  constructor; cbn [t_iv t_tf t_meta t_file]; auto.
  - intros Hn. discriminate.
  - intros l Hl. pose proof W as W0. destruct W as [Wl Wp]. rewrite Forall_forall in Wl. pose proof (Wl l Hl) as Hwl.
    pose proof (wfl_hd_lt_te Z _ _ (t_H_len (t_file s ++ data)) l Hwl) as Hlt.
    assert (Hpt : forall p, head_off _ l <= p < tail_end _ l -> 0 <= p < A).
    { intros p Hp. destruct Hwl as [N1 N2].
      destruct (lat_in_range Z _ _ (t_H_len (t_file s ++ data)) l p N1 N2 Hp) as [b Hb].
      assert (Hc : t_cat (t_file s ++ data) (t_add (t_iv s) (t_node off data (t_file s))) p = Some b).
      { apply (cat_holds Z _ _ (t_H_len (t_file s ++ data)) _ p b W0). exists l. auto. }
      rewrite C in Hc.
      destruct ((off <=? p) && (p <? off + zlen data)) eqn:E.
      - apply andb_true_iff in E. destruct E as [E1 E2]. apply Z.leb_le in E1. apply Z.ltb_lt in E2. lia.
      - apply (cat_holds Z _ _ (t_H_len (t_file s)) _ p b H1) in Hc. destruct Hc as [m [Hm Hb']].
        destruct (H4 m Hm). destruct H1 as [Q1 _]. rewrite Forall_forall in Q1. destruct (Q1 m Hm) as [M1 M2].
        pose proof (lat_some_range Z _ _ (t_H_len (t_file s)) m p b M1 M2 Hb'). lia. }
    pose proof (Hpt (head_off _ l)). pose proof (Hpt (tail_end _ l - 1)). lia.
  - intros p Hp. rewrite C. unfold override.
    destruct ((off <=? p) && (p <? off + zlen data)) eqn:E.
    + apply andb_true_iff in E. destruct E as [E1 E2]. apply Z.leb_le in E1. apply Z.ltb_lt in E2.
      rewrite pget_zget by lia. auto.
    + apply H6; auto.
Qed.

Lemma t_flush_inv : forall limit s g A, tinv s g A -> 0 < limit ->
  tinv (t_flush limit s) g A /\ t_iv (t_flush limit s) = [].
Proof.
  intros limit s g A [H1 H0 H2 H3 H4 H5 H6] Hlim. unfold t_flush.
  destruct (fold_add_chunk (flat_map (t_list_chunks (t_file s) limit) (t_iv s)) (t_meta s)) as [F1 [F2 F3]].
  destruct (t_all_chunks_spec (t_file s) limit (t_iv s) H1 Hlim) as [S1 S2].
  { intros l Hl. apply H4; auto. }
  assert (Hiv : match t_tf s with Some _ => [] | None => t_iv s end = []).
  { destruct (t_tf s) eqn:E; auto. }
  split; [|cbn [t_iv]; auto].
  constructor; cbn [t_iv t_tf t_meta t_file]; rewrite ?Hiv; auto.
  - split; simpl; auto.
  - rewrite F1. auto.
  - intros l [].
  - rewrite F2. intros c Hc. apply in_app_or in Hc. destruct Hc as [Hc|Hc]; auto.
    destruct (S1 c Hc) as [l [Hl [A1 A2]]]. destruct (H4 l Hl). lia.
  - intros p Hp. rewrite F2, cget_app, S2. cbn [cat]. rewrite (H6 p Hp).
    destruct (t_cat (t_file s) (t_iv s) p); auto.
Qed.

Definition tinv_f (s : tstate) (f : list N) : Prop := tinv s (pget f) (zlen f).

Lemma tinv_ext : forall s g g' A, (forall p, 0 <= p < A -> g p = g' p) -> tinv s g A -> tinv s g' A.
Proof.
  intros s g g' A H [H1 H0 H2 H3 H4 H5 H6]. constructor; auto. intros p Hp. rewrite <- H by auto. auto.
Qed.

Lemma tinv_grow : forall s f A', tinv_f s f -> zlen f <= A' ->
  tinv {| t_iv := t_iv s; t_tf := t_tf s; t_meta := set_attr (t_meta s) A' |} (pget f) A'.
Proof.
  intros s f A' [H1 H0 H2 H3 H4 H5 H6] HA.
  constructor; cbn [t_iv t_tf t_meta t_file set_attr f_attr f_chunks]; auto; try lia.
  - intros l Hl. destruct (H4 l Hl). lia.
  - intros c Hc. destruct (H5 c Hc). lia.
  - intros p Hp.
    change (t_file {| t_iv := t_iv s; t_tf := t_tf s; t_meta := set_attr (t_meta s) A' |}) with (t_file s).
    destruct (Z_lt_dec p (zlen f)); [apply H6; lia|].
    rewrite pget_beyond by lia.
    assert (Hc : t_cat (t_file s) (t_iv s) p = None).
    { destruct (t_cat (t_file s) (t_iv s) p) eqn:E; auto. exfalso.
      apply (cat_holds Z _ _ (t_H_len (t_file s)) _ p n0 H1) in E. destruct E as [m [Hm E]].
      destruct (H4 m Hm). destruct H1 as [Q1 _]. rewrite Forall_forall in Q1. destruct (Q1 m Hm) as [M1 M2].
      pose proof (lat_some_range Z _ _ (t_H_len (t_file s)) m p n0 M1 M2 E). lia. }
    rewrite Hc.
    assert (Hg : cget (f_chunks (t_meta s)) p = None).
    { clear - H5 n. induction (f_chunks (t_meta s)) as [|c cs IH]; auto. simpl.
      rewrite IH by (intros; apply H5; right; auto).
      destruct (H5 c (or_introl eq_refl)). unfold covers. bfin. }
    rewrite Hg. auto.
Qed.

Definition t_ends (s : tstate) : list Z := map (tail_end Z) (t_iv s).

Lemma t_step_inv : forall limit s f o, tinv_f s f -> 0 < limit -> op_ok o ->
  trig_at (t_ends s) (t_meta s) o = None \/ (exists off len, o = Read off len) ->
  tinv_f (fst (t_step limit s o)) (pstep f o).
Proof.
  intros limit s f o I Hlim Hok Htr. unfold tinv_f in *.
  destruct o as [off data|n| |off len]; cbn [t_step pstep fst].
  - (* Write *)
    destruct Hok as [Hoff Hd]. destruct (pwrite_spec f off data Hoff) as [Hlen Hget].
    pose proof I as [H1 H0 H2 H3 H4 H5 H6]. rewrite H2.
    apply (tinv_ext _ (override (pget f) off data)); [intros; symmetry; apply pget_override; auto|].
    rewrite Hlen. replace (Z.max (zlen f) (off + zlen data)) with (Z.max (off + zlen data) (zlen f)) by lia.
    apply t_add_page_inv; auto; try lia.
    apply (tinv_grow s f); auto. lia.
  - (* Truncate *)
    cbn [op_ok] in Hok. destruct (ptrunc_spec f n Hok) as [Hlen Hget].
    destruct Htr as [Htr|[? [? Htr]]]; [|discriminate].
    pose proof I as [H1 H0 H2 H3 H4 H5 H6].
    assert (Hfs : file_size (f_attr (t_meta s)) (f_chunks (t_meta s)) = zlen f).
    { rewrite H2. apply file_size_attr; auto. intros c Hc. apply H5; auto. }
    cbn [trig_at] in Htr. rewrite Hfs in Htr. unfold truncate. rewrite Hfs. rewrite Hlen.
    destruct (n <? zlen f) eqn:E.
    + apply Z.ltb_lt in E.
      destruct (existsb (fun e => n <? e) (t_ends s)) eqn:E1; [discriminate|].
      assert (Hl : forall l, In l (t_iv s) -> tail_end _ l <= n).
      { intros l Hl. destruct (Z_le_dec (tail_end _ l) n); auto. exfalso.
        assert (existsb (fun e => n <? e) (t_ends s) = true).
        { apply existsb_exists. exists (tail_end _ l). split; [unfold t_ends; apply in_map; auto|]. apply Z.ltb_lt. lia. }
        congruence. }
      constructor; cbn [t_iv t_tf t_meta t_file f_attr f_chunks]; auto.
      * intros l Hl'. destruct (H4 l Hl'). split; auto.
      * intros c Hc'. destruct (truncate_chunks_in n _ c Hc') as [c0 [A1 [A2 A3]]].
        destruct (H5 c0 A1). split; lia.
      * intros p Hp. rewrite Hget. destruct (p <? n) eqn:E3; [|apply Z.ltb_ge in E3; lia].
        rewrite cget_truncate by lia. apply H6. lia.
    + apply Z.ltb_ge in E.
      apply (tinv_ext _ (pget f)).
      { intros p Hp. rewrite Hget. destruct (p <? n) eqn:E3; auto. apply Z.ltb_ge in E3. lia. }
      pose proof (tinv_grow s f n I E) as G. destruct G as [G1 G0 G2 G3 G4 G5 G6].
      constructor; auto.
  - (* Flush *)
    destruct (t_flush_inv limit s (pget f) (zlen f) I Hlim). auto.
  - (* Read *)
    destruct (t_dirty_read s (repeat 0%N (Z.to_nat len)) off) as [d ms].
    destruct (handle_read (t_meta s) (t_dirty_read s) off len) as [data m'] eqn:E. cbn [fst].
    assert (Hm : f_attr m' = f_attr (t_meta s) /\ f_chunks m' = f_chunks (t_meta s)).
    { unfold handle_read in E. destruct (read_chunks (t_meta s) off len) as [[b t] pin].
      destruct (t_dirty_read s b off). inversion E; subst. auto. }
    destruct Hm as [Hm1 Hm2]. destruct I as [H1 H0 H2 H3 H4 H5 H6].
    constructor; cbn [t_iv t_tf t_meta t_file]; auto; try (rewrite Hm1; auto); try (rewrite Hm2; auto).
Qed.

Lemma tinv0 : tinv_f tstate0 [].
Proof.
  unfold tinv_f. constructor; cbn; auto; try lia.
  split; simpl; auto.
Qed.

Lemma t_exec_inv : forall limit ops s f, tinv_f s f -> 0 < limit -> Forall op_ok ops ->
  trigger tstate (t_step limit) (fun s => map (tail_end Z) (t_iv s)) t_meta s ops = None ->
  tinv_f (exec tstate (t_step limit) s ops) (fold_left pstep ops f).
Proof.
  intros limit. induction ops as [|o ops IH]; intros s f I Hlim Hok Htr; simpl; auto.
  inversion Hok as [|? ? Ho Hops]; subst. simpl in Htr.
  destruct (trig_at (map (tail_end Z) (t_iv s)) (t_meta s) o) eqn:E; [discriminate|].
  apply IH; auto. apply t_step_inv; auto.
Qed.

Lemma t_flush_content : forall limit s f, tinv_f s f -> 0 < limit -> content_of (t_meta (t_flush limit s)) = f.
Proof.
  intros limit s f I Hlim. destruct (t_flush_inv limit s (pget f) (zlen f) I Hlim) as [[H1 H0 H2 H3 H4 H5 H6] Hnil].
  unfold content_of. rewrite H2.
  rewrite file_size_attr by (auto; intros c Hc; apply H5; auto).
  destruct (resolve_spec (zlen f) (f_chunks (t_meta (t_flush limit s))) H3) as [R1 R2].
  { intros c Hc. apply H5; auto. }
  apply zget_ext. intros p.
  destruct (Z_lt_dec p 0); [|destruct (Z_le_dec (zlen f) p)].
  - transitivity (@None N); [|symmetry]; apply zget_none; lia.
  - transitivity (@None N); [|symmetry]; apply zget_none; lia.
  - rewrite R2 by lia. rewrite pget_zget by lia. f_equal. symmetry.
    rewrite (H6 p) by lia. rewrite Hnil. reflexivity.
Qed.

Theorem t_flush_is_posix : forall limit pre post, 0 < limit ->
  Forall op_ok (pre ++ Flush :: post) ->
  t_trigger limit (pre ++ Flush :: post) = None ->
  content_of (t_meta (exec tstate (t_step limit) tstate0 (pre ++ [Flush]))) = pfile (pre ++ [Flush]).
Proof.
  intros limit pre post Hlim Hok Htr. unfold t_trigger in Htr.
  apply trigger_app in Htr. destruct Htr as [Hpre _].
  apply Forall_app in Hok. destruct Hok as [Hok _].
  pose proof (t_exec_inv limit pre tstate0 [] tinv0 Hlim Hok Hpre) as I.
  rewrite exec_app, pfile_app. cbn [exec t_step fst fold_left pstep].
  apply t_flush_content; auto.
Qed.

(* ================= well-formedness along EVERY history ================= *)
Definition t_ok (s : tstate) : Prop := t_wf (t_file s) (t_iv s) /\ (t_tf s = None -> t_iv s = []).

Lemma t_step_ok : forall limit s o, t_ok s -> op_ok o -> t_ok (fst (t_step limit s o)).
Proof.
  intros limit s o [W Hn] Hok. destruct o as [off data|n| |off len]; cbn [t_step fst].
  - destruct Hok as [_ Hd]. unfold t_add_page. cbn [t_iv t_tf t_meta].
    fold (t_node off data (t_file s)).
    destruct (t_add_spec (t_file s) (t_iv s) off data W Hd) as [W' _].
    split; cbn [t_iv t_tf t_file]; auto. intros; discriminate.
  - split; auto.
  - unfold t_flush. split; cbn [t_iv t_tf t_file].
    + destruct (t_tf s) eqn:E; [split; simpl; auto|]. rewrite (Hn eq_refl). split; simpl; auto.
    + intros _. destruct (t_tf s) eqn:E; auto.
  - destruct (t_dirty_read s (repeat 0%N (Z.to_nat len)) off).
    destruct (handle_read (t_meta s) (t_dirty_read s) off len). split; auto.
Qed.

Theorem t_lists_wellformed : forall limit ops, Forall op_ok ops ->
  t_ok (exec tstate (t_step limit) tstate0 ops).
Proof.
  intros limit ops. assert (G : forall s, t_ok s -> Forall op_ok ops -> t_ok (exec tstate (t_step limit) s ops)).
  { induction ops as [|o ops IH]; intros s W Hok; simpl; auto.
    inversion Hok; subst. apply IH; auto. apply t_step_ok; auto. }
  apply G. split; [split; simpl; auto|auto].
Qed.

(* ================= ReadDataAt returns the latest write ================= *)
Definition t_adds (ws : list (Z * list N)) (s : tstate) : tstate :=
  fold_left (fun s w => t_add_page s (fst w) (snd w)) ws s.

Lemma t_adds_spec : forall ws s, t_wf (t_file s) (t_iv s) -> Forall (fun w => snd w <> []) ws ->
  t_wf (t_file (t_adds ws s)) (t_iv (t_adds ws s)) /\
  forall p, t_cat (t_file (t_adds ws s)) (t_iv (t_adds ws s)) p = latest_from (t_cat (t_file s) (t_iv s) p) ws p.
Proof.
  induction ws as [|w ws IH]; intros s W Hne; simpl; auto.
  inversion Hne as [|? ? Hw Hws]; subst.
  destruct (t_add_spec (t_file s) (t_iv s) (fst w) (snd w) W Hw) as [W1 C1].
  assert (W1' : t_wf (t_file (t_add_page s (fst w) (snd w))) (t_iv (t_add_page s (fst w) (snd w)))) by exact W1.
  destruct (IH _ W1' Hws) as [W2 C2]. split; auto.
  intros p. rewrite C2. unfold t_add_page at 1 2. cbn [t_iv t_tf t_file].
  fold (t_node (fst w) (snd w) (t_file s)). rewrite C1. unfold covers. reflexivity.
Qed.

Theorem t_buffer_holds_latest : forall ws, Forall (fun w => snd w <> []) ws ->
  t_wf (t_file (t_adds ws tstate0)) (t_iv (t_adds ws tstate0)) /\
  forall p, t_cat (t_file (t_adds ws tstate0)) (t_iv (t_adds ws tstate0)) p = latest ws p.
Proof.
  intros ws H. apply (t_adds_spec ws tstate0); auto. split; simpl; auto.
Qed.

Theorem t_read_is_posix : forall ws buf so i, Forall (fun w => snd w <> []) ws -> 0 <= i < zlen buf ->
  zget (fst (t_dirty_read (t_adds ws tstate0) buf so)) i =
  match latest ws (so + i) with Some b => Some b | None => zget buf i end.
Proof.
  intros ws buf so i Hne Hi. destruct (t_buffer_holds_latest ws Hne) as [W C]. unfold t_dirty_read.
  destruct (read_data_at_spec Z (t_fetch (t_file (t_adds ws tstate0))) (t_valid (t_file (t_adds ws tstate0)))
              (t_H_len _) (t_H_fetch _) (t_iv (t_adds ws tstate0)) buf so W) as [_ [R _]].
  rewrite R. destruct (0 <=? i) eqn:E1; [|apply Z.leb_gt in E1; lia].
  destruct (i <? zlen buf) eqn:E2; [|apply Z.ltb_ge in E2; lia]. cbn [andb]. rewrite C. reflexivity.
Qed.
