(* C20: the three generic transitions of a link-free, manifest-free state — an entry written
   at a name, names removed, an entry moved — and what each needs from the scheduled chunk ids
   for "no live chunk deleted" and "all garbage scheduled". *)
From Coq Require Import List NArith ZArith Bool String Arith Lia Permutation.
From SW Require Import model.FilerNS proof.FilerNSBase model.Chunks model.HardLink model.FilerGC
  proof.HardLinkBase proof.HardLinkInv proof.HardLinkOps proof.FilerGCBase.
Import ListNotations.
Local Open Scope list_scope.

(* the outcome of one operation: the new state is again link-free with exclusive chunk ownership,
   nothing scheduled is referenced afterwards, and (if the operation asked for the data to go)
   everything that stopped being referenced is scheduled *)
Record Good (ev : env) (s s' : st) (sched : list N) (req : bool) : Prop := {
  g_ps : PS s';
  g_excl : Excl s';
  g_live : forall c, In c sched -> ~ In c (refs ev s');
  g_garb : req = true -> forall c, In c (refs ev s) -> In c (refs ev s') \/ In c sched
}.

Lemma good_same : forall ev s req, PS s -> Excl s -> Good ev s s [] req.
Proof. intros. constructor; auto; intros c []. Qed.

Lemma good_prop : forall ev s s' sched req (o : op), Good ev s s' sched req ->
  requests_deletion ev s o = req ->
  step_prop ev s o (refs ev s) (refs ev s') sched = true.
Proof.
  intros ev s s' sched req o G Hr. unfold step_prop. apply andb_true_iff. split.
  - unfold no_live_b. apply disjoint_intro. apply (g_live _ _ _ _ _ G).
  - rewrite Hr. destruct req; [|reflexivity]. apply all_garbage_intro. apply (g_garb _ _ _ _ _ G eq_refl).
Qed.

(* ================= an entry written at a name ================= *)
(* the state the entry is written into: the old one, possibly with the implicit parent directory *)
Definition base_ok (s s0 : st) : Prop :=
  s0 = s \/ exists d t, nfind s d = None /\ s0 = w_insert s d (implicit_dir t).

Lemma base_nfind : forall s s0 q e, base_ok s s0 -> nfind s0 q = Some e ->
  nfind s q = Some e \/ (nfind s q = None /\ h_chunks e = [] /\ h_hl e = 0%N /\ h_dir e = true).
Proof.
  intros s s0 q e [E|[d [t [Hd E]]]] H; subst s0; [auto|].
  rewrite w_insert_nfind in H. destruct (peqb_spec d q); [|auto].
  subst q. inversion H. right. auto.
Qed.

Lemma base_keeps : forall s s0 q e, base_ok s s0 -> nfind s q = Some e -> nfind s0 q = Some e.
Proof.
  intros s s0 q e [E|[d [t [Hd E]]]] H; subst s0; [auto|].
  rewrite w_insert_nfind. destruct (peqb_spec d q); [congruence|assumption].
Qed.

Lemma w_insert_plain_names : forall s p e, h_hl e = 0%N ->
  names (w_insert s p e) = aput HardLink.path_eqb (names s) p e.
Proof. intros. unfold w_insert, raw_put. simpl. now rewrite huhl_names. Qed.

Lemma PS_insert : forall s p e, PS s -> h_hl e = 0%N -> good_list (h_chunks e) ->
  (h_dir e = true -> h_chunks e = []) -> PS (w_insert s p e).
Proof.
  intros s p e P He Hg Hd. constructor.
  - rewrite w_insert_plain_names by assumption. apply aput_NoDup; [apply peqb_spec|apply (ps_nd _ P)].
  - intros q e' H. rewrite w_insert_nfind in H. destruct (HardLink.path_eqb p q); [inversion H; now subst|].
    apply (ps_plain _ P q e' H).
  - intros q e' H. rewrite w_insert_nfind in H. destruct (HardLink.path_eqb p q); [inversion H; now subst|].
    apply (ps_good _ P q e' H).
  - intros q e' H. rewrite w_insert_nfind in H. destruct (HardLink.path_eqb p q); [inversion H; now subst|].
    apply (ps_dir _ P q e' H).
Qed.

Lemma write_generic : forall ev s s0 p E sched,
  PS s -> Excl s -> base_ok s s0 -> nfind s0 p = nfind s p ->
  h_hl E = 0%N -> good_list (h_chunks E) -> (h_dir E = true -> h_chunks E = []) ->
  (forall c, In c (ids E) -> In c (ids_at s p) \/ ~ In c (refs ev s)) ->
  (forall c, In c sched -> ~ In c (ids E) /\ (In c (ids_at s p) \/ ~ In c (refs ev s))) ->
  (forall c, In c (ids_at s p) -> ~ In c (ids E) -> In c sched) ->
  Good ev s (w_insert s0 p E) sched true.
Proof.
  intros ev s s0 p E sched P X B Hp He Hg Hd Hnew Hsound Hcomp.
  (* the names of the new state *)
  assert (Hcase : forall q e, nfind (w_insert s0 p E) q = Some e ->
            (q = p /\ e = E) \/ (q <> p /\ nfind s q = Some e) \/ (q <> p /\ nfind s q = None /\ h_chunks e = [])).
  { intros q e H. rewrite w_insert_nfind in H. destruct (peqb_spec p q).
    - subst q. inversion H. auto.
    - right. destruct (base_nfind s s0 q e B H) as [A|[A [C _]]]; [left|right]; auto. }
  assert (P0 : PS s0).
  { destruct B as [E0|[d [t [Hdn E0]]]]; subst s0; [exact P|].
    apply PS_insert; auto; try (apply Forall_nil); try reflexivity. }
  assert (P' : PS (w_insert s0 p E)) by (apply PS_insert; auto).
  assert (Hin : forall c q e, nfind s q = Some e -> In c (ids e) -> In c (refs ev s)).
  { intros c q e H Hc. apply (refs_spec ev s P). eauto. }
  constructor.
  - exact P'.
  - intros q1 e1 q2 e2 H1 H2 Hne c Hc1 Hc2.
    destruct (Hcase q1 e1 H1) as [[A1 B1]|[[A1 B1]|[A1 [B1 C1]]]];
    destruct (Hcase q2 e2 H2) as [[A2 B2]|[[A2 B2]|[A2 [B2 C2]]]]; subst; try congruence;
      try (unfold ids in *; rewrite C1 in Hc1; contradiction);
      try (unfold ids in *; rewrite C2 in Hc2; contradiction).
    + destruct (Hnew c Hc1) as [Ho|Ho].
      * unfold ids_at in Ho. destruct (nfind s p) as [eo|] eqn:Eo; [|contradiction].
        apply (X p eo q2 e2 Eo B2 (not_eq_sym A2) c Ho Hc2).
      * apply Ho. apply (Hin c q2 e2 B2 Hc2).
    + destruct (Hnew c Hc2) as [Ho|Ho].
      * unfold ids_at in Ho. destruct (nfind s p) as [eo|] eqn:Eo; [|contradiction].
        apply (X p eo q1 e1 Eo B1 (not_eq_sym A1) c Ho Hc1).
      * apply Ho. apply (Hin c q1 e1 B1 Hc1).
    + apply (X q1 e1 q2 e2 B1 B2 Hne c Hc1 Hc2).
  - intros c Hc Hr. apply (refs_spec ev _ P') in Hr. destruct Hr as [q [e [Hq Hce]]].
    destruct (Hsound c Hc) as [Hn Ho].
    destruct (Hcase q e Hq) as [[A B1]|[[A B1]|[A [B1 C1]]]].
    + subst. contradiction.
    + destruct Ho as [Ho|Ho].
      * unfold ids_at in Ho. destruct (nfind s p) as [eo|] eqn:Eo; [|contradiction].
        apply (X p eo q e Eo B1 (not_eq_sym A) c Ho Hce).
      * apply Ho. apply (Hin c q e B1 Hce).
    + unfold ids in Hce. rewrite C1 in Hce. contradiction.
  - intros _ c Hc. apply (refs_spec ev s P) in Hc. destruct Hc as [q [e [Hq Hce]]].
    destruct (peqb_spec p q).
    + subst q. destruct (in_dec N.eq_dec c (ids E)) as [Hi|Hi].
      * left. apply (refs_spec ev _ P'). exists p, E. split; [|assumption].
        rewrite w_insert_nfind. now rewrite path_eqb_refl.
      * right. apply Hcomp; [|assumption]. unfold ids_at. now rewrite Hq.
    + left. apply (refs_spec ev _ P'). exists q, e. split; [|assumption].
      rewrite w_insert_nfind. destruct (peqb_spec p q); [contradiction|].
      apply (base_keeps s s0 q e B Hq).
Qed.

(* ================= names removed ================= *)
Lemma remove_generic : forall ev s s' sched req,
  PS s -> Excl s -> NoDup (map fst (names s')) ->
  (forall q e, nfind s' q = Some e -> nfind s q = Some e) ->
  (forall c, In c sched -> exists q e, nfind s q = Some e /\ nfind s' q = None /\ In c (ids e)) ->
  (req = true -> forall q e c, nfind s q = Some e -> nfind s' q = None -> In c (ids e) -> In c sched) ->
  Good ev s s' sched req.
Proof.
  intros ev s s' sched req P X Hnd Hsub Hsound Hcomp.
  assert (P' : PS s').
  { constructor; auto.
    - intros q e H. apply (ps_plain _ P q e (Hsub q e H)).
    - intros q e H. apply (ps_good _ P q e (Hsub q e H)).
    - intros q e H. apply (ps_dir _ P q e (Hsub q e H)). }
  constructor.
  - exact P'.
  - intros q1 e1 q2 e2 H1 H2. apply (X q1 e1 q2 e2 (Hsub _ _ H1) (Hsub _ _ H2)).
  - intros c Hc Hr. apply (refs_spec ev _ P') in Hr. destruct Hr as [q [e [Hq Hce]]].
    destruct (Hsound c Hc) as [q0 [e0 [H0 [H0' Hc0]]]].
    assert (Hne : q0 <> q) by (intro E; subst; congruence).
    apply (X q0 e0 q e H0 (Hsub _ _ Hq) Hne c Hc0 Hce).
  - intros Hr c Hc. apply (refs_spec ev s P) in Hc. destruct Hc as [q [e [Hq Hce]]].
    destruct (nfind s' q) as [e'|] eqn:E'.
    + left. apply (refs_spec ev _ P'). exists q, e'. split; [assumption|].
      pose proof (Hsub q e' E'). congruence.
    + right. apply (Hcomp Hr q e c Hq E' Hce).
Qed.

(* ================= an entry moved to another name ================= *)
(* final state: oldp is gone, newp carries oldp's chunks, the entry that was at newp is replaced and
   its chunks are scheduled, possibly an implicit parent directory has appeared *)
Lemma move_generic : forall ev s s' oldp newp eo E sched,
  PS s -> Excl s -> oldp <> newp -> nfind s oldp = Some eo ->
  PS s' ->
  nfind s' oldp = None -> nfind s' newp = Some E -> ids E = ids eo ->
  (forall q e, q <> oldp -> q <> newp -> nfind s' q = Some e ->
     nfind s q = Some e \/ (nfind s q = None /\ h_chunks e = [])) ->
  (forall q e, q <> oldp -> q <> newp -> nfind s q = Some e -> nfind s' q = Some e) ->
  (forall c, In c sched <-> In c (ids_at s newp)) ->
  Good ev s s' sched true.
Proof.
  intros ev s s' oldp newp eo E sched P X Hne Ho P' Hgone Hnew Hids Hback Hfwd Hsched.
  assert (Hcase : forall q e, nfind s' q = Some e ->
            (q = newp /\ e = E) \/ (q <> oldp /\ q <> newp /\ nfind s q = Some e) \/ h_chunks e = []).
  { intros q e H. destruct (peqb_spec q newp); [subst; left; split; congruence|].
    destruct (peqb_spec q oldp); [subst; congruence|].
    destruct (Hback q e n0 n H) as [A|[_ A]]; auto. }
  constructor.
  - exact P'.
  - intros q1 e1 q2 e2 H1 H2 Hn c Hc1 Hc2.
    destruct (Hcase q1 e1 H1) as [[A1 B1]|[[A1 [A1' B1]]|C1]];
    destruct (Hcase q2 e2 H2) as [[A2 B2]|[[A2 [A2' B2]]|C2]]; subst; try congruence;
      try (unfold ids in *; rewrite C1 in Hc1; contradiction);
      try (unfold ids in *; rewrite C2 in Hc2; contradiction).
    + rewrite Hids in Hc1. apply (X oldp eo q2 e2 Ho B2 (not_eq_sym A2) c Hc1 Hc2).
    + rewrite Hids in Hc2. apply (X oldp eo q1 e1 Ho B1 (not_eq_sym A1) c Hc2 Hc1).
    + apply (X q1 e1 q2 e2 B1 B2 Hn c Hc1 Hc2).
  - intros c Hc Hr. apply Hsched in Hc. unfold ids_at in Hc.
    destruct (nfind s newp) as [et|] eqn:Et; [|contradiction].
    apply (refs_spec ev _ P') in Hr. destruct Hr as [q [e [Hq Hce]]].
    destruct (Hcase q e Hq) as [[A B1]|[[A [A' B1]]|C1]].
    + subst. rewrite Hids in Hce. apply (X oldp eo newp et Ho Et Hne c Hce Hc).
    + apply (X newp et q e Et B1 (not_eq_sym A') c Hc Hce).
    + unfold ids in Hce. rewrite C1 in Hce. contradiction.
  - intros _ c Hc. apply (refs_spec ev s P) in Hc. destruct Hc as [q [e [Hq Hce]]].
    destruct (peqb_spec q oldp).
    + subst q. assert (e = eo) by congruence. subst e. left. apply (refs_spec ev _ P').
      exists newp, E. split; [assumption|]. now rewrite Hids.
    + destruct (peqb_spec q newp).
      * subst q. right. apply Hsched. unfold ids_at. now rewrite Hq.
      * left. apply (refs_spec ev _ P'). exists q, e. split; [|assumption]. now apply Hfwd.
Qed.
