(* C30: chunks, the POSIX reference, and the invariant of the in-memory dirty pages
   (ContinuousDirtyPages) along trigger-free histories. *)
From Coq Require Import List ZArith NArith Bool Lia.
From SW Require Import model.DirtyPages proof.DirtyPagesBase proof.DirtyPagesIntervals.
Import ListNotations.
Local Open Scope Z_scope.

(* ================= more slice facts ================= *)
Lemma slice_slice : forall (d : list N) A B a b, 0 <= A -> 0 <= a -> b <= B - A ->
  slice (slice d A B) a b = slice d (A + a) (A + b).
Proof.
  intros d A B a b HA Ha Hb. apply zget_ext. intros p.
  rewrite !zget_slice by lia.
  replace (A + b - (A + a)) with (b - a) by lia. replace (A + (a + p)) with (A + a + p) by lia.
  brefl; reflexivity.
Qed.

Lemma slice_split : forall (d : list N) A B C, 0 <= A -> A <= B -> B <= C -> C <= zlen d ->
  slice d A C = slice d A B ++ slice d B C.
Proof.
  intros d A B C HA HB HC Hd. apply zget_ext. intros p.
  destruct (Z_lt_dec p 0).
  - unfold zget. destruct (p <? 0) eqn:E; auto. apply Z.ltb_ge in E. lia.
  - rewrite zget_app by lia. rewrite zlen_slice by lia. rewrite !zget_slice by lia.
    replace (B + (p - (B - A))) with (A + p) by lia.
    brefl; reflexivity.
Qed.

Lemma slice_app_l : forall (d e : list N) A B, 0 <= A -> B <= zlen d -> slice (d ++ e) A B = slice d A B.
Proof.
  intros d e A B HA HB. apply zget_ext. intros p. rewrite !zget_slice by lia.
  destruct ((0 <=? p) && (p <? B - A)) eqn:E; auto.
  apply andb_true_iff in E. destruct E as [E1 E2]. apply Z.leb_le in E1. apply Z.ltb_lt in E2.
  rewrite zget_app by lia. destruct (A + p <? zlen d) eqn:E3; auto. apply Z.ltb_ge in E3. lia.
Qed.

Lemma slice_app_r : forall (d e : list N), slice (d ++ e) (zlen d) (zlen d + zlen e) = e.
Proof.
  intros d e. apply zget_ext. intros p. pose proof (zlen_nonneg d). rewrite zget_slice by lia.
  replace (zlen d + zlen e - zlen d) with (zlen e) by lia.
  destruct ((0 <=? p) && (p <? zlen e)) eqn:E.
  - apply andb_true_iff in E. destruct E as [E1 E2]. apply Z.leb_le in E1. apply Z.ltb_lt in E2.
    rewrite zget_app by lia. destruct (zlen d + p <? zlen d) eqn:E3; [apply Z.ltb_lt in E3; lia|].
    f_equal. lia.
  - symmetry. apply zget_none. apply andb_false_iff in E. destruct E as [E|E].
    + apply Z.leb_gt in E. lia.
    + apply Z.ltb_ge in E. lia.
Qed.

Lemma firstn_zlen : forall {A} (l : list A), firstn (Z.to_nat (zlen l)) l = l.
Proof. intros. unfold zlen. rewrite Nat2Z.id. apply firstn_all. Qed.

(* ================= the in-memory instance ================= *)
Definition m_valid (t : mnode) : Prop := 0 < n_size t /\ n_size t = zlen (n_pay t).

Lemma m_nbytes : forall t, m_valid t -> nbytes (list N) m_fetch t = n_pay t.
Proof.
  intros t [H1 H2]. unfold nbytes, m_fetch. rewrite H2. apply slice_full.
Qed.

Lemma m_H_len : forall t, m_valid t -> 0 < n_size t /\ zlen (nbytes (list N) m_fetch t) = n_size t.
Proof. intros t H. rewrite m_nbytes by auto. destruct H. split; auto. Qed.

Lemma m_H_fetch : forall t a b, m_valid t -> 0 <= a -> a <= b -> b <= n_size t ->
  m_fetch (n_pay t) a b = slice (nbytes (list N) m_fetch t) a b.
Proof. intros t a b H _ _ _. rewrite m_nbytes by auto. reflexivity. Qed.

Lemma m_H_sub : forall t a b, m_valid t -> 0 <= a -> a < b -> b <= n_size t ->
  m_valid {| n_off := n_off t + a; n_size := b - a; n_pay := m_psub (n_pay t) a b |} /\
  nbytes (list N) m_fetch {| n_off := n_off t + a; n_size := b - a; n_pay := m_psub (n_pay t) a b |}
  = slice (nbytes (list N) m_fetch t) a b.
Proof.
  intros t a b H Ha Hab Hb. pose proof H as [H1 H2].
  assert (V : m_valid {| n_off := n_off t + a; n_size := b - a; n_pay := m_psub (n_pay t) a b |}).
  { split; cbn [n_size n_pay]; [lia|]. unfold m_psub. rewrite zlen_slice; lia. }
  split; auto. rewrite (m_nbytes _ V), (m_nbytes t H). reflexivity.
Qed.

Lemma m_H_merge : forall t u w : mnode, m_valid t -> m_valid u -> n_off u = n_off t + n_size t ->
  m_merge t u = Some w ->
  m_valid w /\ n_off w = n_off t /\ n_size w = n_size t + n_size u /\
  nbytes (list N) m_fetch w = nbytes (list N) m_fetch t ++ nbytes (list N) m_fetch u.
Proof. intros t u w _ _ _ H. discriminate. Qed.

Notation m_wf := (wf (list N) m_valid).
Notation m_wfl := (wfl (list N) m_valid).
Notation m_cat := (cat (list N) m_fetch).
Notation m_lat := (lat (list N) m_fetch).
Notation m_nat := (nat_ (list N) m_fetch).

Lemma m_node_valid : forall off data, data <> [] -> m_valid (m_node off data).
Proof.
  intros off data H. split; cbn [m_node n_size n_pay]; auto.
  destruct data; [congruence|]. rewrite zlen_cons. pose proof (zlen_nonneg data). lia.
Qed.

Lemma m_nat_node : forall off data p, data <> [] ->
  m_nat (m_node off data) p = if (off <=? p) && (p <? off + zlen data) then zget data (p - off) else None.
Proof.
  intros off data p H. unfold nat_. rewrite (m_nbytes _ (m_node_valid off data H)). reflexivity.
Qed.

Theorem m_add_spec : forall c off data, m_wf c -> data <> [] ->
  m_wf (m_add c (m_node off data)) /\
  forall p, m_cat (m_add c (m_node off data)) p =
            if (off <=? p) && (p <? off + zlen data) then zget data (p - off) else m_cat c p.
Proof.
  intros c off data Hwf Hd.
  destruct (add_interval_spec (list N) m_psub m_merge m_fetch m_valid m_H_len m_H_sub m_H_merge
              c (m_node off data) Hwf (m_node_valid off data Hd)) as [H1 H2].
  split; auto. intros p. unfold m_add. rewrite H2, m_nat_node by auto.
  destruct ((off <=? p) && (p <? off + zlen data)) eqn:E; auto.
  apply andb_true_iff in E. destruct E as [E1 E2]. apply Z.leb_le in E1. apply Z.ltb_lt in E2.
  destruct (zget_in_range data (p - off)) as [b Hb]; [lia|]. rewrite Hb. auto.
Qed.

(* the bytes a flush uploads for a list: every node's Data, concatenated *)
Lemma m_all_bytes : forall l, m_wfl l ->
  zlen (m_list_all_bytes l) = tail_end _ l - head_off _ l /\
  forall p, m_lat l p = if (head_off _ l <=? p) && (p <? tail_end _ l)
                        then zget (m_list_all_bytes l) (p - head_off _ l) else None.
Proof.
  induction l as [|t l IH]; intros [Hne Hc]; [congruence|].
  destruct l as [|u l].
  - simpl in Hc. destruct Hc as [Hv _]. cbn [m_list_all_bytes flat_map head_off tail_end]. rewrite app_nil_r.
    pose proof Hv as [V1 V2]. split; [lia|].
    intros p. cbn [lat]. unfold nat_. rewrite (m_nbytes t Hv).
    destruct ((n_off t <=? p) && (p <? n_off t + n_size t)); auto. destruct (zget (n_pay t) (p - n_off t)); auto.
  - destruct Hc as [Hv [Hu Hc]]. pose proof Hv as [V1 V2].
    destruct IH as [IH1 IH2]; [split; [discriminate|auto]|].
    change (m_list_all_bytes (t :: u :: l)) with (n_pay t ++ m_list_all_bytes (u :: l)).
    rewrite te_cons. cbn [head_off] in *. rewrite zlen_app. split; [lia|].
    intros p.
    change (m_lat (t :: u :: l) p) with (match m_nat t p with Some b => Some b | None => m_lat (u :: l) p end).
    rewrite IH2. unfold nat_. rewrite (m_nbytes t Hv).
    assert (Hlt : n_off u < tail_end _ (u :: l)).
    { apply (wfl_hd_lt_te (list N) m_fetch m_valid m_H_len (u :: l)). split; [discriminate|auto]. }
    destruct (Z_le_dec (n_off t) p).
    + rewrite zget_app by lia. rewrite <- V2. rewrite Hu.
      replace (p - (n_off t + n_size t)) with (p - n_off t - n_size t) by lia.
      brefl; try reflexivity.
      destruct (zget (n_pay t) (p - n_off t)) eqn:Ez; [reflexivity|]. apply zget_none in Ez. lia.
    + brefl; reflexivity.
Qed.

(* ================= chunks ================= *)
Definition covers (c : chunk) (p : Z) : bool := (fst c <=? p) && (p <? fst c + zlen (snd c)).

(* the byte the last-saved chunk covering p holds *)
Fixpoint cget (cs : list chunk) (p : Z) : option N :=
  match cs with
  | [] => None
  | c :: cs' => match cget cs' p with
                | Some b => Some b
                | None => if covers c p then zget (snd c) (p - fst c) else None
                end
  end.

Lemma cget_app : forall a b p, cget (a ++ b) p = match cget b p with Some x => Some x | None => cget a p end.
Proof.
  induction a as [|c a IH]; intros b p; simpl.
  - destruct (cget b p); auto.
  - rewrite IH. destruct (cget b p); auto.
Qed.

Lemma cget_single : forall c p, cget [c] p = if covers c p then zget (snd c) (p - fst c) else None.
Proof. reflexivity. Qed.

Lemma fold_blit_spec : forall cs buf p, (forall c, In c cs -> 0 <= fst c) ->
  zlen (fold_left (fun b c => blit b (Z.to_nat (fst c)) (snd c)) cs buf) = zlen buf /\
  (0 <= p < zlen buf ->
   zget (fold_left (fun b c => blit b (Z.to_nat (fst c)) (snd c)) cs buf) p =
   match cget cs p with Some b => Some b | None => zget buf p end).
Proof.
  induction cs as [|c cs IH]; intros buf p Hpos; simpl.
  - split; auto.
  - destruct (IH (blit buf (Z.to_nat (fst c)) (snd c)) p) as [I1 I2]; [intros; apply Hpos; right; auto|].
    rewrite zlen_blit in *. split; auto. intros Hp. rewrite I2 by auto.
    destruct (cget cs p); auto.
    rewrite zget_blit by (apply Hpos; left; auto). unfold covers.
    brefl; try reflexivity.
    destruct (zget (snd c) (p - fst c)) eqn:Ez; [reflexivity|]. apply zget_none in Ez. lia.
Qed.

Lemma resolve_spec : forall n cs, 0 <= n -> (forall c, In c cs -> 0 <= fst c) ->
  zlen (resolve n cs) = n /\
  forall p, 0 <= p < n -> zget (resolve n cs) p = Some (match cget cs p with Some b => b | None => 0%N end).
Proof.
  intros n cs Hn Hpos. unfold resolve.
  assert (Hz : zlen (repeat 0%N (Z.to_nat n)) = n) by (unfold zlen; rewrite repeat_length; lia).
  split.
  - destruct (fold_blit_spec cs (repeat 0%N (Z.to_nat n)) 0 Hpos) as [I1 _]. lia.
  - intros p Hp. destruct (fold_blit_spec cs (repeat 0%N (Z.to_nat n)) p Hpos) as [_ I2].
    rewrite I2 by lia. destruct (cget cs p); auto.
    rewrite zget_repeat0. brefl; reflexivity.
Qed.

Lemma chunks_total_bound : forall (cs : list chunk) acc A, acc <= A -> (forall c, In c cs -> fst c + zlen (snd c) <= A) ->
  fold_left (fun a c => Z.max a (fst c + zlen (snd c))) cs acc <= A /\
  acc <= fold_left (fun a c => Z.max a (fst c + zlen (snd c))) cs acc.
Proof.
  induction cs as [|c cs IH]; intros acc A Ha H; simpl; [lia|].
  specialize (H c (or_introl eq_refl)) as Hc.
  destruct (IH (Z.max acc (fst c + zlen (snd c))) A) as [I1 I2]; [lia|intros; apply H; right; auto|].
  split; lia.
Qed.

Lemma file_size_attr : forall A cs, 0 <= A -> (forall c, In c cs -> fst c + zlen (snd c) <= A) ->
  file_size A cs = A.
Proof.
  intros A cs HA H. unfold file_size, chunks_total.
  destruct (chunks_total_bound cs 0 A HA H). lia.
Qed.

(* Setattr: below the new size the chunks resolve as before *)
Lemma cget_truncate : forall n cs p, p < n ->
  cget (truncate_chunks n cs) p = cget cs p.
Proof.
  intros n. induction cs as [|c cs IH]; intros p Hp; auto.
  change (truncate_chunks n (c :: cs)) with
    ((if fst c + zlen (snd c) >? n then
        (if n - fst c >? 0 then [(fst c, firstn (Z.to_nat (n - fst c)) (snd c))] else [])
      else [c]) ++ truncate_chunks n cs).
  rewrite cget_app, IH by auto. cbn [cget].
  destruct (cget cs p); auto.
  destruct (fst c + zlen (snd c) >? n) eqn:E1; [|reflexivity].
  rewrite Z.gtb_ltb in E1; apply Z.ltb_lt in E1.
  destruct (n - fst c >? 0) eqn:E2; rewrite Z.gtb_ltb in E2.
  - apply Z.ltb_lt in E2. rewrite cget_single. unfold covers. cbn [fst snd].
    assert (Hl : zlen (firstn (Z.to_nat (n - fst c)) (snd c)) = n - fst c).
    { unfold zlen in *. rewrite firstn_length. lia. }
    rewrite Hl. rewrite zget_firstn.
    brefl; reflexivity.
  - apply Z.ltb_ge in E2. simpl. unfold covers. brefl; reflexivity.
Qed.

Lemma truncate_chunks_in : forall n cs c, In c (truncate_chunks n cs) ->
  exists c0, In c0 cs /\ fst c = fst c0 /\ fst c + zlen (snd c) <= n.
Proof.
  intros n cs c H. unfold truncate_chunks in H. apply in_flat_map in H. destruct H as [c0 [H0 H]].
  destruct (fst c0 + zlen (snd c0) >? n) eqn:E1.
  - destruct (n - fst c0 >? 0) eqn:E2; [|destruct H]. destruct H as [H|[]]. subst c. cbn [fst snd].
    rewrite Z.gtb_ltb in E1, E2. apply Z.ltb_lt in E1. apply Z.ltb_lt in E2.
    exists c0. split; auto. split; auto.
    unfold zlen in *. rewrite firstn_length. lia.
  - destruct H as [H|[]]. subst c. rewrite Z.gtb_ltb in E1. apply Z.ltb_ge in E1.
    exists c0. split; auto.
Qed.

(* ================= the POSIX reference ================= *)
Definition pget (f : list N) (p : Z) : N := match zget f p with Some b => b | None => 0%N end.

Lemma zlen_pad : forall f n, zlen (pad f n) = Z.max (zlen f) (Z.of_nat n).
Proof. intros. unfold pad, zlen. rewrite app_length, repeat_length. lia. Qed.

Lemma pget_pad : forall f n p, pget (pad f n) p = pget f p.
Proof.
  intros f n p. unfold pget, pad. destruct (Z_lt_dec p 0).
  - unfold zget. destruct (p <? 0) eqn:E; auto. apply Z.ltb_ge in E. lia.
  - rewrite zget_app by lia. destruct (p <? zlen f) eqn:E; auto. apply Z.ltb_ge in E.
    rewrite zget_repeat0. assert (Hn : zget f p = None) by (apply zget_none; lia). rewrite Hn.
    destruct ((0 <=? p - zlen f) && (p - zlen f <? Z.of_nat (n - length f))); auto.
Qed.

Lemma pwrite_spec : forall f off data, 0 <= off ->
  zlen (pwrite f off data) = Z.max (zlen f) (off + zlen data) /\
  forall p, pget (pwrite f off data) p =
            if (off <=? p) && (p <? off + zlen data) then pget data (p - off) else pget f p.
Proof.
  intros f off data Hoff. unfold pwrite.
  set (o := Z.to_nat off). set (f' := pad f o).
  assert (Hf' : zlen f' = Z.max (zlen f) off) by (unfold f'; rewrite zlen_pad; unfold o; lia).
  assert (Hfn : zlen (firstn o f') = off).
  { unfold zlen in *. rewrite firstn_length. unfold o. lia. }
  assert (Hsk : zlen (skipn (o + length data) f') = Z.max 0 (zlen f' - off - zlen data)).
  { unfold zlen in *. rewrite skipn_length. unfold o. lia. }
  split.
  - rewrite !zlen_app, Hfn, Hsk, Hf'. pose proof (zlen_nonneg data). pose proof (zlen_nonneg f). lia.
  - intros p. unfold pget at 1. destruct (Z_lt_dec p 0).
    + assert (Hz : forall l, zget l p = None) by (intros; apply zget_none; lia).
      rewrite Hz. unfold pget. rewrite Hz. brefl; reflexivity.
    + rewrite zget_app by lia. rewrite Hfn.
      destruct (p <? off) eqn:E1.
      * apply Z.ltb_lt in E1. rewrite zget_firstn. unfold o.
        destruct (p <? Z.of_nat (Z.to_nat off)) eqn:E2; [|apply Z.ltb_ge in E2; lia].
        fold (pget f' p). unfold f'. rewrite pget_pad. brefl; reflexivity.
      * apply Z.ltb_ge in E1. rewrite zget_app by lia.
        destruct (p - off <? zlen data) eqn:E2.
        { apply Z.ltb_lt in E2. unfold pget. brefl; reflexivity. }
        { apply Z.ltb_ge in E2. rewrite zget_skipn by lia.
          replace (Z.of_nat (o + length data) + (p - off - zlen data)) with p by (unfold zlen, o; lia).
          fold (pget f' p). unfold f'. rewrite pget_pad. brefl; reflexivity. }
Qed.

Lemma ptrunc_spec : forall f n, 0 <= n ->
  zlen (ptrunc f n) = n /\ forall p, pget (ptrunc f n) p = if p <? n then pget f p else 0%N.
Proof.
  intros f n Hn. unfold ptrunc. split.
  - unfold zlen. rewrite firstn_length. fold (zlen (pad f (Z.to_nat n))).
    pose proof (zlen_pad f (Z.to_nat n)). unfold zlen in *. lia.
  - intros p. unfold pget at 1. rewrite zget_firstn.
    destruct (p <? Z.of_nat (Z.to_nat n)) eqn:E1; destruct (p <? n) eqn:E2;
      try (apply Z.ltb_lt in E1); try (apply Z.ltb_ge in E1); try (apply Z.ltb_lt in E2); try (apply Z.ltb_ge in E2); try lia; auto.
    fold (pget (pad f (Z.to_nat n)) p). apply pget_pad.
Qed.

Lemma pget_beyond : forall f p, zlen f <= p -> pget f p = 0%N.
Proof. intros f p H. unfold pget. assert (Hz : zget f p = None) by (apply zget_none; lia). rewrite Hz. auto. Qed.

Lemma pget_zget : forall f p, 0 <= p < zlen f -> zget f p = Some (pget f p).
Proof. intros f p H. unfold pget. destruct (zget_in_range f p H) as [b Hb]. rewrite Hb. auto. Qed.

(* histories inside the property's domain: writes are non-empty and at non-negative offsets *)
Definition op_ok (o : op) : Prop :=
  match o with
  | Write off data => 0 <= off /\ data <> []
  | Trunc n => 0 <= n
  | Flush => True
  | Read off len => True
  end.

(* ================= ContinuousDirtyPages: the invariant ================= *)
Definition override (g : Z -> N) (off : Z) (data : list N) (p : Z) : N :=
  if (off <=? p) && (p <? off + zlen data) then pget data (p - off) else g p.

(* g = the POSIX content as a function (0 beyond the end), A = the POSIX size *)
Record minv (s : mstate) (g : Z -> N) (A : Z) : Prop := {
  mi_wf : m_wf (m_iv s);
  mi_attr : f_attr (m_meta s) = A;
  mi_A : 0 <= A;
  mi_lists : forall l, In l (m_iv s) -> 0 <= head_off _ l /\ tail_end _ l <= A;
  mi_chunks : forall c, In c (f_chunks (m_meta s)) -> 0 <= fst c /\ fst c + zlen (snd c) <= A;
  mi_bytes : forall p, 0 <= p < A ->
     g p = match m_cat (m_iv s) p with
           | Some b => b
           | None => match cget (f_chunks (m_meta s)) p with Some b => b | None => 0%N end
           end }.

Lemma remove_nth_length : forall {P} k (c : list (ilist P)) l, nth_error c k = Some l ->
  S (length (remove_nth P k c)) = length c.
Proof.
  intros P. induction k as [|k IH]; intros c l H; destruct c as [|x c]; simpl in *; try discriminate; auto.
  f_equal. eapply IH; eauto.
Qed.

Lemma m_cat_none_of_lat : forall c l p b, m_wf c -> m_wfl l -> (forall m, In m c -> sepd _ l m) ->
  m_lat l p = Some b -> m_cat c p = None.
Proof.
  intros c l p b Hwf Hl Hs Hb. destruct (m_cat c p) eqn:E; auto. exfalso.
  apply (cat_holds (list N) m_fetch m_valid m_H_len c p n Hwf) in E. destruct E as [m [Hm E]].
  destruct Hwf as [Hw _]. rewrite Forall_forall in Hw.
  eapply (sepd_disjoint (list N) m_fetch m_valid m_H_len l m); eauto.
Qed.

Lemma m_save_largest_inv : forall s g A, minv s g A ->
  minv (fst (m_save_largest s)) g A /\
  (m_iv s <> [] -> snd (m_save_largest s) = true /\
                   S (length (m_iv (fst (m_save_largest s)))) = length (m_iv s)) /\
  (m_iv s = [] -> m_save_largest s = (s, false)).
Proof.
  intros s g A I. destruct I as [Iwf Iattr IA Il Ic Ib].
  unfold m_save_largest.
  pose proof (remove_largest_spec (list N) m_fetch m_valid m_H_len (m_iv s) Iwf) as R.
  destruct (remove_largest (list N) (m_iv s)) as [[l rest]|] eqn:E.
  - destruct R as [k [Hk Hrest]]. subst rest.
    destruct (remove_nth_wf (list N) m_valid k (m_iv s) l Iwf Hk) as [Wr [Wl [Hin Hsep]]].
    destruct (Il l Hin) as [L1 L2].
    pose proof (wfl_hd_lt_te (list N) m_fetch m_valid m_H_len l Wl) as Hlt.
    destruct (m_all_bytes l Wl) as [B1 B2].
    rewrite Iattr. unfold l_size.
    replace (Z.min (tail_end (list N) l - head_off (list N) l) (A - head_off (list N) l))
      with (tail_end (list N) l - head_off (list N) l) by lia.
    destruct (tail_end (list N) l - head_off (list N) l =? 0) eqn:E0; [apply Z.eqb_eq in E0; lia|].
    cbn [fst snd].
    assert (Hlb : limit_bytes (m_list_all_bytes l) (tail_end (list N) l - head_off (list N) l) = m_list_all_bytes l).
    { unfold limit_bytes. rewrite <- B1. apply firstn_zlen. }
    rewrite Hlb.
    split; [|split].
    + constructor; cbn [m_iv m_meta add_chunk f_attr f_chunks]; auto.
      * intros m Hm. apply Il. eapply remove_nth_in; eauto.
      * intros c Hc. apply in_app_or in Hc. destruct Hc as [Hc|[Hc|[]]]; auto.
        subst c. cbn [fst snd]. lia.
      * intros p Hp. rewrite (Ib p Hp).
        rewrite (cat_remove_nth (list N) m_fetch m_valid m_H_len k (m_iv s) l p Iwf Hk).
        rewrite cget_app, cget_single. unfold covers. cbn [fst snd]. rewrite B1.
        replace (head_off (list N) l + (tail_end (list N) l - head_off (list N) l)) with (tail_end (list N) l) by lia.
        rewrite <- B2.
        destruct (m_lat l p) eqn:El.
        { rewrite (m_cat_none_of_lat _ l p n Wr Wl Hsep El). auto. }
        { auto. }
    + intros _. split; auto. cbn [m_iv]. eapply remove_nth_length; eauto.
    + intros Hnil. rewrite Hnil in Hk. destruct k; discriminate.
  - cbn [fst snd]. split; [constructor; auto|]. split; [intros H; congruence|]. intros _. auto.
Qed.

Lemma m_save_all_inv : forall fuel s g A, minv s g A ->
  minv (m_save_all fuel s) g A /\ ((length (m_iv s) < fuel)%nat -> m_iv (m_save_all fuel s) = []).
Proof.
  induction fuel as [|fuel IH]; intros s g A I.
  - simpl. split; auto. lia.
  - cbn [m_save_all]. destruct (m_save_largest_inv s g A I) as [I' [Hne Hnil]].
    destruct (m_save_largest s) as [s' more] eqn:E. cbn [fst snd] in *.
    destruct (m_iv s) eqn:Eiv.
    + pose proof (Hnil eq_refl) as Q. inversion Q; subst. split; auto.
    + destruct Hne as [Hm Hlen]; [discriminate|]. subst more.
      destruct (IH s' g A I') as [J1 J2]. split; auto. intros Hf. apply J2. simpl in Hlen, Hf. lia.
Qed.

Lemma m_flush_inv : forall s g A, minv s g A -> minv (m_flush s) g A /\ m_iv (m_flush s) = [].
Proof.
  intros s g A I. unfold m_flush. destruct (m_save_all_inv (S (length (m_iv s))) s g A I) as [J1 J2].
  split; auto.
Qed.

(* the invariant outside the range being written *)
Record minv_out (s : mstate) (g : Z -> N) (A off e : Z) : Prop := {
  mo_wf : m_wf (m_iv s);
  mo_attr : f_attr (m_meta s) = A;
  mo_A : 0 <= A;
  mo_lists : forall l, In l (m_iv s) -> 0 <= head_off _ l /\ tail_end _ l <= A;
  mo_chunks : forall c, In c (f_chunks (m_meta s)) -> 0 <= fst c /\ fst c + zlen (snd c) <= A;
  mo_bytes : forall p, 0 <= p < A -> ~ (off <= p < e) ->
     g p = match m_cat (m_iv s) p with
           | Some b => b
           | None => match cget (f_chunks (m_meta s)) p with Some b => b | None => 0%N end
           end }.

Lemma minv_to_out : forall s g A off e, minv s g A -> minv_out s g A off e.
Proof. intros s g A off e [H1 H2 H3 H4 H5 H6]. constructor; auto. Qed.

Lemma minv_out_add_chunk : forall s g A off data, minv_out s g A off (off + zlen data) ->
  0 <= off -> off + zlen data <= A ->
  minv_out {| m_iv := m_iv s; m_meta := add_chunk (m_meta s) (off, data) |} g A off (off + zlen data).
Proof.
  intros s g A off data [H1 H2 H3 H4 H5 H6] Hoff Hend.
  constructor; cbn [m_iv m_meta add_chunk f_attr f_chunks]; auto.
  - intros c Hc. apply in_app_or in Hc. destruct Hc as [Hc|[Hc|[]]]; auto. subst c. cbn [fst snd]. lia.
  - intros p Hp Hout. rewrite (H6 p Hp Hout). rewrite cget_app, cget_single. unfold covers. cbn [fst snd].
    destruct ((off <=? p) && (p <? off + zlen data)) eqn:E; auto.
    apply andb_true_iff in E. destruct E as [E1 E2]. apply Z.leb_le in E1. apply Z.ltb_lt in E2. lia.
Qed.

Lemma minv_out_add : forall s g A off data, minv_out s g A off (off + zlen data) ->
  0 <= off -> data <> [] -> off + zlen data <= A ->
  minv {| m_iv := m_add (m_iv s) (m_node off data); m_meta := m_meta s |} (override g off data) A.
Proof.
  intros s g A off data [H1 H2 H3 H4 H5 H6] Hoff Hd Hend.
  destruct (m_add_spec (m_iv s) off data H1 Hd) as [W C].
  assert (Hlen : 0 < zlen data).
  { destruct data; [congruence|]. rewrite zlen_cons. pose proof (zlen_nonneg data). lia. }
  constructor; cbn [m_iv m_meta]; auto.
  - (* every list of the result lies inside [0, A): its bytes come from the old lists or the new page *)
    intros l Hl. pose proof W as W0. destruct W as [Wl Wp]. rewrite Forall_forall in Wl. pose proof (Wl l Hl) as Hwl.
    pose proof (wfl_hd_lt_te (list N) m_fetch m_valid m_H_len l Hwl) as Hlt.
    assert (Hpt : forall p, head_off _ l <= p < tail_end _ l -> 0 <= p < A).
    { intros p Hp. destruct Hwl as [N1 N2].
      destruct (lat_in_range (list N) m_fetch m_valid m_H_len l p N1 N2 Hp) as [b Hb].
      assert (Hc : m_cat (m_add (m_iv s) (m_node off data)) p = Some b).
      { apply (cat_holds (list N) m_fetch m_valid m_H_len _ p b W0). exists l. auto. }
      rewrite C in Hc.
      destruct ((off <=? p) && (p <? off + zlen data)) eqn:E.
      - apply andb_true_iff in E. destruct E as [E1 E2]. apply Z.leb_le in E1. apply Z.ltb_lt in E2. lia.
      - apply (cat_holds (list N) m_fetch m_valid m_H_len _ p b H1) in Hc. destruct Hc as [m [Hm Hb']].
        destruct (H4 m Hm). destruct H1 as [Q1 _]. rewrite Forall_forall in Q1. destruct (Q1 m Hm) as [M1 M2].
        pose proof (lat_some_range (list N) m_fetch m_valid m_H_len m p b M1 M2 Hb'). lia. }
    pose proof (Hpt (head_off _ l)). pose proof (Hpt (tail_end _ l - 1)). lia.
  - intros p Hp. rewrite C. unfold override.
    destruct ((off <=? p) && (p <? off + zlen data)) eqn:E.
    + apply andb_true_iff in E. destruct E as [E1 E2]. apply Z.leb_le in E1. apply Z.ltb_lt in E2.
      rewrite pget_zget by lia. auto.
    + apply H6; auto. intros Hr. apply andb_false_iff in E. destruct E as [E|E].
      * apply Z.leb_gt in E. lia.
      * apply Z.ltb_ge in E. lia.
Qed.

Lemma m_add_page_inv : forall limit s g A off data, minv s g A ->
  0 <= off -> data <> [] -> off + zlen data <= A ->
  minv (m_add_page limit s off data) (override g off data) A.
Proof.
  intros limit s g A off data I Hoff Hd Hend. unfold m_add_page.
  set (s1 := if zlen data >? limit
             then {| m_iv := m_iv (m_flush s);
                     m_meta := add_chunk (m_meta (m_flush s)) (off, limit_bytes data (zlen data)) |}
             else s).
  assert (I1 : minv_out s1 g A off (off + zlen data)).
  { unfold s1. destruct (zlen data >? limit).
    - destruct (m_flush_inv s g A I) as [J _]. unfold limit_bytes. rewrite firstn_zlen.
      apply minv_out_add_chunk; auto. apply minv_to_out; auto.
    - apply minv_to_out; auto. }
  pose proof (minv_out_add s1 g A off data I1 Hoff Hd Hend) as I2.
  destruct (total_size (list N) (m_iv {| m_iv := m_add (m_iv s1) (m_node off data); m_meta := m_meta s1 |}) >=? limit); auto.
  apply m_save_largest_inv; auto.
Qed.

(* ================= the invariant along a history ================= *)
Definition m_ends (s : mstate) : list Z := map (tail_end (list N)) (m_iv s).

Definition inv (s : mstate) (f : list N) : Prop := minv s (pget f) (zlen f).

Lemma pget_override : forall f off data, 0 <= off ->
  forall p, pget (pwrite f off data) p = override (pget f) off data p.
Proof. intros f off data Hoff p. destruct (pwrite_spec f off data Hoff) as [_ H]. rewrite H. reflexivity. Qed.

Lemma minv_ext : forall s g g' A, (forall p, 0 <= p < A -> g p = g' p) -> minv s g A -> minv s g' A.
Proof.
  intros s g g' A H [H1 H2 H3 H4 H5 H6]. constructor; auto. intros p Hp. rewrite <- H by auto. auto.
Qed.

Lemma minv_grow : forall s f A', inv s f -> zlen f <= A' ->
  minv {| m_iv := m_iv s; m_meta := set_attr (m_meta s) A' |} (pget f) A'.
Proof.
  intros s f A' [H1 H2 H3 H4 H5 H6] HA.
  constructor; cbn [m_iv m_meta set_attr f_attr f_chunks]; auto; try lia.
  - intros l Hl. destruct (H4 l Hl). lia.
  - intros c Hc. destruct (H5 c Hc). lia.
  - intros p Hp. destruct (Z_lt_dec p (zlen f)); [apply H6; lia|].
    rewrite pget_beyond by lia.
    assert (Hc : m_cat (m_iv s) p = None).
    { destruct (m_cat (m_iv s) p) eqn:E; auto. exfalso.
      apply (cat_holds (list N) m_fetch m_valid m_H_len _ p n0 H1) in E. destruct E as [m [Hm E]].
      destruct (H4 m Hm). destruct H1 as [Q1 _]. rewrite Forall_forall in Q1. destruct (Q1 m Hm) as [M1 M2].
      pose proof (lat_some_range (list N) m_fetch m_valid m_H_len m p n0 M1 M2 E). lia. }
    rewrite Hc.
    assert (Hg : cget (f_chunks (m_meta s)) p = None).
    { clear - H5 n. induction (f_chunks (m_meta s)) as [|c cs IH]; auto. simpl.
      rewrite IH by (intros; apply H5; right; auto).
      destruct (H5 c (or_introl eq_refl)). unfold covers. brefl; reflexivity. }
    rewrite Hg. auto.
Qed.

Lemma m_step_inv : forall limit s f o, inv s f -> op_ok o ->
  trig_at (m_ends s) (m_meta s) o = None \/ (exists off len, o = Read off len) ->
  inv (fst (m_step limit s o)) (pstep f o).
Proof.
  intros limit s f o I Hok Htr. unfold inv in *. destruct o as [off data|n| |off len]; cbn [m_step pstep fst].
  - (* Write *)
    destruct Hok as [Hoff Hd]. destruct (pwrite_spec f off data Hoff) as [Hlen Hget].
    pose proof I as [H1 H2 H3 H4 H5 H6]. rewrite H2.
    apply (minv_ext _ (override (pget f) off data)); [intros; symmetry; apply pget_override; auto|].
    rewrite Hlen. replace (Z.max (zlen f) (off + zlen data)) with (Z.max (off + zlen data) (zlen f)) by lia.
    apply m_add_page_inv; auto; try lia.
    apply (minv_grow s f); auto. lia.
  - (* Truncate *)
    cbn [op_ok] in Hok. destruct (ptrunc_spec f n Hok) as [Hlen Hget].
    destruct Htr as [Htr|[? [? Htr]]]; [|discriminate].
    pose proof I as [H1 H2 H3 H4 H5 H6].
    assert (Hfs : file_size (f_attr (m_meta s)) (f_chunks (m_meta s)) = zlen f).
    { rewrite H2. apply file_size_attr; auto. intros c Hc. apply H5; auto. }
    cbn [trig_at] in Htr. rewrite Hfs in Htr. unfold truncate. rewrite Hfs. rewrite Hlen.
    destruct (n <? zlen f) eqn:E.
    + (* shrinking, but no dirty list reaches beyond the new size *)
      apply Z.ltb_lt in E.
      destruct (existsb (fun e => n <? e) (m_ends s)) eqn:E1; [discriminate|].
      assert (Hl : forall l, In l (m_iv s) -> tail_end _ l <= n).
      { intros l Hl. destruct (Z_le_dec (tail_end _ l) n); auto. exfalso.
        assert (existsb (fun e => n <? e) (m_ends s) = true).
        { apply existsb_exists. exists (tail_end _ l). split; [unfold m_ends; apply in_map; auto|]. apply Z.ltb_lt. lia. }
        congruence. }
      constructor; cbn [m_iv m_meta f_attr f_chunks]; auto.
      * intros l Hl'. destruct (H4 l Hl'). split; auto.
      * intros c Hc'. destruct (truncate_chunks_in n _ c Hc') as [c0 [A1 [A2 A3]]].
        destruct (H5 c0 A1). split; lia.
      * intros p Hp. rewrite Hget. destruct (p <? n) eqn:E3; [|apply Z.ltb_ge in E3; lia].
        rewrite cget_truncate by lia. apply H6. lia.
    + (* extending *)
      apply Z.ltb_ge in E.
      apply (minv_ext _ (pget f)).
      { intros p Hp. rewrite Hget. destruct (p <? n) eqn:E3; auto. apply Z.ltb_ge in E3. lia. }
      pose proof (minv_grow s f n I E) as G. destruct G as [G1 G2 G3 G4 G5 G6].
      constructor; auto.
  - (* Flush *)
    destruct (m_flush_inv s (pget f) (zlen f) I). auto.
  - (* Read: only the view cache changes *)
    destruct (m_dirty_read s (repeat 0%N (Z.to_nat len)) off) as [d ms].
    destruct (handle_read (m_meta s) (m_dirty_read s) off len) as [data m'] eqn:E. cbn [fst].
    assert (Hm : f_attr m' = f_attr (m_meta s) /\ f_chunks m' = f_chunks (m_meta s)).
    { unfold handle_read in E. destruct (read_chunks (m_meta s) off len) as [[b t] pin].
      destruct (m_dirty_read s b off). inversion E; subst. auto. }
    destruct Hm as [Hm1 Hm2]. destruct I as [H1 H2 H3 H4 H5 H6].
    constructor; cbn [m_iv m_meta]; auto; try (rewrite Hm1; auto); try (rewrite Hm2; auto).
Qed.
