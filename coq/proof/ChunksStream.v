(* C17, part 5: StreamContent (with the hole-padding repair) writes the overlay. *)
From Coq Require Import List NArith Bool Arith Lia Permutation Sorted.
From Coq Require Import ZifyBool ZifyN ZifyNat.
From SW Require Import model.Chunks proof.ChunksProofs proof.ChunksOverlay proof.ChunksRead.
Import ListNotations.
Local Open Scope N_scope.

(* ================================================================== *)
(* ranges of positions                                                 *)
(* ================================================================== *)
Definition nrange (a b : N) : list N := map (fun i => a + N.of_nat i) (seq 0 (N.to_nat (b - a))).

Lemma map_seq_shift : forall {A} n s (f : nat -> A),
  map f (seq s n) = map (fun i => f (s + i)%nat) (seq 0 n).
Proof.
  induction n as [|n IH]; intros s f; simpl; auto.
  f_equal; [f_equal; lia|]. rewrite (IH (S s) f). rewrite (IH 1%nat (fun i => f (s + i)%nat)).
  apply map_ext. intros i. f_equal. lia.
Qed.

Lemma nrange_length : forall a b, length (nrange a b) = N.to_nat (b - a).
Proof. intros. unfold nrange. rewrite map_length, seq_length. reflexivity. Qed.

Lemma in_nrange : forall a b q, In q (nrange a b) -> a <= q /\ q < b.
Proof.
  intros a b q H. unfold nrange in H. apply in_map_iff in H. destruct H as [i [E Hi]].
  apply in_seq in Hi. lia.
Qed.

Lemma nrange_split : forall a b c, a <= b -> b <= c -> nrange a c = nrange a b ++ nrange b c.
Proof.
  intros a b c H1 H2. unfold nrange.
  replace (N.to_nat (c - a)) with (N.to_nat (b - a) + N.to_nat (c - b))%nat by lia.
  rewrite seq_app, map_app. f_equal. simpl. rewrite map_seq_shift.
  apply map_ext. intros i. lia.
Qed.

Lemma nrange_empty : forall a, nrange a a = [].
Proof. intros a. unfold nrange. rewrite N.sub_diag. reflexivity. Qed.

Lemma map_const_repeat : forall {A B} (f : A -> B) c l, (forall x, In x l -> f x = c) ->
  map f l = repeat c (length l).
Proof.
  intros A B f c l. induction l as [|x l IH]; intros H; simpl; auto.
  rewrite (H x) by (left; auto). f_equal. apply IH. intros y Hy. apply H. right. auto.
Qed.

Lemma skipn_cons_nth : forall (d : list N) off, (off < length d)%nat ->
  skipn off d = nth off d 0 :: skipn (S off) d.
Proof.
  induction d as [|x d IH]; intros off H; simpl in H; [lia|].
  destruct off as [|off]; simpl; auto. apply IH. lia.
Qed.

Lemma slice_map : forall n (d : list N) off, (off + n <= length d)%nat ->
  firstn n (skipn off d) = map (fun i => nth (off + i) d 0) (seq 0 n).
Proof.
  induction n as [|n IH]; intros d off H; [reflexivity|].
  rewrite skipn_cons_nth by lia. rewrite firstn_cons. cbn [seq map]. f_equal; [f_equal; lia|].
  rewrite (IH d (S off)) by lia. rewrite (map_seq_shift n 1%nat).
  apply map_ext. intros i. f_equal. lia.
Qed.

(* a byte range of a chunk, indexed by file positions *)
Lemma slice_as_range : forall (d : list N) off n logic, off + n <= N.of_nat (length d) ->
  firstn (N.to_nat n) (skipn (N.to_nat off) d) =
  map (fun q => nth (N.to_nat (off + (q - logic))) d 0) (nrange logic (logic + n)).
Proof.
  intros d off n logic H. rewrite slice_map by lia. unfold nrange. rewrite map_map.
  replace (N.to_nat (logic + n - logic)) with (N.to_nat n) by lia.
  apply map_ext. intros i. f_equal. lia.
Qed.

(* ================================================================== *)
(* the write loop                                                      *)
(* ================================================================== *)
Definition fetch_ok (src : chunk_source) (w : chunk_view) : Prop :=
  fetch_view src w = firstn (N.to_nat (cv_size w)) (skipn (N.to_nat (cv_off w)) (src (cv_fid w))) /\
  cv_off w + cv_size w <= N.of_nat (length (src (cv_fid w))).

Lemma stream_views_spec : forall src ws pos,
  views_ok ws -> (forall w, In w ws -> pos <= cv_logic w) -> (forall w, In w ws -> fetch_ok src w) ->
  pos <= snd (stream_views src ws pos) /\
  (forall w, In w ws -> cv_end w <= snd (stream_views src ws pos)) /\
  (snd (stream_views src ws pos) = pos \/ exists w, In w ws /\ snd (stream_views src ws pos) = cv_end w) /\
  fst (stream_views src ws pos) =
  map (fun q => byte_of src (src_of_views ws q)) (nrange pos (snd (stream_views src ws pos))).
Proof.
  intros src ws. induction ws as [|w rest IH]; intros pos Hok Hpos Hfetch; simpl.
  - rewrite nrange_empty. repeat split; auto; try lia; try (intros ? []).
  - pose proof Hok as [Hs Hf]. inversion Hf as [|? ? Hne Hf']; subst.
    assert (Hrest : forall w', In w' rest -> cv_end w <= cv_logic w').
    { intros w' Hw'. exact (ss_in_cons _ _ _ _ Hs Hw'). }
    destruct (IH (cv_logic w + cv_size w) (iok_tail _ _ _ _ Hok) Hrest
                 (fun w' Hw' => Hfetch w' (or_intror Hw'))) as [I1 [I2 [I3 I4]]].
    destruct (stream_views src rest (cv_logic w + cv_size w)) as [out p'] eqn:E. simpl in *.
    specialize (Hpos w (or_introl eq_refl)). destruct (Hfetch w (or_introl eq_refl)) as [F1 F2].
    unfold cv_end in *.
    repeat split.
    + lia.
    + intros w' [Hw'|Hw']; subst; auto; lia.
    + right. destruct I3 as [I3|[w' [Hw' I3]]].
      * exists w. split; auto.
      * exists w'. split; auto.
    + rewrite (nrange_split pos (cv_logic w) p') by lia.
      rewrite (nrange_split (cv_logic w) (cv_logic w + cv_size w) p') by lia.
      rewrite !map_app. f_equal; [|f_equal].
      * (* the gap: zeros *)
        rewrite (map_const_repeat _ 0).
        { rewrite nrange_length. reflexivity. }
        intros q Hq. apply in_nrange in Hq. rewrite src_views_cons.
        replace (cvcovers w q) with false by (unfold cvcovers; lia).
        unfold src_of_views. rewrite views_find_none; auto.
        intros w' Hw'. specialize (Hrest w' Hw'). unfold cvcovers. lia.
      * (* the view's data *)
        rewrite F1. rewrite (slice_as_range _ _ _ (cv_logic w)) by lia.
        apply map_ext_in. intros q Hq. apply in_nrange in Hq. rewrite src_views_cons.
        replace (cvcovers w q) with true by (unfold cvcovers; lia). reflexivity.
      * (* the rest *)
        rewrite I4. apply map_ext_in. intros q Hq. apply in_nrange in Hq. rewrite src_views_cons.
        replace (cvcovers w q) with false by (unfold cvcovers; lia). reflexivity.
Qed.

(* ================================================================== *)
(* where the visible intervals come from                               *)
(* ================================================================== *)
Lemma fold_merge_prov : forall s vs0, vis_ok vs0 -> Forall (fun c => 0 < c_size c) s ->
  forall v, In v (fold_left merge_into_visibles s vs0) ->
  (exists c, In c s /\ v_fid v = c_fid c /\ v_csize v = c_size c) \/
  (exists v0, In v0 vs0 /\ v_fid v = v_fid v0 /\ v_csize v = v_csize v0).
Proof.
  induction s as [|c s IH]; intros vs0 Hok Hf v Hv; simpl in Hv.
  - right. exists v. auto.
  - inversion Hf as [|? ? Hc Hf']; subst.
    destruct (IH _ (merge_ok vs0 c Hok Hc) Hf' v Hv) as [[c' [H1 H2]]|[v1 [H1 [H2 H3]]]].
    + left. exists c'. split; [right; auto|auto].
    + apply merge_in in H1; auto. destruct H1 as [H1|[v0 [Hv0 H1]]].
      * subst v1. left. exists c. split; [left; auto|]. simpl in *. auto.
      * destruct Hok as [_ Hne]. rewrite Forall_forall in Hne.
        assert (Hos : c_off c <= c_stop c) by (unfold c_stop; lia).
        pose proof (split_in _ _ _ _ (Hne v0 Hv0) Hos H1) as P.
        right. exists v0. split; auto. split; [rewrite H2|rewrite H3]; tauto.
Qed.

(* everything the stream (or any reader) needs to know about the views of a window *)
Lemma window_views_facts : forall src fuel ms chunks d m off size,
  resolve fuel ms off (off + size) chunks = Some (d, m) -> NoDup (map key d) ->
  (forall c, In c d -> N.of_nat (length (src (c_fid c))) = c_size c) ->
  let V := view_from_chunks fuel ms chunks off size in
  views_ok V /\
  (forall p, src_of_views V p = if (off <=? p) && (p <? off + size) then overlay_src d p else None) /\
  (forall w, In w V -> off <= cv_logic w /\ cv_end w <= off + size /\ fetch_ok src w /\
                       exists c, In c d /\ cv_end w <= c_stop c).
Proof.
  intros src fuel ms chunks d m off size Hres Hn Hlen V. unfold view_from_chunks in V.
  set (vs := fst (non_overlapping_visible_intervals fuel ms chunks off (off + size))) in *.
  assert (Hvok : vis_ok vs) by (eapply non_overlapping_ok; eauto).
  assert (Hsrc : forall p, src_of_visibles vs p = overlay_src d p)
    by (eapply non_overlapping_overlay; eauto).
  assert (HV : views_ok V) by (apply views_ok_of; auto).
  assert (HVsrc : forall p, src_of_views V p =
                            if (off <=? p) && (p <? off + size) then overlay_src d p else None).
  { intros p. unfold V. rewrite views_src; auto. rewrite Hsrc. reflexivity. }
  split; auto. split; auto.
  intros w Hw. pose proof HV as [HVs HVf]. rewrite Forall_forall in HVf. pose proof (HVf w Hw) as Hne.
  pose proof Hw as Hw'. unfold V, view_from_visibles in Hw'. apply in_flat_map in Hw'.
  destruct Hw' as [v [Hv Hwv]]. pose proof (view_of_in _ _ _ _ Hwv) as [P1 [P2 [P3 [P4 [P5 P6]]]]].
  (* the last byte of the view lies in the chunk that wins there *)
  set (q := cv_end w - 1).
  assert (Hcov : cvcovers w q = true) by (unfold cvcovers, q, cv_end in *; lia).
  pose proof (views_find_unique V w q HV Hw Hcov) as Hfind.
  pose proof (HVsrc q) as Hq. unfold src_of_views in Hq. rewrite Hfind in Hq.
  replace ((off <=? q) && (q <? off + size)) with true in Hq by (unfold q; lia).
  unfold overlay_src in Hq. destruct (winner d q) as [c|] eqn:Ewin; [|discriminate].
  apply winner_in in Ewin. destruct Ewin as [Ic Cc]. inversion Hq as [[E1 E2]].
  assert (Hin : cv_off w + cv_size w <= c_size c /\ cv_end w <= c_stop c)
    by (unfold covers, c_stop, q, cv_end in *; lia).
  assert (Hl : N.of_nat (length (src (cv_fid w))) = c_size c) by (rewrite E1; apply Hlen; auto).
  split; [lia|]. split; [lia|]. split; [|exists c; tauto].
  split; [|lia].
  unfold fetch_view. destruct (cv_size w =? cv_csize w) eqn:Efull; auto.
  (* a full-chunk view: the visible interval's chunk size is the size of a chunk with this file id *)
  assert (Hprov : exists c0, In c0 d /\ v_fid v = c_fid c0 /\ v_csize v = c_size c0).
  { unfold vs, non_overlapping_visible_intervals in Hv. rewrite Hres in Hv. simpl in Hv.
    pose proof (resolve_data _ _ _ _ _ _ _ Hres) as Hd.
    assert (Hf : Forall (fun c => 0 < c_size c) (sort_chunks d)).
    { rewrite Forall_forall in *. intros c' Hc'. apply (in_window_size off (off + size)). apply Hd.
      eapply Permutation_in; [apply Permutation_sym, sort_chunks_perm|exact Hc']. }
    destruct (fold_merge_prov (sort_chunks d) [] (iok_nil _ _) Hf v Hv) as [[c0 [H1 H2]]|[v0 [[] _]]].
    exists c0. split; auto. eapply Permutation_in; [apply Permutation_sym, sort_chunks_perm|exact H1]. }
  destruct Hprov as [c0 [Ic0 [F0 S0]]].
  assert (Hl0 : N.of_nat (length (src (cv_fid w))) = c_size c0) by (rewrite P1, F0; apply Hlen; auto).
  assert (Hoff : cv_off w = 0) by lia.
  assert (Hsz : N.to_nat (cv_size w) = length (src (cv_fid w))) by lia.
  rewrite Hoff, Hsz. simpl. symmetry. apply firstn_all.
Qed.

(* ================================================================== *)
(* StreamContent writes the overlay of the requested range             *)
(* ================================================================== *)
Theorem stream_content_spec : forall src fuel ms chunks d m off size,
  resolve fuel ms off (off + size) chunks = Some (d, m) -> NoDup (map key d) ->
  (forall c, In c d -> N.of_nat (length (src (c_fid c))) = c_size c) ->
  off + size <= max_int64 ->
  (size = max_int64 -> forall c, In c d -> c_stop c <= total_size chunks) ->
  total_size chunks <= max_int64 ->
  let stop := if size =? max_int64 then total_size chunks else off + size in
  stream_content src fuel ms chunks off size = map (overlay src d) (nrange off stop).
Proof.
  intros src fuel ms chunks d m off size Hres Hn Hlen Hov Hall Htot stop.
  destruct (window_views_facts src fuel ms chunks d m off size Hres Hn Hlen) as [HV [HVsrc Hw]].
  unfold stream_content. fold stop.
  set (V := view_from_chunks fuel ms chunks off size) in *.
  destruct (stream_views_spec src V off HV) as [S1 [S2 [S3 S4]]].
  { intros w Hin. apply Hw. auto. }
  { intros w Hin. apply Hw. auto. }
  destruct (stream_views src V off) as [out pos] eqn:E. simpl in *.
  assert (Hstop : stop <= off + size) by (unfold stop; destruct (size =? max_int64) eqn:Es; lia).
  assert (Hpos : pos <= stop).
  { destruct S3 as [S3|[w [Hin S3]]].
    - unfold stop. destruct (size =? max_int64) eqn:Es; lia.
    - destruct (Hw w Hin) as [W1 [W2 [_ [c [Ic W4]]]]]. unfold stop.
      destruct (size =? max_int64) eqn:Es; [|lia].
      assert (size = max_int64) by lia. specialize (Hall H c Ic). lia. }
  rewrite (nrange_split off pos stop) by lia. rewrite map_app. f_equal.
  - rewrite S4. apply map_ext_in. intros q Hq. apply in_nrange in Hq. unfold overlay.
    rewrite HVsrc. replace ((off <=? q) && (q <? off + size)) with true by lia. reflexivity.
  - rewrite (map_const_repeat _ 0).
    { rewrite nrange_length. reflexivity. }
    intros q Hq. apply in_nrange in Hq. unfold overlay.
    assert (Hnone : src_of_views V q = None).
    { unfold src_of_views. rewrite views_find_none; auto. intros w Hin.
      specialize (S2 w Hin). unfold cvcovers. unfold cv_end in S2. lia. }
    rewrite HVsrc in Hnone. replace ((off <=? q) && (q <? off + size)) with true in Hnone by lia.
    rewrite Hnone. reflexivity.
Qed.
