(* Proofs about the filer-history part of model/Ttl.v and the multi-needle volume
   statement (C09). *)
From Coq Require Import List NArith ZArith Bool String Lia.
From Coq Require Import ZifyBool ZifyN.
From SW Require Import model.Ttl proof.TtlProofs.
Import ListNotations.
Local Open Scope N_scope.

Arguments N.mul : simpl never.
Arguments N.add : simpl never.

(* ====================== the store ====================== *)

Lemma fs_get_put : forall st p e q,
  fs_get (fs_put st p e) q = if q =? p then Some e else fs_get st q.
Proof.
  induction st as [|[k x] r IH]; intros p e q; simpl.
  - destruct (N.eqb_spec q p); reflexivity.
  - destruct (N.eqb_spec p k) as [Epk|Epk].
    + subst k. simpl. destruct (N.eqb_spec q p); reflexivity.
    + destruct (p <? k) eqn:Elt; simpl.
      * destruct (N.eqb_spec q p); reflexivity.
      * rewrite IH. destruct (N.eqb_spec q k) as [Eqk|Eqk].
        -- subst k. destruct (N.eqb_spec q p); [congruence|reflexivity].
        -- reflexivity.
Qed.

Lemma fs_get_del : forall st p q,
  fs_get (fs_del st p) q = if q =? p then None else fs_get st q.
Proof.
  induction st as [|[k x] r IH]; intros p q; simpl.
  - destruct (q =? p); reflexivity.
  - unfold fs_del in *. simpl. destruct (N.eqb_spec k p) as [E|E]; simpl.
    + subst k. rewrite IH. destruct (N.eqb_spec q p); reflexivity.
    + rewrite IH. destruct (N.eqb_spec q k) as [Eqk|Eqk].
      * subst k. destruct (N.eqb_spec q p); [congruence|reflexivity].
      * reflexivity.
Qed.

Lemma fs_get_in : forall st p e, fs_get st p = Some e -> In (p, e) st.
Proof.
  induction st as [|[k x] r IH]; intros p e H; simpl in *; [discriminate|].
  destruct (N.eqb_spec p k).
  - inversion H; subst. left; reflexivity.
  - right. apply IH; exact H.
Qed.

(* a listing keeps the first entry of a name when that entry is visible *)
Lemma fs_get_expire_keep : forall now st p e,
  fs_get st p = Some e -> fe_visible now e = true -> fs_get (fs_expire now st) p = Some e.
Proof.
  induction st as [|[k x] r IH]; intros p e H Hv; simpl in *; [discriminate|].
  unfold fs_expire in *. simpl.
  destruct (N.eqb_spec p k) as [E|E].
  - inversion H; subst. rewrite Hv. simpl. rewrite N.eqb_refl. reflexivity.
  - destruct (fe_visible now x); simpl.
    + destruct (N.eqb_spec p k); [congruence|]. apply IH; assumption.
    + apply IH; assumption.
Qed.

(* ====================== the window of one entry ====================== *)

Lemma entry_visible_spec : forall now c s,
  entry_visible now c s = true <-> (s <= 0)%Z \/ now <= (c + Z.to_N s) * NS.
Proof.
  intros now c s. unfold entry_visible, NS. split; intro H.
  - destruct (Z.ltb_spec 0 s); [|left; lia]. right. simpl in H.
    apply negb_true_iff in H. apply N.ltb_ge in H. lia.
  - apply negb_true_iff. destruct (Z.ltb_spec 0 s); simpl; [|reflexivity].
    apply N.ltb_ge. destruct H as [H|H]; lia.
Qed.

(* Filer.FindEntry returns the stored entry exactly while now <= Crtime + TtlSec
   (TtlSec <= 0: always) -- Mtime plays no role *)
Lemma filer_find_window : forall now st p e,
  snd (filer_find now st p) = Some e <->
  fs_get st p = Some e /\ ((fe_ttl e <= 0)%Z \/ now <= (fe_crtime e + Z.to_N (fe_ttl e)) * NS).
Proof.
  intros now st p e. unfold filer_find.
  destruct (fs_get st p) as [x|] eqn:G; simpl.
  - destruct (fe_visible now x) eqn:V; simpl.
    + split.
      * intro H; inversion H; subst. split; auto. apply entry_visible_spec. exact V.
      * intros [H _]. exact H.
    + split; [discriminate|]. intros [H W]. inversion H; subst.
      apply entry_visible_spec in W. unfold fe_visible in V. congruence.
  - split; [discriminate|]. intros [H _]; discriminate.
Qed.

Lemma filer_find_mtime_irrelevant : forall now st p e m,
  fs_get st p = Some e ->
  let e' := {| fe_crtime := fe_crtime e; fe_mtime := m; fe_ttl := fe_ttl e; fe_chunks := fe_chunks e |} in
  (snd (filer_find now st p) = None <-> snd (filer_find now (fs_put st p e') p) = None).
Proof.
  intros now st p e m G e'. unfold filer_find. rewrite G, fs_get_put, N.eqb_refl.
  unfold fe_visible. simpl.
  destruct (entry_visible now (fe_crtime e) (fe_ttl e)); simpl; split; auto; discriminate.
Qed.

Lemma find_self_visible : forall now st p e,
  fs_get st p = Some e -> fe_visible now e = true -> filer_find now st p = (st, Some e).
Proof. intros now st p e G V. unfold filer_find. rewrite G, V. reflexivity. Qed.

Lemma find_other : forall now st q p, (p =? q) = false ->
  fs_get (fst (filer_find now st q)) p = fs_get st p.
Proof.
  intros now st q p E. unfold filer_find.
  destruct (fs_get st q) as [x|]; simpl; auto.
  destruct (fe_visible now x); simpl; auto.
  rewrite fs_get_del, E. reflexivity.
Qed.

(* ====================== rewriting an entry keeps its Crtime ====================== *)

(* CreateEntry over / UpdateEntry of a visible entry stores the OLD Crtime *)
Lemma filer_write_keeps_crtime : forall now st p oe e o,
  snd (filer_find now st p) = Some oe ->
  o = FCreate p e false \/ o = FUpdate p e ->
  fs_get (fst (filer_step now st o)) p = Some (fe_merge oe e) /\
  fe_crtime (fe_merge oe e) = fe_crtime oe.
Proof.
  intros now st p oe e o F Ho. split; [|reflexivity].
  destruct Ho; subst o; simpl;
    destruct (filer_find now st p) as [st1 old]; simpl in F; subst old; simpl;
    rewrite fs_get_put, N.eqb_refl; reflexivity.
Qed.

(* one step of a history preserves "name p holds an entry with Crtime c and TtlSec s",
   as long as the step happens while that entry is visible *)
Lemma keeps_step : forall p s c t o st e,
  fs_get st p = Some e -> fe_crtime e = c -> fe_ttl e = s ->
  fop_keeps p s o = true -> t <= (c + Z.to_N s) * NS ->
  exists e', fs_get (fst (filer_step t st o)) p = Some e' /\ fe_crtime e' = c /\ fe_ttl e' = s.
Proof.
  intros p s c t o st e G Hc Hs K Ht.
  assert (V : fe_visible t e = true).
  { unfold fe_visible. apply entry_visible_spec. right. rewrite Hc, Hs. exact Ht. }
  destruct o as [q e1|q e1 excl|q e1|q| |q]; simpl in K |- *.
  - (* FInsert *) apply negb_true_iff in K. rewrite fs_get_put.
    rewrite N.eqb_sym in K. rewrite K. exists e; auto.
  - (* FCreate *)
    destruct (N.eqb_spec q p) as [E|E].
    + subst q. simpl in K. rewrite (find_self_visible _ _ _ _ G V).
      destruct excl; simpl.
      * exists e; auto.
      * rewrite fs_get_put, N.eqb_refl. eexists; split; [reflexivity|]. simpl. split; [exact Hc|lia].
    + assert (Ep : (p =? q) = false) by (apply N.eqb_neq; congruence).
      pose proof (find_other t st q p Ep) as Fo.
      destruct (filer_find t st q) as [st1 old]; simpl in Fo.
      destruct old as [oe|]; [destruct excl|]; simpl; try rewrite fs_get_put, Ep; rewrite Fo; exists e; auto.
  - (* FUpdate *)
    destruct (N.eqb_spec q p) as [E|E].
    + subst q. simpl in K. rewrite (find_self_visible _ _ _ _ G V). simpl.
      rewrite fs_get_put, N.eqb_refl. eexists; split; [reflexivity|]. simpl. split; [exact Hc|lia].
    + assert (Ep : (p =? q) = false) by (apply N.eqb_neq; congruence).
      pose proof (find_other t st q p Ep) as Fo.
      destruct (filer_find t st q) as [st1 old]; simpl in Fo.
      destruct old as [oe|]; simpl; try rewrite fs_get_put, Ep; rewrite Fo; exists e; auto.
  - (* FFind *)
    destruct (N.eqb_spec q p) as [E|E].
    + subst q. rewrite (find_self_visible _ _ _ _ G V). simpl. exists e; auto.
    + assert (Ep : (p =? q) = false) by (apply N.eqb_neq; congruence).
      pose proof (find_other t st q p Ep) as Fo.
      destruct (filer_find t st q) as [st1 old]; simpl in *. rewrite Fo. exists e; auto.
  - (* FList *) exists e. split; auto. apply fs_get_expire_keep; assumption.
  - (* FDelete *) apply negb_true_iff in K. rewrite fs_get_del.
    rewrite N.eqb_sym in K. rewrite K. exists e; auto.
Qed.

Lemma filer_run_fst_cons : forall st t o r,
  fst (filer_run st ((t, o) :: r)) = fst (filer_run (fst (filer_step t st o)) r).
Proof.
  intros st t o r. simpl. destruct (filer_step t st o) as [st1 res]. simpl.
  destruct (filer_run st1 r) as [st2 out]. reflexivity.
Qed.

(* However often an entry with TtlSec = s is rewritten, updated, appended to, looked up
   or listed during its life (every write keeping TtlSec = s), it is gone at every
   instant after Crtime + s: modifications (which move Mtime) never extend its life. *)
Theorem filer_life_not_extended : forall l st p e0 s now,
  fs_get st p = Some e0 -> fe_ttl e0 = s -> (0 < s)%Z ->
  forallb (fun to => fop_keeps p s (snd to)) l = true ->
  forallb (fun to => fst to <=? (fe_crtime e0 + Z.to_N s) * NS) l = true ->
  (fe_crtime e0 + Z.to_N s) * NS < now ->
  snd (filer_find now (fst (filer_run st l)) p) = None.
Proof.
  induction l as [|[t o] r IH]; intros st p e0 s now G Hs Hpos K T Hnow.
  - simpl. unfold filer_find. rewrite G.
    assert (V : fe_visible now e0 = false).
    { unfold fe_visible. destruct (entry_visible now (fe_crtime e0) (fe_ttl e0)) eqn:E; auto.
      apply entry_visible_spec in E. rewrite Hs in E. lia. }
    rewrite V. reflexivity.
  - simpl in K, T. apply andb_true_iff in K. destruct K as [K1 K2].
    apply andb_true_iff in T. destruct T as [T1 T2]. apply N.leb_le in T1.
    destruct (keeps_step p s (fe_crtime e0) t o st e0 G eq_refl Hs K1 T1) as [e' [G' [C' S']]].
    rewrite filer_run_fst_cons.
    apply (IH _ p e' s now G' S' Hpos K2); rewrite C'; assumption.
Qed.

(* ... and until then it stays visible (nothing removes it early) *)
Theorem filer_life_not_shortened : forall l st p e0 s now,
  fs_get st p = Some e0 -> fe_ttl e0 = s ->
  forallb (fun to => fop_keeps p s (snd to)) l = true ->
  forallb (fun to => fst to <=? (fe_crtime e0 + Z.to_N s) * NS) l = true ->
  now <= (fe_crtime e0 + Z.to_N s) * NS ->
  exists e, snd (filer_find now (fst (filer_run st l)) p) = Some e /\ fe_crtime e = fe_crtime e0.
Proof.
  induction l as [|[t o] r IH]; intros st p e0 s now G Hs K T Hnow.
  - simpl. exists e0. split; auto. apply filer_find_window. split; auto. right. rewrite Hs. exact Hnow.
  - simpl in K, T. apply andb_true_iff in K. destruct K as [K1 K2].
    apply andb_true_iff in T. destruct T as [T1 T2]. apply N.leb_le in T1.
    destruct (keeps_step p s (fe_crtime e0) t o st e0 G eq_refl Hs K1 T1) as [e' [G' [C' S']]].
    rewrite filer_run_fst_cons.
    destruct (IH _ p e' s now G' S' K2) as [e [F C]]; try (rewrite C'; assumption).
    exists e. split; auto. congruence.
Qed.

(* ====================== visible entries point at readable data ====================== *)

Lemma chunk_outlives_readable : forall now c s n,
  chunk_outlives c s n = true -> entry_visible now c s = true -> read_visible now n = true.
Proof.
  intros now c s n O V. rewrite read_visible_spec.
  unfold chunk_outlives in O. destruct (expiring n); simpl in *; auto.
  apply andb_true_iff in O. destruct O as [Hs Hd].
  apply entry_visible_spec in V. apply N.ltb_lt in Hd. apply N.ltb_lt. lia.
Qed.

(* sufficient: the chunk's TTL covers TtlSec and it was appended after the second the
   entry's Crtime was truncated to *)
Lemma chunk_outlives_sufficient : forall c s n,
  (0 < s)%Z -> (s <= 60 * Z.of_N (minutes (n_ttl n)))%Z -> c * NS < append_at_ns n ->
  chunk_outlives c s n = true.
Proof.
  intros c s n Hs Hc Ha. unfold chunk_outlives.
  destruct (expiring n); simpl; auto.
  apply andb_true_iff. split; [lia|]. apply N.ltb_lt. unfold read_deadline, MIN_NS, NS in *. lia.
Qed.

Definition fs_all_safe (tab : N -> needle) (st : fstore) : Prop :=
  forall q e, In (q, e) st -> fe_safe tab e = true.

Lemma in_fs_put : forall st p e q x, In (q, x) (fs_put st p e) -> (q, x) = (p, e) \/ In (q, x) st.
Proof.
  induction st as [|[k y] r IH]; intros p e q x H; simpl in *.
  - destruct H as [H|[]]. left; auto.
  - destruct (p =? k).
    + destruct H as [H|H]; [left; auto|right; right; exact H].
    + destruct (p <? k).
      * destruct H as [H|H]; [left; auto|right; exact H].
      * destruct H as [H|H]; [right; left; exact H|].
        destruct (IH _ _ _ _ H); [left; auto|right; right; auto].
Qed.

Lemma safe_put : forall tab st p e, fs_all_safe tab st -> fe_safe tab e = true -> fs_all_safe tab (fs_put st p e).
Proof.
  intros tab st p e A S q x H. destruct (in_fs_put _ _ _ _ _ H) as [E|I].
  - inversion E; subst; exact S.
  - apply (A q); exact I.
Qed.

Lemma safe_filter : forall tab st f, fs_all_safe tab st -> fs_all_safe tab (filter f st).
Proof. intros tab st f A q x H. apply filter_In in H. apply (A q). apply H. Qed.

Lemma safe_find : forall tab now st p, fs_all_safe tab st -> fs_all_safe tab (fst (filer_find now st p)).
Proof.
  intros tab now st p A. unfold filer_find.
  destruct (fs_get st p) as [x|]; simpl; auto.
  destruct (fe_visible now x); simpl; auto. apply safe_filter; exact A.
Qed.

Lemma safe_step : forall tab now st o,
  fs_all_safe tab st ->
  match fop_stored now st o with Some e => fe_safe tab e = true | None => True end ->
  fs_all_safe tab (fst (filer_step now st o)).
Proof.
  intros tab now st o A S.
  destruct o as [q e1|q e1 excl|q e1|q| |q]; simpl in *.
  - apply safe_put; assumption.
  - pose proof (safe_find tab now st q A) as A1.
    destruct (filer_find now st q) as [st1 old]; simpl in *.
    destruct old as [oe|]; [destruct excl|]; simpl; auto; apply safe_put; assumption.
  - pose proof (safe_find tab now st q A) as A1.
    destruct (filer_find now st q) as [st1 old]; simpl in *.
    destruct old as [oe|]; simpl; auto. apply safe_put; assumption.
  - pose proof (safe_find tab now st q A) as A1.
    destruct (filer_find now st q) as [st1 old]; simpl in *. exact A1.
  - apply safe_filter; exact A.
  - apply safe_filter; exact A.
Qed.

Lemma safe_run : forall tab l st,
  fs_all_safe tab st -> filer_run_safe tab st l = true -> fs_all_safe tab (fst (filer_run st l)).
Proof.
  induction l as [|[t o] r IH]; intros st A S; simpl in *; auto.
  apply andb_true_iff in S. destruct S as [S1 S2].
  pose proof (filer_run_fst_cons st t o r) as E. simpl in E. rewrite E.
  apply IH; auto. apply safe_step; auto.
  destruct (fop_stored t st o); auto.
Qed.

(* Over every history of creates, updates, raw inserts, deletes, lookups and listings,
   at any clocks: if every write leaves an entry whose chunks outlive it, then whenever
   a lookup returns an entry, every chunk it points at can be read at that instant. *)
Theorem filer_history_safe : forall tab l now p e,
  filer_run_safe tab [] l = true ->
  snd (filer_find now (fst (filer_run [] l)) p) = Some e ->
  forall c, In c (fe_chunks e) -> read_visible now (tab c) = true.
Proof.
  intros tab l now p e S F c Hc.
  assert (A : fs_all_safe tab (fst (filer_run [] l))).
  { apply safe_run; auto. intros q x []. }
  apply filer_find_window in F. destruct F as [G W].
  pose proof (A p e (fs_get_in _ _ _ G)) as Sf.
  unfold fe_safe in Sf. rewrite forallb_forall in Sf.
  apply (chunk_outlives_readable now (fe_crtime e) (fe_ttl e)); auto.
  apply entry_visible_spec. exact W.
Qed.

(* the same for a listing *)
Theorem filer_history_safe_list : forall tab l now q e,
  filer_run_safe tab [] l = true ->
  In (q, e) (fs_expire now (fst (filer_run [] l))) ->
  forall c, In c (fe_chunks e) -> read_visible now (tab c) = true.
Proof.
  intros tab l now q e S I c Hc.
  assert (A : fs_all_safe tab (fst (filer_run [] l))).
  { apply safe_run; auto. intros k x []. }
  unfold fs_expire in I. apply filter_In in I. destruct I as [I V]. simpl in V.
  pose proof (A q e I) as Sf. unfold fe_safe in Sf. rewrite forallb_forall in Sf.
  apply (chunk_outlives_readable now (fe_crtime e) (fe_ttl e)); auto.
Qed.

(* non-vacuity and the multi-step shape: created at T0 with TtlSec 60, appended to 57 s
   later (Mtime moves, Crtime stays), visible at T0+60, gone at T0+61.5 *)
Definition ex_tab (c : N) : needle :=
  if c =? 0 then chunk_of 60 T0 (T0 * NS + 1) else chunk_of 60 (T0 + 57) ((T0 + 57) * NS + 5).
Definition ex_e0 : fentry := {| fe_crtime := T0; fe_mtime := T0; fe_ttl := 60; fe_chunks := [0] |}.
Definition ex_e1 : fentry := {| fe_crtime := T0 + 57; fe_mtime := T0 + 57; fe_ttl := 60; fe_chunks := [0; 1] |}.
Definition ex_hist : list (N * fop) :=
  [(T0 * NS + 7, FCreate 3 ex_e0 false); ((T0 + 57) * NS + 9, FCreate 3 ex_e1 false)].

Lemma filer_history_example :
  filer_run_safe ex_tab [] ex_hist = true /\
  snd (filer_find ((T0 + 60) * NS) (fst (filer_run [] ex_hist)) 3) =
    Some {| fe_crtime := T0; fe_mtime := T0 + 57; fe_ttl := 60; fe_chunks := [0; 1] |} /\
  snd (filer_find ((T0 + 61) * NS + 500000000) (fst (filer_run [] ex_hist)) 3) = None /\
  read_visible ((T0 + 61) * NS + 500000000) (ex_tab 0) = false.
Proof. vm_compute. repeat split. Qed.

(* ====================== entry vs. chunk when the chunk is uploaded first ====================== *)

(* The HTTP path uploads the chunks and only then stamps Crtime := time.Now(): the chunk's
   append time lies up to the upload latency k before the entry's Crtime.  Then the chunk
   is readable at every instant that is at least k before the end of the entry's life. *)
Lemma visible_entry_chunk_bound : forall s crtime p a k now,
  (0 < s < 2^31)%Z ->
  ttl_covers (filer_volume_ttl s) s = true ->
  crtime * NS < a + k ->
  entry_visible (now + k) crtime s = true ->
  read_visible now (chunk_of s p a) = true.
Proof.
  intros s crtime p a k now Hs Hc Ha Hv.
  rewrite read_visible_spec.
  destruct (expiring (chunk_of s p a)) eqn:He; simpl; auto.
  destruct (chunk_of_ttl s p a) as [Ht [_ Hap]].
  unfold read_deadline. rewrite Ht, Hap.
  unfold expiring in He. rewrite Ht in He.
  unfold ttl_covers in Hc. apply entry_visible_spec in Hv. unfold MIN_NS, NS in *.
  destruct (minutes (filer_volume_ttl s) =? 0) eqn:Em.
  - rewrite andb_false_r in He. discriminate.
  - lia.
Qed.

(* ... and inside those last k nanoseconds the visible entry does point at expired data,
   even for an exactly representable TtlSec: TtlSec 60, chunk appended 5 ms before Crtime *)
Lemma visible_entry_chunk_uploaded_first :
  exists s crtime p a now, (0 < s < 2^31)%Z /\ ttl_covers (filer_volume_ttl s) s = true /\
    p * NS <= a /\ a < crtime * NS /\ crtime * NS <= a + 5000000 /\
    entry_visible now crtime s = true /\ read_visible now (chunk_of s p a) = false.
Proof.
  exists 60%Z, T0, (T0 - 1), (T0 * NS - 5000000), ((T0 + 60) * NS - 1000000).
  vm_compute. repeat split; discriminate.
Qed.

(* ====================== many uploads into one volume ====================== *)

(* the stamp of a volume after a list of uploads: raised to the largest LastModified *)
Definition uploads_stamp (t0 : N) (us : list upload) : N :=
  fold_left (fun s u => vol_stamp_after_write s
               (last_modified (create_needle (u_req_ttl u) (u_ts u) (u_parse_s u)))) us t0.

Definition volume_of_uploads (vttl : string) (t0 size limit : N) (ioerr : bool) (us : list upload) : volume :=
  {| v_ttl := read_ttl vttl; v_last_mod := uploads_stamp t0 us;
     v_size := size; v_limit := limit; v_io_error := ioerr |}.

(* per needle: the exact sets of c09_compaction_early_iff / c09_expiry_early_iff *)
Definition uploads_trigger (vttl : string) (v : volume) (us : list upload) : bool :=
  existsb (fun u => compaction_early (read_ttl vttl) (stored_of u) || expiry_early v (stored_of u)) us.

Theorem volume_not_removed_early_partial : forall vttl t0 size limit ioerr us,
  let v := volume_of_uploads vttl t0 size limit ioerr us in
  uploads_trigger vttl v us = false ->
  forall u now, In u us -> read_visible now (stored_of u) = true ->
    compaction_keeps (now / NS) (read_ttl vttl) (stored_of u) = true /\
    volume_deleted (now / NS) v = false.
Proof.
  intros vttl t0 size limit ioerr us v T u now I R.
  unfold uploads_trigger in T.
  assert (H : compaction_early (read_ttl vttl) (stored_of u) || expiry_early v (stored_of u) = false).
  { destruct (compaction_early (read_ttl vttl) (stored_of u) || expiry_early v (stored_of u)) eqn:E; auto.
    assert (X : existsb (fun u => compaction_early (read_ttl vttl) (stored_of u) || expiry_early v (stored_of u)) us = true)
      by (apply existsb_exists; exists u; auto).
    congruence. }
  apply orb_false_iff in H. destruct H as [H1 H2]. split.
  - apply compaction_not_early; assumption.
  - apply (expiry_not_early v (stored_of u)); assumption.
Qed.

(* and the trigger is exact per needle: a needle inside it is removed while readable *)
Theorem volume_removed_early_in_trigger : forall vttl v us,
  uploads_trigger vttl v us = true ->
  exists u now, In u us /\ read_visible now (stored_of u) = true /\
    (compaction_keeps (now / NS) (read_ttl vttl) (stored_of u) = false \/ volume_deleted (now / NS) v = true).
Proof.
  intros vttl v us T. unfold uploads_trigger in T. apply existsb_exists in T.
  destruct T as [u [I H]]. apply orb_true_iff in H. destruct H as [H|H].
  - apply compaction_early_iff in H. destruct H as [now [R K]]. exists u, now. auto.
  - apply expiry_early_iff in H. destruct H as [now [R K]]. exists u, now. auto.
Qed.

(* the two Examples of props/C09.v *)
Lemma not_removed_early_example :
  let u := {| u_vttl := "3d"; u_req_ttl := ""; u_ts := 0; u_t0_s := T0; u_parse_s := T0 + 5;
              u_append_ns := (T0 + 5) * NS; u_size := 4096; u_limit := 2^30; u_io_error := false |} in
  upload_ordered u = true /\ upload_trigger u = false /\ expiring (stored_of u) = true /\
  read_visible ((T0 + 2 * 86400) * NS) (stored_of u) = true /\
  compaction_keeps (T0 + 2 * 86400) (read_ttl "3d") (stored_of u) = true /\
  read_visible ((T0 + 5 + 3 * 86400) * NS) (stored_of u) = false /\
  volume_deleted (T0 + 4 * 86400) (volume_of u) = true.
Proof. vm_compute. repeat split. Qed.

Lemma filer_example :
  filer_volume_ttl 7200 = {| t_count := 2; t_unit := 2 |} /\ ttl_covers (filer_volume_ttl 7200) 7200 = true /\
  filer_volume_ttl 31104000 = {| t_count := 12; t_unit := 5 |} /\
  seconds_to_ttl 90 = "1m"%string /\ seconds_to_ttl 15360 = "4h"%string /\ seconds_to_ttl 30 = "0m"%string.
Proof. vm_compute. repeat split. Qed.
