(* C36: LocalSink on whole histories -- the file set of the backup tree is the
   reference file set (every file event applied at the mapped path). *)
From Coq Require Import List NArith ZArith Bool String Ascii Arith Lia.
From SW Require Import model.Repl proof.ReplProofs proof.ReplEmit.
Import ListNotations.
Local Open Scope list_scope.

Local Arguments join : simpl never.
Local Arguments clean : simpl never.
Local Arguments abs : simpl never.
Local Arguments map_path : simpl never.
Local Arguments is_multipart : simpl never.
Local Arguments ancestors : simpl never.

(* ---------- trees as lookup functions ---------- *)
Definition Inv (t : tree) : Prop := NoDup (map fst t) /\ ~ In "/"%string (map fst t).

Definition fkey (p : string) (x : string * bool) : bool := String.eqb (fst x) p.

Lemma lookup_unfold : forall t p,
  lookup_tree t p = if String.eqb p "/" then Some true else
                    match find (fkey p) t with Some x => Some (snd x) | None => None end.
Proof. reflexivity. Qed.

Lemma find_app1 : forall (f : string * bool -> bool) l x,
  find f (l ++ [x]) = match find f l with Some y => Some y | None => if f x then Some x else None end.
Proof.
  intros f l x. induction l as [|a l IH]; simpl; [reflexivity|].
  destruct (f a); [reflexivity|exact IH].
Qed.

Lemma find_none_notin : forall t p, find (fkey p) t = None -> ~ In p (map fst t).
Proof.
  intros t p H Hin. apply in_map_iff in Hin. destruct Hin as [x [Hx Hin]].
  apply (find_none _ _ H) in Hin. unfold fkey in Hin. rewrite Hx, String.eqb_refl in Hin. discriminate.
Qed.

Lemma NoDup_snoc : forall (l : list string) p, NoDup l -> ~ In p l -> NoDup (l ++ [p]).
Proof.
  induction l as [|a l IH]; intros p Hn Hp; simpl.
  - constructor; [auto|constructor].
  - inversion Hn; subst. constructor.
    + intro H. apply in_app_or in H. destruct H as [H|[H|[]]]; [auto|]. subst. apply Hp. left. reflexivity.
    + apply IH; auto. intro H. apply Hp. right. exact H.
Qed.

Lemma lookup_add : forall t p d q, p <> "/"%string ->
  lookup_tree (add_entry t p d) q =
  if String.eqb q p then (match lookup_tree t p with Some x => Some x | None => Some d end)
  else lookup_tree t q.
Proof.
  intros t p d q Hp. unfold add_entry. destruct (lookup_tree t p) as [x|] eqn:L.
  - destruct (String.eqb q p) eqn:E; [apply String.eqb_eq in E; subst; exact L|reflexivity].
  - rewrite !lookup_unfold. rewrite lookup_unfold in L.
    apply String.eqb_neq in Hp. rewrite Hp in L.
    destruct (String.eqb q "/") eqn:Q.
    + apply String.eqb_eq in Q. subst q. rewrite String.eqb_sym, Hp. reflexivity.
    + rewrite find_app1. destruct (String.eqb q p) eqn:E.
      * apply String.eqb_eq in E. subst q. destruct (find (fkey p) t); [discriminate|].
        unfold fkey. simpl. rewrite String.eqb_refl. reflexivity.
      * destruct (find (fkey q) t); [reflexivity|]. unfold fkey. simpl. rewrite String.eqb_sym, E. reflexivity.
Qed.

Lemma inv_add : forall t p d, Inv t -> p <> "/"%string -> Inv (add_entry t p d).
Proof.
  intros t p d [Hn Hr] Hp. unfold add_entry. destruct (lookup_tree t p) eqn:L; [split; auto|].
  rewrite lookup_unfold in L. apply String.eqb_neq in Hp. rewrite Hp in L.
  destruct (find (fkey p) t) eqn:F; [discriminate|].
  apply find_none_notin in F. split; rewrite map_app; simpl.
  - apply NoDup_snoc; auto.
  - intro H. apply in_app_or in H. destruct H as [H|[H|[]]]; [auto|]. subst. rewrite String.eqb_refl in Hp. discriminate.
Qed.

Definition rmk (k : string) (t : tree) : tree := filter (fun x => negb (String.eqb (fst x) k)) t.

Lemma lookup_rmk : forall t k q,
  lookup_tree (rmk k t) q =
  if String.eqb q "/" then Some true else if String.eqb q k then None else lookup_tree t q.
Proof.
  intros t k q. rewrite !lookup_unfold. destruct (String.eqb q "/"); [reflexivity|].
  induction t as [|a t IH]; simpl.
  - destruct (String.eqb q k); reflexivity.
  - destruct (String.eqb (fst a) k) eqn:A; simpl.
    + rewrite IH. destruct (String.eqb q k) eqn:Q; [reflexivity|].
      unfold fkey at 2. apply String.eqb_eq in A. rewrite A, String.eqb_sym, Q. reflexivity.
    + unfold fkey at 1 3. destruct (String.eqb (fst a) q) eqn:B.
      * apply String.eqb_eq in B. subst q. rewrite A. reflexivity.
      * exact IH.
Qed.

Lemma inv_rmk : forall t k, Inv t -> Inv (rmk k t).
Proof.
  intros t k [Hn Hr].
  assert (Sub : forall x, In x (map fst (rmk k t)) -> In x (map fst t)).
  { intros x H. apply in_map_iff in H. destruct H as [y [Hy Hin]]. apply filter_In in Hin.
    apply in_map_iff. exists y. tauto. }
  split; [|intro H; apply Hr; apply Sub; exact H].
  clear Hr Sub. induction t as [|a t IH]; simpl; [constructor|].
  inversion Hn; subst. destruct (negb (String.eqb (fst a) k)); simpl; [|auto].
  constructor; [|auto]. intro H. apply H1. apply in_map_iff in H. destruct H as [y [Hy Hin]].
  apply filter_In in Hin. apply in_map_iff. exists y. tauto.
Qed.

Lemma delete_cases : forall t k, local_delete t k = t \/ local_delete t k = rmk k t.
Proof.
  intros t k. unfold local_delete, rmk. destruct (is_multipart k); [auto|].
  destruct (lookup_tree t k) as [[|]|]; auto. destruct (has_child t k || String.eqb k "/"); auto.
Qed.

Lemma inv_delete : forall t k, Inv t -> Inv (local_delete t k).
Proof. intros t k H. destruct (delete_cases t k) as [E|E]; rewrite E; auto using inv_rmk. Qed.

(* a delete changes no lookup except, possibly, the key's own to "absent" *)
Lemma delete_lookup : forall t k q,
  lookup_tree (local_delete t k) q = lookup_tree t q \/ lookup_tree (local_delete t k) q = None.
Proof.
  intros t k q. destruct (delete_cases t k) as [E|E]; rewrite E; [auto|].
  rewrite lookup_rmk, lookup_unfold. destruct (String.eqb q "/"); [auto|].
  destruct (String.eqb q k); auto.
Qed.

Lemma delete_file : forall t k q, is_multipart k = false -> lookup_tree t k = Some false ->
  (lookup_tree (local_delete t k) q = Some false <-> lookup_tree t q = Some false /\ q <> k).
Proof.
  intros t k q Hm Hk. unfold local_delete. rewrite Hm, Hk. fold (rmk k t). rewrite lookup_rmk.
  destruct (String.eqb q "/") eqn:Q.
  - apply String.eqb_eq in Q. subst. rewrite lookup_unfold. simpl. split; [discriminate|intros [H _]; discriminate].
  - destruct (String.eqb q k) eqn:E.
    + apply String.eqb_eq in E. split; [discriminate|intros [_ H]; contradiction].
    + apply String.eqb_neq in E. tauto.
Qed.

Lemma delete_nofile : forall t k q, lookup_tree t k <> Some false ->
  (lookup_tree (local_delete t k) q = Some false <-> lookup_tree t q = Some false).
Proof.
  intros t k q Hk. destruct (delete_cases t k) as [E|E]; rewrite E; [tauto|].
  rewrite lookup_rmk. destruct (String.eqb q "/") eqn:Q.
  - apply String.eqb_eq in Q. subst. rewrite lookup_unfold. simpl. tauto.
  - destruct (String.eqb q k) eqn:E2; [|tauto]. apply String.eqb_eq in E2. subst. split; [discriminate|contradiction].
Qed.

(* ---------- MkdirAll ---------- *)
Definition mkdirs (l : list string) (t : tree) : tree := fold_left (fun acc a => add_entry acc a true) l t.

Lemma lookup_mkdirs : forall l t q, (forall a, In a l -> a <> "/"%string) ->
  lookup_tree (mkdirs l t) q =
  match lookup_tree t q with Some x => Some x | None => if existsb (String.eqb q) l then Some true else None end.
Proof.
  induction l as [|a l IH]; intros t q Hl; simpl.
  - destruct (lookup_tree t q); reflexivity.
  - unfold mkdirs in *. simpl. rewrite IH by (intros; apply Hl; right; auto).
    rewrite lookup_add by (apply Hl; left; reflexivity).
    destruct (String.eqb q a) eqn:E; simpl.
    + apply String.eqb_eq in E. subst q. destruct (lookup_tree t a); reflexivity.
    + reflexivity.
Qed.

Lemma inv_mkdirs : forall l t, (forall a, In a l -> a <> "/"%string) -> Inv t -> Inv (mkdirs l t).
Proof.
  induction l as [|a l IH]; intros t Hl Ht; [exact Ht|].
  unfold mkdirs in *. simpl. apply IH; [intros; apply Hl; right; auto|].
  apply inv_add; [exact Ht|apply Hl; left; reflexivity].
Qed.

(* ---------- ancestors of a clean path ---------- *)
Lemma ancestors_from_spec : forall l pre a, In a (ancestors_from pre l) ->
  exists l1 l2, l = l1 ++ l2 /\ l1 <> [] /\ l2 <> [] /\ a = abs (pre ++ l1).
Proof.
  induction l as [|x l IH]; intros pre a H; simpl in H; [contradiction|].
  destruct l as [|y l]; [contradiction|].
  destruct H as [H|H].
  - exists [x], (y :: l). repeat split; try discriminate. auto.
  - apply IH in H. destruct H as [l1 [l2 [E [N1 [N2 Ea]]]]].
    exists (x :: l1), l2. rewrite <- app_assoc in Ea. simpl in Ea. repeat split; auto; try discriminate.
    simpl. rewrite E. reflexivity.
Qed.

Lemma abs_not_root : forall l, l <> [] -> forallb plain l = true -> abs l <> "/"%string.
Proof.
  intros l Hl Hp. destruct l as [|x l]; [contradiction|]. intro E.
  simpl in Hp. apply andb_true_iff in Hp. destruct Hp as [Hx _].
  destruct (plain_facts x Hx) as [Hn _].
  unfold abs in E. simpl in E. destruct x; [discriminate|]. simpl in E. discriminate.
Qed.

Lemma ancestors_abs : forall l a, forallb plain l = true -> In a (ancestors (abs l)) ->
  a <> "/"%string /\ a <> abs l.
Proof.
  intros l a Hp H. unfold ancestors in H. destruct (segs_abs l Hp) as [S _]. rewrite S in H.
  apply ancestors_from_spec in H. destruct H as [l1 [l2 [E [N1 [N2 Ea]]]]]. simpl in Ea. subst a.
  rewrite E in Hp. rewrite forallb_app in Hp. apply andb_true_iff in Hp. destruct Hp as [P1 P2].
  split; [apply abs_not_root; auto|].
  intro H. apply abs_inj in H; [|auto|rewrite E, forallb_app, P1, P2; reflexivity].
  rewrite E in H. rewrite <- (app_nil_r l1) in H at 1. apply app_inv_head in H. subst l2. contradiction.
Qed.

(* ---------- creating a file ---------- *)
Definition can_create (t : tree) (k : string) : Prop :=
  ancestor_is_file t k = false /\ lookup_tree t k <> Some true.

Lemma ancestor_is_file_false : forall t k,
  ancestor_is_file t k = false <-> (forall a, In a (ancestors k) -> lookup_tree t a <> Some false).
Proof.
  intros t k. unfold ancestor_is_file. split.
  - intros H a Ha E. assert (X : existsb (fun a => match lookup_tree t a with Some false => true | _ => false end) (ancestors k) = true).
    { apply existsb_exists. exists a. split; auto. rewrite E. reflexivity. }
    congruence.
  - intro H. apply not_true_is_false. intro X. apply existsb_exists in X. destruct X as [a [Ha E]].
    specialize (H a Ha). destruct (lookup_tree t a) as [[|]|]; try discriminate. apply H. reflexivity.
Qed.

Lemma can_create_delete : forall t k k', can_create t k' -> can_create (local_delete t k) k'.
Proof.
  intros t k k' [A L]. split.
  - apply ancestor_is_file_false. intros a Ha. rewrite ancestor_is_file_false in A. specialize (A a Ha).
    destruct (delete_lookup t k a) as [E|E]; rewrite E; [auto|discriminate].
  - destruct (delete_lookup t k k') as [E|E]; rewrite E; [auto|discriminate].
Qed.

Lemma create_file : forall t l e, Inv t -> forallb plain l = true -> l <> [] ->
  is_multipart (abs l) = false -> e_isdir e = false -> can_create t (abs l) ->
  let r := local_create t (abs l) e in
  snd r = false /\ Inv (fst r) /\ can_create (fst r) (abs l) /\
  (forall q, lookup_tree (fst r) q = Some false <-> (lookup_tree t q = Some false \/ q = abs l)).
Proof.
  intros t l e Ht Hp Hl Hm Hd [HA HL] r.
  assert (Hanc : forall a, In a (ancestors (abs l)) -> a <> "/"%string) by (intros a Ha; apply (ancestors_abs l a Hp Ha)).
  assert (Hroot : abs l <> "/"%string) by (apply abs_not_root; auto).
  assert (Main : snd r = false /\ Inv (fst r) /\
    (forall q, lookup_tree (fst r) q = Some false <-> (lookup_tree t q = Some false \/ q = abs l))).
  { unfold r, local_create. rewrite Hd, Hm, HA. simpl.
    destruct (lookup_tree t (abs l)) as [[|]|] eqn:L; simpl.
    - contradiction HL; reflexivity.
    - split; [reflexivity|]. split; [exact Ht|]. intro q. split; [auto|]. intros [H|H]; [auto|subst; auto].
    - fold (mkdirs (ancestors (abs l)) t). split; [reflexivity|]. split.
      + apply inv_add; [apply inv_mkdirs; auto|auto].
      + intro q. rewrite lookup_add by auto. rewrite !lookup_mkdirs by auto. rewrite L.
        assert (NI : existsb (String.eqb (abs l)) (ancestors (abs l)) = false).
        { apply not_true_is_false. intro X. apply existsb_exists in X. destruct X as [a [Ha E]].
          apply String.eqb_eq in E. subst a. apply (ancestors_abs l _ Hp Ha). reflexivity. }
        rewrite NI. destruct (String.eqb q (abs l)) eqn:E.
        * apply String.eqb_eq in E. split; auto.
        * apply String.eqb_neq in E. destruct (lookup_tree t q) as [[|]|].
          -- split; [discriminate|]. intros [H|H]; [discriminate|contradiction].
          -- split; auto.
          -- destruct (existsb (String.eqb q) (ancestors (abs l))); split; try discriminate;
             intros [H|H]; try discriminate; contradiction. }
  destruct Main as [M1 [M2 M3]]. split; [exact M1|]. split; [exact M2|]. split; [|exact M3]. split.
  - apply ancestor_is_file_false. intros a Ha E. apply M3 in E. destruct E as [E|E].
    + rewrite ancestor_is_file_false in HA. exact (HA a Ha E).
    + apply (ancestors_abs l a Hp Ha). exact E.
  - assert (X : lookup_tree (fst r) (abs l) = Some false) by (apply M3; auto). rewrite X. discriminate.
Qed.

(* ---------- the backup tree against the reference file set ---------- *)
Definition Rel (t : tree) (fs : list string) : Prop :=
  Inv t /\ forall p, lookup_tree t p = Some false <-> In p fs.

Lemma in_remove_str : forall k fs p, In p (remove_str k fs) <-> In p fs /\ p <> k.
Proof.
  intros k fs p. unfold remove_str. rewrite filter_In. split; intros [H1 H2]; split; auto.
  - apply negb_true_iff in H2. apply String.eqb_neq in H2. exact H2.
  - apply negb_true_iff. apply String.eqb_neq. exact H2.
Qed.

Lemma rel_delete_file : forall t fs k, Rel t fs -> is_multipart k = false -> lookup_tree t k <> Some true ->
  Rel (local_delete t k) (remove_str k fs).
Proof.
  intros t fs k [Hi Hf] Hm Hk. split; [apply inv_delete; exact Hi|]. intro p. rewrite in_remove_str.
  destruct (lookup_tree t k) as [[|]|] eqn:L.
  - contradiction Hk; reflexivity.
  - rewrite delete_file by auto. rewrite Hf. tauto.
  - rewrite delete_nofile by (rewrite L; discriminate). rewrite Hf. split; [|tauto].
    intro H. split; [exact H|]. intro E. subst p. apply Hf in H. congruence.
Qed.

Lemma rel_delete_dir : forall t fs k, Rel t fs -> lookup_tree t k <> Some false -> Rel (local_delete t k) fs.
Proof.
  intros t fs k [Hi Hf] Hk. split; [apply inv_delete; exact Hi|]. intro p.
  rewrite delete_nofile by auto. apply Hf.
Qed.

Definition add_str (k : string) (fs : list string) : list string :=
  if existsb (String.eqb k) fs then fs else fs ++ [k].

Lemma in_add_str : forall k fs p, In p (add_str k fs) <-> In p fs \/ p = k.
Proof.
  intros k fs p. unfold add_str. destruct (existsb (String.eqb k) fs) eqn:E.
  - apply existsb_exists in E. destruct E as [x [Hx E]]. apply String.eqb_eq in E. subst x.
    split; [auto|]. intros [H|H]; [auto|subst; auto].
  - rewrite in_app_iff. simpl. split; intros [H|H]; auto. destruct H as [H|[]]; auto.
Qed.

Lemma rel_create_file : forall t fs l e, Rel t fs -> forallb plain l = true -> l <> [] ->
  is_multipart (abs l) = false -> e_isdir e = false -> can_create t (abs l) ->
  snd (local_create t (abs l) e) = false /\
  Rel (fst (local_create t (abs l) e)) (add_str (abs l) fs) /\
  can_create (fst (local_create t (abs l) e)) (abs l).
Proof.
  intros t fs l e [Hi Hf] Hp Hl Hm Hd Hc.
  destruct (create_file t l e Hi Hp Hl Hm Hd Hc) as [A [B [C D]]].
  split; [exact A|]. split; [|exact C]. split; [exact B|].
  intro p. rewrite D, in_add_str, Hf. tauto.
Qed.

Lemma rel_ext : forall t fs fs', Rel t fs -> (forall p, In p fs <-> In p fs') -> Rel t fs'.
Proof. intros t fs fs' [Hi Hf] H. split; [exact Hi|]. intro p. rewrite Hf. apply H. Qed.

Lemma create_dir : forall t k e, e_isdir e = true -> local_create t k e = (t, false).
Proof. intros t k e H. unfold local_create. rewrite H. reflexivity. Qed.

(* ---------- mapped keys ---------- *)
Lemma mapped_key : forall c k, wf_config c = true -> forallb plain k = true -> inside c k = true ->
  exists l, map_path c k = abs l /\ forallb plain l = true /\ l <> [].
Proof.
  intros c k Hc Pk Hi. destruct (wf_config_inv c Hc) as [s [t [Ps [Pt [Es [Et _]]]]]].
  unfold map_path. rewrite Es, Et. exists (t ++ skipn (List.length s) k). split; [reflexivity|]. split.
  - rewrite forallb_app, Pt. simpl. apply forallb_skipn. exact Pk.
  - unfold inside in Hi. rewrite Es in Hi. apply andb_true_iff in Hi. destruct Hi as [L Hl].
    destruct (lprefix_inv _ _ L) as [r Hr]. subst k. rewrite skipn_app_len.
    apply Nat.ltb_lt in Hl. rewrite app_length in Hl. destruct r; [simpl in Hl; lia|].
    intro E. apply app_eq_nil in E. destruct E; discriminate.
Qed.

Lemma map_path_inj : forall c k1 k2, wf_config c = true -> forallb plain k1 = true -> forallb plain k2 = true ->
  inside c k1 = true -> inside c k2 = true -> map_path c k1 = map_path c k2 -> k1 = k2.
Proof.
  intros c k1 k2 Hc P1 P2 I1 I2 E. destruct (wf_config_inv c Hc) as [s [t [Ps [Pt [Es [Et _]]]]]].
  unfold map_path in E. rewrite Es, Et in E. unfold inside in I1, I2. rewrite Es in I1, I2.
  apply andb_true_iff in I1. destruct I1 as [L1 _]. apply andb_true_iff in I2. destruct I2 as [L2 _].
  destruct (lprefix_inv _ _ L1) as [r1 H1]. destruct (lprefix_inv _ _ L2) as [r2 H2]. subst k1 k2.
  rewrite !skipn_app_len in E. rewrite forallb_app in P1, P2.
  apply andb_true_iff in P1. destruct P1 as [_ P1]. apply andb_true_iff in P2. destruct P2 as [_ P2].
  apply abs_inj in E; [|rewrite forallb_app, Pt; auto|rewrite forallb_app, Pt; auto].
  apply app_inv_head in E. congruence.
Qed.

(* joining the mapped parent with a plain name is the mapped child *)
Lemma join_mapped : forall c p x, wf_config c = true -> forallb plain p = true -> plain x = true ->
  list_eqb (p ++ [x]) (src_segs c) = false -> inside c (p ++ [x]) = true ->
  join [map_path c p; x] = map_path c (p ++ [x]).
Proof.
  intros c p x Hc Pp Px Hr Hi. destruct (wf_config_inv c Hc) as [s [t [Ps [Pt [Es [Et _]]]]]].
  rewrite Es in Hr. unfold inside in Hi. rewrite Es in Hi. apply andb_true_iff in Hi. destruct Hi as [L _].
  destruct (inside_snoc s p x Hr) as [U _]. rewrite U in L.
  destruct (lprefix_inv _ _ L) as [r Hr']. subst p. unfold map_path. rewrite Es, Et.
  rewrite <- app_assoc, !skipn_app_len.
  rewrite forallb_app in Pp. apply andb_true_iff in Pp. destruct Pp as [_ Pr].
  rewrite join_child by (auto; rewrite forallb_app, Pt, Pr; reflexivity).
  rewrite <- app_assoc. reflexivity.
Qed.

(* ---------- one event ---------- *)
Lemma kind_clash_file : forall t k, kind_clash t k false = false -> lookup_tree t k <> Some true.
Proof. intros t k H E. unfold kind_clash in H. rewrite E in H. discriminate. Qed.
Lemma kind_clash_dir : forall t k, kind_clash t k true = false -> lookup_tree t k <> Some false.
Proof. intros t k H E. unfold kind_clash in H. rewrite E in H. discriminate. Qed.

Lemma spec_step_unfold : forall c fs ev,
  spec_files_step c fs ev =
  let fs1 := match ev_old ev with
             | Some o => if negb (e_isdir o) && inside c (segs (ev_dir ev) ++ [e_name o])
                         then remove_str (map_path c (segs (ev_dir ev) ++ [e_name o])) fs else fs
             | None => fs
             end in
  match ev_new ev with
  | Some n => if negb (e_isdir n) && inside c (segs (ev_new_parent ev) ++ [e_name n])
              then add_str (map_path c (segs (ev_new_parent ev) ++ [e_name n])) fs1 else fs1
  | None => fs1
  end.
Proof. reflexivity. Qed.

Lemma exec_do_delete : forall t k a b,
  fst (exec_plan _ local_do t (Do (Delete k a b))) = local_delete t k.
Proof. reflexivity. Qed.

Lemma exec_do_create : forall t k e,
  fst (exec_plan _ local_do t (Do (Create k e))) = fst (local_create t k e).
Proof. intros t k e. unfold exec_plan, local_do. destruct (local_create t k e). reflexivity. Qed.

Lemma exec_update_delete_create : forall t key np n dc isdir k' e',
  fst (exec_plan _ local_do t (UpdateOr (Update key np n dc) (Delete key isdir false) (Create k' e'))) =
  if fst (snd (local_do t (Update key np n dc))) then fst (local_do t (Update key np n dc))
  else fst (local_create (local_delete (fst (local_do t (Update key np n dc))) key) k' e').
Proof.
  intros t key np n dc isdir k' e'. unfold exec_plan.
  destruct (local_do t (Update key np n dc)) as [t1 [f e]]. simpl.
  destruct f; [reflexivity|].
  destruct (local_create (local_delete t1 key) k' e'). reflexivity.
Qed.

(* delete of an inside key with the right kind *)
Lemma rel_delete_any : forall t fs k isdir, Rel t fs -> is_multipart k = false -> kind_clash t k isdir = false ->
  Rel (local_delete t k) (if negb isdir then remove_str k fs else fs).
Proof.
  intros t fs k isdir HR Hm Hk. destruct isdir; simpl.
  - apply rel_delete_dir; auto using kind_clash_dir.
  - apply rel_delete_file; auto using kind_clash_file.
Qed.

Lemma rel_create_any : forall c t fs k e, wf_config c = true -> forallb plain k = true -> inside c k = true ->
  Rel t fs ->
  negb (e_isdir e) && (is_multipart (map_path c k) || ancestor_is_file t (map_path c k) || kind_clash t (map_path c k) false) = false ->
  Rel (fst (local_create t (map_path c k) e)) (if negb (e_isdir e) then add_str (map_path c k) fs else fs).
Proof.
  intros c t fs k e Hc Pk Hi HR Hcl. destruct (e_isdir e) eqn:D; simpl in *.
  - rewrite create_dir by auto. exact HR.
  - apply orb_false_iff in Hcl. destruct Hcl as [Hcl K]. apply orb_false_iff in Hcl. destruct Hcl as [M A].
    destruct (mapped_key c k Hc Pk Hi) as [l [El [Pl Nl]]]. rewrite El in *.
    apply (rel_create_file t fs l e HR Pl Nl M D). split; [exact A|apply kind_clash_file; exact K].
Qed.

Theorem local_step : forall c t fs ev,
  wf_config c = true -> wf_event ev = true -> incremental c = false -> root_move c ev = false ->
  local_step_clash c t ev = false -> Rel t fs ->
  Rel (fst (exec_plan _ local_do t (sync_process c ev))) (spec_files_step c fs ev).
Proof.
  intros c t fs ev Hc He Hi Hroot Hcl HR.
  rewrite (sync_mirror_all c ev Hc He Hi Hroot). rewrite spec_step_unfold.
  destruct (wf_event_inv ev He) as [Hd [Hold [Hnew _]]].
  destruct (is_clean_abs_inv _ Hd) as [d [Pd [Ed Sd]]].
  unfold mirror_spec, local_step_clash, root_move in *.
  destruct (ev_old ev) as [o|] eqn:Eo; destruct (ev_new ev) as [n|] eqn:En; simpl in Hold, Hnew; cbv zeta.
  - (* both entries *)
    apply andb_true_iff in Hnew. destruct Hnew as [Pn Cp].
    destruct (is_clean_abs_inv _ Cp) as [p [Pp [Ep Sp]]].
    unfold touches_root, old_key, new_key in Hroot. rewrite Eo, En in Hroot. simpl in Hroot.
    apply orb_false_iff in Hroot. destruct Hroot as [R1 R2].
    apply orb_false_iff in Hcl. destruct Hcl as [Hcl Hkind]. apply orb_false_iff in Hcl. destruct Hcl as [Co Cn].
    apply negb_false_iff in Hkind. apply eqb_prop in Hkind.
    rewrite Sd in *. rewrite Sp in *.
    assert (Pok : forallb plain (d ++ [e_name o]) = true) by auto using plain_last.
    assert (Pnk : forallb plain (p ++ [e_name n]) = true) by auto using plain_last.
    set (ok := d ++ [e_name o]) in *. set (nk := p ++ [e_name n]) in *.
    destruct (inside c ok) eqn:Iok; destruct (inside c nk) eqn:Ink; simpl in Co, Cn; rewrite ?andb_true_r, ?andb_false_r.
    + (* inside -> inside *)
      apply orb_false_iff in Co. destruct Co as [Mo Ko].
      assert (J : join [map_path c p; e_name n] = map_path c nk) by (apply join_mapped; auto).
      rewrite exec_update_delete_create.
      destruct (String.eqb (map_path c nk) (map_path c ok)) eqn:E.
      * (* the entry stays where it is *)
        apply String.eqb_eq in E.
        rewrite (local_update_in_place t (map_path c ok) (map_path c p) n _ Mo) by congruence. simpl.
        rewrite E in Cn. rewrite E.
        destruct (e_isdir n) eqn:Dn; simpl in Cn |- *.
        -- rewrite Hkind in *. simpl. rewrite create_dir by auto. simpl.
           destruct (local_exists t (map_path c ok)); [exact HR|].
           rewrite create_dir by auto. simpl. apply rel_delete_dir; auto using kind_clash_dir.
        -- rewrite Hkind in *. simpl.
           apply orb_false_iff in Cn. destruct Cn as [Cn Kn]. apply orb_false_iff in Cn. destruct Cn as [_ An].
           destruct (mapped_key c ok Hc Pok Iok) as [l [El [Pl Nl]]]. rewrite El in *.
           assert (CC : can_create t (abs l)) by (split; [exact An|apply kind_clash_file; exact Kn]).
           destruct (rel_create_file t fs l n HR Pl Nl Mo Dn CC) as [_ [R1' C1']].
           assert (Ext : forall q, In q (add_str (abs l) fs) <-> In q (add_str (abs l) (remove_str (abs l) fs))).
           { intro q. rewrite !in_add_str, in_remove_str. destruct (string_dec q (abs l)); tauto. }
           destruct (local_exists t (abs l)).
           ++ apply (rel_ext _ _ _ R1' Ext).
           ++ assert (R2' : Rel (local_delete (fst (local_create t (abs l) n)) (abs l)) (remove_str (abs l) (add_str (abs l) fs))).
              { apply rel_delete_file; auto. destruct C1'; auto. }
              destruct (rel_create_file _ _ l n R2' Pl Nl Mo Dn (can_create_delete _ _ _ C1')) as [_ [R3' _]].
              apply (rel_ext _ _ _ R3'). intro q. rewrite !in_add_str, !in_remove_str, in_add_str.
              destruct (string_dec q (abs l)); tauto.
      * (* the entry moves *)
        apply String.eqb_neq in E.
        assert (U : local_do t (Update (map_path c ok) (map_path c p) n (ev_delete_chunks ev)) = (t, (false, false))).
        { unfold local_do. rewrite Mo, J. apply String.eqb_neq in E. rewrite E. reflexivity. }
        rewrite U. simpl.
        pose proof (rel_delete_any t fs (map_path c ok) (e_isdir o) HR Mo Ko) as RD.
        assert (Cn' : negb (e_isdir n) &&
                 (is_multipart (map_path c nk) || ancestor_is_file (local_delete t (map_path c ok)) (map_path c nk) ||
                  kind_clash (local_delete t (map_path c ok)) (map_path c nk) false) = false).
        { destruct (e_isdir n); [reflexivity|]. simpl in Cn |- *.
          apply orb_false_iff in Cn. destruct Cn as [Cn Kn]. apply orb_false_iff in Cn. destruct Cn as [Mn An].
          destruct (can_create_delete t (map_path c ok) (map_path c nk)) as [A' L'];
            [split; [exact An|apply kind_clash_file; exact Kn]|].
          rewrite Mn, A'. simpl. unfold kind_clash.
          destruct (lookup_tree (local_delete t (map_path c ok)) (map_path c nk)) as [[|]|]; try reflexivity.
          contradiction L'; reflexivity. }
        exact (rel_create_any c _ _ nk n Hc Pnk Ink RD Cn').
    + (* inside -> outside *)
      apply orb_false_iff in Co. destruct Co as [Mo Ko]. rewrite exec_do_delete.
      apply (rel_delete_any t fs (map_path c ok) (e_isdir o) HR Mo Ko).
    + (* outside -> inside *)
      rewrite exec_do_create. apply (rel_create_any c t fs nk n Hc Pnk Ink HR). exact Cn.
    + exact HR.
  - (* delete *)
    rewrite !orb_false_r in Hcl. rewrite Sd in *.
    assert (Pok : forallb plain (d ++ [e_name o]) = true) by auto using plain_last.
    destruct (inside c (d ++ [e_name o])) eqn:Iok; simpl in Hcl; rewrite ?andb_true_r, ?andb_false_r.
    + apply orb_false_iff in Hcl. destruct Hcl as [Mo Ko]. rewrite exec_do_delete.
      apply (rel_delete_any t fs _ (e_isdir o) HR Mo Ko).
    + exact HR.
  - (* create *)
    apply andb_true_iff in Hnew. destruct Hnew as [Pn Cp].
    destruct (is_clean_abs_inv _ Cp) as [p [Pp [Ep Sp]]].
    rewrite orb_false_r in Hcl. simpl in Hcl. rewrite Sp in *.
    assert (Pnk : forallb plain (p ++ [e_name n]) = true) by auto using plain_last.
    destruct (inside c (p ++ [e_name n])) eqn:Ink; simpl in Hcl; rewrite ?andb_true_r, ?andb_false_r.
    + rewrite exec_do_create. apply (rel_create_any c t fs _ n Hc Pnk Ink HR). exact Hcl.
    + exact HR.
  - exact HR.
Qed.

(* ---------- whole histories ---------- *)
Lemma files_lookup : forall t p, Inv t -> (In p (files_of t) <-> lookup_tree t p = Some false).
Proof.
  intros t p [Hn Hr]. unfold files_of. rewrite lookup_unfold.
  destruct (String.eqb p "/") eqn:Q.
  - apply String.eqb_eq in Q. subst p. split; [|discriminate].
    intro H. apply in_map_iff in H. destruct H as [x [Hx Hin]]. apply filter_In in Hin.
    exfalso. apply Hr. apply in_map_iff. exists x. tauto.
  - clear Hr Q. induction t as [|a t IH]; simpl; [split; [contradiction|discriminate]|].
    inversion Hn; subst. specialize (IH H2). unfold fkey at 1.
    destruct (String.eqb (fst a) p) eqn:A.
    + apply String.eqb_eq in A. destruct a as [ap ad]. simpl in A. subst ap. simpl in *.
      destruct ad; simpl.
      * split; [|discriminate]. intro H. exfalso. apply H1.
        apply in_map_iff in H. destruct H as [x [Hx Hin]]. apply filter_In in Hin.
        apply in_map_iff. exists x. tauto.
      * split; auto.
    + apply String.eqb_neq in A. destruct (negb (snd a)); simpl; [|exact IH].
      rewrite <- IH. split; [intros [H|H]; [contradiction|exact H]|auto].
Qed.

Lemma rel_nil : Rel [] [].
Proof.
  split; [split; [constructor|intros []]|].
  intro p. rewrite lookup_unfold. simpl. destruct (String.eqb p "/"); split; try discriminate; contradiction.
Qed.

Lemma run_local_cons : forall c t ev evs,
  fst (run_local c t (ev :: evs)) = fst (run_local c (fst (exec_plan _ local_do t (sync_process c ev))) evs).
Proof.
  intros c t ev evs. simpl. destruct (exec_plan _ local_do t (sync_process c ev)) as [t1 err]. simpl.
  destruct (run_local c t1 evs). reflexivity.
Qed.

Theorem local_mirror_gen : forall c evs t fs,
  wf_config c = true -> forallb wf_event evs = true -> incremental c = false ->
  forallb (fun ev => negb (root_move c ev)) evs = true ->
  local_clash c t evs = false -> Rel t fs ->
  Rel (fst (run_local c t evs)) (fold_left (spec_files_step c) evs fs).
Proof.
  intros c evs. induction evs as [|ev evs IH]; intros t fs Hc He Hi Hr Hcl HR; [exact HR|].
  simpl in He, Hr, Hcl. apply andb_true_iff in He. destruct He as [He1 He2].
  apply andb_true_iff in Hr. destruct Hr as [Hr1 Hr2]. apply negb_true_iff in Hr1.
  apply orb_false_iff in Hcl. destruct Hcl as [Hc1 Hc2].
  rewrite run_local_cons. simpl fold_left. apply IH; auto.
  apply local_step; auto.
Qed.

(* FULL for histories without a clash: the files of the backup directory are
   exactly the reference file set *)
Theorem local_mirror : forall c evs,
  wf_config c = true -> forallb wf_event evs = true -> incremental c = false ->
  forallb (fun ev => negb (root_move c ev)) evs = true ->
  local_clash c [] evs = false ->
  forall p, In p (files_of (fst (run_local c [] evs))) <-> In p (spec_files c evs).
Proof.
  intros c evs Hc He Hi Hr Hcl p.
  destruct (local_mirror_gen c evs [] [] Hc He Hi Hr Hcl rel_nil) as [I F].
  rewrite files_lookup by exact I. apply F.
Qed.

Local Open Scope string_scope.
Local Open Scope list_scope.
(* ... and the statement without the clash hypothesis fails: a file created
   below a file (ENOTDIR) is in the reference set but not in the backup *)
Definition w_clash_cfg : config :=
  {| src := "/data"; tgt := "/t"; incremental := false; sink_is_filer := false; target_sig := 0 |}.
Definition w_file (n : string) : entry := {| e_name := n; e_isdir := false; e_date := "2021-03-04"; e_data := [] |}.
Definition w_clash_evs : list event :=
  [ {| ev_dir := "/data"; ev_old := None; ev_new := Some (w_file "a"); ev_new_parent := "/data";
       ev_delete_chunks := false; ev_from_other := false; ev_sigs := [] |};
    {| ev_dir := "/data/a"; ev_old := None; ev_new := Some (w_file "f"); ev_new_parent := "/data/a";
       ev_delete_chunks := false; ev_from_other := false; ev_sigs := [] |} ].

Definition local_mirror_full : Prop := forall c evs,
  wf_config c = true -> forallb wf_event evs = true -> incremental c = false ->
  forallb (fun ev => negb (root_move c ev)) evs = true ->
  forall p, In p (files_of (fst (run_local c [] evs))) <-> In p (spec_files c evs).

Theorem local_mirror_refuted : ~ local_mirror_full.
Proof.
  intro H. specialize (H w_clash_cfg w_clash_evs eq_refl eq_refl eq_refl eq_refl "/t/a/f"%string).
  vm_compute in H. destruct H as [_ H]. specialize (H (or_intror (or_introl eq_refl))).
  destruct H as [H|[]]. discriminate.
Qed.

(* non-vacuity: a history with creates below new directories, an in-place
   update, a rename, a directory delete after its file -- no clash, and the
   backup ends with exactly the reference files *)
Definition w_hist : list event :=
  let dirent n := {| e_name := n; e_isdir := true; e_date := "2021-03-04"; e_data := [] |} in
  let mk d o n p := {| ev_dir := d; ev_old := o; ev_new := n; ev_new_parent := p;
                       ev_delete_chunks := true; ev_from_other := false; ev_sigs := [] |} in
  [ mk "/" None (Some (dirent "data")) "/";
    mk "/data" None (Some (dirent "a")) "/data";
    mk "/data/a" None (Some (w_file "f")) "/data/a";
    mk "/data/a" (Some (w_file "f")) (Some (w_file "f")) "/data/a";
    mk "/data/a" (Some (w_file "f")) (Some (w_file "g")) "/data";
    mk "/data/a" None (Some (w_file "h")) "/data/a";
    mk "/data/a" (Some (w_file "h")) None "";
    mk "/data" (Some (dirent "a")) None "";
    mk "/data2" None (Some (w_file "x")) "/data2" ].

Example local_mirror_example :
  wf_config w_clash_cfg = true /\ forallb wf_event w_hist = true /\
  forallb (fun ev => negb (root_move w_clash_cfg ev)) w_hist = true /\
  local_clash w_clash_cfg [] w_hist = false /\
  fst (run_local w_clash_cfg [] w_hist) = [("/t"%string, true); ("/t/g"%string, false)] /\
  spec_files w_clash_cfg w_hist = ["/t/g"%string].
Proof. vm_compute. repeat split; reflexivity. Qed.

(* ---------- the non-vacuity example of props/C36.v ---------- *)
Lemma c36_example_holds :
  let c := {| src := "/data/"; tgt := "/backup"; incremental := false; sink_is_filer := true; target_sig := 7%Z |} in
  let e := fun n => {| e_name := n; e_isdir := false; e_date := "2021-03-04"; e_data := [] |} in
  let mv := {| ev_dir := "/data/a"; ev_old := Some (e "x"); ev_new := Some (e "y"); ev_new_parent := "/data/b";
               ev_delete_chunks := true; ev_from_other := false; ev_sigs := [3%Z] |} in
  let sib := {| ev_dir := "/data2"; ev_old := None; ev_new := Some (e "x"); ev_new_parent := "/data2";
                ev_delete_chunks := false; ev_from_other := false; ev_sigs := [] |} in
  wf_config c = true /\ wf_event mv = true /\ touches_root c mv = false /\
  sync_process c mv = UpdateOr (Update "/backup/a/x" "/backup/b" (e "y") true)
                               (Delete "/backup/a/x" false false) (Create "/backup/b/y" (e "y")) /\
  wf_event w_rename_in = true /\ touches_root w_cfg w_rename_in = false /\
  sync_process w_cfg w_rename_in = Do (Create "/backup/x" (w_entry "x")) /\
  wf_event sib = true /\ all_outside c sib = true /\ sync_process c sib = Nothing /\
  replicate c (event_key sib) sib = Nothing /\
  files_of (fst (run_local w_lcfg [] [w_lcreate; w_lrename])) = ["/t/b"] /\
  spec_files w_lcfg [w_lcreate; w_lrename] = ["/t/b"].
Proof. vm_compute. repeat split; reflexivity. Qed.

(* ---------- finding 0: the trigger is no wider than the finding ---------- *)
Local Arguments drop : simpl never.
Local Arguments render : simpl never.
Local Arguments String.length : simpl never.
Local Arguments child : simpl never.
Local Arguments lprefix : simpl never.
Local Arguments list_eqb : simpl never.
Local Arguments Nat.ltb : simpl never.

Theorem replicate_unsafe_exact : forall c ev,
  wf_config c = true -> wf_event ev = true -> incremental c = false ->
  ev_from_other ev && sink_is_filer c = false ->
  touches_root c ev = false -> replicate_unsafe c ev = true ->
  replicate c (event_key ev) ev <> mirror_spec c ev.
Proof.
  intros c ev Hc He Hi Hecho Hroot Hsafe.
  destruct (wf_config_inv c Hc) as [s [t [Ps [Pt [Es [Et [_ [Er Etgt]]]]]]]].
  destruct (wf_event_inv ev He) as [Hd [Hold [Hnew Hsame]]].
  destruct (is_clean_abs_inv _ Hd) as [d [Pd [Ed Sd]]].
  unfold touches_root, old_key, new_key in Hroot. rewrite Es, Sd in Hroot.
  unfold replicate_unsafe, old_key, new_key in Hsafe. rewrite Sd in Hsafe.
  unfold replicate, mirror_spec, event_key. rewrite Hecho, Er, Sd, Hi, Ed.
  rewrite <- negb_orb.
  destruct (ev_old ev) as [o|]; destruct (ev_new ev) as [n|]; simpl in Hold, Hnew, Hroot, Hsafe |- *; try discriminate.
  apply andb_true_iff in Hnew. destruct Hnew as [Pn Cp].
  destruct (is_clean_abs_inv _ Cp) as [p [Pp [Ep Sp]]].
  rewrite Sp in Hroot, Hsafe |- *.
  apply orb_false_iff in Hroot. destruct Hroot as [R1 R2].
  assert (Pok : forallb plain (d ++ [e_name o]) = true) by auto using plain_last.
  assert (Pnk : forallb plain (p ++ [e_name n]) = true) by auto using plain_last.
  destruct (inside_snoc s d (e_name o) R1) as [U1 I1].
  destruct (inside_snoc s p (e_name n) R2) as [U2 I2].
  assert (I1' : inside c (d ++ [e_name o]) = lprefix s d) by (unfold inside; rewrite Es; exact I1).
  assert (I2' : inside c (p ++ [e_name n]) = lprefix s p) by (unfold inside; rewrite Es; exact I2).
  rewrite child_abs, dir_test by (auto using plain_last).
  rewrite U1. rewrite I1', I2' in Hsafe |- *.
  apply negb_true_iff in Hsafe.
  destruct (lprefix s d) eqn:D; destruct (lprefix s p) eqn:P; simpl in Hsafe |- *; try discriminate.
  rewrite (map_key_r c s t) by (auto using plain_last; rewrite ?U1; auto).
  intro E. injection E as E1 E2.
  assert (K : d ++ [e_name o] = p ++ [e_name n]).
  { apply (map_path_inj c); auto; rewrite ?I1', ?I2'; auto. }
  assert (L : list_eqb (d ++ [e_name o]) (p ++ [e_name n]) = true) by (apply list_eqb_eq; exact K).
  rewrite L in Hsafe. simpl in Hsafe. rewrite <- E1, String.eqb_refl in Hsafe. discriminate.
Qed.

(* ---------- incremental sinks (filer.backup with is_incremental) ---------- *)
Local Arguments under : simpl never.
Local Arguments map_path_inc : simpl never.

Lemma map_key_inc : forall c s t k dk, forallb plain s = true -> forallb plain t = true -> forallb plain k = true ->
  plain dk = true ->
  src_segs c = s -> tgt_segs c = t -> tgt c = abs t -> lprefix s k = true ->
  join [tgt c; dk; drop (String.length (abs s)) (abs k)] = map_path_inc c dk k.
Proof.
  intros c s t k dk Ps Pt Pk Pd Es Et Etgt L. destruct (lprefix_inv _ _ L) as [r Hr]. subst k.
  rewrite forallb_app in Pk. apply andb_true_iff in Pk. destruct Pk as [_ Pr].
  destruct (drop_abs_abs s r Ps Pr) as [A B].
  rewrite Etgt, join3 by (auto using good_plain). rewrite A, segs_plain by auto.
  unfold map_path_inc. rewrite Es, Et, skipn_app_len. reflexivity.
Qed.

Theorem sync_mirror_inc : forall c ev,
  wf_config c = true -> wf_event ev = true -> incremental c = true ->
  touches_root c ev = false -> plain (date_key ev) = true ->
  sync_process c ev = mirror_spec_inc c ev.
Proof.
  intros c ev Hc He Hi Hroot Hdk.
  destruct (wf_config_inv c Hc) as [s [t [Ps [Pt [Es [Et [En [_ Etgt]]]]]]]].
  destruct (wf_event_inv ev He) as [Hd [Hold [Hnew Hsame]]].
  destruct (is_clean_abs_inv _ Hd) as [d [Pd [Ed Sd]]].
  unfold touches_root, old_key, new_key in Hroot. rewrite Es, Sd in Hroot.
  unfold sync_process, mirror_spec_inc, build_key, inside. rewrite En, Sd, Es, Hi, Ed.
  rewrite under_abs by auto.
  destruct (ev_old ev) as [o|]; destruct (ev_new ev) as [n|]; simpl in Hold, Hnew, Hroot |- *.
  - apply andb_true_iff in Hnew. destruct Hnew as [Pn Cp].
    destruct (is_clean_abs_inv _ Cp) as [p [Pp [Ep Sp]]].
    rewrite Sp in Hroot |- *. rewrite Ep.
    apply orb_false_iff in Hroot. destruct Hroot as [R1 R2].
    destruct (inside_snoc s d (e_name o) R1) as [U1 I1].
    destruct (inside_snoc s p (e_name n) R2) as [U2 I2].
    unfold inside, inside_b in *.
    rewrite !child_abs by auto.
    rewrite !under_abs by (auto using plain_last).
    rewrite I2, U1, U2.
    destruct (lprefix s d) eqn:D; destruct (lprefix s p) eqn:P; simpl; try reflexivity.
    + rewrite (map_key_inc c s t) by (auto using plain_last; rewrite ?U1, ?U2; auto). reflexivity.
    + rewrite (map_key_inc c s t) by (auto using plain_last; rewrite ?U1, ?U2; auto). reflexivity.
  - rewrite orb_false_r in Hroot.
    destruct (inside_snoc s d (e_name o) Hroot) as [U1 I1].
    unfold inside_b in I1. rewrite !child_abs by auto.
    rewrite !under_abs by (auto using plain_last). rewrite I1, U1.
    destruct (lprefix s d) eqn:D; simpl; [|reflexivity].
    rewrite (map_key_inc c s t) by (auto using plain_last; rewrite ?U1; auto). reflexivity.
  - apply andb_true_iff in Hnew. destruct Hnew as [Pn Cp].
    apply String.eqb_eq in Hsame. rewrite <- Hsame, Sd in Hroot |- *. rewrite Ed.
    destruct (inside_snoc s d (e_name n) Hroot) as [U1 I1].
    unfold inside_b in I1. rewrite !child_abs by auto.
    rewrite !under_abs by (auto using plain_last). rewrite I1, U1.
    destruct (lprefix s d) eqn:D; simpl; [|reflexivity].
    rewrite (map_key_inc c s t) by (auto using plain_last; rewrite ?U1; auto). reflexivity.
  - destruct (lprefix s d); reflexivity.
Qed.
