(* C05 proofs, part 8: the counters recomputed from the .idx equal the reference counters for
   disciplined histories that never write a key twice; the counters maintained while running
   equal the reference counters for every history. *)
From Coq Require Import List NArith ZArith Bool Lia Sorted Arith.
From Coq Require Import ZifyBool ZifyN ZifyNat.
From SW Require Import model.NeedleMap proof.EcIndexProofs proof.NeedleMapSearch proof.NeedleMapSec
  proof.NeedleMapCm proof.NeedleMapRefine proof.NeedleMapProofs proof.NeedleMapKinds
  proof.NeedleMapCounters.
Import ListNotations.
Local Open Scope N_scope.
Ltac Zify.zify_post_hook ::= Z.div_mod_to_equations.

(* ---------- histories split at the end ---------- *)
Definition ever_put (k : N) (ops : list op) : bool :=
  existsb (fun o => match o with Put k' _ _ => k' =? k | _ => false end) ops.
Definition disc_cond (r : rmap) (o : op) : bool :=
  match o with
  | Put _ off sz => negb (off =? 0) && (0 <=? sz)%Z
  | Del k _ => match ref_get r k with Some (_, sz) => (0 <? sz)%Z | None => false end
  | Get _ => true
  end.

Lemma ref_run_snd_cons : forall r o ops, snd (ref_run r (o :: ops)) = snd (ref_run (fst (ref_step r o)) ops).
Proof.
  intros. cbn [ref_run]. destruct (ref_step r o) as [r' x]. cbn [fst]. destruct (ref_run r' ops). reflexivity.
Qed.

Lemma ref_run_app : forall ops r o, snd (ref_run r (ops ++ [o])) = fst (ref_step (snd (ref_run r ops)) o).
Proof.
  induction ops as [|a ops IH]; intros r o.
  - cbn [app]. rewrite ref_run_snd_cons. reflexivity.
  - cbn [app]. rewrite !ref_run_snd_cons. apply IH.
Qed.

Lemma disciplined_from_app : forall ops r o,
  disciplined_from r (ops ++ [o]) = disciplined_from r ops && disc_cond (snd (ref_run r ops)) o.
Proof.
  induction ops as [|a ops IH]; intros r o.
  - cbn [app disciplined_from ref_run snd]. unfold disc_cond. rewrite andb_true_r. reflexivity.
  - cbn [app disciplined_from]. rewrite IH, ref_run_snd_cons. rewrite andb_assoc. reflexivity.
Qed.

Lemma mem_cons : forall x y S, mem x (y :: S) = (x =? y) || mem x S.
Proof. reflexivity. Qed.

Lemma trig_rewrite_from_app : forall ops seen o,
  trig_rewrite_from seen (ops ++ [o]) =
  trig_rewrite_from seen ops || match o with Put k _ _ => mem k seen || ever_put k ops | _ => false end.
Proof.
  induction ops as [|a ops IH]; intros seen o.
  - cbn [app trig_rewrite_from ever_put existsb]. destruct o; try reflexivity;
      unfold mem; rewrite ?orb_false_r; reflexivity.
  - cbn [app]. destruct a as [k' off' sz'|k' off'|k']; cbn [trig_rewrite_from]; rewrite IH.
    + destruct o as [k off sz|k off|k]; cbn [ever_put existsb]; try (rewrite orb_assoc; reflexivity).
      fold (ever_put k ops). rewrite mem_cons. rewrite (N.eqb_sym k k').
      destruct (existsb (N.eqb k') seen); destruct (trig_rewrite_from (k' :: seen) ops);
        destruct (k' =? k); destruct (mem k seen); destruct (ever_put k ops); reflexivity.
    + destruct o; reflexivity.
    + destruct o; reflexivity.
Qed.

Lemma entries_of_app : forall ops o, entries_of (ops ++ [o]) = entries_of ops ++ entry_of_op o.
Proof. intros. unfold entries_of. rewrite flat_map_app. simpl. rewrite app_nil_r. reflexivity. Qed.

Lemma hask_app : forall x E e, hask x (E ++ [e]) = hask x E || (e_key e =? x).
Proof. intros. unfold hask. rewrite existsb_app. simpl. rewrite orb_false_r. reflexivity. Qed.

Lemma last_valid_snoc : forall k E e,
  last_valid k (E ++ [e]) = if e_key e =? k then vsize e else last_valid k E.
Proof.
  intros k E e. induction E as [|a E IH].
  - simpl. destruct (e_key e =? k); reflexivity.
  - cbn [app last_valid]. rewrite hask_app, IH.
    destruct (e_key e =? k); destruct (e_key a =? k); destruct (hask k E); reflexivity.
Qed.

Lemma Rg_app : forall init E e, Rg init (E ++ [e]) = Rg (mfi_step init e) E.
Proof. intros. unfold Rg. rewrite fold_right_app. reflexivity. Qed.

(* ---------- the reference counters ---------- *)
Definition rm_state (ops : list op) : rmap * metric := fold_left ref_metric_step ops ([], metric0).

Lemma rm_state_fst : forall ops, fst (rm_state ops) = snd (ref_run [] ops).
Proof.
  intros ops. unfold rm_state. induction ops as [|o ops IH] using rev_ind; [reflexivity|].
  rewrite fold_left_app, ref_run_app. cbn [fold_left]. rewrite <- IH.
  destruct (fold_left ref_metric_step ops ([], metric0)) as [r m]. reflexivity.
Qed.

Lemma ref_metric_app : forall ops o,
  ref_metric (ops ++ [o]) = snd (ref_metric_step (snd (ref_run [] ops), ref_metric ops) o).
Proof.
  intros. unfold ref_metric. fold (rm_state (ops ++ [o])). fold (rm_state ops).
  unfold rm_state at 1. rewrite fold_left_app. cbn [fold_left]. fold (rm_state ops).
  rewrite <- rm_state_fst. destruct (rm_state ops). reflexivity.
Qed.

Definition normed (m : metric) : Prop :=
  m_del m < two32 /\ m_file m < two32 /\ m_delb m < two64 /\ m_fileb m < two64.

Lemma normed0 : normed metric0.
Proof. unfold normed, metric0, two32, two64. simpl. lia. Qed.

Lemma normed_mstep : forall seen m e, normed m -> normed (mstep seen m e).
Proof.
  intros seen m e [A [B [C D]]]. unfold normed, mstep, add_delb, incr_del, incr_file, add_fileb, maybe_max, add64.
  destruct (size_is_valid (e_size e)); destruct seen; cbn [negb];
    destruct (m_max m <? e_key e); cbn [m_file m_del m_delb m_fileb m_max];
    unfold two32, two64 in *; repeat split; try assumption; apply N.mod_lt; discriminate.
Qed.

Lemma normed_Rg : forall E, normed (fst (Rg (metric0, []) E)).
Proof.
  induction E as [|e E IH]; [apply normed0|]. rewrite Rg_fst_cons. apply normed_mstep. assumption.
Qed.

Lemma normed_ref_step : forall r m o, normed m -> normed (snd (ref_metric_step (r, m) o)).
Proof.
  intros r m o [A [B [C D]]]. unfold ref_metric_step. cbn [snd].
  assert (Hf : forall m0 k sz, normed m0 -> normed (add_file (maybe_max m0 k) sz)).
  { intros m0 k sz [A0 [B0 [C0 D0]]]. unfold normed, add_file, maybe_max, add64. destruct (m_max m0 <? k);
      cbn [m_file m_del m_delb m_fileb m_max]; unfold two32, two64 in *; repeat split; try assumption; apply N.mod_lt; discriminate. }
  assert (Hd : forall m0 sz, normed m0 -> normed (add_del m0 sz)).
  { intros m0 sz [A0 [B0 [C0 D0]]]. unfold normed, add_del, add64.
    cbn [m_file m_del m_delb m_fileb m_max]; unfold two32, two64 in *; repeat split; try assumption; apply N.mod_lt; discriminate. }
  assert (Hm : normed m) by (repeat split; assumption).
  destruct o as [k off sz|k off|k].
  - destruct (ref_get r k) as [[ro os]|]; [destruct (0 <? os)%Z|]; auto.
  - destruct (ref_get r k) as [[ro os]|]; [destruct (0 <? os)%Z|]; auto.
  - assumption.
Qed.

Lemma normed_ref_metric : forall ops, normed (ref_metric ops).
Proof.
  induction ops as [|o ops IH] using rev_ind; [apply normed0|].
  rewrite ref_metric_app. apply normed_ref_step. assumption.
Qed.

Lemma metric_ext : forall a b : metric,
  m_del a = m_del b -> m_file a = m_file b -> m_delb a = m_delb b -> m_fileb a = m_fileb b ->
  m_max a = m_max b -> a = b.
Proof. intros [] []; simpl; intros; subst; reflexivity. Qed.

(* ---------- the invariant carried along a disciplined, write-once history ---------- *)
Record cinv (ops : list op) : Prop := {
  cj_file : m_file (ref_metric ops) mod two32 = m_file (fst (Rg (metric0, []) (entries_of ops))) mod two32;
  cj_del : m_del (ref_metric ops) mod two32 = m_del (fst (Rg (metric0, []) (entries_of ops))) mod two32;
  cj_delb : m_delb (ref_metric ops) mod two64 = m_delb (fst (Rg (metric0, []) (entries_of ops))) mod two64;
  cj_fileb : m_fileb (ref_metric ops) mod two64 = m_fileb (fst (Rg (metric0, []) (entries_of ops))) mod two64;
  cj_max : m_max (ref_metric ops) = m_max (fst (Rg (metric0, []) (entries_of ops)));
  cj_live : forall k off s, ref_get (snd (ref_run [] ops)) k = Some (off, s) -> (0 < s)%Z ->
              hask k (entries_of ops) = true /\ last_valid k (entries_of ops) = u64_of_size s;
  cj_keys : forall k, hask k (entries_of ops) = true -> ever_put k ops = true;
  cj_ref : forall k off s, ref_get (snd (ref_run [] ops)) k = Some (off, s) ->
              ever_put k ops = true /\ k <= m_max (ref_metric ops) }.

Lemma cinv_nil : cinv [].
Proof.
  constructor; try reflexivity; intros; discriminate.
Qed.

Lemma ever_put_app : forall k ops o,
  ever_put k (ops ++ [o]) = ever_put k ops || match o with Put k' _ _ => k' =? k | _ => false end.
Proof. intros. unfold ever_put. rewrite existsb_app. simpl. rewrite orb_false_r. reflexivity. Qed.

(* components of the metric updates *)
Lemma add_file_comp : forall m k sz,
  m_file (add_file (maybe_max m k) sz) = (m_file m + 1) mod two32 /\
  m_del (add_file (maybe_max m k) sz) = m_del m /\
  m_delb (add_file (maybe_max m k) sz) = m_delb m /\
  m_fileb (add_file (maybe_max m k) sz) = (m_fileb m + u64_of_size sz) mod two64 /\
  m_max (add_file (maybe_max m k) sz) = N.max (m_max m) k.
Proof.
  intros. unfold add_file, maybe_max, add64. destruct (N.ltb_spec (m_max m) k); cbn [m_file m_del m_delb m_fileb m_max];
    repeat split; try reflexivity; lia.
Qed.
Lemma add_del_comp : forall m sz,
  m_file (add_del m sz) = m_file m /\ m_del (add_del m sz) = (m_del m + 1) mod two32 /\
  m_delb (add_del m sz) = (m_delb m + u64_of_size sz) mod two64 /\
  m_fileb (add_del m sz) = m_fileb m /\ m_max (add_del m sz) = m_max m.
Proof. intros. unfold add_del, add64. cbn. repeat split. Qed.
Lemma m1_put_comp : forall k sz,
  let m1 := incr_file (add_fileb (maybe_max metric0 k) sz) in
  m_file m1 = 1 /\ m_del m1 = 0 /\ m_delb m1 = 0 /\ m_fileb m1 = u64_of_size sz mod two64 /\ m_max m1 = k.
Proof.
  intros. unfold m1, incr_file, add_fileb, maybe_max, add64, metric0, two32, two64.
  cbn [m_file m_del m_delb m_fileb m_max].
  destruct (N.ltb_spec 0 k); cbn [m_file m_del m_delb m_fileb m_max]; repeat split; try reflexivity; lia.
Qed.
Lemma m1_del_comp : forall k,
  let m1 := incr_file (maybe_max metric0 k) in
  m_file m1 = 1 /\ m_del m1 = 0 /\ m_delb m1 = 0 /\ m_fileb m1 = 0 /\ m_max m1 = k.
Proof.
  intros. unfold m1, incr_file, maybe_max, metric0, two32, two64.
  cbn [m_file m_del m_delb m_fileb m_max].
  destruct (N.ltb_spec 0 k); cbn [m_file m_del m_delb m_fileb m_max]; repeat split; try reflexivity; lia.
Qed.

Ltac one_cong :=
  unfold b2n in *;
  repeat match goal with |- context [u64_of_size ?s] => generalize dependent (u64_of_size s); intros end;
  unfold two32, two64 in *; lia.

Lemma cinv_step : forall ops o, cinv ops ->
  disc_cond (snd (ref_run [] ops)) o = true ->
  match o with Put _ _ sz => (sz =? 0)%Z = false | _ => True end ->
  match o with Put k _ _ => ever_put k ops = false | _ => True end ->
  cinv (ops ++ [o]).
Proof.
  intros ops o [Jf Jd Jdb Jfb Jmx Jlive Jkeys Jref] Hdc Hne Honce.
  set (E := entries_of ops) in *. set (r := snd (ref_run [] ops)) in *. set (M := ref_metric ops) in *.
  destruct o as [k off sz|k off|k].
  - (* Put of a key never written before *)
    cbn [disc_cond] in Hdc. apply andb_true_iff in Hdc. destruct Hdc as [Hoff Hsz].
    assert (Hpos : (0 < sz)%Z) by lia.
    assert (Hvalid : size_is_valid sz = true) by (unfold size_is_valid, tombstone; lia).
    assert (Hnone : ref_get r k = None).
    { destruct (ref_get r k) as [[ro rs]|] eqn:G; [|reflexivity]. destruct (Jref k ro rs G). congruence. }
    assert (Hnk : hask k E = false).
    { destruct (hask k E) eqn:H; [|reflexivity]. rewrite (Jkeys k H) in Honce. discriminate. }
    assert (HM : ref_metric (ops ++ [Put k off sz]) = add_file (maybe_max M k) sz).
    { rewrite ref_metric_app. unfold ref_metric_step. cbn [snd]. fold r. rewrite Hnone. reflexivity. }
    assert (HE : entries_of (ops ++ [Put k off sz]) = E ++ [mk_entry k off sz]) by apply entries_of_app.
    assert (Hr : snd (ref_run [] (ops ++ [Put k off sz])) = ref_put r k (off, sz)).
    { rewrite ref_run_app. apply ref_step_put_fst. }
    set (m1 := incr_file (add_fileb (maybe_max metric0 k) sz)).
    assert (HR : fst (Rg (metric0, []) (E ++ [mk_entry k off sz])) = fst (Rg (m1, [k]) E)).
    { rewrite Rg_app. unfold mfi_step. cbn [mk_entry e_key e_size existsb negb]. rewrite Hvalid. reflexivity. }
    destruct (cmp_walk k m1 E) as [Cf [Cd [Cdb [Cfb Cmx]]]].
    rewrite Hnk in Cf, Cd. rewrite (last_valid_absent k E Hnk) in Cdb.
    remember (fst (Rg (m1, [k]) E)) as ma eqn:Ema. remember (fst (Rg (metric0, []) E)) as mb eqn:Emb.
    clear Ema Emb.
    destruct (m1_put_comp k sz) as [P1 [P2 [P3 [P4 P5]]]]. fold m1 in P1, P2, P3, P4, P5.
    rewrite P1 in Cf. rewrite P2 in Cd. rewrite P3 in Cdb. rewrite P4 in Cfb. rewrite P5 in Cmx.
    clearbody m1. clear P1 P2 P3 P4 P5.
    destruct (add_file_comp M k sz) as [Q1 [Q2 [Q3 [Q4 Q5]]]].
    constructor; rewrite ?HM, ?HE, ?HR, ?Hr.
    + rewrite Q1. clear - Jf Cf. one_cong.
    + rewrite Q2. clear - Jd Cd. one_cong.
    + rewrite Q3. clear - Jdb Cdb. one_cong.
    + rewrite Q4. clear - Jfb Cfb. one_cong.
    + rewrite Q5. clear - Jmx Cmx. one_cong.
    + intros k' off' s' G Hs. rewrite ref_get_put in G. rewrite hask_app, last_valid_snoc.
      cbn [mk_entry e_key]. destruct (N.eqb_spec k' k) as [->|Hne'].
      * injection G as <- <-. rewrite N.eqb_refl, orb_true_r. split; [reflexivity|].
        unfold vsize. cbn [mk_entry e_size]. rewrite Hvalid. reflexivity.
      * destruct (Jlive k' off' s' G Hs) as [H1 H2]. rewrite H1. split; [reflexivity|].
        destruct (N.eqb_spec k k'); [congruence|assumption].
    + intros k' H. rewrite hask_app in H. cbn [mk_entry e_key] in H. rewrite ever_put_app.
      apply orb_true_iff in H. destruct H as [H|H]; [rewrite (Jkeys k' H); reflexivity|].
      rewrite H. apply orb_true_r.
    + intros k' off' s' G. rewrite ref_get_put in G. rewrite ever_put_app.
      assert (Hmx' : m_max (add_file (maybe_max M k) sz) = N.max (m_max M) k).
      { unfold add_file. cbn [m_max]. apply m_max_maybe. }
      rewrite Hmx'. destruct (N.eqb_spec k' k) as [->|Hne'].
      * rewrite N.eqb_refl, orb_true_r. split; [reflexivity|apply N.le_max_r].
      * destruct (Jref k' off' s' G) as [H1 H2]. rewrite H1. split; [reflexivity|].
        eapply N.le_trans; [exact H2|apply N.le_max_l].
  - (* Delete of a live key *)
    cbn [disc_cond] in Hdc. fold r in Hdc.
    destruct (ref_get r k) as [[ro rs]|] eqn:G; [|discriminate].
    assert (Hlive : (0 < rs)%Z) by lia.
    destruct (Jlive k ro rs G Hlive) as [Hhk Hlv]. destruct (Jref k ro rs G) as [Hep Hkm].
    assert (HM : ref_metric (ops ++ [Del k off]) = add_del M rs).
    { rewrite ref_metric_app. unfold ref_metric_step. cbn [snd]. fold r. rewrite G.
      destruct (Z.ltb_spec 0 rs); [reflexivity|lia]. }
    assert (HE : entries_of (ops ++ [Del k off]) = E ++ [mk_entry k off tombstone]) by apply entries_of_app.
    assert (Hr : snd (ref_run [] (ops ++ [Del k off])) = ref_put r k (ro, (- rs)%Z)).
    { rewrite ref_run_app. fold r. rewrite (ref_step_del_live r k off ro rs G Hlive). reflexivity. }
    set (m1 := incr_file (maybe_max metric0 k)).
    assert (HR : fst (Rg (metric0, []) (E ++ [mk_entry k off tombstone])) = fst (Rg (m1, [k]) E)).
    { rewrite Rg_app. unfold mfi_step. cbn [mk_entry e_key e_size existsb negb]. reflexivity. }
    destruct (cmp_walk k m1 E) as [Cf [Cd [Cdb [Cfb Cmx]]]].
    rewrite Hhk in Cf, Cd. rewrite Hlv in Cdb.
    remember (fst (Rg (m1, [k]) E)) as ma eqn:Ema. remember (fst (Rg (metric0, []) E)) as mb eqn:Emb.
    clear Ema Emb.
    destruct (m1_del_comp k) as [P1 [P2 [P3 [P4 P5]]]]. fold m1 in P1, P2, P3, P4, P5.
    rewrite P1 in Cf. rewrite P2 in Cd. rewrite P3 in Cdb. rewrite P4 in Cfb. rewrite P5 in Cmx.
    clearbody m1. clear P1 P2 P3 P4 P5.
    destruct (add_del_comp M rs) as [Q1 [Q2 [Q3 [Q4 Q5]]]].
    constructor; rewrite ?HM, ?HE, ?HR, ?Hr.
    + rewrite Q1. clear - Jf Cf. one_cong.
    + rewrite Q2. clear - Jd Cd. one_cong.
    + rewrite Q3. clear - Jdb Cdb. one_cong.
    + rewrite Q4. clear - Jfb Cfb. one_cong.
    + rewrite Q5. fold M in Hkm. clear - Jmx Cmx Hkm. one_cong.
    + intros k' off' s' G' Hs. rewrite ref_get_put in G'. rewrite hask_app, last_valid_snoc.
      cbn [mk_entry e_key]. destruct (N.eqb_spec k' k) as [->|Hne'].
      * injection G' as <- <-. exfalso. clear - Hs Hlive. lia.
      * destruct (Jlive k' off' s' G' Hs) as [H1 H2]. rewrite H1. split; [reflexivity|].
        destruct (N.eqb_spec k k'); [congruence|assumption].
    + intros k' H. rewrite hask_app in H. cbn [mk_entry e_key] in H. rewrite ever_put_app, orb_false_r.
      apply orb_true_iff in H. destruct H as [H|H]; [apply (Jkeys k' H)|].
      apply N.eqb_eq in H. subst k'. assumption.
    + intros k' off' s' G'. rewrite ref_get_put in G'. rewrite ever_put_app, orb_false_r.
      assert (Hmx' : m_max (add_del M rs) = m_max M) by reflexivity. rewrite Hmx'.
      destruct (N.eqb_spec k' k) as [->|Hne'].
      * split; assumption.
      * apply (Jref k' off' s' G').
  - (* Get *)
    assert (HM : ref_metric (ops ++ [Get k]) = M).
    { rewrite ref_metric_app. reflexivity. }
    assert (HE : entries_of (ops ++ [Get k]) = E) by (rewrite entries_of_app; apply app_nil_r).
    assert (Hr : snd (ref_run [] (ops ++ [Get k])) = r) by (rewrite ref_run_app; reflexivity).
    constructor; rewrite ?HM, ?HE, ?Hr; auto.
    + intros k' H. rewrite ever_put_app, orb_false_r. apply (Jkeys k' H).
    + intros k' off' s' G'. rewrite ever_put_app, orb_false_r. apply (Jref k' off' s' G').
Qed.

Lemma cinv_all : forall ops, disciplined ops = true -> trig_empty_put ops = false ->
  trig_rewrite ops = false -> cinv ops.
Proof.
  induction ops as [|o ops IH] using rev_ind; intros Hd He Hw; [apply cinv_nil|].
  unfold disciplined in Hd. rewrite disciplined_from_app in Hd. apply andb_true_iff in Hd. destruct Hd as [Hd1 Hd2].
  unfold trig_empty_put in He. rewrite existsb_app in He. apply orb_false_iff in He. destruct He as [He1 He2].
  unfold trig_rewrite in Hw. rewrite trig_rewrite_from_app in Hw. apply orb_false_iff in Hw. destruct Hw as [Hw1 Hw2].
  apply cinv_step; auto.
  - destruct o; auto; simpl in He2; rewrite orb_false_r in He2; assumption.
  - destruct o; auto; apply orb_false_iff in Hw2; tauto.
Qed.

(* ---------- newNeedleMapMetricFromIndexFile = the reference counters ---------- *)
Theorem index_counters : forall osz ops, ok_osz osz ->
  forallb (op_in_range osz) ops = true ->
  disciplined ops = true -> trig_empty_put ops = false -> trig_rewrite ops = false ->
  metric_from_index osz (encode osz (entries_of ops)) = ref_metric ops.
Proof.
  intros osz ops Hosz Hr Hd He Hw. unfold metric_from_index.
  rewrite walk_encode by (try assumption; apply entries_wf; assumption).
  rewrite mfi_rev.
  destruct (cinv_all ops Hd He Hw) as [Jf Jd Jdb Jfb Jmx _ _ _].
  destruct (normed_Rg (entries_of ops)) as [A [B [C D]]].
  destruct (normed_ref_metric ops) as [A' [B' [C' D']]].
  rewrite !N.mod_small in Jf, Jd, Jdb, Jfb by assumption.
  symmetry. apply metric_ext; assumption.
Qed.
