(* C06 proofs, decode + mount (audit item 1): the decoded volume serves what the encoded
   volume served, outside the three finding triggers; the three refutations. *)
From Coq Require Import List NArith ZArith Bool Lia.
From SW Require Import model.Volume model.Compaction model.ECVolume.
From SW Require Import proof.CompactionInv proof.CompactionRead proof.CompactionCopy proof.CompactionMakeup
                       proof.CompactionTail proof.CompactionProofs.
Import ListNotations.
Local Open Scope N_scope.

(* ---------- the .ecx as a map ---------- *)
Lemma ecx_of_get : forall idx k,
  idx_get (ecx_of idx) k = match idx_get idx k with
                           | Some e => if ecx_dead e then None else Some e
                           | None => None
                           end.
Proof.
  induction idx as [|x idx IH]; simpl; intro k; [reflexivity|].
  destruct (ecx_dead x) eqn:Dx.
  - rewrite db_get_del. destruct (ie_key x =? k); [rewrite Dx; reflexivity | apply IH].
  - rewrite db_get_set. destruct (ie_key x =? k); [rewrite Dx; reflexivity | apply IH].
Qed.

Lemma ecx_of_asc : forall idx, asc (ecx_of idx).
Proof.
  induction idx as [|x idx IH]; simpl; [constructor|].
  destruct (ecx_dead x); [apply db_del_asc | apply db_set_asc]; exact IH.
Qed.

Lemma ecx_in_get : forall idx e, In e (ecx_of idx) ->
  idx_get idx (ie_key e) = Some e /\ ecx_dead e = false.
Proof.
  intros idx e Hin.
  pose proof (idx_get_nodup _ _ (asc_nodup _ (ecx_of_asc idx)) Hin) as G.
  rewrite ecx_of_get in G. destruct (idx_get idx (ie_key e)) as [x|]; [|discriminate].
  destruct (ecx_dead x) eqn:D; [discriminate|]. inversion G; subst. auto.
Qed.

(* ---------- FindDatFileSize ---------- *)
Definition elive (e : ientry) : bool := negb (size_deleted (ie_size e)).

Lemma fds_acc_ge : forall l a,
  a <= fold_left (fun acc e => if size_deleted (ie_size e) then acc
                               else if acc <? entry_stop e then entry_stop e else acc) l a.
Proof.
  induction l as [|x l IH]; simpl; intro a; [lia|].
  destruct (size_deleted (ie_size x)); [apply IH|].
  destruct (a <? entry_stop x) eqn:E; [apply N.ltb_lt in E; specialize (IH (entry_stop x)); lia | apply IH].
Qed.

Lemma fds_acc_in : forall l a e, In e l -> elive e = true ->
  entry_stop e <= fold_left (fun acc e => if size_deleted (ie_size e) then acc
                               else if acc <? entry_stop e then entry_stop e else acc) l a.
Proof.
  induction l as [|x l IH]; simpl; intros a e Hin He; [contradiction|].
  destruct Hin as [->|Hin].
  - unfold elive in He. apply negb_true_iff in He. rewrite He.
    destruct (a <? entry_stop e) eqn:E.
    + apply fds_acc_ge.
    + apply N.ltb_ge in E. pose proof (fds_acc_ge l a). lia.
  - apply IH; assumption.
Qed.

Lemma fds_acc_pick : forall l a,
  let v := fold_left (fun acc e => if size_deleted (ie_size e) then acc
                               else if acc <? entry_stop e then entry_stop e else acc) l a in
  v = a \/ exists e, In e l /\ elive e = true /\ v = entry_stop e.
Proof.
  induction l as [|x l IH]; simpl; intro a; [left; reflexivity|].
  destruct (size_deleted (ie_size x)) eqn:D.
  - destruct (IH a) as [H|[e [Hin [He Hv]]]]; [left; exact H | right; exists e; auto].
  - destruct (a <? entry_stop x) eqn:E.
    + destruct (IH (entry_stop x)) as [H|[e [Hin [He Hv]]]].
      * right. exists x. split; [auto|]. split; [unfold elive; rewrite D; reflexivity | exact H].
      * right. exists e. auto.
    + destruct (IH a) as [H|[e [Hin [He Hv]]]]; [left; exact H | right; exists e; auto].
Qed.

Lemma fds_ge : forall ecx e, In e ecx -> elive e = true -> entry_stop e <= find_dat_size ecx.
Proof. intros. unfold find_dat_size. apply fds_acc_in; assumption. Qed.

Lemma fds_pick : forall ecx, find_dat_size ecx = 0 \/
  exists e, In e ecx /\ elive e = true /\ find_dat_size ecx = entry_stop e.
Proof. intro ecx. exact (fds_acc_pick ecx 0). Qed.

(* ---------- records ---------- *)
Lemma sorted_disjoint : forall l E r1 r2, sorted_recs l E -> In r1 l -> In r2 l ->
  r_off r1 < r_off r2 -> r_off r1 + actual_size (r_size r1) <= r_off r2.
Proof.
  induction l as [|x l IH]; intros E r1 r2 H H1 H2 Hlt; [contradiction|].
  inversion H as [|? ? ? Hb H5]; subst. destruct H1 as [->|H1]; destruct H2 as [->|H2].
  - lia.
  - destruct (sorted_recs_bound _ _ _ H5 H2) as [_ B]. pose proof (actual_size_pos (r_size r2)). lia.
  - destruct (sorted_recs_bound _ _ _ H5 H1) as [_ B]. exact B.
  - eapply IH; eauto.
Qed.

Lemma find_rec_filter : forall d l off r, find_rec l off = Some r -> off < d ->
  find_rec (filter (fun r => r_off r <? d) l) off = Some r.
Proof.
  induction l as [|x l IH]; simpl; intros off r H Hlt; [discriminate|].
  destruct (r_off x =? off) eqn:E.
  - apply N.eqb_eq in E. assert (L : r_off x <? d = true) by (apply N.ltb_lt; lia).
    rewrite L. simpl. rewrite (proj2 (N.eqb_eq _ _) E). exact H.
  - destruct (r_off x <? d); [simpl; rewrite E|]; apply IH; assumption.
Qed.

(* ---------- a live .ecx entry of a running volume ---------- *)
(* every entry of the .ecx points at a record of that key and size *)
Lemma ecx_entry_rec : forall s e, cinv s -> In e (ecx_file s) ->
  (0 <= ie_size e)%Z /\ ie_off e <> 0 /\
  exists r, find_rec (recs (cv s)) (ie_off e) = Some r /\ Z.of_N (r_size r) = ie_size e.
Proof.
  intros s e H Hin. destruct (ecx_in_get _ _ Hin) as [G D].
  unfold ecx_dead in D. apply orb_false_iff in D. destruct D as [Do Ds].
  apply N.eqb_neq in Do. apply Z.eqb_neq in Ds.
  pose proof (ci_ent _ H (ie_key e)) as He. unfold ent_ok in He.
  destruct (nm_get (nm (cv s)) (ie_key e)) as [nv|]; [|congruence].
  destruct He as [_ He]. destruct (0 <=? nv_size nv)%Z eqn:S.
  - destruct He as [Hi [r [Hf [Hsz _]]]]. rewrite G in Hi. injection Hi as Hi.
    pose proof (f_equal ie_off Hi) as Eo. pose proof (f_equal ie_size Hi) as Es. simpl in Eo, Es.
    apply Z.leb_le in S. rewrite Eo, Es. split; [exact S|]. split; [rewrite <- Eo; exact Do|]. exists r. auto.
  - destruct He as [o Hi]. rewrite G in Hi. injection Hi as Hi.
    pose proof (f_equal ie_size Hi) as Es. simpl in Es. congruence.
Qed.

Lemma ecx_entry_live : forall s e, cinv s -> In e (ecx_file s) -> elive e = true.
Proof.
  intros s e H Hin. destruct (ecx_entry_rec _ _ H Hin) as [S _].
  unfold elive. destruct (size_deleted (ie_size e)) eqn:D; [|reflexivity].
  apply size_deleted_neg in D. lia.
Qed.

Lemma entry_stop_rec : forall e r, Z.of_N (r_size r) = ie_size e ->
  entry_stop e = ie_off e + actual_size (r_size r).
Proof. intros e r H. unfold entry_stop. rewrite <- H, N2Z.id. reflexivity. Qed.

(* ---------- outside the triggers the integrity check changes nothing ---------- *)
Lemma rev_head_in : forall (A : Type) (l : list A) x t, rev l = x :: t -> In x l.
Proof. intros A l x t H. apply in_rev. rewrite H. left. reflexivity. Qed.

Lemma last_entry_stop : forall s last t, cinv s ->
  rev (ecx_file s) = last :: t -> sorted_idx_truncates s = false ->
  dat_size s = entry_stop last.
Proof.
  intros s last t H Hr T. unfold sorted_idx_truncates in T. rewrite Hr in T.
  pose proof (rev_head_in _ _ _ _ Hr) as Hlast.
  pose proof (ecx_entry_live _ _ H Hlast) as Ll.
  pose proof (fds_ge _ _ Hlast Ll) as Hge. fold (dat_size s) in Hge.
  destruct (fds_pick (ecx_file s)) as [Z0|[e [Hin [Le Hv]]]]; fold (dat_size s) in *.
  - destruct (ecx_entry_rec _ _ H Hlast) as [_ [_ [r [_ Hsz]]]].
    rewrite (entry_stop_rec _ _ Hsz) in Hge. pose proof (actual_size_pos (r_size r)). lia.
  - assert (Hoff : ie_off e <= ie_off last).
    { destruct (ie_off last <? ie_off e) eqn:C; [|apply N.ltb_ge in C; exact C].
      exfalso. assert (X : existsb (fun e => negb (size_deleted (ie_size e)) && (ie_off last <? ie_off e)) (ecx_file s) = true).
      { apply existsb_exists. exists e. split; [exact Hin|]. unfold elive in Le. rewrite Le, C. reflexivity. }
      congruence. }
    destruct (ecx_entry_rec _ _ H Hin) as [_ [_ [r [Hf Hsz]]]].
    destruct (ecx_entry_rec _ _ H Hlast) as [_ [_ [rl [Hfl Hszl]]]].
    rewrite (entry_stop_rec _ _ Hsz) in Hv. rewrite (entry_stop_rec _ _ Hszl) in Hge |- *.
    destruct (N.eq_dec (ie_off e) (ie_off last)) as [Eq|Ne].
    + rewrite Eq in Hf. rewrite Hfl in Hf. inversion Hf; subst r. rewrite Hv, Eq. reflexivity.
    + exfalso. pose proof (find_rec_off _ _ _ Hf) as O1. pose proof (find_rec_off _ _ _ Hfl) as O2.
      pose proof (sorted_disjoint _ _ r rl (ci_sorted _ H) (find_rec_In _ _ _ Hf) (find_rec_In _ _ _ Hfl)) as Dj.
      pose proof (actual_size_pos (r_size rl)). lia.
Qed.

Lemma decoded_tail_ok : forall s, cinv s -> sorted_idx_truncates s = false ->
  tail_ok (f_recs (decoded_files s)) (f_end (decoded_files s)) (f_idx (decoded_files s)).
Proof.
  intros s H T. unfold tail_ok, decoded_files. cbn [f_recs f_end f_idx].
  destruct (rev (ecx_file s)) as [|last t] eqn:Hr; [exact I|].
  pose proof (last_entry_stop _ _ _ H Hr T) as Hd.
  pose proof (rev_head_in _ _ _ _ Hr) as Hlast.
  destruct (ecx_entry_rec _ _ H Hlast) as [S [Ho [r [Hf Hsz]]]].
  rewrite (entry_stop_rec _ _ Hsz) in Hd. pose proof (actual_size_pos (r_size r)) as Hp.
  unfold verify_entry. rewrite (proj2 (N.eqb_neq _ _) Ho).
  assert (N0 : (ie_size last <? 0)%Z = false) by (apply Z.ltb_ge; exact S). rewrite N0.
  rewrite (find_rec_filter (dat_size s) _ _ _ Hf) by lia.
  rewrite Hsz, Z.eqb_refl. simpl negb. cbv iota.
  rewrite Hd, N.eqb_refl. reflexivity.
Qed.

Lemma commit_noop : forall F, check_noop (check_files F) = true ->
  commit F = {| recs := f_recs F; nm := load_idx (f_idx F); dat_end := f_end F;
                no_write_or_delete := false; no_write_can_delete := false |}.
Proof.
  intros F H. unfold commit. destruct (check_files F) as [[d t] b]. unfold check_noop in H. simpl in *.
  apply andb_true_iff in H. destruct H as [H Hb]. apply andb_true_iff in H. destruct H as [Hd Ht].
  apply Nat.eqb_eq in Hd. subst d. destruct t; [discriminate|]. apply negb_true_iff in Hb. subst b.
  reflexivity.
Qed.

(* the check of the mount is a no-op and the .dat keeps the size FindDatFileSize computed *)
Theorem decode_mount_check_noop : forall vt h,
  no_pad h = true ->
  sorted_idx_truncates (c_exec vt cinit h) = false ->
  check_noop (check_files (decoded_files (c_exec vt cinit h))) = true.
Proof.
  intros vt h _ T. apply tail_ok_noop. apply decoded_tail_ok; [|exact T].
  apply c_exec_inv. exact cinv_init.
Qed.

(* ---------- reads ---------- *)
Lemma no_live_false : forall s, no_live_entry s = false -> exists e, In e (ecx_file s) /\ elive e = true.
Proof.
  intros s H. unfold no_live_entry in H.
  destruct (forallb_forall (fun e => size_deleted (ie_size e)) (ecx_file s)) as [_ B].
  destruct (existsb (fun e => negb (size_deleted (ie_size e))) (ecx_file s)) eqn:X.
  - apply existsb_exists in X. destruct X as [e [Hin He]]. exists e. auto.
  - exfalso. assert (F : forallb (fun e => size_deleted (ie_size e)) (ecx_file s) = true).
    { apply B. intros x Hx. destruct (size_deleted (ie_size x)) eqn:D; [reflexivity|]. exfalso.
      assert (Y : existsb (fun e => negb (size_deleted (ie_size e))) (ecx_file s) = true).
      { apply existsb_exists. exists x. rewrite D. auto. }
      congruence. }
    congruence.
Qed.

Lemma decoded_content : forall s k, cinv s -> nozero s ->
  content {| recs := f_recs (decoded_files s); nm := load_idx (f_idx (decoded_files s));
             dat_end := f_end (decoded_files s); no_write_or_delete := false; no_write_can_delete := false |} k
  = content (cv s) k.
Proof.
  intros s k H Hz. rewrite content_files. unfold decoded_files. cbn [f_recs f_end f_idx].
  rewrite idx_get_rev by (apply asc_nodup, ecx_of_asc). unfold ecx_file at 1. rewrite ecx_of_get.
  unfold content at 1.
  destruct (live (nm (cv s)) k) as [[off size]|] eqn:L.
  - destruct (live_facts _ _ _ _ H L) as [Hs0 [Ho [Hi [r [Hf [Hsz [Hid Hrd]]]]]]].
    rewrite Hi. pose proof (live_size _ _ _ _ Hz L) as Hnz.
    assert (Dd : ecx_dead {| ie_key := k; ie_off := off; ie_size := size |} = false).
    { unfold ecx_dead. simpl. rewrite (proj2 (N.eqb_neq _ _) Ho). simpl. apply Z.eqb_neq. lia. }
    rewrite Dd. unfold entry_valid. simpl ie_off. simpl ie_size.
    assert (O : negb (off =? 0) = true) by (apply negb_true_iff, N.eqb_neq; exact Ho).
    assert (V : size_valid size = true) by (apply size_valid_pos; lia).
    rewrite O, V. simpl andb. cbv iota.
    assert (Hin : In {| ie_key := k; ie_off := off; ie_size := size |} (ecx_file s)).
    { eapply idx_get_In. unfold ecx_file. rewrite ecx_of_get, Hi, Dd. reflexivity. }
    pose proof (fds_ge _ _ Hin (ecx_entry_live _ _ H Hin)) as Hge. fold (dat_size s) in Hge.
    assert (Hst : entry_stop {| ie_key := k; ie_off := off; ie_size := size |} = off + actual_size (r_size r))
      by (rewrite (entry_stop_rec _ r) by exact Hsz; reflexivity).
    rewrite Hst in Hge. pose proof (actual_size_pos (r_size r)).
    rewrite (find_rec_filter (dat_size s) _ _ _ Hf) by lia.
    rewrite Hsz, Z.eqb_refl, Hrd. reflexivity.
  - destruct (idx_get (cidx s) k) as [e|] eqn:G; [|reflexivity].
    destruct (ecx_dead e); [reflexivity|].
    unfold entry_valid. rewrite (dead_entry _ _ _ H L G), andb_false_r. reflexivity.
Qed.

(* the decoded and mounted volume serves every id as the volume that was encoded did *)
Theorem decode_mount_partial : forall vt (L : Z) h now id,
  no_pad h = true -> has_empty h = false ->
  no_live_entry (c_exec vt cinit h) = false ->
  fewer_large_rows L (c_exec vt cinit h) = false ->
  sorted_idx_truncates (c_exec vt cinit h) = false ->
  exists m, mounted (c_exec vt cinit h) = Some m /\
            dat_end m = dat_size (c_exec vt cinit h) /\
            no_write_or_delete m = false /\
            read_of m now id = read_of (cv (c_exec vt cinit h)) now id.
Proof.
  intros vt L h now id Hp He Hl _ T. set (s := c_exec vt cinit h) in *.
  assert (H : cinv s) by (apply c_exec_inv; exact cinv_init).
  assert (Hz : nozero s).
  { apply exec_nozero; [exact cinv_init | exact nozero_init | apply has_empty_false; exact He]. }
  destruct (no_live_false _ Hl) as [e [Hin Le]].
  pose proof (fds_ge _ _ Hin Le) as Hge. fold (dat_size s) in Hge.
  destruct (ecx_entry_rec _ _ H Hin) as [_ [_ [r [Hf Hsz]]]].
  rewrite (entry_stop_rec _ _ Hsz) in Hge.
  destruct (sorted_recs_bound _ _ _ (ci_sorted _ H) (find_rec_In _ _ _ Hf)) as [H8 _].
  rewrite (find_rec_off _ _ _ Hf) in H8. pose proof (actual_size_pos (r_size r)) as Hpos.
  unfold mounted. assert (D8 : dat_size s <? 8 = false) by (apply N.ltb_ge; lia). rewrite D8.
  eexists. split; [reflexivity|].
  rewrite (commit_noop _ (tail_ok_noop _ (decoded_tail_ok _ H T))).
  split; [reflexivity|]. split; [reflexivity|].
  unfold read_of. rewrite read_char by (cbn [nm]; intros nv G; exact (load_nz _ _ _ G)).
  rewrite read_char by (intros nv G; exact (Hz _ _ G)).
  rewrite decoded_content by assumption. reflexivity.
Qed.

(* ---------- witnesses ---------- *)
Definition wn (id : N) (data : bytes) : needle :=
  {| n_id := id; n_cookie := 7; n_data := data; n_flags := 0; n_name := []; n_mime := [];
     n_pairs := []; n_lastmod := 0; n_ttl := (0, 0) |}.

(* finding 0: Write(1,"aaa"), Write(2,"bbb"), Write(1,"cccc") *)
Definition w_sorted : list cevent :=
  [(1, CWrite (wn 1 [97; 97; 97])); (2, CWrite (wn 2 [98; 98; 98])); (3, CWrite (wn 1 [99; 99; 99; 99]))].

Lemma decode_mount_refuted :
  exists h id now, no_pad h = true /\ has_empty h = false /\
    read_mounted (mounted (c_exec (0, 0) cinit h)) now id <> read_of (cv (c_exec (0, 0) cinit h)) now id.
Proof. exists w_sorted, 1, 10. split; [reflexivity|]. split; [reflexivity|]. vm_compute. discriminate. Qed.

Lemma w_sorted_facts :
  decode_trigger 1073741824 (c_exec (0, 0) cinit w_sorted) = Some 0 /\
  dat_end (cv (c_exec (0, 0) cinit w_sorted)) = 128 /\ dat_size (c_exec (0, 0) cinit w_sorted) = 128 /\
  option_map dat_end (mounted (c_exec (0, 0) cinit w_sorted)) = Some 88.
Proof. vm_compute. auto. Qed.

(* finding 1: Write(1,"aaa"), Delete(1): nothing is live, FindDatFileSize = 0, no super block *)
Definition w_nolive : list cevent := [(1, CWrite (wn 1 [97; 97; 97])); (2, CDelete 1 7)].

Lemma decode_unmountable :
  exists h, no_pad h = true /\ has_empty h = false /\
    dat_size (c_exec (0, 0) cinit h) = 0 /\ mounted (c_exec (0, 0) cinit h) = None /\
    decode_trigger 1073741824 (c_exec (0, 0) cinit h) = Some 1.
Proof. exists w_nolive. vm_compute. auto. Qed.

(* finding 2 (block sizes 40/10): Write(1, 300 bytes), Write(2, 70 bytes), Delete(2): the encoded
   .dat (480 bytes) has one large row, the size FindDatFileSize computes (344) none *)
Definition w_rows : list cevent :=
  [(1, CWrite (wn 1 (repeat 65 300))); (2, CWrite (wn 2 (repeat 66 70))); (3, CDelete 2 7)].

Lemma decode_fewer_rows :
  exists h, no_pad h = true /\ has_empty h = false /\
    dat_end (cv (c_exec (0, 0) cinit h)) = 480 /\ dat_size (c_exec (0, 0) cinit h) = 344 /\
    large_rows 40 480 = 1%Z /\ large_rows 40 344 = 0%Z /\
    decode_trigger 40 (c_exec (0, 0) cinit h) = Some 2.
Proof. exists w_rows. vm_compute. auto 10. Qed.

(* non-vacuity: the LARGEST key is overwritten, key 1 deleted and rewritten; no trigger, reads agree *)
Definition w_clean : list cevent :=
  [(1, CWrite (wn 1 [97; 97; 97])); (2, CWrite (wn 2 [98; 98; 98])); (3, CDelete 1 7);
   (4, CWrite (wn 2 [99; 99; 99; 99]))].

Lemma decode_mount_example :
  no_pad w_clean = true /\ has_empty w_clean = false /\
  decode_trigger 1073741824 (c_exec (0, 0) cinit w_clean) = None /\
  no_live_entry (c_exec (0, 0) cinit w_clean) = false /\
  fewer_large_rows 1073741824 (c_exec (0, 0) cinit w_clean) = false /\
  sorted_idx_truncates (c_exec (0, 0) cinit w_clean) = false /\
  (forall id, In id [1; 2; 3] ->
     read_mounted (mounted (c_exec (0, 0) cinit w_clean)) 10 id = read_of (cv (c_exec (0, 0) cinit w_clean)) 10 id) /\
  read_of (cv (c_exec (0, 0) cinit w_clean)) 10 2 <> None.
Proof.
  repeat split; try reflexivity.
  - intros id [<-|[<-|[<-|[]]]]; vm_compute; reflexivity.
  - vm_compute. discriminate.
Qed.
