(* Proofs about model/VolPlanner.v (C15), part 10: the PER-STEP forms of the partial
   theorems.  A failing clause of one step is excused only by the trigger of that very
   step (the moved replica's replication setting / the target server), so a different
   violation cannot hide behind another volume or server of the snapshot. *)
From Coq Require Import List NArith ZArith Bool Arith Lia Permutation.
From SW Require Import model.VolPlanner proof.VolPlannerProofs proof.VolPlannerProofs2
  proof.VolPlannerProofs3 proof.VolPlannerProofs4 proof.VolPlannerProofs5 proof.VolPlannerProofs6
  proof.VolPlannerProofs7 proof.VolPlannerProofs8.
Import ListNotations.

Lemma excused_app : forall cl tg s tr1 tr2 w,
  excused cl tg s w (tr1 ++ tr2) = excused cl tg s w tr1 && excused cl tg s (run_trace s w tr1) tr2.
Proof.
  induction tr1 as [|st tr1 IH]; intros tr2 w; [reflexivity|].
  cbn [app excused run_trace]. rewrite IH, andb_assoc. reflexivity.
Qed.

(* ====================================================================== *)
(* k=2 per step: placement preserved unless the MOVED replica has x>=1, y>=2 *)
(* ====================================================================== *)
Lemma move_step_excused : forall s w dt from to v,
  NoDup (map n_id s) -> WInv s w -> NodesOk w ->
  In (loc_of s to) (cl s) -> from <> to ->
  In {| r_loc := loc_of s from; r_info := v |} (w_reps w (v_id v)) ->
  move_guard s w v from to ->
  ok_pres (prop_step s w (Move (v_id v) dt from to)) || step_rp_trig w (Move (v_id v) dt from to) = true.
Proof.
  intros s w dt from to v Hnd HW HN Hto Hne Hin Hg.
  destruct (move_step_safe s w dt from to v Hnd HW HN Hto Hne Hin Hg) as [_ [Hp _]].
  cbn [step_rp_trig].
  pose proof (replica_at_unique _ _ (HN (v_id v)) Hin) as Hat. cbn [r_loc] in Hat.
  rewrite loc_of_node in Hat. rewrite Hat. cbn [r_info].
  destruct (rp_trig (rp_of_byte (v_rp v))) eqn:E; [apply orb_true_r|].
  rewrite (Hp eq_refl). reflexivity.
Qed.

Lemma balance_step_excused : forall s P c st vid dt from to,
  NoDup (map n_id s) -> CtxOk s c -> BInv s P st ->
  balance_step_ok c st vid dt from to = true ->
  ok_pres (prop_step s (b_w st) (Move vid dt from to)) || step_rp_trig (b_w st) (Move vid dt from to) = true.
Proof.
  intros s P c st vid dt from to Hnd Hctx HI Hok.
  unfold balance_step_ok in Hok.
  destruct (find_cap c from) as [f|] eqn:Ef;
    destruct (find_cap c to) as [t|] eqn:Et;
    destruct (find (fun x => (v_id x =? vid)%N) (b_sel st from)) as [v|] eqn:Ev; try discriminate.
  apply find_cap_some in Ef. destruct Ef as [Hf Hfid]. apply find_cap_some in Et. destruct Et as [Ht Htid].
  pose proof (find_vid_some _ _ _ Ev) as [Hv Hvid].
  repeat (apply andb_true_iff in Hok; destruct Hok as [Hok ?]).
  match goal with H : bmovable st v (fst f) (fst t) = true |- _ => rename H into Hmov end.
  apply negb_true_iff in Hok. apply N.eqb_neq in Hok.
  assert (loc_of s from = fst f) as Efl by (rewrite <- Hfid; apply loc_of_cl; auto).
  assert (loc_of s to = fst t) as Etl by (rewrite <- Htid; apply loc_of_cl; auto).
  unfold bmovable, movable in Hmov. apply andb_true_iff in Hmov. destruct Hmov as [Hg Hnsel].
  destruct HI as [HW HN Hsel Hnds HP Hsrc Hrest].
  pose proof (Hsel from v Hv) as Hin.
  rewrite <- Hvid. apply move_step_excused; auto.
  - rewrite Etl. apply Hctx; auto.
  - unfold move_guard. rewrite Efl, Etl. exact Hg.
Qed.

Lemma balance_phase_excused : forall s P c tr st st' tr',
  NoDup (map n_id s) -> CtxOk s c -> BInv s P st ->
  balance_phase s c st tr = Some (st', tr') ->
  exists used, tr = used ++ tr' /\ BInv s P st' /\ b_w st' = run_trace s (b_w st) used /\
    excused ok_pres step_rp_trig s (b_w st) used = true.
Proof.
  intros s P c tr. induction tr as [|stp tr IH]; intros st st' tr' Hnd Hctx HI H.
  - cbn [balance_phase] in H. exists []. destruct (bc_nodes c); [discriminate|].
    destruct (balance_terminal c st); [|discriminate]. inversion H; subst. split; [reflexivity|]. split; [assumption|]. split; reflexivity.
  - assert (forall (o : option (bstate * list step)),
              (o = match bc_nodes c with [] => None | _ => if balance_terminal c st then Some (st, stp :: tr) else None end) ->
              o = Some (st', tr') ->
              exists used, stp :: tr = used ++ tr' /\ BInv s P st' /\ b_w st' = run_trace s (b_w st) used /\
                excused ok_pres step_rp_trig s (b_w st) used = true) as Hfin.
    { intros o Ho Hs. subst o. destruct (bc_nodes c); [discriminate|].
      destruct (balance_terminal c st); [|discriminate]. inversion Hs; subst. exists []. split; [reflexivity|]. split; [assumption|]. split; reflexivity. }
    cbn [balance_phase] in H. destruct stp as [vid dt from to| |]; try (eapply Hfin; [reflexivity|exact H]).
    destruct (existsb (fun x => (v_id x =? vid)%N) (b_sel st from)) eqn:Ein; [|eapply Hfin; [reflexivity|exact H]].
    destruct (balance_step_ok c st vid dt from to) eqn:Eok; [|discriminate].
    destruct (balance_step_safe s P c st vid dt from to Hnd Hctx HI Eok) as [_ [_ HI']].
    pose proof (balance_step_excused s P c st vid dt from to Hnd Hctx HI Eok) as Hex.
    destruct (IH _ _ _ Hnd Hctx HI' H) as [used [E [HI'' [Hw Hex']]]].
    rewrite balance_advance_w in Hw, Hex'; auto.
    exists (Move vid dt from to :: used). split; [cbn [app]; f_equal; auto|].
    split; auto. split; [cbn [run_trace]; auto|].
    cbn [excused]. rewrite Hex, Hex'. reflexivity.
Qed.

Theorem balance_run_excused : forall limit s phs done w tr w',
  wf_snap s -> GInv s done w -> PhasesDisjoint limit done phs ->
  balance_phases limit s phs w tr = Some w' ->
  excused ok_pres step_rp_trig s w tr = true.
Proof.
  intros limit s phs. induction phs as [|ph phs IH]; intros done w tr w' Hwf HG Hdis H.
  - cbn [balance_phases] in H. destruct tr; [|discriminate]. reflexivity.
  - cbn [balance_phases] in H. destruct Hdis as [Hd1 Hd2].
    destruct (balance_phase s (mk_bctx limit s ph) {| b_sel := init_sel limit s ph; b_w := w |} tr)
      as [[st tr']|] eqn:E; [|discriminate].
    pose proof (phase_start_BInv limit s done ph w Hwf HG Hd1) as HB.
    destruct (balance_phase_excused s _ _ tr _ st tr' (proj1 Hwf) (mk_bctx_ctxok limit s ph) HB E)
      as [used [Eu [HB' [Hw Hex]]]].
    cbn [b_w] in *.
    assert (GInv s (fun v => done v || selects limit ph v) (b_w st)) as HG'.
    { destruct HB'. constructor; auto. }
    pose proof (IH _ _ _ _ Hwf HG' Hd2 H) as Hex2.
    subst tr. rewrite excused_app, <- Hw, Hex, Hex2. reflexivity.
Qed.

Theorem balance_accepts_excused : forall limit s colls dts tr w',
  wf_snap s -> phases_ok (phases_of colls dts) = true ->
  balance_accepts limit s colls dts tr = Some w' ->
  excused ok_pres step_rp_trig s (init_world s) tr = true.
Proof.
  intros limit s colls dts tr w' Hwf Hok H. unfold balance_accepts in H.
  eapply balance_run_excused; eauto.
  - apply init_GInv; auto.
  - apply (phases_ok_disjoint limit _ []); auto.
    + intros v Hv. discriminate.
    + intros q ph [].
Qed.

Lemma evac_run_excused : forall s this skip vs evs w,
  NoDup (map n_id s) -> In this (cl s) ->
  WInv s w -> NodesOk w ->
  NoDup (map v_id vs) ->
  (forall v, In v vs -> In {| r_loc := this; r_info := v |} (w_reps w (v_id v))) ->
  evac_run s this skip w vs evs = true ->
  excused ok_pres step_rp_trig s w (evac_steps (l_node this) evs) = true.
Proof.
  intros s this skip vs. induction vs as [|v vs IH]; intros evs w Hnd Hthis HW HN Hvs Hin H.
  - destruct evs; [|discriminate]. reflexivity.
  - cbn [map] in Hvs. inversion Hvs as [|? ? Hnv Hdv]; subst.
    destruct evs as [|e evs]; [discriminate|].
    destruct e as [vid dt to|vid|vid]; cbn [evac_run] in H.
    + repeat (apply andb_true_iff in H; destruct H as [H ?]).
      match goal with X : evac_run _ _ _ _ _ _ = true |- _ => rename X into Hrec end.
      match goal with X : evac_target_ok _ _ _ _ _ = true |- _ => rename X into Htg end.
      apply N.eqb_eq in H. subst vid.
      destruct (evac_target_facts _ _ _ _ _ Htg) as [t [Ht [Etid [Hne Hmov]]]].
      assert (loc_of s (l_node this) = this) as Efl by (apply loc_of_cl; auto).
      assert (loc_of s to = n_loc t) as Etl by (rewrite <- Etid; apply loc_of_in; auto).
      unfold movable in Hmov. apply andb_true_iff in Hmov. destruct Hmov as [Hg _].
      assert (In (loc_of s to) (cl s)) as Hto by (rewrite Etl; unfold cl; apply in_map; auto).
      assert (In {| r_loc := loc_of s (l_node this); r_info := v |} (w_reps w (v_id v))) as Hin0
        by (rewrite Efl; apply Hin; left; auto).
      assert (move_guard s w v (l_node this) to) as Hmg by (unfold move_guard; rewrite Efl, Etl; exact Hg).
      destruct (move_step_safe s w dt (l_node this) to v Hnd HW HN Hto (not_eq_sym Hne) Hin0 Hmg)
        as [_ [_ [HW' [HN' [_ [_ Hoth]]]]]].
      pose proof (move_step_excused s w dt (l_node this) to v Hnd HW HN Hto (not_eq_sym Hne) Hin0 Hmg) as Hex.
      set (w' := apply_step s w (Move (v_id v) dt (l_node this) to)) in *.
      assert (excused ok_pres step_rp_trig s w' (evac_steps (l_node this) evs) = true) as Hex2.
      { apply IH; auto. intros x Hx. rewrite Hoth; [apply Hin; right; auto|].
        intro E. apply Hnv. rewrite <- E. apply in_map; auto. }
      cbn [evac_steps flat_map app]. fold (evac_steps (l_node this) evs).
      cbn [excused]. fold w'. rewrite Hex, Hex2. reflexivity.
    + repeat (apply andb_true_iff in H; destruct H as [H ?]).
      match goal with X : evac_run _ _ _ _ _ _ = true |- _ => rename X into Hrec end.
      cbn [evac_steps flat_map app]. fold (evac_steps (l_node this) evs).
      apply IH; auto. intros x Hx. apply Hin. right; auto.
    + destruct evs; [|discriminate]. reflexivity.
Qed.

Theorem evac_accepts_excused : forall s this skip evs,
  wf_snap s -> evac_accepts s this skip evs = true ->
  excused ok_pres step_rp_trig s (init_world s) (evac_steps this evs) = true.
Proof.
  intros s this skip evs Hwf H. unfold evac_accepts in H.
  destruct (find_node s this) as [n|] eqn:En; [|discriminate].
  apply find_node_some in En. destruct En as [Hn Eid].
  apply existsb_exists in H. destruct H as [ds [Hds Hrun]].
  apply perms_perm in Hds.
  assert (Permutation (all_vols n) (flat_map d_vols ds)) as HP by (apply Permutation_flat_map; auto).
  destruct Hwf as [Hnd Hvids].
  assert (l_node (n_loc n) = this) as El by exact Eid. rewrite <- El.
  apply (evac_run_excused s (n_loc n) skip (flat_map d_vols ds) evs (init_world s)); auto.
  - unfold cl. apply in_map; auto.
  - apply init_WInv.
  - apply init_NodesOk. split; auto.
  - eapply Permutation_NoDup; [apply Permutation_map; exact HP|]. apply Hvids; auto.
  - intros v Hv. apply init_rest; auto. eapply Permutation_in; [apply Permutation_sym; exact HP|auto].
Qed.

(* ====================================================================== *)
(* k=1 per step: evacuate has a free slot unless THIS target cannot take all volumes of *)
(* that disk type of the evacuated server                                              *)
(* ====================================================================== *)
Local Open Scope Z_scope.
Lemma evac_run_cap_ex : forall s this skip (T : N -> N -> bool) vs evs w,
  (forall n dt, In n s -> n_id n <> l_node this -> 0 < cnt_dt vs dt -> T (n_id n) dt = false ->
     w_occ w (n_id n) dt + cnt_dt vs dt <= max_of s (n_id n) dt) ->
  evac_run s this skip w vs evs = true ->
  excused ok_cap (fun _ st => match st with Move _ dt _ to => T to dt | _ => false end)
          s w (evac_steps (l_node this) evs) = true.
Proof.
  intros s this skip T vs. induction vs as [|v vs IH]; intros evs w Hinv H.
  - destruct evs; [|discriminate]. reflexivity.
  - destruct evs as [|e evs]; [discriminate|].
    destruct e as [vid dt to|vid|vid]; cbn [evac_run] in H.
    + repeat (apply andb_true_iff in H; destruct H as [H ?]).
      match goal with X : evac_run _ _ _ _ _ _ = true |- _ => rename X into Hrec end.
      match goal with X : evac_target_ok _ _ _ _ _ = true |- _ => rename X into Htg end.
      match goal with X : (dt =? v_dt v)%N = true |- _ => rename X into Hdt end.
      apply N.eqb_eq in H. apply N.eqb_eq in Hdt. subst vid dt.
      destruct (evac_target_facts _ _ _ _ _ Htg) as [t [Ht [Etid [Hne _]]]].
      cbn [evac_steps flat_map app]. fold (evac_steps (l_node this) evs).
      cbn [excused]. apply andb_true_iff. split.
      * destruct (T to (v_dt v)) eqn:ET; [apply orb_true_r|]. rewrite orb_false_r.
        cbn [prop_step ok_cap]. apply Z.ltb_lt.
        assert (0 < cnt_dt (v :: vs) (v_dt v)) as Hpos.
        { rewrite cnt_dt_cons, N.eqb_refl. pose proof (cnt_dt_nonneg vs (v_dt v)). lia. }
        assert (T (n_id t) (v_dt v) = false) as ET' by (rewrite Etid; exact ET).
        pose proof (Hinv t (v_dt v) Ht (eq_ind_r (fun x => x <> l_node this) Hne Etid) Hpos ET') as Hi.
        rewrite Etid in Hi. lia.
      * apply IH; auto. intros n dt Hn Hnid Hpos HT.
        assert (0 < cnt_dt (v :: vs) dt) as Hpos' by (rewrite cnt_dt_cons; destruct (v_dt v =? dt)%N; lia).
        pose proof (Hinv n dt Hn Hnid Hpos' HT) as Hi. rewrite cnt_dt_cons in Hi.
        cbn [apply_step w_occ].
        destruct (N.eq_dec (n_id n) to) as [E1|E1]; [destruct (N.eq_dec dt (v_dt v)) as [E2|E2]|].
        -- subst dt. rewrite E1, upd2_same, upd2_other by (left; congruence).
           rewrite N.eqb_refl in Hi. rewrite E1 in Hi. lia.
        -- rewrite upd2_other by (right; auto). rewrite upd2_other by (left; auto).
           destruct (N.eqb_spec (v_dt v) dt); [congruence|]. lia.
        -- rewrite upd2_other by (left; auto). rewrite upd2_other by (left; auto).
           destruct (v_dt v =? dt)%N; lia.
    + repeat (apply andb_true_iff in H; destruct H as [H ?]).
      match goal with X : evac_run _ _ _ _ _ _ = true |- _ => rename X into Hrec end.
      cbn [evac_steps flat_map app]. fold (evac_steps (l_node this) evs).
      apply IH; auto. intros n dt Hn Hnid Hpos HT.
      assert (0 < cnt_dt (v :: vs) dt) as Hpos' by (rewrite cnt_dt_cons; destruct (v_dt v =? dt)%N; lia).
      pose proof (Hinv n dt Hn Hnid Hpos' HT) as Hi. rewrite cnt_dt_cons in Hi. destruct (v_dt v =? dt)%N; lia.
    + destruct evs; [|discriminate]. reflexivity.
Qed.

Theorem evac_accepts_cap_excused : forall s this skip evs,
  NoDup (map n_id s) -> evac_accepts s this skip evs = true ->
  excused ok_cap (step_evac_trig s this) s (init_world s) (evac_steps this evs) = true.
Proof.
  intros s this skip evs Hnd H. unfold evac_accepts in H.
  destruct (find_node s this) as [t|] eqn:En; [|discriminate].
  pose proof En as En0.
  apply find_node_some in En. destruct En as [Ht Eid].
  apply existsb_exists in H. destruct H as [ds [Hds Hrun]].
  apply perms_perm in Hds.
  assert (Permutation (all_vols t) (flat_map d_vols ds)) as HP by (apply Permutation_flat_map; auto).
  assert (l_node (n_loc t) = this) as El by exact Eid.
  change (step_evac_trig s this) with
    (fun (_ : world) st => match st with Move _ dt _ to => evac_cap_trig s this to dt | _ => false end).
  pose proof (evac_run_cap_ex s (n_loc t) skip (evac_cap_trig s this) (flat_map d_vols ds) evs (init_world s)) as X.
  rewrite El in X. apply X; auto.
  intros n dt Hn Hnid Hpos HT.
  assert (cnt_dt (flat_map d_vols ds) dt = Z.of_nat (length (vols_of_dt t dt))) as Ec.
  { unfold cnt_dt, vols_of_dt. f_equal. apply Permutation_length. apply filter_perm. apply Permutation_sym; auto. }
  rewrite Ec. unfold evac_cap_trig in HT. rewrite En0 in HT. apply Z.ltb_ge in HT. exact HT.
Qed.

(* ====================================================================== *)
(* k=0 per step: balance has a free slot unless THIS target holds too many unselected   *)
(* volumes at the start of the phase                                                   *)
(* ====================================================================== *)
Lemma balance_step_cap_ex : forall s c dt st0 st vid dt' from to,
  CapCtx s c dt -> CapInv c dt st0 st ->
  balance_step_ok c st vid dt' from to = true ->
  ok_cap (prop_step s (b_w st) (Move vid dt' from to)) ||
    match find_cap c to with Some t => node_cap_trig c dt st0 t | None => false end = true /\
  CapInv c dt st0 (balance_advance s st vid dt' from to).
Proof.
  intros s c dt st0 st vid dt' from to [HM Hmax] [Hun Hdt] Hok.
  unfold balance_step_ok in Hok.
  destruct (find_cap c from) as [f|] eqn:Ef;
    destruct (find_cap c to) as [t|] eqn:Et;
    destruct (find (fun x => (v_id x =? vid)%N) (b_sel st from)) as [v|] eqn:Ev; try discriminate.
  apply find_cap_some in Ef. destruct Ef as [Hf Hfid]. apply find_cap_some in Et. destruct Et as [Ht Htid].
  pose proof (find_vid_some _ _ _ Ev) as [Hv Hvid].
  repeat (apply andb_true_iff in Hok; destruct Hok as [Hok ?]).
  match goal with H : next_fits c st t = true |- _ => rename H into Hfit end.
  match goal with H : (v_dt v =? dt')%N = true |- _ => rename H into Hdt' end.
  apply negb_true_iff in Hok. apply N.eqb_neq in Hok.
  apply N.eqb_eq in Hdt'. assert (dt' = dt) as -> by (rewrite <- Hdt'; eapply Hdt; eauto).
  split.
  - destruct (node_cap_trig c dt st0 t) eqn:Hnt; [apply orb_true_r|]. rewrite orb_false_r.
    cbn [prop_step ok_cap]. apply Z.ltb_lt. rewrite <- Htid, (Hmax t Ht).
    pose proof (Hun t Ht) as Hu. unfold phase_unsel in Hu.
    unfold node_cap_trig in Hnt. apply Z.ltb_ge in Hnt.
    unfold next_fits in Hfit. apply Z.leb_le in Hfit.
    unfold phase_unsel in Hnt. nia.
  - (* bookkeeping *)
    unfold balance_advance. rewrite Ev. split.
    + intros nc Hnc. rewrite <- (Hun nc Hnc). unfold phase_unsel, nsel. cbn [b_w b_sel apply_step w_occ].
      assert (In vid (map v_id (b_sel st from))) as Hinv by (rewrite <- Hvid; apply in_map; auto).
      pose proof (remove_vid_length vid _ Hinv) as Hlen.
      destruct (N.eq_dec (l_node (fst nc)) to) as [E|E].
      * rewrite E, upd1_eq, upd2_same, upd2_other by (left; auto). cbn [length]. lia.
      * rewrite upd1_neq, upd2_other by auto.
        destruct (N.eq_dec (l_node (fst nc)) from) as [E'|E'].
        -- rewrite E', upd1_eq, upd2_same. lia.
        -- rewrite upd1_neq, upd2_other by auto. reflexivity.
    + intros n x Hx. cbn [b_sel] in Hx. destruct (N.eq_dec n to) as [->|Hnt].
      * rewrite upd1_eq in Hx. destruct Hx as [<-|Hx]; eauto.
      * rewrite upd1_neq in Hx; auto. destruct (N.eq_dec n from) as [->|Hnf].
        -- rewrite upd1_eq in Hx. assert (In x (b_sel st from)); eauto.
           clear - Hx. induction (b_sel st from) as [|a l IH]; [destruct Hx|].
           cbn [remove_vid] in Hx. destruct (v_id a =? vid)%N; [right; auto|].
           destruct Hx as [<-|Hx]; [left; auto|right; auto].
        -- rewrite upd1_neq in Hx; eauto.
Qed.

Lemma balance_phase_cap_ex : forall s c dt st0 tr st st' tr',
  CapCtx s c dt -> CapInv c dt st0 st ->
  balance_phase s c st tr = Some (st', tr') ->
  balance_phase_cap_excused s c dt st0 st tr = (true, (st', tr')).
Proof.
  intros s c dt st0 tr. induction tr as [|stp tr IH]; intros st st' tr' Hctx HI H.
  - cbn [balance_phase] in H. cbn [balance_phase_cap_excused]. destruct (bc_nodes c); [discriminate|].
    destruct (balance_terminal c st); [|discriminate]. inversion H; subst. reflexivity.
  - assert (forall (o : option (bstate * list step)),
              (o = match bc_nodes c with [] => None | _ => if balance_terminal c st then Some (st, stp :: tr) else None end) ->
              o = Some (st', tr') -> st' = st /\ tr' = stp :: tr) as Hfin.
    { intros o Ho Hs. subst o. destruct (bc_nodes c); [discriminate|].
      destruct (balance_terminal c st); [|discriminate]. inversion Hs; subst. auto. }
    cbn [balance_phase balance_phase_cap_excused] in *.
    destruct stp as [vid dt' from to| |];
      try (destruct (Hfin _ eq_refl H) as [-> ->]; reflexivity).
    destruct (existsb (fun x => (v_id x =? vid)%N) (b_sel st from)) eqn:Ein;
      [|destruct (Hfin _ eq_refl H) as [-> ->]; reflexivity].
    destruct (balance_step_ok c st vid dt' from to) eqn:Eok; [|discriminate].
    destruct (balance_step_cap_ex s c dt st0 st vid dt' from to Hctx HI Eok) as [Hc HI'].
    rewrite (IH _ _ _ Hctx HI' H). rewrite Hc. reflexivity.
Qed.

Theorem balance_run_cap_excused : forall limit s phs w tr w',
  NoDup (map n_id s) -> caps_nonneg s ->
  balance_phases limit s phs w tr = Some w' ->
  balance_cap_excused limit s phs w tr = true.
Proof.
  intros limit s phs. induction phs as [|ph phs IH]; intros w tr w' Hnd Hcap H; [reflexivity|].
  cbn [balance_phases balance_cap_excused] in *.
  set (c := mk_bctx limit s ph) in *. set (st0 := {| b_sel := init_sel limit s ph; b_w := w |}) in *.
  destruct (balance_phase s c st0 tr) as [[st tr']|] eqn:E; [|discriminate].
  assert (bc_nodes c <> []) as Hne by (eapply balance_phase_nodes; eauto).
  rewrite (balance_phase_cap_ex s c (ph_dt ph) st0 tr st0 st tr'); auto.
  - cbn [andb]. eapply IH; eauto.
  - apply mk_bctx_capctx; auto.
  - split; [reflexivity|]. intros n v Hv. apply (init_sel_dt limit s ph n v). exact Hv.
Qed.
