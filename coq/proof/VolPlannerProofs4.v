(* Proofs about model/VolPlanner.v (C15), part 4: volume.balance.
   Induction over the accepted plan of one balanceSelectedVolume phase. *)
From Coq Require Import List NArith ZArith Bool Arith Lia Permutation.
From SW Require Import model.VolPlanner proof.VolPlannerProofs proof.VolPlannerProofs2 proof.VolPlannerProofs3.
Import ListNotations.

(* ---------- small list facts ---------- *)
Lemma remove_vid_in : forall vid l x, NoDup (map v_id l) -> In x (remove_vid vid l) ->
  In x l /\ v_id x <> vid.
Proof.
  induction l as [|a l IH]; intros x Hnd Hin; [destruct Hin|].
  cbn [map] in Hnd. inversion Hnd as [|? ? Hn Hd]; subst.
  cbn [remove_vid] in Hin. destruct (N.eqb_spec (v_id a) vid) as [E|E].
  - split; [right; auto|]. intro Hx. apply Hn. rewrite E, <- Hx. apply in_map; auto.
  - destruct Hin as [<-|Hin]; [split; [left; auto|auto]|].
    destruct (IH x Hd Hin). split; [right; auto|auto].
Qed.

Lemma remove_vid_nodup : forall vid l, NoDup (map v_id l) -> NoDup (map v_id (remove_vid vid l)).
Proof.
  induction l as [|a l IH]; intros Hnd; auto.
  cbn [map] in Hnd. inversion Hnd as [|? ? Hn Hd]; subst.
  cbn [remove_vid]. destruct (v_id a =? vid)%N; auto.
  cbn [map]. constructor; auto. intro Hi. apply Hn.
  apply in_map_iff in Hi. destruct Hi as [x [E Hx]]. rewrite <- E.
  apply in_map. clear - Hx. induction l as [|b l IH]; [destruct Hx|].
  cbn [remove_vid] in Hx. destruct (v_id b =? vid)%N; [right; auto|].
  destruct Hx as [<-|Hx]; [left; auto|right; auto].
Qed.

Lemma remove_vid_length : forall vid l, In vid (map v_id l) ->
  S (length (remove_vid vid l)) = length l.
Proof.
  induction l as [|a l IH]; intros Hin; [destruct Hin|].
  cbn [remove_vid]. destruct (N.eqb_spec (v_id a) vid) as [E|E]; [reflexivity|].
  cbn [length]. f_equal. apply IH. destruct Hin as [Hin|Hin]; [contradiction|auto].
Qed.

Lemma find_vid_some : forall vid l v, find (fun x => (v_id x =? vid)%N) l = Some v ->
  In v l /\ v_id v = vid.
Proof. intros vid l v H. apply find_some in H. destruct H as [H1 H2]. apply N.eqb_eq in H2. auto. Qed.

Lemma same_node_same_replica : forall rs r1 r2, NoDup (map l_node (locs rs)) ->
  In r1 rs -> In r2 rs -> l_node (r_loc r1) = l_node (r_loc r2) -> r1 = r2.
Proof.
  intros rs r1 r2 Hnd H1 H2 E. unfold locs in Hnd. rewrite map_map in Hnd.
  apply (NoDup_map_inj (fun r => l_node (r_loc r)) rs); auto.
Qed.

(* ---------- invariants of a balancing phase ---------- *)
(* [P]: the volumes selected by this phase or an earlier one *)
Record BInv (s : snapshot) (P : vol -> bool) (st : bstate) : Prop := {
  bi_w : WInv s (b_w st);
  bi_n : NodesOk (b_w st);
  bi_sel : forall n v, In v (b_sel st n) ->
           In {| r_loc := loc_of s n; r_info := v |} (w_reps (b_w st) (v_id v));
  bi_nd : forall n, NoDup (map v_id (b_sel st n));
  bi_P : forall n v, In v (b_sel st n) -> P v = true;
  bi_src : forall n v, In v (b_sel st n) -> exists n0, In n0 s /\ In v (all_vols n0);
  bi_rest : forall n v, In n s -> In v (all_vols n) -> P v = false ->
            In {| r_loc := n_loc n; r_info := v |} (w_reps (b_w st) (v_id v)) }.

Definition CtxOk (s : snapshot) (c : bctx) : Prop :=
  forall nc, In nc (bc_nodes c) -> In (fst nc) (cl s).

Lemma find_cap_some : forall c id nc, find_cap c id = Some nc ->
  In nc (bc_nodes c) /\ l_node (fst nc) = id.
Proof. intros c id nc H. unfold find_cap in H. apply find_some in H. destruct H as [H1 H2]. apply N.eqb_eq in H2. auto. Qed.

Lemma no_rp_trig : forall s n v, trig_rp_xy s = false -> In n s -> In v (all_vols n) ->
  rp_trig (rp_of_byte (v_rp v)) = false.
Proof.
  intros s n v H Hn Hv. destruct (rp_trig (rp_of_byte (v_rp v))) eqn:E; auto.
  assert (trig_rp_xy s = true); [|congruence].
  unfold trig_rp_xy. apply existsb_exists. exists n. split; auto.
  apply existsb_exists. exists v. auto.
Qed.

(* one admitted step: safe, and the invariants survive *)
Lemma balance_step_safe : forall s P c st vid dt from to,
  NoDup (map n_id s) -> CtxOk s c -> BInv s P st ->
  balance_step_ok c st vid dt from to = true ->
  let stp := Move vid dt from to in
  ok_coloc (prop_step s (b_w st) stp) = true /\
  (trig_rp_xy s = false -> ok_pres (prop_step s (b_w st) stp) = true) /\
  BInv s P (balance_advance s st vid dt from to).
Proof.
  intros s P c st vid dt from to Hnd Hctx HI Hok stp.
  unfold balance_step_ok in Hok.
  destruct (find_cap c from) as [f|] eqn:Ef;
    destruct (find_cap c to) as [t|] eqn:Et;
    destruct (find (fun x => (v_id x =? vid)%N) (b_sel st from)) as [v|] eqn:Ev; try discriminate.
  apply find_cap_some in Ef. destruct Ef as [Hf Hfid]. apply find_cap_some in Et. destruct Et as [Ht Htid].
  pose proof (find_vid_some _ _ _ Ev) as [Hv Hvid].
  repeat (apply andb_true_iff in Hok; destruct Hok as [Hok ?]).
  match goal with H : bmovable st v (fst f) (fst t) = true |- _ => rename H into Hmov end.
  apply negb_true_iff in Hok. apply N.eqb_neq in Hok.
  assert (loc_of s from = fst f) as Efl by (rewrite <- Hfid; apply loc_of_cl; auto).
  assert (loc_of s to = fst t) as Etl by (rewrite <- Htid; apply loc_of_cl; auto).
  unfold bmovable, movable in Hmov. apply andb_true_iff in Hmov. destruct Hmov as [Hg Hnsel].
  destruct HI as [HW HN Hsel Hnds HP Hsrc Hrest].
  pose proof (Hsel from v Hv) as Hin.
  destruct (move_step_safe s (b_w st) dt from to v Hnd HW HN) as [Hc [Hp [HW' [HN' [Hmoved [Hkeep Hoth]]]]]]; auto.
  { rewrite Etl. apply Hctx; auto. }
  { unfold move_guard. rewrite Efl, Etl. exact Hg. }
  rewrite Hvid in *.
  split; [exact Hc|]. split.
  { intros Htr. apply Hp. destruct (Hsrc from v Hv) as [n0 [Hn0 Hv0]]. eapply no_rp_trig; eauto. }
  (* the invariants after adjustAfterMove *)
  unfold balance_advance. rewrite Ev.
  set (w' := apply_step s (b_w st) (Move vid dt from to)) in *.
  assert (forall x r, In r (w_reps (b_w st) x) -> (x <> vid \/ r_loc r <> loc_of s from) -> In r (w_reps w' x)) as HK.
  { intros x r Hr [Hx|Hl].
    - rewrite Hoth; auto.
    - destruct (N.eq_dec x vid) as [->|Hx]; [apply Hkeep; auto|rewrite Hoth; auto]. }
  assert (forall n, n <> from -> loc_of s n <> loc_of s from) as Hlocne.
  { intros n Hn E. apply Hn. rewrite <- (loc_of_node s n), E. apply loc_of_node. }
  constructor; cbn [b_sel b_w]; auto.
  - (* bi_sel *)
    intros n x Hx. destruct (N.eq_dec n to) as [->|Hnt].
    + rewrite upd1_eq in Hx. destruct Hx as [<-|Hx]; [rewrite Hvid; exact Hmoved|].
      apply HK; [apply Hsel; auto|right; apply Hlocne; auto].
    + rewrite upd1_neq in Hx; auto. destruct (N.eq_dec n from) as [->|Hnf].
      * rewrite upd1_eq in Hx. apply remove_vid_in in Hx; auto. destruct Hx as [Hx Hxv].
        apply HK; [apply Hsel; auto|left; auto].
      * rewrite upd1_neq in Hx; auto. apply HK; [apply Hsel; auto|right; apply Hlocne; auto].
  - (* bi_nd *)
    intros n. destruct (N.eq_dec n to) as [->|Hnt].
    + rewrite upd1_eq. cbn [map]. constructor; auto.
      intro Hi. apply negb_true_iff in Hnsel. rewrite Htid in Hnsel.
      assert (existsb (fun x => (v_id x =? vid)%N) (b_sel st to) = true); [|congruence].
      apply in_map_iff in Hi. destruct Hi as [x [E Hx]]. apply existsb_exists. exists x. split; auto.
      apply N.eqb_eq. congruence.
    + rewrite upd1_neq; auto. destruct (N.eq_dec n from) as [->|Hnf].
      * rewrite upd1_eq. apply remove_vid_nodup; auto.
      * rewrite upd1_neq; auto.
  - (* bi_P *)
    intros n x Hx. destruct (N.eq_dec n to) as [->|Hnt].
    + rewrite upd1_eq in Hx. destruct Hx as [<-|Hx]; eauto.
    + rewrite upd1_neq in Hx; auto. destruct (N.eq_dec n from) as [->|Hnf].
      * rewrite upd1_eq in Hx. apply remove_vid_in in Hx; auto. destruct Hx; eauto.
      * rewrite upd1_neq in Hx; eauto.
  - (* bi_src *)
    intros n x Hx. destruct (N.eq_dec n to) as [->|Hnt].
    + rewrite upd1_eq in Hx. destruct Hx as [<-|Hx]; eauto.
    + rewrite upd1_neq in Hx; auto. destruct (N.eq_dec n from) as [->|Hnf].
      * rewrite upd1_eq in Hx. apply remove_vid_in in Hx; auto. destruct Hx; eauto.
      * rewrite upd1_neq in Hx; eauto.
  - (* bi_rest *)
    intros n x Hn Hx HPx. pose proof (Hrest n x Hn Hx HPx) as Hr.
    apply HK; auto. destruct (N.eq_dec (v_id x) vid) as [Exv|Exv]; [right|left; auto].
    cbn [r_loc]. intro El.
    assert ({| r_loc := n_loc n; r_info := x |} = {| r_loc := loc_of s from; r_info := v |}) as Eq.
    { apply (same_node_same_replica (w_reps (b_w st) vid)).
      - apply HN.
      - rewrite <- Exv. exact Hr.
      - exact Hin.
      - cbn [r_loc]. rewrite El. reflexivity. }
    inversion Eq; subst x. rewrite (HP from v Hv) in HPx. discriminate.
Qed.

Lemma prop_trace_cons : forall s w st tr,
  prop_trace s w (st :: tr) = v4_and (prop_step s w st) (prop_trace s (apply_step s w st) tr).
Proof. reflexivity. Qed.

Lemma balance_advance_w : forall s st vid dt from to,
  existsb (fun x => (v_id x =? vid)%N) (b_sel st from) = true ->
  b_w (balance_advance s st vid dt from to) = apply_step s (b_w st) (Move vid dt from to).
Proof.
  intros. unfold balance_advance.
  destruct (find (fun x => (v_id x =? vid)%N) (b_sel st from)) eqn:E; [reflexivity|].
  exfalso. apply existsb_exists in H. destruct H as [x [H1 H2]].
  pose proof (find_none _ _ E x H1) as Hn. cbn beta in Hn. congruence.
Qed.

(* the whole phase *)
Lemma balance_phase_safe : forall s P c tr st st' tr',
  NoDup (map n_id s) -> CtxOk s c -> BInv s P st ->
  balance_phase s c st tr = Some (st', tr') ->
  exists used, tr = used ++ tr' /\ BInv s P st' /\ b_w st' = run_trace s (b_w st) used /\
    ok_coloc (prop_trace s (b_w st) used) = true /\
    (trig_rp_xy s = false -> ok_pres (prop_trace s (b_w st) used) = true).
Proof.
  intros s P c tr. induction tr as [|stp tr IH]; intros st st' tr' Hnd Hctx HI H.
  - cbn [balance_phase] in H. exists []. destruct (bc_nodes c); [discriminate|].
    destruct (balance_terminal c st); [|discriminate]. inversion H; subst. split; [reflexivity|]. split; [assumption|]. split; [reflexivity|]. split; [reflexivity|intros; reflexivity].
  - assert (forall (o : option (bstate * list step)),
              (o = match bc_nodes c with [] => None | _ => if balance_terminal c st then Some (st, stp :: tr) else None end) ->
              o = Some (st', tr') ->
              exists used, stp :: tr = used ++ tr' /\ BInv s P st' /\ b_w st' = run_trace s (b_w st) used /\
                ok_coloc (prop_trace s (b_w st) used) = true /\
                (trig_rp_xy s = false -> ok_pres (prop_trace s (b_w st) used) = true)) as Hfin.
    { intros o Ho Hs. subst o. destruct (bc_nodes c); [discriminate|].
      destruct (balance_terminal c st); [|discriminate]. inversion Hs; subst. exists []. split; [reflexivity|]. split; [assumption|]. split; [reflexivity|]. split; [reflexivity|intros; reflexivity]. }
    cbn [balance_phase] in H. destruct stp as [vid dt from to| |]; try (eapply Hfin; [reflexivity|exact H]).
    destruct (existsb (fun x => (v_id x =? vid)%N) (b_sel st from)) eqn:Ein; [|eapply Hfin; [reflexivity|exact H]].
    destruct (balance_step_ok c st vid dt from to) eqn:Eok; [|discriminate].
    destruct (balance_step_safe s P c st vid dt from to Hnd Hctx HI Eok) as [Hc [Hp HI']].
    destruct (IH _ _ _ Hnd Hctx HI' H) as [used [E [HI'' [Hw [Hc' Hp']]]]].
    rewrite balance_advance_w in Hw, Hc', Hp'; auto.
    exists (Move vid dt from to :: used). split; [cbn [app]; f_equal; auto|].
    split; auto. split; [cbn [run_trace]; auto|].
    rewrite prop_trace_cons. cbn [v4_and ok_coloc ok_pres]. split.
    + rewrite Hc, Hc'. reflexivity.
    + intros Htr. rewrite (Hp Htr), (Hp' Htr). reflexivity.
Qed.
