(* C36: further proofs about the event mapping (no panic, single-entry events
   about the watched directory itself) and about the labels of emitted events
   (finding 1). *)
From Coq Require Import List NArith ZArith Bool String Ascii Arith Lia.
From SW Require Import model.Repl proof.ReplProofs.
Import ListNotations.
Local Open Scope list_scope.

Local Arguments join : simpl never.
Local Arguments clean : simpl never.
Local Arguments drop : simpl never.
Local Arguments abs : simpl never.
Local Arguments render : simpl never.
Local Arguments String.length : simpl never.
Local Arguments child : simpl never.
Local Arguments under : simpl never.
Local Arguments lprefix : simpl never.
Local Arguments list_eqb : simpl never.
Local Arguments map_path : simpl never.
Local Arguments Nat.ltb : simpl never.

(* ---------- the rename onto the watched directory itself ---------- *)
(* the only events the mirror statement has to leave out *)
Definition root_move (c : config) (ev : event) : bool :=
  match ev_old ev, ev_new ev with
  | Some _, Some _ => touches_root c ev
  | _, _ => false
  end.

Lemma lprefix_snoc_self : forall (d : list string) x, lprefix (d ++ [x]) d = false.
Proof.
  intros d x. destruct (lprefix (d ++ [x]) d) eqn:L; [|reflexivity].
  apply lprefix_len in L. rewrite app_length in L. simpl in L. lia.
Qed.

Lemma lprefix_refl : forall s, lprefix s s = true.
Proof. intro s. rewrite <- (app_nil_r s) at 2. apply lprefix_app. Qed.

(* a create / delete event about the watched directory's own entry is ignored,
   as the reference says (the entry is not strictly inside) *)
Theorem sync_mirror_single : forall c ev,
  wf_config c = true -> wf_event ev = true -> incremental c = false ->
  (ev_old ev = None \/ ev_new ev = None) ->
  sync_process c ev = mirror_spec c ev.
Proof.
  intros c ev Hc He Hi Hone.
  destruct (touches_root c ev) eqn:Hroot; [|apply sync_mirror; auto].
  destruct (wf_config_inv c Hc) as [s [t [Ps [Pt [Es [Et [En [_ Etgt]]]]]]]].
  destruct (wf_event_inv ev He) as [Hd [Hold [Hnew Hsame]]].
  destruct (is_clean_abs_inv _ Hd) as [d [Pd [Ed Sd]]].
  unfold touches_root, old_key, new_key in Hroot. rewrite Es, Sd in Hroot.
  unfold sync_process, mirror_spec, build_key, inside. rewrite En, Sd, Es, Hi, Ed.
  rewrite under_abs by auto.
  destruct (ev_old ev) as [o|]; destruct (ev_new ev) as [n|]; simpl in Hold, Hnew, Hroot |- *.
  - destruct Hone; discriminate.
  - rewrite orb_false_r in Hroot. apply list_eqb_eq in Hroot. subst s.
    rewrite lprefix_snoc_self. simpl. rewrite Nat.ltb_irrefl, andb_false_r. reflexivity.
  - apply andb_true_iff in Hnew. destruct Hnew as [Pn Cp].
    apply String.eqb_eq in Hsame. rewrite <- Hsame, Sd in Hroot |- *. rewrite Ed.
    apply list_eqb_eq in Hroot. subst s.
    rewrite under_abs by auto. rewrite lprefix_snoc_self. simpl.
    rewrite Nat.ltb_irrefl, andb_false_r. reflexivity.
  - discriminate.
Qed.

Theorem sync_mirror_all : forall c ev,
  wf_config c = true -> wf_event ev = true -> incremental c = false ->
  root_move c ev = false ->
  sync_process c ev = mirror_spec c ev.
Proof.
  intros c ev Hc He Hi Hr. unfold root_move in Hr.
  destruct (ev_old ev) as [o|] eqn:Eo; [destruct (ev_new ev) as [n|] eqn:En|].
  - apply sync_mirror; auto.
  - apply sync_mirror_single; auto.
  - apply sync_mirror_single; auto.
Qed.

(* the slice-bounds panic of genProcessFunction needs a rename onto the watched
   directory itself *)
Theorem sync_no_panic : forall c ev,
  wf_config c = true -> wf_event ev = true -> root_move c ev = false ->
  is_panic (sync_process c ev) = false.
Proof.
  intros c ev Hc He Hr. destruct (incremental c) eqn:Hi.
  - unfold sync_process. rewrite Hi. simpl.
    destruct (negb _ && negb _); [reflexivity|].
    destruct (ev_old ev), (ev_new ev); simpl; repeat (match goal with |- context [if ?b then _ else _] => destruct b end; simpl); reflexivity.
  - rewrite sync_mirror_all by auto. unfold mirror_spec.
    destruct (ev_old ev), (ev_new ev); simpl; repeat (match goal with |- context [if ?b then _ else _] => destruct b end; simpl); reflexivity.
Qed.

(* ---------- the labels of emitted events (finding 1) ---------- *)
Definition emit_labels (op : emit_op) : list (list Z * bool) := map (emit_label op) (em_evs op).

(* FULL statement: every event emitted for a request carries the request's
   signatures and keeps the "replicated" flag *)
Definition emit_full : Prop :=
  forall op sg fl, In (sg, fl) (emit_labels op) -> emit_ok op sg fl = true.

Definition w_emit : emit_op :=
  {| em_self := 5%Z; em_kind := EDelete; em_top := "/data/a"; em_top2 := ""; em_sigs := [7%Z]; em_from_other := true;
     em_evs := [ {| m_key := "/data/a/b/g"; m_isdir := false; m_has_old := true; m_has_new := false; m_sigs := []; m_from_other := false |};
                 {| m_key := "/data/a/b"; m_isdir := true; m_has_old := true; m_has_new := false; m_sigs := []; m_from_other := false |};
                 {| m_key := "/data/a/f"; m_isdir := false; m_has_old := true; m_has_new := false; m_sigs := []; m_from_other := false |};
                 {| m_key := "/data/a"; m_isdir := true; m_has_old := true; m_has_new := false; m_sigs := []; m_from_other := false |} ] |}.

Theorem emit_full_refuted : ~ emit_full.
Proof.
  intro H. specialize (H w_emit [5%Z] true).
  assert (I : In ([5%Z], true) (emit_labels w_emit)) by (vm_compute; auto).
  specialize (H I). vm_compute in H. discriminate.
Qed.

Theorem emit_partial : forall op sg fl,
  emit_unsafe op = false -> In (sg, fl) (emit_labels op) -> emit_ok op sg fl = true.
Proof.
  intros op sg fl Hs Hin. unfold emit_labels in Hin. apply in_map_iff in Hin.
  destruct Hin as [m [Hm Hin]]. unfold emit_unsafe in Hs.
  destruct (emit_ok op sg fl) eqn:E; [reflexivity|].
  assert (X : existsb (fun m => let '(sg, fl) := emit_label op m in negb (emit_ok op sg fl)) (em_evs op) = true).
  { apply existsb_exists. exists m. split; auto. rewrite Hm, E. reflexivity. }
  congruence.
Qed.

(* the trigger is exactly the failure of the statement on that operation *)
Theorem emit_unsafe_exact : forall op,
  emit_unsafe op = true -> exists sg fl, In (sg, fl) (emit_labels op) /\ emit_ok op sg fl = false.
Proof.
  intros op H. unfold emit_unsafe in H. apply existsb_exists in H. destruct H as [m [Hin Hb]].
  destruct (emit_label op m) as [sg fl] eqn:E. exists sg, fl. split.
  - unfold emit_labels. apply in_map_iff. exists m. auto.
  - apply negb_true_iff in Hb. exact Hb.
Qed.

(* the part of the statement that holds for every request: the event of the
   named entry itself always carries the request's signatures and flag *)
Theorem emit_top_ok : forall op m,
  em_kind op <> ERename -> m_key m = em_top op ->
  emit_ok op (fst (emit_label op m)) (snd (emit_label op m)) = true.
Proof.
  intros op m Hk Ht. unfold emit_label, emit_ok, emitted_bare, emitted_flag. rewrite Ht, String.eqb_refl.
  assert (S : forallb (fun s => existsb (Z.eqb s) (with_self (em_self op) (em_sigs op))) (em_sigs op) = true).
  { apply forallb_forall. intros x Hx. apply existsb_exists. exists x. split; [|apply Z.eqb_refl].
    unfold with_self. destruct (existsb _ _); [auto|apply in_or_app; auto]. }
  destruct (em_kind op); simpl; try congruence; rewrite S; simpl; apply orb_negb_l.
Qed.

(* the consequence for two-way filer.sync: filer B applies a recursive delete
   that came from filer A (signature 7); the event B emits for a child carries
   only B's signature, so the sync back to A (target signature 7) applies it *)
Theorem echo_after_recursive_delete :
  exists c ev,
    In (target_sig c) (em_sigs w_emit) /\ target_sig c <> 0%Z /\
    ev_sigs ev = fst (emit_label w_emit (nth 2 (em_evs w_emit) (nth 0 (em_evs w_emit) (Build_emitted "" false false false [] false)))) /\
    sync_filtered c ev <> Nothing.
Proof.
  exists {| src := "/data"; tgt := "/data"; incremental := false; sink_is_filer := true; target_sig := 7%Z |}.
  exists {| ev_dir := "/data/a"; ev_old := Some {| e_name := "f"; e_isdir := false; e_date := "2021-03-04"; e_data := [] |}; ev_new := None;
            ev_new_parent := ""; ev_delete_chunks := true; ev_from_other := true; ev_sigs := [5%Z] |}.
  split; [vm_compute; auto|]. split; [discriminate|]. split; [vm_compute; reflexivity|].
  vm_compute. discriminate.
Qed.
