(* C22: without the trigger hypothesis the property fails in the faithful model (and in the
   Go code: the same schedule is case 1 of the correspondence harness). *)
From Coq Require Import List ZArith NArith Bool Lia.
From SW Require Import model.LogBuf proof.LogBufProofs proof.LogBufInv proof.LogBufSteps
  proof.LogBufMain proof.LogBufSafety.
Import ListNotations.
Local Open Scope Z_scope.

Definition far_iv : Z := 1000000000000000.

(* The schedule that exposed the (repaired) SealBuffer aliasing: 100-byte buffers, 10
   records of 32 bytes (3 per buffer), no flush completes.  Three sealed, unflushed buffers
   still fit the ring: no trigger, and the subscriber starts with records 1, 2, 3. *)
Definition witness_alias : list op :=
  map (fun i => Add (1000 + 10 * Z.of_nat i) 28 (N.of_nat (S i))) (seq 0 10) ++ [SubStep; SubStep].

Lemma witness_alias_ok :
  run_trig far_iv true (sys0 100 0) witness_alias = None /\
  map e_id (got (subs (run far_iv true (sys0 100 0) witness_alias))) = [1; 2; 3]%N.
Proof. vm_compute. split; reflexivity. Qed.

(* finding 0: four seals while no flush completes push the first sealed buffer out of the
   3-slot ring.  (Records larger than the buffer: one record per buffer, a fresh array each
   time.)  Record 1 is never delivered although everything is flushed afterwards and the
   subscriber catches up. *)
Definition witness_evict : list op :=
  [Add 1000 167 1; Add 1010 167 2; Add 1020 167 3; Add 1030 417 4; Add 1040 417 5;
   SubStep; SubStep; SubStep;
   FlushWrite; FlushMark; FlushWrite; FlushMark; FlushWrite; FlushMark; FlushWrite; FlushMark;
   SubStep; SubStep; SubStep].

Lemma wf_witness_evict : ops_wf witness_evict.
Proof. unfold witness_evict. repeat constructor. Qed.

Lemma trig_witness_evict : run_trig far_iv true (sys0 100 0) witness_evict = Some 0%N.
Proof. vm_compute. reflexivity. Qed.

Lemma got_witness_evict :
  map e_id (got (subs (run far_iv true (sys0 100 0) witness_evict))) = [2; 3; 4; 5]%N /\
  map e_id (run_events far_iv true (sys0 100 0) witness_evict) = [1; 2; 3; 4; 5]%N.
Proof. vm_compute. split; reflexivity. Qed.

Theorem no_skip_refuted : exists iv c t0 ops,
  0 <= t0 /\ ops_wf ops /\
  ~ exists rest, filter (later t0) (run_events iv true (sys0 c t0) ops)
                 = got (subs (run iv true (sys0 c t0) ops)) ++ rest.
Proof.
  exists far_iv, 100, 0, witness_evict. split; [lia|]. split; [exact wf_witness_evict|].
  intros [rest H]. vm_compute in H. inversion H.
Qed.

(* ---- flushFn = nil (the aggregated buffer of MetaAggregator) ----
   copyToFlush then sets lastFlushTime := stopTime at once, nothing is handed to any flush
   function, and a reader that is behind the last seal is sent to "disk" for ever: with the
   buffer's own flushed data as the persisted log (empty), it never receives the sealed
   events, however many steps it takes.  No trigger of finding 0 is involved. *)
Definition witness_nilflush : list op := [Add 1000 28 1; Seal; SubStep; SubStep].

Lemma run_repeat_fix : forall iv hf y o n, step iv hf y o = y -> run iv hf y (repeat o n) = y.
Proof.
  intros iv hf y o n H. induction n as [|n IH]; [reflexivity|].
  cbn [repeat run]. rewrite H. exact IH.
Qed.

Theorem nil_flush_stuck :
  ops_wf witness_nilflush /\
  run_trig far_iv false (sys0 100 0) witness_nilflush = None /\
  map e_id (filter (later 0) (run_events far_iv false (sys0 100 0) witness_nilflush)) = [1%N] /\
  forall n, got (subs (run far_iv false (sys0 100 0) (witness_nilflush ++ repeat SubStep n))) = [].
Proof.
  split; [repeat constructor|]. split; [vm_compute; reflexivity|]. split; [vm_compute; reflexivity|].
  intros n.
  assert (Hr : forall a b, run far_iv false (sys0 100 0) (a ++ b)
                           = run far_iv false (run far_iv false (sys0 100 0) a) b).
  { intros a. generalize (sys0 100 0). induction a as [|o a IH]; intros y b; [reflexivity|].
    cbn [app run]. apply IH. }
  rewrite Hr. rewrite run_repeat_fix; [vm_compute; reflexivity|vm_compute; reflexivity].
Qed.

(* non-vacuity of the partial theorems: a schedule with timestamp adjustment, size rotation,
   an interval seal, a lagging flush and a subscriber starting in the middle stays outside
   the trigger, and the subscriber gets records 3..8 *)
Definition example_ops : list op :=
  [Add 1000 26 1; Add 1000 26 2; Add 990 26 3; Add 1020 26 4; SubStep; SubStep;
   Add 1030 26 5; Seal; FlushWrite; Add 1040 26 6; SubLoop; FlushMark; SubStep;
   FlushWrite; FlushMark; Add 1050 26 7; Add 1060 26 8; SubStep; SubStep; SubLoop].
Lemma example_ok :
  ops_wf example_ops /\ run_trig 1000000 true (sys0 100 1001) example_ops = None /\
  map e_ts (run_events 1000000 true (sys0 100 1001) example_ops) = [1000; 1001; 1002; 1020; 1030; 1040; 1050; 1060] /\
  map e_id (got (subs (run 1000000 true (sys0 100 1001) example_ops))) = [3; 4; 5; 6; 7; 8]%N.
Proof. split; [repeat constructor|]. vm_compute. repeat split; reflexivity. Qed.
