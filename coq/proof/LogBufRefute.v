(* C22: without the trigger hypothesis the property fails in the faithful model (and in the
   Go code: the same schedule is case 1 of the correspondence harness). *)
From Coq Require Import List ZArith NArith Bool Lia.
From SW Require Import model.LogBuf proof.LogBufProofs proof.LogBufInv proof.LogBufSteps
  proof.LogBufMain proof.LogBufSafety.
Import ListNotations.
Local Open Scope Z_scope.

Definition far_iv : Z := 1000000000000000.

(* The schedule that exposed the (repaired) SealBuffer aliasing: 100-byte buffers, 10
   records of 32 bytes (3 per buffer), no flush completes.  Three sealed, unflushed buffers
   still fit the ring: no trigger, and the subscriber starts with records 1, 2, 3. *)
Definition witness_alias : list op :=
  map (fun i => Add (1000 + 10 * Z.of_nat i) 28 (N.of_nat (S i))) (seq 0 10) ++ [SubStep; SubStep].

Lemma witness_alias_ok :
  run_trig far_iv true (sys0 100 0) witness_alias = None /\
  map e_id (got (subs (run far_iv true (sys0 100 0) witness_alias))) = [1; 2; 3]%N.
Proof. vm_compute. split; reflexivity. Qed.

(* finding 0: four seals while no flush completes push the first sealed buffer out of the
   3-slot ring.  (Records larger than the buffer: one record per buffer, a fresh array each
   time.)  Record 1 is never delivered although everything is flushed afterwards and the
   subscriber catches up. *)
Definition witness_evict : list op :=
  [Add 1000 167 1; Add 1010 167 2; Add 1020 167 3; Add 1030 417 4; Add 1040 417 5;
   SubStep; SubStep; SubStep;
   FlushWrite; FlushMark; FlushWrite; FlushMark; FlushWrite; FlushMark; FlushWrite; FlushMark;
   SubStep; SubStep; SubStep].

Lemma wf_witness_evict : ops_wf witness_evict.
Proof. unfold witness_evict. repeat constructor. Qed.

Lemma trig_witness_evict : run_trig far_iv true (sys0 100 0) witness_evict = Some 0%N.
Proof. vm_compute. reflexivity. Qed.

Lemma got_witness_evict :
  map e_id (got (subs (run far_iv true (sys0 100 0) witness_evict))) = [2; 3; 4; 5]%N /\
  map e_id (run_events far_iv true (sys0 100 0) witness_evict) = [1; 2; 3; 4; 5]%N.
Proof. vm_compute. split; reflexivity. Qed.

Theorem no_skip_refuted : exists iv c t0 ops,
  0 <= t0 /\ ops_wf ops /\
  ~ exists rest, filter (later t0) (run_events iv true (sys0 c t0) ops)
                 = got (subs (run iv true (sys0 c t0) ops)) ++ rest.
Proof.
  exists far_iv, 100, 0, witness_evict. split; [lia|]. split; [exact wf_witness_evict|].
  intros [rest H]. vm_compute in H. inversion H.
Qed.
