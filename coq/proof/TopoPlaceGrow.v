(* Proofs about the second half of model/TopoPlace.v (C10): VolumeGrowth.grow / findAndGrow,
   the positivity of every rand.Int63n argument, and the success condition [all_paths_ok]. *)
From Coq Require Import String List ZArith Bool Arith Lia Permutation.
From SW Require Import model.TopoPlace proof.TopoPlaceProofs.
Import ListNotations.
Local Open Scope Z_scope.

(* ================================================================== *)
(* 1. grow                                                             *)
(* ================================================================== *)
Lemma grow_by_first_fail : forall ss fl,
  grow fl ss = match first_fail fl with
               | Some i => if Nat.ltb i (length ss) then (firstn i ss, true) else (ss, false)
               | None => (ss, false)
               end.
Proof.
  induction ss as [|s ss IH]; intro fl.
  - simpl. destruct (first_fail fl) as [i|]; reflexivity.
  - destruct fl as [|b fl].
    + simpl. rewrite (IH []). simpl. reflexivity.
    + destruct b.
      * reflexivity.
      * cbn [grow hd tl first_fail]. rewrite (IH fl).
        destruct (first_fail fl) as [i|]; cbn [option_map]; [|reflexivity].
        change (Nat.ltb (S i) (length (s :: ss))) with (Nat.ltb i (length ss)).
        destruct (Nat.ltb i (length ss)); reflexivity.
Qed.

(* success of grow means every chosen server was allocated, for every fail plan *)
Lemma grow_ok_all : forall fl ss a, grow fl ss = (a, false) -> a = ss.
Proof.
  intros fl ss a H. rewrite grow_by_first_fail in H.
  destruct (first_fail fl) as [i|]; [destruct (Nat.ltb i (length ss))|]; congruence.
Qed.

Lemma grow_allocated_prefix : forall fl ss a e, grow fl ss = (a, e) -> exists k, a = firstn k ss.
Proof.
  intros fl ss a e H. rewrite grow_by_first_fail in H.
  destruct (first_fail fl) as [i|]; [destruct (Nat.ltb i (length ss))|]; inversion H as [[Ha He]].
  - exists i. reflexivity.
  - eexists. symmetry. apply firstn_all.
  - eexists. symmetry. apply firstn_all.
Qed.

(* findAndGrow without error: the new volume is on exactly the servers of a valid placement *)
Theorem find_and_grow_success_thm : forall orc fl t o,
  wf_topology t = true -> gr_err (find_and_grow orc fl t o) = false ->
  gr_allocated (find_and_grow orc fl t o) = gr_found (find_and_grow orc fl t o) /\
  placement_ok t o (gr_allocated (find_and_grow orc fl t o)) = true /\
  gr_topo (find_and_grow orc fl t o) =
    fold_left (add_volume (go_disk o)) (gr_found (find_and_grow orc fl t o)) t.
Proof.
  intros orc fl t o Hwf. unfold find_and_grow.
  destruct (find_empty_slots orc t o) as [ss e] eqn:E. destruct e; [simpl; discriminate|].
  destruct (grow fl ss) as [a ge] eqn:G. simpl. intro He. subst ge.
  apply grow_ok_all in G. subst a. split; [reflexivity|]. split; [|reflexivity].
  eapply find_empty_slots_placement; eauto.
Qed.

(* "all or none" outside the trigger of known finding 0: an error leaves nothing behind *)
Theorem find_and_grow_partial_thm : forall orc fl t o,
  wf_topology t = true -> trigger_partial_grow fl o = false ->
  gr_err (find_and_grow orc fl t o) = true ->
  gr_allocated (find_and_grow orc fl t o) = [] /\ gr_topo (find_and_grow orc fl t o) = t.
Proof.
  intros orc fl t o Hwf Htr. unfold find_and_grow.
  destruct (find_empty_slots orc t o) as [ss e] eqn:E. destruct e; [simpl; auto|].
  pose proof (find_empty_slots_placement orc t o ss Hwf E) as P.
  unfold placement_ok in P. apply andb_prop in P. destruct P as [P _].
  apply andb_prop in P. destruct P as [P _]. apply andb_prop in P. destruct P as [P _].
  apply Nat.eqb_eq in P.
  rewrite grow_by_first_fail. unfold trigger_partial_grow, copy_count in Htr.
  destruct (first_fail fl) as [i|]; [|simpl; discriminate].
  rewrite P.
  destruct (Nat.ltb i (1 + rp_dc o + rp_rack o + rp_same o)) eqn:Ei; [|simpl; discriminate].
  rewrite andb_true_r in Htr. apply Nat.ltb_ge in Htr.
  assert (i = O) by lia. subst i. simpl. auto.
Qed.

(* known finding 0: the second of two AllocateVolume calls is refused *)
Definition gw_node (id : string) : dnode := {| n_id := id; n_usage := [(""%string, mkCounts 0 0 0 0 2)] |}.
Definition gw_topo : topology :=
  {| t_usage := [(""%string, mkCounts 0 0 0 0 4)];
     t_dcs := [ {| d_id := "dc1"; d_usage := [(""%string, mkCounts 0 0 0 0 4)];
                   d_racks := [ {| r_id := "r1"; r_usage := [(""%string, mkCounts 0 0 0 0 4)];
                                   r_nodes := [gw_node "n1"; gw_node "n2"] |} ] |} ] |}.
Definition gw_opt : grow_option :=
  {| go_disk := ""; go_dc := ""; go_rack := ""; go_node := ""; rp_dc := 0; rp_rack := 0; rp_same := 1 |}.
Definition gw_oracle : oracle :=
  {| o_dc_order := []; o_dc_rs := []; o_rack_order := []; o_rack_rs := []; o_node_order := [];
     o_node_rs := []; o_other_racks := []; o_other_dcs := [] |}.

Theorem find_and_grow_all_or_none_refuted_thm :
  exists orc fl t o,
    wf_topology t = true /\ trigger_partial_grow fl o = true /\
    gr_err (find_and_grow orc fl t o) = true /\
    gr_allocated (find_and_grow orc fl t o) = [("dc1", "r1", "n1")%string] /\
    length (gr_found (find_and_grow orc fl t o)) = 2%nat /\
    node_counts (gr_topo (find_and_grow orc fl t o)) "" ("dc1", "r1", "n1")%string = Some (mkCounts 1 0 1 0 2) /\
    node_counts (gr_topo (find_and_grow orc fl t o)) "" ("dc1", "r1", "n2")%string = Some (mkCounts 0 0 0 0 2).
Proof.
  exists gw_oracle, [false; true], gw_topo, gw_opt. vm_compute. repeat split; reflexivity.
Qed.

(* non-vacuity of the partial theorem: an error with the trigger off (first call refused) *)
Lemma find_and_grow_partial_example :
  wf_topology gw_topo = true /\ trigger_partial_grow [true] gw_opt = false /\
  gr_err (find_and_grow gw_oracle [true] gw_topo gw_opt) = true /\
  gr_err (find_and_grow gw_oracle [] gw_topo gw_opt) = false /\
  length (gr_allocated (find_and_grow gw_oracle [] gw_topo gw_opt)) = 2%nat.
Proof. vm_compute. repeat split; reflexivity. Qed.

(* ================================================================== *)
(* 2. rand.Int63n never gets 0                                         *)
(* ================================================================== *)
Theorem int63n_args_positive_thm : forall orc t o, int63n_args_positive orc t o = true.
Proof.
  intros orc t o. unfold int63n_args_positive.
  destruct (pick_nodes (avail_dc o) _ _ _ _ (t_dcs t)) as [[mdc odcs]|] eqn:Pd; [|reflexivity].
  pose proof (pick_nodes_members _ _ _ _ _ _ _ _ Pd) as Md.
  apply andb_true_intro. split.
  - apply forallb_forall. intros dc Hdc. apply Z.ltb_lt. apply Md. right. exact Hdc.
  - destruct (pick_nodes (avail_rack o) _ _ _ _ (d_racks mdc)) as [[mrk orks]|] eqn:Pr; [|reflexivity].
    pose proof (pick_nodes_members _ _ _ _ _ _ _ _ Pr) as Mr.
    apply forallb_forall. intros rk Hrk. apply Z.ltb_lt. apply Mr. right. exact Hrk.
Qed.

(* ================================================================== *)
(* 3. the success condition all_paths_ok                               *)
(* ================================================================== *)
Lemma first_passing_none : forall A (filt : A -> bool) l k,
  first_passing filt l k = None -> forall x, In x l -> filt x = false.
Proof.
  induction l as [|y l IH]; intros k H x Hin; simpl in *; [contradiction|].
  destruct (filt y) eqn:E; [discriminate|].
  destruct Hin as [Hin|Hin]; [subst; exact E|eapply IH; eauto].
Qed.

(* PickNodesByWeight fails only if pick_fails, whatever the map order and random numbers *)
Lemma pick_nodes_some : forall A (avail : A -> Z) order rs number filt children,
  pick_fails avail number filt children = false ->
  exists first rest, pick_nodes avail order rs number filt children = Some (first, rest).
Proof.
  intros A avail order rs number filt children H.
  unfold pick_fails in H. apply orb_false_elim in H. destruct H as [H1 H2].
  apply negb_false_iff in H2.
  assert (Hp : Permutation (candidates avail order children) (filter (fun c => 0 <? avail c) children)).
  { unfold candidates. apply Permutation_filter. apply permute_perm. }
  unfold pick_nodes. rewrite (Permutation_length Hp). rewrite H1.
  destruct (first_passing filt (sorted_candidates avail order rs children) 0) as [[k x]|] eqn:Ef; [eauto|].
  exfalso. apply existsb_exists in H2. destruct H2 as [x [Hx Fx]].
  assert (Hin : In x (sorted_candidates avail order rs children)).
  { eapply Permutation_in; [apply Permutation_sym; eapply perm_trans; [apply sorted_candidates_perm|exact Hp]|exact Hx]. }
  rewrite (first_passing_none _ _ _ _ Ef x Hin) in Fx. discriminate.
Qed.

Lemma sum_pos_perm : forall A (avail : A -> Z) l l', Permutation l l' -> sum_pos avail l = sum_pos avail l'.
Proof.
  intros A avail l l' H. unfold sum_pos. induction H; cbn [fold_right]; lia.
Qed.

Lemma reserve_in_rack_succeeds : forall o nodes r,
  0 <= r < sum_pos (avail_node o) nodes -> exists n, reserve_in_rack o r nodes = Some n.
Proof.
  induction nodes as [|n ns IH]; intros r Hr; unfold sum_pos in *; cbn [fold_right reserve_in_rack] in *; [lia|].
  destruct (avail_node o n <=? 0) eqn:E1.
  - apply Z.leb_le in E1. apply IH. lia.
  - apply Z.leb_gt in E1. destruct (avail_node o n <=? r) eqn:E2.
    + apply Z.leb_le in E2. apply IH. lia.
    + eauto.
Qed.

Lemma reserve_in_dc_succeeds : forall o racks r orders,
  (forall rk, In rk racks -> avail_rack o rk <= sum_pos (avail_node o) (r_nodes rk)) ->
  0 <= r < sum_pos (avail_rack o) racks -> exists p, reserve_in_dc o r racks orders = Some p.
Proof.
  induction racks as [|rk rs IH]; intros r orders Hs Hr.
  - unfold sum_pos in Hr. cbn [fold_right] in Hr. lia.
  - assert (Hr' : 0 <= r < Z.max 0 (avail_rack o rk) + sum_pos (avail_rack o) rs) by exact Hr.
    cbn [reserve_in_dc].
    assert (Hs' : forall rk0, In rk0 rs -> avail_rack o rk0 <= sum_pos (avail_node o) (r_nodes rk0))
      by (intros; apply Hs; right; assumption).
    destruct (avail_rack o rk <=? 0) eqn:E1.
    + apply Z.leb_le in E1. apply IH; [exact Hs'|lia].
    + apply Z.leb_gt in E1. destruct (avail_rack o rk <=? r) eqn:E2.
      * apply Z.leb_le in E2. apply IH; [exact Hs'|lia].
      * apply Z.leb_gt in E2.
        destruct (reserve_in_rack_succeeds o (permute (hd [] orders) (r_nodes rk)) r) as [n Hn].
        { rewrite (sum_pos_perm _ (avail_node o) _ _ (permute_perm _ (hd [] orders) (r_nodes rk))).
          pose proof (Hs rk (or_introl eq_refl)). lia. }
        rewrite Hn. eauto.
Qed.

Lemma reserve_racks_succeeds : forall o dc racks acc os,
  (forall rk, In rk racks -> 0 < avail_rack o rk /\ avail_rack o rk <= sum_pos (avail_node o) (r_nodes rk)) ->
  snd (reserve_racks o dc acc racks os) = false.
Proof.
  induction racks as [|rk rs IH]; intros acc os H; cbn [reserve_racks]; [reflexivity|].
  destruct (H rk (or_introl eq_refl)) as [Hp Hs].
  set (ro := hd default_rack_oracle os).
  destruct (reserve_in_rack_succeeds o (permute (ro_nodes ro) (r_nodes rk)) (Z.modulo (ro_r ro) (avail_rack o rk))) as [n Hn].
  { rewrite (sum_pos_perm _ (avail_node o) _ _ (permute_perm _ (ro_nodes ro) (r_nodes rk))).
    pose proof (Z.mod_pos_bound (ro_r ro) _ Hp). lia. }
  rewrite Hn. apply IH. intros; apply H; right; assumption.
Qed.

Lemma reserve_dcs_succeeds : forall o dcs acc os,
  (forall dc, In dc dcs -> 0 < avail_dc o dc /\ avail_dc o dc <= sum_pos (avail_rack o) (d_racks dc) /\
     forall rk, In rk (d_racks dc) -> avail_rack o rk <= sum_pos (avail_node o) (r_nodes rk)) ->
  snd (reserve_dcs o acc dcs os) = false.
Proof.
  induction dcs as [|dc ds IH]; intros acc os H; cbn [reserve_dcs]; [reflexivity|].
  destruct (H dc (or_introl eq_refl)) as [Hp [Hs Hr]].
  set (d := hd default_dc_oracle os).
  destruct (reserve_in_dc_succeeds o (permute (do_racks d) (d_racks dc)) (Z.modulo (do_r d) (avail_dc o dc)) (do_nodes d)) as [[rk n] Hn].
  { intros rk Hrk. apply Hr. eapply Permutation_in; [apply permute_perm|exact Hrk]. }
  { rewrite (sum_pos_perm _ (avail_rack o) _ _ (permute_perm _ (do_racks d) (d_racks dc))).
    pose proof (Z.mod_pos_bound (do_r d) _ Hp). lia. }
  rewrite Hn. apply IH. intros; apply H; right; assumption.
Qed.

Lemma counters_sound_spec : forall t o, counters_sound t o = true ->
  forall dc, In dc (t_dcs t) ->
    avail_dc o dc <= sum_pos (avail_rack o) (d_racks dc) /\
    forall rk, In rk (d_racks dc) -> avail_rack o rk <= sum_pos (avail_node o) (r_nodes rk).
Proof.
  intros t o H dc Hdc. unfold counters_sound in H. rewrite forallb_forall in H.
  specialize (H dc Hdc). apply andb_prop in H. destruct H as [H1 H2].
  split; [apply Z.leb_le; exact H1|].
  intros rk Hrk. rewrite forallb_forall in H2. apply Z.leb_le. apply H2. exact Hrk.
Qed.

(* completeness: under the decidable condition the search succeeds for every oracle *)
Theorem all_paths_ok_success_thm : forall orc t o,
  wf_topology t = true -> all_paths_ok t o = true -> snd (find_empty_slots orc t o) = false.
Proof.
  intros orc t o Hwf H. destruct (wf_topology_spec t Hwf) as [Wd Wr].
  unfold all_paths_ok in H. apply andb_prop in H. destruct H as [H H3].
  apply andb_prop in H. destruct H as [H1 H2]. apply negb_true_iff in H2.
  pose proof (counters_sound_spec _ _ H1) as CS.
  rewrite forallb_forall in H3.
  unfold find_empty_slots.
  destruct (pick_nodes_some _ (avail_dc o) (o_dc_order orc) (o_dc_rs orc) _ _ _ H2) as [mdc [odcs Pd]].
  rewrite Pd.
  pose proof Pd as Pd'. apply pick_nodes_ok in Pd'; [|eapply NoDup_map_inv; exact Wd|lia].
  destruct Pd' as [Fd [_ [_ Md]]].
  destruct (Md mdc (or_introl eq_refl)) as [Hmdc Amdc].
  pose proof (H3 mdc Hmdc) as H3m. apply Z.ltb_lt in Amdc. rewrite Amdc, Fd in H3m. cbn [andb] in H3m.
  apply andb_prop in H3m. destruct H3m as [H4 H5]. apply negb_true_iff in H4.
  destruct (pick_nodes_some _ (avail_rack o) (o_rack_order orc) (o_rack_rs orc) _ _ _ H4) as [mrk [orks Pr]].
  rewrite Pr.
  destruct (Wr mdc Hmdc) as [Wr1 Wn].
  pose proof Pr as Pr'. apply pick_nodes_ok in Pr'; [|eapply NoDup_map_inv; exact Wr1|lia].
  destruct Pr' as [Fr [_ [_ Mr]]].
  destruct (Mr mrk (or_introl eq_refl)) as [Hmrk Amrk].
  rewrite forallb_forall in H5. pose proof (H5 mrk Hmrk) as H5m.
  apply Z.ltb_lt in Amrk. rewrite Amrk, Fr in H5m. cbn [andb] in H5m. apply negb_true_iff in H5m.
  destruct (pick_nodes_some _ (avail_node o) (o_node_order orc) (o_node_rs orc) _ _ _ H5m) as [mn [ons Pn]].
  rewrite Pn.
  destruct (CS mdc Hmdc) as [_ CSr].
  pose proof (reserve_racks_succeeds o mdc orks (srv mdc mrk mn :: map (srv mdc mrk) ons) (o_other_racks orc)) as RR.
  destruct (reserve_racks o mdc _ orks _) as [ss1 e1].
  simpl in RR. rewrite RR.
  - apply reserve_dcs_succeeds. intros dc Hdc. destruct (Md dc (or_intror Hdc)) as [Hin Ha].
    destruct (CS dc Hin) as [C1 C2]. auto.
  - intros rk Hrk. destruct (Mr rk (or_intror Hrk)) as [Hin Ha]. split; [exact Ha|apply CSr; exact Hin].
Qed.

(* the condition holds on a 2-DC tree with replication 110, and the model indeed succeeds *)
Definition cp_node (id : string) (vol max : Z) : dnode :=
  {| n_id := id; n_usage := [(""%string, mkCounts vol 0 vol 0 max)] |}.
Definition cp_topo : topology :=
  {| t_usage := [];
     t_dcs := [ {| d_id := "dc1"; d_usage := [(""%string, mkCounts 1 0 1 0 6)];
                   d_racks := [ {| r_id := "r1"; r_usage := [(""%string, mkCounts 1 0 1 0 3)];
                                   r_nodes := [cp_node "n1" 1 2; cp_node "n2" 0 1] |};
                                {| r_id := "r2"; r_usage := [(""%string, mkCounts 0 0 0 0 3)];
                                   r_nodes := [cp_node "n1" 0 3] |} ] |};
                {| d_id := "dc2"; d_usage := [(""%string, mkCounts 0 0 0 0 2)];
                   d_racks := [ {| r_id := "r1"; r_usage := [(""%string, mkCounts 0 0 0 0 2)];
                                   r_nodes := [cp_node "n1" 0 2] |} ] |} ] |}.
Definition cp_opt : grow_option :=
  {| go_disk := ""; go_dc := "dc1"; go_rack := ""; go_node := ""; rp_dc := 1; rp_rack := 1; rp_same := 0 |}.
Lemma all_paths_ok_example :
  wf_topology cp_topo = true /\ all_paths_ok cp_topo cp_opt = true /\
  length (fst (find_empty_slots gw_oracle cp_topo cp_opt)) = 3%nat.
Proof. vm_compute. repeat split; reflexivity. Qed.

(* ================================================================== *)
(* 4. examples used by props/C10.v                                     *)
(* ================================================================== *)
Definition ex_node (id : string) (vol max ec : Z) : dnode :=
  {| n_id := id; n_usage := [(""%string, mkCounts vol 0 vol ec max)] |}.
Definition ex_topo : topology :=
  {| t_usage := [];
     t_dcs := [ {| d_id := "dc1"; d_usage := [(""%string, mkCounts 3 0 3 0 12)];
                   d_racks := [ {| r_id := "r1"; r_usage := [(""%string, mkCounts 1 0 1 0 6)];
                                   r_nodes := [ex_node "n1" 1 3 0; ex_node "n2" 0 3 0] |};
                                {| r_id := "r2"; r_usage := [(""%string, mkCounts 2 0 2 0 6)];
                                   r_nodes := [ex_node "n1" 2 3 0; ex_node "n2" 0 3 0] |} ] |};
                {| d_id := "dc2"; d_usage := [(""%string, mkCounts 0 0 0 0 2)];
                   d_racks := [ {| r_id := "r1"; r_usage := [(""%string, mkCounts 0 0 0 0 2)];
                                   r_nodes := [ex_node "n1" 0 2 0] |} ] |} ] |}.
Definition ex_opt : grow_option :=
  {| go_disk := ""; go_dc := "dc1"; go_rack := ""; go_node := ""; rp_dc := 1; rp_rack := 1; rp_same := 1 |}.
Definition ex_oracle : oracle :=
  {| o_dc_order := [1%nat]; o_dc_rs := [5]; o_rack_order := [1%nat]; o_rack_rs := [7; 1];
     o_node_order := []; o_node_rs := [2]; o_other_racks := [{| ro_r := 4; ro_nodes := [1%nat] |}];
     o_other_dcs := [{| do_r := 1; do_racks := []; do_nodes := [] |}] |}.

(* the hypotheses of c10_placement are satisfiable on a 2-DC topology with replication 111,
   and the model returns 4 servers *)
Lemma placement_example :
  wf_topology ex_topo = true /\
  exists ss, find_empty_slots ex_oracle ex_topo ex_opt = (ss, false) /\ length ss = 4%nat.
Proof. split; [vm_compute; reflexivity|eexists; split; vm_compute; reflexivity]. Qed.

(* the greedy algorithm can fail although a placement exists: a rack whose own counter hides
   (EC-shard term) that its nodes are full makes ReserveOneVolume fail after the main rack was
   chosen; the result is an error carrying the partial list *)
Definition ex_ec_topo : topology :=
  {| t_usage := [];
     t_dcs := [ {| d_id := "dc1"; d_usage := [(""%string, mkCounts 1 0 1 15 10)];
                   d_racks := [ {| r_id := "r1"; r_usage := [(""%string, mkCounts 1 0 1 0 4)];
                                   r_nodes := [ex_node "n1" 0 2 0; ex_node "n2" 1 2 0] |};
                                {| r_id := "r2"; r_usage := [(""%string, mkCounts 0 0 0 15 6)];
                                   r_nodes := [ex_node "n1" 0 2 5; ex_node "n2" 0 2 5; ex_node "n3" 0 2 5] |} ] |} ] |}.
Definition ex_ec_opt : grow_option :=
  {| go_disk := ""; go_dc := ""; go_rack := "r1"; go_node := ""; rp_dc := 0; rp_rack := 1; rp_same := 0 |}.
(* counters_sound is false here: r2 promises 4 free slots, its nodes hold none *)
Lemma error_with_partial_list_example :
  counters_sound ex_ec_topo ex_ec_opt = false /\
  exists orc ss, find_empty_slots orc ex_ec_topo ex_ec_opt = (ss, true) /\ length ss = 1%nat.
Proof.
  split; [vm_compute; reflexivity|].
  exists {| o_dc_order := []; o_dc_rs := []; o_rack_order := []; o_rack_rs := []; o_node_order := [];
            o_node_rs := []; o_other_racks := [{| ro_r := 3; ro_nodes := [] |}]; o_other_dcs := [] |}.
  eexists. split; vm_compute; reflexivity.
Qed.
