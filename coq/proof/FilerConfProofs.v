(* Proofs about model/FilerConf.v (C23). *)
From Coq Require Import List NArith Bool String Arith Lia Permutation.
From SW Require Import model.FilerConf.
Import ListNotations.
Local Open Scope string_scope.
Local Open Scope list_scope.

(* ---------- strings ---------- *)
Lemma prefix_same_length_eq : forall s a b,
  String.prefix a s = true -> String.prefix b s = true ->
  String.length a = String.length b -> a = b.
Proof.
  induction s as [|c s IH]; intros a b Ha Hb Hl.
  - destruct a, b; simpl in *; try discriminate; reflexivity.
  - destruct a as [|ca a], b as [|cb b]; simpl in *; try discriminate; try reflexivity.
    destruct (Ascii.ascii_dec ca c); [|discriminate].
    destruct (Ascii.ascii_dec cb c); [|discriminate].
    subst. f_equal. apply IH; auto.
Qed.

(* ---------- well-formed rule sets: one value per key ---------- *)
Definition wf (rs : rules) : Prop := NoDup (map fst rs).

Lemma remove_key_in : forall p rs r, In r (remove_key p rs) <-> In r rs /\ fst r <> p.
Proof.
  intros p rs r. unfold remove_key. rewrite filter_In.
  destruct (String.eqb_spec (fst r) p); simpl; intuition congruence.
Qed.

Lemma remove_key_wf : forall p rs, wf rs -> wf (remove_key p rs).
Proof.
  unfold wf, remove_key. intros p rs. induction rs as [|r rs IH]; simpl; intros H; [constructor|].
  inversion H as [|? ? Hn Hd]; subst.
  destruct (negb (String.eqb (fst r) p)); simpl; auto.
  constructor; auto. intro Hin. apply Hn.
  apply in_map_iff in Hin. destruct Hin as [x [Hx Hin]]. apply filter_In in Hin.
  apply in_map_iff. exists x. tauto.
Qed.

Lemma remove_key_notin : forall p rs, ~ In p (map fst (remove_key p rs)).
Proof.
  intros p rs Hin. apply in_map_iff in Hin. destruct Hin as [x [Hx Hin]].
  apply remove_key_in in Hin. tauto.
Qed.

Lemma put_wf : forall rs p c, wf rs -> wf (put rs p c).
Proof.
  intros rs p c H. unfold put, wf. simpl. constructor.
  - apply remove_key_notin.
  - apply remove_key_wf; auto.
Qed.

Lemma del_wf : forall rs p, wf rs -> wf (del rs p).
Proof. intros. apply remove_key_wf; auto. Qed.

Lemma remove_key_id : forall p rs, ~ In p (map fst rs) -> remove_key p rs = rs.
Proof.
  intros p rs. induction rs as [|r rs IH]; simpl; intros H; auto.
  destruct (String.eqb_spec (fst r) p); simpl.
  - exfalso. apply H. left. auto.
  - f_equal. apply IH. intro. apply H. right. auto.
Qed.

(* ---------- sorting by prefix length ---------- *)
Lemma insert_by_len_perm : forall r l, Permutation (r :: l) (insert_by_len r l).
Proof.
  intros r l. induction l as [|x l IH]; simpl; auto.
  destruct (Nat.leb (String.length (fst r)) (String.length (fst x))); auto.
  eapply perm_trans; [apply perm_swap|]. constructor. auto.
Qed.

Lemma sort_by_len_perm : forall l, Permutation l (sort_by_len l).
Proof.
  induction l as [|r l IH]; simpl; auto.
  eapply perm_trans; [|apply insert_by_len_perm]. constructor. auto.
Qed.

Inductive sorted_len : list rule -> Prop :=
| sl_nil : sorted_len []
| sl_cons : forall r l, (forall x, In x l -> String.length (fst r) <= String.length (fst x)) ->
            sorted_len l -> sorted_len (r :: l).

Lemma insert_by_len_sorted : forall r l, sorted_len l -> sorted_len (insert_by_len r l).
Proof.
  intros r l H. induction H as [|x l Hx Hs IH]; simpl.
  - constructor; [intros ? []|constructor].
  - destruct (Nat.leb_spec (String.length (fst r)) (String.length (fst x))).
    + constructor; [|constructor; auto].
      intros y [Hy|Hy]; subst; auto. specialize (Hx y Hy). lia.
    + constructor; auto.
      intros y Hy. apply Permutation_in with (l' := r :: l) in Hy.
      2:{ apply Permutation_sym. apply insert_by_len_perm. }
      destruct Hy as [Hy|Hy]; subst; auto. lia.
Qed.

Lemma sort_by_len_sorted : forall l, sorted_len (sort_by_len l).
Proof. induction l; simpl; [constructor|apply insert_by_len_sorted; auto]. Qed.

Lemma matching_in : forall rs path r,
  In r (matching rs path) <-> In r rs /\ String.prefix (fst r) path = true.
Proof.
  intros. unfold matching. split; intro H.
  - apply Permutation_in with (l' := filter (fun r => String.prefix (fst r) path) rs) in H.
    + apply filter_In in H. auto.
    + apply Permutation_sym, sort_by_len_perm.
  - eapply Permutation_in; [apply sort_by_len_perm|]. apply filter_In. auto.
Qed.

(* ---------- the fold: each field is "last setter wins" ---------- *)
Section Field.
  Context {A : Type} (set : conf -> bool) (get : conf -> A).
  Hypothesis merge_get : forall a b, get (merge a b) = if set b then get b else get a.

  Fixpoint last_set (cs : list conf) : option conf :=
    match cs with
    | [] => None
    | c :: cs' => match last_set cs' with Some x => Some x | None => if set c then Some c else None end
    end.

  Lemma fold_merge_get : forall cs a,
    get (fold_left merge cs a) = match last_set cs with Some c => get c | None => get a end.
  Proof.
    induction cs as [|c cs IH]; intros a; simpl; auto.
    rewrite IH. destruct (last_set cs); auto. rewrite merge_get. destruct (set c); auto.
  Qed.
End Field.

(* the declarative reading of "longest matching rule that sets the field" *)
Definition is_longest_setting (set : conf -> bool) (rs : rules) (path : string) (r : rule) : Prop :=
  In r rs /\ String.prefix (fst r) path = true /\ set (snd r) = true /\
  forall r', In r' rs -> String.prefix (fst r') path = true -> set (snd r') = true ->
             String.length (fst r') <= String.length (fst r).

Definition none_sets (set : conf -> bool) (rs : rules) (path : string) : Prop :=
  forall r, In r rs -> String.prefix (fst r) path = true -> set (snd r) = false.

Lemma longest_unique : forall set rs path r1 r2, wf rs ->
  is_longest_setting set rs path r1 -> is_longest_setting set rs path r2 -> r1 = r2.
Proof.
  intros set rs path r1 r2 Hwf [I1 [P1 [S1 M1]]] [I2 [P2 [S2 M2]]].
  assert (Hl : String.length (fst r1) = String.length (fst r2)).
  { specialize (M1 r2 I2 P2 S2). specialize (M2 r1 I1 P1 S1). lia. }
  assert (Hk : fst r1 = fst r2) by (eapply prefix_same_length_eq; eauto).
  clear - Hwf I1 I2 Hk. unfold wf in Hwf.
  induction rs as [|x rs IH]; simpl in *; [tauto|].
  inversion Hwf as [|? ? Hn Hd]; subst.
  destruct I1 as [E1|I1], I2 as [E2|I2]; subst; auto.
  - exfalso. apply Hn. rewrite Hk. apply in_map. auto.
  - exfalso. apply Hn. rewrite <- Hk. apply in_map. auto.
Qed.

(* last setter of a length-sorted list is a longest setter *)
Lemma last_set_sorted : forall set (l : list rule),
  sorted_len l ->
  match last_set set (map snd l) with
  | Some c => exists r, In r l /\ snd r = c /\ set c = true /\
              forall r', In r' l -> set (snd r') = true -> String.length (fst r') <= String.length (fst r)
  | None => forall r, In r l -> set (snd r) = false
  end.
Proof.
  intros set l H. induction H as [|x l Hx Hs IH]; simpl.
  - intros ? [].
  - destruct (last_set set (map snd l)) as [c|] eqn:E.
    + destruct IH as [r [Hin [Hc [Hset Hmax]]]]. exists r. repeat split; auto.
      intros r' [Hr'|Hr'] Hs'; subst; auto.
    + destruct (set (snd x)) eqn:Sx.
      * exists x. repeat split; auto.
        intros r' [Hr'|Hr'] Hs'; subst; auto. rewrite (IH r' Hr') in Hs'. discriminate.
      * intros r [Hr|Hr]; subst; auto.
  Qed.

(* the executable reference picks a longest setter *)
Lemma best_spec : forall set rs path,
  match best set rs path with
  | Some r => is_longest_setting set rs path r
  | None => none_sets set rs path
  end.
Proof.
  intros set rs path. unfold best.
  assert (G : forall l acc pre,
    match acc with
    | Some r => is_longest_setting set pre path r
    | None => none_sets set pre path
    end ->
    match fold_left (fun acc r =>
      if String.prefix (fst r) path && set (snd r) then
        match acc with
        | None => Some r
        | Some b => if Nat.ltb (String.length (fst b)) (String.length (fst r)) then Some r else acc
        end else acc) l acc with
    | Some r => is_longest_setting set (pre ++ l) path r
    | None => none_sets set (pre ++ l) path
    end).
  { induction l as [|x l IH]; intros acc pre Hacc; simpl.
    - rewrite app_nil_r. auto.
    - replace (pre ++ x :: l) with ((pre ++ [x]) ++ l) by (rewrite <- app_assoc; reflexivity).
      apply IH.
      destruct (String.prefix (fst x) path) eqn:Px; simpl.
      + destruct (set (snd x)) eqn:Sx.
        * destruct acc as [b|].
          -- destruct Hacc as [Ib [Pb [Sb Mb]]].
             destruct (Nat.ltb_spec (String.length (fst b)) (String.length (fst x))).
             ++ repeat split; auto. { apply in_or_app. right. left. auto. }
                intros r' Hr' Pr' Sr'. apply in_app_or in Hr'. destruct Hr' as [Hr'|[Hr'|[]]]; subst; auto.
                specialize (Mb r' Hr' Pr' Sr'). lia.
             ++ repeat split; auto. { apply in_or_app. left. auto. }
                intros r' Hr' Pr' Sr'. apply in_app_or in Hr'. destruct Hr' as [Hr'|[Hr'|[]]]; subst; auto.
          -- repeat split; auto. { apply in_or_app. right. left. auto. }
             intros r' Hr' Pr' Sr'. apply in_app_or in Hr'. destruct Hr' as [Hr'|[Hr'|[]]]; subst; auto.
             rewrite (Hacc r' Hr' Pr') in Sr'. discriminate.
        * destruct acc as [b|].
          -- destruct Hacc as [Ib [Pb [Sb Mb]]]. repeat split; auto. { apply in_or_app. left. auto. }
             intros r' Hr' Pr' Sr'. apply in_app_or in Hr'. destruct Hr' as [Hr'|[Hr'|[]]]; subst; auto.
             congruence.
          -- intros r Hr Pr. apply in_app_or in Hr. destruct Hr as [Hr|[Hr|[]]]; subst; auto.
      + destruct acc as [b|].
        * destruct Hacc as [Ib [Pb [Sb Mb]]]. repeat split; auto. { apply in_or_app. left. auto. }
          intros r' Hr' Pr' Sr'. apply in_app_or in Hr'. destruct Hr' as [Hr'|[Hr'|[]]]; subst; auto.
          congruence.
        * intros r Hr Pr. apply in_app_or in Hr. destruct Hr as [Hr|[Hr|[]]]; subst; auto. congruence. }
  specialize (G rs None []). simpl in G. apply G. intros r [].
Qed.

(* one field of match_rule, declaratively *)
Lemma match_field_spec : forall {A} (set : conf -> bool) (get : conf -> A) rs path,
  (forall a b, get (merge a b) = if set b then get b else get a) ->
  (exists r, is_longest_setting set rs path r /\ get (match_rule rs path) = get (snd r)) \/
  (none_sets set rs path /\ get (match_rule rs path) = get empty_conf).
Proof.
  intros A set get rs path Hm. unfold match_rule.
  rewrite (fold_merge_get set get Hm).
  pose proof (last_set_sorted set (matching rs path) (sort_by_len_sorted _)) as H.
  destruct (last_set set (map snd (matching rs path))) as [c|].
  - left. destruct H as [r [Hin [Hc [Hset Hmax]]]]. exists r. subst c. split; auto.
    apply matching_in in Hin. destruct Hin as [Hin Hp]. repeat split; auto.
    intros r' Hr' Pr' Sr'. apply Hmax; auto. apply matching_in. auto.
  - right. split; auto. intros r Hr Pr. apply H. apply matching_in. auto.
Qed.

Lemma match_field_ref : forall {A} (set : conf -> bool) (get : conf -> A) rs path,
  wf rs ->
  (forall a b, get (merge a b) = if set b then get b else get a) ->
  get (match_rule rs path) = ref_field set get (get empty_conf) rs path.
Proof.
  intros A set get rs path Hwf Hm. unfold ref_field.
  pose proof (best_spec set rs path) as Hb.
  destruct (match_field_spec set get rs path Hm) as [[r [Hl Hg]]|[Hn Hg]].
  - destruct (best set rs path) as [b|].
    + rewrite Hg. f_equal. f_equal. eapply longest_unique; eauto.
    + destruct Hl as [I [P [S _]]]. rewrite (Hb r I P) in S. discriminate.
  - destruct (best set rs path) as [b|]; auto.
    destruct Hb as [I [P [S _]]]. rewrite (Hn b I P) in S. discriminate.
Qed.

(* merge characterisations, one per field *)
Lemma merge_collection a b : collection (merge a b) = if set_collection b then collection b else collection a.
Proof. reflexivity. Qed.
Lemma merge_replication a b : replication (merge a b) = if set_replication b then replication b else replication a.
Proof. reflexivity. Qed.
Lemma merge_ttl a b : ttl (merge a b) = if set_ttl b then ttl b else ttl a.
Proof. reflexivity. Qed.
Lemma merge_disk_type a b : disk_type (merge a b) = if set_disk_type b then disk_type b else disk_type a.
Proof. reflexivity. Qed.
Lemma merge_fsync a b : fsync (merge a b) = if set_fsync b then fsync b else fsync a.
Proof. unfold set_fsync. simpl. destruct (fsync b); reflexivity. Qed.
Lemma merge_growth a b : growth (merge a b) = if set_growth b then growth b else growth a.
Proof. reflexivity. Qed.
Lemma merge_read_only a b : read_only (merge a b) = if set_read_only b then read_only b else read_only a.
Proof. reflexivity. Qed.

Theorem match_rule_is_ref : forall rs path, wf rs -> match_rule rs path = ref_match rs path.
Proof.
  intros rs path Hwf.
  pose proof (match_field_ref set_collection collection rs path Hwf merge_collection) as H1.
  pose proof (match_field_ref set_replication replication rs path Hwf merge_replication) as H2.
  pose proof (match_field_ref set_ttl ttl rs path Hwf merge_ttl) as H3.
  pose proof (match_field_ref set_disk_type disk_type rs path Hwf merge_disk_type) as H4.
  pose proof (match_field_ref set_fsync fsync rs path Hwf merge_fsync) as H5.
  pose proof (match_field_ref set_growth growth rs path Hwf merge_growth) as H6.
  pose proof (match_field_ref set_read_only read_only rs path Hwf merge_read_only) as H7.
  unfold ref_match. simpl in *.
  destruct (match_rule rs path) as [a b c d e f g]. simpl in *. subst. reflexivity.
Qed.

(* ---------- membership ---------- *)
Lemma put_in : forall rs p c r, In r (put rs p c) <-> r = (p, c) \/ (In r rs /\ fst r <> p).
Proof.
  intros rs p c r. unfold put. simpl. rewrite remove_key_in. split.
  - intros [H|H]; [left; symmetry; exact H | right; exact H].
  - intros [H|H]; [left; symmetry; exact H | right; exact H].
Qed.

(* stored keys are never empty (AddLocationConf("") panics before storing anything) *)
Definition keys_ok (rs : rules) : Prop := forall r, In r rs -> fst r <> "".

Lemma str_nonempty_true : forall s, str_nonempty s = true <-> s <> "".
Proof.
  intros s. unfold str_nonempty. destruct (String.eqb_spec s ""); simpl; split; intros H; congruence.
Qed.

Lemma put_keys_ok : forall rs p c, keys_ok rs -> p <> "" -> keys_ok (put rs p c).
Proof.
  intros rs p c Hk Hp r Hr. apply put_in in Hr. destruct Hr as [Hr|[Hr _]].
  - subst r. exact Hp.
  - apply Hk; auto.
Qed.

Lemma del_keys_ok : forall rs p, keys_ok rs -> keys_ok (del rs p).
Proof. intros rs p Hk r Hr. apply remove_key_in in Hr. apply Hk. tauto. Qed.

Lemma load_wf : forall l rs, wf rs -> wf (fst (load rs l)).
Proof.
  induction l as [|r l IH]; intros rs H; simpl; auto.
  destruct (str_nonempty (fst r)); simpl; auto. apply IH. apply put_wf; auto.
Qed.

Lemma load_keys_ok : forall l rs, keys_ok rs -> keys_ok (fst (load rs l)).
Proof.
  induction l as [|r l IH]; intros rs H; simpl; auto.
  destruct (str_nonempty (fst r)) eqn:E; simpl; auto. apply IH. apply put_keys_ok; auto.
  apply str_nonempty_true; auto.
Qed.

Lemma wf_nil : wf [].
Proof. unfold wf. simpl. constructor. Qed.

Lemma keys_ok_nil : keys_ok [].
Proof. intros r []. Qed.

(* ---------- ToProto order is a permutation of the stored rules ---------- *)
Lemma insert_by_key_perm : forall r l, Permutation (r :: l) (insert_by_key r l).
Proof.
  intros r l. induction l as [|x l IH]; simpl; auto.
  destruct (String.leb (fst r) (fst x)); auto.
  eapply perm_trans; [apply perm_swap|]. constructor. auto.
Qed.

Lemma dump_perm : forall rs, Permutation rs (dump rs).
Proof.
  induction rs as [|r rs IH]; simpl; auto.
  eapply perm_trans; [|apply insert_by_key_perm]. constructor. auto.
Qed.

Theorem dump_in : forall rs r, In r (dump rs) <-> In r rs.
Proof.
  intros rs r. split; intro H.
  - eapply Permutation_in; [apply Permutation_sym, dump_perm|]. auto.
  - eapply Permutation_in; [apply dump_perm|]. auto.
Qed.

Lemma dump_wf : forall rs, wf rs -> wf (dump rs).
Proof.
  unfold wf. intros rs H. eapply Permutation_NoDup; [|exact H].
  apply Permutation_map. apply dump_perm.
Qed.

Lemma dump_keys_ok : forall rs, keys_ok rs -> keys_ok (dump rs).
Proof. intros rs H r Hr. apply H. apply dump_in. auto. Qed.

(* loading a duplicate-free list without empty prefixes: every rule of the list is stored,
   rules with other keys are kept, and the call returns normally *)
Lemma load_in : forall l rs, wf l -> keys_ok l ->
  snd (load rs l) = ODone /\
  forall r, In r (fst (load rs l)) <-> In r l \/ (In r rs /\ ~ In (fst r) (map fst l)).
Proof.
  induction l as [|x l IH]; intros rs Hnd Hk; simpl.
  - split; auto. intros r. tauto.
  - destruct x as [xp xc]. unfold wf in Hnd. simpl in *.
    inversion Hnd as [|? ? Hn Hd]; subst.
    assert (Hx : str_nonempty xp = true).
    { apply str_nonempty_true. apply (Hk (xp, xc)). left. reflexivity. }
    rewrite Hx.
    destruct (IH (put rs xp xc) Hd (fun r H => Hk r (or_intror H))) as [Ho Hi].
    split; auto. intros r. rewrite Hi. rewrite put_in. split.
    + intros [H|[[H|[H1 H2]] H3]].
      * left. right. exact H.
      * left. left. symmetry. exact H.
      * right. split; [exact H1|]. intros [E|E]; [apply H2; symmetry; exact E | exact (H3 E)].
    + intros [[H|H]|[H1 H2]].
      * right. subst r. simpl. split; [left; reflexivity | exact Hn].
      * left. exact H.
      * right. split.
        -- right. split; [exact H1|]. intro E. apply H2. left. symmetry. exact E.
        -- intro E. apply H2. right. exact E.
Qed.

Lemma load_no_panic : forall l rs,
  existsb (fun r => negb (str_nonempty (fst r))) l = false -> snd (load rs l) = ODone.
Proof.
  induction l as [|x l IH]; intros rs H; simpl in *; auto.
  apply orb_false_iff in H. destruct H as [H1 H2].
  apply negb_false_iff in H1. rewrite H1. apply IH. exact H2.
Qed.

(* ---------- resolution depends only on the SET of stored rules ---------- *)
Lemma longest_setting_ext : forall set rs1 rs2 path r,
  (forall x, In x rs1 <-> In x rs2) ->
  is_longest_setting set rs1 path r -> is_longest_setting set rs2 path r.
Proof.
  intros set rs1 rs2 path r E [I [P [S M]]]. repeat split; auto.
  - apply E; auto.
  - intros r' I' P' S'. apply M; auto. apply E; auto.
Qed.

Lemma match_field_ext : forall {A} (set : conf -> bool) (get : conf -> A) rs1 rs2 path,
  wf rs2 -> (forall x, In x rs1 <-> In x rs2) ->
  (forall a b, get (merge a b) = if set b then get b else get a) ->
  get (match_rule rs1 path) = get (match_rule rs2 path).
Proof.
  intros A set get rs1 rs2 path W2 E Hm.
  destruct (match_field_spec set get rs1 path Hm) as [[r1 [L1 G1]]|[N1 G1]];
  destruct (match_field_spec set get rs2 path Hm) as [[r2 [L2 G2]]|[N2 G2]].
  - rewrite G1, G2. f_equal. f_equal. eapply longest_unique with (rs := rs2); eauto.
    eapply longest_setting_ext; eauto.
  - exfalso. destruct L1 as [I [P [S _]]]. rewrite (N2 r1 (proj1 (E r1) I) P) in S. discriminate.
  - exfalso. destruct L2 as [I [P [S _]]]. rewrite (N1 r2 (proj2 (E r2) I) P) in S. discriminate.
  - rewrite G1, G2. reflexivity.
Qed.

Theorem match_rule_ext : forall rs1 rs2 path,
  wf rs2 -> (forall x, In x rs1 <-> In x rs2) -> match_rule rs1 path = match_rule rs2 path.
Proof.
  intros rs1 rs2 path W2 E.
  pose proof (match_field_ext set_collection collection rs1 rs2 path W2 E merge_collection) as H1.
  pose proof (match_field_ext set_replication replication rs1 rs2 path W2 E merge_replication) as H2.
  pose proof (match_field_ext set_ttl ttl rs1 rs2 path W2 E merge_ttl) as H3.
  pose proof (match_field_ext set_disk_type disk_type rs1 rs2 path W2 E merge_disk_type) as H4.
  pose proof (match_field_ext set_fsync fsync rs1 rs2 path W2 E merge_fsync) as H5.
  pose proof (match_field_ext set_growth growth rs1 rs2 path W2 E merge_growth) as H6.
  pose proof (match_field_ext set_read_only read_only rs1 rs2 path W2 E merge_read_only) as H7.
  destruct (match_rule rs1 path), (match_rule rs2 path). simpl in *. subst. reflexivity.
Qed.

(* ---------- the executable declarative oracle ---------- *)
Lemma cands_in : forall set rs path r,
  In r (cands set rs path) <-> In r rs /\ String.prefix (fst r) path = true /\ set (snd r) = true.
Proof.
  intros. unfold cands. rewrite filter_In. rewrite andb_true_iff. tauto.
Qed.

Theorem field_ok_spec : forall {A} (eqb : A -> A -> bool) set (get : conf -> A) dflt rs path v,
  (forall x y, eqb x y = true <-> x = y) ->
  (field_ok eqb set get dflt rs path v = true <->
   (exists r, is_longest_setting set rs path r /\ v = get (snd r)) \/
   (none_sets set rs path /\ v = dflt)).
Proof.
  intros A eqb set get dflt rs path v Heq. unfold field_ok.
  pose proof (cands_in set rs path) as Hc.
  destruct (cands set rs path) as [|c0 cs] eqn:E.
  - rewrite Heq. split.
    + intros Hv. right. split; auto. intros r Hr Pr.
      destruct (set (snd r)) eqn:S; auto. exfalso. apply (proj2 (Hc r)). auto.
    + intros [[r [[I [P [S _]]] _]]|[_ Hv]]; auto. exfalso. apply (proj2 (Hc r)). auto.
  - rewrite existsb_exists. split.
    + intros [r [Hr Hb]]. apply andb_true_iff in Hb. destruct Hb as [Hv Hall].
      left. exists r. apply Heq in Hv. split; auto.
      apply Hc in Hr. destruct Hr as [I [P S]]. repeat split; auto.
      intros r' I' P' S'. rewrite forallb_forall in Hall.
      apply Nat.leb_le. apply Hall. apply Hc. auto.
    + intros [[r [[I [P [S M]]] Hv]]|[Hn _]].
      * exists r. split; [apply Hc; auto|]. apply andb_true_iff. split; [apply Heq; auto|].
        apply forallb_forall. intros r' Hr'. apply Hc in Hr'. destruct Hr' as [I' [P' S']].
        apply Nat.leb_le. apply M; auto.
      * exfalso. destruct (proj1 (Hc c0) (or_introl eq_refl)) as [I [P S]].
        rewrite (Hn c0 I P) in S. discriminate.
Qed.

(* with one value per key the oracle accepts exactly the model's answer *)
Lemma field_ok_iff : forall {A} (eqb : A -> A -> bool) (set : conf -> bool) (get : conf -> A) rs path v,
  (forall x y, eqb x y = true <-> x = y) -> wf rs ->
  (forall a b, get (merge a b) = if set b then get b else get a) ->
  (field_ok eqb set get (get empty_conf) rs path v = true <-> v = get (match_rule rs path)).
Proof.
  intros A eqb set get rs path v Heq W Hm. rewrite (field_ok_spec eqb set get _ rs path v Heq).
  destruct (match_field_spec set get rs path Hm) as [[r [L G]]|[N G]]; rewrite G; split.
  - intros [[r' [L' Hv]]|[N' _]].
    + rewrite Hv. f_equal. f_equal. eapply longest_unique; eauto.
    + exfalso. destruct L as [I [P [S _]]]. rewrite (N' r I P) in S. discriminate.
  - intros Hv. left. exists r. auto.
  - intros [[r' [[I [P [S _]]] _]]|[_ Hv]]; auto. exfalso. rewrite (N r' I P) in S. discriminate.
  - intros Hv. right. auto.
Qed.

Lemma bool_eqb_iff : forall x y, Bool.eqb x y = true <-> x = y.
Proof. intros. apply Bool.eqb_true_iff. Qed.

Theorem match_ok_iff : forall rs path c, wf rs -> (match_ok rs path c = true <-> c = match_rule rs path).
Proof.
  intros rs path c W. unfold match_ok. rewrite !andb_true_iff.
  rewrite (field_ok_iff String.eqb set_collection collection rs path _ String.eqb_eq W merge_collection).
  rewrite (field_ok_iff String.eqb set_replication replication rs path _ String.eqb_eq W merge_replication).
  rewrite (field_ok_iff String.eqb set_ttl ttl rs path _ String.eqb_eq W merge_ttl).
  rewrite (field_ok_iff String.eqb set_disk_type disk_type rs path _ String.eqb_eq W merge_disk_type).
  rewrite (field_ok_iff Bool.eqb set_fsync fsync rs path _ bool_eqb_iff W merge_fsync).
  rewrite (field_ok_iff N.eqb set_growth growth rs path _ N.eqb_eq W merge_growth).
  rewrite (field_ok_iff Bool.eqb set_read_only read_only rs path _ bool_eqb_iff W merge_read_only).
  split.
  - intros [[[[[[H1 H2] H3] H4] H5] H6] H7].
    destruct c, (match_rule rs path). simpl in *. subst. reflexivity.
  - intros H. subst c. repeat split.
Qed.

(* ---------- "unset" is the zero value of the field ---------- *)
Theorem unset_is_zero : forall c,
  (set_collection c = false <-> collection c = "") /\
  (set_replication c = false <-> replication c = "") /\
  (set_ttl c = false <-> ttl c = "") /\
  (set_disk_type c = false <-> disk_type c = "") /\
  (set_fsync c = false <-> fsync c = false) /\
  (set_growth c = false <-> growth c = 0%N) /\
  (set_read_only c = false <-> read_only c = false).
Proof.
  intros c. unfold set_collection, set_replication, set_ttl, set_disk_type, set_fsync, set_growth,
    set_read_only, str_nonempty.
  repeat split; intros H;
    try (apply negb_false_iff in H; apply String.eqb_eq in H; exact H);
    try (apply negb_false_iff; apply String.eqb_eq; exact H);
    try exact H.
  - apply N.ltb_ge in H. lia.
  - apply N.ltb_ge. lia.
Qed.

(* a longer rule cannot clear fsync / read_only / growth set by a shorter one *)
Theorem merge_cannot_clear : forall a b,
  (fsync a = true -> fsync (merge a b) = true) /\
  (read_only a = true -> read_only (merge a b) = true) /\
  (growth b = 0%N -> growth (merge a b) = growth a).
Proof.
  intros a b. simpl. repeat split.
  - intros H. rewrite H. apply orb_true_r.
  - intros H. destruct (read_only b); auto.
  - intros H. rewrite H. reflexivity.
Qed.

(* every reachable rule set is well formed *)
Lemma step_wf : forall m rs o, wf rs -> wf (fst (step_with m rs o)).
Proof.
  intros m rs [p c|p|path|l| | |] H; simpl; auto using put_wf, del_wf, load_wf, wf_nil.
  destruct (str_nonempty p); simpl; auto using put_wf.
Qed.

Lemma step_keys_ok : forall m rs o, keys_ok rs -> keys_ok (fst (step_with m rs o)).
Proof.
  intros m rs [p c|p|path|l| | |] H; simpl; auto using del_keys_ok, load_keys_ok, keys_ok_nil.
  destruct (str_nonempty p) eqn:E; simpl; auto. apply put_keys_ok; auto. apply str_nonempty_true; auto.
Qed.

Lemma step_with_eq : forall rs o, wf rs -> step_with match_rule rs o = step_with ref_match rs o.
Proof. intros rs [p c|p|path|l| | |] H; simpl; auto. rewrite match_rule_is_ref by auto. reflexivity. Qed.

Theorem run_is_ref_run : forall ops rs, wf rs -> run rs ops = ref_run rs ops.
Proof.
  unfold run, ref_run.
  induction ops as [|o ops IH]; intros rs Hwf; simpl; auto.
  rewrite step_with_eq by auto.
  pose proof (step_wf ref_match rs o Hwf) as W.
  destruct (step_with ref_match rs o) as [rs' out]. simpl in W. f_equal. apply IH. exact W.
Qed.

(* removing a rule restores the settings computed without it *)
Theorem del_put_restores : forall rs p c path, wf rs -> ~ In p (map fst rs) ->
  match_rule (del (put rs p c) p) path = match_rule rs path.
Proof.
  intros rs p c path Hwf Hn. unfold del, put. simpl.
  rewrite String.eqb_refl. simpl.
  assert (E : remove_key p (remove_key p rs) = rs).
  { rewrite (remove_key_id p rs Hn). apply remove_key_id; auto. }
  rewrite E. reflexivity.
Qed.

(* and in general: delete = resolve over the rules other than p *)
Theorem del_spec : forall rs p r, In r (del rs p) <-> In r rs /\ fst r <> p.
Proof. intros. apply remove_key_in. Qed.

Lemma remove_key_idem : forall p rs, remove_key p (remove_key p rs) = remove_key p rs.
Proof. intros. apply remove_key_id. apply remove_key_notin. Qed.

(* deleting p forgets every earlier Add of p, whatever was stored under p before *)
Theorem del_put : forall rs p c, del (put rs p c) p = del rs p.
Proof.
  intros. unfold del, put. simpl. rewrite String.eqb_refl. simpl. apply remove_key_idem.
Qed.

Theorem del_put_put : forall rs p c1 c2, del (put (put rs p c1) p c2) p = del rs p.
Proof. intros. rewrite !del_put. reflexivity. Qed.

Theorem del_match_ref : forall rs p path, wf rs ->
  match_rule (del rs p) path = ref_match (filter (fun r => negb (String.eqb (fst r) p)) rs) path.
Proof. intros rs p path W. exact (match_rule_is_ref (del rs p) path (del_wf rs p W)). Qed.

Theorem del_put_match : forall rs p c path,
  match_rule (del (put rs p c) p) path = match_rule (del rs p) path.
Proof. intros. rewrite del_put. reflexivity. Qed.

(* ToText + LoadFromBytes into a fresh FilerConf changes no answer *)
Theorem reload_same : forall m rs, wf rs -> keys_ok rs ->
  snd (step_with m rs Reload) = ODone /\
  forall path, match_rule (fst (step_with m rs Reload)) path = match_rule rs path.
Proof.
  intros m rs W K. simpl.
  destruct (load_in (dump rs) [] (dump_wf rs W) (dump_keys_ok rs K)) as [Ho Hi].
  split; auto. intros path. apply match_rule_ext; auto.
  intros x. rewrite Hi. rewrite dump_in. simpl. tauto.
Qed.

(* ---------- finding 0: an empty location prefix panics ---------- *)
Theorem no_panic_refuted : exists ops, In OPanic (run [] ops).
Proof. exists [Add "" empty_conf]. vm_compute. left. reflexivity. Qed.

Lemma step_no_panic : forall m rs o, wf rs -> keys_ok rs -> op_empty_prefix o = false ->
  snd (step_with m rs o) <> OPanic.
Proof.
  intros m rs [p c|p|path|l| | |] W K H; simpl in *; try discriminate.
  - apply negb_false_iff in H. rewrite H. simpl. discriminate.
  - rewrite (load_no_panic l rs H). discriminate.
  - destruct (load_in (dump rs) [] (dump_wf rs W) (dump_keys_ok rs K)) as [Ho _]. rewrite Ho. discriminate.
Qed.

Theorem no_panic_partial : forall m ops rs, wf rs -> keys_ok rs ->
  existsb op_empty_prefix ops = false -> ~ In OPanic (run_with m rs ops).
Proof.
  intros m. induction ops as [|o ops IH]; intros rs W K H; simpl in *; [tauto|].
  apply orb_false_iff in H. destruct H as [H1 H2].
  pose proof (step_no_panic m rs o W K H1) as Hs.
  pose proof (step_wf m rs o W) as W'. pose proof (step_keys_ok m rs o K) as K'.
  destruct (step_with m rs o) as [rs' out]. simpl in *.
  intros [E|E]; [apply Hs; exact E|]. exact (IH rs' W' K' H2 E).
Qed.

(* a non-empty prefix is accepted and stored *)
Theorem add_partial : forall m rs p c, op_empty_prefix (Add p c) = false ->
  step_with m rs (Add p c) = (put rs p c, ODone).
Proof. intros m rs p c H. simpl in *. apply negb_false_iff in H. rewrite H. reflexivity. Qed.

Theorem load_partial : forall m rs l, op_empty_prefix (Load l) = false ->
  step_with m rs (Load l) = (fold_left (fun acc r => put acc (fst r) (snd r)) l rs, ODone).
Proof.
  intros m rs l. simpl. revert rs. induction l as [|x l IH]; intros rs H; simpl in *; auto.
  apply orb_false_iff in H. destruct H as [H1 H2]. apply negb_false_iff in H1. rewrite H1. apply IH. exact H2.
Qed.

(* non-vacuity *)
Definition ex_a : conf := {| collection := "x"; replication := ""; ttl := "1d"; disk_type := "hdd";
                             fsync := false; growth := 0; read_only := false |}.
Definition ex_ab : conf := {| collection := ""; replication := "001"; ttl := "2d"; disk_type := "ssd";
                              fsync := true; growth := 2; read_only := false |}.
Definition ex_rules : rules := put (put (put [] "/a" ex_a) "/a/b" ex_ab) "/ab" empty_conf.

Lemma example_holds :
  wf ex_rules /\ keys_ok ex_rules /\
  match_rule ex_rules "/a/b/c" =
    {| collection := "x"; replication := "001"; ttl := "2d"; disk_type := "ssd";
       fsync := true; growth := 2; read_only := false |} /\
  match_ok ex_rules "/a/b/c" (match_rule ex_rules "/a/b/c") = true /\
  match_rule (del ex_rules "/a/b") "/a/b/c" = ex_a /\
  existsb op_empty_prefix [Add "/a" ex_a; Load [("/a/b", ex_ab)]; Reload; Match "/a/b/c"; Dump] = false.
Proof.
  split; [repeat apply put_wf; apply wf_nil|].
  split; [repeat apply put_keys_ok; try apply keys_ok_nil; discriminate|].
  vm_compute. repeat split.
Qed.
