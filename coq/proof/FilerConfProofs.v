(* Proofs about model/FilerConf.v (C23). *)
From Coq Require Import List NArith Bool String Arith Lia Permutation.
From SW Require Import model.FilerConf.
Import ListNotations.
Local Open Scope string_scope.
Local Open Scope list_scope.

(* ---------- strings ---------- *)
Lemma prefix_same_length_eq : forall s a b,
  String.prefix a s = true -> String.prefix b s = true ->
  String.length a = String.length b -> a = b.
Proof.
  induction s as [|c s IH]; intros a b Ha Hb Hl.
  - destruct a, b; simpl in *; try discriminate; reflexivity.
  - destruct a as [|ca a], b as [|cb b]; simpl in *; try discriminate; try reflexivity.
    destruct (Ascii.ascii_dec ca c); [|discriminate].
    destruct (Ascii.ascii_dec cb c); [|discriminate].
    subst. f_equal. apply IH; auto.
Qed.

(* ---------- well-formed rule sets: one value per key ---------- *)
Definition wf (rs : rules) : Prop := NoDup (map fst rs).

Lemma remove_key_in : forall p rs r, In r (remove_key p rs) <-> In r rs /\ fst r <> p.
Proof.
  intros p rs r. unfold remove_key. rewrite filter_In.
  destruct (String.eqb_spec (fst r) p); simpl; intuition congruence.
Qed.

Lemma remove_key_wf : forall p rs, wf rs -> wf (remove_key p rs).
Proof.
  unfold wf, remove_key. intros p rs. induction rs as [|r rs IH]; simpl; intros H; [constructor|].
  inversion H as [|? ? Hn Hd]; subst.
  destruct (negb (String.eqb (fst r) p)); simpl; auto.
  constructor; auto. intro Hin. apply Hn.
  apply in_map_iff in Hin. destruct Hin as [x [Hx Hin]]. apply filter_In in Hin.
  apply in_map_iff. exists x. tauto.
Qed.

Lemma remove_key_notin : forall p rs, ~ In p (map fst (remove_key p rs)).
Proof.
  intros p rs Hin. apply in_map_iff in Hin. destruct Hin as [x [Hx Hin]].
  apply remove_key_in in Hin. tauto.
Qed.

Lemma put_wf : forall rs p c, wf rs -> wf (put rs p c).
Proof.
  intros rs p c H. unfold put, wf. simpl. constructor.
  - apply remove_key_notin.
  - apply remove_key_wf; auto.
Qed.

Lemma del_wf : forall rs p, wf rs -> wf (del rs p).
Proof. intros. apply remove_key_wf; auto. Qed.

Lemma remove_key_id : forall p rs, ~ In p (map fst rs) -> remove_key p rs = rs.
Proof.
  intros p rs. induction rs as [|r rs IH]; simpl; intros H; auto.
  destruct (String.eqb_spec (fst r) p); simpl.
  - exfalso. apply H. left. auto.
  - f_equal. apply IH. intro. apply H. right. auto.
Qed.

(* ---------- sorting by prefix length ---------- *)
Lemma insert_by_len_perm : forall r l, Permutation (r :: l) (insert_by_len r l).
Proof.
  intros r l. induction l as [|x l IH]; simpl; auto.
  destruct (Nat.leb (String.length (fst r)) (String.length (fst x))); auto.
  eapply perm_trans; [apply perm_swap|]. constructor. auto.
Qed.

Lemma sort_by_len_perm : forall l, Permutation l (sort_by_len l).
Proof.
  induction l as [|r l IH]; simpl; auto.
  eapply perm_trans; [|apply insert_by_len_perm]. constructor. auto.
Qed.

Inductive sorted_len : list rule -> Prop :=
| sl_nil : sorted_len []
| sl_cons : forall r l, (forall x, In x l -> String.length (fst r) <= String.length (fst x)) ->
            sorted_len l -> sorted_len (r :: l).

Lemma insert_by_len_sorted : forall r l, sorted_len l -> sorted_len (insert_by_len r l).
Proof.
  intros r l H. induction H as [|x l Hx Hs IH]; simpl.
  - constructor; [intros ? []|constructor].
  - destruct (Nat.leb_spec (String.length (fst r)) (String.length (fst x))).
    + constructor; [|constructor; auto].
      intros y [Hy|Hy]; subst; auto. specialize (Hx y Hy). lia.
    + constructor; auto.
      intros y Hy. apply Permutation_in with (l' := r :: l) in Hy.
      2:{ apply Permutation_sym. apply insert_by_len_perm. }
      destruct Hy as [Hy|Hy]; subst; auto. lia.
Qed.

Lemma sort_by_len_sorted : forall l, sorted_len (sort_by_len l).
Proof. induction l; simpl; [constructor|apply insert_by_len_sorted; auto]. Qed.

Lemma matching_in : forall rs path r,
  In r (matching rs path) <-> In r rs /\ String.prefix (fst r) path = true.
Proof.
  intros. unfold matching. split; intro H.
  - apply Permutation_in with (l' := filter (fun r => String.prefix (fst r) path) rs) in H.
    + apply filter_In in H. auto.
    + apply Permutation_sym, sort_by_len_perm.
  - eapply Permutation_in; [apply sort_by_len_perm|]. apply filter_In. auto.
Qed.

(* ---------- the fold: each field is "last setter wins" ---------- *)
Section Field.
  Context {A : Type} (set : conf -> bool) (get : conf -> A).
  Hypothesis merge_get : forall a b, get (merge a b) = if set b then get b else get a.

  Fixpoint last_set (cs : list conf) : option conf :=
    match cs with
    | [] => None
    | c :: cs' => match last_set cs' with Some x => Some x | None => if set c then Some c else None end
    end.

  Lemma fold_merge_get : forall cs a,
    get (fold_left merge cs a) = match last_set cs with Some c => get c | None => get a end.
  Proof.
    induction cs as [|c cs IH]; intros a; simpl; auto.
    rewrite IH. destruct (last_set cs); auto. rewrite merge_get. destruct (set c); auto.
  Qed.
End Field.

(* the declarative reading of "longest matching rule that sets the field" *)
Definition is_longest_setting (set : conf -> bool) (rs : rules) (path : string) (r : rule) : Prop :=
  In r rs /\ String.prefix (fst r) path = true /\ set (snd r) = true /\
  forall r', In r' rs -> String.prefix (fst r') path = true -> set (snd r') = true ->
             String.length (fst r') <= String.length (fst r).

Definition none_sets (set : conf -> bool) (rs : rules) (path : string) : Prop :=
  forall r, In r rs -> String.prefix (fst r) path = true -> set (snd r) = false.

Lemma longest_unique : forall set rs path r1 r2, wf rs ->
  is_longest_setting set rs path r1 -> is_longest_setting set rs path r2 -> r1 = r2.
Proof.
  intros set rs path r1 r2 Hwf [I1 [P1 [S1 M1]]] [I2 [P2 [S2 M2]]].
  assert (Hl : String.length (fst r1) = String.length (fst r2)).
  { specialize (M1 r2 I2 P2 S2). specialize (M2 r1 I1 P1 S1). lia. }
  assert (Hk : fst r1 = fst r2) by (eapply prefix_same_length_eq; eauto).
  clear - Hwf I1 I2 Hk. unfold wf in Hwf.
  induction rs as [|x rs IH]; simpl in *; [tauto|].
  inversion Hwf as [|? ? Hn Hd]; subst.
  destruct I1 as [E1|I1], I2 as [E2|I2]; subst; auto.
  - exfalso. apply Hn. rewrite Hk. apply in_map. auto.
  - exfalso. apply Hn. rewrite <- Hk. apply in_map. auto.
Qed.

(* last setter of a length-sorted list is a longest setter *)
Lemma last_set_sorted : forall set (l : list rule),
  sorted_len l ->
  match last_set set (map snd l) with
  | Some c => exists r, In r l /\ snd r = c /\ set c = true /\
              forall r', In r' l -> set (snd r') = true -> String.length (fst r') <= String.length (fst r)
  | None => forall r, In r l -> set (snd r) = false
  end.
Proof.
  intros set l H. induction H as [|x l Hx Hs IH]; simpl.
  - intros ? [].
  - destruct (last_set set (map snd l)) as [c|] eqn:E.
    + destruct IH as [r [Hin [Hc [Hset Hmax]]]]. exists r. repeat split; auto.
      intros r' [Hr'|Hr'] Hs'; subst; auto.
    + destruct (set (snd x)) eqn:Sx.
      * exists x. repeat split; auto.
        intros r' [Hr'|Hr'] Hs'; subst; auto. rewrite (IH r' Hr') in Hs'. discriminate.
      * intros r [Hr|Hr]; subst; auto.
  Qed.

(* the executable reference picks a longest setter *)
Lemma best_spec : forall set rs path,
  match best set rs path with
  | Some r => is_longest_setting set rs path r
  | None => none_sets set rs path
  end.
Proof.
  intros set rs path. unfold best.
  assert (G : forall l acc pre,
    match acc with
    | Some r => is_longest_setting set pre path r
    | None => none_sets set pre path
    end ->
    match fold_left (fun acc r =>
      if String.prefix (fst r) path && set (snd r) then
        match acc with
        | None => Some r
        | Some b => if Nat.ltb (String.length (fst b)) (String.length (fst r)) then Some r else acc
        end else acc) l acc with
    | Some r => is_longest_setting set (pre ++ l) path r
    | None => none_sets set (pre ++ l) path
    end).
  { induction l as [|x l IH]; intros acc pre Hacc; simpl.
    - rewrite app_nil_r. auto.
    - replace (pre ++ x :: l) with ((pre ++ [x]) ++ l) by (rewrite <- app_assoc; reflexivity).
      apply IH.
      destruct (String.prefix (fst x) path) eqn:Px; simpl.
      + destruct (set (snd x)) eqn:Sx.
        * destruct acc as [b|].
          -- destruct Hacc as [Ib [Pb [Sb Mb]]].
             destruct (Nat.ltb_spec (String.length (fst b)) (String.length (fst x))).
             ++ repeat split; auto. { apply in_or_app. right. left. auto. }
                intros r' Hr' Pr' Sr'. apply in_app_or in Hr'. destruct Hr' as [Hr'|[Hr'|[]]]; subst; auto.
                specialize (Mb r' Hr' Pr' Sr'). lia.
             ++ repeat split; auto. { apply in_or_app. left. auto. }
                intros r' Hr' Pr' Sr'. apply in_app_or in Hr'. destruct Hr' as [Hr'|[Hr'|[]]]; subst; auto.
          -- repeat split; auto. { apply in_or_app. right. left. auto. }
             intros r' Hr' Pr' Sr'. apply in_app_or in Hr'. destruct Hr' as [Hr'|[Hr'|[]]]; subst; auto.
             rewrite (Hacc r' Hr' Pr') in Sr'. discriminate.
        * destruct acc as [b|].
          -- destruct Hacc as [Ib [Pb [Sb Mb]]]. repeat split; auto. { apply in_or_app. left. auto. }
             intros r' Hr' Pr' Sr'. apply in_app_or in Hr'. destruct Hr' as [Hr'|[Hr'|[]]]; subst; auto.
             congruence.
          -- intros r Hr Pr. apply in_app_or in Hr. destruct Hr as [Hr|[Hr|[]]]; subst; auto.
      + destruct acc as [b|].
        * destruct Hacc as [Ib [Pb [Sb Mb]]]. repeat split; auto. { apply in_or_app. left. auto. }
          intros r' Hr' Pr' Sr'. apply in_app_or in Hr'. destruct Hr' as [Hr'|[Hr'|[]]]; subst; auto.
          congruence.
        * intros r Hr Pr. apply in_app_or in Hr. destruct Hr as [Hr|[Hr|[]]]; subst; auto. congruence. }
  specialize (G rs None []). simpl in G. apply G. intros r [].
Qed.

(* one field of match_rule, declaratively *)
Lemma match_field_spec : forall {A} (set : conf -> bool) (get : conf -> A) rs path,
  (forall a b, get (merge a b) = if set b then get b else get a) ->
  (exists r, is_longest_setting set rs path r /\ get (match_rule rs path) = get (snd r)) \/
  (none_sets set rs path /\ get (match_rule rs path) = get empty_conf).
Proof.
  intros A set get rs path Hm. unfold match_rule.
  rewrite (fold_merge_get set get Hm).
  pose proof (last_set_sorted set (matching rs path) (sort_by_len_sorted _)) as H.
  destruct (last_set set (map snd (matching rs path))) as [c|].
  - left. destruct H as [r [Hin [Hc [Hset Hmax]]]]. exists r. subst c. split; auto.
    apply matching_in in Hin. destruct Hin as [Hin Hp]. repeat split; auto.
    intros r' Hr' Pr' Sr'. apply Hmax; auto. apply matching_in. auto.
  - right. split; auto. intros r Hr Pr. apply H. apply matching_in. auto.
Qed.

Lemma match_field_ref : forall {A} (set : conf -> bool) (get : conf -> A) rs path,
  wf rs ->
  (forall a b, get (merge a b) = if set b then get b else get a) ->
  get (match_rule rs path) = ref_field set get (get empty_conf) rs path.
Proof.
  intros A set get rs path Hwf Hm. unfold ref_field.
  pose proof (best_spec set rs path) as Hb.
  destruct (match_field_spec set get rs path Hm) as [[r [Hl Hg]]|[Hn Hg]].
  - destruct (best set rs path) as [b|].
    + rewrite Hg. f_equal. f_equal. eapply longest_unique; eauto.
    + destruct Hl as [I [P [S _]]]. rewrite (Hb r I P) in S. discriminate.
  - destruct (best set rs path) as [b|]; auto.
    destruct Hb as [I [P [S _]]]. rewrite (Hn b I P) in S. discriminate.
Qed.

(* merge characterisations, one per field *)
Lemma merge_collection a b : collection (merge a b) = if set_collection b then collection b else collection a.
Proof. reflexivity. Qed.
Lemma merge_replication a b : replication (merge a b) = if set_replication b then replication b else replication a.
Proof. reflexivity. Qed.
Lemma merge_ttl a b : ttl (merge a b) = if set_ttl b then ttl b else ttl a.
Proof. reflexivity. Qed.
Lemma merge_disk_type a b : disk_type (merge a b) = if set_disk_type b then disk_type b else disk_type a.
Proof. reflexivity. Qed.
Lemma merge_fsync a b : fsync (merge a b) = if set_fsync b then fsync b else fsync a.
Proof. unfold set_fsync. simpl. destruct (fsync b); reflexivity. Qed.
Lemma merge_growth a b : growth (merge a b) = if set_growth b then growth b else growth a.
Proof. reflexivity. Qed.
Lemma merge_read_only a b : read_only (merge a b) = if set_read_only b then read_only b else read_only a.
Proof. reflexivity. Qed.

Theorem match_rule_is_ref : forall rs path, wf rs -> match_rule rs path = ref_match rs path.
Proof.
  intros rs path Hwf.
  pose proof (match_field_ref set_collection collection rs path Hwf merge_collection) as H1.
  pose proof (match_field_ref set_replication replication rs path Hwf merge_replication) as H2.
  pose proof (match_field_ref set_ttl ttl rs path Hwf merge_ttl) as H3.
  pose proof (match_field_ref set_disk_type disk_type rs path Hwf merge_disk_type) as H4.
  pose proof (match_field_ref set_fsync fsync rs path Hwf merge_fsync) as H5.
  pose proof (match_field_ref set_growth growth rs path Hwf merge_growth) as H6.
  pose proof (match_field_ref set_read_only read_only rs path Hwf merge_read_only) as H7.
  unfold ref_match. simpl in *.
  destruct (match_rule rs path) as [a b c d e f g]. simpl in *. subst. reflexivity.
Qed.

(* every reachable rule set is well formed *)
Lemma step_wf : forall rs o, wf rs -> wf (fst (step rs o)).
Proof. intros rs [p c|p|path] H; simpl; auto using put_wf, del_wf. Qed.

Theorem run_is_ref_run : forall ops rs, wf rs -> run rs ops = ref_run rs ops.
Proof.
  induction ops as [|o ops IH]; intros rs Hwf; simpl; auto.
  destruct o as [p c|p|path]; simpl.
  - f_equal. apply IH. apply put_wf; auto.
  - f_equal. apply IH. apply del_wf; auto.
  - rewrite match_rule_is_ref by auto. f_equal. apply IH; auto.
Qed.

(* removing a rule restores the settings computed without it *)
Theorem del_put_restores : forall rs p c path, wf rs -> ~ In p (map fst rs) ->
  match_rule (del (put rs p c) p) path = match_rule rs path.
Proof.
  intros rs p c path Hwf Hn. unfold del, put. simpl.
  rewrite String.eqb_refl. simpl.
  assert (E : remove_key p (remove_key p rs) = rs).
  { rewrite (remove_key_id p rs Hn). apply remove_key_id; auto. }
  rewrite E. reflexivity.
Qed.

(* and in general: delete = resolve over the rules other than p *)
Theorem del_spec : forall rs p r, In r (del rs p) <-> In r rs /\ fst r <> p.
Proof. intros. apply remove_key_in. Qed.
