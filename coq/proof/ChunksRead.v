(* C17, part 3: ViewFromVisibleIntervals and ChunkReadAt.ReadAt. *)
From Coq Require Import List NArith Bool Arith Lia Permutation Sorted.
From Coq Require Import ZifyBool ZifyN ZifyNat.
From SW Require Import model.Chunks proof.ChunksProofs proof.ChunksOverlay.
Import ListNotations.
Local Open Scope N_scope.

(* ================================================================== *)
(* views                                                               *)
(* ================================================================== *)
Definition cv_end (w : chunk_view) : N := cv_logic w + cv_size w.
Definition views_ok (ws : list chunk_view) : Prop := iok cv_logic cv_end ws.

Lemma view_of_in : forall off stop v w, In w (view_of off stop v) ->
  cv_fid w = v_fid v /\ cv_csize w = v_csize v /\
  cv_logic w = N.max off (v_start v) /\ cv_end w = N.min stop (v_stop v) /\
  cv_logic w < cv_end w /\ cv_off w = cv_logic w - v_start v + v_coff v.
Proof.
  intros off stop v w H. unfold view_of in H.
  destruct (N.max off (v_start v) <? N.min stop (v_stop v)) eqn:E; [|destruct H].
  destruct H as [H|[]]. subst w. unfold cv_end. simpl. repeat split; lia.
Qed.

Lemma view_of_make : forall off stop v, N.max off (v_start v) < N.min stop (v_stop v) ->
  exists w, view_of off stop v = [w].
Proof.
  intros off stop v H. unfold view_of.
  destruct (N.max off (v_start v) <? N.min stop (v_stop v)) eqn:E; [eauto|lia].
Qed.

Theorem views_ok_of : forall vs off size, vis_ok vs -> views_ok (view_from_visibles vs off size).
Proof.
  intros vs off size. unfold view_from_visibles. set (stop := off + size). clearbody stop.
  induction vs as [|v vs IH]; intros Hok; simpl; [apply iok_nil|].
  pose proof Hok as [Hs Hf].
  specialize (IH (iok_tail _ _ _ _ Hok)). destruct IH as [IH1 IH2].
  split.
  - apply ss_app. repeat split; auto.
    + unfold view_of. destruct (N.max off (v_start v) <? N.min stop (v_stop v)); repeat constructor.
    + intros a b Ha Hb. apply in_flat_map in Hb. destruct Hb as [v' [Hv' Hb]].
      apply view_of_in in Ha. apply view_of_in in Hb.
      pose proof (ss_in_cons _ _ _ _ Hs Hv') as Hle. simpl in Hle. lia.
  - apply Forall_app. split; auto.
    apply Forall_forall. intros w Hw. apply view_of_in in Hw. tauto.
Qed.

Lemma src_views_cons : forall w rest q,
  src_of_views (w :: rest) q =
  if cvcovers w q then Some (cv_fid w, cv_off w + (q - cv_logic w)) else src_of_views rest q.
Proof. intros. unfold src_of_views. simpl. destruct (cvcovers w q); reflexivity. Qed.

Lemma views_find_unique : forall ws w p, views_ok ws -> In w ws -> cvcovers w p = true ->
  find (fun x => cvcovers x p) ws = Some w.
Proof. intros ws w p. exact (ifind_unique cv_logic cv_end ws w p). Qed.

Lemma views_find_none : forall ws p, (forall w, In w ws -> cvcovers w p = false) ->
  find (fun x => cvcovers x p) ws = None.
Proof. intros ws p. exact (ifind_none cv_logic cv_end ws p). Qed.

(* the views of a window tile exactly its covered bytes, with the right chunk-relative offsets *)
Theorem views_src : forall vs off size p, vis_ok vs ->
  src_of_views (view_from_visibles vs off size) p =
  if (off <=? p) && (p <? off + size) then src_of_visibles vs p else None.
Proof.
  intros vs off size p Hok.
  pose proof (views_ok_of vs off size Hok) as Hok'.
  unfold src_of_views.
  destruct ((off <=? p) && (p <? off + size)) eqn:Ew.
  - unfold src_of_visibles. destruct (visible_at vs p) as [v|] eqn:Ev.
    + apply visible_at_some in Ev. destruct Ev as [Hv Hc]. unfold vcovers in Hc.
      destruct (view_of_make off (off + size) v) as [w Ew']; [lia|].
      assert (Hw : In w (view_of off (off + size) v)) by (rewrite Ew'; left; auto).
      pose proof (view_of_in _ _ _ _ Hw) as P.
      rewrite (views_find_unique _ w p Hok').
      * destruct P as [P1 [_ [P3 [P4 [P5 P6]]]]]. rewrite P1. f_equal. f_equal. lia.
      * unfold view_from_visibles. apply in_flat_map. exists v. auto.
      * unfold cvcovers. unfold cv_end in P. lia.
    + rewrite views_find_none; auto. intros w Hw.
      unfold view_from_visibles in Hw. apply in_flat_map in Hw. destruct Hw as [v [Hv Hw]].
      pose proof (find_none _ _ Ev v Hv) as Hn. simpl in Hn. unfold vcovers in Hn.
      pose proof (view_of_in _ _ _ _ Hw) as P. unfold cvcovers. unfold cv_end in P. lia.
  - rewrite views_find_none; auto. intros w Hw.
    unfold view_from_visibles in Hw. apply in_flat_map in Hw. destruct Hw as [v [Hv Hw]].
    pose proof (view_of_in _ _ _ _ Hw) as P. unfold cvcovers. unfold cv_end in P. lia.
Qed.

(* ================================================================== *)
(* buffers                                                             *)
(* ================================================================== *)
Lemma write_at_length : forall buf pos bs, length (write_at buf pos bs) = length buf.
Proof.
  induction buf as [|x t IH]; intros pos bs; simpl; auto.
  destruct pos as [|k]; [destruct bs as [|b bs']|]; simpl; auto.
Qed.

Lemma write_at_before : forall buf pos bs i d, (i < pos)%nat ->
  nth i (write_at buf pos bs) d = nth i buf d.
Proof.
  induction buf as [|x t IH]; intros pos bs i d H; simpl; auto.
  destruct pos as [|k]; [lia|]. destruct i as [|j]; simpl; auto. apply IH. lia.
Qed.

Lemma write_at_after : forall buf pos bs i d, (pos + length bs <= i)%nat ->
  nth i (write_at buf pos bs) d = nth i buf d.
Proof.
  induction buf as [|x t IH]; intros pos bs i d H; simpl; auto.
  destruct pos as [|k].
  - destruct bs as [|b bs']; simpl; auto. simpl in H. destruct i as [|j]; [lia|]. simpl.
    apply IH. simpl. lia.
  - destruct i as [|j]; [lia|]. simpl. apply IH. lia.
Qed.

Lemma write_at_inside : forall buf pos bs i d, (pos <= i)%nat -> (i < pos + length bs)%nat ->
  (i < length buf)%nat -> nth i (write_at buf pos bs) d = nth (i - pos) bs d.
Proof.
  induction buf as [|x t IH]; intros pos bs i d H1 H2 H3; simpl in *; [lia|].
  destruct pos as [|k].
  - destruct bs as [|b bs']; simpl in *; [lia|]. destruct i as [|j]; simpl; auto.
    rewrite IH; simpl; try lia. f_equal. lia.
  - destruct i as [|j]; [lia|]. simpl. apply IH; lia.
Qed.

Lemma nth_skipn : forall {A} b (l : list A) j d, nth j (skipn b l) d = nth (b + j) l d.
Proof.
  induction b as [|b IH]; intros l j d; simpl; auto.
  destruct l as [|x l]; simpl; auto. destruct j; reflexivity.
Qed.

Lemma nth_firstn_lt : forall {A} k (l : list A) j d, (j < k)%nat -> nth j (firstn k l) d = nth j l d.
Proof.
  induction k as [|k IH]; intros l j d H; [lia|].
  destruct l as [|x l]; simpl; auto. destruct j as [|j]; simpl; auto. apply IH. lia.
Qed.

Lemma nth_repeat0 : forall n j, nth j (repeat 0 n) 0 = 0.
Proof. induction n as [|n IH]; intros j; simpl; destruct j; auto. Qed.

(* ================================================================== *)
(* the read loop                                                       *)
(* ================================================================== *)
Definition read_body (src : chunk_source) (offset : N) (w : chunk_view) (st1 : rstate) : rstate * bool :=
  let cstart := N.max (cv_logic w) (r_start st1) in
  let cstop := N.min (cv_logic w + cv_size w) (r_start st1 + r_rem st1) in
  if cstop <=? cstart then (st1, false)
  else
    let boff := cstart - cv_logic w + cv_off w in
    let blen := cstop - cstart in
    let slice := read_chunk_slice src w boff blen in
    let copied := N.min blen (N.of_nat (length slice)) in
    ({| r_buf := write_at (r_buf st1) (N.to_nat (r_start st1 - offset)) (firstn (N.to_nat copied) slice);
        r_start := r_start st1 + copied; r_rem := r_rem st1 - copied; r_n := r_n st1 + copied |}, false).

Definition gap_state (offset : N) (w : chunk_view) (st : rstate) : rstate :=
  let gap := cv_logic w - r_start st in
  let zeroed := N.min gap (r_rem st) in
  {| r_buf := zero_at (r_buf st) (r_start st - offset) zeroed;
     r_start := cv_logic w; r_rem := r_rem st - gap; r_n := r_n st + zeroed |}.

Lemma read_step_eq : forall src offset w st,
  read_step src offset w st =
  if r_start st <? cv_logic w then
    if r_rem (gap_state offset w st) =? 0 then (gap_state offset w st, true)
    else read_body src offset w (gap_state offset w st)
  else read_body src offset w st.
Proof. reflexivity. Qed.

Section Read.
  Variables (src : chunk_source) (V : list chunk_view) (fs : N) (buf0 : list N) (off : N).

  Definition spec (q : N) : N := byte_of src (src_of_views V q).

  Definition rinv (st : rstate) : Prop :=
    length (r_buf st) = length buf0 /\
    r_n st + r_rem st = N.of_nat (length buf0) /\
    (0 < r_rem st -> r_start st = off + r_n st) /\
    (r_n st = 0 \/ off + r_n st <= fs) /\
    (forall i, (i < length buf0)%nat ->
       nth i (r_buf st) 0 = if N.of_nat i <? r_n st then spec (off + N.of_nat i) else nth i buf0 0).

  Lemma rinv_advance : forall st bs k rem' start',
    rinv st -> 0 < r_rem st -> k = N.of_nat (length bs) -> k <= r_rem st ->
    (forall j, (j < length bs)%nat -> nth j bs 0 = spec (r_start st + N.of_nat j)) ->
    off + r_n st + k <= fs ->
    rem' = r_rem st - k -> (0 < rem' -> start' = r_start st + k) ->
    rinv {| r_buf := write_at (r_buf st) (N.to_nat (r_start st - off)) bs;
            r_start := start'; r_rem := rem'; r_n := r_n st + k |}.
  Proof.
    intros st bs k rem' start' [I1 [I2 [I3 [I4 I5]]]] Hrem Hk Hle Hbs Hfs Hrem' Hstart'.
    specialize (I3 Hrem).
    unfold rinv. simpl. repeat split.
    - rewrite write_at_length. auto.
    - lia.
    - intros H. rewrite (Hstart' H). lia.
    - right. lia.
    - intros i Hi. specialize (I5 i Hi).
      assert (Epos : N.to_nat (r_start st - off) = N.to_nat (r_n st)) by lia. rewrite Epos.
      destruct (N.of_nat i <? r_n st) eqn:E1.
      + rewrite write_at_before by lia. rewrite I5.
        replace (N.of_nat i <? r_n st + k) with true by lia. reflexivity.
      + destruct (N.of_nat i <? r_n st + k) eqn:E2.
        * rewrite write_at_inside by lia. rewrite Hbs by lia. f_equal. lia.
        * rewrite write_at_after by lia. exact I5.
  Qed.

  (* the bytes of a gap before the next view are zero in the specification *)
  Lemma spec_before_views : forall ws q, views_ok ws ->
    src_of_views V q = src_of_views ws q ->
    (forall w, In w ws -> q < cv_logic w) -> spec q = 0.
  Proof.
    intros ws q Hok E Hb. unfold spec. rewrite E. unfold src_of_views.
    rewrite views_find_none; auto. intros w Hw. specialize (Hb w Hw). unfold cvcovers. lia.
  Qed.

  Lemma before_first : forall w rest q, views_ok (w :: rest) -> q < cv_logic w ->
    forall w', In w' (w :: rest) -> q < cv_logic w'.
  Proof.
    intros w rest q [Hs Hf] Hq w' [Hw'|Hw']; subst; auto.
    pose proof (ss_in_cons _ _ _ _ Hs Hw') as Hle. simpl in Hle.
    inversion Hf as [|? ? Hw _]; subst. unfold cv_end in *. lia.
  Qed.

  Definition rest_ok (st : rstate) (ws : list chunk_view) : Prop :=
    0 < r_rem st -> forall q, r_start st <= q -> src_of_views V q = src_of_views ws q.

  Lemma gap_step : forall w rest st,
    views_ok (w :: rest) -> cv_end w <= fs ->
    rinv st -> 0 < r_rem st -> rest_ok st (w :: rest) -> r_start st < cv_logic w ->
    rinv (gap_state off w st) /\ rest_ok (gap_state off w st) (w :: rest) /\
    (0 < r_rem (gap_state off w st) -> r_start (gap_state off w st) = cv_logic w).
  Proof.
    intros w rest st Hok Hend Hinv Hrem Hrest Hgap.
    pose proof Hinv as [I1 [I2 [I3 [I4 I5]]]]. specialize (I3 Hrem).
    assert (Hne : cv_logic w < cv_end w).
    { destruct Hok as [_ Hf]. inversion Hf; subst. auto. }
    unfold gap_state, zero_at. split; [|split].
    - apply rinv_advance; auto.
      + rewrite repeat_length. lia.
      + lia.
      + intros j Hj. rewrite repeat_length in Hj. rewrite nth_repeat0. symmetry.
        apply (spec_before_views (w :: rest)); auto.
        * apply Hrest; auto. lia.
        * apply before_first; auto. lia.
      + unfold cv_end in *. lia.
      + lia.
      + simpl. lia.
    - unfold rest_ok. simpl. intros H q Hq. apply Hrest; auto. lia.
    - simpl. auto.
  Qed.

  Lemma body_step : forall w rest st,
    views_ok (w :: rest) -> cv_end w <= fs ->
    cv_off w + cv_size w <= N.of_nat (length (src (cv_fid w))) ->
    rinv st -> 0 < r_rem st -> rest_ok st (w :: rest) -> cv_logic w <= r_start st ->
    snd (read_body src off w st) = false /\
    rinv (fst (read_body src off w st)) /\ rest_ok (fst (read_body src off w st)) rest.
  Proof.
    intros w rest st Hok Hend Hdata Hinv Hrem Hrest Hlog.
    pose proof Hinv as [I1 [I2 [I3 [I4 I5]]]]. specialize (I3 Hrem).
    unfold read_body.
    rewrite (N.max_r (cv_logic w) (r_start st)) by lia.
    destruct (N.min (cv_logic w + cv_size w) (r_start st + r_rem st) <=? r_start st) eqn:Eskip.
    - (* the view ends before the read position: continue *)
      simpl. split; auto. split; auto.
      intros H q Hq. rewrite (Hrest H q Hq). rewrite src_views_cons.
      replace (cvcovers w q) with false; auto. unfold cvcovers. lia.
    - set (cstop := N.min (cv_logic w + cv_size w) (r_start st + r_rem st)) in *.
      set (boff := r_start st - cv_logic w + cv_off w).
      set (blen := cstop - r_start st).
      assert (Hslice_len : length (read_chunk_slice src w boff blen) = N.to_nat blen).
      { unfold read_chunk_slice. rewrite firstn_length, skipn_length. unfold blen, boff, cstop in *. lia. }
      assert (Hslice_nth : forall j, (j < N.to_nat blen)%nat ->
                nth j (read_chunk_slice src w boff blen) 0 = nth (N.to_nat boff + j) (src (cv_fid w)) 0).
      { intros j Hj. unfold read_chunk_slice. rewrite nth_firstn_lt.
        - apply nth_skipn.
        - unfold blen, boff, cstop in *. lia. }
      rewrite Hslice_len.
      replace (N.min blen (N.of_nat (N.to_nat blen))) with blen by lia.
      simpl. split; auto. split.
      + apply rinv_advance; auto.
        * rewrite firstn_length, Hslice_len. lia.
        * unfold blen, cstop. lia.
        * intros j Hj. rewrite firstn_length, Hslice_len in Hj.
          rewrite nth_firstn_lt by lia. rewrite Hslice_nth by lia.
          unfold spec. rewrite (Hrest Hrem) by lia. rewrite src_views_cons.
          replace (cvcovers w (r_start st + N.of_nat j)) with true
            by (unfold cvcovers, blen, cstop in *; lia).
          simpl. f_equal. unfold boff. lia.
        * unfold blen, cstop, cv_end in *. lia.
      + intros H q Hq. simpl in H, Hq. rewrite (Hrest Hrem q) by lia. rewrite src_views_cons.
        replace (cvcovers w q) with false; auto. unfold cvcovers, blen, cstop in *. lia.
  Qed.

  Lemma read_loop_spec : forall ws st,
    views_ok ws -> Forall (fun w => cv_end w <= fs) ws ->
    Forall (fun w => cv_off w + cv_size w <= N.of_nat (length (src (cv_fid w)))) ws ->
    rinv st -> rest_ok st ws ->
    rinv (read_loop src off ws st) /\ rest_ok (read_loop src off ws st) [].
  Proof.
    induction ws as [|w rest IH]; intros st Hok Hend Hdata Hinv Hrest; simpl.
    - auto.
    - destruct (r_rem st =? 0) eqn:E0.
      + split; auto. intros H. lia.
      + assert (Hrem : 0 < r_rem st) by lia.
        inversion Hend as [|? ? Hend1 Hend']; subst. inversion Hdata as [|? ? Hd1 Hd']; subst.
        pose proof (iok_tail _ _ _ _ Hok) as Hok'.
        rewrite read_step_eq.
        destruct (r_start st <? cv_logic w) eqn:Eg.
        * destruct (gap_step w rest st Hok Hend1 Hinv Hrem Hrest) as [G1 [G2 G3]]; [lia|].
          destruct (r_rem (gap_state off w st) =? 0) eqn:E1.
          -- split; auto. intros H. lia.
          -- assert (Hrem1 : 0 < r_rem (gap_state off w st)) by lia.
             destruct (body_step w rest (gap_state off w st) Hok Hend1 Hd1 G1 Hrem1 G2) as [B1 [B2 B3]];
               [rewrite (G3 Hrem1); lia|].
             destruct (read_body src off w (gap_state off w st)) as [st2 brk]. simpl in *. subst brk.
             apply IH; auto.
        * destruct (body_step w rest st Hok Hend1 Hd1 Hinv Hrem Hrest) as [B1 [B2 B3]]; [lia|].
          destruct (read_body src off w st) as [st2 brk]. simpl in *. subst brk.
          apply IH; auto.
  Qed.

  (* ReadAt on any well-formed view list: n, the bytes, the untouched cells, EOF *)
  Theorem read_at_views :
    views_ok V -> Forall (fun w => cv_end w <= fs) V ->
    Forall (fun w => cv_off w + cv_size w <= N.of_nat (length (src (cv_fid w)))) V ->
    let r := read_at src V fs buf0 off in
    let len := N.of_nat (length buf0) in
    rr_n r = N.min len (fs - off) /\
    length (rr_buf r) = length buf0 /\
    rr_eof r = (fs <=? off + len) /\
    forall i, (i < length buf0)%nat ->
      nth i (rr_buf r) 0 = if N.of_nat i <? rr_n r then spec (off + N.of_nat i) else nth i buf0 0.
  Proof.
    intros Hok Hend Hdata.
    set (st0 := {| r_buf := buf0; r_start := off; r_rem := N.of_nat (length buf0); r_n := 0 |}).
    assert (Hinv0 : rinv st0).
    { subst st0. unfold rinv. cbn [r_buf r_start r_rem r_n]. repeat split; auto; try lia.
      intros i Hi. replace (N.of_nat i <? 0) with false by lia. reflexivity. }
    assert (Hrest0 : rest_ok st0 V) by (intros H q Hq; reflexivity).
    destruct (read_loop_spec V st0 Hok Hend Hdata Hinv0 Hrest0) as [Hinv Hrest].
    unfold read_at. fold st0. set (st := read_loop src off V st0) in *.
    cbv zeta.
    destruct ((0 <? r_rem st) && (r_start st <? fs)) eqn:Etail.
    - (* tail: zeros up to the file size *)
      assert (Hrem : 0 < r_rem st) by lia.
      set (delta := N.min (r_rem st) (fs - r_start st)).
      pose proof Hinv as [I1 [I2 [I3 [I4 I5]]]]. specialize (I3 Hrem).
      assert (Hadv : rinv {| r_buf := write_at (r_buf st) (N.to_nat (r_start st - off)) (repeat 0 (N.to_nat delta));
                             r_start := r_start st + delta; r_rem := r_rem st - delta; r_n := r_n st + delta |}).
      { apply rinv_advance; auto.
        - rewrite repeat_length. lia.
        - unfold delta. lia.
        - intros j Hj. rewrite nth_repeat0. unfold spec. rewrite (Hrest Hrem) by lia. reflexivity.
        - unfold delta. lia. }
      destruct Hadv as [A1 [A2 [A3 [A4 A5]]]]. simpl in *.
      unfold zero_at. repeat split; auto. unfold delta. lia.
    - simpl. pose proof Hinv as [I1 [I2 [I3 [I4 I5]]]]. repeat split; auto. lia.
  Qed.
End Read.
