(* C19 proofs, part 4: the Filer's refill loops, exactness of a page, pagination,
   the refutations of the full statement. *)
From Coq Require Import List NArith Bool String Ascii Arith Lia.
From SW Require Import model.Listing proof.ListingBase proof.ListingStore proof.ListingPattern.
Import ListNotations.
Local Open Scope string_scope.
Local Open Scope list_scope.
Local Notation length := List.length.

(* ================= small facts ================= *)
Lemma eexp_negb_elive : forall e, eexp e = negb (elive e).
Proof. intros [n b]. unfold eexp, elive. simpl. rewrite negb_involutive. reflexivity. Qed.

Lemma length_filter_map : forall {A B} (f : B -> bool) (g : A -> B) l,
  length (filter f (map g l)) = length (filter (fun x => f (g x)) l).
Proof. induction l as [|x l IH]; simpl; auto. destruct (f (g x)); simpl; auto. Qed.

Lemma filter_map_comm : forall {A B} (f : B -> bool) (g : A -> B) l,
  filter f (map g l) = map g (filter (fun x => f (g x)) l).
Proof. induction l as [|x l IH]; simpl; auto. destruct (f (g x)); simpl; rewrite IH; auto. Qed.

Lemma firstn_app_firstn : forall {A} m k (c : list A), firstn m c ++ firstn k (skipn m c) = firstn (m + k) c.
Proof. intros. symmetry. apply firstn_add. Qed.

Lemma wf_incl_firstn_cand : forall start incl p d m e, In e (firstn m (cand start incl p d)) -> In e d.
Proof. intros. eapply cand_in. eapply firstn_in. eauto. Qed.

(* ================= one store call seen from the Filer ================= *)
Lemma do_list_spec : forall s d start incl L p r,
  wf d -> do_list s d start incl L p = Some r -> r_flag r = false ->
  let c := cand start incl p d in
  r_names r = map ename (filter elive (firstn L c)) /\
  r_count r = length (filter eexp (firstn L c)) /\
  r_dir r = del_expired (firstn L c) d /\
  (r_last r <> "" -> cand (r_last r) false p (r_dir r) = skipn L c) /\
  (r_last r = "" -> firstn L c = []) /\
  r_restart r = false.
Proof.
  intros s d start incl L p r Hwf H Hfl. unfold do_list in H.
  destruct (wrapper_list s d start incl L p) as [w|] eqn:Ew; [|discriminate].
  inversion H; subst r; clear H. cbn [r_flag] in Hfl. cbn [r_names r_count r_dir r_last r_restart].
  destruct (wrapper_list_spec s d start incl L p w Hwf Ew Hfl) as [H1 [H2 H3]].
  rewrite H1 in *. repeat split; auto.
Qed.

(* ================= doListValidEntries ================= *)
(* after consuming the first m candidates *)
Definition vinv (d0 : dirst) (c : list entry) (p : string) (L0 : nat) (r : lres) (m : nat) : Prop :=
  r_names r = map ename (filter elive (firstn m c)) /\
  r_dir r = del_expired (firstn m c) d0 /\
  (0 < r_count r -> r_last r <> "") /\
  (r_last r <> "" -> cand (r_last r) false p (r_dir r) = skipn m c) /\
  firstn L0 (filter elive c) = filter elive (firstn m c) ++ firstn (r_count r) (filter elive (skipn m c)).

Lemma valid_loop_flag_mono : forall fuel s p r r',
  valid_loop fuel s p r = Some r' -> r_flag r = true -> r_flag r' = true.
Proof.
  induction fuel as [|f IH]; intros s p r r' H Hf; cbn [valid_loop] in H.
  - destruct (r_count r); [congruence|discriminate].
  - destruct (r_count r) eqn:Ec; [congruence|].
    destruct (do_list s (r_dir r) (r_last r) false (S n) p) as [r1|]; [|discriminate].
    eapply IH; eauto. cbn [r_flag]. rewrite Hf. reflexivity.
Qed.

Lemma valid_loop_spec : forall fuel s p d0 c L0 r m r',
  wf d0 -> (forall e, In e c -> In e d0) ->
  vinv d0 c p L0 r m -> valid_loop fuel s p r = Some r' -> r_flag r' = false ->
  exists m', vinv d0 c p L0 r' m' /\ r_count r' = 0.
Proof.
  induction fuel as [|f IH]; intros s p d0 c L0 r m r' Hwf Hc Hinv H Hfl; cbn [valid_loop] in H.
  - destruct (r_count r) eqn:Ec; [|discriminate]. inversion H; subst r'. exists m. auto.
  - destruct (r_count r) as [|k] eqn:Ec; [inversion H; subst r'; exists m; auto|].
    destruct (do_list s (r_dir r) (r_last r) false (S k) p) as [r1|] eqn:E1; [|discriminate].
    destruct Hinv as [I1 [I2 [I3 [I4 I5]]]].
    assert (Hl : r_last r <> "") by (apply I3; lia).
    specialize (I4 Hl).
    assert (Hfl1 : r_flag r || r_flag r1 = false).
    { apply not_true_iff_false. intro Ef.
      rewrite (valid_loop_flag_mono _ _ _ _ _ H) in Hfl; [discriminate|]. cbn [r_flag]. exact Ef. }
    apply orb_false_iff in Hfl1. destruct Hfl1 as [_ Hfl1].
    assert (Hwf1 : wf (r_dir r)) by (rewrite I2; apply wf_del_expired; auto).
    destruct (do_list_spec s (r_dir r) (r_last r) false (S k) p r1 Hwf1 E1 Hfl1) as [D1 [D2 [D3 [D4 [D5 _]]]]].
    rewrite I4 in *.
    eapply (IH s p d0 c L0 _ (m + S k) r' Hwf Hc); [|exact H|exact Hfl].
    unfold vinv. cbn [r_names r_dir r_count r_last].
    split; [|split; [|split; [|split]]].
    + rewrite I1, D1, <- map_app, <- filter_app, firstn_app_firstn. reflexivity.
    + rewrite D3, I2, del_expired_app, firstn_app_firstn. reflexivity.
    + intros Hpos Hlast. specialize (D5 Hlast). rewrite D5 in D2. simpl in D2. lia.
    + intros Hlast. rewrite (D4 Hlast). rewrite skipn_add. reflexivity.
    + rewrite I5, Ec. rewrite (firstn_filter_refill elive (skipn m c) (S k)).
      rewrite app_assoc, <- filter_app, firstn_app_firstn, <- skipn_add.
      rewrite D2. do 2 f_equal. f_equal. apply filter_ext_in_eq. intros e _. symmetry. apply eexp_negb_elive.
Qed.

Lemma list_valid_spec : forall s d start incl L p r,
  wf d -> list_valid s d start incl L p = Some r -> r_flag r = false ->
  exists m, vinv d (cand start incl p d) p L r m /\ r_count r = 0.
Proof.
  intros s d start incl L p r Hwf H Hfl. unfold list_valid in H.
  destruct (do_list s d start incl L p) as [r0|] eqn:E0; [|discriminate].
  assert (Hfl0 : r_flag r0 = false).
  { destruct (r_flag r0) eqn:Ef; [|reflexivity].
    rewrite (valid_loop_flag_mono _ _ _ _ _ H Ef) in Hfl. discriminate. }
  destruct (do_list_spec s d start incl L p r0 Hwf E0 Hfl0) as [D1 [D2 [D3 [D4 [D5 _]]]]].
  eapply (valid_loop_spec _ s p d (cand start incl p d) L r0 L); eauto.
  - intros e He. eapply cand_in; eauto.
  - unfold vinv. split; [exact D1|]. split; [exact D3|]. split; [|split; [exact D4|]].
    + intros Hpos Hlast. specialize (D5 Hlast). rewrite D5 in D2. simpl in D2. lia.
    + rewrite (firstn_filter_refill elive _ L). rewrite D2. do 2 f_equal. f_equal.
      apply filter_ext_in_eq. intros e _. symmetry. apply eexp_negb_elive.
Qed.

(* ================= doListPatternMatchedEntries / StreamListDirectoryEntries ================= *)
Definition okE (p rest excl : string) (e : entry) : bool := negb (missed p rest excl (ename e)).
Definition good (p rest excl : string) (e : entry) : bool := elive e && okE p rest excl e.

Lemma good_filter : forall p rest excl l, filter (good p rest excl) l = filter (okE p rest excl) (filter elive l).
Proof. intros. rewrite filter_filter. reflexivity. Qed.

Lemma missed_none : forall p n, missed p "" "" n = false.
Proof. intros. unfold missed. reflexivity. Qed.

Definition sinv (d0 : dirst) (c : list entry) (p rest excl : string) (L0 : nat) (r : lres) (m : nat) : Prop :=
  r_names r = map ename (filter (good p rest excl) (firstn m c)) /\
  r_dir r = del_expired (firstn m c) d0 /\
  (r_last r <> "" -> cand (r_last r) false p (r_dir r) = skipn m c) /\
  firstn L0 (filter (good p rest excl) c) =
    filter (good p rest excl) (firstn m c) ++ firstn (r_count r) (filter (good p rest excl) (skipn m c)).

Lemma pattern_list_spec : forall s d start incl L p rest excl r,
  wf d -> pattern_list s d start incl L p rest excl = Some r -> r_flag r = false ->
  exists m, sinv d (cand start incl p d) p rest excl L r m /\ r_restart r = false.
Proof.
  intros s d start incl L p rest excl r Hwf H Hfl. unfold pattern_list in H.
  destruct (list_valid s d start incl L p) as [r0|] eqn:E0; [|discriminate].
  set (c := cand start incl p d) in *.
  assert (Hr : r = {| r_count := length (filter (missed p rest excl) (r_names r0)); r_last := r_last r0;
                     r_names := filter (fun n => negb (missed p rest excl n)) (r_names r0); r_dir := r_dir r0;
                     r_flag := r_flag r0; r_restart := false |}).
  { destruct (String.eqb_spec rest "") as [Er|Er]; destruct (String.eqb_spec excl "") as [Ex|Ex];
      cbn [andb] in H; inversion H; subst; try reflexivity.
    f_equal.
    - rewrite filter_none; [reflexivity|]. intros. apply missed_none.
    - symmetry. apply filter_all. intros. rewrite missed_none. reflexivity. }
  clear H. subst r. cbn [r_flag] in Hfl.
  destruct (list_valid_spec s d start incl L p r0 Hwf E0 Hfl) as [m [[V1 [V2 [V3 [V4 V5]]]] V0]].
  fold c in V1, V2, V4, V5. rewrite V0 in V5. cbn [firstn] in V5. rewrite app_nil_r in V5.
  exists m. split; [|reflexivity]. unfold sinv. cbn [r_names r_dir r_last r_count].
  split; [|split; [exact V2|split; [exact V4|]]].
  - rewrite V1. rewrite filter_map_comm. rewrite good_filter. reflexivity.
  - rewrite (good_filter p rest excl c).
    rewrite (firstn_filter_refill (okE p rest excl) (filter elive c) L).
    assert (Hsk : skipn L (filter elive c) = filter elive (skipn m c)).
    { apply (firstn_app_skipn_eq _ (filter elive (firstn m c))); [apply filter_firstn_skipn|exact V5]. }
    rewrite V5, Hsk. rewrite <- !good_filter. do 2 f_equal.
    rewrite V1. rewrite length_filter_map. f_equal. apply filter_ext_in_eq. intros e _.
    unfold okE. rewrite negb_involutive. reflexivity.
Qed.

Lemma stream_loop_flag_mono : forall fuel s p rest excl r r',
  stream_loop fuel s p rest excl r = Some r' ->
  (r_flag r = true -> r_flag r' = true) /\ (r_restart r = true -> r_restart r' = true).
Proof.
  induction fuel as [|f IH]; intros s p rest excl r r' H; cbn [stream_loop] in H.
  - destruct (r_count r); [inversion H; subst; auto|discriminate].
  - destruct (r_count r) eqn:Ec; [inversion H; subst; auto|].
    destruct (pattern_list s (r_dir r) (r_last r) false (S n) p rest excl) as [r1|]; [|discriminate].
    destruct (IH _ _ _ _ _ _ H) as [H1 H2]. cbn [r_flag r_restart] in H1, H2.
    split; intros Hf; [apply H1|apply H2]; rewrite Hf; reflexivity.
Qed.

Lemma stream_loop_spec : forall fuel s p rest excl d0 c L0 r m r',
  wf d0 -> sinv d0 c p rest excl L0 r m -> stream_loop fuel s p rest excl r = Some r' ->
  r_flag r' = false -> r_restart r' = false ->
  exists m', sinv d0 c p rest excl L0 r' m' /\ r_count r' = 0.
Proof.
  induction fuel as [|f IH]; intros s p rest excl d0 c L0 r m r' Hwf Hinv H Hfl Hrs; cbn [stream_loop] in H.
  - destruct (r_count r) eqn:Ec; [|discriminate]. inversion H; subst r'. exists m. auto.
  - destruct (r_count r) as [|k] eqn:Ec; [inversion H; subst r'; exists m; auto|].
    destruct (pattern_list s (r_dir r) (r_last r) false (S k) p rest excl) as [r1|] eqn:E1; [|discriminate].
    destruct (stream_loop_flag_mono _ _ _ _ _ _ _ H) as [M1 M2]. cbn [r_flag r_restart] in M1, M2.
    assert (Hfl1 : r_flag r || r_flag r1 = false).
    { apply not_true_iff_false. intro Ef. rewrite (M1 Ef) in Hfl. discriminate. }
    assert (Hrs1 : r_restart r || String.eqb (r_last r) "" = false).
    { apply not_true_iff_false. intro Ef. rewrite (M2 Ef) in Hrs. discriminate. }
    apply orb_false_iff in Hfl1. destruct Hfl1 as [_ Hfl1].
    apply orb_false_iff in Hrs1. destruct Hrs1 as [_ Hl]. apply String.eqb_neq in Hl.
    destruct Hinv as [I1 [I2 [I4 I5]]]. specialize (I4 Hl).
    assert (Hwf1 : wf (r_dir r)) by (rewrite I2; apply wf_del_expired; auto).
    destruct (pattern_list_spec s (r_dir r) (r_last r) false (S k) p rest excl r1 Hwf1 E1 Hfl1)
      as [m1 [[P1 [P2 [P4 P5]]] _]].
    rewrite I4 in *.
    eapply (IH s p rest excl d0 c L0 _ (m + m1) r' Hwf); [|exact H|exact Hfl|exact Hrs].
    unfold sinv. cbn [r_names r_dir r_count r_last].
    split; [|split; [|split]].
    + rewrite I1, P1, <- map_app, <- filter_app, firstn_app_firstn. reflexivity.
    + rewrite P2, I2, del_expired_app, firstn_app_firstn. reflexivity.
    + intros Hlast. rewrite (P4 Hlast). rewrite skipn_add. reflexivity.
    + rewrite I5, Ec, P5. rewrite app_assoc, <- filter_app, firstn_app_firstn, <- skipn_add. reflexivity.
Qed.

(* the selection the implementation computes, entry-wise *)
Definition impl_sel (start : string) (incl : bool) (prefix pat excl : string) (d : dirst) : list entry :=
  filter (good (eff_prefix prefix pat) (snd (split_pattern pat)) excl) (cand start incl (eff_prefix prefix pat) d).

Lemma stream_list_spec : forall s d start incl L prefix pat excl r,
  wf d -> stream_list s d start incl L prefix pat excl = Some r -> r_flag r = false -> r_restart r = false ->
  r_names r = map ename (firstn L (impl_sel start incl prefix pat excl d)) /\
  exists m, r_dir r = del_expired (firstn m (cand start incl (eff_prefix prefix pat) d)) d.
Proof.
  intros s d start incl L prefix pat excl r Hwf H Hfl Hrs. unfold stream_list in H.
  set (p := eff_prefix prefix pat) in *. set (rest := snd (split_pattern pat)) in *.
  destruct (pattern_list s d start incl L p rest excl) as [r0|] eqn:E0; [|discriminate].
  destruct (stream_loop_flag_mono _ _ _ _ _ _ _ H) as [M1 _].
  assert (Hfl0 : r_flag r0 = false) by (destruct (r_flag r0); [rewrite M1 in Hfl; [discriminate|reflexivity]|reflexivity]).
  destruct (pattern_list_spec s d start incl L p rest excl r0 Hwf E0 Hfl0) as [m0 [Hinv _]].
  destruct (stream_loop_spec _ s p rest excl d _ L r0 m0 r Hwf Hinv H Hfl Hrs) as [m [[S1 [S2 [_ S5]]] S0]].
  rewrite S0 in S5. cbn [firstn] in S5. rewrite app_nil_r in S5.
  split; [|exists m; exact S2]. unfold impl_sel. fold p rest. rewrite S5. exact S1.
Qed.

(* under the static hypotheses the implementation's selection is the requested one *)
Lemma impl_sel_spec : forall start incl prefix pat excl d,
  pat_trigger prefix pat = false ->
  impl_sel start incl prefix pat excl d = filter (spec_sel start incl prefix pat excl) d.
Proof.
  intros start incl prefix pat excl d Ht. unfold impl_sel, cand. rewrite filter_filter.
  apply filter_ext_in_eq. intros e _. unfold sel, good, okE, spec_sel.
  rewrite <- (match_agrees prefix pat excl (ename e) Ht).
  destruct (after start incl (ename e)), (elive e), (String.prefix (eff_prefix prefix pat) (ename e)); reflexivity.
Qed.

Lemma spec_names_live : forall d d' start incl prefix pat excl,
  filter elive d' = filter elive d ->
  spec_names d' start incl prefix pat excl = spec_names d start incl prefix pat excl.
Proof.
  intros d d' start incl prefix pat excl H. unfold spec_names. f_equal.
  assert (E : forall l, filter (spec_sel start incl prefix pat excl) l =
                        filter (fun e => after start incl (ename e) && spec_match prefix pat excl (ename e)) (filter elive l)).
  { intros l. rewrite filter_filter. apply filter_ext_in_eq. intros e _. unfold spec_sel.
    rewrite andb_assoc. reflexivity. }
  rewrite !E, H. reflexivity.
Qed.

(* ================= ListDirectoryEntries: a page ================= *)
Lemma page_cut : forall {A} (M : list A) L,
  (if Nat.leb (S L) (length (firstn (S L) M)) then firstn L (firstn (S L) M) else firstn (S L) M) = firstn L M /\
  Nat.leb (S L) (length (firstn (S L) M)) = Nat.ltb L (length M).
Proof.
  intros A M L. rewrite firstn_length. split.
  - destruct (Nat.leb (S L) (Nat.min (S L) (length M))) eqn:El.
    + apply firstn_firstn_S.
    + apply Nat.leb_gt in El. rewrite (firstn_all2 M) by lia. rewrite (firstn_all2 M) by lia. reflexivity.
  - destruct (Nat.ltb L (length M)) eqn:El.
    + apply Nat.ltb_lt in El. apply Nat.leb_le. lia.
    + apply Nat.ltb_ge in El. apply Nat.leb_gt. lia.
Qed.

Theorem list_entries_exact : forall s d start incl L prefix pat excl names more r,
  wf d -> pat_trigger prefix pat = false ->
  list_entries s d start incl L prefix pat excl = Some (names, more, r) ->
  r_flag r = false -> r_restart r = false ->
  let M := spec_names d start incl prefix pat excl in
  names = firstn L M /\ more = Nat.ltb L (length M) /\
  wf (r_dir r) /\ filter elive (r_dir r) = filter elive d.
Proof.
  intros s d start incl L prefix pat excl names more r Hwf Ht H Hfl Hrs M. unfold list_entries in H.
  destruct (stream_list s d start incl (S L) prefix pat excl) as [r0|] eqn:E0; [|discriminate].
  cbv zeta in H. injection H as Hn Hm Hr. subst r0.
  destruct (stream_list_spec s d start incl (S L) prefix pat excl r Hwf E0 Hfl Hrs) as [S1 [m S2]].
  rewrite impl_sel_spec in S1 by auto. rewrite <- firstn_map in S1. fold (spec_names d start incl prefix pat excl) in S1.
  fold M in S1. rewrite S1 in Hn, Hm.
  destruct (page_cut M L) as [P1 P2].
  split; [rewrite <- P1; symmetry; exact Hn|]. split; [rewrite <- P2; symmetry; exact Hm|]. split.
  - rewrite S2. apply wf_del_expired. auto.
  - rewrite S2. apply del_expired_live; auto. intros e He. eapply wf_incl_firstn_cand; eauto.
Qed.

(* ================= expired entries never shorten the valid page ================= *)
Theorem list_valid_refill : forall s d start incl L p r,
  wf d -> list_valid s d start incl L p = Some r -> r_flag r = false ->
  r_names r = firstn L (map ename (filter elive (cand start incl p d))) /\
  filter elive (r_dir r) = filter elive d /\
  (forall e, In e d -> In e (r_dir r) \/ eexp e = true) /\
  (forall e, In e (r_dir r) -> In e d).
Proof.
  intros s d start incl L p r Hwf H Hfl.
  destruct (list_valid_spec s d start incl L p r Hwf H Hfl) as [m [[V1 [V2 [_ [_ V5]]]] V0]].
  rewrite V0 in V5. cbn [firstn] in V5. rewrite app_nil_r in V5.
  assert (Hinc : forall e, In e (firstn m (cand start incl p d)) -> In e d)
    by (intros; eapply wf_incl_firstn_cand; eauto).
  split; [rewrite V1, firstn_map, V5; reflexivity|]. split; [rewrite V2; apply del_expired_live; auto|].
  split.
  - intros e He. destruct (eexp e) eqn:Ee; [right; reflexivity|left].
    rewrite V2. apply del_expired_subset_live; auto. unfold elive. unfold eexp in Ee. rewrite Ee. reflexivity.
  - intros e He. rewrite V2 in He. eapply del_expired_in; eauto.
Qed.

(* on the leveldb stores the only store-level trigger is the position of the FIRST call *)
Lemma lvl_below_visited : forall d v start0 incl0 L0 p,
  wf d -> v = lvl_list d start0 incl0 L0 p -> v <> [] ->
  lvl_below (del_expired v d) (last_name v) p = false.
Proof.
  intros d v start0 incl0 L0 p Hwf Ev Hne. unfold lvl_below.
  destruct (seek (last_name v) (del_expired v d)) as [|h t] eqn:Es; [apply andb_false_r|].
  assert (Hwf' : wf (del_expired v d)) by (apply wf_del_expired; auto).
  destruct (seek_spec (last_name v) (del_expired v d) (proj1 Hwf')) as [_ [S2 _]].
  assert (Hh : sle (last_name v) (ename h)) by (apply S2; rewrite Es; left; auto).
  destruct (last_name_in v Hne) as [l' [e [El En]]].
  assert (Hp : String.prefix p (ename e) = true).
  { apply (lvl_iter_prefix p start0 incl0 (seek (if String.eqb start0 "" then p else start0) d) L0).
    unfold lvl_list in Ev. rewrite <- Ev, El. apply in_or_app. right. left. auto. }
  apply prefix_sle in Hp. rewrite <- En in Hp.
  assert (Hlt : String.ltb (ename h) p = false) by (apply ltb_false; eapply sle_trans; eauto).
  rewrite Hlt. apply andb_false_r.
Qed.

Lemma lvl_valid_loop_flag : forall fuel p r r',
  wf (r_dir r) -> valid_loop fuel Lvl p r = Some r' -> r_flag r = false ->
  (0 < r_count r -> lvl_below (r_dir r) (r_last r) p = false) -> r_flag r' = false.
Proof.
  induction fuel as [|f IH]; intros p r r' Hwf H Hfl Hb; cbn [valid_loop] in H.
  - destruct (r_count r); [congruence|discriminate].
  - destruct (r_count r) as [|k] eqn:Ec; [congruence|].
    destruct (do_list Lvl (r_dir r) (r_last r) false (S k) p) as [r1|] eqn:E1; [|discriminate].
    unfold do_list, wrapper_list in E1. inversion E1; subst r1; clear E1.
    cbn [w_vis w_last w_flag] in H.
    eapply IH; [| exact H | |]; cbn [r_dir r_flag r_count r_last].
    + apply wf_del_expired; auto.
    + rewrite Hfl. cbn [orb]. apply Hb. lia.
    + intros Hpos. eapply lvl_below_visited; eauto.
      intro E. rewrite E in Hpos. simpl in Hpos. lia.
Qed.

Theorem lvl_list_valid_flag : forall d incl L p r,
  wf d -> list_valid Lvl d "" incl L p = Some r -> r_flag r = false.
Proof.
  intros d incl L p r Hwf H. unfold list_valid in H.
  destruct (do_list Lvl d "" incl L p) as [r0|] eqn:E0; [|discriminate].
  unfold do_list, wrapper_list in E0. inversion E0; subst r0; clear E0.
  cbn [w_vis w_last w_flag r_dir] in H.
  eapply lvl_valid_loop_flag; [| exact H | |]; cbn [r_dir r_flag r_count r_last].
  - apply wf_del_expired; auto.
  - reflexivity.
  - intros Hpos. eapply lvl_below_visited; eauto.
    intro E. rewrite E in Hpos. simpl in Hpos. lia.
Qed.

(* ================= the full statement and its decidable trigger ================= *)
Definition exact_at (s : store) (d : dirst) (start : string) (incl : bool) (L : nat) (prefix pat excl : string) : Prop :=
  exists names more r,
    list_entries s d start incl L prefix pat excl = Some (names, more, r) /\
    names = firstn L (spec_names d start incl prefix pat excl) /\
    more = Nat.ltb L (length (spec_names d start incl prefix pat excl)).

(* the dynamic triggers of one call: a store-level trigger was hit (leveldb: start below the
   prefix range; generic path: a re-query), a refill restarted from "", or no termination *)
Definition run_trigger (s : store) (d : dirst) (start : string) (incl : bool) (L : nat) (prefix pat excl : string) : bool :=
  match list_entries s d start incl L prefix pat excl with
  | None => true
  | Some (_, _, r) => r_flag r || r_restart r
  end.

Theorem exact_partial : forall s d start incl L prefix pat excl,
  wf d -> pat_trigger prefix pat = false -> run_trigger s d start incl L prefix pat excl = false ->
  exact_at s d start incl L prefix pat excl.
Proof.
  intros s d start incl L prefix pat excl Hwf Ht Hr. unfold run_trigger in Hr.
  destruct (list_entries s d start incl L prefix pat excl) as [[[names more] r]|] eqn:E; [|discriminate].
  apply orb_false_iff in Hr. destruct Hr as [Hfl Hrs].
  destruct (list_entries_exact s d start incl L prefix pat excl names more r Hwf Ht E Hfl Hrs) as [H1 [H2 _]].
  exists names, more, r. auto.
Qed.

(* ================= pagination by the last returned name ================= *)
Lemma last_str_map : forall l, last_str (map ename l) = last_name l.
Proof.
  induction l as [|x l IH]; simpl; auto. rewrite IH. destruct l; reflexivity.
Qed.

Lemma skipn_map' : forall {A B} (f : A -> B) n l, skipn n (map f l) = map f (skipn n l).
Proof. induction n as [|n IH]; intros l; simpl; auto. destruct l; simpl; auto. Qed.

Lemma spec_names_cont : forall d start incl prefix pat excl L,
  wf d -> firstn L (spec_names d start incl prefix pat excl) <> [] ->
  spec_names d (last_str (firstn L (spec_names d start incl prefix pat excl))) false prefix pat excl =
  skipn L (spec_names d start incl prefix pat excl).
Proof.
  intros d start incl prefix pat excl L [Hs _] Hne. unfold spec_names in *.
  rewrite firstn_map in *. rewrite last_str_map, skipn_map'. f_equal.
  set (g := fun e : entry => elive e && spec_match prefix pat excl (ename e)).
  assert (E : forall st inc, filter (spec_sel st inc prefix pat excl) d =
                             filter (fun e => after st inc (ename e) && g e) d).
  { intros. apply filter_ext_in_eq. intros e _. unfold spec_sel, g.
    destruct (elive e), (after st inc (ename e)); reflexivity. }
  rewrite !E in *. apply (sel_cont g d start incl); auto.
  - symmetry. apply firstn_skipn.
  - intro H. apply Hne. rewrite H. reflexivity.
Qed.

Theorem paginate_exact : forall fuel s d start incl L prefix pat excl pages,
  wf d -> pat_trigger prefix pat = false -> 0 < L ->
  paginate fuel s d start incl L prefix pat excl = Some (pages, false, false) ->
  List.concat pages = spec_names d start incl prefix pat excl.
Proof.
  induction fuel as [|f IH]; intros s d start incl L prefix pat excl pages Hwf Ht HL H; [discriminate|].
  cbn [paginate] in H.
  destruct (list_entries s d start incl L prefix pat excl) as [[[names more] r]|] eqn:E; [|discriminate].
  destruct (more && negb (is_nil names)) eqn:Ec.
  - destruct (paginate f s (r_dir r) (last_str names) false L prefix pat excl) as [[[pages' fl] rs]|] eqn:E2; [|discriminate].
    injection H as Hp Hf Hr. apply orb_false_iff in Hf, Hr. destruct Hf as [Hf1 Hf2]. destruct Hr as [Hr1 Hr2]. subst fl rs pages.
    destruct (list_entries_exact s d start incl L prefix pat excl names more r Hwf Ht E Hf1 Hr1) as [Hn [Hm [Hwf' Hlive]]].
    apply andb_true_iff in Ec. destruct Ec as [_ Hnn]. apply negb_true_iff in Hnn. apply is_nil_false in Hnn.
    cbn [List.concat]. rewrite (IH s (r_dir r) (last_str names) false L prefix pat excl pages' Hwf' Ht HL E2).
    rewrite (spec_names_live d (r_dir r)) by exact Hlive.
    rewrite Hn. rewrite spec_names_cont; [apply firstn_skipn|auto|rewrite <- Hn; auto].
  - injection H as Hp Hf Hr. subst pages.
    destruct (list_entries_exact s d start incl L prefix pat excl names more r Hwf Ht E Hf Hr) as [Hn [Hm _]].
    cbn [List.concat]. rewrite app_nil_r. rewrite Hn.
    apply andb_false_iff in Ec. destruct Ec as [Ec|Ec].
    + rewrite Hm in Ec. apply Nat.ltb_ge in Ec. apply firstn_all2. auto.
    + apply negb_false_iff in Ec. apply is_nil_true in Ec. rewrite Hn in Ec.
      apply firstn_nil_inv in Ec; [|auto]. rewrite Ec. destruct L; reflexivity.
Qed.

(* the matches are strictly increasing, hence pairwise different *)
Lemma sorted_nodup_names : forall l, sorted l -> NoDup (map ename l).
Proof.
  intros l H. induction H as [|e l Hlt Hs IH]; simpl; constructor; auto.
  intro Hin. apply in_map_iff in Hin. destruct Hin as [x [Hx Hin]].
  specialize (Hlt x Hin). rewrite Hx in Hlt. eapply slt_irrefl; eauto.
Qed.

Theorem spec_names_nodup : forall d start incl prefix pat excl,
  wf d -> NoDup (spec_names d start incl prefix pat excl).
Proof. intros d start incl prefix pat excl [Hs _]. apply sorted_nodup_names. apply sorted_filter. auto. Qed.

(* ---- the gRPC style: follow StreamListDirectoryEntries' lastFileName ---- *)
Lemma stream_list_inv : forall s d start incl L prefix pat excl r,
  wf d -> stream_list s d start incl L prefix pat excl = Some r -> r_flag r = false -> r_restart r = false ->
  exists m, sinv d (cand start incl (eff_prefix prefix pat) d) (eff_prefix prefix pat) (snd (split_pattern pat)) excl L r m /\
            r_count r = 0.
Proof.
  intros s d start incl L prefix pat excl r Hwf H Hfl Hrs. unfold stream_list in H.
  set (p := eff_prefix prefix pat) in *. set (rest := snd (split_pattern pat)) in *.
  destruct (pattern_list s d start incl L p rest excl) as [r0|] eqn:E0; [|discriminate].
  destruct (stream_loop_flag_mono _ _ _ _ _ _ _ H) as [M1 _].
  assert (Hfl0 : r_flag r0 = false) by (apply not_true_iff_false; intro Ef; rewrite (M1 Ef) in Hfl; discriminate).
  destruct (pattern_list_spec s d start incl L p rest excl r0 Hwf E0 Hfl0) as [m0 [Hinv _]].
  eapply stream_loop_spec; eauto.
Qed.

Lemma pat_trigger_none : forall prefix, pat_trigger prefix "" = false.
Proof. intros. unfold pat_trigger, trig_both. cbn. rewrite andb_false_r. reflexivity. Qed.

Theorem paginate_stream_exact : forall fuel s d start incl L prefix pages,
  wf d -> 0 < L ->
  paginate_stream fuel s d start incl L prefix = Some (pages, false, false) ->
  List.concat pages = spec_names d start incl prefix "" "".
Proof.
  induction fuel as [|f IH]; intros s d start incl L prefix pages Hwf HL H; [discriminate|].
  cbn [paginate_stream] in H.
  destruct (stream_list s d start incl L prefix "" "") as [r|] eqn:E; [|discriminate].
  assert (Hspec : forall d' st inc, spec_names d' st inc prefix "" "" = map ename (impl_sel st inc prefix "" "" d')).
  { intros. unfold spec_names. rewrite impl_sel_spec by apply pat_trigger_none. reflexivity. }
  destruct (is_nil (r_names r)) eqn:En.
  - injection H as Hp Hf Hr. subst pages. apply is_nil_true in En.
    destruct (stream_list_spec s d start incl L prefix "" "" r Hwf E Hf Hr) as [S1 _].
    rewrite En in S1. cbn [List.concat]. rewrite Hspec.
    symmetry in S1. apply map_eq_nil in S1. apply firstn_nil_inv in S1; [|auto]. rewrite S1. reflexivity.
  - destruct (paginate_stream f s (r_dir r) (r_last r) false L prefix) as [[[pages' fl] rs]|] eqn:E2; [|discriminate].
    injection H as Hp Hf Hr. subst pages.
    apply orb_false_iff in Hf. destruct Hf as [Hf1 Hf2]. subst fl.
    apply orb_false_iff in Hr. destruct Hr as [Hr Hl]. apply orb_false_iff in Hr. destruct Hr as [Hr1 Hr2]. subst rs.
    apply String.eqb_neq in Hl.
    destruct (stream_list_inv s d start incl L prefix "" "" r Hwf E Hf1 Hr1) as [m [[S1 [S2 [S4 S5]]] S0]].
    set (p := eff_prefix prefix "") in *. set (rest := snd (split_pattern "")) in *.
    set (c := cand start incl p d) in *.
    rewrite S0 in S5. cbn [firstn] in S5. rewrite app_nil_r in S5.
    assert (Hwf' : wf (r_dir r)) by (rewrite S2; apply wf_del_expired; auto).
    cbn [List.concat]. rewrite (IH s (r_dir r) (r_last r) false L prefix pages' Hwf' HL E2).
    rewrite !Hspec. unfold impl_sel. fold p rest c. rewrite (S4 Hl).
    rewrite S1, <- S5, <- map_app. f_equal.
    transitivity (firstn L (filter (good p rest "") c) ++ skipn L (filter (good p rest "") c));
      [f_equal|apply firstn_skipn].
    symmetry. apply (firstn_app_skipn_eq _ (filter (good p rest "") (firstn m c))); [apply filter_firstn_skipn|exact S5].
Qed.

(* ================= the generic path does not terminate: not an artefact of the fuel ================= *)
Lemma pf_loop_stuck : forall fuel d L p last count batch acc rq,
  Nat.ltb count L = true -> batch <> [] ->
  filter (fun e => String.prefix p (ename e)) batch = [] ->
  mem_list d last false L = batch ->
  pf_loop fuel d L p last count batch acc rq = None.
Proof.
  induction fuel as [|f IH]; intros d L p last count batch acc rq Hc Hb Hf Hm.
  - cbn [pf_loop]. rewrite Hc. destruct batch; [congruence|reflexivity].
  - assert (Hn : is_nil batch = false) by (destruct batch; [congruence|reflexivity]).
    rewrite pf_loop_S. rewrite Hc, Hn, Hf. cbn [negb andb]. rewrite firstn_nil. cbn [length].
    rewrite Nat.add_0_r, Hc. rewrite del_expired_nil, Hm. apply IH; auto.
Qed.

(* END *)
