(* C19 proofs, part 4: the Filer's refill loops (termination and exactness of a page),
   pagination. *)
From Coq Require Import List NArith Bool String Ascii Arith Lia.
From SW Require Import model.Listing proof.ListingBase proof.ListingStore proof.ListingScan proof.ListingPattern.
Import ListNotations.
Local Open Scope string_scope.
Local Open Scope list_scope.
Local Notation length := List.length.

(* ================= small facts ================= *)
Lemma eexp_negb_elive : forall e, eexp e = negb (elive e).
Proof. intros [n b]. unfold eexp, elive. simpl. rewrite negb_involutive. reflexivity. Qed.

Lemma length_filter_map : forall {A B} (f : B -> bool) (g : A -> B) l,
  length (filter f (map g l)) = length (filter (fun x => f (g x)) l).
Proof. induction l as [|x l IH]; simpl; auto. destruct (f (g x)); simpl; auto. Qed.

Lemma filter_map_comm : forall {A B} (f : B -> bool) (g : A -> B) l,
  filter f (map g l) = map g (filter (fun x => f (g x)) l).
Proof. induction l as [|x l IH]; simpl; auto. destruct (f (g x)); simpl; rewrite IH; auto. Qed.

Lemma firstn_app_firstn : forall {A} m k (c : list A), firstn m c ++ firstn k (skipn m c) = firstn (m + k) c.
Proof. intros. symmetry. apply firstn_add. Qed.

Lemma wf_incl_firstn_cand : forall start incl p d m e, In e (firstn m (cand start incl p d)) -> In e d.
Proof. intros. eapply cand_in. eapply firstn_in. eauto. Qed.

Lemma firstn_nil_skipn : forall {A} n (l : list A), firstn n l = [] -> skipn n l = l.
Proof. intros A n l H. rewrite <- (firstn_skipn n l) at 2. rewrite H. reflexivity. Qed.

Lemma keep_last_ne : forall a b, a <> "" -> keep_last a b <> "".
Proof. intros a b Ha. unfold keep_last. destruct (String.eqb_spec b ""); auto. Qed.

Lemma skipn_shorter : forall {A} n (l : list A), firstn n l <> [] -> length (skipn n l) < length l.
Proof.
  intros A n l H. rewrite skipn_length. destruct n; [exfalso; apply H; reflexivity|].
  destruct l; [exfalso; apply H; reflexivity|]. simpl. lia.
Qed.

(* ================= the invariant of both refill loops ================= *)
(* [f] selects the entries the level passes on (live entries; live entries that match);
   the first m candidates have been consumed *)
Definition linv (f : entry -> bool) (d0 : dirst) (c : list entry) (p : string) (L0 : nat) (r : lres) (m : nat) : Prop :=
  r_names r = map ename (filter f (firstn m c)) /\
  r_dir r = del_expired (firstn m c) d0 /\
  (0 < r_count r -> r_last r <> "") /\
  (r_last r <> "" -> cand (r_last r) false p (r_dir r) = skipn m c) /\
  (r_last r = "" -> firstn m c = []) /\
  r_count r <= length (firstn m c) /\
  firstn L0 (filter f c) = filter f (firstn m c) ++ firstn (r_count r) (filter f (skipn m c)).

(* one refill round: the sub-listing started at lastFileName (exclusive) with limit = the
   number of entries still owed *)
Lemma linv_step : forall f d0 c p L0 r m k r1 m1,
  linv f d0 c p L0 r m -> r_count r = S k ->
  linv f (r_dir r) (cand (r_last r) false p (r_dir r)) p (S k) r1 m1 ->
  linv f d0 c p L0
    {| r_count := r_count r1; r_last := keep_last (r_last r) (r_last r1);
       r_names := r_names r ++ r_names r1; r_dir := r_dir r1 |} (m + m1).
Proof.
  intros f d0 c p L0 r m k r1 m1 [I1 [I2 [I3 [I4 [I6 [I7 I5]]]]]] Ec [P1 [P2 [P3 [P4 [P6 [P7 P5]]]]]].
  assert (Hl : r_last r <> "") by (apply I3; lia).
  rewrite (I4 Hl) in *.
  unfold linv. cbn [r_names r_dir r_count r_last].
  split; [|split; [|split; [|split; [|split; [|split]]]]].
  - rewrite I1, P1, <- map_app, <- filter_app, firstn_app_firstn. reflexivity.
  - rewrite P2, I2, del_expired_app, firstn_app_firstn. reflexivity.
  - intros _. apply keep_last_ne. exact Hl.
  - intros _. unfold keep_last. destruct (String.eqb_spec (r_last r1) "") as [E|E].
    + specialize (P6 E). rewrite P2, P6, del_expired_nil. rewrite (I4 Hl).
      rewrite skipn_add. symmetry. apply firstn_nil_skipn. exact P6.
    + rewrite (P4 E). rewrite skipn_add. reflexivity.
  - intros E. exfalso. apply (keep_last_ne (r_last r) (r_last r1) Hl). exact E.
  - rewrite firstn_add, app_length. lia.
  - rewrite I5, Ec, P5. rewrite app_assoc, <- filter_app, firstn_app_firstn, <- skipn_add. reflexivity.
Qed.

(* ================= one store call seen from the Filer ================= *)
Lemma do_list_linv : forall s d start incl L p, wf d ->
  exists r, do_list s d start incl L p = Some r /\ linv elive d (cand start incl p d) p L r L.
Proof.
  intros s d start incl L p Hwf. unfold do_list.
  destruct (wrapper_list_spec s d start incl L p Hwf) as [w [Ew [H1 [H2 H3]]]].
  rewrite Ew. eexists. split; [reflexivity|].
  unfold linv. cbn [r_names r_count r_dir r_last]. rewrite H1 in *.
  split; [reflexivity|]. split; [reflexivity|]. split; [|split; [exact H2|split; [exact H3|split]]].
  - intros Hpos Hl. rewrite (H3 Hl) in Hpos. simpl in Hpos. lia.
  - apply length_filter_le.
  - rewrite (firstn_filter_refill elive _ L). do 2 f_equal. f_equal.
    apply filter_ext_in_eq. intros e _. symmetry. apply eexp_negb_elive.
Qed.

(* ================= doListValidEntries ================= *)
Lemma valid_loop_spec : forall fuel s p d0 c L0 r m,
  wf d0 -> linv elive d0 c p L0 r m -> (0 < r_count r -> length (skipn m c) < fuel) ->
  exists r' m', valid_loop fuel s p r = Some r' /\ linv elive d0 c p L0 r' m' /\ r_count r' = 0.
Proof.
  induction fuel as [|f IH]; intros s p d0 c L0 r m Hwf Hinv Hfuel; cbn [valid_loop].
  - destruct (r_count r) eqn:Ec; [exists r, m; auto|exfalso; specialize (Hfuel ltac:(lia)); lia].
  - destruct (r_count r) as [|k] eqn:Ec; [exists r, m; auto|].
    assert (Hwf1 : wf (r_dir r)) by (destruct Hinv as [_ [I2 _]]; rewrite I2; apply wf_del_expired; auto).
    destruct (do_list_linv s (r_dir r) (r_last r) false (S k) p Hwf1) as [r1 [E1 P]].
    rewrite E1.
    pose proof (linv_step elive d0 c p L0 r m k r1 (S k) Hinv Ec P) as Hnew.
    apply (IH s p d0 c L0 _ (m + S k) Hwf Hnew).
    cbn [r_count]. intros Hpos.
    (* an expired entry was seen, so the round consumed at least one candidate *)
    destruct Hinv as [_ [_ [I3 [I4 _]]]]. destruct P as [_ [_ [_ [_ [_ [P7 _]]]]]].
    assert (Hl : r_last r <> "") by (apply I3; lia).
    rewrite (I4 Hl) in P7.
    assert (Hne : firstn (S k) (skipn m c) <> []) by (intro E; rewrite E in P7; simpl in P7; lia).
    specialize (Hfuel ltac:(lia)). rewrite skipn_add.
    pose proof (skipn_shorter (S k) (skipn m c) Hne). lia.
Qed.

Lemma list_valid_spec : forall s d start incl L p, wf d ->
  exists r m, list_valid s d start incl L p = Some r /\
              linv elive d (cand start incl p d) p L r m /\ r_count r = 0.
Proof.
  intros s d start incl L p Hwf. unfold list_valid.
  destruct (do_list_linv s d start incl L p Hwf) as [r0 [E0 P]]. rewrite E0.
  apply (valid_loop_spec _ s p d (cand start incl p d) L r0 L Hwf P).
  intros _. rewrite skipn_length. unfold cand.
  pose proof (length_filter_le (sel start incl p) d). lia.
Qed.

(* ================= doListPatternMatchedEntries / StreamListDirectoryEntries ================= *)
Definition okE (p rest excl : string) (e : entry) : bool := negb (missed p rest excl (ename e)).
Definition good (p rest excl : string) (e : entry) : bool := elive e && okE p rest excl e.

Lemma good_filter : forall p rest excl l, filter (good p rest excl) l = filter (okE p rest excl) (filter elive l).
Proof. intros. rewrite filter_filter. reflexivity. Qed.

Lemma missed_none : forall p n, missed p "" "" n = false.
Proof. intros. unfold missed. reflexivity. Qed.

Lemma pattern_list_spec : forall s d start incl L p rest excl, wf d ->
  exists r m, pattern_list s d start incl L p rest excl = Some r /\
              linv (good p rest excl) d (cand start incl p d) p L r m.
Proof.
  intros s d start incl L p rest excl Hwf. unfold pattern_list.
  destruct (list_valid_spec s d start incl L p Hwf) as [r0 [m [E0 [[V1 [V2 [V3 [V4 [V6 [V7 V5]]]]]] V0]]]].
  rewrite E0. set (c := cand start incl p d) in *.
  rewrite V0 in V5. cbn [firstn] in V5. rewrite app_nil_r in V5.
  set (r := {| r_count := length (filter (missed p rest excl) (r_names r0)); r_last := r_last r0;
               r_names := filter (fun n => negb (missed p rest excl n)) (r_names r0); r_dir := r_dir r0 |}).
  assert (Hr : (if String.eqb rest "" && String.eqb excl ""
                then Some {| r_count := 0; r_last := r_last r0; r_names := r_names r0; r_dir := r_dir r0 |}
                else Some r) = Some r).
  { destruct (String.eqb_spec rest "") as [Er|Er]; destruct (String.eqb_spec excl "") as [Ex|Ex];
      cbn [andb]; try reflexivity. subst rest excl. unfold r. f_equal. f_equal.
    - rewrite filter_none; [reflexivity|]. intros. apply missed_none.
    - symmetry. apply filter_all. intros. rewrite missed_none. reflexivity. }
  rewrite Hr. exists r, m. split; [reflexivity|].
  assert (Hcount : r_count r = length (filter (fun e => negb (okE p rest excl e)) (filter elive (firstn m c)))).
  { unfold r. cbn [r_count]. rewrite V1, length_filter_map. f_equal. apply filter_ext_in_eq. intros e _.
    unfold okE. rewrite negb_involutive. reflexivity. }
  unfold linv. split; [|split; [exact V2|split; [|split; [exact V4|split; [exact V6|split]]]]].
  - unfold r. cbn [r_names]. rewrite V1. rewrite filter_map_comm. rewrite good_filter. reflexivity.
  - intros Hpos Hl. specialize (V6 Hl). rewrite Hcount, V6 in Hpos. simpl in Hpos. lia.
  - rewrite Hcount. etransitivity; [apply length_filter_le|apply length_filter_le].
  - rewrite (good_filter p rest excl c).
    rewrite (firstn_filter_refill (okE p rest excl) (filter elive c) L).
    assert (Hsk : skipn L (filter elive c) = filter elive (skipn m c)).
    { apply (firstn_app_skipn_eq _ (filter elive (firstn m c))); [apply filter_firstn_skipn|exact V5]. }
    rewrite V5, Hsk. rewrite <- !good_filter. rewrite Hcount. reflexivity.
Qed.

Lemma stream_loop_spec : forall fuel s p rest excl d0 c L0 r m,
  wf d0 -> linv (good p rest excl) d0 c p L0 r m -> (0 < r_count r -> length (skipn m c) < fuel) ->
  exists r' m', stream_loop fuel s p rest excl r = Some r' /\
                linv (good p rest excl) d0 c p L0 r' m' /\ r_count r' = 0.
Proof.
  induction fuel as [|f IH]; intros s p rest excl d0 c L0 r m Hwf Hinv Hfuel; cbn [stream_loop].
  - destruct (r_count r) eqn:Ec; [exists r, m; auto|exfalso; specialize (Hfuel ltac:(lia)); lia].
  - destruct (r_count r) as [|k] eqn:Ec; [exists r, m; auto|].
    assert (Hwf1 : wf (r_dir r)) by (destruct Hinv as [_ [I2 _]]; rewrite I2; apply wf_del_expired; auto).
    destruct (pattern_list_spec s (r_dir r) (r_last r) false (S k) p rest excl Hwf1) as [r1 [m1 [E1 P]]].
    rewrite E1.
    pose proof (linv_step (good p rest excl) d0 c p L0 r m k r1 m1 Hinv Ec P) as Hnew.
    apply (IH s p rest excl d0 c L0 _ (m + m1) Hwf Hnew).
    cbn [r_count]. intros Hpos.
    destruct Hinv as [_ [_ [I3 [I4 _]]]]. destruct P as [_ [_ [_ [_ [_ [P7 _]]]]]].
    assert (Hl : r_last r <> "") by (apply I3; lia).
    rewrite (I4 Hl) in P7.
    assert (Hne : firstn m1 (skipn m c) <> []) by (intro E; rewrite E in P7; simpl in P7; lia).
    specialize (Hfuel ltac:(lia)). rewrite skipn_add.
    pose proof (skipn_shorter m1 (skipn m c) Hne). lia.
Qed.

(* the selection the implementation computes, entry-wise *)
Definition impl_sel (start : string) (incl : bool) (prefix pat excl : string) (d : dirst) : list entry :=
  filter (good (eff_prefix prefix pat) (snd (split_pattern pat)) excl) (cand start incl (eff_prefix prefix pat) d).

Lemma stream_list_inv : forall s d start incl L prefix pat excl, wf d ->
  exists r m, stream_list s d start incl L prefix pat excl = Some r /\
    linv (good (eff_prefix prefix pat) (snd (split_pattern pat)) excl) d
         (cand start incl (eff_prefix prefix pat) d) (eff_prefix prefix pat) L r m /\
    r_count r = 0.
Proof.
  intros s d start incl L prefix pat excl Hwf. unfold stream_list.
  set (p := eff_prefix prefix pat). set (rest := snd (split_pattern pat)).
  destruct (pattern_list_spec s d start incl L p rest excl Hwf) as [r0 [m0 [E0 P]]]. rewrite E0.
  apply (stream_loop_spec _ s p rest excl d (cand start incl p d) L r0 m0 Hwf P).
  intros _. rewrite skipn_length. unfold cand.
  pose proof (length_filter_le (sel start incl p) d). lia.
Qed.

Lemma stream_list_spec : forall s d start incl L prefix pat excl, wf d ->
  exists r, stream_list s d start incl L prefix pat excl = Some r /\
    r_names r = map ename (firstn L (impl_sel start incl prefix pat excl d)) /\
    wf (r_dir r) /\ filter elive (r_dir r) = filter elive d.
Proof.
  intros s d start incl L prefix pat excl Hwf.
  destruct (stream_list_inv s d start incl L prefix pat excl Hwf) as [r [m [E [[S1 [S2 [_ [_ [_ [_ S5]]]]]] S0]]]].
  exists r. split; [exact E|].
  rewrite S0 in S5. cbn [firstn] in S5. rewrite app_nil_r in S5.
  split; [unfold impl_sel; rewrite S5; exact S1|]. split.
  - rewrite S2. apply wf_del_expired. auto.
  - rewrite S2. apply del_expired_live; auto. intros e He. eapply wf_incl_firstn_cand; eauto.
Qed.

(* unless a prefix and a pattern are given together, the implementation's selection is the requested one *)
Lemma impl_sel_spec : forall start incl prefix pat excl d,
  trig_narrow prefix pat = false ->
  impl_sel start incl prefix pat excl d = filter (spec_sel start incl prefix pat excl) d.
Proof.
  intros start incl prefix pat excl d Ht. unfold impl_sel, cand. rewrite filter_filter.
  apply filter_ext_in_eq. intros e _. unfold sel, good, okE, spec_sel.
  rewrite <- (match_agrees_narrow prefix pat excl (ename e) Ht).
  destruct (after start incl (ename e)), (elive e), (String.prefix (eff_prefix prefix pat) (ename e)); reflexivity.
Qed.

Lemma spec_names_live : forall d d' start incl prefix pat excl,
  filter elive d' = filter elive d ->
  spec_names d' start incl prefix pat excl = spec_names d start incl prefix pat excl.
Proof.
  intros d d' start incl prefix pat excl H. unfold spec_names. f_equal.
  assert (E : forall l, filter (spec_sel start incl prefix pat excl) l =
                        filter (fun e => after start incl (ename e) && spec_match prefix pat excl (ename e)) (filter elive l)).
  { intros l. rewrite filter_filter. apply filter_ext_in_eq. intros e _. unfold spec_sel.
    rewrite andb_assoc. reflexivity. }
  rewrite !E, H. reflexivity.
Qed.

(* ================= ListDirectoryEntries: a page ================= *)
Lemma page_cut : forall {A} (M : list A) L,
  (if Nat.leb (S L) (length (firstn (S L) M)) then firstn L (firstn (S L) M) else firstn (S L) M) = firstn L M /\
  Nat.leb (S L) (length (firstn (S L) M)) = Nat.ltb L (length M).
Proof.
  intros A M L. rewrite firstn_length. split.
  - destruct (Nat.leb (S L) (Nat.min (S L) (length M))) eqn:El.
    + apply firstn_firstn_S.
    + apply Nat.leb_gt in El. rewrite (firstn_all2 M) by lia. rewrite (firstn_all2 M) by lia. reflexivity.
  - destruct (Nat.ltb L (length M)) eqn:El.
    + apply Nat.ltb_lt in El. apply Nat.leb_le. lia.
    + apply Nat.ltb_ge in El. apply Nat.leb_gt. lia.
Qed.

(* the call terminates, the page is the first L matches in name order, hasMore is exact,
   and the directory lost expired children only *)
Definition exact_at (s : store) (d : dirst) (start : string) (incl : bool) (L : nat) (prefix pat excl : string) : Prop :=
  exists names more r,
    list_entries s d start incl L prefix pat excl = Some (names, more, r) /\
    names = firstn L (spec_names d start incl prefix pat excl) /\
    more = Nat.ltb L (length (spec_names d start incl prefix pat excl)) /\
    wf (r_dir r) /\ filter elive (r_dir r) = filter elive d.

Theorem list_entries_exact : forall s d start incl L prefix pat excl,
  wf d -> trig_narrow prefix pat = false -> exact_at s d start incl L prefix pat excl.
Proof.
  intros s d start incl L prefix pat excl Hwf Ht. unfold exact_at, list_entries.
  destruct (stream_list_spec s d start incl (S L) prefix pat excl Hwf) as [r [E [S1 [S2 S3]]]].
  rewrite E. rewrite impl_sel_spec in S1 by auto. rewrite <- firstn_map in S1.
  fold (spec_names d start incl prefix pat excl) in S1.
  set (M := spec_names d start incl prefix pat excl) in *.
  destruct (page_cut M L) as [P1 P2].
  eexists _, _, r. split; [reflexivity|]. rewrite S1.
  split; [exact P1|]. split; [exact P2|]. split; assumption.
Qed.

(* ================= expired entries never shorten the valid page ================= *)
Theorem list_valid_refill : forall s d start incl L p, wf d ->
  exists r, list_valid s d start incl L p = Some r /\
    r_names r = firstn L (map ename (filter elive (cand start incl p d))) /\
    filter elive (r_dir r) = filter elive d /\
    (forall e, In e d -> In e (r_dir r) \/ eexp e = true) /\
    (forall e, In e (r_dir r) -> In e d).
Proof.
  intros s d start incl L p Hwf.
  destruct (list_valid_spec s d start incl L p Hwf) as [r [m [E [[V1 [V2 [_ [_ [_ [_ V5]]]]]] V0]]]].
  exists r. split; [exact E|].
  rewrite V0 in V5. cbn [firstn] in V5. rewrite app_nil_r in V5.
  assert (Hinc : forall e, In e (firstn m (cand start incl p d)) -> In e d)
    by (intros; eapply wf_incl_firstn_cand; eauto).
  split; [rewrite V1, firstn_map, V5; reflexivity|]. split; [rewrite V2; apply del_expired_live; auto|].
  split.
  - intros e He. destruct (eexp e) eqn:Ee; [right; reflexivity|left].
    rewrite V2. apply del_expired_subset_live; auto. unfold elive. unfold eexp in Ee. rewrite Ee. reflexivity.
  - intros e He. rewrite V2 in He. eapply del_expired_in; eauto.
Qed.

(* ================= pagination by the last returned name ================= *)
Lemma last_str_map : forall l, last_str (map ename l) = last_name l.
Proof.
  induction l as [|x l IH]; simpl; auto. rewrite IH. destruct l; reflexivity.
Qed.

Lemma skipn_map' : forall {A B} (f : A -> B) n l, skipn n (map f l) = map f (skipn n l).
Proof. induction n as [|n IH]; intros l; simpl; auto. destruct l; simpl; auto. Qed.

Lemma spec_names_cont : forall d start incl prefix pat excl L,
  wf d -> firstn L (spec_names d start incl prefix pat excl) <> [] ->
  spec_names d (last_str (firstn L (spec_names d start incl prefix pat excl))) false prefix pat excl =
  skipn L (spec_names d start incl prefix pat excl).
Proof.
  intros d start incl prefix pat excl L [Hs _] Hne. unfold spec_names in *.
  rewrite firstn_map in *. rewrite last_str_map, skipn_map'. f_equal.
  set (g := fun e : entry => elive e && spec_match prefix pat excl (ename e)).
  assert (E : forall st inc, filter (spec_sel st inc prefix pat excl) d =
                             filter (fun e => after st inc (ename e) && g e) d).
  { intros. apply filter_ext_in_eq. intros e _. unfold spec_sel, g.
    destruct (elive e), (after st inc (ename e)); reflexivity. }
  rewrite !E in *. apply (sel_cont g d start incl); auto.
  - symmetry. apply firstn_skipn.
  - intro H. apply Hne. rewrite H. reflexivity.
Qed.

Theorem paginate_exact : forall fuel s d start incl L prefix pat excl,
  wf d -> trig_narrow prefix pat = false -> 0 < L ->
  length (spec_names d start incl prefix pat excl) < fuel ->
  exists pages, paginate fuel s d start incl L prefix pat excl = Some pages /\
                List.concat pages = spec_names d start incl prefix pat excl /\
                Forall (fun pg => length pg <= L) pages.
Proof.
  induction fuel as [|f IH]; intros s d start incl L prefix pat excl Hwf Ht HL Hf; [lia|].
  cbn [paginate].
  destruct (list_entries_exact s d start incl L prefix pat excl Hwf Ht) as [names [more [r [E [Hn [Hm [Hwf' Hlive]]]]]]].
  rewrite E. set (M := spec_names d start incl prefix pat excl) in *.
  assert (HnL : length names <= L) by (rewrite Hn, firstn_length; lia).
  destruct (more && negb (is_nil names)) eqn:Ec.
  - apply andb_true_iff in Ec. destruct Ec as [Hmore Hnn]. apply negb_true_iff in Hnn. apply is_nil_false in Hnn.
    rewrite Hm in Hmore. apply Nat.ltb_lt in Hmore.
    assert (Hrest : spec_names (r_dir r) (last_str names) false prefix pat excl = skipn L M).
    { rewrite (spec_names_live d (r_dir r)) by exact Hlive. rewrite Hn.
      apply spec_names_cont; [auto|fold M; rewrite <- Hn; auto]. }
    destruct (IH s (r_dir r) (last_str names) false L prefix pat excl Hwf' Ht HL) as [pages [E2 [Hc Hall]]].
    { rewrite Hrest, skipn_length. lia. }
    rewrite E2. exists (names :: pages). split; [reflexivity|]. split; [|constructor; auto].
    cbn [List.concat]. rewrite Hc, Hrest, Hn. apply firstn_skipn.
  - exists [names]. split; [reflexivity|]. split; [|constructor; auto].
    cbn [List.concat]. rewrite app_nil_r. rewrite Hn.
    apply andb_false_iff in Ec. destruct Ec as [Ec|Ec].
    + rewrite Hm in Ec. apply Nat.ltb_ge in Ec. apply firstn_all2. auto.
    + apply negb_false_iff in Ec. apply is_nil_true in Ec. rewrite Hn in Ec.
      apply firstn_nil_inv in Ec; [|auto]. rewrite Ec. destruct L; reflexivity.
Qed.

(* the matches are strictly increasing, hence pairwise different *)
Lemma sorted_nodup_names : forall l, sorted l -> NoDup (map ename l).
Proof.
  intros l H. induction H as [|e l Hlt Hs IH]; simpl; constructor; auto.
  intro Hin. apply in_map_iff in Hin. destruct Hin as [x [Hx Hin]].
  specialize (Hlt x Hin). rewrite Hx in Hlt. eapply slt_irrefl; eauto.
Qed.

Theorem spec_names_nodup : forall d start incl prefix pat excl,
  wf d -> NoDup (spec_names d start incl prefix pat excl).
Proof. intros d start incl prefix pat excl [Hs _]. apply sorted_nodup_names. apply sorted_filter. auto. Qed.

(* ---- the gRPC style: follow StreamListDirectoryEntries' lastFileName ---- *)
Lemma trig_both_none : forall prefix, trig_both prefix "" = false.
Proof. intros. unfold trig_both. cbn. apply andb_false_r. Qed.

Theorem paginate_stream_exact : forall fuel s d start incl L prefix,
  wf d -> 0 < L -> length (spec_names d start incl prefix "" "") < fuel ->
  exists pages, paginate_stream fuel s d start incl L prefix = Some pages /\
                List.concat pages = spec_names d start incl prefix "" "" /\
                Forall (fun pg => length pg <= L) pages.
Proof.
  induction fuel as [|f IH]; intros s d start incl L prefix Hwf HL Hf; [lia|].
  cbn [paginate_stream].
  assert (Hspec : forall d' st inc, spec_names d' st inc prefix "" "" = map ename (impl_sel st inc prefix "" "" d')).
  { intros. unfold spec_names. rewrite impl_sel_spec by apply trig_narrow_none. reflexivity. }
  destruct (stream_list_inv s d start incl L prefix "" "" Hwf) as [r [m [E [[S1 [S2 [_ [S4 [S6 [_ S5]]]]]] S0]]]].
  rewrite E.
  set (p := eff_prefix prefix "") in *. set (rest := snd (split_pattern "")) in *.
  set (c := cand start incl p d) in *.
  rewrite S0 in S5. cbn [firstn] in S5. rewrite app_nil_r in S5.
  assert (HM : spec_names d start incl prefix "" "" = map ename (filter (good p rest "") c)).
  { rewrite Hspec. reflexivity. }
  assert (Hnames : r_names r = firstn L (spec_names d start incl prefix "" "")).
  { rewrite HM, firstn_map, S5. exact S1. }
  destruct (is_nil (r_names r)) eqn:En.
  - exists []. split; [reflexivity|]. split; [|constructor]. apply is_nil_true in En.
    rewrite Hnames in En. apply firstn_nil_inv in En; [|auto]. rewrite En. reflexivity.
  - apply is_nil_false in En.
    assert (Hl : r_last r <> "").
    { intro El. apply En. rewrite S1, (S6 El). reflexivity. }
    assert (Hwf' : wf (r_dir r)) by (rewrite S2; apply wf_del_expired; auto).
    assert (Hrest : spec_names (r_dir r) (r_last r) false prefix "" "" = skipn L (spec_names d start incl prefix "" "")).
    { rewrite Hspec. unfold impl_sel. fold p rest. rewrite (S4 Hl). rewrite HM, skipn_map'. f_equal.
      symmetry. apply (firstn_app_skipn_eq _ (filter (good p rest "") (firstn m c))); [apply filter_firstn_skipn|exact S5]. }
    destruct (IH s (r_dir r) (r_last r) false L prefix Hwf' HL) as [pages [E2 [Hc Hall]]].
    { rewrite Hrest, skipn_length.
      assert (0 < length (spec_names d start incl prefix "" "")).
      { destruct (spec_names d start incl prefix "" ""); [rewrite firstn_nil in Hnames; congruence|simpl; lia]. }
      lia. }
    rewrite E2. exists (r_names r :: pages). split; [reflexivity|]. split.
    + cbn [List.concat]. rewrite Hc, Hrest, Hnames. apply firstn_skipn.
    + constructor; auto. rewrite Hnames, firstn_length. lia.
Qed.

(* END *)
