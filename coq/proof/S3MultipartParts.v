(* C28 proofs, part 2: chunking of bodies, the upload directory as a function of the
   history of part uploads, and completeMultipartUpload = concatenation of the parts
   in listing order. *)
From Coq Require Import List NArith ZArith Bool Arith Lia.
From SW Require Import model.S3Multipart proof.S3MultipartNames.
Import ListNotations.
Local Open Scope N_scope.

(* ---------- takeN / dropN ---------- *)
Definition nlen {A} (l : list A) : N := N.of_nat (length l).

Lemma takeN_dropN : forall {A} (l : list A) n, takeN n l ++ dropN n l = l.
Proof.
  induction l as [|x l IH]; intros n; simpl; auto.
  destruct (n =? 0); simpl; auto. rewrite IH. reflexivity.
Qed.

Lemma takeN_all : forall {A} (l : list A) n, nlen l <= n -> takeN n l = l.
Proof.
  unfold nlen. induction l as [|x l IH]; intros n H; simpl in *; auto.
  destruct (n =? 0) eqn:E. { apply N.eqb_eq in E. lia. }
  rewrite IH; auto. lia.
Qed.

Lemma dropN_all : forall {A} (l : list A) n, nlen l <= n -> dropN n l = [].
Proof.
  unfold nlen. induction l as [|x l IH]; intros n H; simpl in *; auto.
  destruct (n =? 0) eqn:E. { apply N.eqb_eq in E. lia. }
  apply IH. lia.
Qed.

Lemma takeN_0 : forall {A} (l : list A), takeN 0 l = [].
Proof. destruct l; reflexivity. Qed.
Lemma dropN_0 : forall {A} (l : list A), dropN 0 l = l.
Proof. destruct l; reflexivity. Qed.

Lemma dropN_length_le : forall {A} (l : list A) n, (length (dropN n l) <= length l)%nat.
Proof.
  induction l as [|x l IH]; intros n; simpl; auto.
  destruct (n =? 0); simpl; [lia|]. specialize (IH (n - 1)). lia.
Qed.

Lemma dropN_shorter : forall {A} (l : list A) n, 0 < n -> l <> [] -> (length (dropN n l) < length l)%nat.
Proof.
  intros A l n Hn Hl. destruct l as [|x l]; [congruence|]. simpl.
  destruct (n =? 0) eqn:E. { apply N.eqb_eq in E. lia. }
  pose proof (dropN_length_le l (n - 1)). lia.
Qed.

Lemma takeN_nlen : forall {A} (l : list A) n, nlen (takeN n l) = N.min n (nlen l).
Proof.
  unfold nlen. induction l as [|x l IH]; intros n; simpl. { lia. }
  destruct (n =? 0) eqn:E. { apply N.eqb_eq in E. subst. simpl. lia. }
  apply N.eqb_neq in E. simpl. specialize (IH (n - 1)). lia.
Qed.

Lemma dropN_nlen : forall {A} (l : list A) n, nlen (dropN n l) = nlen l - n.
Proof.
  unfold nlen. induction l as [|x l IH]; intros n; cbn [dropN length]. { lia. }
  destruct (n =? 0) eqn:E. { apply N.eqb_eq in E. subst. cbn [length]. lia. }
  apply N.eqb_neq in E. specialize (IH (n - 1)). rewrite Nat2N.inj_succ. lia.
Qed.

Lemma blen_app : forall a b, blen (a ++ b) = blen a + blen b.
Proof. intros. unfold blen. rewrite app_length. lia. Qed.

Lemma blen_nil_inv : forall b, blen b = 0 -> b = [].
Proof. unfold blen. destruct b; simpl; intros; auto. lia. Qed.

(* slices compose: a slice of the prefix of length size is a slice of the whole *)
Lemma dropN_dropN : forall {A} (l : list A) a b, dropN a (dropN b l) = dropN (a + b) l.
Proof.
  induction l as [|x l IH]; intros a b; simpl; auto.
  destruct (b =? 0) eqn:Eb.
  - apply N.eqb_eq in Eb. subst. rewrite N.add_0_r. reflexivity.
  - apply N.eqb_neq in Eb. destruct (a + b =? 0) eqn:E. { apply N.eqb_eq in E. lia. }
    rewrite IH. f_equal. lia.
Qed.

Lemma takeN_takeN : forall {A} (l : list A) a b, a <= b -> takeN a (takeN b l) = takeN a l.
Proof.
  induction l as [|x l IH]; intros a b H; simpl; auto.
  destruct (b =? 0) eqn:Eb.
  - apply N.eqb_eq in Eb. assert (a = 0) by lia. subst. reflexivity.
  - simpl. destruct (a =? 0); auto. rewrite IH; auto. apply N.eqb_neq in Eb. lia.
Qed.

Lemma dropN_takeN : forall {A} (l : list A) a b, dropN a (takeN b l) = takeN (b - a) (dropN a l).
Proof.
  induction l as [|x l IH]; intros a b; simpl; auto.
  destruct (b =? 0) eqn:Eb.
  - apply N.eqb_eq in Eb. subst. simpl. destruct (a =? 0); simpl; rewrite ?takeN_0; auto.
  - apply N.eqb_neq in Eb. simpl. destruct (a =? 0) eqn:Ea.
    + apply N.eqb_eq in Ea. subst. rewrite N.sub_0_r. simpl.
      destruct (b =? 0) eqn:E; [apply N.eqb_eq in E; lia|]. reflexivity.
    + apply N.eqb_neq in Ea. rewrite IH. f_equal. lia.
Qed.

Lemma slice_of_prefix : forall d size off len, off + len <= size ->
  slice (takeN size d) off len = slice d off len.
Proof.
  intros d size off len H. unfold slice. rewrite dropN_takeN. apply takeN_takeN. lia.
Qed.

(* ---------- sequential chunk lists ---------- *)
Definition chunk_bytes (cs : list chunk) : bytes := concat (map k_data cs).

Fixpoint seq_from (off : N) (cs : list chunk) : Prop :=
  match cs with
  | [] => True
  | c :: r => k_off c = off /\ seq_from (off + blen (k_data c)) r
  end.

Lemma chunk_bytes_app : forall a b, chunk_bytes (a ++ b) = chunk_bytes a ++ chunk_bytes b.
Proof. intros. unfold chunk_bytes. rewrite map_app, concat_app. reflexivity. Qed.

Lemma seq_from_app : forall a b off,
  seq_from off (a ++ b) <-> seq_from off a /\ seq_from (off + blen (chunk_bytes a)) b.
Proof.
  induction a as [|c a IH]; intros b off; simpl.
  - unfold chunk_bytes. simpl. change (blen []) with 0. rewrite N.add_0_r. tauto.
  - rewrite IH. unfold chunk_bytes. simpl. rewrite blen_app. rewrite N.add_assoc. tauto.
Qed.

Lemma layout_seq : forall cs off, seq_from off cs -> layout off cs = chunk_bytes cs.
Proof.
  induction cs as [|[o d] r IH]; intros off H; [reflexivity|].
  cbn [seq_from k_off k_data] in H. destruct H as [H1 H2]. subst o.
  cbn [layout k_off k_data]. rewrite N.sub_diag. change (N.to_nat 0) with 0%nat. cbn [repeat app].
  unfold chunk_bytes. cbn [map concat k_data]. f_equal. apply IH. exact H2.
Qed.

Lemma chunks_size_seq_gen : forall cs off, seq_from off cs ->
  fold_left (fun acc c => N.max acc (k_off c + blen (k_data c))) cs off = off + blen (chunk_bytes cs).
Proof.
  induction cs as [|[o d] r IH]; intros off H.
  - unfold chunk_bytes. cbn [fold_left map concat]. change (blen []) with 0. lia.
  - cbn [seq_from k_off k_data] in H. destruct H as [H1 H2]. subst o.
    cbn [fold_left k_off k_data]. rewrite N.max_r by lia. rewrite IH by exact H2.
    unfold chunk_bytes. cbn [map concat k_data]. rewrite blen_app. lia.
Qed.

Lemma chunks_size_seq : forall cs, seq_from 0 cs -> chunks_size cs = blen (chunk_bytes cs).
Proof. intros cs H. unfold chunks_size. rewrite chunks_size_seq_gen by exact H. lia. Qed.

(* a file without inline content whose chunks are sequential from 0 reads back as their concatenation *)
Lemma file_bytes_seq : forall cs, seq_from 0 cs ->
  file_bytes {| f_inline := []; f_chunks := cs |} = chunk_bytes cs.
Proof.
  intros cs H. unfold file_bytes, file_size, read_file. simpl f_inline. simpl f_chunks.
  change (blen []) with 0. rewrite N.max_r by lia. rewrite chunks_size_seq by exact H.
  rewrite layout_seq by exact H.
  destruct (0 + blen (chunk_bytes cs) <=? 0) eqn:E.
  - apply N.leb_le in E. assert (Z : blen (chunk_bytes cs) = 0) by lia.
    rewrite (blen_nil_inv _ Z). reflexivity.
  - unfold slice. rewrite dropN_0. apply takeN_all. unfold nlen, blen. lia.
Qed.

(* ---------- uploadReaderToChunks ---------- *)
Lemma split_chunks_spec : forall fuel cs off b, 0 < cs -> (length b <= fuel)%nat ->
  seq_from off (split_chunks fuel cs off b) /\ chunk_bytes (split_chunks fuel cs off b) = b.
Proof.
  induction fuel as [|fuel IH]; intros cs off b Hcs Hf.
  - destruct b; simpl in *; [split; auto|lia].
  - destruct b as [|x b]; [simpl; split; auto|].
    cbn [split_chunks].
    assert (Hd : (length (dropN cs (x :: b)) <= fuel)%nat).
    { pose proof (dropN_shorter (x :: b) cs Hcs ltac:(congruence)). simpl in *. lia. }
    destruct (IH cs (off + blen (takeN cs (x :: b))) (dropN cs (x :: b)) Hcs Hd) as [I1 I2].
    split.
    + cbn [seq_from k_off k_data]. split; auto.
    + unfold chunk_bytes in *. cbn [map concat k_data]. rewrite I2. apply takeN_dropN.
Qed.

Lemma store_body_inline : forall c b,
  is_inline (store_body c b) = negb (blen b =? 0) && (blen b <? c_chunk c) && (blen b <? c_inline c).
Proof.
  intros c b. unfold store_body, is_inline.
  destruct (blen b =? 0) eqn:E0; simpl. { reflexivity. }
  destruct ((blen b <? c_chunk c) && (blen b <? c_inline c)) eqn:E1; simpl.
  - rewrite E0. reflexivity.
  - reflexivity.
Qed.

(* a body that is not stored inline is stored as sequential chunks holding exactly its bytes *)
Lemma store_body_chunks : forall c b, 0 < c_chunk c -> is_inline (store_body c b) = false ->
  f_inline (store_body c b) = [] /\ seq_from 0 (f_chunks (store_body c b)) /\
  chunk_bytes (f_chunks (store_body c b)) = b.
Proof.
  intros c b Hc Hi. rewrite store_body_inline in Hi. unfold store_body.
  destruct (blen b =? 0) eqn:E0.
  - apply N.eqb_eq in E0. rewrite (blen_nil_inv _ E0). simpl. auto.
  - simpl in Hi. rewrite Hi. simpl.
    destruct (split_chunks_spec (length b) (c_chunk c) 0 b Hc (le_n _)) as [S1 S2]. auto.
Qed.

(* whatever way a body is stored, the filer serves it back *)
Lemma store_body_bytes : forall c b, 0 < c_chunk c -> file_bytes (store_body c b) = b.
Proof.
  intros c b Hc. destruct (is_inline (store_body c b)) eqn:Hi.
  - rewrite store_body_inline in Hi. unfold store_body.
    apply andb_prop in Hi. destruct Hi as [Hi H3]. apply andb_prop in Hi. destruct Hi as [H1 H2].
    apply negb_true_iff in H1. rewrite H1. rewrite H2, H3. cbn [andb].
    unfold file_bytes, file_size, read_file. cbn [f_inline f_chunks]. unfold chunks_size. cbn [fold_left].
    rewrite N.max_0_r. rewrite N.add_0_l. rewrite N.leb_refl.
    unfold slice. rewrite dropN_0. apply takeN_all. unfold nlen, blen. lia.
  - destruct (store_body_chunks c b Hc Hi) as [S0 [S1 S2]].
    destruct (store_body c b) as [inl cs] eqn:E. simpl in *. subst inl.
    rewrite file_bytes_seq by exact S1. exact S2.
Qed.

(* ---------- shift_chunks / assemble ---------- *)
Lemma shift_chunks_spec : forall cs off,
  seq_from off (fst (shift_chunks off cs)) /\
  chunk_bytes (fst (shift_chunks off cs)) = chunk_bytes cs /\
  snd (shift_chunks off cs) = off + blen (chunk_bytes cs).
Proof.
  induction cs as [|c r IH]; intros off; simpl.
  - unfold chunk_bytes. simpl. change (blen []) with 0. repeat split; lia.
  - destruct (IH (off + blen (k_data c))) as [I1 [I2 I3]].
    destruct (shift_chunks (off + blen (k_data c)) r) as [r' o'] eqn:E. simpl in *.
    split; [split; auto|]. unfold chunk_bytes in *. simpl. rewrite I2. split; auto.
    rewrite blen_app. lia.
Qed.

Definition entry_bytes (e : list N * file) : bytes := chunk_bytes (f_chunks (snd e)).

Lemma assemble_spec : forall es off, (forall e, In e es -> has_part_suffix (fst e) = true) ->
  seq_from off (assemble off es) /\ chunk_bytes (assemble off es) = concat (map entry_bytes es).
Proof.
  induction es as [|[nm f] es IH]; intros off H.
  - cbn [assemble map concat]. split; [exact I|reflexivity].
  - cbn [assemble].
    pose proof (H (nm, f) (or_introl eq_refl)) as Hs. cbn [fst] in Hs. rewrite Hs.
    destruct (shift_chunks_spec (f_chunks f) off) as [S1 [S2 S3]].
    destruct (shift_chunks off (f_chunks f)) as [cs o'] eqn:E. cbn [fst snd] in S1, S2, S3.
    destruct (IH o' (fun e He => H e (or_intror He))) as [I1 I2].
    split.
    + apply seq_from_app. split; auto. rewrite S2, <- S3. exact I1.
    + rewrite chunk_bytes_app, S2, I2. reflexivity.
Qed.

(* ---------- the upload directory as a function of the history of part uploads ---------- *)
Definition enc (c : cfg) (p : N * bytes) : list N * file := (part_name (fst p), store_body c (snd p)).
Definition dir_step (c : cfg) (d : updir) (p : N * bytes) : updir :=
  dir_put (part_name (fst p)) (store_body c (snd p)) d.
Definition parts_step (l : list (N * bytes)) (p : N * bytes) : list (N * bytes) :=
  parts_put (fst p) (snd p) l.
(* h: the accepted part uploads (part number, body) in time order *)
Definition dir_of (c : cfg) (h : list (N * bytes)) : updir := fold_left (dir_step c) h [].
Definition parts_of (h : list (N * bytes)) : list (N * bytes) := fold_left parts_step h [].

Definition agree (n m : N) : Prop := lex_cmp (part_name n) (part_name m) = N.compare n m.

Lemma dir_put_enc : forall c n b l, (forall m, In m (map fst l) -> agree n m) ->
  dir_put (part_name n) (store_body c b) (map (enc c) l) = map (enc c) (parts_put n b l).
Proof.
  intros c n b. induction l as [|[m x] l IH]; intros H; simpl; auto.
  unfold enc at 1. simpl fst. simpl snd.
  rewrite (H m (or_introl eq_refl)).
  destruct (N.compare_spec n m) as [E|E|E].
  - subst. rewrite N.eqb_refl. reflexivity.
  - destruct (n =? m) eqn:E1. { apply N.eqb_eq in E1. lia. }
    destruct (n <? m) eqn:E2; [|apply N.ltb_ge in E2; lia]. reflexivity.
  - destruct (n =? m) eqn:E1. { apply N.eqb_eq in E1. lia. }
    destruct (n <? m) eqn:E2; [apply N.ltb_lt in E2; lia|].
    simpl. rewrite IH; auto. intros k Hk. apply H. right. exact Hk.
Qed.

Lemma parts_put_numbers : forall n b l m, In m (map fst (parts_put n b l)) -> m = n \/ In m (map fst l).
Proof.
  intros n b. induction l as [|[k x] l IH]; intros m H; simpl in *.
  - destruct H as [H|[]]. auto.
  - destruct (n =? k) eqn:E1.
    + apply N.eqb_eq in E1. subst. simpl in H. destruct H as [H|H]; auto.
    + destruct (n <? k); simpl in H.
      * destruct H as [H|[H|H]]; auto.
      * destruct H as [H|H]; auto. destruct (IH m H); auto.
Qed.

Lemma dir_of_gen : forall c h l,
  (forall n m, In n (map fst h ++ map fst l) -> In m (map fst h ++ map fst l) -> agree n m) ->
  fold_left (dir_step c) h (map (enc c) l) = map (enc c) (fold_left parts_step h l).
Proof.
  intros c. induction h as [|[n b] h IH]; intros l H; simpl; auto.
  unfold dir_step at 2. simpl fst. simpl snd. rewrite dir_put_enc.
  - unfold parts_step at 2. simpl fst. simpl snd. apply IH.
    intros x y Hx Hy. apply H; simpl.
    + apply in_app_or in Hx. destruct Hx as [Hx|Hx]; [right; apply in_or_app; auto|].
      destruct (parts_put_numbers _ _ _ _ Hx) as [->|Hx']; auto. right. apply in_or_app. auto.
    + apply in_app_or in Hy. destruct Hy as [Hy|Hy]; [right; apply in_or_app; auto|].
      destruct (parts_put_numbers _ _ _ _ Hy) as [->|Hy']; auto. right. apply in_or_app. auto.
  - intros m Hm. apply H; simpl; auto. right. apply in_or_app. auto.
Qed.

(* when the names of all uploaded numbers are ordered like the numbers, the directory
   lists the parts in ascending part-number order *)
Theorem dir_of_parts : forall c h,
  (forall n m, In n (map fst h) -> In m (map fst h) -> agree n m) ->
  dir_of c h = map (enc c) (parts_of h).
Proof.
  intros c h H. unfold dir_of, parts_of. apply (dir_of_gen c h []).
  simpl. rewrite app_nil_r. exact H.
Qed.

(* ---------- what parts_of is: ascending numbers, the last body uploaded for each number ---------- *)
Fixpoint ascending (l : list (N * bytes)) : Prop :=
  match l with
  | [] => True
  | a :: r => match r with [] => True | b :: _ => fst a < fst b end /\ ascending r
  end.

Lemma parts_put_head : forall n b l, ascending l ->
  match parts_put n b l with
  | [] => False
  | p :: _ => fst p = n \/ (match l with [] => False | q :: _ => fst p = fst q /\ fst q < n end)
  end.
Proof.
  intros n b l H. destruct l as [|[k x] l]; simpl; auto.
  destruct (n =? k) eqn:E1; simpl; auto.
  destruct (n <? k) eqn:E2; simpl; auto.
  right. split; auto. apply N.eqb_neq in E1. apply N.ltb_ge in E2. lia.
Qed.

Lemma parts_put_ascending : forall n b l, ascending l -> ascending (parts_put n b l).
Proof.
  intros n b. induction l as [|[k x] l IH]; intros H; simpl; auto.
  destruct (n =? k) eqn:E1.
  - apply N.eqb_eq in E1. subst. simpl in *. exact H.
  - destruct (n <? k) eqn:E2.
    + apply N.ltb_lt in E2. simpl in *. split; auto.
    + apply N.eqb_neq in E1. apply N.ltb_ge in E2.
      destruct H as [H1 H2]. specialize (IH H2).
      pose proof (parts_put_head n b l H2) as Hh.
      cbn [ascending]. split; auto.
      destruct (parts_put n b l) as [|p r] eqn:Ep; auto.
      destruct Hh as [Hh|Hh].
      * simpl in *. lia.
      * destruct l as [|q l']; [contradiction|]. destruct Hh as [Hq _]. simpl in *. lia.
Qed.

Theorem parts_of_ascending : forall h, ascending (parts_of h).
Proof.
  intros h. unfold parts_of.
  assert (G : forall h l, ascending l -> ascending (fold_left parts_step h l)).
  { induction h0 as [|p h0 IH]; intros l Hl; simpl; auto. apply IH. apply parts_put_ascending. exact Hl. }
  apply G. simpl. exact I.
Qed.

Fixpoint pfind (n : N) (l : list (N * bytes)) : option bytes :=
  match l with
  | [] => None
  | (m, x) :: r => if m =? n then Some x else pfind n r
  end.

Lemma pfind_put_same : forall n b l, ascending l -> pfind n (parts_put n b l) = Some b.
Proof.
  intros n b. induction l as [|[k x] l IH]; intros H; simpl.
  - rewrite N.eqb_refl. reflexivity.
  - destruct (n =? k) eqn:E1; simpl.
    + rewrite N.eqb_refl. reflexivity.
    + destruct (n <? k); simpl.
      * rewrite N.eqb_refl. reflexivity.
      * rewrite N.eqb_sym, E1. apply IH. destruct H; auto.
Qed.

Lemma pfind_put_other : forall n b l m, m <> n -> pfind m (parts_put n b l) = pfind m l.
Proof.
  intros n b. induction l as [|[k x] l IH]; intros m H; simpl.
  - destruct (n =? m) eqn:E; auto. apply N.eqb_eq in E. congruence.
  - destruct (n =? k) eqn:E1; simpl.
    + apply N.eqb_eq in E1. subst k.
      destruct (n =? m) eqn:E; auto. apply N.eqb_eq in E. congruence.
    + destruct (n <? k); simpl.
      * destruct (n =? m) eqn:E; auto. apply N.eqb_eq in E. congruence.
      * rewrite IH; auto.
Qed.

(* the body of the LAST upload of part n in the history *)
Definition last_body (n : N) (h : list (N * bytes)) : option bytes :=
  fold_left (fun acc p => if fst p =? n then Some (snd p) else acc) h None.

Theorem parts_of_last : forall h n, pfind n (parts_of h) = last_body n h.
Proof.
  intros h n. unfold parts_of, last_body.
  assert (G : forall h l acc, ascending l -> pfind n l = acc ->
            pfind n (fold_left parts_step h l) =
            fold_left (fun acc p => if fst p =? n then Some (snd p) else acc) h acc).
  { induction h0 as [|[k x] h0 IH]; intros l acc Hl Hacc; simpl; auto.
    apply IH. { apply parts_put_ascending. exact Hl. }
    unfold parts_step. simpl. destruct (k =? n) eqn:E.
    - apply N.eqb_eq in E. subst. apply pfind_put_same. exact Hl.
    - apply N.eqb_neq in E. rewrite pfind_put_other; auto. }
  apply G; simpl; auto.
Qed.

(* ---------- membership of names in the directory ---------- *)
Lemma dir_put_in : forall nm f d e, In e (dir_put nm f d) -> e = (nm, f) \/ In e d.
Proof.
  intros nm f. induction d as [|[m g] d IH]; intros e H; simpl in *.
  - destruct H as [H|[]]; auto.
  - destruct (lex_cmp nm m); simpl in H.
    + destruct H as [H|H]; auto.
    + destruct H as [H|[H|H]]; auto.
    + destruct H as [H|H]; auto. destruct (IH e H); auto.
Qed.

Lemma dir_put_names : forall nm f d x, In x (map fst (dir_put nm f d)) <-> x = nm \/ In x (map fst d).
Proof.
  intros nm f. induction d as [|[m g] d IH]; intros x; simpl.
  - intuition.
  - destruct (lex_cmp nm m) eqn:E; simpl.
    + apply lex_cmp_eq in E. subst. intuition congruence.
    + intuition congruence.
    + rewrite IH. intuition congruence.
Qed.

Lemma dir_of_names : forall c h x, In x (map fst (dir_of c h)) <-> In x (map (fun p => part_name (fst p)) h).
Proof.
  intros c h x. unfold dir_of.
  assert (G : forall h d, In x (map fst (fold_left (dir_step c) h d)) <->
                          In x (map (fun p => part_name (fst p)) h) \/ In x (map fst d)).
  { induction h0 as [|p h0 IH]; intros d; simpl. { tauto. }
    rewrite IH. unfold dir_step. rewrite dir_put_names. split; intros H; intuition. }
  rewrite G. simpl. tauto.
Qed.

Lemma existsb_in_ext : forall {A} (f : A -> bool) l1 l2, (forall x, In x l1 <-> In x l2) ->
  existsb f l1 = existsb f l2.
Proof.
  intros A f l1 l2 H. destruct (existsb f l1) eqn:E1; destruct (existsb f l2) eqn:E2; auto.
  - apply existsb_exists in E1. destruct E1 as [x [Hx Hf]]. apply H in Hx.
    assert (existsb f l2 = true) by (apply existsb_exists; eauto). congruence.
  - apply existsb_exists in E2. destruct E2 as [x [Hx Hf]]. apply H in Hx.
    assert (existsb f l1 = true) by (apply existsb_exists; eauto). congruence.
Qed.

(* the trigger computed by the model (from the names in the directory) is the trigger on
   the uploaded part numbers *)
Lemma trig_order_dir : forall c h, (forall n, In n (map fst h) -> n <= 10000) ->
  trig_order (map (fun e => part_number_of (fst e)) (dir_of c h)) = trig_order (map fst h).
Proof.
  intros c h Hr. unfold trig_order.
  assert (M : forall x, In x (map (fun e => part_number_of (fst e)) (dir_of c h)) <-> In x (map fst h)).
  { intros x. rewrite <- (map_map fst part_number_of). rewrite in_map_iff. split.
    - intros [nm [Hx Hnm]]. apply dir_of_names in Hnm. apply in_map_iff in Hnm.
      destruct Hnm as [p [Hp Hin]]. subst.
      assert (Hn : In (fst p) (map fst h)) by (apply in_map; exact Hin).
      destruct (part_name_facts (fst p) (Hr _ Hn)) as [F _]. rewrite F. exact Hn.
    - intros Hx. apply in_map_iff in Hx. destruct Hx as [p [Hp Hin]]. subst.
      exists (part_name (fst p)). split.
      + destruct (part_name_facts (fst p) (Hr _ (in_map fst _ _ Hin))) as [F _]. exact F.
      + apply dir_of_names. apply in_map_iff. exists p. auto. }
  rewrite (existsb_in_ext _ _ _ M). rewrite (existsb_in_ext (in_range 1001 9999) _ _ M). reflexivity.
Qed.

(* ---------- completeMultipartUpload ---------- *)
Lemma trig_inline_enc : forall c l, trig_inline (map (enc c) l) = false ->
  forall p, In p l -> is_inline (store_body c (snd p)) = false.
Proof.
  intros c l H p Hp. unfold trig_inline in H.
  destruct (is_inline (store_body c (snd p))) eqn:E; auto. exfalso.
  assert (existsb (fun e => is_inline (snd e)) (map (enc c) l) = true).
  { apply existsb_exists. exists (enc c p). split; [apply in_map; exact Hp|exact E]. }
  congruence.
Qed.

(* the completed object is the concatenation of the listed entries' chunk bytes, laid
   out with running offsets: whatever the configuration and the part numbers *)
Theorem complete_is_listing_concat : forall c d,
  (forall e, In e (listed c d) -> has_part_suffix (fst e) = true) ->
  seq_from 0 (f_chunks (completed_file c d)) /\
  file_bytes (completed_file c d) = concat (map entry_bytes (listed c d)).
Proof.
  intros c d H. unfold completed_file. simpl f_chunks.
  destruct (assemble_spec (listed c d) 0 H) as [A1 A2]. split; auto.
  rewrite file_bytes_seq by exact A1. exact A2.
Qed.

(* C28, the strongest true statement: the completed object is the concatenation of the
   uploaded parts in ASCENDING PART-NUMBER order (the last upload of a number wins)
   unless one of the three triggers holds *)
Theorem complete_concat : forall c h,
  0 < c_chunk c ->
  (forall n, In n (map fst h) -> n <= 10000) ->
  trig_order (map fst h) = false ->
  trig_limit c (dir_of c h) = false ->
  trig_inline (dir_of c h) = false ->
  file_bytes (completed_file c (dir_of c h)) = concat (map snd (parts_of h)).
Proof.
  intros c h Hc Hr T0 T1 T2.
  assert (Hag : forall n m, In n (map fst h) -> In m (map fst h) -> agree n m).
  { intros n m Hn Hm. apply name_order; auto. apply (trig_order_pairs (map fst h)); auto. }
  rewrite (dir_of_parts c h Hag) in *.
  assert (Hl : listed c (map (enc c) (parts_of h)) = map (enc c) (parts_of h)).
  { unfold listed. apply takeN_all. unfold trig_limit in T1. apply N.ltb_ge in T1. unfold nlen. exact T1. }
  assert (Hs : forall e, In e (listed c (map (enc c) (parts_of h))) -> has_part_suffix (fst e) = true).
  { rewrite Hl. intros e He. apply in_map_iff in He. destruct He as [p [<- Hp]]. simpl.
    assert (In (fst p) (map fst h)).
    { assert (G : forall h l x, In x (map fst (fold_left parts_step h l)) -> In x (map fst h) \/ In x (map fst l)).
      { induction h0 as [|q h0 IH]; intros l x Hx; simpl in *; auto.
        destruct (IH _ _ Hx) as [I|I]; auto. unfold parts_step in I.
        destruct (parts_put_numbers _ _ _ _ I) as [->|I']; auto. }
      destruct (G h [] (fst p) (in_map fst _ _ Hp)) as [I|[]]. exact I. }
    apply part_name_facts. auto. }
  destruct (complete_is_listing_concat c _ Hs) as [_ E]. rewrite E, Hl.
  rewrite map_map. f_equal.
  apply map_ext_in. intros p Hp. unfold entry_bytes, enc. simpl.
  destruct (store_body_chunks c (snd p) Hc (trig_inline_enc c _ T2 p Hp)) as [_ [_ S]]. exact S.
Qed.
