(* C28 proofs, part 2: chunking of bodies, the upload directory as a function of the
   history of part uploads, and completeMultipartUpload = concatenation of the parts
   in listing order. *)
From Coq Require Import List NArith ZArith Bool Arith Lia.
From SW Require Import model.S3Multipart proof.S3MultipartNames.
Import ListNotations.
Local Open Scope N_scope.

(* ---------- takeN / dropN ---------- *)
Definition nlen {A} (l : list A) : N := N.of_nat (length l).

Lemma takeN_dropN : forall {A} (l : list A) n, takeN n l ++ dropN n l = l.
Proof.
  induction l as [|x l IH]; intros n; simpl; auto.
  destruct (n =? 0); simpl; auto. rewrite IH. reflexivity.
Qed.

Lemma takeN_all : forall {A} (l : list A) n, nlen l <= n -> takeN n l = l.
Proof.
  unfold nlen. induction l as [|x l IH]; intros n H; simpl in *; auto.
  destruct (n =? 0) eqn:E. { apply N.eqb_eq in E. lia. }
  rewrite IH; auto. lia.
Qed.

Lemma dropN_all : forall {A} (l : list A) n, nlen l <= n -> dropN n l = [].
Proof.
  unfold nlen. induction l as [|x l IH]; intros n H; simpl in *; auto.
  destruct (n =? 0) eqn:E. { apply N.eqb_eq in E. lia. }
  apply IH. lia.
Qed.

Lemma takeN_0 : forall {A} (l : list A), takeN 0 l = [].
Proof. destruct l; reflexivity. Qed.
Lemma dropN_0 : forall {A} (l : list A), dropN 0 l = l.
Proof. destruct l; reflexivity. Qed.

Lemma dropN_length_le : forall {A} (l : list A) n, (length (dropN n l) <= length l)%nat.
Proof.
  induction l as [|x l IH]; intros n; simpl; auto.
  destruct (n =? 0); simpl; [lia|]. specialize (IH (n - 1)). lia.
Qed.

Lemma dropN_shorter : forall {A} (l : list A) n, 0 < n -> l <> [] -> (length (dropN n l) < length l)%nat.
Proof.
  intros A l n Hn Hl. destruct l as [|x l]; [congruence|]. simpl.
  destruct (n =? 0) eqn:E. { apply N.eqb_eq in E. lia. }
  pose proof (dropN_length_le l (n - 1)). lia.
Qed.

Lemma takeN_nlen : forall {A} (l : list A) n, nlen (takeN n l) = N.min n (nlen l).
Proof.
  unfold nlen. induction l as [|x l IH]; intros n; simpl. { lia. }
  destruct (n =? 0) eqn:E. { apply N.eqb_eq in E. subst. simpl. lia. }
  apply N.eqb_neq in E. simpl. specialize (IH (n - 1)). lia.
Qed.

Lemma dropN_nlen : forall {A} (l : list A) n, nlen (dropN n l) = nlen l - n.
Proof.
  unfold nlen. induction l as [|x l IH]; intros n; cbn [dropN length]. { lia. }
  destruct (n =? 0) eqn:E. { apply N.eqb_eq in E. subst. cbn [length]. lia. }
  apply N.eqb_neq in E. specialize (IH (n - 1)). rewrite Nat2N.inj_succ. lia.
Qed.

Lemma blen_app : forall a b, blen (a ++ b) = blen a + blen b.
Proof. intros. unfold blen. rewrite app_length. lia. Qed.

Lemma blen_nil_inv : forall b, blen b = 0 -> b = [].
Proof. unfold blen. destruct b; simpl; intros; auto. lia. Qed.

(* slices compose: a slice of the prefix of length size is a slice of the whole *)
Lemma dropN_dropN : forall {A} (l : list A) a b, dropN a (dropN b l) = dropN (a + b) l.
Proof.
  induction l as [|x l IH]; intros a b; simpl; auto.
  destruct (b =? 0) eqn:Eb.
  - apply N.eqb_eq in Eb. subst. rewrite N.add_0_r. reflexivity.
  - apply N.eqb_neq in Eb. destruct (a + b =? 0) eqn:E. { apply N.eqb_eq in E. lia. }
    rewrite IH. f_equal. lia.
Qed.

Lemma takeN_takeN : forall {A} (l : list A) a b, a <= b -> takeN a (takeN b l) = takeN a l.
Proof.
  induction l as [|x l IH]; intros a b H; simpl; auto.
  destruct (b =? 0) eqn:Eb.
  - apply N.eqb_eq in Eb. assert (a = 0) by lia. subst. reflexivity.
  - simpl. destruct (a =? 0); auto. rewrite IH; auto. apply N.eqb_neq in Eb. lia.
Qed.

Lemma dropN_takeN : forall {A} (l : list A) a b, dropN a (takeN b l) = takeN (b - a) (dropN a l).
Proof.
  induction l as [|x l IH]; intros a b; simpl; auto.
  destruct (b =? 0) eqn:Eb.
  - apply N.eqb_eq in Eb. subst. simpl. destruct (a =? 0); simpl; rewrite ?takeN_0; auto.
  - apply N.eqb_neq in Eb. simpl. destruct (a =? 0) eqn:Ea.
    + apply N.eqb_eq in Ea. subst. rewrite N.sub_0_r. simpl.
      destruct (b =? 0) eqn:E; [apply N.eqb_eq in E; lia|]. reflexivity.
    + apply N.eqb_neq in Ea. rewrite IH. f_equal. lia.
Qed.

Lemma slice_of_prefix : forall d size off len, off + len <= size ->
  slice (takeN size d) off len = slice d off len.
Proof.
  intros d size off len H. unfold slice. rewrite dropN_takeN. apply takeN_takeN. lia.
Qed.

(* ---------- sequential chunk lists ---------- *)
Definition chunk_bytes (cs : list chunk) : bytes := concat (map k_data cs).

Fixpoint seq_from (off : N) (cs : list chunk) : Prop :=
  match cs with
  | [] => True
  | c :: r => k_off c = off /\ seq_from (off + blen (k_data c)) r
  end.

Lemma chunk_bytes_app : forall a b, chunk_bytes (a ++ b) = chunk_bytes a ++ chunk_bytes b.
Proof. intros. unfold chunk_bytes. rewrite map_app, concat_app. reflexivity. Qed.

Lemma seq_from_app : forall a b off,
  seq_from off (a ++ b) <-> seq_from off a /\ seq_from (off + blen (chunk_bytes a)) b.
Proof.
  induction a as [|c a IH]; intros b off; simpl.
  - unfold chunk_bytes. simpl. change (blen []) with 0. rewrite N.add_0_r. tauto.
  - rewrite IH. unfold chunk_bytes. simpl. rewrite blen_app. rewrite N.add_assoc. tauto.
Qed.

Lemma layout_seq : forall cs off, seq_from off cs -> layout off cs = chunk_bytes cs.
Proof.
  induction cs as [|[o d] r IH]; intros off H; [reflexivity|].
  cbn [seq_from k_off k_data] in H. destruct H as [H1 H2]. subst o.
  cbn [layout k_off k_data]. rewrite N.sub_diag. change (N.to_nat 0) with 0%nat. cbn [repeat app].
  unfold chunk_bytes. cbn [map concat k_data]. f_equal. apply IH. exact H2.
Qed.

Lemma chunks_size_seq_gen : forall cs off, seq_from off cs ->
  fold_left (fun acc c => N.max acc (k_off c + blen (k_data c))) cs off = off + blen (chunk_bytes cs).
Proof.
  induction cs as [|[o d] r IH]; intros off H.
  - unfold chunk_bytes. cbn [fold_left map concat]. change (blen []) with 0. lia.
  - cbn [seq_from k_off k_data] in H. destruct H as [H1 H2]. subst o.
    cbn [fold_left k_off k_data]. rewrite N.max_r by lia. rewrite IH by exact H2.
    unfold chunk_bytes. cbn [map concat k_data]. rewrite blen_app. lia.
Qed.

Lemma chunks_size_seq : forall cs, seq_from 0 cs -> chunks_size cs = blen (chunk_bytes cs).
Proof. intros cs H. unfold chunks_size. rewrite chunks_size_seq_gen by exact H. lia. Qed.

(* a file without inline content whose chunks are sequential from 0 reads back as their concatenation *)
Lemma file_bytes_seq : forall cs, seq_from 0 cs ->
  file_bytes {| f_inline := []; f_chunks := cs |} = chunk_bytes cs.
Proof.
  intros cs H. unfold file_bytes, file_size, read_file. simpl f_inline. simpl f_chunks.
  change (blen []) with 0. rewrite N.max_r by lia. rewrite chunks_size_seq by exact H.
  rewrite layout_seq by exact H.
  destruct (0 + blen (chunk_bytes cs) <=? 0) eqn:E.
  - apply N.leb_le in E. assert (Z : blen (chunk_bytes cs) = 0) by lia.
    rewrite (blen_nil_inv _ Z). reflexivity.
  - unfold slice. rewrite dropN_0. apply takeN_all. unfold nlen, blen. lia.
Qed.

(* ---------- uploadReaderToChunks ---------- *)
Lemma split_chunks_spec : forall fuel cs off b, 0 < cs -> (length b <= fuel)%nat ->
  seq_from off (split_chunks fuel cs off b) /\ chunk_bytes (split_chunks fuel cs off b) = b.
Proof.
  induction fuel as [|fuel IH]; intros cs off b Hcs Hf.
  - destruct b; simpl in *; [split; auto|lia].
  - destruct b as [|x b]; [simpl; split; auto|].
    cbn [split_chunks].
    assert (Hd : (length (dropN cs (x :: b)) <= fuel)%nat).
    { pose proof (dropN_shorter (x :: b) cs Hcs ltac:(congruence)). simpl in *. lia. }
    destruct (IH cs (off + blen (takeN cs (x :: b))) (dropN cs (x :: b)) Hcs Hd) as [I1 I2].
    split.
    + cbn [seq_from k_off k_data]. split; auto.
    + unfold chunk_bytes in *. cbn [map concat k_data]. rewrite I2. apply takeN_dropN.
Qed.

Lemma store_body_inline : forall c b,
  is_inline (store_body c b) = negb (blen b =? 0) && (blen b <? c_chunk c) && (blen b <? c_inline c).
Proof.
  intros c b. unfold store_body, is_inline.
  destruct (blen b =? 0) eqn:E0; simpl. { reflexivity. }
  destruct ((blen b <? c_chunk c) && (blen b <? c_inline c)) eqn:E1; simpl.
  - rewrite E0. reflexivity.
  - reflexivity.
Qed.

(* a body that is not stored inline is stored as sequential chunks holding exactly its bytes *)
Lemma store_body_chunks : forall c b, 0 < c_chunk c -> is_inline (store_body c b) = false ->
  f_inline (store_body c b) = [] /\ seq_from 0 (f_chunks (store_body c b)) /\
  chunk_bytes (f_chunks (store_body c b)) = b.
Proof.
  intros c b Hc Hi. rewrite store_body_inline in Hi. unfold store_body.
  destruct (blen b =? 0) eqn:E0.
  - apply N.eqb_eq in E0. rewrite (blen_nil_inv _ E0). simpl. auto.
  - simpl in Hi. rewrite Hi. simpl.
    destruct (split_chunks_spec (length b) (c_chunk c) 0 b Hc (le_n _)) as [S1 S2]. auto.
Qed.

(* whatever way a body is stored, the filer serves it back *)
Lemma store_body_bytes : forall c b, 0 < c_chunk c -> file_bytes (store_body c b) = b.
Proof.
  intros c b Hc. destruct (is_inline (store_body c b)) eqn:Hi.
  - rewrite store_body_inline in Hi. unfold store_body.
    apply andb_prop in Hi. destruct Hi as [Hi H3]. apply andb_prop in Hi. destruct Hi as [H1 H2].
    apply negb_true_iff in H1. rewrite H1. rewrite H2, H3. cbn [andb].
    unfold file_bytes, file_size, read_file. cbn [f_inline f_chunks]. unfold chunks_size. cbn [fold_left].
    rewrite N.max_0_r. rewrite N.add_0_l. rewrite N.leb_refl.
    unfold slice. rewrite dropN_0. apply takeN_all. unfold nlen, blen. lia.
  - destruct (store_body_chunks c b Hc Hi) as [S0 [S1 S2]].
    destruct (store_body c b) as [inl cs] eqn:E. simpl in *. subst inl.
    rewrite file_bytes_seq by exact S1. exact S2.
Qed.

(* ---------- shift_chunks / assemble ---------- *)
Lemma shift_chunks_spec : forall cs off,
  seq_from off (fst (shift_chunks off cs)) /\
  chunk_bytes (fst (shift_chunks off cs)) = chunk_bytes cs /\
  snd (shift_chunks off cs) = off + blen (chunk_bytes cs).
Proof.
  induction cs as [|c r IH]; intros off; simpl.
  - unfold chunk_bytes. simpl. change (blen []) with 0. repeat split; lia.
  - destruct (IH (off + blen (k_data c))) as [I1 [I2 I3]].
    destruct (shift_chunks (off + blen (k_data c)) r) as [r' o'] eqn:E. simpl in *.
    split; [split; auto|]. unfold chunk_bytes in *. simpl. rewrite I2. split; auto.
    rewrite blen_app. lia.
Qed.

Definition entry_bytes (e : list N * file) : bytes := chunk_bytes (f_chunks (snd e)).

Lemma assemble_spec : forall es off, (forall e, In e es -> has_part_suffix (fst e) = true) ->
  seq_from off (assemble off es) /\ chunk_bytes (assemble off es) = concat (map entry_bytes es).
Proof.
  induction es as [|[nm f] es IH]; intros off H.
  - cbn [assemble map concat]. split; [exact I|reflexivity].
  - cbn [assemble].
    pose proof (H (nm, f) (or_introl eq_refl)) as Hs. cbn [fst] in Hs. rewrite Hs.
    destruct (shift_chunks_spec (f_chunks f) off) as [S1 [S2 S3]].
    destruct (shift_chunks off (f_chunks f)) as [cs o'] eqn:E. cbn [fst snd] in S1, S2, S3.
    destruct (IH o' (fun e He => H e (or_intror He))) as [I1 I2].
    split.
    + apply seq_from_app. split; auto. rewrite S2, <- S3. exact I1.
    + rewrite chunk_bytes_app, S2, I2. reflexivity.
Qed.

(* ---------- the upload directory as a function of the history of part uploads ---------- *)
Definition enc (c : cfg) (p : N * bytes) : list N * file := (part_name (fst p), store_body c (snd p)).
Definition dir_step (c : cfg) (d : updir) (p : N * bytes) : updir :=
  dir_put (part_name (fst p)) (store_body c (snd p)) d.
Definition parts_step (l : list (N * bytes)) (p : N * bytes) : list (N * bytes) :=
  parts_put (fst p) (snd p) l.
(* h: the accepted part uploads (part number, body) in time order *)
Definition dir_of (c : cfg) (h : list (N * bytes)) : updir := fold_left (dir_step c) h [].
Definition parts_of (h : list (N * bytes)) : list (N * bytes) := fold_left parts_step h [].

Definition agree (n m : N) : Prop := lex_cmp (part_name n) (part_name m) = N.compare n m.

Lemma dir_put_enc : forall c n b l, (forall m, In m (map fst l) -> agree n m) ->
  dir_put (part_name n) (store_body c b) (map (enc c) l) = map (enc c) (parts_put n b l).
Proof.
  intros c n b. induction l as [|[m x] l IH]; intros H; simpl; auto.
  unfold enc at 1. simpl fst. simpl snd.
  rewrite (H m (or_introl eq_refl)).
  destruct (N.compare_spec n m) as [E|E|E].
  - subst. rewrite N.eqb_refl. reflexivity.
  - destruct (n =? m) eqn:E1. { apply N.eqb_eq in E1. lia. }
    destruct (n <? m) eqn:E2; [|apply N.ltb_ge in E2; lia]. reflexivity.
  - destruct (n =? m) eqn:E1. { apply N.eqb_eq in E1. lia. }
    destruct (n <? m) eqn:E2; [apply N.ltb_lt in E2; lia|].
    simpl. rewrite IH; auto. intros k Hk. apply H. right. exact Hk.
Qed.

Lemma parts_put_numbers : forall n b l m, In m (map fst (parts_put n b l)) -> m = n \/ In m (map fst l).
Proof.
  intros n b. induction l as [|[k x] l IH]; intros m H; simpl in *.
  - destruct H as [H|[]]. auto.
  - destruct (n =? k) eqn:E1.
    + apply N.eqb_eq in E1. subst. simpl in H. destruct H as [H|H]; auto.
    + destruct (n <? k); simpl in H.
      * destruct H as [H|[H|H]]; auto.
      * destruct H as [H|H]; auto. destruct (IH m H); auto.
Qed.

Lemma dir_of_gen : forall c h l,
  (forall n m, In n (map fst h ++ map fst l) -> In m (map fst h ++ map fst l) -> agree n m) ->
  fold_left (dir_step c) h (map (enc c) l) = map (enc c) (fold_left parts_step h l).
Proof.
  intros c. induction h as [|[n b] h IH]; intros l H; simpl; auto.
  unfold dir_step at 2. simpl fst. simpl snd. rewrite dir_put_enc.
  - unfold parts_step at 2. simpl fst. simpl snd. apply IH.
    intros x y Hx Hy. apply H; simpl.
    + apply in_app_or in Hx. destruct Hx as [Hx|Hx]; [right; apply in_or_app; auto|].
      destruct (parts_put_numbers _ _ _ _ Hx) as [->|Hx']; auto. right. apply in_or_app. auto.
    + apply in_app_or in Hy. destruct Hy as [Hy|Hy]; [right; apply in_or_app; auto|].
      destruct (parts_put_numbers _ _ _ _ Hy) as [->|Hy']; auto. right. apply in_or_app. auto.
  - intros m Hm. apply H; simpl; auto. right. apply in_or_app. auto.
Qed.

(* when the names of all uploaded numbers are ordered like the numbers, the directory
   lists the parts in ascending part-number order *)
Theorem dir_of_parts : forall c h,
  (forall n m, In n (map fst h) -> In m (map fst h) -> agree n m) ->
  dir_of c h = map (enc c) (parts_of h).
Proof.
  intros c h H. unfold dir_of, parts_of. apply (dir_of_gen c h []).
  simpl. rewrite app_nil_r. exact H.
Qed.

(* ---------- what parts_of is: ascending numbers, the last body uploaded for each number ---------- *)
Fixpoint ascending (l : list (N * bytes)) : Prop :=
  match l with
  | [] => True
  | a :: r => match r with [] => True | b :: _ => fst a < fst b end /\ ascending r
  end.

Lemma parts_put_head : forall n b l, ascending l ->
  match parts_put n b l with
  | [] => False
  | p :: _ => fst p = n \/ (match l with [] => False | q :: _ => fst p = fst q /\ fst q < n end)
  end.
Proof.
  intros n b l H. destruct l as [|[k x] l]; simpl; auto.
  destruct (n =? k) eqn:E1; simpl; auto.
  destruct (n <? k) eqn:E2; simpl; auto.
  right. split; auto. apply N.eqb_neq in E1. apply N.ltb_ge in E2. lia.
Qed.

Lemma parts_put_ascending : forall n b l, ascending l -> ascending (parts_put n b l).
Proof.
  intros n b. induction l as [|[k x] l IH]; intros H; simpl; auto.
  destruct (n =? k) eqn:E1.
  - apply N.eqb_eq in E1. subst. simpl in *. exact H.
  - destruct (n <? k) eqn:E2.
    + apply N.ltb_lt in E2. simpl in *. split; auto.
    + apply N.eqb_neq in E1. apply N.ltb_ge in E2.
      destruct H as [H1 H2]. specialize (IH H2).
      pose proof (parts_put_head n b l H2) as Hh.
      cbn [ascending]. split; auto.
      destruct (parts_put n b l) as [|p r] eqn:Ep; auto.
      destruct Hh as [Hh|Hh].
      * simpl in *. lia.
      * destruct l as [|q l']; [contradiction|]. destruct Hh as [Hq _]. simpl in *. lia.
Qed.

Theorem parts_of_ascending : forall h, ascending (parts_of h).
Proof.
  intros h. unfold parts_of.
  assert (G : forall h l, ascending l -> ascending (fold_left parts_step h l)).
  { induction h0 as [|p h0 IH]; intros l Hl; simpl; auto. apply IH. apply parts_put_ascending. exact Hl. }
  apply G. simpl. exact I.
Qed.

Fixpoint pfind (n : N) (l : list (N * bytes)) : option bytes :=
  match l with
  | [] => None
  | (m, x) :: r => if m =? n then Some x else pfind n r
  end.

Lemma pfind_put_same : forall n b l, ascending l -> pfind n (parts_put n b l) = Some b.
Proof.
  intros n b. induction l as [|[k x] l IH]; intros H; simpl.
  - rewrite N.eqb_refl. reflexivity.
  - destruct (n =? k) eqn:E1; simpl.
    + rewrite N.eqb_refl. reflexivity.
    + destruct (n <? k); simpl.
      * rewrite N.eqb_refl. reflexivity.
      * rewrite N.eqb_sym, E1. apply IH. destruct H; auto.
Qed.

Lemma pfind_put_other : forall n b l m, m <> n -> pfind m (parts_put n b l) = pfind m l.
Proof.
  intros n b. induction l as [|[k x] l IH]; intros m H; simpl.
  - destruct (n =? m) eqn:E; auto. apply N.eqb_eq in E. congruence.
  - destruct (n =? k) eqn:E1; simpl.
    + apply N.eqb_eq in E1. subst k.
      destruct (n =? m) eqn:E; auto. apply N.eqb_eq in E. congruence.
    + destruct (n <? k); simpl.
      * destruct (n =? m) eqn:E; auto. apply N.eqb_eq in E. congruence.
      * rewrite IH; auto.
Qed.

(* the body of the LAST upload of part n in the history *)
Definition last_body (n : N) (h : list (N * bytes)) : option bytes :=
  fold_left (fun acc p => if fst p =? n then Some (snd p) else acc) h None.

Theorem parts_of_last : forall h n, pfind n (parts_of h) = last_body n h.
Proof.
  intros h n. unfold parts_of, last_body.
  assert (G : forall h l acc, ascending l -> pfind n l = acc ->
            pfind n (fold_left parts_step h l) =
            fold_left (fun acc p => if fst p =? n then Some (snd p) else acc) h acc).
  { induction h0 as [|[k x] h0 IH]; intros l acc Hl Hacc; simpl; auto.
    apply IH. { apply parts_put_ascending. exact Hl. }
    unfold parts_step. simpl. destruct (k =? n) eqn:E.
    - apply N.eqb_eq in E. subst. apply pfind_put_same. exact Hl.
    - apply N.eqb_neq in E. rewrite pfind_put_other; auto. }
  apply G; simpl; auto.
Qed.

(* ---------- membership of names in the directory ---------- *)
Lemma dir_put_in : forall nm f d e, In e (dir_put nm f d) -> e = (nm, f) \/ In e d.
Proof.
  intros nm f. induction d as [|[m g] d IH]; intros e H; simpl in *.
  - destruct H as [H|[]]; auto.
  - destruct (lex_cmp nm m); simpl in H.
    + destruct H as [H|H]; auto.
    + destruct H as [H|[H|H]]; auto.
    + destruct H as [H|H]; auto. destruct (IH e H); auto.
Qed.

Lemma dir_put_names : forall nm f d x, In x (map fst (dir_put nm f d)) <-> x = nm \/ In x (map fst d).
Proof.
  intros nm f. induction d as [|[m g] d IH]; intros x; simpl.
  - intuition.
  - destruct (lex_cmp nm m) eqn:E; simpl.
    + apply lex_cmp_eq in E. subst. intuition congruence.
    + intuition congruence.
    + rewrite IH. intuition congruence.
Qed.

Lemma dir_of_names : forall c h x, In x (map fst (dir_of c h)) <-> In x (map (fun p => part_name (fst p)) h).
Proof.
  intros c h x. unfold dir_of.
  assert (G : forall h d, In x (map fst (fold_left (dir_step c) h d)) <->
                          In x (map (fun p => part_name (fst p)) h) \/ In x (map fst d)).
  { induction h0 as [|p h0 IH]; intros d; simpl. { tauto. }
    rewrite IH. unfold dir_step. rewrite dir_put_names. split; intros H; intuition. }
  rewrite G. simpl. tauto.
Qed.

Lemma existsb_in_ext : forall {A} (f : A -> bool) l1 l2, (forall x, In x l1 <-> In x l2) ->
  existsb f l1 = existsb f l2.
Proof.
  intros A f l1 l2 H. destruct (existsb f l1) eqn:E1; destruct (existsb f l2) eqn:E2; auto.
  - apply existsb_exists in E1. destruct E1 as [x [Hx Hf]]. apply H in Hx.
    assert (existsb f l2 = true) by (apply existsb_exists; eauto). congruence.
  - apply existsb_exists in E2. destruct E2 as [x [Hx Hf]]. apply H in Hx.
    assert (existsb f l1 = true) by (apply existsb_exists; eauto). congruence.
Qed.

(* the trigger computed by the model (from the names in the directory) is the trigger on
   the uploaded part numbers *)
Lemma trig_order_dir : forall c h, (forall n, In n (map fst h) -> n <= 10000) ->
  trig_order (map (fun e => part_number_of (fst e)) (dir_of c h)) = trig_order (map fst h).
Proof.
  intros c h Hr. unfold trig_order.
  assert (M : forall x, In x (map (fun e => part_number_of (fst e)) (dir_of c h)) <-> In x (map fst h)).
  { intros x. rewrite <- (map_map fst part_number_of). rewrite in_map_iff. split.
    - intros [nm [Hx Hnm]]. apply dir_of_names in Hnm. apply in_map_iff in Hnm.
      destruct Hnm as [p [Hp Hin]]. subst.
      assert (Hn : In (fst p) (map fst h)) by (apply in_map; exact Hin).
      destruct (part_name_facts (fst p) (Hr _ Hn)) as [F _]. rewrite F. exact Hn.
    - intros Hx. apply in_map_iff in Hx. destruct Hx as [p [Hp Hin]]. subst.
      exists (part_name (fst p)). split.
      + destruct (part_name_facts (fst p) (Hr _ (in_map fst _ _ Hin))) as [F _]. exact F.
      + apply dir_of_names. apply in_map_iff. exists p. auto. }
  rewrite (existsb_in_ext _ _ _ M). rewrite (existsb_in_ext (in_range 1001 9999) _ _ M). reflexivity.
Qed.

(* ---------- completeMultipartUpload ---------- *)
Lemma trig_inline_enc : forall c l, trig_inline (map (enc c) l) = false ->
  forall p, In p l -> is_inline (store_body c (snd p)) = false.
Proof.
  intros c l H p Hp. unfold trig_inline in H.
  destruct (is_inline (store_body c (snd p))) eqn:E; auto. exfalso.
  assert (existsb (fun e => is_inline (snd e)) (map (enc c) l) = true).
  { apply existsb_exists. exists (enc c p). split; [apply in_map; exact Hp|exact E]. }
  congruence.
Qed.

(* the completed object is the concatenation of the listed entries' chunk bytes, laid
   out with running offsets: whatever the configuration and the part numbers *)
Theorem complete_is_listing_concat : forall d,
  (forall e, In e (sort_by_number (listed d)) -> has_part_suffix (fst e) = true) ->
  seq_from 0 (f_chunks (completed_file d)) /\
  file_bytes (completed_file d) = concat (map entry_bytes (sort_by_number (listed d))).
Proof.
  intros d H. unfold completed_file. simpl f_chunks.
  destruct (assemble_spec (sort_by_number (listed d)) 0 H) as [A1 A2]. split; auto.
  rewrite file_bytes_seq by exact A1. exact A2.
Qed.

(* ---------- sorting the listed entries by part number ---------- *)
Definition knum (e : list N * file) : N := part_number_of (fst e).

Lemma insert_by_number_in : forall e l x, In x (insert_by_number e l) <-> x = e \/ In x l.
Proof.
  intros e. induction l as [|y l IH]; intros x; simpl.
  - intuition.
  - destruct (part_number_of (fst y) <? part_number_of (fst e)); simpl; [rewrite IH|]; intuition.
Qed.

Lemma sort_by_number_in : forall l x, In x (sort_by_number l) <-> In x l.
Proof.
  induction l as [|a l IH]; intros x; simpl; [tauto|].
  rewrite insert_by_number_in, IH. intuition.
Qed.

Lemma insert_by_number_length : forall e l, length (insert_by_number e l) = S (length l).
Proof.
  intros e. induction l as [|y l IH]; simpl; auto.
  destruct (part_number_of (fst y) <? part_number_of (fst e)); simpl; auto.
Qed.

Lemma sort_by_number_length : forall l, length (sort_by_number l) = length l.
Proof. induction l as [|a l IH]; simpl; auto. rewrite insert_by_number_length, IH. reflexivity. Qed.

(* strictly sorted by part number: every element is below everything after it *)
Fixpoint ssorted (l : updir) : Prop :=
  match l with
  | [] => True
  | a :: r => (forall x, In x r -> knum a < knum x) /\ ssorted r
  end.

Lemma insert_by_number_ssorted : forall e l, ssorted l -> (forall x, In x l -> knum x <> knum e) ->
  ssorted (insert_by_number e l).
Proof.
  intros e. induction l as [|y l IH]; intros Hs Hd; simpl.
  - split; [intros x []|exact I].
  - destruct Hs as [H1 H2]. fold (knum y). fold (knum e).
    destruct (knum y <? knum e) eqn:E.
    + apply N.ltb_lt in E. split.
      * intros x Hx. apply insert_by_number_in in Hx. destruct Hx as [->|Hx]; auto.
      * apply IH; auto. intros x Hx. apply Hd. right. exact Hx.
    + apply N.ltb_ge in E. pose proof (Hd y (or_introl eq_refl)) as Hy.
      split; [|split; auto].
      intros x [<-|Hx]; [lia|]. specialize (H1 x Hx). lia.
Qed.

Lemma sort_by_number_ssorted : forall l, NoDup (map knum l) -> ssorted (sort_by_number l).
Proof.
  induction l as [|a l IH]; intros Hn; simpl; [exact I|].
  inversion Hn as [|k ks Hnot Hnd]; subst.
  apply insert_by_number_ssorted; auto.
  intros x Hx Hk. rewrite sort_by_number_in in Hx. apply Hnot. rewrite <- Hk. apply in_map. exact Hx.
Qed.

(* two strictly sorted lists with the same elements are the same list *)
Lemma ssorted_unique : forall l1 l2, ssorted l1 -> ssorted l2 -> (forall e, In e l1 <-> In e l2) -> l1 = l2.
Proof.
  induction l1 as [|a r1 IH]; intros l2 H1 H2 Hm.
  - destruct l2 as [|b r2]; auto. exfalso. apply (Hm b). left. reflexivity.
  - destruct l2 as [|b r2]. { exfalso. apply (Hm a). left. reflexivity. }
    destruct H1 as [A1 A2]. destruct H2 as [B1 B2].
    assert (Eab : a = b).
    { destruct (proj1 (Hm a) (or_introl eq_refl)) as [E|Ha]; auto.
      destruct (proj2 (Hm b) (or_introl eq_refl)) as [E|Hb]; auto.
      specialize (A1 b Hb). specialize (B1 a Ha). lia. }
    subst b. f_equal. apply IH; auto.
    intros e. split; intros He.
    + destruct (proj1 (Hm e) (or_intror He)) as [E|H]; auto. subst e. specialize (A1 a He). lia.
    + destruct (proj2 (Hm e) (or_intror He)) as [E|H]; auto. subst e. specialize (B1 a He). lia.
Qed.

(* ---------- the directory is strictly sorted by name ---------- *)
Fixpoint dsorted (d : updir) : Prop :=
  match d with
  | [] => True
  | a :: r => (forall x, In x r -> lex_cmp (fst a) (fst x) = Lt) /\ dsorted r
  end.

Lemma dir_put_dsorted : forall nm f d, dsorted d -> dsorted (dir_put nm f d).
Proof.
  intros nm f. induction d as [|[m g] d IH]; intros H; simpl.
  - split; [intros x []|exact I].
  - destruct H as [H1 H2]. destruct (lex_cmp nm m) eqn:E.
    + apply lex_cmp_eq in E. subst. split; auto.
    + split; [|split; auto]. intros x [<-|Hx]; [exact E|].
      apply lex_lt_trans with m; [exact E|apply (H1 x Hx)].
    + split; [|apply IH; exact H2].
      intros x Hx. destruct (dir_put_in _ _ _ _ Hx) as [->|Hx']; [|apply (H1 x Hx')].
      simpl. rewrite lex_cmp_antisym, E. reflexivity.
Qed.

Lemma dir_of_dsorted : forall c h, dsorted (dir_of c h).
Proof.
  intros c h. unfold dir_of.
  assert (G : forall h d, dsorted d -> dsorted (fold_left (dir_step c) h d)).
  { induction h0 as [|p h0 IH]; intros d Hd; simpl; auto. apply IH. apply dir_put_dsorted. exact Hd. }
  apply G. exact I.
Qed.

Lemma lex_lt_neq : forall a b, lex_cmp a b = Lt -> a <> b.
Proof. intros a b H E. subst. rewrite lex_cmp_refl in H. discriminate. Qed.

Lemma dir_put_mem : forall nm f d e, dsorted d ->
  (In e (dir_put nm f d) <-> e = (nm, f) \/ (In e d /\ fst e <> nm)).
Proof.
  intros nm f. induction d as [|[m g] d IH]; intros e H; simpl.
  - intuition.
  - destruct H as [H1 H2]. destruct (lex_cmp nm m) eqn:E.
    + apply lex_cmp_eq in E. subst m. simpl. split.
      * intros [<-|He]; auto. right. split; auto. apply not_eq_sym. apply lex_lt_neq. apply (H1 e He).
      * intros [->|[[<-|He] Hn]]; auto. simpl in Hn. congruence.
    + simpl. split.
      * intros [<-|[<-|He]]; auto.
        -- right. split; auto. simpl. apply not_eq_sym. apply lex_lt_neq. exact E.
        -- right. split; auto. apply not_eq_sym. apply lex_lt_neq.
           apply lex_lt_trans with m; [exact E|apply (H1 e He)].
      * intros [->|[He _]]; auto.
    + simpl. rewrite (IH e H2). split.
      * intros [<-|[->|[He Hn]]]; auto. right. split; auto. simpl. intros Em. subst m.
        rewrite lex_cmp_refl in E. discriminate.
      * intros [->|[[<-|He] Hn]]; auto.
Qed.

(* ---------- parts_put as a set operation ---------- *)
Lemma ascending_head_lt : forall a r, ascending (a :: r) -> forall x, In x r -> fst a < fst x.
Proof.
  intros a r. revert a. induction r as [|b r IH]; intros a H x Hx; [contradiction|].
  cbn [ascending] in H. destruct H as [H1 H2]. destruct Hx as [<-|Hx]; auto.
  specialize (IH b H2 x Hx). lia.
Qed.

Lemma parts_put_mem : forall n b l q, ascending l ->
  (In q (parts_put n b l) <-> q = (n, b) \/ (In q l /\ fst q <> n)).
Proof.
  intros n b. induction l as [|[m x] l IH]; intros q H; simpl.
  - intuition.
  - assert (Hl : ascending l) by (cbn [ascending] in H; destruct H; auto).
    pose proof (ascending_head_lt (m, x) l H) as Hlt. simpl in Hlt.
    destruct (n =? m) eqn:E1.
    + apply N.eqb_eq in E1. subst m. simpl. split.
      * intros [<-|Hq]; auto. right. split; auto. specialize (Hlt q Hq). lia.
      * intros [->|[[<-|Hq] Hn]]; auto. simpl in Hn. congruence.
    + apply N.eqb_neq in E1. destruct (n <? m) eqn:E2.
      * apply N.ltb_lt in E2. simpl. split.
        -- intros [<-|[<-|Hq]]; auto.
           right. split; auto. specialize (Hlt q Hq). intros Hqn. rewrite Hqn in Hlt. lia.
        -- intros [->|[Hq _]]; auto.
      * simpl. rewrite (IH q Hl). split.
        -- intros [<-|[->|[Hq Hn]]]; auto.
        -- intros [->|[[<-|Hq] Hn]]; auto.
Qed.

Lemma dir_of_snoc : forall c h p, dir_of c (h ++ [p]) = dir_step c (dir_of c h) p.
Proof. intros. unfold dir_of. rewrite fold_left_app. reflexivity. Qed.

Lemma parts_of_snoc : forall h p, parts_of (h ++ [p]) = parts_step (parts_of h) p.
Proof. intros. unfold parts_of. rewrite fold_left_app. reflexivity. Qed.

Lemma parts_of_numbers : forall h x, In x (map fst (parts_of h)) -> In x (map fst h).
Proof.
  intros h x H. unfold parts_of in H.
  assert (G : forall h l, In x (map fst (fold_left parts_step h l)) -> In x (map fst h) \/ In x (map fst l)).
  { induction h0 as [|q h0 IH]; intros l Hx; simpl in *; auto.
    destruct (IH _ Hx) as [I|I]; auto. unfold parts_step in I.
    destruct (parts_put_numbers _ _ _ _ I) as [->|I']; auto. }
  destruct (G h [] H) as [I|[]]. exact I.
Qed.

Lemma part_name_inj : forall n m, n <= 10000 -> m <= 10000 -> part_name n = part_name m -> n = m.
Proof.
  intros n m Hn Hm E. destruct (part_name_facts n Hn) as [F1 _]. destruct (part_name_facts m Hm) as [F2 _].
  rewrite <- F1, <- F2, E. reflexivity.
Qed.

(* the directory and the ascending part list hold the same entries *)
Lemma dir_of_mem : forall c h, (forall n, In n (map fst h) -> n <= 10000) ->
  forall e, In e (dir_of c h) <-> In e (map (enc c) (parts_of h)).
Proof.
  intros c. induction h as [|p h IH] using rev_ind; intros Hr e.
  - simpl. tauto.
  - assert (Hr' : forall n, In n (map fst h) -> n <= 10000).
    { intros n Hn. apply Hr. rewrite map_app. apply in_or_app. auto. }
    assert (Hp : fst p <= 10000).
    { apply Hr. rewrite map_app. apply in_or_app. right. left. reflexivity. }
    rewrite dir_of_snoc, parts_of_snoc. unfold dir_step, parts_step.
    rewrite (dir_put_mem _ _ _ e (dir_of_dsorted c h)). rewrite (IH Hr' e).
    rewrite !in_map_iff. split.
    + intros [->|[[q [Eq Hq]] Hn]].
      * exists (fst p, snd p). split; [reflexivity|]. apply parts_put_mem; [apply parts_of_ascending|]. auto.
      * exists q. split; auto. apply parts_put_mem; [apply parts_of_ascending|]. right. split; auto.
        intros En. apply Hn. rewrite <- Eq. unfold enc. simpl. rewrite En. reflexivity.
    + intros [q [Eq Hq]]. apply parts_put_mem in Hq; [|apply parts_of_ascending].
      destruct Hq as [->|[Hq Hn]].
      * left. rewrite <- Eq. reflexivity.
      * right. split; [exists q; auto|]. rewrite <- Eq. unfold enc. simpl. intros En. apply Hn.
        apply part_name_inj; auto. apply Hr'. apply parts_of_numbers. apply in_map. exact Hq.
Qed.

Lemma knum_enc : forall c q, fst q <= 10000 -> knum (enc c q) = fst q.
Proof. intros c q H. unfold knum, enc. simpl. apply part_name_facts. exact H. Qed.

Lemma parts_ssorted : forall c l, ascending l -> (forall q, In q l -> fst q <= 10000) -> ssorted (map (enc c) l).
Proof.
  intros c. induction l as [|a l IH]; intros Ha Hr; simpl; [exact I|].
  split.
  - intros x Hx. apply in_map_iff in Hx. destruct Hx as [q [<- Hq]].
    rewrite !knum_enc by (apply Hr; simpl; auto). apply (ascending_head_lt a l Ha q Hq).
  - apply IH; [cbn [ascending] in Ha; destruct Ha; auto|]. intros q Hq. apply Hr. right. exact Hq.
Qed.

(* names are distinct in a name-sorted directory, hence so are the part numbers *)
Lemma dsorted_keys_nodup : forall d, dsorted d ->
  (forall e, In e d -> exists n, n <= 10000 /\ fst e = part_name n) -> NoDup (map knum d).
Proof.
  induction d as [|a d IH]; intros Hs Hn; simpl; constructor.
  - destruct Hs as [H1 _]. intros Hin. apply in_map_iff in Hin. destruct Hin as [x [Ek Hx]].
    destruct (Hn a (or_introl eq_refl)) as [n [Hn1 Hn2]]. destruct (Hn x (or_intror Hx)) as [m [Hm1 Hm2]].
    unfold knum in Ek. rewrite Hn2, Hm2 in Ek.
    destruct (part_name_facts n Hn1) as [F1 _]. destruct (part_name_facts m Hm1) as [F2 _].
    rewrite F1, F2 in Ek. subst m. specialize (H1 x Hx). rewrite Hn2, Hm2, lex_cmp_refl in H1. discriminate.
  - destruct Hs as [_ H2]. apply IH; auto. intros e He. apply Hn. right. exact He.
Qed.

(* after the numeric sort the entries are the parts in ascending part-number order,
   for every set of part numbers up to 10000 — including 10000 next to 1001..9999 *)
Theorem sorted_dir_is_parts : forall c h, (forall n, In n (map fst h) -> n <= 10000) ->
  sort_by_number (dir_of c h) = map (enc c) (parts_of h).
Proof.
  intros c h Hr. apply ssorted_unique.
  - apply sort_by_number_ssorted. apply dsorted_keys_nodup; [apply dir_of_dsorted|].
    intros e He. assert (Hn : In (fst e) (map fst (dir_of c h))) by (apply in_map; exact He).
    apply dir_of_names in Hn. apply in_map_iff in Hn. destruct Hn as [p [Ep Hp]].
    exists (fst p). split; auto. apply Hr. apply in_map. exact Hp.
  - apply parts_ssorted; [apply parts_of_ascending|].
    intros q Hq. apply Hr. apply parts_of_numbers. apply in_map. exact Hq.
  - intros e. rewrite sort_by_number_in. apply dir_of_mem. exact Hr.
Qed.

(* an ascending list of numbers between lo and hi has at most hi + 1 - lo elements *)
Lemma ascending_length : forall l lo hi, ascending l ->
  (forall x, In x l -> lo <= fst x /\ fst x <= hi) -> N.of_nat (length l) <= hi + 1 - lo.
Proof.
  induction l as [|a r IH]; intros lo hi H Hb; simpl length.
  - lia.
  - destruct (Hb a (or_introl eq_refl)) as [B1 B2].
    assert (Hr : forall x, In x r -> fst a + 1 <= fst x /\ fst x <= hi).
    { intros x Hx. pose proof (ascending_head_lt a r H x Hx). destruct (Hb x (or_intror Hx)). lia. }
    assert (Ha : ascending r) by (cbn [ascending] in H; destruct H; auto).
    specialize (IH (fst a + 1) hi Ha Hr). rewrite Nat2N.inj_succ. lia.
Qed.

(* the explicit listing limit never cuts an upload with part numbers up to 10000 *)
Lemma listed_all : forall c h, (forall n, In n (map fst h) -> n <= 10000) -> listed (dir_of c h) = dir_of c h.
Proof.
  intros c h Hr. unfold listed. apply takeN_all. unfold nlen.
  rewrite <- (sort_by_number_length (dir_of c h)). rewrite (sorted_dir_is_parts c h Hr). rewrite map_length.
  assert (Hb : forall x, In x (parts_of h) -> 0 <= fst x /\ fst x <= 10000).
  { intros x Hx. split; [lia|]. apply Hr. apply parts_of_numbers. apply in_map. exact Hx. }
  pose proof (ascending_length (parts_of h) 0 10000 (parts_of_ascending h) Hb). unfold max_part_id. lia.
Qed.

(* the parts ready for assembly (listed, then sorted by number) are the parts in ascending order *)
Lemma complete_entries : forall c h, (forall n, In n (map fst h) -> n <= 10000) ->
  sort_by_number (listed (dir_of c h)) = map (enc c) (parts_of h).
Proof. intros c h Hr. rewrite (listed_all c h Hr). apply sorted_dir_is_parts. exact Hr. Qed.

Lemma complete_suffix : forall c h, (forall n, In n (map fst h) -> n <= 10000) ->
  forall e, In e (sort_by_number (listed (dir_of c h))) -> has_part_suffix (fst e) = true.
Proof.
  intros c h Hr e He. rewrite (complete_entries c h Hr) in He.
  apply in_map_iff in He. destruct He as [p [<- Hp]]. simpl.
  apply part_name_facts. apply Hr. apply parts_of_numbers. apply in_map. exact Hp.
Qed.

(* C28, c28_multipart_concat: the completed object is the concatenation of the uploaded parts in
   ASCENDING PART-NUMBER order (the last upload of a number wins), for every history of part
   uploads with numbers up to 10000 — unless a part is stored inline (-saveToFilerLimit) *)
Theorem complete_concat : forall c h,
  0 < c_chunk c ->
  (forall n, In n (map fst h) -> n <= 10000) ->
  trig_inline (dir_of c h) = false ->
  file_bytes (completed_file (dir_of c h)) = concat (map snd (parts_of h)).
Proof.
  intros c h Hc Hr T.
  destruct (complete_is_listing_concat _ (complete_suffix c h Hr)) as [_ E]. rewrite E.
  rewrite (complete_entries c h Hr). rewrite map_map. f_equal.
  apply map_ext_in. intros p Hp. unfold entry_bytes, enc. simpl.
  assert (Hi : is_inline (store_body c (snd p)) = false).
  { destruct (is_inline (store_body c (snd p))) eqn:Ei; auto. exfalso.
    assert (existsb (fun e => is_inline (snd e)) (dir_of c h) = true).
    { apply existsb_exists. exists (enc c p). split; [|exact Ei].
      apply (dir_of_mem c h Hr). apply in_map. exact Hp. }
    unfold trig_inline in T. congruence. }
  destruct (store_body_chunks c (snd p) Hc Hi) as [_ [_ S]]. exact S.
Qed.
