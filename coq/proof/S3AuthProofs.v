(* Proofs about model/S3Auth.v (C26). *)
From Coq Require Import List NArith Bool String Ascii Arith Lia.
From SW Require Import model.S3Auth.
Import ListNotations.
Local Open Scope string_scope.
Local Open Scope list_scope.

(* ---------- booleans / lists ---------- *)
Lemma existsb_orb : forall {A} (f g : A -> bool) l,
  existsb (fun x => f x || g x) l = existsb f l || existsb g l.
Proof.
  intros A f g l. induction l as [|x l IH]; simpl; auto.
  rewrite IH. destruct (f x), (g x), (existsb f l), (existsb g l); reflexivity.
Qed.

Lemma existsb_andb_const : forall {A} (c : bool) (g : A -> bool) l,
  existsb (fun x => c && g x) l = c && existsb g l.
Proof.
  intros A c g l. induction l as [|x l IH]; simpl.
  - destruct c; reflexivity.
  - rewrite IH. destruct c; reflexivity.
Qed.

Lemma find_app : forall {A} (f : A -> bool) l1 l2,
  find f (l1 ++ l2) = match find f l1 with Some x => Some x | None => find f l2 end.
Proof.
  intros A f l1 l2. induction l1 as [|x l1 IH]; simpl; auto.
  destruct (f x); auto.
Qed.

(* ---------- strings ---------- *)
Lemma sprefix_app_same : forall s x y, sprefix (s ++ x)%string (s ++ y)%string = sprefix x y.
Proof.
  induction s as [|c s IH]; intros x y; simpl; auto.
  rewrite Ascii.eqb_refl. simpl. apply IH.
Qed.

Lemma streqb_app_same : forall s x y, String.eqb (s ++ x)%string (s ++ y)%string = String.eqb x y.
Proof.
  induction s as [|c s IH]; intros x y; simpl; auto.
  rewrite Ascii.eqb_refl. apply IH.
Qed.

Lemma last_is_star_colon : forall s p, last_is_star (s ++ ":" ++ p)%string = last_is_star p.
Proof.
  induction s as [|c s IH]; intros p.
  - simpl. destruct p; reflexivity.
  - change ((String c s ++ ":" ++ p)%string) with (String c (s ++ ":" ++ p)%string).
    specialize (IH p).
    destruct s as [|c' s']; simpl in *; auto.
Qed.

Lemma drop_last_colon : forall s p, p <> EmptyString ->
  drop_last (s ++ ":" ++ p)%string = (s ++ ":" ++ drop_last p)%string.
Proof.
  induction s as [|c s IH]; intros p Hp.
  - simpl. destruct p; [congruence|reflexivity].
  - change ((String c s ++ ":" ++ p)%string) with (String c (s ++ ":" ++ p)%string).
    specialize (IH p Hp).
    destruct s as [|c' s']; simpl in *.
    + destruct p; [congruence|]. reflexivity.
    + rewrite IH. reflexivity.
Qed.

Lemma last_is_star_nonempty : forall p, last_is_star p = true -> p <> EmptyString.
Proof. intros p H E. subst. discriminate. Qed.

(* ---------- canDo = the declarative "some configured action grants it" ---------- *)
Theorem can_do_allows : forall acts action bucket,
  can_do acts action bucket = allows acts action bucket.
Proof.
  intros acts action bucket. unfold can_do, allows, is_admin, grants.
  rewrite (existsb_orb (fun x => String.eqb x ACTION_ADMIN || String.eqb x action)).
  rewrite (existsb_orb (fun x => String.eqb x ACTION_ADMIN) (fun x => String.eqb x action)).
  rewrite existsb_andb_const.
  destruct (existsb (fun x => String.eqb x ACTION_ADMIN) acts); simpl; auto.
  destruct (existsb (fun x => String.eqb x action) acts); simpl; auto.
  destruct (String.eqb bucket ""); simpl; auto.
Qed.

Lemma allows_app : forall l1 l2 a b, allows (l1 ++ l2) a b = allows l1 a b || allows l2 a b.
Proof. intros. unfold allows. apply existsb_app. Qed.

Lemma can_do_app : forall l1 l2 a b, can_do (l1 ++ l2) a b = can_do l1 a b || can_do l2 a b.
Proof. intros. rewrite !can_do_allows. apply allows_app. Qed.

(* ---------- lookups ---------- *)
Lemma lookup_in : forall ids ak id s, lookup_by_access_key ids ak = Some (id, s) -> In id ids.
Proof.
  induction ids as [|i ids IH]; intros ak id s H; simpl in *; [discriminate|].
  destruct (find_cred ak (id_creds i)).
  - inversion H; subst. auto.
  - right. eapply IH; eauto.
Qed.

Lemma find_cred_in : forall ak cs s, find_cred ak cs = Some s -> In (ak, s) cs.
Proof.
  induction cs as [|[k s'] cs IH]; intros s H; simpl in *; [discriminate|].
  destruct (String.eqb_spec k ak).
  - inversion H; subst. auto.
  - right. auto.
Qed.

Lemma lookup_anonymous_in : forall ids id,
  lookup_anonymous ids = Some id -> In id ids /\ id_name id = "anonymous".
Proof.
  unfold lookup_anonymous. intros ids id H. apply find_some in H. destruct H as [Hin He].
  split; auto. apply String.eqb_eq. auto.
Qed.

(* the flat credential table searched front to back is lookupByAccessKey *)
Lemma find_cred_table_one : forall i ak cs,
  find (fun e : identity * string * string => String.eqb (snd (fst e)) ak)
       (map (fun ks : string * string => (i, fst ks, snd ks)) cs) =
  match find_cred ak cs with Some s => Some (i, ak, s) | None => None end.
Proof.
  intros i ak cs. induction cs as [|[k s] cs IH]; simpl; auto.
  destruct (String.eqb_spec k ak); subst; auto.
Qed.

Lemma find_cred_table : forall ids ak,
  find (fun e : identity * string * string => String.eqb (snd (fst e)) ak) (cred_table ids) =
  match lookup_by_access_key ids ak with Some (id, s) => Some (id, ak, s) | None => None end.
Proof.
  induction ids as [|i ids IH]; intros ak; simpl; auto.
  rewrite find_app, find_cred_table_one.
  destruct (find_cred ak (id_creds i)); auto.
Qed.

(* ---------- the property ---------- *)
(* "a valid signature of identity id": the request is of a signature-carrying type, the
   access key it names resolves (first match) to id, the signature was made with that
   credential's secret, and nothing was altered / it is inside its validity window *)
Definition valid_signature (ids : list identity) (t : auth_type) (c : claim) (id : identity) : Prop :=
  is_sig_type t = true /\
  exists secret, lookup_by_access_key ids (cl_ak c) = Some (id, secret) /\
                 secret = cl_secret c /\
                 sig_fresh (is_presigned_type t) (cl_damage c) = true.

Definition authorized (ids : list identity) (r : request) (c : claim) (action : string) : Prop :=
  (exists id, valid_signature ids (get_request_auth_type r) c id /\
              can_do (id_actions id) action (rq_bucket r) = true)
  \/
  (get_request_auth_type r = Anonymous /\
   exists id, lookup_anonymous ids = Some id /\ can_do (id_actions id) action (rq_bucket r) = true).

Definition authenticated (ids : list identity) (r : request) (c : claim) : Prop :=
  (exists id, valid_signature ids (get_request_auth_type r) c id)
  \/ (get_request_auth_type r = Anonymous /\ exists id, lookup_anonymous ids = Some id).

Lemma sig_verify_ok : forall ids p c id,
  sig_verify ids p c = SigOk id ->
  exists secret, lookup_by_access_key ids (cl_ak c) = Some (id, secret) /\
                 secret = cl_secret c /\ sig_fresh p (cl_damage c) = true.
Proof.
  intros ids p c id H. unfold sig_verify in H.
  destruct (cl_damage c) eqn:Ed; try discriminate;
  destruct (lookup_by_access_key ids (cl_ak c)) as [[id' s]|]; try discriminate;
  destruct p; simpl in H; try discriminate;
  destruct (String.eqb_spec s (cl_secret c)); simpl in H; try discriminate;
  inversion H; subst; exists (cl_secret c); auto.
Qed.

Lemma sig_check_ok : forall ids t r c id,
  is_sig_type t = true -> sig_check ids t r c = SigOk id ->
  exists secret, lookup_by_access_key ids (cl_ak c) = Some (id, secret) /\
                 secret = cl_secret c /\ sig_fresh (is_presigned_type t) (cl_damage c) = true.
Proof.
  intros ids t r c id Ht H. destruct t; simpl in Ht; try discriminate; simpl in *.
  - apply sig_verify_ok; auto.
  - destruct (has_bare_query (rq_query r)); [discriminate|]. apply sig_verify_ok; auto.
  - apply sig_verify_ok; auto.
  - apply sig_verify_ok; auto.
Qed.

Lemma authenticate_pass : forall ids r c,
  authenticate ids r c = PassUnchecked <-> trigger r = true.
Proof.
  intros ids r c. unfold authenticate, trigger.
  destruct (get_request_auth_type r); cbn [bypass_type];
  try (destruct (sig_check ids _ r c));
  try (destruct (lookup_anonymous ids));
  split; intro H; try discriminate; auto.
Qed.

Lemma authenticate_ident : forall ids r c id,
  authenticate ids r c = Ident id ->
  valid_signature ids (get_request_auth_type r) c id \/
  (get_request_auth_type r = Anonymous /\ lookup_anonymous ids = Some id).
Proof.
  intros ids r c id H. unfold authenticate in H.
  destruct (get_request_auth_type r) eqn:Et; try discriminate.
  - right. split; auto. destruct (lookup_anonymous ids); inversion H; subst; auto.
  - left. destruct (sig_check ids Presigned r c) eqn:Es; inversion H; subst.
    split; auto. eapply sig_check_ok; eauto.
  - left. destruct (sig_check ids PresignedV2 r c) eqn:Es; inversion H; subst.
    split; auto. eapply sig_check_ok; eauto.
  - left. destruct (sig_check ids Signed r c) eqn:Es; inversion H; subst.
    split; auto. eapply sig_check_ok; eauto.
  - left. destruct (sig_check ids SignedV2 r c) eqn:Es; inversion H; subst.
    split; auto. eapply sig_check_ok; eauto.
Qed.

(* every request of a bypass type passes Auth, whatever the action, identities, signature *)
Theorem bypass_passes : forall ids r c action,
  trigger r = true -> auth ids r c action = Run None.
Proof.
  intros ids r c action H. unfold auth, auth_request.
  apply (authenticate_pass ids r c) in H. rewrite H. destruct ids; reflexivity.
Qed.

Theorem auth_partial : forall ids r c action w,
  ids <> [] -> trigger r = false -> auth ids r c action = Run w ->
  authorized ids r c action /\ exists id, w = Some id /\ In id ids.
Proof.
  intros ids r c action w Hne Ht H.
  unfold auth in H. destruct ids as [|i0 ids0]; [congruence|].
  set (ids := i0 :: ids0) in *. unfold auth_request in H.
  destruct (authenticate ids r c) eqn:Ea.
  - apply authenticate_pass in Ea. congruence.
  - discriminate.
  - unfold authorize in H.
    destruct (can_do (id_actions id) action (rq_bucket r)) eqn:Ec; [|discriminate].
    inversion H; subst w. apply authenticate_ident in Ea. destruct Ea as [Hv|[Hty Han]].
    + split.
      * left. exists id. auto.
      * exists id. split; auto. destruct Hv as [_ [s [Hl _]]]. eapply lookup_in; eauto.
    + split.
      * right. split; auto. exists id. auto.
      * exists id. split; auto. apply lookup_anonymous_in in Han. tauto.
Qed.

Theorem auth_user_partial : forall ids r c w,
  ids <> [] -> trigger r = false -> auth_user ids r c = Run w -> authenticated ids r c.
Proof.
  intros ids r c w Hne Ht H.
  unfold auth_user in H. destruct ids as [|i0 ids0]; [congruence|].
  set (ids := i0 :: ids0) in *. unfold auth_user_request in H.
  destruct (authenticate ids r c) eqn:Ea.
  - apply authenticate_pass in Ea. congruence.
  - discriminate.
  - apply authenticate_ident in Ea. destruct Ea as [Hv|[Hty Han]].
    + left. exists id. auto.
    + right. split; auto. exists id. auto.
Qed.

(* ---------- the executable oracle used by check/C26.v is exactly the Prop above ---------- *)
Theorem authorized_spec_iff : forall ids r c action,
  authorized_spec ids (get_request_auth_type r) c action (rq_bucket r) = true <-> authorized ids r c action.
Proof.
  intros ids r c action. unfold authorized_spec, authorized, valid_signature, lookup_anonymous.
  rewrite find_cred_table.
  remember (get_request_auth_type r) as t eqn:Et. clear Et.
  split.
  - intro H. apply orb_true_iff in H. destruct H as [H|H].
    + apply andb_true_iff in H. destruct H as [Hs H].
      destruct (lookup_by_access_key ids (cl_ak c)) as [[id s]|] eqn:El; [|discriminate].
      apply andb_true_iff in H. destruct H as [H Ha]. apply andb_true_iff in H. destruct H as [He Hf].
      left. exists id. split.
      * split; auto. exists s. repeat split; auto. apply String.eqb_eq; auto.
      * rewrite can_do_allows. auto.
    + apply andb_true_iff in H. destruct H as [Ht H].
      destruct t; try discriminate.
      right. split; auto.
      destruct (find (fun i : identity => String.eqb (id_name i) "anonymous") ids) as [id|]; [|discriminate].
      exists id. split; auto. rewrite can_do_allows; auto.
  - intros [[id [[Hs [s [Hl [He Hf]]]] Hc]]|[Ht [id [Hl Hc]]]].
    + apply orb_true_iff. left. rewrite Hs, Hl. subst s. rewrite String.eqb_refl, Hf.
      rewrite <- can_do_allows, Hc. reflexivity.
    + apply orb_true_iff. right. rewrite Ht, Hl. rewrite <- can_do_allows, Hc. reflexivity.
Qed.

Theorem authenticated_spec_iff : forall ids r c,
  authenticated_spec ids (get_request_auth_type r) c = true <-> authenticated ids r c.
Proof.
  intros ids r c. unfold authenticated_spec, authenticated, valid_signature, lookup_anonymous.
  rewrite find_cred_table.
  remember (get_request_auth_type r) as t eqn:Et. clear Et.
  split.
  - intro H. apply orb_true_iff in H. destruct H as [H|H].
    + apply andb_true_iff in H. destruct H as [Hs H].
      destruct (lookup_by_access_key ids (cl_ak c)) as [[id s]|] eqn:El; [|discriminate].
      apply andb_true_iff in H. destruct H as [He Hf].
      left. exists id. split; auto. exists s. repeat split; auto. apply String.eqb_eq; auto.
    + apply andb_true_iff in H. destruct H as [Ht H].
      destruct t; try discriminate.
      right. split; auto.
      destruct (find (fun i : identity => String.eqb (id_name i) "anonymous") ids) as [id|]; [|discriminate].
      exists id. auto.
  - intros [[id [Hs [s [Hl [He Hf]]]]]|[Ht [id Hl]]].
    + apply orb_true_iff. left. rewrite Hs, Hl. subst s. rewrite String.eqb_refl, Hf. reflexivity.
    + apply orb_true_iff. right. rewrite Ht, Hl. reflexivity.
Qed.

(* ---------- the full statement fails: witnesses ---------- *)
Definition witness_ids : list identity :=
  [{| id_name := "admin"; id_creds := [("AKADMIN", "sk-admin")]; id_actions := [ACTION_ADMIN] |}].
Definition no_claim : claim := {| cl_ak := ""; cl_secret := ""; cl_damage := Intact |}.
(* PUT /b1 with "x-amz-content-sha256: STREAMING-AWS4-HMAC-SHA256-PAYLOAD" and no credentials *)
Definition witness_streaming : request :=
  {| rq_method := "PUT"; rq_bucket := "b1"; rq_object := ""; rq_query := []; rq_authz := None;
     rq_sha256 := streamingContentSHA256; rq_ctype := ""; rq_copysrc := "" |}.
(* POST /b1/o?uploads with "Content-Type: multipart/form-data" and no credentials *)
Definition witness_form : request :=
  {| rq_method := "POST"; rq_bucket := "b1"; rq_object := "o"; rq_query := [("uploads", None)]; rq_authz := None;
     rq_sha256 := ""; rq_ctype := "multipart/form-data"; rq_copysrc := "" |}.

Definition handler_runs_unauthorized (ids : list identity) (r : request) (c : claim) : Prop :=
  ids <> [] /\
  exists i rt, route_match r = Some i /\ nth_error route_table (N.to_nat i) = Some rt /\
               (exists w, auth ids r c (rt_action rt) = Run w) /\ ~ authorized ids r c (rt_action rt).

Lemma witness_streaming_bad : handler_runs_unauthorized witness_ids witness_streaming no_claim.
Proof.
  split; [discriminate|].
  exists 14%N, (mk "PutBucketHandler" "PUT" false HNone [] ACTION_ADMIN).
  split; [vm_compute; reflexivity|]. split; [reflexivity|]. split.
  - exists None. vm_compute. reflexivity.
  - intros [[id [[Hs _] _]]|[Ht _]]; vm_compute in Hs || vm_compute in Ht; discriminate.
Qed.

Lemma witness_form_bad : handler_runs_unauthorized witness_ids witness_form no_claim.
Proof.
  split; [discriminate|].
  exists 5%N, (mk "NewMultipartUploadHandler" "POST" true HNone [QHas "uploads"] ACTION_WRITE).
  split; [vm_compute; reflexivity|]. split; [reflexivity|]. split.
  - exists None. vm_compute. reflexivity.
  - intros [[id [[Hs _] _]]|[Ht _]]; vm_compute in Hs || vm_compute in Ht; discriminate.
Qed.

(* the property at full strength, as one closed statement, and its refutation *)
Definition handler_implies_authorized_statement : Prop :=
  forall ids r c action w, ids <> [] -> auth ids r c action = Run w -> authorized ids r c action.

Lemma full_statement_false : ~ handler_implies_authorized_statement.
Proof.
  intro H. destruct witness_streaming_bad as [Hne [i [rt [_ [_ [[w Hw] Hna]]]]]].
  apply Hna. eapply H; eauto.
Qed.

(* ---------- the route table ---------- *)
Lemma find_index_some : forall {A} (f : A -> bool) l i j,
  find_index f l i = Some j ->
  exists k x, j = (i + N.of_nat k)%N /\ nth_error l k = Some x /\ f x = true /\
              forall k' y, (k' < k)%nat -> nth_error l k' = Some y -> f y = false.
Proof.
  intros A f. induction l as [|a l IH]; intros i j H; simpl in H; [discriminate|].
  destruct (f a) eqn:Ef.
  - inversion H; subst. exists 0%nat, a. repeat split; auto.
    + simpl. rewrite N.add_0_r. reflexivity.
    + intros k' y Hk. lia.
  - apply IH in H. destruct H as [k [x [Hj [Hn [Hf Hall]]]]].
    exists (S k), x. repeat split; auto.
    + rewrite Hj. rewrite Nnat.Nat2N.inj_succ. lia.
    + intros k' y Hk Hy. destruct k' as [|k']; simpl in Hy.
      * inversion Hy; subst; auto.
      * apply (Hall k' y); auto. lia.
Qed.

Lemma find_index_none : forall {A} (f : A -> bool) l i,
  find_index f l i = None -> forall x, In x l -> f x = false.
Proof.
  intros A f. induction l as [|a l IH]; intros i H x Hin; simpl in *; [tauto|].
  destruct (f a) eqn:Ef; [discriminate|].
  destruct Hin as [<-|Hin]; auto. eapply IH; eauto.
Qed.

(* mux semantics: the first registered route that matches; ListBuckets only for GET / *)
Theorem route_match_first : forall r i, route_match r = Some i ->
  (exists rt, nth_error route_table (N.to_nat i) = Some rt /\ route_matches r rt = true /\
     forall k' y, (k' < N.to_nat i)%nat -> nth_error route_table k' = Some y -> route_matches r y = false)
  \/
  (i = list_buckets_index /\ rq_bucket r = "" /\ rq_method r = "GET" /\
   forall rt, In rt route_table -> route_matches r rt = false).
Proof.
  intros r i H. unfold route_match in H.
  destruct (find_index (route_matches r) route_table 0) as [j|] eqn:Ef.
  - inversion H; subst j. left. apply find_index_some in Ef.
    destruct Ef as [k [x [Hj [Hn [Hf Hall]]]]]. rewrite N.add_0_l in Hj. subst i.
    rewrite Nnat.Nat2N.id. exists x. auto.
  - right.
    destruct (String.eqb_spec (rq_bucket r) ""); simpl in H; [|discriminate].
    destruct (String.eqb (rq_object r) ""); simpl in H; [|discriminate].
    destruct (String.eqb_spec (rq_method r) "GET"); [|discriminate].
    inversion H. repeat split; auto. eapply find_index_none; eauto.
Qed.

Lemma route_actions_are_s3_actions :
  Forall (fun rt => is_s3_action (rt_action rt) = true) route_table.
Proof. repeat constructor. Qed.

(* every route of the table, every non-bypass request *)
Theorem every_route_partial : forall ids r c i w,
  ids <> [] -> trigger r = false -> route_match r = Some i ->
  route_decision ids r c i = Run w ->
  match nth_error route_table (N.to_nat i) with
  | Some rt => authorized ids r c (rt_action rt)
  | None => authenticated ids r c
  end.
Proof.
  intros ids r c i w Hne Ht Hm H. unfold route_decision in H.
  destruct (nth_error route_table (N.to_nat i)) as [rt|].
  - eapply auth_partial; eauto.
  - eapply auth_user_partial; eauto.
Qed.

(* and on a bypass request every route's handler runs *)
Theorem every_route_bypass : forall ids r c i,
  trigger r = true -> route_decision ids r c i = Run None.
Proof.
  intros ids r c i Ht. unfold route_decision.
  destruct (nth_error route_table (N.to_nat i)) as [rt|].
  - apply bypass_passes; auto.
  - unfold auth_user, auth_user_request. apply (authenticate_pass ids r c) in Ht. rewrite Ht.
    destruct ids; reflexivity.
Qed.

(* the classification is a function of: Authorization scheme, two query keys, one header+method,
   content type+method -- in THIS order (consequences used in the report) *)
Lemma streaming_wins_over_v4 : forall r,
  is_request_signature_v2 r = false -> is_request_presigned_v2 r = false ->
  is_request_sign_streaming_v4 r = true -> get_request_auth_type r = StreamingSigned.
Proof. intros r H1 H2 H3. unfold get_request_auth_type. rewrite H1, H2, H3. reflexivity. Qed.

