(* Proofs about model/FsCache.v (C39). *)
From Coq Require Import String List NArith Bool Arith Lia.
From SW Require Import model.FsCache.
Import ListNotations.
Local Open Scope string_scope.
Local Open Scope list_scope.

(* ---------- paths ---------- *)
Lemma path_eqb_eq : forall a b, path_eqb a b = true <-> a = b.
Proof.
  induction a as [|x a IH]; intros [|y b]; simpl; split; intro H; try reflexivity; try discriminate.
  - apply andb_true_iff in H. destruct H as [H1 H2]. apply String.eqb_eq in H1. apply IH in H2. congruence.
  - inversion H; subst. rewrite String.eqb_refl. simpl. apply IH. reflexivity.
Qed.

Lemma path_eqb_refl : forall a, path_eqb a a = true.
Proof. intro a. apply path_eqb_eq. reflexivity. Qed.

Lemma path_eqb_neq : forall a b, path_eqb a b = false <-> a <> b.
Proof.
  intros a b. split; intro H.
  - intro E. apply path_eqb_eq in E. congruence.
  - destruct (path_eqb a b) eqn:E; auto. apply path_eqb_eq in E. contradiction.
Qed.

Lemma is_prefix_iff : forall a b, is_prefix a b = true <-> exists r, b = a ++ r.
Proof.
  induction a as [|x a IH]; intros b; simpl.
  - split; [intros _; exists b; reflexivity | reflexivity].
  - destruct b as [|y b].
    + split; [discriminate | intros [r Hr]; discriminate].
    + rewrite andb_true_iff, String.eqb_eq, IH. split.
      * intros [E [r Hr]]. exists r. subst. reflexivity.
      * intros [r Hr]. inversion Hr; subst. split; [reflexivity | exists r; reflexivity].
Qed.

Lemma is_prefix_app : forall a r, is_prefix a (a ++ r) = true.
Proof. intros. apply is_prefix_iff. exists r. reflexivity. Qed.

Lemma skipn_app_exact : forall (a r : path), skipn (length a) (a ++ r) = r.
Proof. induction a; simpl; auto. Qed.

Lemma is_prefix_split : forall a b, is_prefix a b = true -> b = a ++ skipn (length a) b.
Proof.
  intros a b H. apply is_prefix_iff in H. destruct H as [r Hr]. subst.
  rewrite skipn_app_exact. reflexivity.
Qed.

(* ---------- children maps ---------- *)
Lemma find_remove_same : forall n k, find_child n (remove_child n k) = None.
Proof.
  intros n k. induction k as [|[m c] k IH]; simpl; auto.
  destruct (String.eqb n m) eqn:E; simpl; auto. rewrite E. auto.
Qed.

Lemma find_remove_other : forall n m k, String.eqb m n = false ->
  find_child m (remove_child n k) = find_child m k.
Proof.
  intros n m k Hne. induction k as [|[x c] k IH]; simpl; auto.
  destruct (String.eqb n x) eqn:E; simpl.
  - apply String.eqb_eq in E. subst x. rewrite Hne. auto.
  - destruct (String.eqb m x); auto.
Qed.

Lemma find_put_same : forall n c k, find_child n (put_child n c k) = Some c.
Proof. intros. unfold put_child. simpl. rewrite String.eqb_refl. reflexivity. Qed.

Lemma find_put_other : forall n m c k, String.eqb m n = false ->
  find_child m (put_child n c k) = find_child m k.
Proof. intros. unfold put_child. simpl. rewrite H. apply find_remove_other; auto. Qed.

(* ---------- get ---------- *)
Lemma get_nil : forall t, get t [] = value t.
Proof. reflexivity. Qed.

Lemma get_cons : forall t n q,
  get t (n :: q) = match find_child n (children t) with Some c => get c q | None => None end.
Proof. intros. unfold get. simpl. destruct (find_child n (children t)); reflexivity. Qed.

Lemma get_empty : forall q, get empty_node q = None.
Proof. intros [|n q]; reflexivity. Qed.

Lemma get_child_or_empty : forall t n q, get (child_or_empty n t) q = get t (n :: q).
Proof.
  intros. rewrite get_cons. unfold child_or_empty.
  destruct (find_child n (children t)); auto using get_empty.
Qed.

Lemma node_at_app : forall p t r,
  node_at t (p ++ r) = match node_at t p with Some s => node_at s r | None => None end.
Proof.
  induction p as [|n p IH]; intros t r; simpl; auto.
  destruct (find_child n (children t)); auto.
Qed.

Lemma get_node_at : forall t p s r, node_at t p = Some s -> get s r = get t (p ++ r).
Proof. intros t p s r H. unfold get. rewrite node_at_app, H. reflexivity. Qed.

Lemma node_at_none_get : forall t p q, node_at t p = None -> is_prefix p q = true -> get t q = None.
Proof.
  intros t p q H Hp. rewrite (is_prefix_split _ _ Hp). unfold get. rewrite node_at_app, H. reflexivity.
Qed.

(* a lookup that answers proves the FsNode exists *)
Lemma get_some_has : forall t p q v, get t q = Some v -> is_prefix p q = true -> has t p = true.
Proof.
  intros t p q v Hg Hp. unfold has. destruct (node_at t p) eqn:E; auto.
  rewrite (node_at_none_get _ _ _ E Hp) in Hg. discriminate.
Qed.

(* ---------- SetFsNode ---------- *)
Lemma get_set : forall p t v q, get (set t p v) q = if path_eqb q p then Some v else get t q.
Proof.
  induction p as [|n p IH]; intros t v q; simpl.
  - destruct q as [|m q]; simpl; auto.
  - destruct q as [|m q]; [reflexivity|].
    rewrite !get_cons. cbn [children path_eqb].
    destruct (String.eqb m n) eqn:E; cbn [andb].
    + apply String.eqb_eq in E. subst m. rewrite find_put_same, IH.
      rewrite get_child_or_empty, get_cons. reflexivity.
    + rewrite find_put_other by auto. reflexivity.
Qed.

(* ---------- DeleteFsNode ---------- *)
Lemma get_remove_at : forall p t q, p <> [] ->
  get (remove_at t p) q = if is_prefix p q then None else get t q.
Proof.
  induction p as [|n p IH]; intros t q Hne; [contradiction|]. simpl.
  destruct (find_child n (children t)) as [c|] eqn:F.
  - destruct p as [|x p'].
    + destruct q as [|m q]; [reflexivity|].
      rewrite !get_cons. cbn [children is_prefix].
      destruct (String.eqb n m) eqn:E; cbn [andb].
      * apply String.eqb_eq in E. subst m. rewrite find_remove_same. reflexivity.
      * rewrite find_remove_other by (rewrite String.eqb_sym; auto). reflexivity.
    + destruct q as [|m q]; [reflexivity|].
      rewrite !get_cons. cbn [children is_prefix].
      destruct (String.eqb n m) eqn:E; cbn [andb].
      * apply String.eqb_eq in E. subst m. rewrite find_put_same, F.
        apply IH. discriminate.
      * rewrite find_put_other by (rewrite String.eqb_sym; auto). reflexivity.
  - destruct q as [|m q]; [reflexivity|]. cbn [is_prefix].
    destruct (String.eqb n m) eqn:E; cbn [andb]; auto.
    apply String.eqb_eq in E. subst m. rewrite get_cons, F.
    destruct (is_prefix p q); reflexivity.
Qed.

Lemma get_delete : forall p t q, get (delete t p) q = if is_prefix p q then None else get t q.
Proof.
  intros [|n p] t q.
  - simpl. apply (get_empty q).
  - apply get_remove_at. discriminate.
Qed.

(* ---------- Move ---------- *)
Lemma get_graft : forall p t s q, p <> [] ->
  get (graft t p s) q = if is_prefix p q then get s (skipn (length p) q) else get t q.
Proof.
  induction p as [|n p IH]; intros t s q Hne; [contradiction|].
  destruct p as [|x p'].
  - cbn [graft]. destruct q as [|m q]; [reflexivity|].
    rewrite !get_cons. cbn [children is_prefix length skipn].
    destruct (String.eqb n m) eqn:E; cbn [andb].
    + apply String.eqb_eq in E. subst m. rewrite find_put_same. reflexivity.
    + rewrite find_put_other by (rewrite String.eqb_sym; auto). reflexivity.
  - change (graft t (n :: x :: p') s) with
      (Node (value t) (put_child n (graft (child_or_empty n t) (x :: p') s) (children t))).
    destruct q as [|m q]; [reflexivity|].
    rewrite !get_cons. cbn [children]. cbn [is_prefix length skipn].
    destruct (String.eqb n m) eqn:E; cbn [andb].
    + apply String.eqb_eq in E. subst m. rewrite find_put_same.
      rewrite IH by discriminate. rewrite get_child_or_empty, get_cons. reflexivity.
    + rewrite find_put_other by (rewrite String.eqb_sym; auto). reflexivity.
Qed.

Lemma get_move_found : forall t old new src q, old <> [] -> new <> [] ->
  node_at t old = Some src ->
  get (fst (move t old new)) q =
    if is_prefix new q then get t (old ++ skipn (length new) q)
    else if is_prefix old q then None else get t q.
Proof.
  intros t old new src q Ho Hn Hs. unfold move. rewrite Hs. simpl.
  rewrite get_graft by auto. rewrite get_remove_at by auto.
  rewrite (get_node_at _ _ _ _ Hs). reflexivity.
Qed.

Lemma move_missing : forall t old new, node_at t old = None -> move t old new = (t, false).
Proof. intros. unfold move. rewrite H. reflexivity. Qed.

(* ---------- the reference map ---------- *)
Lemma r_get_set : forall m p v q, r_get (r_set m p v) q = if path_eqb q p then Some v else r_get m q.
Proof. reflexivity. Qed.

Lemma r_get_delete : forall m p q,
  r_get (r_delete m p) q = if is_prefix p q then None else r_get m q.
Proof.
  intros m p q. induction m as [|[k v] m IH]; simpl.
  - destruct (is_prefix p q); reflexivity.
  - destruct (is_prefix p k) eqn:Pk; simpl.
    + rewrite IH. destruct (path_eqb q k) eqn:E; auto.
      apply path_eqb_eq in E. subst k. rewrite Pk. reflexivity.
    + rewrite IH. destruct (path_eqb q k) eqn:E; auto.
      apply path_eqb_eq in E. subst k. rewrite Pk. reflexivity.
Qed.

Lemma r_get_app : forall a b q,
  r_get (a ++ b) q = match r_get a q with Some v => Some v | None => r_get b q end.
Proof.
  induction a as [|[k v] a IH]; intros b q; simpl; auto.
  destruct (path_eqb q k); auto.
Qed.

Lemma r_get_rekeyed : forall m old new q,
  r_get (map (rekey old new) (filter (fun e => is_prefix old (fst e)) m)) q =
    if is_prefix new q then r_get m (old ++ skipn (length new) q) else None.
Proof.
  intros m old new q.
  assert (Hc : forall k v m q, r_get ((k, v) :: m) q = if path_eqb q k then Some v else r_get m q)
    by reflexivity.
  assert (Hk : forall k v, rekey old new (k, v) = (new ++ skipn (length old) k, v)) by reflexivity.
  induction m as [|[k v] m IH].
  - simpl. destruct (is_prefix new q); reflexivity.
  - cbn [filter fst]. rewrite Hc. destruct (is_prefix old k) eqn:Pk.
    + cbn [map]. rewrite Hk, Hc, IH.
      destruct (path_eqb q (new ++ skipn (length old) k)) eqn:E.
      * apply path_eqb_eq in E. subst q. rewrite is_prefix_app, skipn_app_exact.
        rewrite <- (is_prefix_split _ _ Pk). rewrite path_eqb_refl. reflexivity.
      * destruct (is_prefix new q) eqn:Pq; auto.
        destruct (path_eqb (old ++ skipn (length new) q) k) eqn:E2; auto.
        apply path_eqb_eq in E2. subst k. rewrite skipn_app_exact in E.
        rewrite <- (is_prefix_split _ _ Pq) in E. rewrite path_eqb_refl in E. discriminate.
    + rewrite IH. destruct (is_prefix new q) eqn:Pq; auto.
      destruct (path_eqb (old ++ skipn (length new) q) k) eqn:E2; auto.
      apply path_eqb_eq in E2. subst k. rewrite is_prefix_app in Pk. discriminate.
Qed.

Lemma r_get_move_found : forall m old new q, r_has m old = true ->
  r_get (fst (r_move m old new)) q =
    if is_prefix new q then r_get m (old ++ skipn (length new) q)
    else if is_prefix old q then None else r_get m q.
Proof.
  intros m old new q H. unfold r_move. rewrite H. simpl.
  rewrite r_get_app, r_get_rekeyed, !r_get_delete.
  destruct (is_prefix new q); auto.
  destruct (r_get m (old ++ skipn (length new) q)); auto.
Qed.

Lemma r_move_missing : forall m old new, r_has m old = false -> r_move m old new = (m, false).
Proof. intros. unfold r_move. rewrite H. reflexivity. Qed.

Lemma r_has_false_get : forall m p q, r_has m p = false -> is_prefix p q = true -> r_get m q = None.
Proof.
  intros m p q H Hp. induction m as [|[k v] m IH]; simpl in *; auto.
  apply orb_false_iff in H. destruct H as [H1 H2].
  destruct (path_eqb q k) eqn:E; auto.
  apply path_eqb_eq in E. subst k. congruence.
Qed.

Lemma r_in_get : forall m k v, In (k, v) m -> exists v', r_get m k = Some v'.
Proof.
  induction m as [|[k' v'] m IH]; intros k v H; simpl in *; [contradiction|].
  destruct (path_eqb k k') eqn:E; eauto.
  destruct H as [H|H]; eauto. inversion H; subst. rewrite path_eqb_refl in E. discriminate.
Qed.

Lemma r_has_true_get : forall m p, r_has m p = true ->
  exists q v, is_prefix p q = true /\ r_get m q = Some v.
Proof.
  intros m p H. unfold r_has in H. apply existsb_exists in H.
  destruct H as [[k v] [Hin Hp]]. simpl in Hp.
  destruct (r_in_get _ _ _ Hin) as [v' Hv]. eauto.
Qed.

(* ---------- refinement ---------- *)
Definition agree (t : tree) (m : rmap) : Prop := forall q, get t q = r_get m q.

Lemma init_agree : forall root, agree (init root) (r_init root).
Proof.
  intros [v|] q; unfold init, r_init.
  - destruct q as [|n q]; reflexivity.
  - destruct q as [|n q]; reflexivity.
Qed.

Lemma agree_has : forall t m p, agree t m -> r_has m p = true -> has t p = true.
Proof.
  intros t m p A H. destruct (r_has_true_get _ _ H) as [q [v [Hp Hv]]].
  rewrite <- A in Hv. eapply get_some_has; eauto.
Qed.

Lemma step_agree : forall t m o, agree t m -> valid_op o = true -> ghost_move t m o = false ->
  agree (fst (step t o)) (fst (r_step m o)).
Proof.
  intros t m o A V G. destruct o as [p v|p fresh|p|p|old new]; cbn [step r_step].
  - cbn [fst]. intro q. rewrite get_set, r_get_set, A. reflexivity.
  - unfold ensure, r_ensure. rewrite <- (A p).
    destruct (get t p); cbn [fst]; auto.
    intro q. rewrite get_set, r_get_set, A. reflexivity.
  - exact A.
  - cbn [fst]. intro q. rewrite get_delete, r_get_delete, A. reflexivity.
  - assert (Ho : old <> []) by (intro; subst; discriminate).
    assert (Hn : new <> []) by (intro; subst; destruct old; discriminate).
    clear V. cbn [ghost_move] in G. unfold has in G.
    assert (Es : forall x : tree * bool, fst (let '(t', moved) := x in (t', {| r_node := None; r_flag := moved |})) = fst x)
      by (intros [? ?]; reflexivity).
    assert (Er : forall x : rmap * bool, fst (let '(t', moved) := x in (t', {| r_node := None; r_flag := moved |})) = fst x)
      by (intros [? ?]; reflexivity).
    rewrite Es, Er. clear Es Er.
    destruct (node_at t old) as [src|] eqn:Hs.
    + destruct (r_has m old) eqn:Hr.
      * intro q. rewrite (get_move_found t old new src) by auto.
        rewrite r_get_move_found by auto. rewrite !A. reflexivity.
      * cbn [negb andb] in G.
        rewrite r_move_missing by auto. cbn [fst].
        intro q. rewrite (get_move_found t old new src) by auto.
        destruct (is_prefix new q) eqn:Pn.
        -- rewrite (r_has_false_get _ _ _ G Pn). rewrite A.
           apply (r_has_false_get _ _ _ Hr). apply is_prefix_app.
        -- destruct (is_prefix old q) eqn:Po; auto.
           rewrite (r_has_false_get _ _ _ Hr Po). reflexivity.
    + rewrite move_missing by auto. cbn [fst].
      destruct (r_has m old) eqn:Hr.
      * apply (agree_has t) in Hr; auto. unfold has in Hr. rewrite Hs in Hr. discriminate.
      * rewrite r_move_missing by auto. exact A.
Qed.

Lemma run_agree : forall ops t m, agree t m -> forallb valid_op ops = true ->
  trigger_from t m ops = false -> agree (run t ops) (r_run m ops).
Proof.
  induction ops as [|o ops IH]; intros t m A V T; simpl in *; auto.
  apply andb_true_iff in V. destruct V as [V1 V2].
  apply orb_false_iff in T. destruct T as [T1 T2].
  apply IH; auto. apply step_agree; auto.
Qed.

(* main statement, partial: away from the ghost-move trigger every lookup equals the reference *)
Theorem refines_reference_partial : forall root ops, forallb valid_op ops = true ->
  trigger root ops = false ->
  forall q, get (run (init root) ops) q = r_get (r_run (r_init root) ops) q.
Proof. intros root ops V T. apply run_agree; auto using init_agree. Qed.

(* what the caller gets back also agrees (Get and Ensure results, generator calls);
   the *FsNode a Move returns agrees as soon as the source is not a placeholder *)
Lemma step_ret_agree : forall t m o, agree t m ->
  match o with
  | Move old _ => has t old = r_has m old -> snd (step t o) = snd (r_step m o)
  | _ => snd (step t o) = snd (r_step m o)
  end.
Proof.
  intros t m o A. destruct o as [p v|p fresh|p|p|old new]; simpl; auto.
  - unfold ensure, r_ensure. rewrite <- (A p). destruct (get t p); reflexivity.
  - rewrite A. reflexivity.
  - intro H. unfold move, r_move, has in *.
    destruct (node_at t old); rewrite <- H; reflexivity.
Qed.

Theorem returns_agree : forall root ops o, forallb valid_op ops = true ->
  trigger root ops = false ->
  let t := run (init root) ops in let m := r_run (r_init root) ops in
  match o with
  | Move old _ => has t old = r_has m old -> snd (step t o) = snd (r_step m o)
  | _ => snd (step t o) = snd (r_step m o)
  end.
Proof. intros root ops o V T t m. apply step_ret_agree. apply run_agree; auto using init_agree. Qed.

(* the full statement fails: a leftover placeholder is a movable source *)
Definition witness_ops : list op :=
  [Set_ ["a"; "x"] 1%N; Delete ["a"; "x"]; Set_ ["b"] 2%N; Move ["a"] ["b"]].

Theorem refines_reference_refuted : exists root ops q,
  forallb valid_op ops = true /\
  get (run (init root) ops) q <> r_get (r_run (r_init root) ops) q.
Proof.
  exists None, witness_ops, ["b"]. split; [reflexivity|]. vm_compute. discriminate.
Qed.

(* the witness is inside the trigger (a 3-operation witness: proof/FsCacheRef.v, witness3) *)
Lemma witness_trigger : trigger None witness_ops = true.
Proof. reflexivity. Qed.

(* ---------- consequences in the property's own words ---------- *)
(* moved subtrees appear under the new path and nowhere else *)
Theorem move_relocates : forall t old new src q, old <> [] -> new <> [] ->
  node_at t old = Some src ->
  get (fst (move t old new)) q =
    if is_prefix new q then get t (old ++ skipn (length new) q)
    else if is_prefix old q then None else get t q.
Proof. exact get_move_found. Qed.

(* deleted subtrees are gone, everything else stays *)
Theorem delete_removes_subtree : forall p t q,
  get (delete t p) q = if is_prefix p q then None else get t q.
Proof. exact get_delete. Qed.

(* the generator of EnsureFsNode runs exactly when the lookup is nil *)
Theorem ensure_calls_generator_iff_absent : forall t p fresh,
  snd (ensure t p fresh) = match get t p with Some _ => false | None => true end.
Proof. intros. unfold ensure. destruct (get t p); reflexivity. Qed.
