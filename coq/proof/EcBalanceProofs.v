(* Final statements about model/EcBalance.v (C16); see EcBalanceBase/Inv/Spread for the development. *)
From Coq Require Import List NArith ZArith Bool Lia Arith.
From SW Require Import model.EcBalance proof.EcBalanceBase proof.EcBalanceInv proof.EcBalanceSpread.
Import ListNotations.
Local Open Scope N_scope.

(* ---------- free slot bookkeeping of one move ---------- *)
Lemma count_add_exact : forall b s, has b s = false -> In s bit_range -> count (add_id b s) = (count b + 1)%Z.
Proof.
  intros b s Hh Hin.
  assert (R : remove_id (add_id b s) s = b).
  { apply N.bits_inj. intros j. fold (has (remove_id (add_id b s) s) j). fold (has b j).
    rewrite has_remove_id, has_add_id. destruct (N.eqb_spec s j); simpl.
    - subst. rewrite Hh. reflexivity.
    - rewrite orb_false_r, andb_true_r. reflexivity. }
  assert (Ha : has (add_id b s) s = true) by (rewrite has_add_id, N.eqb_refl; apply orb_true_r).
  pose proof (count_remove_exact _ _ Ha Hin) as C. rewrite R in C. lia.
Qed.

Lemma add_in_delta : forall es v s es' d, add_in es v s = Some (es', d) ->
  d = (count (add_id (find_bits es v) s) - count (find_bits es v))%Z.
Proof.
  induction es as [|e es IH]; intros v s es' d H; simpl in H; [discriminate|].
  simpl. destruct (e_vid e =? v).
  - inv H. reflexivity.
  - destruct (add_in es v s) as [[r d0]|] eqn:A; [|discriminate]. inv H. eapply IH; eauto.
Qed.

Lemma free_add_shard : forall v c s n, has (find n v) s = false -> In s bit_range ->
  n_free (add_shard v c s n) = (n_free n - 1)%Z.
Proof.
  intros v c s n Hh Hin. unfold add_shard, find, entries in *. destruct (n_disk n) as [es|]; simpl; auto.
  destruct (add_in es v s) as [[es' d]|] eqn:A; simpl; auto.
  rewrite (add_in_delta _ _ _ _ _ A). rewrite (count_add_exact _ _ Hh Hin). lia.
Qed.

Lemma del_in_delta : forall es v s, NoDup (map e_vid es) ->
  snd (del_in es v s) = (count (remove_id (find_bits es v) s) - count (find_bits es v))%Z.
Proof.
  induction es as [|e es IH]; intros v s Hnd; simpl.
  - reflexivity.
  - inv Hnd. specialize (IH v s H2). destruct (del_in es v s) as [r d] eqn:D. simpl in *.
    destruct (N.eqb_spec (e_vid e) v) as [E|E]; simpl.
    + subst v. rewrite (find_bits_notin es (e_vid e) H1) in IH. rewrite IH.
      change (count (remove_id 0 s)) with (count 0). lia.
    + exact IH.
Qed.

Lemma free_del_shard : forall v s n, NoDup (map e_vid (entries n)) -> has (find n v) s = true -> In s bit_range ->
  n_free (del_shard v s n) = (n_free n + 1)%Z.
Proof.
  intros v s n Hnd Hh Hin. unfold del_shard, find, entries in *. destruct (n_disk n) as [es|] eqn:D; simpl.
  - pose proof (del_in_delta es v s Hnd) as X. destruct (del_in es v s) as [es' d]. simpl in *. subst d.
    rewrite (count_remove_exact _ _ Hh Hin). lia.
  - simpl in Hh. try (rewrite has_zero in Hh). discriminate.
Qed.

Lemma node_free_upd : forall ns id f x, keeps_id_rack f ->
  node_free (upd_node ns id f) x =
  if x =? id then match get_node ns id with Some n => n_free (f n) | None => 0%Z end else node_free ns x.
Proof.
  intros. unfold node_free. rewrite get_upd by auto. destruct (x =? id); auto.
  destruct (get_node ns id); reflexivity.
Qed.

(* one legal move: copies conserved, books well formed, free slots -1/+1 *)
Theorem move_conserves : forall ns src v c s dst,
  wf ns -> present ns dst -> src <> dst -> In s shard_range ->
  hb ns src v s = true -> hb ns dst v s = false ->
  let ns' := move_shard ns src v c s dst in
  wf ns' /\
  (forall v' s', total ns' v' s' = total ns v' s') /\
  hb ns' dst v s = true /\ hb ns' src v s = false /\
  node_free ns' dst = (node_free ns dst - 1)%Z /\ node_free ns' src = (node_free ns src + 1)%Z /\
  (forall x, x <> src -> x <> dst -> node_free ns' x = node_free ns x).
Proof.
  intros ns src v c s dst Hwf [nd Gd] Hne Hin Hs Hd ns'.
  assert (Hb : In s bit_range) by (apply shard_in_bit_range; auto).
  subst ns'. split; [apply wf_move; auto|]. split.
  { intros v' s'. pose proof (move_total ns src v c s dst nd v' s' (proj1 Hwf) Gd Hne) as M.
    rewrite Hs, Hd in M. destruct (same v s v' s'); simpl in M; lia. }
  assert (Hne' : dst <> src) by congruence.
  unfold move_shard. split.
  { rewrite hb_del, (hb_add _ _ _ _ _ _ _ _ _ Gd). rewrite !N.eqb_refl. simpl.
    destruct (N.eqb_spec dst src); [contradiction|]. simpl. rewrite orb_true_r. reflexivity. }
  split.
  { fold (move_shard ns src v c s dst). rewrite hb_move_src; [|exists nd; auto|auto].
    rewrite N.eqb_refl. apply andb_false_r. }
  unfold hb, node_bits in Hs, Hd. rewrite Gd in Hd.
  destruct (get_node ns src) as [nsrc|] eqn:Gs; [|rewrite has_zero in Hs; discriminate].
  assert (Gs1 : get_node (upd_node ns dst (add_shard v c s)) src = Some nsrc).
  { rewrite get_upd by auto with c16. destruct (N.eqb_spec src dst); [contradiction|auto]. }
  split; [|split].
  - rewrite node_free_upd by auto with c16. destruct (N.eqb_spec dst src); [contradiction|].
    rewrite node_free_upd by auto with c16. rewrite N.eqb_refl, Gd.
    unfold node_free. rewrite Gd. apply free_add_shard; auto.
  - rewrite node_free_upd by auto with c16. rewrite N.eqb_refl, Gs1.
    unfold node_free. rewrite Gs. apply free_del_shard; auto.
    destruct Hwf as [_ He]. unfold wf_entries in He. rewrite Forall_forall in He. apply He.
    apply get_node_in in Gs. tauto.
  - intros x Hx1 Hx2. rewrite node_free_upd by auto with c16. destruct (N.eqb_spec x src); [contradiction|].
    rewrite node_free_upd by auto with c16. destruct (N.eqb_spec x dst); [contradiction|reflexivity].
Qed.

(* ---------- whole plans (dry run) ---------- *)
Theorem plan_targets : forall st o st' its,
  run_plan false st o = Some (st', its) -> wf (nodes st) -> unique (nodes st) ->
  forall e m, In (IMove e m) its -> m_dst_held m = false /\ (0 < m_dst_free m)%Z.
Proof.
  intros st o st' its H Hwf U e m Hin.
  destruct (run_plan_ok _ _ _ _ H Hwf U) as [_ [_ [_ M]]].
  unfold moves_ok in M. rewrite Forall_forall in M. apply (M _ Hin).
Qed.

Definition exactly_once_after (ns ns' : list node) : Prop :=
  forall v s, ((1 <= total ns v s)%nat -> total ns' v s = 1%nat) /\ (total ns v s = 0%nat -> total ns' v s = 0%nat).

(* ---------- the snapshot trigger: no shard on two nodes ---------- *)
Lemma in_bit_range : forall s, (s < 32) -> In s bit_range.
Proof. intros s H. unfold bit_range. simpl. lia. Qed.

Lemma testbit_high : forall b s, b < 4294967296 -> 32 <= s -> N.testbit b s = false.
Proof.
  intros b s Hb Hs. destruct (N.eq_dec b 0) as [E|E]; [subst; apply N.bits_0|].
  apply N.bits_above_log2. assert (L : N.log2 b < 32).
  { apply N.log2_lt_pow2; [lia|]. change (2 ^ 32) with 4294967296. exact Hb. }
  lia.
Qed.

Lemma dedup_In : forall l x, In x (dedup l) <-> In x l.
Proof.
  induction l as [|y l IH]; intros x; simpl; [tauto|].
  destruct (mem y l) eqn:M.
  - rewrite IH. split; auto. intros [E|H]; auto. subst. apply mem_In. exact M.
  - simpl. rewrite IH. tauto.
Qed.

Lemma find_bits_lt : forall es v, forallb (fun e => e_bits e <? 4294967296) es = true -> find_bits es v < 4294967296.
Proof.
  induction es as [|e es IH]; intros v H; simpl in *; [lia|].
  apply andb_true_iff in H. destruct H as [H1 H2]. destruct (e_vid e =? v); auto. apply N.ltb_lt. exact H1.
Qed.

Lemma filter_nil_len : forall (A : Type) (f : A -> bool) l, (forall x, In x l -> f x = false) -> length (filter f l) = 0%nat.
Proof. induction l as [|x l IH]; intros H; simpl; auto. rewrite (H x) by (left; auto). apply IH. intros. apply H. right. auto. Qed.

Theorem unique_of_snapshot : forall ns, bits32 ns = true -> has_dup ns = false -> unique ns.
Proof.
  intros ns HB HD v s.
  destruct (in_dec N.eq_dec v (all_vids ns)) as [Hv|Hv].
  - destruct (N.lt_ge_cases s 32) as [Hs|Hs].
    + unfold has_dup in HD.
      destruct (1 <? total ns v s)%nat eqn:E; [|apply Nat.ltb_ge in E; exact E].
      exfalso. assert (X : existsb (fun v => existsb (fun s => (1 <? total ns v s)%nat) bit_range) (all_vids ns) = true).
      { apply existsb_exists. exists v. split; auto. apply existsb_exists. exists s. split; auto. apply in_bit_range. exact Hs. }
      congruence.
    + rewrite total_eq, filter_nil_len; [lia|]. intros n Hn. unfold holds, has, find.
      apply testbit_high; auto. apply find_bits_lt. unfold bits32 in HB. rewrite forallb_forall in HB. apply HB. exact Hn.
  - rewrite total_eq, filter_nil_len; [lia|]. intros n Hn. unfold holds, find.
    rewrite find_bits_notin; [apply has_zero|]. intros X. apply Hv. unfold all_vids. apply dedup_In.
    apply in_flat_map. exists n. split; auto.
Qed.

Theorem plan_conserves_partial : forall st o st' its,
  run_plan false st o = Some (st', its) -> wf (nodes st) -> unique (nodes st) -> has_drop its = false ->
  (forall v s, total (nodes st') v s = total (nodes st) v s) /\ exactly_once_after (nodes st) (nodes st').
Proof.
  intros st o st' its H Hwf U HD.
  destruct (run_plan_ok _ _ _ _ H Hwf U) as [_ [_ [C _]]]. specialize (C HD). split; auto.
  intros v s. rewrite C. specialize (U v s). split; intros; lia.
Qed.

(* copies never multiply, even when picked shards are abandoned *)
Theorem plan_never_duplicates : forall st o st' its,
  run_plan false st o = Some (st', its) -> wf (nodes st) -> unique (nodes st) ->
  wf (nodes st') /\ unique (nodes st') /\ forall v s, (total (nodes st') v s <= total (nodes st) v s)%nat.
Proof.
  intros st o st' its H Hwf U. pose proof (run_plan_ok _ _ _ _ H Hwf U) as P.
  split; [apply P|]. split; [eapply phase_ok_unique; eauto|apply P].
Qed.

Theorem plan_rack_spread : forall st o st' its,
  run_plan false st o = Some (st', its) -> wf (nodes st) ->
  forall e m, In (IMove e m) its ->
    (m_kind m = KAcross -> (m_dst_rack_count m <= m_limit m)%Z) /\
    (m_kind m <> KAcross -> m_src_rack m = m_dst_rack m).
Proof.
  intros st o st' its H Hwf e m Hin.
  destruct (run_plan_spread _ _ _ _ H Hwf) as [_ [S _]].
  unfold spread_ok in S. rewrite Forall_forall in S. destruct (S _ Hin) as [A [B _]]. split; assumption.
Qed.

(* no planned move of any phase targets a node without a free slot: no uniqueness, no absence of drops *)
Theorem plan_move_free : forall st o st' its,
  run_plan false st o = Some (st', its) -> wf (nodes st) ->
  forall e m, In (IMove e m) its -> (0 < m_dst_free m)%Z.
Proof.
  intros st o st' its H Hwf e m Hin.
  destruct (run_plan_spread _ _ _ _ H Hwf) as [_ [S _]].
  unfold spread_ok in S. rewrite Forall_forall in S. destruct (S _ Hin) as [_ [_ C]]. exact C.
Qed.

(* ====================== concrete runs: witnesses and non-vacuity ====================== *)
Definition mk_node (id rack : N) (free : Z) (es : list entry) : node :=
  {| n_id := id; n_dc := 0; n_rack := rack; n_free := free; n_disk := Some es |}.
Definition mk_entry (v b : N) : entry := {| e_vid := v; e_coll := 1; e_bits := b |}.

Ltac nodup_tac := repeat (constructor; [simpl; intuition discriminate|]); try constructor.
Ltac wf_tac := split; [unfold wf_ids; simpl; nodup_tac | repeat (constructor; [simpl; nodup_tac|]); try constructor].

(* finding 0: rack 1 has no free slot; the 7 picked shards of volume 1 leave the books *)
Definition w_drop_nodes : list node := [mk_node 0 0 5 [mk_entry 1 16383]; mk_node 1 1 0 []].
Definition w_drop_orc : plan_orc :=
  {| po_rounds := [{| ro_coll := 1; ro_dedup := [{| dd_vid := 1; dd_keeps := [] |}];
                      ro_across := [{| av_vid := 1; av_racks := [(0, [0])];
                                       av_moves := [(0, NoRack); (1, NoRack); (2, NoRack); (3, NoRack);
                                                    (4, NoRack); (5, NoRack); (6, NoRack)] |}];
                      ro_within := [{| wv_vid := 1; wv_racks := [{| wr_rack := 0; wr_dests := [] |}] |}] |}];
     po_racks := Some [{| rb_rack := 0; rb_steps := [] |}; {| rb_rack := 1; rb_steps := [] |}] |}.

Lemma w_drop_wf : wf w_drop_nodes.
Proof. wf_tac. Qed.
Lemma w_drop_unique : unique w_drop_nodes.
Proof. apply unique_of_snapshot; vm_compute; reflexivity. Qed.

Theorem plan_conserves_refuted :
  ~ (forall st o st' its, wf (nodes st) -> unique (nodes st) ->
       run_plan false st o = Some (st', its) -> exactly_once_after (nodes st) (nodes st')).
Proof.
  intros H.
  destruct (run_plan false (init_state w_drop_nodes) w_drop_orc) as [[st' its]|] eqn:R; [|vm_compute in R; discriminate].
  specialize (H (init_state w_drop_nodes) w_drop_orc st' its w_drop_wf w_drop_unique R 1 0).
  vm_compute in R. inv R. destruct H as [H _]. vm_compute in H. specialize (H (le_n 1)). discriminate.
Qed.

(* finding 1: shard 1.1 on two nodes; the dry run prints "keeping" and leaves both copies in the books *)
Definition w_dup_nodes : list node := [mk_node 0 0 5 [mk_entry 1 3]; mk_node 1 0 5 [mk_entry 1 6]].
Definition w_dup_orc : plan_orc :=
  {| po_rounds := [{| ro_coll := 1; ro_dedup := [{| dd_vid := 1; dd_keeps := [0] |}];
                      ro_across := [{| av_vid := 1; av_racks := [(0, [])]; av_moves := [] |}];
                      ro_within := [{| wv_vid := 1; wv_racks := [{| wr_rack := 0; wr_dests := [] |}] |}] |}];
     po_racks := Some [{| rb_rack := 0; rb_steps := [(0, 1)] |}] |}.

Theorem dry_run_dedup_refuted :
  ~ (forall st o st' its, wf (nodes st) -> run_plan false st o = Some (st', its) -> has_drop its = false ->
       exactly_once_after (nodes st) (nodes st')).
Proof.
  intros H.
  destruct (run_plan false (init_state w_dup_nodes) w_dup_orc) as [[st' its]|] eqn:R; [|vm_compute in R; discriminate].
  assert (W : wf (nodes (init_state w_dup_nodes))) by wf_tac.
  specialize (H (init_state w_dup_nodes) w_dup_orc st' its W R).
  vm_compute in R. inv R. specialize (H eq_refl 1 1). destruct H as [H _]. vm_compute in H.
  assert (X : (1 <= 2)%nat) by lia. specialize (H X). discriminate.
Qed.

(* repaired (was finding 2): balanceEcRacks no longer moves a shard onto a node whose freeEcSlot is 0;
   on the old witness the repaired planner moves nothing *)
Definition w_full_nodes : list node := [mk_node 1 0 0 []; mk_node 0 0 (-1) [mk_entry 1 15; mk_entry 2 15]].
Definition w_full_orc : plan_orc :=
  {| po_rounds := []; po_racks := Some [{| rb_rack := 0; rb_steps := [(1, 0)] |}] |}.
Theorem rack_full_witness_quiet :
  run_plan false (init_state w_full_nodes) w_full_orc = Some (init_state w_full_nodes, []).
Proof. vm_compute. reflexivity. Qed.

(* non-vacuity: a clean layout; 7 shards cross to rack 1, one more move inside rack 1 *)
Definition ex_nodes : list node := [mk_node 0 0 10 [mk_entry 1 16383]; mk_node 1 1 10 []; mk_node 2 1 1 []].
Definition ex_orc : plan_orc :=
  {| po_rounds := [{| ro_coll := 1; ro_dedup := [{| dd_vid := 1; dd_keeps := [] |}];
                      ro_across := [{| av_vid := 1; av_racks := [(0, [0])];
                                       av_moves := [(0, ToRack 1 (Some 1)); (1, ToRack 1 (Some 1)); (2, ToRack 1 (Some 1));
                                                    (3, ToRack 1 (Some 1)); (4, ToRack 1 (Some 1)); (5, ToRack 1 (Some 1));
                                                    (6, ToRack 1 (Some 1))] |}];
                      ro_within := [{| wv_vid := 1;
                                       wv_racks := [{| wr_rack := 0; wr_dests := [] |};
                                                    {| wr_rack := 1; wr_dests := [Some 2; None; None] |}] |}] |}];
     po_racks := Some [{| rb_rack := 0; rb_steps := [] |}; {| rb_rack := 1; rb_steps := [(1, 2)] |}] |}.

Theorem example_run :
  wf ex_nodes /\ bits32 ex_nodes = true /\ has_dup ex_nodes = false /\
  exists st' its, run_plan false (init_state ex_nodes) ex_orc = Some (st', its) /\
    has_drop its = false /\
    length (filter (fun i => match i with IMove _ _ => true | _ => false end) its) = 8%nat /\
    map (fun n => find n 1) (nodes st') = [16256; 126; 1].
Proof.
  split; [wf_tac|]. split; [vm_compute; reflexivity|]. split; [vm_compute; reflexivity|].
  destruct (run_plan false (init_state ex_nodes) ex_orc) as [[st' its]|] eqn:R; [|vm_compute in R; discriminate].
  exists st', its. split; auto. vm_compute in R. inv R. vm_compute. repeat split.
Qed.

(* non-vacuity of the balanceEcRacks statements: one rack, a loaded server (6 shards of two volumes,
   2 free slots) and an empty one (10 free slots): two rack moves (1.0 then 2.0), nothing lost *)
Definition ex_rack_nodes : list node := [mk_node 1 0 10 []; mk_node 0 0 2 [mk_entry 1 15; mk_entry 2 3]].
Definition ex_rack_orc : plan_orc :=
  {| po_rounds := []; po_racks := Some [{| rb_rack := 0; rb_steps := [(1, 0); (1, 0); (1, 0)] |}] |}.
Definition is_rack_move (i : item) : bool :=
  match i with IMove _ m => match m_kind m with KRack => true | _ => false end | _ => false end.

Theorem example_rack_run :
  wf ex_rack_nodes /\ bits32 ex_rack_nodes = true /\ has_dup ex_rack_nodes = false /\ gate ex_rack_nodes = true /\
  exists st' its, run_plan false (init_state ex_rack_nodes) ex_rack_orc = Some (st', its) /\
    has_drop its = false /\
    events_of its = [ERackMove 0 1 0 1; ERackMove 0 2 0 1] /\
    length (filter is_rack_move its) = 2%nat /\
    map (fun n => (n_free n, find n 1, find n 2)) (nodes st') = [(8%Z, 1, 1); (4%Z, 14, 2)].
Proof.
  split; [wf_tac|]. split; [vm_compute; reflexivity|]. split; [vm_compute; reflexivity|]. split; [vm_compute; reflexivity|].
  destruct (run_plan false (init_state ex_rack_nodes) ex_rack_orc) as [[st' its]|] eqn:R; [|vm_compute in R; discriminate].
  exists st', its. split; auto. vm_compute in R. inv R. vm_compute. repeat split.
Qed.
