(* Proofs about model/VolumeConc.v (C38). *)
From Coq Require Import List NArith ZArith Bool Lia Permutation.
From SW Require Import model.Volume model.VolumeConc proof.VolumeProofs.
Import ListNotations.
Local Open Scope N_scope.

(* ================= Part 1: the decision procedure ================= *)
Lemma forallb_perm : forall (A : Type) (f : A -> bool) l l', Permutation l l' -> forallb f l = forallb f l'.
Proof.
  intros A f l l' H. induction H; cbn [forallb].
  - reflexivity.
  - rewrite IHPermutation. reflexivity.
  - destruct (f x), (f y); reflexivity.
  - congruence.
Qed.

Lemma existsb_perm : forall (A : Type) (f : A -> bool) l l', Permutation l l' -> existsb f l = existsb f l'.
Proof.
  intros A f l l' H. induction H; cbn [existsb].
  - reflexivity.
  - rewrite IHPermutation. reflexivity.
  - destruct (f x), (f y); reflexivity.
  - congruence.
Qed.

Lemma picks_perm : forall (A : Type) (l : list A) x r, In (x, r) (picks l) -> Permutation (x :: r) l.
Proof.
  induction l as [|y l IH]; intros x r H; cbn [picks] in H; [contradiction|].
  destruct H as [H|H].
  - inversion H; subst. apply Permutation_refl.
  - apply in_map_iff in H. destruct H as [[x' r'] [E Hin]]. cbn [fst snd] in E. inversion E; subst.
    apply IH in Hin. eapply perm_trans; [apply perm_swap|]. apply perm_skip. exact Hin.
Qed.

Lemma picks_in : forall (A : Type) (l : list A) x, In x l -> exists r, In (x, r) (picks l).
Proof.
  induction l as [|y l IH]; intros x H; [contradiction|]. destruct H as [->|H].
  - exists l. left. reflexivity.
  - destruct (IH x H) as [r Hr]. exists (y :: r). right. apply in_map_iff. exists (x, r). split; auto.
Qed.

Lemma anyb_existsb : forall (A : Type) (f : A -> bool) l, anyb f l = existsb f l.
Proof. induction l as [|x l IH]; cbn [anyb existsb]; [reflexivity|]. rewrite IH. destruct (f x); reflexivity. Qed.

Section LinProofs.
  Context {Op Out St : Type}.
  Variable nxt : St -> Op -> St.
  Variable acc : St -> Op -> Out -> bool.

  Lemma minimal_perm : forall (a : orec Op Out) r r', Permutation r r' -> minimal a r = minimal a r'.
  Proof. intros. unfold minimal. apply forallb_perm. assumption. Qed.

  Lemma search_nil : forall finb fuel st, search nxt acc finb fuel st [] = finb st.
  Proof. intros finb fuel st. destruct fuel; reflexivity. Qed.

  Lemma search_sound : forall finb fuel st rem,
    search nxt acc finb fuel st rem = true ->
    exists lin st', Permutation lin rem /\ rt_ok lin = true /\ seq_ok nxt acc st lin = Some st' /\ finb st' = true.
  Proof.
    intros finb. induction fuel as [|f IH]; intros st rem H; destruct rem as [|x rem'].
    - exists [], st. repeat split; auto.
    - discriminate.
    - exists [], st. repeat split; auto.
    - cbn [search] in H. rewrite anyb_existsb in H. apply existsb_exists in H.
      destruct H as [[a rest] [Hin H]]. cbn [fst snd] in H.
      destruct (minimal a rest) eqn:H1; [|discriminate].
      destruct (acc st (o_op a) (o_out a)) eqn:H2; [|discriminate].
      destruct (IH _ _ H) as (lin & st' & P & RT & SQ & F).
      exists (a :: lin), st'. repeat split.
      + eapply perm_trans; [apply perm_skip; exact P|]. apply picks_perm. exact Hin.
      + cbn [rt_ok]. rewrite (minimal_perm a lin rest P), H1, RT. reflexivity.
      + cbn [seq_ok]. rewrite H2. exact SQ.
      + exact F.
  Qed.

  Lemma search_complete : forall finb lin st st' rem fuel,
    Permutation lin rem -> (length rem <= fuel)%nat -> rt_ok lin = true ->
    seq_ok nxt acc st lin = Some st' -> finb st' = true ->
    search nxt acc finb fuel st rem = true.
  Proof.
    intros finb. induction lin as [|a lin IH]; intros st st' rem fuel P L RT SQ F.
    - apply Permutation_nil in P. subst rem. rewrite search_nil. cbn [seq_ok] in SQ. inversion SQ; subst. exact F.
    - assert (Hin : In a rem) by (eapply Permutation_in; [exact P | left; reflexivity]).
      destruct rem as [|x rem']; [contradiction|].
      destruct fuel as [|f]; [cbn [length] in L; lia|].
      cbn [search]. rewrite anyb_existsb. apply existsb_exists.
      destruct (picks_in _ _ _ Hin) as [rest Hrest].
      exists (a, rest). split; [exact Hrest|]. cbn [fst snd].
      pose proof (picks_perm _ _ _ _ Hrest) as P2.
      assert (P3 : Permutation lin rest).
      { eapply Permutation_cons_inv. eapply perm_trans; [exact P|]. apply Permutation_sym. exact P2. }
      cbn [rt_ok] in RT. apply andb_true_iff in RT. destruct RT as [RT1 RT2].
      cbn [seq_ok] in SQ. destruct (acc st (o_op a) (o_out a)) eqn:A; [|discriminate].
      rewrite <- (minimal_perm a lin rest P3), RT1.
      eapply IH; eauto.
      apply Permutation_length in P2. cbn [length] in *. lia.
  Qed.

  Theorem lin_check_sound : forall s0 (fin : St -> Prop) finb h,
    (forall s, finb s = true -> fin s) ->
    lin_check nxt acc s0 finb h = true -> linearizable nxt acc s0 fin h.
  Proof.
    intros s0 fin finb h Hf H. unfold lin_check in H. apply search_sound in H.
    destruct H as (lin & st' & P & RT & SQ & F). exists lin, st'. auto.
  Qed.

  Theorem lin_check_complete : forall s0 (fin : St -> Prop) finb h,
    (forall s, fin s -> finb s = true) ->
    linearizable nxt acc s0 fin h -> lin_check nxt acc s0 finb h = true.
  Proof.
    intros s0 fin finb h Hf (lin & st' & P & RT & SQ & F). unfold lin_check.
    eapply search_complete; eauto.
  Qed.

  Lemma linearizable_perm : forall s0 (fin : St -> Prop) h h',
    Permutation h h' -> linearizable nxt acc s0 fin h -> linearizable nxt acc s0 fin h'.
  Proof.
    intros s0 fin h h' P (lin & st' & P1 & RT & SQ & F). exists lin, st'. repeat split; auto.
    eapply perm_trans; eauto.
  Qed.

  Lemma linearizable_weaken : forall s0 (fin fin' : St -> Prop) h,
    (forall s, fin s -> fin' s) -> linearizable nxt acc s0 fin h -> linearizable nxt acc s0 fin' h.
  Proof. intros s0 fin fin' h W (lin & st' & P1 & RT & SQ & F). exists lin, st'. auto. Qed.

  Lemma seq_ok_snoc : forall l st (a : orec Op Out),
    seq_ok nxt acc st (l ++ [a]) =
    match seq_ok nxt acc st l with
    | Some s' => if acc s' (o_op a) (o_out a) then Some (nxt s' (o_op a)) else None
    | None => None
    end.
  Proof.
    induction l as [|x l IH]; intros st a; cbn [app seq_ok].
    - destruct (acc st (o_op a) (o_out a)); reflexivity.
    - destruct (acc st (o_op x) (o_out x)); [apply IH | reflexivity].
  Qed.

  Lemma rt_ok_snoc : forall l (b : orec Op Out),
    rt_ok (l ++ [b]) = rt_ok l && forallb (fun a => negb (precedes b a)) l.
  Proof.
    induction l as [|a l IH]; intro b; cbn [app rt_ok forallb]; [reflexivity|].
    rewrite IH. unfold minimal. rewrite forallb_app. cbn [forallb].
    destruct (forallb (fun b0 => negb (precedes b0 a)) l), (negb (precedes b a)), (rt_ok l),
      (forallb (fun a0 => negb (precedes b a0)) l); reflexivity.
  Qed.

  Lemma seq_ok_map_ext : forall (A : Type) (g g' : A -> orec Op Out) l st,
    (forall x, o_op (g x) = o_op (g' x) /\ o_out (g x) = o_out (g' x)) ->
    seq_ok nxt acc st (map g l) = seq_ok nxt acc st (map g' l).
  Proof.
    induction l as [|x l IH]; intros st H; cbn [map seq_ok]; [reflexivity|].
    destruct (H x) as [E1 E2]. rewrite E1, E2.
    destruct (acc st (o_op (g' x)) (o_out (g' x))); [apply IH; exact H | reflexivity].
  Qed.
End LinProofs.

(* ================= Part 2: the machine ================= *)
Lemma err_eqb_refl : forall e, err_eqb e e = true.
Proof. destruct e; reflexivity. Qed.
Lemma err_eqb_eq : forall a b, err_eqb a b = true -> a = b.
Proof. destruct a, b; simpl; intro H; try discriminate; reflexivity. Qed.

Lemma hview_eqb_eq : forall a b, hview_eqb a b = true -> a = b.
Proof.
  intros a b. unfold hview_eqb. rewrite !andb_true_iff, !N.eqb_eq, !bytes_eqb_eq.
  destruct a, b; cbn. intros [[[[[H1 H2] H3] H4] H5] H6]. apply Bool.eqb_prop in H6. subst. reflexivity.
Qed.

Lemma out_eqb_refl : forall o, out_eqb o o = true.
Proof.
  destruct o; cbn [out_eqb];
    rewrite ?err_eqb_refl, ?N.eqb_refl, ?Z.eqb_refl, ?view_eqb_refl, ?hview_eqb_refl, ?Bool.eqb_reflx; reflexivity.
Qed.

Lemma out_eqb_eq : forall a b, out_eqb a b = true -> a = b.
Proof.
  intros a b H. destruct a, b; cbn [out_eqb] in H; try discriminate;
    repeat (apply andb_true_iff in H; let H' := fresh "H" in destruct H as [H H']);
    repeat match goal with
           | X : err_eqb _ _ = true |- _ => apply err_eqb_eq in X
           | X : Bool.eqb _ _ = true |- _ => apply Bool.eqb_prop in X
           | X : (_ =? _) = true |- _ => apply N.eqb_eq in X
           | X : (_ =? _)%Z = true |- _ => apply Z.eqb_eq in X
           | X : view_eqb _ _ = true |- _ => apply view_eqb_eq in X
           | X : hview_eqb _ _ = true |- _ => apply hview_eqb_eq in X
           end; subst; reflexivity.
Qed.

(* the critical section of every call lies between its Inv and its Res *)
Definition appl_ok (now : N) (a : appl) : Prop :=
  a_inv a <= a_at a /\ a_at a < now /\
  match a_stat a with ADone r => a_at a < r /\ r < now | _ => True end.

(* m_lin is in the order of the critical sections *)
Fixpoint dec_at (l : list appl) : Prop :=
  match l with
  | [] => True
  | a :: r => Forall (fun b => a_at b < a_at a) r /\ dec_at r
  end.

Definition same_flags (a b : vol) : Prop :=
  no_write_or_delete a = no_write_or_delete b /\ no_write_can_delete a = no_write_can_delete b.

Lemma step_flags : forall st t c, same_flags (fst (step st (t, op_of c))) st.
Proof.
  intros st t c. unfold same_flags. destruct c as [n fs|id ck rd|id ck]; unfold step, op_of.
  - unfold store_write. destruct (is_read_only st); [split; reflexivity|].
    unfold do_write. destruct (is_file_unchanged st n); [split; reflexivity|].
    unfold append, with_nm.
    destruct (nm_get (nm st) (n_id n)) as [nv|].
    + destruct (find_rec (recs st) (nv_off nv)) as [r|]; [|split; reflexivity].
      destruct (n_cookie (r_n r) =? n_cookie n); [|split; reflexivity].
      destruct (nv_off nv <? dat_end st); split; reflexivity.
    + split; reflexivity.
  - destruct (store_read st id ck rd t) as [[e cnt] v]. split; reflexivity.
  - unfold store_delete. destruct (no_write_or_delete st) eqn:E; [cbn; split; [exact E | reflexivity]|].
    rewrite <- E.
    destruct (nm_get (nm st) id) as [nv|]; [|split; reflexivity].
    destruct (size_valid (nv_size nv)); split; reflexivity.
Qed.

Record minv (st0 : vol) (m : mstate) : Prop := {
  inv_pend : Forall (fun p => p_inv p <= m_now m) (m_pend m);
  inv_lin : Forall (appl_ok (m_now m)) (m_lin m);
  inv_dec : dec_at (m_lin m);
  (* replaying the critical sections in their order on the sequential model gives exactly
     the recorded results and the current volume *)
  inv_seq : seq_ok vol_nxt vol_acc st0 (map orec_of (rev (m_lin m))) = Some (m_vol m);
  (* no operation of the machine changes the read-only flags *)
  inv_flags : same_flags (m_vol m) st0 }.

Lemma minv_init : forall st0 b, minv st0 (minit st0 b).
Proof. intros. constructor; cbn; auto. split; reflexivity. Qed.

Lemma appl_ok_mono : forall now a, appl_ok now a -> appl_ok (now + 1) a.
Proof.
  intros now a (H1 & H2 & H3). unfold appl_ok. repeat split; auto; try lia.
  destruct (a_stat a); auto. lia.
Qed.

Lemma pend_mono : forall now l,
  Forall (fun p => p_inv p <= now) l -> Forall (fun p => p_inv p <= now + 1) l.
Proof. intros now l H. eapply Forall_impl; [|exact H]. cbv beta. intros. lia. Qed.

Lemma pend_set_pstat : forall now id s l,
  Forall (fun p => p_inv p <= now) l -> Forall (fun p => p_inv p <= now) (set_pstat id s l).
Proof.
  intros now id s l H. unfold set_pstat. apply Forall_map. eapply Forall_impl; [|exact H].
  cbv beta. intros p Hp. destruct (p_id p =? id); cbn; exact Hp.
Qed.

Lemma pend_del : forall now id l,
  Forall (fun p => p_inv p <= now) l -> Forall (fun p => p_inv p <= now) (del_pend id l).
Proof. intros now id l H. unfold del_pend. eapply incl_Forall; [apply incl_filter | exact H]. Qed.

Lemma find_pend_in : forall id l p, find_pend id l = Some p -> In p l.
Proof. intros id l p H. unfold find_pend in H. apply find_some in H. tauto. Qed.

(* steps that touch neither the volume nor the list of finished critical sections *)
Lemma minv_book : forall st0 m lk pd q w,
  minv st0 m -> Forall (fun p => p_inv p <= m_now m + 1) pd ->
  minv st0 (upd m (m_vol m) lk pd (m_lin m) q w).
Proof.
  intros st0 m lk pd q w [I1 I2 I3 I4 I5] Hpd. constructor; cbn [upd m_now m_pend m_lin m_vol]; auto.
  eapply Forall_impl; [|exact I2]. apply appl_ok_mono.
Qed.

(* a critical section *)
Lemma minv_apply : forall st0 m p t s lk w,
  minv st0 m -> In p (m_pend m) -> (forall r, s <> ADone r) ->
  minv st0 (do_apply m p t s lk w).
Proof.
  intros st0 m p t s lk w [I1 I2 I3 I4 I5] Hin Hs. unfold do_apply.
  pose proof (step_flags (m_vol m) t (p_op p)) as SF.
  destruct (step (m_vol m) (t, op_of (p_op p))) as [v' o] eqn:E.
  assert (Hp : p_inv p <= m_now m) by (rewrite Forall_forall in I1; apply I1; exact Hin).
  constructor; cbn [upd m_now m_pend m_lin m_vol].
  - apply pend_mono. apply pend_del. exact I1.
  - constructor.
    + unfold appl_ok. cbn. repeat split; try lia. destruct s; auto. exfalso. eapply Hs; reflexivity.
    + eapply Forall_impl; [|exact I2]. apply appl_ok_mono.
  - cbn [dec_at]. split; [|exact I3]. cbn [a_at].
    eapply Forall_impl; [|exact I2]. intros a (_ & H & _). exact H.
  - cbn [rev]. rewrite map_app. cbn [map]. rewrite seq_ok_snoc, I4.
    unfold vol_acc, vol_nxt, orec_of. cbn [o_op o_out a_t a_op a_out]. rewrite E. cbn [fst snd].
    rewrite out_eqb_refl. reflexivity.
  - cbn [fst] in SF. unfold same_flags in *. destruct SF, I5. split; congruence.
Qed.

Lemma dec_at_map : forall (f : appl -> appl) l,
  (forall a, a_at (f a) = a_at a) -> dec_at l -> dec_at (map f l).
Proof.
  intros f l Hf. induction l as [|a l IH]; cbn [map dec_at]; [auto|].
  intros [H1 H2]. split; [|apply IH; exact H2].
  apply Forall_map. rewrite Hf. eapply Forall_impl; [|exact H1]. cbv beta. intros b Hb. rewrite Hf. exact Hb.
Qed.

(* Submit() and the return of a call: only the status of one entry changes *)
Lemma minv_astat : forall st0 m id s lk pd q w,
  minv st0 m -> pd = m_pend m -> (s = AReturn \/ s = ADone (m_now m)) ->
  minv st0 (upd m (m_vol m) lk pd (set_astat id s (m_lin m)) q w).
Proof.
  intros st0 m id s lk pd q w [I1 I2 I3 I4 I5] -> Hs. constructor; cbn [upd m_now m_pend m_lin m_vol]; [| | | |exact I5].
  - apply pend_mono. exact I1.
  - unfold set_astat. apply Forall_map. eapply Forall_impl; [|exact I2]. cbv beta.
    intros a Ha. destruct (a_id a =? id); [|apply appl_ok_mono; exact Ha].
    destruct Ha as (H1 & H2 & H3). unfold appl_ok. cbn. repeat split; try lia.
    destruct Hs as [-> | ->]; [auto | lia].
  - unfold set_astat. apply dec_at_map; [|exact I3]. intro a. destruct (a_id a =? id); reflexivity.
  - unfold set_astat. rewrite <- map_rev, map_map. rewrite <- I4. apply seq_ok_map_ext.
    intro a. destruct (a_id a =? id); split; reflexivity.
Qed.

Lemma mstep_inv : forall st0 m l m', minv st0 m -> mstep m l = Some m' -> minv st0 m'.
Proof.
  intros st0 m l m' I H. pose proof (inv_pend _ _ I) as IP.
  destruct l as [id c|id t|id|id t| | | |t| | | |id| ]; cbn [mstep] in H.
  - destruct (id_used m id); [discriminate|]. inversion H; subst. apply minv_book; [exact I|].
    constructor; [cbn; lia | apply pend_mono; exact IP].
  - destruct (find_pend id (m_pend m)) as [p|] eqn:F; [|discriminate].
    destruct (is_pstat (p_stat p) PInvoked); [|discriminate].
    match type of H with (if ?b then _ else _) = _ => destruct b end; inversion H; subst.
    + apply minv_apply; [exact I | eapply find_pend_in; exact F | intros r; discriminate].
    + apply minv_book; [exact I|]. apply pend_mono. apply pend_set_pstat. exact IP.
  - destruct (find_pend id (m_pend m)) as [p|] eqn:F; [|discriminate].
    match type of H with (if ?b then _ else _) = _ => destruct b end; inversion H; subst.
    apply minv_book; [exact I|]. apply pend_mono. apply pend_set_pstat. exact IP.
  - destruct (find_pend id (m_pend m)) as [p|] eqn:F; [|discriminate].
    match type of H with (if ?b then _ else _) = _ => destruct b end; inversion H; subst.
    apply minv_apply; [exact I | eapply find_pend_in; exact F | intros r; discriminate].
  - destruct (m_worker m) as [b|b|b|b td|td]; try discriminate.
    destruct (m_queue m) as [|id q]; [discriminate|]. inversion H; subst.
    apply minv_book; [exact I|]. apply pend_mono. apply pend_set_pstat. exact IP.
  - destruct (m_worker m) as [b|b|b|b td|td]; try discriminate. inversion H; subst.
    apply minv_book; [exact I|]. apply pend_mono. exact IP.
  - destruct (m_worker m) as [b|b|b|b td|td]; try discriminate.
    destruct (m_lock m); [discriminate|]. inversion H; subst.
    apply minv_book; [exact I|]. apply pend_mono. exact IP.
  - destruct (m_worker m) as [b|b|b|b td|td]; try discriminate.
    destruct td as [|id todo]; [discriminate|].
    destruct (find_pend id (m_pend m)) as [p|] eqn:F; [|discriminate].
    destruct (is_pstat (p_stat p) PBatched); [|discriminate]. inversion H; subst.
    apply minv_apply; [exact I | eapply find_pend_in; exact F | intros r; discriminate].
  - destruct (m_worker m) as [b|b|b|b td|td]; try discriminate.
    destruct td; [|discriminate]. inversion H; subst.
    apply minv_book; [exact I|]. apply pend_mono. exact IP.
  - destruct (m_worker m) as [b|b|b|b td|td]; try discriminate.
    destruct td as [|id todo]; [discriminate|]. inversion H; subst.
    apply minv_astat; [exact I | reflexivity | left; reflexivity].
  - destruct (m_worker m) as [b|b|b|b td|td]; try discriminate.
    destruct td; [|discriminate]. inversion H; subst.
    apply minv_book; [exact I|]. apply pend_mono. exact IP.
  - destruct (find_appl id (m_lin m)) as [a|]; [|discriminate].
    destruct (a_stat a); try discriminate. inversion H; subst.
    apply minv_astat; [exact I | reflexivity | right; reflexivity].
  - inversion H; subst. destruct I as [I1 I2 I3 I4 I5]. constructor; cbn; auto.
    + apply pend_mono. exact I1.
    + eapply Forall_impl; [|exact I2]. apply appl_ok_mono.
Qed.

Lemma mrun_inv : forall st0 sched m m', minv st0 m -> mrun m sched = Some m' -> minv st0 m'.
Proof.
  intros st0. induction sched as [|l sched IH]; intros m m' I H; cbn [mrun] in H.
  - inversion H; subst. exact I.
  - destruct (mstep m l) as [m1|] eqn:E; [|discriminate]. eapply IH; [|exact H]. eapply mstep_inv; eauto.
Qed.

(* the order of the critical sections respects real time *)
Lemma rt_ok_rev_lin : forall now l,
  Forall (appl_ok now) l -> dec_at l -> forallb is_done l = true ->
  rt_ok (map orec_of (rev l)) = true.
Proof.
  intros now. induction l as [|a l IH]; intros HF HD HC; [reflexivity|].
  cbn [rev]. rewrite map_app. cbn [map]. rewrite rt_ok_snoc.
  inversion HF as [|? ? Ha HF']; subst. destruct HD as [HD1 HD2].
  cbn [forallb] in HC. apply andb_true_iff in HC. destruct HC as [HC1 HC2].
  rewrite (IH HF' HD2 HC2). cbn [andb].
  apply forallb_forall. intros x Hx. apply in_map_iff in Hx. destruct Hx as [b [<- Hb]].
  apply in_rev in Hb.
  rewrite Forall_forall in HD1, HF'. pose proof (HD1 b Hb) as Hlt. destruct (HF' b Hb) as (Hb1 & _).
  destruct Ha as (_ & _ & Ha3). unfold is_done in HC1.
  unfold precedes, orec_of. cbn [o_res o_inv].
  destruct (a_stat a) as [| |r]; try discriminate.
  apply negb_true_iff. apply N.ltb_ge. lia.
Qed.

(* ---- C38, with respect to the sequential volume model ---- *)
Theorem machine_linearizable : forall st0 b sched m,
  mrun (minit st0 b) sched = Some m -> complete m = true ->
  linearizable vol_nxt vol_acc st0 (fun st => st = m_vol m) (history m).
Proof.
  intros st0 b sched m Hrun Hc.
  pose proof (mrun_inv st0 sched _ _ (minv_init st0 b) Hrun) as [I1 I2 I3 I4 I5].
  unfold complete in Hc. destruct (m_pend m); [|discriminate].
  exists (map orec_of (rev (m_lin m))), (m_vol m). repeat split.
  - unfold history. apply Permutation_map. apply Permutation_sym. apply Permutation_rev.
  - eapply rt_ok_rev_lin; eauto.
  - exact I4.
Qed.

(* every finished critical section lies between the Inv and the Res of its call *)
Theorem machine_apply_between : forall st0 b sched m a,
  mrun (minit st0 b) sched = Some m -> In a (m_lin m) ->
  a_inv a <= a_at a /\ match a_stat a with ADone r => a_at a < r | _ => True end.
Proof.
  intros st0 b sched m a Hrun Hin.
  pose proof (mrun_inv st0 sched _ _ (minv_init st0 b) Hrun) as [I1 I2 I3 I4 I5].
  rewrite Forall_forall in I2. destruct (I2 a Hin) as (H1 & H2 & H3). split; [exact H1|].
  destruct (a_stat a); auto. tauto.
Qed.

(* in every reachable state the read-only flags are those of the volume as loaded ... *)
Theorem machine_flags_const : forall st0 b sched m,
  mrun (minit st0 b) sched = Some m -> same_flags (m_vol m) st0.
Proof.
  intros st0 b sched m Hrun.
  exact (inv_flags _ _ (mrun_inv st0 sched _ _ (minv_init st0 b) Hrun)).
Qed.

(* ... so, on a writable volume, the critical section of a write (sync path and worker alike) is
   doWriteRequest: the IsReadOnly() test that Volume.step repeats is the one LEnter made *)
Theorem machine_write_is_do_write : forall st0 b sched m n t,
  is_read_only st0 = false -> mrun (minit st0 b) sched = Some m ->
  step (m_vol m) (t, Write n) =
  (fst (do_write (m_vol m) n t),
   OWrite (w_err (snd (do_write (m_vol m) n t))) (w_unchanged (snd (do_write (m_vol m) n t)))
          (w_size (snd (do_write (m_vol m) n t)))).
Proof.
  intros st0 b sched m n t Hro Hrun. destruct (machine_flags_const _ _ _ _ Hrun) as [F1 F2].
  unfold step, store_write. unfold is_read_only in *. rewrite F1, F2, Hro.
  destruct (do_write (m_vol m) n t) as [st' w]. reflexivity.
Qed.

(* a refused call returns without touching the volume *)
Lemma refused_pure : forall st t,
  (forall n, is_read_only st = true -> fst (step st (t, Write n)) = st) /\
  (forall id c, no_write_or_delete st = true -> fst (step st (t, RawDelete id c)) = st).
Proof.
  intros st t. split.
  - intros n H. unfold step, store_write. rewrite H. reflexivity.
  - intros id c H. unfold step, store_delete. rewrite H. reflexivity.
Qed.

(* ================= Part 3: from the volume model to the register specification ================= *)
Lemma seq_ok_vol : forall (lin : hist) st st',
  seq_ok vol_nxt vol_acc st lin = Some st' ->
  run st (map o_op lin) = map o_out lin /\ state_after st (map o_op lin) = st'.
Proof.
  induction lin as [|a lin IH]; intros st st' H; cbn [seq_ok map] in *.
  - inversion H; subst. split; reflexivity.
  - unfold vol_acc, vol_nxt in H. destruct (out_eqb (snd (step st (o_op a))) (o_out a)) eqn:E; [|discriminate].
    apply out_eqb_eq in E. destruct (IH _ _ H) as [H1 H2].
    cbn [run]. unfold state_after in *. cbn [fold_left]. destruct (step st (o_op a)) as [s1 o1]. cbn [fst snd] in *.
    subst o1. rewrite H1. split; [reflexivity | exact H2].
Qed.

Lemma no_conflict_sym : forall a b, no_conflict a b = no_conflict b a.
Proof. intros. unfold no_conflict. apply andb_comm. Qed.

Lemma pairwise_nc_perm : forall l l', Permutation l l' -> pairwise_nc l = pairwise_nc l'.
Proof.
  intros l l' H. induction H; cbn [pairwise_nc forallb].
  - reflexivity.
  - rewrite IHPermutation, (forallb_perm _ _ _ _ H). reflexivity.
  - rewrite (no_conflict_sym x y).
    destruct (no_conflict y x), (forallb (no_conflict y) l), (forallb (no_conflict x) l), (pairwise_nc l); reflexivity.
  - congruence.
Qed.

Lemma needles_of_cons : forall ev evs,
  needles_of (ev :: evs) = match op_needle (snd ev) with Some n => [n] | None => [] end ++ needles_of evs.
Proof. reflexivity. Qed.

Lemma meta_dup_pairwise : forall evs seen,
  pairwise_nc (needles_of evs) = true ->
  (forall n s, In n (needles_of evs) -> In s seen -> conflicts n s = false) ->
  meta_dup seen evs = false.
Proof.
  induction evs as [|ev evs IH]; intros seen HP HS; cbn [meta_dup]; [reflexivity|].
  rewrite needles_of_cons in HP, HS. destruct (op_needle (snd ev)) as [n|]; cbn [app] in HP, HS.
  - cbn [pairwise_nc] in HP. apply andb_true_iff in HP. destruct HP as [HP1 HP2].
    apply orb_false_iff. split.
    + destruct (existsb (conflicts n) seen) eqn:E; [|reflexivity].
      apply existsb_exists in E. destruct E as [s [Hs Hc]].
      rewrite (HS n s (or_introl eq_refl) Hs) in Hc. discriminate.
    + apply IH; [exact HP2|]. intros n' s Hn' [<-|Hs].
      * rewrite forallb_forall in HP1. pose proof (HP1 n' Hn') as Hnc. unfold no_conflict in Hnc.
        apply andb_true_iff in Hnc. destruct Hnc as [_ Hnc]. apply negb_true_iff in Hnc. exact Hnc.
      * apply HS; [right; exact Hn' | exact Hs].
  - apply IH; assumption.
Qed.

Lemma conc_ok_perm : forall evs evs', Permutation evs evs' -> conc_ok evs = true ->
  wf_history evs' = true /\ empty_payload evs' = false /\ meta_dup [] evs' = false.
Proof.
  intros evs evs' P H. unfold conc_ok in H.
  apply andb_true_iff in H. destruct H as [H H3]. apply andb_true_iff in H. destruct H as [H1 H2].
  apply negb_true_iff in H2. repeat split.
  - unfold wf_history in *. rewrite <- (forallb_perm _ _ _ _ P). exact H1.
  - unfold empty_payload in *. rewrite <- (existsb_perm _ _ _ _ P). exact H2.
  - apply meta_dup_pairwise; [|intros n s _ []].
    rewrite <- (pairwise_nc_perm (needles_of evs) (needles_of evs')); [exact H3|].
    unfold needles_of. apply Permutation_flat_map. exact P.
Qed.

(* the transfer to the register specification, the checkers and the witnesses: proof/VolumeConcReg.v *)
