(* C05 proofs, part 3: CompactMap — the section list invariant, binarySearchCompactSection,
   and Set / Delete / Get against the abstract lookup. *)
From Coq Require Import List NArith ZArith Bool Lia Sorted Arith.
From Coq Require Import ZifyBool ZifyN ZifyNat.
From SW Require Import model.NeedleMap proof.NeedleMapSearch proof.NeedleMapSec.
Import ListNotations.
Local Open Scope N_scope.
Ltac Zify.zify_post_hook ::= Z.div_mod_to_equations.

(* ---------- invariant ---------- *)
Definition ordered (cm : cmap) : Prop :=
  forall i j a b, (i < j)%nat -> nth_error cm i = Some a -> nth_error cm j = Some b -> s_end a < s_start b.

Definition sec_keys (s : section) : Prop :=
  forall v, In v (s_values s ++ s_overflow s) -> sk v <= sec_lim /\ s_start s + sk v <= s_end s.

Record sec_wf (batch : N) (s : section) : Prop := {
  sw_inv : sec_inv batch s;
  sw_keys : sec_keys s;
  sw_se : s_start s <= s_end s;
  sw_span : s_end s <= s_start s + sec_lim;
  sw_64 : s_end s < two64 }.

Record cm_inv (batch : N) (cm : cmap) : Prop := {
  ci_ord : ordered cm;
  ci_wf : forall i s, nth_error cm i = Some s -> sec_wf batch s }.

Lemma cm_inv_nil : forall batch, cm_inv batch [].
Proof. intros. constructor; [intros i j a b _ H; destruct i; discriminate | intros i s H; destruct i; discriminate]. Qed.

(* ---------- list access helpers ---------- *)
Lemma sec_at_some : forall (cm : cmap) z, (0 <= z < Z.of_nat (length cm))%Z ->
  nth_error cm (Z.to_nat z) = Some (sec_at cm z).
Proof. intros cm z H. unfold sec_at. apply nth_error_nth'. lia. Qed.

Lemma nth_error_set_nth : forall {A} (l : list A) x y i, (x < length l)%nat ->
  nth_error (set_nth x y l) i = if (i =? x)%nat then Some y else nth_error l i.
Proof.
  intros A l. induction l as [|a l IH]; intros x y i H; simpl in H; [lia|].
  unfold set_nth in *. destruct x; simpl.
  - destruct i; reflexivity.
  - destruct i; simpl; [reflexivity|]. apply IH. lia.
Qed.

Lemma nth_error_insert_at : forall {A} (l : list A) p y i, (p <= length l)%nat ->
  nth_error (insert_at p y l) i =
  if (i <? p)%nat then nth_error l i else if (i =? p)%nat then Some y else nth_error l (i - 1).
Proof.
  intros A l. induction l as [|a l IH]; intros p y i H; simpl in H.
  - assert (p = 0%nat) by lia. subst. unfold insert_at. simpl.
    destruct i; simpl; [reflexivity|]. destruct i; reflexivity.
  - unfold insert_at in *. destruct p; simpl.
    + destruct i; simpl; [reflexivity|]. rewrite Nat.sub_0_r. reflexivity.
    + destruct i; simpl; [reflexivity|].
      rewrite IH by lia.
      destruct (Nat.ltb_spec i p); destruct (Nat.ltb_spec (S i) (S p)); try lia; [reflexivity|].
      destruct (Nat.eqb_spec i p); destruct (Nat.eqb_spec (S i) (S p)); try lia; [reflexivity|].
      destruct i; [lia|]. simpl. rewrite Nat.sub_0_r. reflexivity.
Qed.

Lemma set_nth_insert_at : forall {A} (l : list A) p x y, (p <= length l)%nat ->
  set_nth p y (insert_at p x l) = insert_at p y l.
Proof.
  intros A l. induction l as [|a l IH]; intros p x y H; simpl in H.
  - assert (p = 0%nat) by lia. subst. reflexivity.
  - unfold set_nth, insert_at in *. destruct p; simpl; [reflexivity|]. f_equal. apply IH. lia.
Qed.

Lemma set_nth_length : forall {A} (l : list A) x y, (x < length l)%nat -> length (set_nth x y l) = length l.
Proof.
  intros A l. induction l as [|a l IH]; intros x y H; simpl in H; [lia|].
  unfold set_nth in *. destruct x; simpl; [reflexivity|]. f_equal. apply IH. lia.
Qed.

Lemma nth_of_nth_error : forall {A} (l : list A) i d x, nth_error l i = Some x -> nth i l d = x.
Proof. intros. apply nth_error_nth. assumption. Qed.

(* ---------- starts are strictly increasing ---------- *)
Lemma starts_lt : forall batch cm i j a b, cm_inv batch cm -> (i < j)%nat ->
  nth_error cm i = Some a -> nth_error cm j = Some b -> s_start a < s_start b.
Proof.
  intros batch cm i j a b [O W] Hij Ha Hb.
  pose proof (O i j a b Hij Ha Hb). pose proof (sw_se _ _ (W i a Ha)). lia.
Qed.

Lemma starts_lt_z : forall batch cm i j, cm_inv batch cm -> (0 <= i < j)%Z -> (j < Z.of_nat (length cm))%Z ->
  s_start (sec_at cm i) < s_start (sec_at cm j).
Proof.
  intros batch cm i j Hinv Hij Hj.
  apply (starts_lt batch cm (Z.to_nat i) (Z.to_nat j)); auto; try lia; apply sec_at_some; lia.
Qed.

(* ---------- binarySearchCompactSection ---------- *)
Lemma bscs_loop_spec : forall batch cm key, cm_inv batch cm ->
  (0 < Z.of_nat (length cm))%Z ->
  key < s_start (sec_at cm (Z.of_nat (length cm) - 1)) ->
  forall fuel l h,
  (0 <= l)%Z -> (h <= Z.of_nat (length cm) - 1)%Z -> (l <= h + 1)%Z -> (h - l + 1 <= Z.of_nat fuel)%Z ->
  (l = 0%Z \/ ((l <= Z.of_nat (length cm) - 1)%Z /\ s_start (sec_at cm l) <= key)) ->
  (h = (Z.of_nat (length cm) - 1)%Z \/ key < s_start (sec_at cm (h + 1))) ->
  (bscs_loop fuel cm key l h = (-3)%Z /\ key < s_start (sec_at cm 0)) \/
  ((0 <= bscs_loop fuel cm key l h)%Z /\ (bscs_loop fuel cm key l h + 1 <= Z.of_nat (length cm) - 1)%Z /\
   s_start (sec_at cm (bscs_loop fuel cm key l h)) <= key /\
   key < s_start (sec_at cm (bscs_loop fuel cm key l h + 1))).
Proof.
  intros batch cm key Hinv Hn Hlast.
  set (n := Z.of_nat (length cm)) in *.
  assert (Exit : forall l h, (0 <= l)%Z -> (l = h + 1)%Z ->
            (l = 0%Z \/ ((l <= n - 1)%Z /\ s_start (sec_at cm l) <= key)) ->
            (h = (n - 1)%Z \/ key < s_start (sec_at cm (h + 1))) ->
            key < s_start (sec_at cm 0)).
  { intros l h Hl0 Hlh Hl Hh. destruct Hl as [Hl|[Hl1 Hl2]].
    - subst l. destruct Hh as [Hh|Hh]; [lia|]. replace (h + 1)%Z with 0%Z in Hh by lia. exact Hh.
    - destruct Hh as [Hh|Hh]; [lia|]. replace (h + 1)%Z with l in Hh by lia. lia. }
  induction fuel as [|fuel IH]; intros l h Hl0 Hhn Hlh Hf Hl Hh.
  - left. split; [reflexivity|]. apply (Exit l h); auto. lia.
  - cbn [bscs_loop]. destruct (Z.leb_spec l h) as [Hle|Hgt].
    + set (m := ((l + h) / 2)%Z).
      assert (Hm : (l <= m <= h)%Z) by (unfold m; lia).
      destruct (N.ltb_spec key (s_start (sec_at cm m))) as [Hk|Hk].
      * apply IH; try lia. right. replace (m - 1 + 1)%Z with m by lia. exact Hk.
      * assert (Hmn : (m <> n - 1)%Z) by (intros E; rewrite E in Hk; lia).
        destruct (N.leb_spec (s_start (sec_at cm (m + 1))) key) as [Hk2|Hk2].
        -- apply IH; try lia; try (right; split; [lia|exact Hk2]).
        -- right. repeat split; try lia; try assumption.
    + left. split; [reflexivity|]. apply (Exit l h); auto. lia.
Qed.

Definition n_of (cm : cmap) : Z := Z.of_nat (length cm).

Lemma bscs_spec : forall batch cm key, cm_inv batch cm ->
  let r := bscs batch cm key in
  (r = (-5)%Z /\ cm = []) \/
  (r = (-3)%Z /\ (0 < n_of cm)%Z /\ key < s_start (sec_at cm 0)) \/
  (r = (-4)%Z /\ (0 < n_of cm)%Z /\ s_start (sec_at cm (n_of cm - 1)) <= key /\
     batch <= counter (sec_at cm (n_of cm - 1)) /\ s_end (sec_at cm (n_of cm - 1)) < key) \/
  ((0 <= r < n_of cm)%Z /\ s_start (sec_at cm r) <= key /\
     ((r + 1 < n_of cm)%Z -> key < s_start (sec_at cm (r + 1))) /\
     (r = (n_of cm - 1)%Z -> counter (sec_at cm r) < batch \/ key <= s_end (sec_at cm r))).
Proof.
  intros batch cm key Hinv r. unfold r, bscs, n_of.
  set (n := Z.of_nat (length cm)).
  destruct (Z.ltb_spec (n - 1) 0) as [Hn|Hn].
  - left. split; [reflexivity|]. destruct cm; [reflexivity|]. unfold n in Hn. simpl length in Hn. lia.
  - destruct (N.leb_spec (s_start (sec_at cm (n - 1))) key) as [Hs|Hs].
    + destruct ((counter (sec_at cm (n - 1)) <? batch) || (key <=? s_end (sec_at cm (n - 1)))) eqn:E.
      * right. right. right. repeat split; try lia.
        all: try (intros _; apply orb_true_iff in E; destruct E as [E|E];
                  [left; apply N.ltb_lt in E|right; apply N.leb_le in E]; assumption).
      * right. right. left. apply orb_false_iff in E. destruct E as [E1 E2].
        apply N.ltb_ge in E1. apply N.leb_gt in E2. repeat split; try lia; assumption.
    + unfold n in *. clear n.
      pose proof (bscs_loop_spec batch cm key Hinv ltac:(lia) Hs (length cm) 0%Z (Z.of_nat (length cm) - 1)%Z
                    ltac:(lia) ltac:(lia) ltac:(lia) ltac:(lia) (or_introl eq_refl) (or_introl eq_refl)) as L.
      destruct L as [[E1 E2]|[E1 [E2 [E3 E4]]]].
      * right. left. rewrite E1. repeat split; try lia; assumption.
      * right. right. right. split; [lia|]. split; [assumption|]. split; [intros _; assumption|]. intros; lia.
Qed.

(* ---------- machine arithmetic on keys ---------- *)
Lemma sub64_exact : forall a b, b <= a -> a < two64 -> sub64 a b = a - b.
Proof. intros a b H1 H2. unfold sub64, two64 in *. lia. Qed.
Lemma u32_small : forall x, x <= sec_lim -> u32 x = x.
Proof. intros x H. unfold u32, two32, sec_lim in *. lia. Qed.
Lemma add64_back : forall a b, b <= a -> a < two64 -> add64 (a - b) b = a.
Proof. intros a b H1 H2. unfold add64, two64 in *. lia. Qed.

Lemma sec_at_nth_error : forall (cm : cmap) i s, nth_error cm i = Some s -> sec_at cm (Z.of_nat i) = s.
Proof. intros cm i s H. unfold sec_at. rewrite Nat2Z.id. apply nth_error_nth. assumption. Qed.

Lemma nth_error_lt : forall {A} (l : list A) i x, nth_error l i = Some x -> (i < length l)%nat.
Proof. intros A l i x H. apply nth_error_Some. congruence. Qed.

(* ---------- locate ---------- *)
Lemma locate_some : forall batch cm key x, cm_inv batch cm -> key < two64 ->
  locate batch cm key = Some x ->
  exists s, nth_error cm x = Some s /\ s_start s <= key /\ key - s_start s <= sec_lim /\
            (forall b, nth_error cm (S x) = Some b -> key < s_start b) /\
            sub64 key (s_start s) = key - s_start s.
Proof.
  intros batch cm key x Hinv Hk Hloc. unfold locate in Hloc.
  pose proof (bscs_spec batch cm key Hinv) as B. cbv zeta in B.
  set (r := bscs batch cm key) in *. unfold n_of in B.
  destruct B as [[E _]|[[E _]|[[E _]|[Hr [Hs [Hnext _]]]]]]; try (rewrite E in Hloc; discriminate).
  destruct (Z.ltb_spec r 0); [lia|]. cbn [orb] in Hloc.
  destruct (N.ltb_spec sec_lim (sub64 key (s_start (sec_at cm r)))) as [Hl|Hl]; [discriminate|].
  injection Hloc as <-.
  pose proof (sec_at_some cm r ltac:(lia)) as Hn.
  exists (sec_at cm r). rewrite sub64_exact in Hl by assumption.
  repeat split; auto.
  - intros b Hb. pose proof (nth_error_lt _ _ _ Hb) as Hlt.
    pose proof (sec_at_nth_error cm (S (Z.to_nat r)) b Hb) as Eb.
    replace (Z.of_nat (S (Z.to_nat r))) with (r + 1)%Z in Eb by lia. rewrite <- Eb. apply Hnext. lia.
  - apply sub64_exact; assumption.
Qed.

Lemma locate_none : forall batch cm key, cm_inv batch cm -> key < two64 ->
  locate batch cm key = None ->
  forall i s, nth_error cm i = Some s -> ~ (s_start s <= key /\ key <= s_end s).
Proof.
  intros batch cm key Hinv Hk Hloc i s Hi [H1 H2]. unfold locate in Hloc.
  pose proof (bscs_spec batch cm key Hinv) as B. cbv zeta in B.
  set (r := bscs batch cm key) in *. unfold n_of in B.
  pose proof (nth_error_lt _ _ _ Hi) as Hlt.
  pose proof (sec_at_nth_error cm i s Hi) as Es.
  destruct B as [[_ E]|[[_ [Hn H0]]|[[_ [Hn [Hs [_ He]]]]|[Hr [Hs [Hnext _]]]]]].
  - subst cm. destruct i; discriminate.
  - (* below every section *)
    destruct (Nat.eq_dec i 0) as [->|Hne].
    + simpl in Es. rewrite Es in H0. lia.
    + pose proof (starts_lt_z batch cm 0 (Z.of_nat i) Hinv ltac:(lia) ltac:(lia)) as L. rewrite Es in L. lia.
  - (* beyond the full last section *)
    destruct (Nat.eq_dec i (length cm - 1)) as [->|Hne].
    + replace (Z.of_nat (length cm - 1)) with (Z.of_nat (length cm) - 1)%Z in Es by lia. rewrite Es in He. lia.
    + pose proof (ci_ord _ _ Hinv i (length cm - 1)%nat s (sec_at cm (Z.of_nat (length cm) - 1)) ltac:(lia) Hi) as O.
      rewrite <- (sec_at_some cm (Z.of_nat (length cm) - 1)) in O by lia.
      replace (Z.to_nat (Z.of_nat (length cm) - 1)) with (length cm - 1)%nat in O by lia.
      specialize (O eq_refl). lia.
  - destruct (Z.ltb_spec r 0); [lia|]. cbn [orb] in Hloc.
    destruct (N.ltb_spec sec_lim (sub64 key (s_start (sec_at cm r)))) as [Hl|Hl]; [|discriminate].
    rewrite sub64_exact in Hl by assumption.
    pose proof (sec_at_some cm r ltac:(lia)) as Hn.
    destruct (Nat.lt_trichotomy i (Z.to_nat r)) as [Hlt'|[->|Hgt]].
    + pose proof (ci_ord _ _ Hinv i (Z.to_nat r) s _ Hlt' Hi Hn). lia.
    + rewrite Hi in Hn. injection Hn as ->. pose proof (sw_span _ _ (ci_wf _ _ Hinv _ _ Hi)). lia.
    + assert (Hk2 : key < s_start (sec_at cm (r + 1))) by (apply Hnext; lia).
      destruct (Z.eq_dec (Z.of_nat i) (r + 1)) as [E|E].
      * rewrite <- E, Es in Hk2. lia.
      * pose proof (starts_lt_z batch cm (r + 1) (Z.of_nat i) Hinv ltac:(lia) ltac:(lia)) as L. rewrite Es in L. lia.
Qed.

Lemma stored_locate : forall batch cm key i s, cm_inv batch cm -> key < two64 ->
  nth_error cm i = Some s -> s_start s <= key -> key <= s_end s ->
  locate batch cm key = Some i.
Proof.
  intros batch cm key i s Hinv Hk Hi H1 H2.
  destruct (locate batch cm key) as [x|] eqn:L.
  - destruct (locate_some batch cm key x Hinv Hk L) as [sx [Hx [Hs1 [_ [Hnext _]]]]].
    destruct (Nat.lt_trichotomy i x) as [Hlt|[->|Hgt]]; [| reflexivity |].
    + pose proof (ci_ord _ _ Hinv i x s sx Hlt Hi Hx). lia.
    + (* x < i: key < start of section x+1 <= start of section i *)
      destruct (nth_error cm (S x)) as [b|] eqn:Eb.
      * specialize (Hnext b eq_refl).
        destruct (Nat.eq_dec (S x) i) as [<-|Hne]; [rewrite Eb in Hi; injection Hi as ->; lia|].
        pose proof (starts_lt batch cm (S x) i b s Hinv ltac:(lia) Eb Hi). lia.
      * apply nth_error_None in Eb. pose proof (nth_error_lt _ _ _ Hi). lia.
  - exfalso. exact (locate_none batch cm key Hinv Hk L i s Hi (conj H1 H2)).
Qed.

(* ---------- the abstract lookup ---------- *)
Definition cm_lookup (batch : N) (cm : cmap) (key : N) : option sval :=
  match locate batch cm key with
  | Some x => let s := nth x cm empty_section in sec_lookup s (key - s_start s)
  | None => None
  end.

Definition stored (cm : cmap) (key : N) (v : sval) : Prop :=
  exists i s, nth_error cm i = Some s /\ s_start s <= key /\ sec_lookup s (key - s_start s) = Some v.

Lemma sec_lookup_in : forall s k v, sec_lookup s k = Some v -> In v (s_values s ++ s_overflow s) /\ sk v = k.
Proof.
  intros s k v H. unfold sec_lookup in H. destruct (l_find (s_overflow s) k) as [o|] eqn:F.
  - injection H as <-. destruct (l_find_some _ _ _ F). split; [apply in_or_app; right|]; assumption.
  - destruct (l_find_some _ _ _ H). split; [apply in_or_app; left|]; assumption.
Qed.

Lemma lookup_in_range : forall batch s key v, sec_wf batch s -> s_start s <= key ->
  sec_lookup s (key - s_start s) = Some v -> key <= s_end s /\ key - s_start s <= sec_lim.
Proof.
  intros batch s key v W Hs H. destruct (sec_lookup_in _ _ _ H) as [Hin Hk].
  destruct (sw_keys _ _ W v Hin) as [A B]. lia.
Qed.

Lemma lookup_iff : forall batch cm key v, cm_inv batch cm -> key < two64 ->
  (cm_lookup batch cm key = Some v <-> stored cm key v).
Proof.
  intros batch cm key v Hinv Hk. unfold cm_lookup. split.
  - destruct (locate batch cm key) as [x|] eqn:L; [|discriminate]. intros H.
    destruct (locate_some batch cm key x Hinv Hk L) as [s [Hx [Hs _]]].
    rewrite (nth_of_nth_error cm x empty_section s Hx) in H. exists x, s. auto.
  - intros [i [s [Hi [Hs Hl]]]].
    destruct (lookup_in_range batch s key v (ci_wf _ _ Hinv _ _ Hi) Hs Hl) as [He _].
    rewrite (stored_locate batch cm key i s Hinv Hk Hi Hs He).
    rewrite (nth_of_nth_error cm i empty_section s Hi). exact Hl.
Qed.

Lemma lookup_ext : forall batch cm cm' key, cm_inv batch cm -> cm_inv batch cm' -> key < two64 ->
  (forall v, stored cm' key v <-> stored cm key v) -> cm_lookup batch cm' key = cm_lookup batch cm key.
Proof.
  intros batch cm cm' key H H' Hk E.
  destruct (cm_lookup batch cm' key) as [v|] eqn:L'.
  - symmetry. apply (proj2 (lookup_iff batch cm key v H Hk)). apply E.
    apply (proj1 (lookup_iff batch cm' key v H' Hk)). exact L'.
  - destruct (cm_lookup batch cm key) as [v|] eqn:L; [|reflexivity].
    assert (cm_lookup batch cm' key = Some v).
    { apply (proj2 (lookup_iff batch cm' key v H' Hk)). apply E.
      apply (proj1 (lookup_iff batch cm key v H Hk)). exact L. }
    congruence.
Qed.

Lemma cm_get_spec : forall batch cm key, cm_inv batch cm -> key < two64 ->
  cm_get batch cm key = match cm_lookup batch cm key with
                        | Some v => Some (key, sv_off v, ssz v)
                        | None => None
                        end.
Proof.
  intros batch cm key Hinv Hk. unfold cm_get, cm_lookup.
  destruct (locate batch cm key) as [x|] eqn:L; [|reflexivity].
  destruct (locate_some batch cm key x Hinv Hk L) as [s [Hx [Hs [Hl [_ Hsub]]]]].
  rewrite (nth_of_nth_error cm x empty_section s Hx). cbv zeta.
  rewrite (sec_get_lookup batch s key (sw_inv _ _ (ci_wf _ _ Hinv _ _ Hx))).
  rewrite Hsub, u32_small by assumption.
  destruct (sec_lookup s (key - s_start s)) as [v|] eqn:E; [|reflexivity].
  destruct (sec_lookup_in _ _ _ E) as [_ Hv]. unfold to_nv. rewrite Hv, add64_back by assumption. reflexivity.
Qed.

(* ---------- Set ---------- *)
Lemma shift_count_spec : forall (cm : cmap) key,
  let c := shift_count (rev cm) key in
  (c <= length cm)%nat /\
  (forall i b, (length cm - c <= i)%nat -> nth_error cm i = Some b -> key < s_start b) /\
  ((c < length cm)%nat -> exists a, nth_error cm (length cm - c - 1) = Some a /\ s_start a <= key).
Proof.
  intros cm key. induction cm as [|z cm IH] using rev_ind; [simpl; repeat split; try lia; intros i b _ H; destruct i; discriminate|].
  rewrite rev_app_distr. cbn [rev app shift_count]. rewrite app_length. cbn [length].
  destruct IH as [A [B C]].
  destruct (N.ltb_spec key (s_start z)) as [Hz|Hz].
  - repeat split; try lia.
    + intros i b Hi Hb. destruct (Nat.lt_ge_cases i (length cm)) as [Hlt|Hge].
      * rewrite nth_error_app1 in Hb by assumption. apply (B i b); [lia|assumption].
      * rewrite nth_error_app2 in Hb by assumption.
        destruct (i - length cm)%nat; [injection Hb as <-; assumption|destruct n; discriminate].
    + intros Hc. destruct C as [a [Ha1 Ha2]]; [lia|]. exists a. split; [|assumption].
      rewrite nth_error_app1 by lia.
      replace (length cm + 1 - S (shift_count (rev cm) key) - 1)%nat with (length cm - shift_count (rev cm) key - 1)%nat by lia.
      assumption.
  - repeat split; try lia.
    + intros i b Hi Hb. pose proof (nth_error_lt _ _ _ Hb) as Hlt. rewrite app_length in Hlt. simpl in Hlt. lia.
    + intros _. exists z. split; [|assumption].
      rewrite nth_error_app2 by lia. replace (length cm + 1 - 0 - 1 - length cm)%nat with 0%nat by lia. reflexivity.
Qed.

Lemma sec_keys_of_keys : forall s s',
  s_start s' = s_start s -> s_end s <= s_end s' ->
  (forall v, In v (s_values s' ++ s_overflow s') -> exists v0, In v0 (s_values s ++ s_overflow s) /\ sk v0 = sk v) ->
  sec_keys s -> sec_keys s'.
Proof.
  intros s s' Hs He Hk K v Hv. destruct (Hk v Hv) as [v0 [Hin E]].
  destruct (K v0 Hin) as [A B]. rewrite Hs, <- E. lia.
Qed.

Lemma cm_set_spec : forall batch cm key off size cm' oo os,
  cm_inv batch cm -> key < two64 ->
  cm_set batch cm key off size = (cm', oo, os) ->
  cm_inv batch cm' /\
  (exists v0, sv_off v0 = off /\ ssz v0 = size /\
     forall k', k' < two64 -> cm_lookup batch cm' k' = if k' =? key then Some v0 else cm_lookup batch cm k') /\
  (oo, os) = match cm_lookup batch cm key with Some o => (sv_off o, ssz o) | None => (0, 0%Z) end.
Proof.
  intros batch cm key off size cm' oo os Hinv Hk Hset. unfold cm_set in Hset.
  destruct (locate batch cm key) as [x|] eqn:L.
  - (* an existing section takes the key *)
    destruct (locate_some batch cm key x Hinv Hk L) as [s [Hx [Hs [Hl [Hnext Hsub]]]]].
    pose proof (nth_error_lt _ _ _ Hx) as Hxl.
    rewrite (nth_of_nth_error cm x empty_section s Hx) in Hset.
    destruct (sec_set batch s key off size) as [[s' oo'] os'] eqn:Sset. injection Hset as <- <- <-.
    pose proof (ci_wf _ _ Hinv _ _ Hx) as W.
    destruct (sec_set_spec batch s key off size s' oo' os' (sw_inv _ _ W) Sset) as [I' [Hst [Hen [Hlk [Hold [_ Hin]]]]]].
    rewrite Hsub, u32_small in Hlk, Hold, Hin by assumption.
    set (v0 := mk_sval (key - s_start s) off size) in *.
    assert (Hend : s_end s <= s_end s' /\ key <= s_end s' /\ (s_end s' = s_end s \/ s_end s' = key)).
    { rewrite Hen. destruct (N.ltb_spec (s_end s) key); lia. }
    assert (W' : sec_wf batch s').
    { constructor; auto.
      - intros v Hv. destruct (Hin v Hv) as [->|Hv0].
        + unfold v0. simpl. rewrite Hst. lia.
        + destruct (sw_keys _ _ W v Hv0). rewrite Hst. lia.
      - rewrite Hst. pose proof (sw_se _ _ W). lia.
      - rewrite Hst. pose proof (sw_span _ _ W). lia.
      - pose proof (sw_64 _ _ W). lia. }
    assert (Hinv' : cm_inv batch (set_nth x s' cm)).
    { constructor.
      - intros i j a b Hij Ha Hb. rewrite nth_error_set_nth in Ha, Hb by assumption.
        destruct (Nat.eqb_spec i x) as [->|Hix]; destruct (Nat.eqb_spec j x) as [->|Hjx]; try lia.
        + injection Ha as <-.
          assert (Hkb : key < s_start b).
          { destruct (Nat.eq_dec j (S x)) as [->|Hne]; [apply Hnext; assumption|].
            destruct (nth_error cm (S x)) as [c|] eqn:Ec.
            - specialize (Hnext c eq_refl). pose proof (starts_lt batch cm (S x) j c b Hinv ltac:(lia) Ec Hb). lia.
            - apply nth_error_None in Ec. pose proof (nth_error_lt _ _ _ Hb). lia. }
          pose proof (ci_ord _ _ Hinv x j s b Hij Hx Hb). lia.
        + injection Hb as <-. rewrite Hst. apply (ci_ord _ _ Hinv i x a s Hij Ha Hx).
        + apply (ci_ord _ _ Hinv i j a b Hij Ha Hb).
      - intros i a Ha. rewrite nth_error_set_nth in Ha by assumption.
        destruct (Nat.eqb_spec i x); [injection Ha as <-; exact W'|apply (ci_wf _ _ Hinv _ _ Ha)]. }
    split; [exact Hinv'|]. split.
    + exists v0. split; [apply sv_off_mk|]. split; [reflexivity|].
      intros k' Hk'. destruct (N.eqb_spec k' key) as [->|Hne].
      * apply (proj2 (lookup_iff batch _ key v0 Hinv' Hk)).
        exists x, s'. split; [rewrite nth_error_set_nth by assumption; rewrite Nat.eqb_refl; reflexivity|].
        split; [rewrite Hst; assumption|]. rewrite Hst, Hlk, N.eqb_refl. reflexivity.
      * apply lookup_ext; auto. intros v. split.
        -- intros [i [a [Ha [Has Hal]]]]. rewrite nth_error_set_nth in Ha by assumption.
           destruct (Nat.eqb_spec i x) as [->|Hix].
           ++ injection Ha as <-. rewrite Hst in *. rewrite Hlk in Hal.
              destruct (N.eqb_spec (k' - s_start s) (key - s_start s)); [lia|]. exists x, s. auto.
           ++ exists i, a. auto.
        -- intros [i [a [Ha [Has Hal]]]]. destruct (Nat.eq_dec i x) as [->|Hix].
           ++ rewrite Hx in Ha. injection Ha as <-. exists x, s'.
              split; [rewrite nth_error_set_nth by assumption; rewrite Nat.eqb_refl; reflexivity|].
              rewrite Hst. split; [assumption|]. rewrite Hlk.
              destruct (N.eqb_spec (k' - s_start s) (key - s_start s)); [lia|assumption].
           ++ exists i, a. split; [|auto]. rewrite nth_error_set_nth by assumption.
              destruct (Nat.eqb_spec i x); [contradiction|assumption].
    + unfold cm_lookup. rewrite L. rewrite (nth_of_nth_error cm x empty_section s Hx). exact Hold.
  - (* a new section starting at the key *)
    pose proof (locate_none batch cm key Hinv Hk L) as Hnone.
    destruct (shift_count_spec cm key) as [Hc [Habove Hbelow]].
    set (c := shift_count (rev cm) key) in *. set (x := (length cm - c)%nat) in *.
    assert (Hxl : (x <= length cm)%nat) by (unfold x; lia).
    assert (Hnth : nth x (insert_at x (new_section key) cm) empty_section = new_section key).
    { apply nth_of_nth_error. rewrite nth_error_insert_at by assumption.
      rewrite Nat.ltb_irrefl, Nat.eqb_refl. reflexivity. }
    rewrite Hnth in Hset.
    destruct (sec_set batch (new_section key) key off size) as [[s' oo'] os'] eqn:Sset. injection Hset as <- <- <-.
    rewrite set_nth_insert_at by assumption.
    destruct (sec_set_spec batch (new_section key) key off size s' oo' os' (new_section_inv batch key) Sset)
      as [I' [Hst [Hen [Hlk [Hold [_ Hin]]]]]].
    cbn [new_section s_start s_end s_values s_overflow] in Hst, Hen, Hlk, Hold, Hin.
    rewrite sub64_exact in Hlk, Hold, Hin by (try lia; assumption).
    rewrite N.sub_diag in Hlk, Hold, Hin. change (u32 0) with 0 in Hlk, Hold, Hin.
    set (v0 := mk_sval 0 off size) in *.
    assert (Hen' : s_end s' = key) by (rewrite Hen; destruct (N.ltb_spec 0 key); lia).
    assert (Hbefore : forall i a, (i < x)%nat -> nth_error cm i = Some a -> s_end a < key).
    { intros i a Hi Ha.
      destruct Hbelow as [z [Hz1 Hz2]]; [unfold x in *; pose proof (nth_error_lt _ _ _ Ha); lia|].
      fold x in Hz1.
      assert (s_start a <= key).
      { destruct (Nat.eq_dec i (x - 1)) as [->|Hne]; [rewrite Hz1 in Ha; injection Ha as <-; assumption|].
        pose proof (starts_lt batch cm i (x - 1) a z Hinv ltac:(lia) Ha Hz1). lia. }
      pose proof (Hnone i a Ha). lia. }
    assert (W' : sec_wf batch s').
    { constructor; auto.
      - intros v Hv. destruct (Hin v Hv) as [->|[]]. unfold v0, sec_lim. simpl. rewrite Hst, Hen'. lia.
      - rewrite Hst, Hen'. lia.
      - rewrite Hst, Hen'. lia.
      - rewrite Hen'. assumption. }
    assert (Hinv' : cm_inv batch (insert_at x s' cm)).
    { constructor.
      - intros i j a b Hij Ha Hb. rewrite nth_error_insert_at in Ha, Hb by assumption.
        destruct (Nat.ltb_spec i x) as [Hi|Hi]; destruct (Nat.ltb_spec j x) as [Hj|Hj]; try lia.
        + apply (ci_ord _ _ Hinv i j a b Hij Ha Hb).
        + destruct (Nat.eqb_spec j x) as [->|Hjx].
          * injection Hb as <-. rewrite Hst. apply (Hbefore i a Hi Ha).
          * apply (ci_ord _ _ Hinv i (j - 1)%nat a b ltac:(lia) Ha Hb).
        + destruct (Nat.eqb_spec i x) as [->|Hix]; destruct (Nat.eqb_spec j x) as [->|Hjx]; try lia.
          * injection Ha as <-. rewrite Hen'. apply (Habove (j - 1)%nat b); [unfold x in *; lia|assumption].
          * apply (ci_ord _ _ Hinv (i - 1)%nat (j - 1)%nat a b ltac:(lia) Ha Hb).
      - intros i a Ha. rewrite nth_error_insert_at in Ha by assumption.
        destruct (Nat.ltb_spec i x); [apply (ci_wf _ _ Hinv _ _ Ha)|].
        destruct (Nat.eqb_spec i x); [injection Ha as <-; exact W'|apply (ci_wf _ _ Hinv _ _ Ha)]. }
    split; [exact Hinv'|]. split.
    + exists v0. split; [apply sv_off_mk|]. split; [reflexivity|].
      intros k' Hk'. destruct (N.eqb_spec k' key) as [->|Hne].
      * apply (proj2 (lookup_iff batch _ key v0 Hinv' Hk)). exists x, s'.
        split; [rewrite nth_error_insert_at by assumption; rewrite Nat.ltb_irrefl, Nat.eqb_refl; reflexivity|].
        rewrite Hst. split; [lia|]. rewrite N.sub_diag, Hlk. reflexivity.
      * apply lookup_ext; auto. intros v. split.
        -- intros [i [a [Ha [Has Hal]]]]. rewrite nth_error_insert_at in Ha by assumption.
           destruct (Nat.ltb_spec i x); [exists i, a; auto|].
           destruct (Nat.eqb_spec i x) as [->|Hix]; [|exists (i - 1)%nat, a; auto].
           injection Ha as <-. rewrite Hst in *. rewrite Hlk in Hal.
           destruct (N.eqb_spec (k' - key) 0); [lia|]. unfold sec_lookup in Hal. simpl in Hal. discriminate.
        -- intros [i [a [Ha [Has Hal]]]]. destruct (Nat.lt_ge_cases i x) as [Hi|Hi].
           ++ exists i, a. split; [|auto]. rewrite nth_error_insert_at by assumption.
              destruct (Nat.ltb_spec i x); [assumption|lia].
           ++ exists (S i), a. split; [|auto]. rewrite nth_error_insert_at by assumption.
              destruct (Nat.ltb_spec (S i) x); [lia|]. destruct (Nat.eqb_spec (S i) x); [lia|].
              replace (S i - 1)%nat with i by lia. assumption.
    + unfold cm_lookup. rewrite L. exact Hold.
Qed.

