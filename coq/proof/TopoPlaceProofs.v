(* Proofs about model/TopoPlace.v (C10). *)
From Coq Require Import String List ZArith Bool Arith Lia Permutation.
From SW Require Import model.TopoPlace.
Import ListNotations.
Local Open Scope Z_scope.

(* ================================================================== *)
(* 1. order codes                                                      *)
(* ================================================================== *)
Lemma remove_nth_length : forall A (l : list A) i, (i < length l)%nat ->
  length (remove_nth i l) = pred (length l).
Proof.
  induction l as [|x l IH]; intros i Hi; simpl in *; [lia|].
  destruct i; simpl; auto. rewrite IH by lia. destruct l; simpl in *; lia.
Qed.

Lemma nth_remove_perm : forall A (l : list A) i d, (i < length l)%nat ->
  Permutation (nth i l d :: remove_nth i l) l.
Proof.
  induction l as [|x l IH]; intros i d Hi; simpl in *; [lia|].
  destruct i; simpl; auto.
  eapply perm_trans; [apply perm_swap|]. constructor. apply IH. lia.
Qed.

Lemma permute_fuel_perm : forall A fuel code (l : list A), length l = fuel ->
  Permutation (permute_fuel fuel code l) l.
Proof.
  induction fuel as [|f IH]; intros code l Hl.
  - destruct l; simpl in *; [constructor|discriminate].
  - destruct l as [|x l]; [discriminate|].
    cbn [permute_fuel].
    set (i := Nat.modulo (hd O code) (length (x :: l))).
    assert (Hi : (i < length (x :: l))%nat) by (apply Nat.mod_upper_bound; simpl; lia).
    eapply perm_trans; [|apply (nth_remove_perm _ (x :: l) i x Hi)].
    constructor. apply IH. rewrite remove_nth_length by auto. simpl in *. lia.
Qed.

Lemma permute_perm : forall A code (l : list A), Permutation (permute code l) l.
Proof. intros. apply permute_fuel_perm. reflexivity. Qed.

Lemma permute_length : forall A code (l : list A), length (permute code l) = length l.
Proof. intros. apply Permutation_length, permute_perm. Qed.

Lemma permute_in : forall A code (l : list A) x, In x (permute code l) <-> In x l.
Proof.
  intros. split; intro H.
  - eapply Permutation_in; [apply permute_perm|exact H].
  - eapply Permutation_in; [apply Permutation_sym, permute_perm|exact H].
Qed.

Lemma all_orders_nonempty : forall n, exists c, In c (all_orders n).
Proof.
  induction n as [|n [c Hc]].
  - exists []. left. reflexivity.
  - exists (O :: c). cbn [all_orders]. apply in_flat_map. exists O. split.
    + apply in_seq. lia.
    + apply in_map. exact Hc.
Qed.

Lemma all_orders_complete_fuel : forall n A fuel (l : list A) c, length l = fuel -> (fuel <= n)%nat ->
  exists c', In c' (all_orders n) /\ permute_fuel fuel c' l = permute_fuel fuel c l.
Proof.
  induction n as [|n IH]; intros A fuel l c Hl Hn.
  - destruct fuel; [|lia]. exists []. split; [left; reflexivity|reflexivity].
  - destruct fuel as [|f].
    + destruct (all_orders_nonempty (S n)) as [c' Hc']. exists c'. split; auto.
    + destruct l as [|x l]; [discriminate|].
      set (i := Nat.modulo (hd O c) (length (x :: l))).
      assert (Hi : (i < length (x :: l))%nat) by (apply Nat.mod_upper_bound; simpl; lia).
      destruct (IH A f (remove_nth i (x :: l)) (tl c)) as [c'' [Hin Heq]].
      { rewrite remove_nth_length by auto. simpl in *. lia. }
      { lia. }
      exists (i :: c''). split.
      * cbn [all_orders]. apply in_flat_map. exists i. split.
        -- apply in_seq. simpl in Hi, Hl. lia.
        -- apply in_map. exact Hin.
      * cbn [permute_fuel hd tl]. fold i.
        replace (Nat.modulo i (length (x :: l))) with i by (symmetry; apply Nat.mod_small; exact Hi).
        rewrite Heq. reflexivity.
Qed.

Lemma all_orders_complete : forall n A (l : list A) c, (length l <= n)%nat ->
  exists c', In c' (all_orders n) /\ permute c' l = permute c l.
Proof. intros. unfold permute. apply all_orders_complete_fuel; auto. Qed.

Lemma remove_nth_app : forall A (l1 l2 : list A) y, remove_nth (length l1) (l1 ++ y :: l2) = l1 ++ l2.
Proof. induction l1 as [|x l1 IH]; intros; simpl; auto. rewrite IH. reflexivity. Qed.

Lemma nth_app_mid : forall A (l1 l2 : list A) y d, nth (length l1) (l1 ++ y :: l2) d = y.
Proof. induction l1 as [|x l1 IH]; intros; simpl; auto. Qed.

Lemma permute_complete_fuel : forall A fuel (l p : list A), length l = fuel -> Permutation l p ->
  exists c, permute_fuel fuel c l = p.
Proof.
  induction fuel as [|f IH]; intros l p Hl Hp.
  - destruct l; [|discriminate]. apply Permutation_nil in Hp. subst. exists []. reflexivity.
  - destruct l as [|x l]; [discriminate|].
    destruct p as [|y p'].
    { apply Permutation_sym, Permutation_nil in Hp. discriminate. }
    assert (Hy : In y (x :: l)).
    { eapply Permutation_in; [apply Permutation_sym; exact Hp|left; reflexivity]. }
    apply in_split in Hy. destruct Hy as [l1 [l2 Hs]].
    assert (Hp' : Permutation (l1 ++ l2) p').
    { apply Permutation_sym. eapply Permutation_cons_app_inv. rewrite <- Hs. apply Permutation_sym. exact Hp. }
    destruct (IH (l1 ++ l2) p') as [c Hc]; auto.
    { assert (length (x :: l) = length (l1 ++ y :: l2)) by (rewrite Hs; reflexivity).
      rewrite app_length in *. simpl in *. lia. }
    exists (length l1 :: c).
    cbn [permute_fuel hd tl].
    assert (Hlt : (length l1 < length (x :: l))%nat).
    { rewrite Hs, app_length. simpl. lia. }
    rewrite (Nat.mod_small _ _ Hlt).
    rewrite Hs. rewrite nth_app_mid, remove_nth_app, Hc. reflexivity.
Qed.

Lemma permute_complete : forall A (l p : list A), Permutation l p -> exists c, permute c l = p.
Proof. intros. unfold permute. apply permute_complete_fuel; auto. Qed.

(* ================================================================== *)
(* 2. permutations and filter                                          *)
(* ================================================================== *)
Lemma Permutation_filter : forall A (f : A -> bool) l l', Permutation l l' ->
  Permutation (filter f l) (filter f l').
Proof.
  intros A f l l' H. induction H; simpl.
  - constructor.
  - destruct (f x); auto.
  - destruct (f x), (f y); auto. apply perm_swap.
  - eapply perm_trans; eauto.
Qed.

Lemma filter_split_perm : forall A (f : A -> bool) l,
  Permutation l (filter f l ++ filter (fun x => negb (f x)) l).
Proof.
  induction l as [|x l IH]; simpl; auto.
  destruct (f x); simpl.
  - constructor. exact IH.
  - apply Permutation_cons_app. exact IH.
Qed.

Lemma filter_all_true : forall A (f : A -> bool) l, (forall x, In x l -> f x = true) -> filter f l = l.
Proof.
  induction l as [|x l IH]; intros H; simpl; auto.
  rewrite (H x) by (left; reflexivity). f_equal. apply IH. intros. apply H. right. auto.
Qed.

Lemma filter_all_false : forall A (f : A -> bool) l, (forall x, In x l -> f x = false) -> filter f l = [].
Proof.
  induction l as [|x l IH]; intros H; simpl; auto.
  rewrite (H x) by (left; reflexivity). apply IH. intros. apply H. right. auto.
Qed.

(* any permutation of the filtered list is the filter of a reordering of the whole list *)
Lemma filter_perm_lift : forall A (f : A -> bool) l p, Permutation p (filter f l) ->
  exists l', Permutation l l' /\ filter f l' = p.
Proof.
  intros A f l p Hp.
  exists (p ++ filter (fun x => negb (f x)) l). split.
  - eapply perm_trans; [apply (filter_split_perm _ f l)|].
    apply Permutation_app_tail. apply Permutation_sym. exact Hp.
  - rewrite filter_app. rewrite (filter_all_true _ f p).
    + rewrite (filter_all_false _ f). { apply app_nil_r. }
      intros x Hx. apply filter_In in Hx. destruct Hx as [_ Hx]. destruct (f x); simpl in *; congruence.
    + intros x Hx. eapply Permutation_in in Hx; [|exact Hp]. apply filter_In in Hx. tauto.
Qed.

(* ================================================================== *)
(* 3. the weighted shuffle of PickNodesByWeight                        *)
(* ================================================================== *)
Section PickProofs.
  Context {A : Type}.
  Variable avail : A -> Z.

  Definition wsum (cw : list (A * Z)) : Z := fold_right (fun e s => snd e + s) 0 cw.
  Definition pos (cw : list (A * Z)) : list A := map fst (filter (fun e => 0 <? snd e) cw).

  Lemma wsum_app : forall a b, wsum (a ++ b) = wsum a + wsum b.
  Proof. induction a as [|e a IH]; intros; simpl; auto. rewrite IH. lia. Qed.

  Lemma pos_app : forall a b, pos (a ++ b) = pos a ++ pos b.
  Proof. intros. unfold pos. rewrite filter_app, map_app. reflexivity. Qed.

  Lemma wsum_nonneg : forall cw, (forall e, In e cw -> 0 <= snd e) -> 0 <= wsum cw.
  Proof.
    induction cw as [|e cw IH]; intros H; simpl; [lia|].
    assert (0 <= snd e) by (apply H; left; reflexivity).
    assert (0 <= wsum cw) by (apply IH; intros; apply H; right; auto). lia.
  Qed.

  Lemma wsum_pos : forall cw, (forall e, In e cw -> 0 <= snd e) -> pos cw <> [] -> 0 < wsum cw.
  Proof.
    induction cw as [|e cw IH]; intros H Hp; [exfalso; apply Hp; reflexivity|].
    assert (He : 0 <= snd e) by (apply H; left; reflexivity).
    assert (Hr : 0 <= wsum cw) by (apply wsum_nonneg; intros; apply H; right; auto).
    simpl. unfold pos in Hp. simpl in Hp.
    destruct (0 <? snd e) eqn:E.
    - apply Z.ltb_lt in E. lia.
    - assert (0 < wsum cw); [|lia]. apply IH; [intros; apply H; right; auto|exact Hp].
  Qed.

  Lemma draw_spec : forall cw r last,
    (forall e, In e cw -> 0 <= snd e) -> last <= r < last + wsum cw ->
    exists pre c w post, cw = pre ++ (c, w) :: post /\ 0 < w /\
                         draw r last cw = Some (c, w, pre ++ (c, 0) :: post).
  Proof.
    induction cw as [|[c w] cw IH]; intros r last Hnn Hr.
    - simpl in Hr. lia.
    - cbn [draw].
      destruct ((last <=? r) && (r <? last + w)) eqn:E.
      + apply andb_prop in E. destruct E as [E1 E2]. apply Z.leb_le in E1. apply Z.ltb_lt in E2.
        exists [], c, w, cw. repeat split; auto. lia.
      + assert (Hge : last + w <= r).
        { apply andb_false_iff in E. destruct E as [E|E].
          - apply Z.leb_gt in E. lia.
          - apply Z.ltb_ge in E. exact E. }
        destruct (IH r (last + w)) as [pre [c' [w' [post [Hs [Hw Hd]]]]]].
        { intros. apply Hnn. right. auto. }
        { simpl in Hr. lia. }
        exists ((c, w) :: pre), c', w', post. repeat split; auto.
        * simpl. rewrite Hs. reflexivity.
        * rewrite Hd. reflexivity.
  Qed.

  Lemma shuffle_perm : forall n rs total cw,
    (forall e, In e cw -> 0 <= snd e) -> total = wsum cw -> n = length (pos cw) ->
    Permutation (shuffle n rs total cw) (pos cw).
  Proof.
    induction n as [|n IH]; intros rs total cw Hnn Ht Hn.
    - simpl. destruct (pos cw); [constructor|discriminate].
    - cbn [shuffle].
      assert (Hp : 0 < wsum cw).
      { apply wsum_pos; auto. intro E. rewrite E in Hn. discriminate. }
      assert (Hr : 0 <= Z.modulo (hd 0 rs) total < 0 + wsum cw).
      { subst total. pose proof (Z.mod_pos_bound (hd 0 rs) (wsum cw) Hp). lia. }
      destruct (draw_spec cw _ 0 Hnn Hr) as [pre [c [w [post [Hs [Hw Hd]]]]]].
      rewrite Hd.
      assert (Hpos : pos cw = pos pre ++ c :: pos post).
      { rewrite Hs, pos_app. f_equal. unfold pos. simpl.
        assert (E : (0 <? w) = true) by (apply Z.ltb_lt; exact Hw). rewrite E. reflexivity. }
      assert (Hpos' : pos (pre ++ (c, 0) :: post) = pos pre ++ pos post).
      { rewrite pos_app. f_equal. }
      rewrite Hpos. apply Permutation_cons_app. rewrite <- Hpos'.
      apply IH.
      + intros e He. apply in_app_or in He. destruct He as [He|[He|He]].
        * apply Hnn. rewrite Hs. apply in_or_app. left. exact He.
        * subst e. simpl. lia.
        * apply Hnn. rewrite Hs. apply in_or_app. right. right. exact He.
      + subst total. rewrite Hs. rewrite !wsum_app. simpl. lia.
      + rewrite Hpos'. rewrite Hpos in Hn. rewrite app_length in *. simpl in Hn. lia.
  Qed.

  Lemma draw_zeros : forall (zs : list (A * Z)) (c : A) w rest, (forall e, In e zs -> snd e = 0) -> 0 < w ->
    draw 0 0 (zs ++ (c, w) :: rest) = Some (c, w, zs ++ (c, 0) :: rest).
  Proof.
    induction zs as [|[z wz] zs IH]; intros c w rest Hz Hw.
    - cbn [app draw]. assert (E : (0 <=? 0) && (0 <? 0 + w) = true).
      { apply andb_true_intro. split; [reflexivity|apply Z.ltb_lt; lia]. }
      rewrite E. reflexivity.
    - assert (wz = 0) by (apply (Hz (z, wz)); left; reflexivity). subst wz.
      cbn [app draw]. cbn [Z.leb Z.ltb Z.add Z.compare andb].
      rewrite IH; auto. intros. apply Hz. right. auto.
  Qed.

  (* with all random draws equal to 0 the candidates come out in their own order *)
  Lemma shuffle_zeros : forall (rest zs : list (A * Z)), (forall e, In e zs -> snd e = 0) -> (forall e, In e rest -> 0 < snd e) ->
    shuffle (length rest) [] (wsum rest) (zs ++ rest) = map fst rest.
  Proof.
    induction rest as [|[c w] rest IH]; intros zs Hz Hr.
    - reflexivity.
    - cbn [length shuffle hd tl]. rewrite Zmod_0_l.
      assert (Hw : 0 < w) by (apply (Hr (c, w)); left; reflexivity).
      rewrite draw_zeros by auto.
      cbn [map fst]. f_equal.
      replace (wsum ((c, w) :: rest) - w) with (wsum rest) by (simpl; lia).
      replace (zs ++ (c, 0) :: rest) with ((zs ++ [(c, 0)]) ++ rest) by (rewrite <- app_assoc; reflexivity).
      apply IH.
      + intros e He. apply in_app_or in He. destruct He as [He|[He|[]]]; [apply Hz; auto|subst; reflexivity].
      + intros. apply Hr. right. auto.
  Qed.

  Definition weighted (l : list A) : list (A * Z) := map (fun c => (c, avail c)) l.

  Lemma pos_weighted : forall l, (forall c, In c l -> 0 < avail c) -> pos (weighted l) = l.
  Proof.
    induction l as [|c l IH]; intros H; auto.
    unfold pos, weighted in *. simpl.
    assert (E : (0 <? avail c) = true) by (apply Z.ltb_lt; apply H; left; reflexivity).
    rewrite E. simpl. f_equal. apply IH. intros. apply H. right. auto.
  Qed.

  Lemma wsum_weighted : forall l, wsum (weighted l) = sum_weights avail l.
  Proof. induction l as [|c l IH]; simpl; auto. rewrite IH. reflexivity. Qed.

  Lemma candidates_spec : forall order children c,
    In c (candidates avail order children) <-> In c children /\ 0 < avail c.
  Proof.
    intros. unfold candidates. rewrite filter_In, permute_in, Z.ltb_lt. tauto.
  Qed.

  Lemma sorted_candidates_perm : forall order rs children,
    Permutation (sorted_candidates avail order rs children) (candidates avail order children).
  Proof.
    intros. unfold sorted_candidates.
    set (cands := candidates avail order children).
    assert (Hc : forall c, In c cands -> 0 < avail c) by (intros c Hc; apply candidates_spec in Hc; tauto).
    assert (Hq : Permutation (shuffle (length cands) rs (sum_weights avail cands) (weighted cands))
                             (pos (weighted cands))).
    { apply shuffle_perm.
      - intros e He. unfold weighted in He. apply in_map_iff in He. destruct He as [c [E Hin]]. subst e. simpl.
        specialize (Hc c Hin). lia.
      - symmetry. apply wsum_weighted.
      - rewrite pos_weighted by auto. reflexivity. }
    rewrite pos_weighted in Hq by auto. exact Hq.
  Qed.

  Lemma sorted_candidates_zeros : forall order children,
    sorted_candidates avail order [] children = candidates avail order children.
  Proof.
    intros. unfold sorted_candidates.
    set (cands := candidates avail order children).
    assert (Hc : forall c, In c cands -> 0 < avail c) by (intros c Hc; apply candidates_spec in Hc; tauto).
    rewrite <- wsum_weighted.
    replace (length cands) with (length (weighted cands)) by (unfold weighted; apply map_length).
    change (map (fun c => (c, avail c)) cands) with ([] ++ weighted cands).
    rewrite shuffle_zeros.
    - unfold weighted. rewrite map_map. simpl. apply map_id.
    - intros e [].
    - intros e He. unfold weighted in He. apply in_map_iff in He. destruct He as [c [E Hin]]. subst e. simpl. auto.
  Qed.

  (* every (map order, random numbers) pair is equivalent to a map order from [all_orders]
     with all random numbers 0 *)
  Lemma sorted_candidates_normal : forall order rs children,
    exists order', In order' (all_orders (length children)) /\
      candidates avail order' children = sorted_candidates avail order rs children.
  Proof.
    intros order rs children.
    pose proof (sorted_candidates_perm order rs children) as Hp.
    assert (Hp2 : Permutation (sorted_candidates avail order rs children)
                              (filter (fun c => 0 <? avail c) children)).
    { eapply perm_trans; [exact Hp|]. unfold candidates. apply Permutation_filter. apply permute_perm. }
    destruct (filter_perm_lift _ _ _ _ Hp2) as [l' [Hl' Hf]].
    destruct (permute_complete _ _ _ Hl') as [c0 Hc0].
    destruct (all_orders_complete (length children) _ children c0 (le_n _)) as [c' [Hin Heq]].
    exists c'. split; auto. unfold candidates. rewrite Heq, Hc0. exact Hf.
  Qed.

  Lemma pick_nodes_normal : forall order rs number filt children,
    exists order', In order' (all_orders (length children)) /\
      pick_nodes avail order rs number filt children = pick_nodes avail order' [] number filt children.
  Proof.
    intros.
    destruct (sorted_candidates_normal order rs children) as [order' [Hin Heq]].
    exists order'. split; auto.
    unfold pick_nodes.
    rewrite sorted_candidates_zeros. rewrite Heq.
    replace (length (candidates avail order children))
      with (length (sorted_candidates avail order rs children)).
    - reflexivity.
    - apply Permutation_length. apply sorted_candidates_perm.
  Qed.

  (* ---------- what PickNodesByWeight returns ---------- *)
  Lemma first_passing_spec : forall (filt : A -> bool) l k0 k x, first_passing filt l k0 = Some (k, x) ->
    exists pre post, l = pre ++ x :: post /\ k = (k0 + length pre)%nat /\ filt x = true.
  Proof.
    induction l as [|y l IH]; intros k0 k x H; simpl in H; [discriminate|].
    destruct (filt y) eqn:E.
    - inversion H; subst. exists [], l. repeat split; auto; simpl; lia.
    - destruct (IH _ _ _ H) as [pre [post [Hs [Hk Hf]]]].
      exists (y :: pre), post. split; [|split]; auto.
      + simpl. rewrite Hs. reflexivity.
      + simpl. lia.
  Qed.

  Lemma firstn_app_l : forall (l1 l2 : list A) n, (n <= length l1)%nat -> firstn n (l1 ++ l2) = firstn n l1.
  Proof.
    intros. rewrite firstn_app. replace (n - length l1)%nat with O by lia. simpl. apply app_nil_r.
  Qed.

  Lemma rest_form : forall (pre post : list A) x number, (number <= length (pre ++ x :: post))%nat ->
    (if Nat.leb (number - 1) (length pre) then firstn (number - 1) (pre ++ x :: post)
     else firstn (length pre) (pre ++ x :: post) ++ skipn (S (length pre)) (firstn number (pre ++ x :: post)))
    = if Nat.leb (number - 1) (length pre) then firstn (number - 1) pre
      else pre ++ firstn (number - 1 - length pre) post.
  Proof.
    intros pre post x number Hn.
    destruct (Nat.leb (number - 1) (length pre)) eqn:E.
    - apply Nat.leb_le in E. apply firstn_app_l. exact E.
    - apply Nat.leb_gt in E.
      rewrite firstn_app_l by lia. rewrite firstn_all. f_equal.
      rewrite firstn_app. rewrite (firstn_all2 pre) by lia.
      replace (number - length pre)%nat with (S (number - 1 - length pre)) by lia.
      cbn [firstn].
      replace (S (length pre)) with (length (pre ++ [x])) by (rewrite app_length; simpl; lia).
      replace (pre ++ x :: firstn (number - 1 - length pre) post)
        with ((pre ++ [x]) ++ firstn (number - 1 - length pre) post) by (rewrite <- app_assoc; reflexivity).
      rewrite skipn_app. rewrite skipn_all. rewrite Nat.sub_diag. reflexivity.
  Qed.

  Lemma firstn_incl' : forall (l : list A) n x, In x (firstn n l) -> In x l.
  Proof.
    induction l as [|y l IH]; intros n x H; destruct n; simpl in *; try tauto.
    destruct H as [H|H]; [left; auto|right; eapply IH; eauto].
  Qed.

  Lemma skipn_incl' : forall (l : list A) n x, In x (skipn n l) -> In x l.
  Proof.
    induction l as [|y l IH]; intros n x H; destruct n; simpl in *; try tauto.
    right. eapply IH; eauto.
  Qed.

  Lemma NoDup_firstn : forall (l : list A) n, NoDup l -> NoDup (firstn n l).
  Proof.
    induction l as [|x l IH]; intros n H; destruct n; simpl; try constructor.
    - inversion H; subst. intro Hin. apply H2. eapply firstn_incl'; eauto.
    - inversion H; subst. apply IH; auto.
  Qed.

  Lemma NoDup_app_firstn : forall (l1 l2 : list A) n, NoDup (l1 ++ l2) -> NoDup (l1 ++ firstn n l2).
  Proof.
    induction l1 as [|x l1 IH]; intros l2 n H; simpl in *.
    - apply NoDup_firstn; auto.
    - inversion H; subst. constructor.
      + intro Hin. apply H2. apply in_app_or in Hin. apply in_or_app.
        destruct Hin as [Hin|Hin]; [left; auto|right; eapply firstn_incl'; eauto].
      + apply IH; auto.
  Qed.

  Lemma NoDup_app_l : forall (l1 l2 : list A), NoDup (l1 ++ l2) -> NoDup l1.
  Proof.
    induction l1 as [|x l1 IH]; intros l2 H; [constructor|].
    simpl in H. inversion H; subst. constructor.
    - intro Hin. apply H2. apply in_or_app. left. exact Hin.
    - eapply IH; eauto.
  Qed.

  Theorem pick_nodes_ok : forall order rs number filt children first rest,
    NoDup children -> (1 <= number)%nat ->
    pick_nodes avail order rs number filt children = Some (first, rest) ->
    filt first = true /\ NoDup (first :: rest) /\ length rest = (number - 1)%nat /\
    (forall c, In c (first :: rest) -> In c children /\ 0 < avail c).
  Proof.
    intros order rs number filt children first rest Hnd Hnum H.
    unfold pick_nodes in H.
    destruct (Nat.ltb (length (candidates avail order children)) number) eqn:El; [discriminate|].
    apply Nat.ltb_ge in El.
    set (sorted := sorted_candidates avail order rs children) in *.
    assert (Hperm : Permutation sorted (candidates avail order children)) by apply sorted_candidates_perm.
    assert (Hlen : (number <= length sorted)%nat) by (rewrite (Permutation_length Hperm); exact El).
    destruct (first_passing filt sorted 0) as [[k x]|] eqn:Ef; [|discriminate].
    destruct (first_passing_spec _ _ _ _ _ Ef) as [pre [post [Hs [Hk Hfx]]]].
    simpl in Hk. subst k.
    injection H as H1 H2. subst first rest.
    assert (Hnds : NoDup sorted).
    { eapply Permutation_NoDup; [apply Permutation_sym; exact Hperm|].
      unfold candidates. apply NoDup_filter.
      eapply Permutation_NoDup; [apply Permutation_sym, permute_perm|exact Hnd]. }
    assert (Hin : forall c, In c sorted -> In c children /\ 0 < avail c).
    { intros c Hc. eapply Permutation_in in Hc; [|exact Hperm]. apply candidates_spec in Hc. exact Hc. }
    rewrite Hs in Hlen.
    rewrite Hs.
    change (match firstn number (pre ++ x :: post) with [] => [] | _ :: l => skipn (length pre) l end)
      with (skipn (S (length pre)) (firstn number (pre ++ x :: post))).
    rewrite (rest_form pre post x number Hlen).
    rewrite Hs in Hnds.
    pose proof (NoDup_remove_1 _ _ _ Hnds) as Hnd1.
    pose proof (NoDup_remove_2 _ _ _ Hnds) as Hnd2.
    assert (Hsub : forall c, In c (if Nat.leb (number - 1) (length pre) then firstn (number - 1) pre
                                   else pre ++ firstn (number - 1 - length pre) post) -> In c (pre ++ post)).
    { intros c Hc. destruct (Nat.leb (number - 1) (length pre)).
      - apply in_or_app. left. eapply firstn_incl'; eauto.
      - apply in_app_or in Hc. apply in_or_app. destruct Hc as [Hc|Hc]; [left; auto|right; eapply firstn_incl'; eauto]. }
    split; [exact Hfx|]. split; [|split].
    - constructor.
      + intro Hc. apply Hnd2. apply Hsub. exact Hc.
      + destruct (Nat.leb (number - 1) (length pre)).
        * apply NoDup_firstn. eapply NoDup_app_l. exact Hnd1.
        * apply NoDup_app_firstn. exact Hnd1.
    - destruct (Nat.leb (number - 1) (length pre)) eqn:E.
      + apply Nat.leb_le in E. rewrite firstn_length. lia.
      + apply Nat.leb_gt in E. rewrite app_length, firstn_length.
        rewrite app_length in Hlen. simpl in Hlen. lia.
    - intros c [Hc|Hc].
      + subst c. apply Hin. rewrite Hs. apply in_or_app. right. left. reflexivity.
      + apply Hsub in Hc. apply Hin. rewrite Hs. apply in_app_or in Hc. apply in_or_app.
        destruct Hc; [left|right; right]; auto.
  Qed.

  (* the part that does not need distinct children *)
  Lemma pick_nodes_members : forall order rs number filt children first rest,
    pick_nodes avail order rs number filt children = Some (first, rest) ->
    forall c, In c (first :: rest) -> In c children /\ 0 < avail c.
  Proof.
    intros order rs number filt children first rest H.
    unfold pick_nodes in H.
    destruct (Nat.ltb (length (candidates avail order children)) number); [discriminate|].
    set (sorted := sorted_candidates avail order rs children) in *.
    assert (Hperm : Permutation sorted (candidates avail order children)) by apply sorted_candidates_perm.
    assert (Hin : forall c, In c sorted -> In c children /\ 0 < avail c).
    { intros c Hc. eapply Permutation_in in Hc; [|exact Hperm]. apply candidates_spec in Hc. exact Hc. }
    destruct (first_passing filt sorted 0) as [[k x]|] eqn:Ef; [|discriminate].
    destruct (first_passing_spec _ _ _ _ _ Ef) as [pre [post [Hs [Hk Hfx]]]].
    injection H as H1 H2. subst first rest.
    intros c [Hc|Hc].
    - subst c. apply Hin. rewrite Hs. apply in_or_app. right. left. reflexivity.
    - apply Hin. destruct (Nat.leb (number - 1) k).
      + eapply firstn_incl'; eauto.
      + apply in_app_or in Hc. destruct Hc as [Hc|Hc].
        * eapply firstn_incl'; eauto.
        * apply (firstn_incl' _ number). apply (skipn_incl' _ (S k)). exact Hc.
  Qed.
End PickProofs.

(* ================================================================== *)
(* 4. ReserveOneVolume                                                 *)
(* ================================================================== *)
Lemma reserve_in_rack_ok : forall o nodes r n, reserve_in_rack o r nodes = Some n ->
  In n nodes /\ 0 < avail_node o n.
Proof.
  induction nodes as [|m ns IH]; intros r n H; cbn [reserve_in_rack] in H; [discriminate|].
  destruct (avail_node o m <=? 0) eqn:E1.
  - destruct (IH _ _ H). split; [right|]; auto.
  - destruct (avail_node o m <=? r) eqn:E2.
    + destruct (IH _ _ H). split; [right|]; auto.
    + injection H as H. subst. split; [left; auto|]. apply Z.leb_gt in E1. exact E1.
Qed.

Lemma reserve_in_dc_ok : forall o racks r orders rk n, reserve_in_dc o r racks orders = Some (rk, n) ->
  In rk racks /\ In n (r_nodes rk) /\ 0 < avail_node o n.
Proof.
  induction racks as [|k rs IH]; intros r orders rk n H; cbn [reserve_in_dc] in H; [discriminate|].
  destruct (avail_rack o k <=? 0) eqn:E1.
  - destruct (IH _ _ _ _ H) as [H1 H2]. split; [right|]; auto.
  - destruct (avail_rack o k <=? r) eqn:E2.
    + destruct (IH _ _ _ _ H) as [H1 H2]. split; [right|]; auto.
    + destruct (reserve_in_rack o r (permute (hd [] orders) (r_nodes k))) as [m|] eqn:E3.
      * injection H as H1 H2. subst. apply reserve_in_rack_ok in E3. destruct E3 as [E3 E4].
        apply permute_in in E3. split; [left; auto|]. split; auto.
      * destruct (IH _ _ _ _ H) as [H1 H2]. split; [right|]; auto.
Qed.

Lemma reserve_racks_ok : forall o dc racks acc os ss,
  reserve_racks o dc acc racks os = (ss, false) ->
  exists ext, ss = acc ++ ext /\
    Forall2 (fun rk s => exists n, s = srv dc rk n /\ In n (r_nodes rk) /\ 0 < avail_node o n) racks ext.
Proof.
  induction racks as [|rk rest IH]; intros acc os ss H; cbn [reserve_racks] in H.
  - injection H as H. subst. exists []. split; [rewrite app_nil_r; reflexivity|constructor].
  - destruct (reserve_in_rack o _ _) as [n|] eqn:E; [|discriminate].
    destruct (IH _ _ _ H) as [ext [Hs Hf]].
    apply reserve_in_rack_ok in E. destruct E as [E1 E2]. apply permute_in in E1.
    exists (srv dc rk n :: ext). split.
    + rewrite Hs, <- app_assoc. reflexivity.
    + constructor; auto. exists n. auto.
Qed.

Lemma reserve_dcs_ok : forall o dcs acc os ss,
  reserve_dcs o acc dcs os = (ss, false) ->
  exists ext, ss = acc ++ ext /\
    Forall2 (fun dc s => exists rk n, s = srv dc rk n /\ In rk (d_racks dc) /\ In n (r_nodes rk) /\
                                      0 < avail_node o n) dcs ext.
Proof.
  induction dcs as [|dc rest IH]; intros acc os ss H; cbn [reserve_dcs] in H.
  - injection H as H. subst. exists []. split; [rewrite app_nil_r; reflexivity|constructor].
  - destruct (reserve_in_dc o _ _ _) as [[rk n]|] eqn:E; [|discriminate].
    destruct (IH _ _ _ H) as [ext [Hs Hf]].
    apply reserve_in_dc_ok in E. destruct E as [E1 [E2 E3]]. apply permute_in in E1.
    exists (srv dc rk n :: ext). split.
    + rewrite Hs, <- app_assoc. reflexivity.
    + constructor; auto. exists rk, n. auto.
Qed.

(* ================================================================== *)
(* 5. boolean predicates                                               *)
(* ================================================================== *)
Lemma server_eqb_eq : forall a b, server_eqb a b = true <-> a = b.
Proof.
  intros [[a1 a2] a3] [[b1 b2] b3]. unfold server_eqb. rewrite !andb_true_iff, !String.eqb_eq.
  split; [intros [[? ?] ?]; subst; reflexivity|intro H; inversion H; auto].
Qed.

Lemma nodupb_sound : forall A (eqb : A -> A -> bool), (forall x y, eqb x y = true <-> x = y) ->
  forall l, nodupb eqb l = true -> NoDup l.
Proof.
  intros A eqb He. induction l as [|x l IH]; intro H; [constructor|].
  simpl in H. apply andb_prop in H. destruct H as [H1 H2]. constructor; auto.
  intro Hin. apply negb_true_iff in H1.
  assert (existsb (eqb x) l = true); [|congruence].
  apply existsb_exists. exists x. split; auto. apply He. reflexivity.
Qed.

Lemma nodupb_complete : forall A (eqb : A -> A -> bool), (forall x y, eqb x y = true <-> x = y) ->
  forall l, NoDup l -> nodupb eqb l = true.
Proof.
  intros A eqb He. induction l as [|x l IH]; intro H; [reflexivity|].
  inversion H; subst. simpl. apply andb_true_intro. split; auto.
  apply negb_true_iff. destruct (existsb (eqb x) l) eqn:E; auto.
  apply existsb_exists in E. destruct E as [y [Hy Hxy]]. apply He in Hxy. subst. contradiction.
Qed.

Lemma NoDup_app_intro : forall A (l1 l2 : list A), NoDup l1 -> NoDup l2 ->
  (forall x, In x l1 -> ~ In x l2) -> NoDup (l1 ++ l2).
Proof.
  induction l1 as [|x l1 IH]; intros l2 H1 H2 Hd; simpl; auto.
  inversion H1; subst. constructor.
  - intro Hin. apply in_app_or in Hin. destruct Hin as [Hin|Hin]; [contradiction|].
    apply (Hd x); [left; reflexivity|exact Hin].
  - apply IH; auto. intros y Hy. apply Hd. right. exact Hy.
Qed.

Lemma map_inj_on : forall A B (f : A -> B) l a b, NoDup (map f l) -> In a l -> In b l -> f a = f b -> a = b.
Proof.
  induction l as [|x l IH]; intros a b Hnd Ha Hb Hf; [contradiction|].
  simpl in Hnd. inversion Hnd; subst.
  destruct Ha as [Ha|Ha], Hb as [Hb|Hb]; subst; auto.
  - exfalso. apply H1. rewrite Hf. apply in_map. exact Hb.
  - exfalso. apply H1. rewrite <- Hf. apply in_map. exact Ha.
Qed.

Lemma NoDup_map_sub : forall A B (f : A -> B) l l', NoDup (map f l) -> NoDup l' -> incl l' l -> NoDup (map f l').
Proof.
  induction l' as [|x l' IH]; intros Hnd Hnd' Hi; simpl; [constructor|].
  inversion Hnd'; subst. constructor.
  - intro Hin. apply in_map_iff in Hin. destruct Hin as [y [Hy Hin]].
    assert (y = x).
    { eapply map_inj_on; eauto; apply Hi; [right; exact Hin|left; reflexivity]. }
    subst. contradiction.
  - apply IH; auto. intros y Hy. apply Hi. right. exact Hy.
Qed.

(* ================================================================== *)
(* 6. the placement rule holds for every result returned without error *)
(* ================================================================== *)
Lemma has_free_slot_intro : forall t o dc rk n,
  In dc (t_dcs t) -> In rk (d_racks dc) -> In n (r_nodes rk) -> 0 < avail_node o n ->
  has_free_slot t o (srv dc rk n) = true.
Proof.
  intros t o dc rk n H1 H2 H3 H4. unfold has_free_slot, srv, s_dc, s_rack, s_node. simpl.
  apply existsb_exists. exists dc. split; auto. rewrite String.eqb_refl. simpl.
  apply existsb_exists. exists rk. split; auto. rewrite String.eqb_refl. simpl.
  apply existsb_exists. exists n. split; auto. rewrite String.eqb_refl. simpl.
  apply Z.leb_le. lia.
Qed.

Lemma placement_from_parts : forall t o D R base extR extD m,
  (forall s, In s (base ++ extR ++ extD) -> has_free_slot t o s = true) ->
  NoDup base ->
  (forall s, In s base -> s_dc s = D /\ s_rack s = R) ->
  (forall s, In s extR -> s_dc s = D /\ s_rack s <> R) -> NoDup (map s_rack extR) ->
  (forall s, In s extD -> s_dc s <> D) -> NoDup (map s_dc extD) ->
  In m base ->
  pref_ok (go_dc o) (s_dc m) = true -> pref_ok (go_rack o) (s_rack m) = true ->
  pref_ok (go_node o) (s_node m) = true ->
  length base = (rp_same o + 1)%nat -> length extR = rp_rack o -> length extD = rp_dc o ->
  placement_ok t o (base ++ extR ++ extD) = true.
Proof.
  intros t o D R base extR extD m Hfree Hndb Hb Hr Hndr Hd Hndd Hm P1 P2 P3 L1 L2 L3.
  destruct (Hb m Hm) as [HmD HmR].
  unfold placement_ok. repeat (apply andb_true_intro; split).
  - apply Nat.eqb_eq. rewrite !app_length. lia.
  - apply nodupb_complete; [apply server_eqb_eq|].
    apply NoDup_app_intro; auto.
    + apply NoDup_app_intro.
      * eapply NoDup_map_inv. exact Hndr.
      * eapply NoDup_map_inv. exact Hndd.
      * intros x Hx Hx'. destruct (Hr x Hx) as [E _]. apply (Hd x Hx'). exact E.
    + intros x Hx Hx'. destruct (Hb x Hx) as [E1 E2]. apply in_app_or in Hx'. destruct Hx' as [Hx'|Hx'].
      * destruct (Hr x Hx') as [_ E]. contradiction.
      * apply (Hd x Hx'). exact E1.
  - apply forallb_forall. exact Hfree.
  - apply existsb_exists. exists m. split; [apply in_or_app; left; exact Hm|].
    unfold shape_ok. rewrite HmD, HmR.
    assert (Fsame : filter (fun s => String.eqb (s_dc s) D && String.eqb (s_rack s) R) (base ++ extR ++ extD) = base).
    { rewrite !filter_app. rewrite (filter_all_true _ _ base).
      - rewrite (filter_all_false _ _ extR), (filter_all_false _ _ extD); [rewrite !app_nil_r; reflexivity| |].
        + intros x Hx. apply andb_false_iff. left. apply String.eqb_neq. apply Hd. exact Hx.
        + intros x Hx. apply andb_false_iff. right. apply String.eqb_neq. apply Hr. exact Hx.
      - intros x Hx. destruct (Hb x Hx) as [E1 E2]. rewrite E1, E2, !String.eqb_refl. reflexivity. }
    assert (Frack : filter (fun s => String.eqb (s_dc s) D && negb (String.eqb (s_rack s) R)) (base ++ extR ++ extD) = extR).
    { rewrite !filter_app. rewrite (filter_all_false _ _ base).
      - rewrite (filter_all_true _ _ extR), (filter_all_false _ _ extD); [rewrite app_nil_r; reflexivity| |].
        + intros x Hx. apply andb_false_iff. left. apply String.eqb_neq. apply Hd. exact Hx.
        + intros x Hx. destruct (Hr x Hx) as [E1 E2]. rewrite E1, String.eqb_refl. simpl.
          apply negb_true_iff. apply String.eqb_neq. exact E2.
      - intros x Hx. destruct (Hb x Hx) as [E1 E2]. rewrite E2, !String.eqb_refl. apply andb_false_r. }
    assert (Fdc : filter (fun s => negb (String.eqb (s_dc s) D)) (base ++ extR ++ extD) = extD).
    { rewrite !filter_app. rewrite (filter_all_false _ _ base), (filter_all_false _ _ extR), (filter_all_true _ _ extD); auto.
      - intros x Hx. apply negb_true_iff. apply String.eqb_neq. apply Hd. exact Hx.
      - intros x Hx. destruct (Hr x Hx) as [E1 _]. rewrite E1, String.eqb_refl. reflexivity.
      - intros x Hx. destruct (Hb x Hx) as [E1 _]. rewrite E1, String.eqb_refl. reflexivity. }
    rewrite Fsame, Frack, Fdc.
    rewrite <- HmD, <- HmR, P1, P2, P3. simpl.
    rewrite L1, L2, L3, !Nat.eqb_refl. simpl.
    rewrite (nodupb_complete _ String.eqb String.eqb_eq _ Hndr).
    rewrite (nodupb_complete _ String.eqb String.eqb_eq _ Hndd). reflexivity.
Qed.

Lemma wf_topology_spec : forall t, wf_topology t = true ->
  NoDup (map d_id (t_dcs t)) /\
  (forall dc, In dc (t_dcs t) -> NoDup (map r_id (d_racks dc)) /\
     forall rk, In rk (d_racks dc) -> NoDup (map n_id (r_nodes rk))).
Proof.
  intros t H. unfold wf_topology in H. apply andb_prop in H. destruct H as [H1 H2].
  split; [apply (nodupb_sound _ String.eqb String.eqb_eq); exact H1|].
  intros dc Hdc. rewrite forallb_forall in H2. specialize (H2 dc Hdc).
  apply andb_prop in H2. destruct H2 as [H2 H3].
  split; [apply (nodupb_sound _ String.eqb String.eqb_eq); exact H2|].
  intros rk Hrk. rewrite forallb_forall in H3. apply (nodupb_sound _ String.eqb String.eqb_eq). apply H3. exact Hrk.
Qed.

Lemma Forall2_in_r : forall A B (P : A -> B -> Prop) l1 l2 y, Forall2 P l1 l2 -> In y l2 ->
  exists x, In x l1 /\ P x y.
Proof.
  intros A B P l1 l2 y H. induction H; intro Hin; [contradiction|].
  destruct Hin as [Hin|Hin].
  - subst. exists x. split; [left; reflexivity|assumption].
  - destruct (IHForall2 Hin) as [x' [H1 H2]]. exists x'. split; [right|]; auto.
Qed.

Lemma Forall2_len : forall A B (P : A -> B -> Prop) l1 l2, Forall2 P l1 l2 -> length l1 = length l2.
Proof. intros A B P l1 l2 H. induction H; simpl; auto. Qed.

Lemma Forall2_map_eq : forall A B C (f : A -> C) (g : B -> C) (P : A -> B -> Prop) l1 l2,
  Forall2 P l1 l2 -> (forall x y, P x y -> f x = g y) -> map f l1 = map g l2.
Proof.
  intros A B C f g P l1 l2 H Hfg. induction H; simpl; auto. f_equal; auto.
Qed.

Lemma pref_filter_dc : forall o dc, dc_filter o dc = true -> pref_ok (go_dc o) (d_id dc) = true.
Proof. intros o dc H. unfold dc_filter in H. destruct (pref_ok (go_dc o) (d_id dc)); [reflexivity|discriminate]. Qed.
Lemma pref_filter_rack : forall o rk, rack_filter o rk = true -> pref_ok (go_rack o) (r_id rk) = true.
Proof. intros o rk H. unfold rack_filter in H. destruct (pref_ok (go_rack o) (r_id rk)); [reflexivity|discriminate]. Qed.
Lemma pref_filter_node : forall o n, node_filter o n = true -> pref_ok (go_node o) (n_id n) = true.
Proof. intros o n H. unfold node_filter in H. destruct (pref_ok (go_node o) (n_id n)); [reflexivity|discriminate]. Qed.

Theorem find_empty_slots_placement : forall orc t o ss,
  wf_topology t = true -> find_empty_slots orc t o = (ss, false) -> placement_ok t o ss = true.
Proof.
  intros orc t o ss Hwf H.
  destruct (wf_topology_spec t Hwf) as [Wd Wr].
  unfold find_empty_slots in H.
  destruct (pick_nodes (avail_dc o) _ _ _ _ (t_dcs t)) as [[mdc odcs]|] eqn:Pd; [|discriminate].
  destruct (pick_nodes (avail_rack o) _ _ _ _ (d_racks mdc)) as [[mrk orks]|] eqn:Pr; [|discriminate].
  destruct (pick_nodes (avail_node o) _ _ _ _ (r_nodes mrk)) as [[mn ons]|] eqn:Pn; [|discriminate].
  apply pick_nodes_ok in Pd; [|eapply NoDup_map_inv; exact Wd|lia].
  destruct Pd as [Fd [Nd [Ld Md]]].
  assert (Hmdc : In mdc (t_dcs t)) by (apply Md; left; reflexivity).
  destruct (Wr mdc Hmdc) as [Wr1 Wn].
  apply pick_nodes_ok in Pr; [|eapply NoDup_map_inv; exact Wr1|lia].
  destruct Pr as [Fr [Nr [Lr Mr]]].
  assert (Hmrk : In mrk (d_racks mdc)) by (apply Mr; left; reflexivity).
  pose proof (Wn mrk Hmrk) as Wn1.
  apply pick_nodes_ok in Pn; [|eapply NoDup_map_inv; exact Wn1|lia].
  destruct Pn as [Fn [Nn [Ln Mn]]].
  destruct (reserve_racks o mdc _ orks _) as [ss1 e1] eqn:RR.
  destruct e1; [discriminate|].
  apply reserve_racks_ok in RR. destruct RR as [extR [Hs1 FR]].
  apply reserve_dcs_ok in H. destruct H as [extD [Hs FD]].
  subst ss1 ss. rewrite <- app_assoc.
  set (base := srv mdc mrk mn :: map (srv mdc mrk) ons).
  assert (Hbase : base = map (srv mdc mrk) (mn :: ons)) by reflexivity.
  apply (placement_from_parts t o (d_id mdc) (r_id mrk) base extR extD (srv mdc mrk mn)).
  - (* free slots *)
    intros s Hs. apply in_app_or in Hs. destruct Hs as [Hs|Hs].
    + rewrite Hbase in Hs. apply in_map_iff in Hs. destruct Hs as [n [E Hn]]. subst s.
      destruct (Mn n Hn). apply has_free_slot_intro; auto.
    + apply in_app_or in Hs. destruct Hs as [Hs|Hs].
      * destruct (Forall2_in_r _ _ _ _ _ _ FR Hs) as [rk [Hrk [n [E [Hn Ha]]]]]. subst s.
        apply has_free_slot_intro; auto. apply Mr. right. exact Hrk.
      * destruct (Forall2_in_r _ _ _ _ _ _ FD Hs) as [dc [Hdc [rk [n [E [Hrk [Hn Ha]]]]]]]. subst s.
        apply has_free_slot_intro; auto. apply Md. right. exact Hdc.
  - (* NoDup base *)
    rewrite Hbase.
    assert (Hn : NoDup (map n_id (mn :: ons))).
    { eapply NoDup_map_sub; [exact Wn1|exact Nn|]. intros n Hn. apply Mn. exact Hn. }
    revert Hn. generalize (mn :: ons). intro l. induction l as [|x l IH]; intro Hn; [constructor|].
    simpl in *. apply NoDup_cons_iff in Hn. destruct Hn as [Hx Hn]. constructor; auto.
    intro Hin. apply in_map_iff in Hin. destruct Hin as [y [E Hy]]. apply Hx.
    assert (Hid : n_id y = n_id x) by (unfold srv in E; congruence).
    rewrite <- Hid. apply in_map. exact Hy.
  - intros s Hs. rewrite Hbase in Hs. apply in_map_iff in Hs. destruct Hs as [n [E Hn]]. subst s. split; reflexivity.
  - (* other racks *)
    intros s Hs. destruct (Forall2_in_r _ _ _ _ _ _ FR Hs) as [rk [Hrk [n [E _]]]]. subst s.
    split; [reflexivity|]. unfold srv, s_rack. simpl. intro Heq.
    assert (rk = mrk).
    { eapply (map_inj_on _ _ r_id (d_racks mdc)); eauto. apply Mr. right. exact Hrk. }
    subst rk. inversion Nr; subst. contradiction.
  - replace (map s_rack extR) with (map r_id orks).
    + eapply NoDup_map_sub; [exact Wr1| |].
      * inversion Nr; auto.
      * intros rk Hrk. apply Mr. right. exact Hrk.
    + eapply Forall2_map_eq; [exact FR|]. intros rk s [n [E _]]. subst s. reflexivity.
  - (* other data centers *)
    intros s Hs. destruct (Forall2_in_r _ _ _ _ _ _ FD Hs) as [dc [Hdc [rk [n [E _]]]]]. subst s.
    unfold srv, s_dc. simpl. intro Heq.
    assert (dc = mdc).
    { eapply (map_inj_on _ _ d_id (t_dcs t)); eauto. apply Md. right. exact Hdc. }
    subst dc. inversion Nd; subst. contradiction.
  - replace (map s_dc extD) with (map d_id odcs).
    + eapply NoDup_map_sub; [exact Wd| |].
      * inversion Nd; auto.
      * intros dc Hdc. apply Md. right. exact Hdc.
    + eapply Forall2_map_eq; [exact FD|]. intros dc s [rk [n [E _]]]. subst s. reflexivity.
  - left. reflexivity.
  - apply pref_filter_dc. exact Fd.
  - apply pref_filter_rack. exact Fr.
  - apply pref_filter_node. exact Fn.
  - unfold base. simpl. rewrite map_length, Ln. lia.
  - apply Forall2_len in FR. rewrite <- FR, Lr. lia.
  - apply Forall2_len in FD. rewrite <- FD, Ld. lia.
Qed.

(* ================================================================== *)
(* 7. the enumeration [find_all] is exactly the set of possible results *)
(* ================================================================== *)
Lemma dedup_incl : forall A (eqb : A -> A -> bool) l x, In x (dedup eqb l) -> In x l.
Proof.
  induction l as [|y l IH]; intros x H; simpl in *; auto.
  destruct (existsb (eqb y) (dedup eqb l)).
  - right. apply IH. exact H.
  - destruct H as [H|H]; [left; auto|right; apply IH; auto].
Qed.

Lemma dedup_complete : forall A (eqb : A -> A -> bool), (forall x y, eqb x y = true -> x = y) ->
  forall l x, In x l -> In x (dedup eqb l).
Proof.
  intros A eqb He. induction l as [|y l IH]; intros x H; simpl in *; [contradiction|].
  destruct (existsb (eqb y) (dedup eqb l)) eqn:E.
  - destruct H as [H|H]; [|apply IH; auto].
    subst. apply existsb_exists in E. destruct E as [z [Hz Hyz]]. apply He in Hyz. subst. exact Hz.
  - destruct H as [H|H]; [left; auto|right; apply IH; auto].
Qed.

Lemma opt_server_eqb_sound : forall a b, opt_server_eqb a b = true -> a = b.
Proof.
  intros [a|] [b|] H; simpl in H; try discriminate; auto.
  apply server_eqb_eq in H. subst. reflexivity.
Qed.

Lemma zrange_in : forall n v, In v (zrange n) <-> 0 <= v < n.
Proof.
  intros n v. unfold zrange. rewrite in_map_iff. split.
  - intros [k [E Hk]]. apply in_seq in Hk. subst v. lia.
  - intros H. exists (Z.to_nat v). split; [apply Z2Nat.id; lia|]. apply in_seq. lia.
Qed.

Lemma reserve_rack_all_spec : forall o dc rk out, 0 < avail_rack o rk ->
  (In out (reserve_rack_all o dc rk) <->
   exists r ord, out = option_map (srv dc rk)
                   (reserve_in_rack o (Z.modulo r (avail_rack o rk)) (permute ord (r_nodes rk)))).
Proof.
  intros o dc rk out Ha. unfold reserve_rack_all. split.
  - intro H. apply dedup_incl in H. apply in_flat_map in H. destruct H as [r [Hr H]].
    apply in_map_iff in H. destruct H as [ord [E _]]. apply zrange_in in Hr.
    exists r, ord. rewrite Z.mod_small by lia. auto.
  - intros [r [ord E]]. apply dedup_complete; [apply opt_server_eqb_sound|].
    apply in_flat_map. exists (Z.modulo r (avail_rack o rk)). split.
    + apply zrange_in. apply Z.mod_pos_bound. exact Ha.
    + destruct (all_orders_complete (length (r_nodes rk)) _ (r_nodes rk) ord (le_n _)) as [ord' [Hin Heq]].
      apply in_map_iff. exists ord'. split; auto. rewrite Heq. auto.
Qed.

Lemma reserve_racks_all_spec : forall o dc racks acc res,
  (forall rk, In rk racks -> 0 < avail_rack o rk) ->
  (In res (reserve_racks_all o dc acc racks) <-> exists os, reserve_racks o dc acc racks os = res).
Proof.
  induction racks as [|rk rest IH]; intros acc res Ha.
  - unfold reserve_racks_all. simpl. split.
    + intros [H|[]]. exists []. auto.
    + intros [os H]. left. auto.
  - assert (Hrk : 0 < avail_rack o rk) by (apply Ha; left; reflexivity).
    assert (Hrest : forall k, In k rest -> 0 < avail_rack o k) by (intros; apply Ha; right; auto).
    unfold reserve_racks_all. cbn [map extend_all]. split.
    + intro H. apply in_flat_map in H. destruct H as [out [Hout H]].
      apply (reserve_rack_all_spec o dc rk out Hrk) in Hout. destruct Hout as [r [ord E]].
      destruct (reserve_in_rack o (Z.modulo r (avail_rack o rk)) (permute ord (r_nodes rk))) as [n|] eqn:Er;
        simpl in E; subst out.
      * apply (IH _ _ Hrest) in H. destruct H as [os H].
        exists ({| ro_r := r; ro_nodes := ord |} :: os). cbn [reserve_racks hd tl ro_r ro_nodes]. rewrite Er. exact H.
      * destruct H as [H|[]]. exists [{| ro_r := r; ro_nodes := ord |}].
        cbn [reserve_racks hd tl ro_r ro_nodes]. rewrite Er. exact H.
    + intros [os H]. cbn [reserve_racks] in H.
      set (ro := hd default_rack_oracle os) in *.
      apply in_flat_map.
      destruct (reserve_in_rack o (Z.modulo (ro_r ro) (avail_rack o rk)) (permute (ro_nodes ro) (r_nodes rk))) as [n|] eqn:Er.
      * exists (Some (srv dc rk n)). split.
        -- apply (reserve_rack_all_spec o dc rk _ Hrk). exists (ro_r ro), (ro_nodes ro). rewrite Er. reflexivity.
        -- apply (IH _ _ Hrest). exists (tl os). exact H.
      * exists None. split.
        -- apply (reserve_rack_all_spec o dc rk _ Hrk). exists (ro_r ro), (ro_nodes ro). rewrite Er. reflexivity.
        -- left. exact H.
Qed.

Definition srv2 (dc : dcenter) (p : rack * dnode) : server := srv dc (fst p) (snd p).

Lemma rack_outcomes_spec : forall o dc r rk out,
  In out (rack_outcomes o dc r rk) <->
  exists ord, out = option_map (srv dc rk) (reserve_in_rack o r (permute ord (r_nodes rk))).
Proof.
  intros. unfold rack_outcomes. split.
  - intro H. apply dedup_incl in H. apply in_map_iff in H. destruct H as [ord [E _]]. exists ord. auto.
  - intros [ord E]. apply dedup_complete; [apply opt_server_eqb_sound|].
    destruct (all_orders_complete (length (r_nodes rk)) _ (r_nodes rk) ord (le_n _)) as [ord' [Hin Heq]].
    apply in_map_iff. exists ord'. split; auto. rewrite Heq. auto.
Qed.

Lemma walk_dc_all_spec : forall o dc racks r out,
  In out (walk_dc_all o dc r racks) <->
  exists orders, out = option_map (srv2 dc) (reserve_in_dc o r racks orders).
Proof.
  induction racks as [|rk rs IH]; intros r out.
  - simpl. split.
    + intros [H|[]]. exists []. auto.
    + intros [_ H]. left. auto.
  - cbn [walk_dc_all reserve_in_dc].
    destruct (avail_rack o rk <=? 0); [apply IH|].
    destruct (avail_rack o rk <=? r); [apply IH|].
    split.
    + intro H. apply in_flat_map in H. destruct H as [o1 [Ho1 H]].
      apply rack_outcomes_spec in Ho1. destruct Ho1 as [ord E].
      destruct (reserve_in_rack o r (permute ord (r_nodes rk))) as [n|] eqn:Er; simpl in E; subst o1.
      * destruct H as [H|[]]. exists [ord]. cbn [hd]. rewrite Er. auto.
      * apply IH in H. destruct H as [orders H]. exists (ord :: orders). cbn [hd tl]. rewrite Er. exact H.
    + intros [orders H]. apply in_flat_map.
      destruct (reserve_in_rack o r (permute (hd [] orders) (r_nodes rk))) as [n|] eqn:Er.
      * exists (Some (srv dc rk n)). split.
        -- apply rack_outcomes_spec. exists (hd [] orders). rewrite Er. reflexivity.
        -- left. auto.
      * exists None. split.
        -- apply rack_outcomes_spec. exists (hd [] orders). rewrite Er. reflexivity.
        -- apply IH. exists (tl orders). exact H.
Qed.

Lemma reserve_dc_all_spec : forall o dc out, 0 < avail_dc o dc ->
  (In out (reserve_dc_all o dc) <->
   exists r ord orders, out = option_map (srv2 dc)
       (reserve_in_dc o (Z.modulo r (avail_dc o dc)) (permute ord (d_racks dc)) orders)).
Proof.
  intros o dc out Ha. unfold reserve_dc_all. split.
  - intro H. apply dedup_incl in H. apply in_flat_map in H. destruct H as [r [Hr H]].
    apply in_flat_map in H. destruct H as [ord [_ H]]. apply walk_dc_all_spec in H. destruct H as [orders H].
    apply zrange_in in Hr. exists r, ord, orders. rewrite Z.mod_small by lia. exact H.
  - intros [r [ord [orders E]]]. apply dedup_complete; [apply opt_server_eqb_sound|].
    apply in_flat_map. exists (Z.modulo r (avail_dc o dc)). split.
    + apply zrange_in. apply Z.mod_pos_bound. exact Ha.
    + destruct (all_orders_complete (length (d_racks dc)) _ (d_racks dc) ord (le_n _)) as [ord' [Hin Heq]].
      apply in_flat_map. exists ord'. split; auto. apply walk_dc_all_spec. exists orders. rewrite Heq. exact E.
Qed.

Lemma reserve_dcs_all_spec : forall o dcs acc res,
  (forall dc, In dc dcs -> 0 < avail_dc o dc) ->
  (In res (reserve_dcs_all o acc dcs) <-> exists os, reserve_dcs o acc dcs os = res).
Proof.
  induction dcs as [|dc rest IH]; intros acc res Ha.
  - unfold reserve_dcs_all. simpl. split.
    + intros [H|[]]. exists []. auto.
    + intros [os H]. left. auto.
  - assert (Hdc : 0 < avail_dc o dc) by (apply Ha; left; reflexivity).
    assert (Hrest : forall k, In k rest -> 0 < avail_dc o k) by (intros; apply Ha; right; auto).
    unfold reserve_dcs_all. cbn [map extend_all]. split.
    + intro H. apply in_flat_map in H. destruct H as [out [Hout H]].
      apply (reserve_dc_all_spec o dc out Hdc) in Hout. destruct Hout as [r [ord [orders E]]].
      destruct (reserve_in_dc o (Z.modulo r (avail_dc o dc)) (permute ord (d_racks dc)) orders) as [[rk n]|] eqn:Er;
        simpl in E; subst out.
      * apply (IH _ _ Hrest) in H. destruct H as [os H].
        exists ({| do_r := r; do_racks := ord; do_nodes := orders |} :: os).
        cbn [reserve_dcs hd tl do_r do_racks do_nodes]. rewrite Er. exact H.
      * destruct H as [H|[]]. exists [{| do_r := r; do_racks := ord; do_nodes := orders |}].
        cbn [reserve_dcs hd tl do_r do_racks do_nodes]. rewrite Er. exact H.
    + intros [os H]. cbn [reserve_dcs] in H.
      set (d := hd default_dc_oracle os) in *.
      apply in_flat_map.
      destruct (reserve_in_dc o (Z.modulo (do_r d) (avail_dc o dc)) (permute (do_racks d) (d_racks dc)) (do_nodes d))
        as [[rk n]|] eqn:Er.
      * exists (Some (srv dc rk n)). split.
        -- apply (reserve_dc_all_spec o dc _ Hdc). exists (do_r d), (do_racks d), (do_nodes d). rewrite Er. reflexivity.
        -- apply (IH _ _ Hrest). exists (tl os). exact H.
      * exists None. split.
        -- apply (reserve_dc_all_spec o dc _ Hdc). exists (do_r d), (do_racks d), (do_nodes d). rewrite Er. reflexivity.
        -- left. exact H.
Qed.

Theorem find_all_spec : forall t o res,
  In res (find_all t o) <-> exists orc, find_empty_slots orc t o = res.
Proof.
  intros t o res. unfold find_all. split.
  - intro H.
    apply in_flat_map in H. destruct H as [od [_ H]].
    destruct (pick_nodes (avail_dc o) od [] (rp_dc o + 1) (dc_filter o) (t_dcs t)) as [[mdc odcs]|] eqn:Pd.
    2:{ destruct H as [H|[]]. subst res.
        exists {| o_dc_order := od; o_dc_rs := []; o_rack_order := []; o_rack_rs := []; o_node_order := [];
                  o_node_rs := []; o_other_racks := []; o_other_dcs := [] |}.
        unfold find_empty_slots. cbn [o_dc_order o_dc_rs]. rewrite Pd. reflexivity. }
    apply in_flat_map in H. destruct H as [ork [_ H]].
    destruct (pick_nodes (avail_rack o) ork [] (rp_rack o + 1) (rack_filter o) (d_racks mdc)) as [[mrk orks]|] eqn:Pr.
    2:{ destruct H as [H|[]]. subst res.
        exists {| o_dc_order := od; o_dc_rs := []; o_rack_order := ork; o_rack_rs := []; o_node_order := [];
                  o_node_rs := []; o_other_racks := []; o_other_dcs := [] |}.
        unfold find_empty_slots. cbn [o_dc_order o_dc_rs o_rack_order o_rack_rs]. rewrite Pd, Pr. reflexivity. }
    apply in_flat_map in H. destruct H as [on [_ H]].
    destruct (pick_nodes (avail_node o) on [] (rp_same o + 1) (node_filter o) (r_nodes mrk)) as [[mn ons]|] eqn:Pn.
    2:{ destruct H as [H|[]]. subst res.
        exists {| o_dc_order := od; o_dc_rs := []; o_rack_order := ork; o_rack_rs := []; o_node_order := on;
                  o_node_rs := []; o_other_racks := []; o_other_dcs := [] |}.
        unfold find_empty_slots. cbn [o_dc_order o_dc_rs o_rack_order o_rack_rs o_node_order o_node_rs].
        rewrite Pd, Pr, Pn. reflexivity. }
    apply in_flat_map in H. destruct H as [res1 [H1 H]].
    apply reserve_racks_all_spec in H1.
    2:{ intros rk Hrk. eapply (pick_nodes_members (avail_rack o)); [exact Pr|right; exact Hrk]. }
    destruct H1 as [osr H1].
    destruct res1 as [ss1 e1]. cbn [snd fst] in H. destruct e1.
    + destruct H as [H|[]]. subst res.
      exists {| o_dc_order := od; o_dc_rs := []; o_rack_order := ork; o_rack_rs := []; o_node_order := on;
                o_node_rs := []; o_other_racks := osr; o_other_dcs := [] |}.
      unfold find_empty_slots.
      cbn [o_dc_order o_dc_rs o_rack_order o_rack_rs o_node_order o_node_rs o_other_racks o_other_dcs].
      rewrite Pd, Pr, Pn, H1. reflexivity.
    + apply reserve_dcs_all_spec in H.
      2:{ intros dc Hdc. eapply (pick_nodes_members (avail_dc o)); [exact Pd|right; exact Hdc]. }
      destruct H as [osd H].
      exists {| o_dc_order := od; o_dc_rs := []; o_rack_order := ork; o_rack_rs := []; o_node_order := on;
                o_node_rs := []; o_other_racks := osr; o_other_dcs := osd |}.
      unfold find_empty_slots.
      cbn [o_dc_order o_dc_rs o_rack_order o_rack_rs o_node_order o_node_rs o_other_racks o_other_dcs].
      rewrite Pd, Pr, Pn, H1. exact H.
  - intros [orc H]. subst res. unfold find_empty_slots.
    destruct (pick_nodes_normal (avail_dc o) (o_dc_order orc) (o_dc_rs orc) (rp_dc o + 1) (dc_filter o) (t_dcs t))
      as [od [Hod Ed]].
    rewrite Ed. apply in_flat_map. exists od. split; auto.
    destruct (pick_nodes (avail_dc o) od [] (rp_dc o + 1) (dc_filter o) (t_dcs t)) as [[mdc odcs]|] eqn:Pd;
      [|left; reflexivity].
    destruct (pick_nodes_normal (avail_rack o) (o_rack_order orc) (o_rack_rs orc) (rp_rack o + 1) (rack_filter o) (d_racks mdc))
      as [ork [Hork Er]].
    rewrite Er. apply in_flat_map. exists ork. split; auto.
    destruct (pick_nodes (avail_rack o) ork [] (rp_rack o + 1) (rack_filter o) (d_racks mdc)) as [[mrk orks]|] eqn:Pr;
      [|left; reflexivity].
    destruct (pick_nodes_normal (avail_node o) (o_node_order orc) (o_node_rs orc) (rp_same o + 1) (node_filter o) (r_nodes mrk))
      as [on [Hon En]].
    rewrite En. apply in_flat_map. exists on. split; auto.
    destruct (pick_nodes (avail_node o) on [] (rp_same o + 1) (node_filter o) (r_nodes mrk)) as [[mn ons]|] eqn:Pn;
      [|left; reflexivity].
    apply in_flat_map.
    exists (reserve_racks o mdc (srv mdc mrk mn :: map (srv mdc mrk) ons) orks (o_other_racks orc)). split.
    + apply reserve_racks_all_spec.
      * intros rk Hrk. eapply (pick_nodes_members (avail_rack o)); [exact Pr|right; exact Hrk].
      * exists (o_other_racks orc). reflexivity.
    + destruct (reserve_racks o mdc _ orks (o_other_racks orc)) as [ss1 e1]. cbn [snd fst]. destruct e1.
      * left. reflexivity.
      * apply reserve_dcs_all_spec.
        -- intros dc Hdc. eapply (pick_nodes_members (avail_dc o)); [exact Pd|right; exact Hdc].
        -- exists (o_other_dcs orc). reflexivity.
Qed.

Lemma list_eqb_eq : forall A (eqb : A -> A -> bool), (forall x y, eqb x y = true <-> x = y) ->
  forall l1 l2, list_eqb eqb l1 l2 = true <-> l1 = l2.
Proof.
  intros A eqb He. induction l1 as [|x l1 IH]; intros [|y l2]; simpl; split; intro H; try discriminate; auto.
  - apply andb_prop in H. destruct H as [H1 H2]. apply He in H1. apply IH in H2. subst. reflexivity.
  - inversion H; subst. apply andb_true_intro. split; [apply He; reflexivity|apply IH; reflexivity].
Qed.

Lemma result_eqb_eq : forall a b, result_eqb a b = true <-> a = b.
Proof.
  intros [a1 a2] [b1 b2]. unfold result_eqb. simpl.
  rewrite andb_true_iff, (list_eqb_eq _ server_eqb server_eqb_eq), Bool.eqb_true_iff.
  split; [intros [? ?]; subst; reflexivity|intro H; inversion H; auto].
Qed.

Theorem admits_enum_spec : forall t o res,
  admits_enum t o res = true <-> exists orc, find_empty_slots orc t o = res.
Proof.
  intros t o res. unfold admits_enum. rewrite existsb_exists. rewrite <- find_all_spec. split.
  - intros [x [Hx E]]. apply result_eqb_eq in E. subst. exact Hx.
  - intro H. exists res. split; auto. apply result_eqb_eq. reflexivity.
Qed.

(* ---- the pruned search [admits] decides membership in [find_all] ---- *)
Lemma flat_map_flat_map : forall A B C (f : B -> list C) (g : A -> list B) l,
  flat_map f (flat_map g l) = flat_map (fun x => flat_map f (g x)) l.
Proof.
  induction l as [|x l IH]; simpl; auto. rewrite flat_map_app, IH. reflexivity.
Qed.

Lemma extend_all_app : forall o1 o2 acc,
  extend_all acc (o1 ++ o2) =
  flat_map (fun r : result => if snd r then [r] else extend_all (fst r) o2) (extend_all acc o1).
Proof.
  induction o1 as [|out o1 IH]; intros o2 acc.
  - simpl. rewrite app_nil_r. reflexivity.
  - cbn [app extend_all]. rewrite flat_map_flat_map. apply flat_map_ext.
    intros [s|]; [apply IH|reflexivity].
Qed.

Lemma extend_all_prefix : forall outs acc l e, In (l, e) (extend_all acc outs) -> exists ext, l = acc ++ ext.
Proof.
  induction outs as [|out rest IH]; intros acc l e H; cbn [extend_all] in H.
  - destruct H as [H|[]]. inversion H. exists []. rewrite app_nil_r. reflexivity.
  - apply in_flat_map in H. destruct H as [[s|] [_ H]].
    + apply IH in H. destruct H as [ext H]. exists (s :: ext). rewrite H, <- app_assoc. reflexivity.
    + destruct H as [H|[]]. inversion H. exists []. rewrite app_nil_r. reflexivity.
Qed.

Lemma app_self_nil : forall A (a l : list A), a = a ++ l -> l = [].
Proof. intros A a l H. apply (app_inv_head a). rewrite app_nil_r. symmetry. exact H. Qed.

Lemma opt_server_eqb_refl : forall a, opt_server_eqb a a = true.
Proof. intros [a|]; simpl; auto. apply server_eqb_eq. reflexivity. Qed.

Lemma in_existsb_opt : forall x out, existsb (opt_server_eqb x) out = true <-> In x out.
Proof.
  intros x out. rewrite existsb_exists. split.
  - intros [y [Hy E]]. apply opt_server_eqb_sound in E. subst. exact Hy.
  - intro H. exists x. split; auto. apply opt_server_eqb_refl.
Qed.

Lemma match_ext_spec : forall outs acc tgt err,
  match_ext tgt err outs = true <-> In (acc ++ tgt, err) (extend_all acc outs).
Proof.
  induction outs as [|out rest IH]; intros acc tgt err; destruct tgt as [|s t]; cbn [match_ext extend_all].
  - rewrite app_nil_r. split.
    + intro H. apply negb_true_iff in H. subst. left. reflexivity.
    + intros [H|[]]. inversion H. reflexivity.
  - split; [discriminate|]. intros [H|[]]. inversion H as [[H1 H2]].
    apply app_self_nil in H1. discriminate.
  - rewrite app_nil_r. rewrite andb_true_iff, in_existsb_opt. split.
    + intros [He Hn]. subst err. apply in_flat_map. exists None. split; auto. left. reflexivity.
    + intro H. apply in_flat_map in H. destruct H as [[s|] [Hx H]].
      * apply extend_all_prefix in H. destruct H as [ext H]. rewrite <- app_assoc in H.
        apply app_self_nil in H. discriminate.
      * destruct H as [H|[]]. inversion H. split; auto.
  - rewrite andb_true_iff, in_existsb_opt. split.
    + intros [Hs Hm]. apply in_flat_map. exists (Some s). split; auto.
      apply (IH (acc ++ [s])) in Hm. rewrite <- app_assoc in Hm. exact Hm.
    + intro H. apply in_flat_map in H. destruct H as [[s'|] [Hx H]].
      * destruct (extend_all_prefix _ _ _ _ H) as [ext E]. rewrite <- app_assoc in E.
        apply app_inv_head in E. simpl in E. inversion E; subst s' ext.
        split; auto. apply (IH (acc ++ [s])). rewrite <- app_assoc. exact H.
      * destruct H as [H|[]]. inversion H as [[H1 H2]]. apply app_self_nil in H1. discriminate.
Qed.

Lemma strip_prefix_spec : forall p l t, strip_prefix p l = Some t <-> l = p ++ t.
Proof.
  induction p as [|x p IH]; intros l t; simpl.
  - split; [intro H; inversion H; reflexivity|intro H; subst; reflexivity].
  - destruct l as [|y l]; [split; discriminate|].
    destruct (server_eqb x y) eqn:E.
    + apply server_eqb_eq in E. subst y. rewrite IH. split; [intro; subst; reflexivity|intro H; inversion H; reflexivity].
    + split; [discriminate|]. intro H. inversion H. subst.
      assert (server_eqb x x = true) by (apply server_eqb_eq; reflexivity). congruence.
Qed.

Lemma fail_spec : forall (res : result),
  (snd res && match fst res with [] => true | _ :: _ => false end) = true <-> In res [(([] : list server), true)].
Proof.
  intros [ss err]. simpl. split.
  - intro H. apply andb_prop in H. destruct H as [H1 H2]. subst. destruct ss; [left; reflexivity|discriminate].
  - intros [H|[]]. inversion H. reflexivity.
Qed.

Lemma exists_iff_compat : forall A (P Q : A -> Prop), (forall x, P x <-> Q x) ->
  ((exists x, P x) <-> (exists x, Q x)).
Proof. intros A P Q H. split; intros [x Hx]; exists x; apply H; exact Hx. Qed.

Lemma and_iff_compat_l' : forall (A B C : Prop), (A -> (B <-> C)) -> ((A /\ B) <-> (A /\ C)).
Proof. intros A B C H. split; intros [Ha Hb]; (split; [exact Ha|apply (H Ha); exact Hb]). Qed.

Theorem admits_find_all : forall t o res, admits t o res = true <-> In res (find_all t o).
Proof.
  intros t o res. unfold admits, find_all. rewrite existsb_exists, in_flat_map.
  apply exists_iff_compat. intro od. apply and_iff_compat_l'. intros _.
  destruct (pick_nodes (avail_dc o) od [] (rp_dc o + 1) (dc_filter o) (t_dcs t)) as [[mdc odcs]|];
    [|apply fail_spec].
  cbv zeta. rewrite existsb_exists, in_flat_map.
  apply exists_iff_compat. intro ork. apply and_iff_compat_l'. intros _.
  destruct (pick_nodes (avail_rack o) ork [] (rp_rack o + 1) (rack_filter o) (d_racks mdc)) as [[mrk orks]|];
    [|apply fail_spec].
  cbv zeta. rewrite existsb_exists, in_flat_map.
  apply exists_iff_compat. intro on. apply and_iff_compat_l'. intros _.
  destruct (pick_nodes (avail_node o) on [] (rp_same o + 1) (node_filter o) (r_nodes mrk)) as [[mn ons]|];
    [|apply fail_spec].
  unfold reserve_racks_all, reserve_dcs_all.
  rewrite <- extend_all_app.
  set (base := srv mdc mrk mn :: map (srv mdc mrk) ons).
  destruct res as [ss err]. cbn [fst snd].
  destruct (strip_prefix base ss) as [tgt|] eqn:E.
  - apply strip_prefix_spec in E. subst ss. apply match_ext_spec.
  - split; [discriminate|]. intro H. apply extend_all_prefix in H. destruct H as [ext H].
    apply strip_prefix_spec in H. congruence.
Qed.

(* the correspondence test is exact: admitted <-> produced under some oracle *)
Theorem admits_spec : forall t o res,
  admits t o res = true <-> exists orc, find_empty_slots orc t o = res.
Proof. intros. rewrite admits_find_all. apply find_all_spec. Qed.

(* ================================================================== *)
(* 8. reading [placement_ok] as a proposition                          *)
(* ================================================================== *)
Definition in_rack_of (m s : server) : Prop := s_dc s = s_dc m /\ s_rack s = s_rack m.
Definition in_other_rack_of (m s : server) : Prop := s_dc s = s_dc m /\ s_rack s <> s_rack m.
Definition in_other_dc_of (m s : server) : Prop := s_dc s <> s_dc m.

Definition honoured (pref id : string) : Prop := pref = ""%string \/ id = pref.

(* the placement rule of C10, spelled out *)
Definition placement (t : topology) (o : grow_option) (ss : list server) : Prop :=
  length ss = (1 + rp_dc o + rp_rack o + rp_same o)%nat /\
  NoDup ss /\
  (forall s, In s ss -> exists dc rk n, In dc (t_dcs t) /\ In rk (d_racks dc) /\ In n (r_nodes rk) /\
                                        s = srv dc rk n /\ 1 <= avail_node o n) /\
  exists m same oracks odcs, In m ss /\
    honoured (go_dc o) (s_dc m) /\ honoured (go_rack o) (s_rack m) /\ honoured (go_node o) (s_node m) /\
    Permutation ss (same ++ oracks ++ odcs) /\
    Forall (in_rack_of m) same /\ length same = (rp_same o + 1)%nat /\
    Forall (in_other_rack_of m) oracks /\ length oracks = rp_rack o /\ NoDup (map s_rack oracks) /\
    Forall (in_other_dc_of m) odcs /\ length odcs = rp_dc o /\ NoDup (map s_dc odcs).

Lemma pref_ok_honoured : forall p id, pref_ok p id = true -> honoured p id.
Proof.
  intros p id H. unfold pref_ok in H. apply orb_prop in H. destruct H as [H|H]; apply String.eqb_eq in H.
  - left. exact H.
  - right. exact H.
Qed.

Lemma filter3_perm : forall A (f g h : A -> bool) l,
  (forall x, In x l -> (f x = true /\ g x = false /\ h x = false) \/
                       (f x = false /\ g x = true /\ h x = false) \/
                       (f x = false /\ g x = false /\ h x = true)) ->
  Permutation l (filter f l ++ filter g l ++ filter h l).
Proof.
  induction l as [|x l IH]; intro H; simpl; [constructor|].
  assert (IH' : Permutation l (filter f l ++ filter g l ++ filter h l)) by (apply IH; intros; apply H; right; auto).
  destruct (H x (or_introl eq_refl)) as [[E1 [E2 E3]]|[[E1 [E2 E3]]|[E1 [E2 E3]]]]; rewrite E1, E2, E3; simpl.
  - constructor. exact IH'.
  - apply Permutation_cons_app. exact IH'.
  - rewrite app_assoc. apply Permutation_cons_app. rewrite <- app_assoc. exact IH'.
Qed.

Theorem placement_ok_sound : forall t o ss, placement_ok t o ss = true -> placement t o ss.
Proof.
  intros t o ss H. unfold placement_ok in H.
  apply andb_prop in H. destruct H as [H H4]. apply andb_prop in H. destruct H as [H H3].
  apply andb_prop in H. destruct H as [H1 H2].
  split; [apply Nat.eqb_eq; exact H1|]. split; [apply (nodupb_sound _ server_eqb server_eqb_eq); exact H2|]. split.
  - intros s Hs. rewrite forallb_forall in H3. specialize (H3 s Hs). unfold has_free_slot in H3.
    apply existsb_exists in H3. destruct H3 as [dc [Hdc H3]]. apply andb_prop in H3. destruct H3 as [E1 H3].
    apply existsb_exists in H3. destruct H3 as [rk [Hrk H3]]. apply andb_prop in H3. destruct H3 as [E2 H3].
    apply existsb_exists in H3. destruct H3 as [n [Hn H3]]. apply andb_prop in H3. destruct H3 as [E3 H3].
    apply String.eqb_eq in E1, E2, E3. apply Z.leb_le in H3.
    exists dc, rk, n. repeat split; auto.
    destruct s as [[a b] c]. unfold srv, s_dc, s_rack, s_node in *. simpl in *. subst. reflexivity.
  - apply existsb_exists in H4. destruct H4 as [m [Hm H4]]. unfold shape_ok in H4.
    repeat (apply andb_prop in H4; let X := fresh "Q" in destruct H4 as [H4 X]).
    set (fs := fun s => String.eqb (s_dc s) (s_dc m) && String.eqb (s_rack s) (s_rack m)) in *.
    set (fr := fun s => String.eqb (s_dc s) (s_dc m) && negb (String.eqb (s_rack s) (s_rack m))) in *.
    set (fd := fun s => negb (String.eqb (s_dc s) (s_dc m))) in *.
    exists m, (filter fs ss), (filter fr ss), (filter fd ss).
    split; [exact Hm|].
    split; [apply pref_ok_honoured; exact H4|].
    split; [apply pref_ok_honoured; exact Q5|].
    split; [apply pref_ok_honoured; exact Q4|].
    split.
    { apply filter3_perm. intros x _. unfold fs, fr, fd.
      destruct (String.eqb (s_dc x) (s_dc m)), (String.eqb (s_rack x) (s_rack m)); simpl; tauto. }
    split.
    { apply Forall_forall. intros x Hx. apply filter_In in Hx. destruct Hx as [_ Hx]. unfold fs in Hx.
      apply andb_prop in Hx. destruct Hx as [E1 E2]. apply String.eqb_eq in E1, E2. split; auto. }
    split; [apply Nat.eqb_eq; exact Q3|].
    split.
    { apply Forall_forall. intros x Hx. apply filter_In in Hx. destruct Hx as [_ Hx]. unfold fr in Hx.
      apply andb_prop in Hx. destruct Hx as [E1 E2]. apply String.eqb_eq in E1. apply negb_true_iff in E2.
      apply String.eqb_neq in E2. split; auto. }
    split; [apply Nat.eqb_eq; exact Q2|].
    split; [apply (nodupb_sound _ String.eqb String.eqb_eq); exact Q1|].
    split.
    { apply Forall_forall. intros x Hx. apply filter_In in Hx. destruct Hx as [_ Hx]. unfold fd in Hx.
      apply negb_true_iff in Hx. apply String.eqb_neq in Hx. exact Hx. }
    split; [apply Nat.eqb_eq; exact Q0|].
    apply (nodupb_sound _ String.eqb String.eqb_eq); exact Q.
Qed.

(* C10: every list returned without error satisfies the placement rule, for every oracle *)
Theorem c10_placement_thm : forall orc t o ss,
  wf_topology t = true -> find_empty_slots orc t o = (ss, false) ->
  placement_ok t o ss = true /\ placement t o ss.
Proof.
  intros orc t o ss Hwf H. pose proof (find_empty_slots_placement orc t o ss Hwf H) as P.
  split; [exact P|apply placement_ok_sound; exact P].
Qed.

(* an error is reported whenever no valid placement exists *)
Theorem c10_no_placement_error_thm : forall orc t o,
  wf_topology t = true -> (forall ss, placement_ok t o ss = false) ->
  snd (find_empty_slots orc t o) = true.
Proof.
  intros orc t o Hwf Hno. destruct (find_empty_slots orc t o) as [ss e] eqn:E. simpl.
  destruct e; auto. pose proof (find_empty_slots_placement orc t o ss Hwf E) as P. rewrite Hno in P. discriminate.
Qed.
(* END-OF-PART-3 *)
