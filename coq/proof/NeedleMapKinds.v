(* C05 proofs, part 6: the LevelDB-backed map and the sorted-file map against the reference;
   replay of the .idx by generateLevelDbFile / readNeedleMap. *)
From Coq Require Import List NArith ZArith Bool Lia Sorted Arith.
From Coq Require Import ZifyBool ZifyN ZifyNat.
From SW Require Import model.NeedleMap proof.EcIndexProofs proof.NeedleMapRefine proof.NeedleMapProofs.
Import ListNotations.
Local Open Scope N_scope.

(* ---------- the ordered map (LevelDB / MemDb oracle) ---------- *)
Lemma om_put_in : forall m k v x, In x (om_put m k v) -> x = (k, v) \/ In x m.
Proof.
  induction m as [|[k' v'] r IH]; intros k v x H; simpl in H.
  - destruct H as [<-|[]]. left. reflexivity.
  - destruct (k <? k'); [destruct H as [<-|H]; [left; reflexivity|right; assumption]|].
    destruct (k =? k').
    + destruct H as [<-|H]; [left; reflexivity|right; right; assumption].
    + destruct H as [<-|H]; [right; left; reflexivity|]. destruct (IH k v x H); [left|right; right]; assumption.
Qed.

Lemma om_put_sorted : forall m k v, kv_sorted m -> kv_sorted (om_put m k v).
Proof.
  induction m as [|[k' v'] r IH]; intros k v Hs; simpl.
  - constructor; constructor.
  - inversion Hs as [|? ? Hs' Hall]; subst. rewrite Forall_forall in Hall.
    destruct (N.ltb_spec k k') as [Hlt|Hge].
    + constructor; [assumption|]. constructor; [simpl; lia|].
      rewrite Forall_forall. intros x Hx. specialize (Hall x Hx). simpl in *. lia.
    + destruct (N.eqb_spec k k') as [->|Hne].
      * constructor; [assumption|]. rewrite Forall_forall. intros x Hx. apply (Hall x Hx).
      * constructor; [apply IH; assumption|]. rewrite Forall_forall. intros x Hx.
        apply om_put_in in Hx. destruct Hx as [->|Hx]; [simpl; lia|apply (Hall x Hx)].
Qed.

Lemma om_del_sorted : forall m k, kv_sorted m -> kv_sorted (om_del m k).
Proof. intros m k H. rewrite om_del_filter by assumption. apply kv_sorted_filter. assumption. Qed.

Lemma om_get_put : forall m k v k', kv_sorted m ->
  om_get (om_put m k v) k' = if k' =? k then Some v else om_get m k'.
Proof.
  induction m as [|[a va] r IH]; intros k v k' Hs; simpl.
  - destruct (N.eqb_spec k' k); reflexivity.
  - inversion Hs as [|? ? Hs' Hall]; subst.
    destruct (N.ltb_spec k a) as [Hlt|Hge].
    + simpl. destruct (N.eqb_spec k' k); reflexivity.
    + destruct (N.eqb_spec k a) as [->|Hne].
      * simpl. destruct (N.eqb_spec k' a); reflexivity.
      * simpl. destruct (N.eqb_spec k' a) as [->|Hne'].
        -- destruct (N.eqb_spec a k); [congruence|reflexivity].
        -- apply IH. assumption.
Qed.

Lemma om_get_del : forall m k k', kv_sorted m ->
  om_get (om_del m k) k' = if k' =? k then None else om_get m k'.
Proof.
  induction m as [|[a va] r IH]; intros k k' Hs; simpl.
  - destruct (k' =? k); reflexivity.
  - inversion Hs as [|? ? Hs' Hall]; subst. rewrite Forall_forall in Hall.
    assert (Hnone : forall q, q <= a -> q <> a -> om_get r q = None).
    { intros q Hq Hqa. clear -Hall Hq. induction r as [|[b vb] r IHr]; [reflexivity|]. simpl.
      assert (a < b) by (apply (Hall (b, vb)); left; reflexivity).
      destruct (N.eqb_spec q b); [lia|]. apply IHr. intros x Hx. apply Hall. right. assumption. }
    assert (Hnone' : forall q, q <= a -> om_get r q = None).
    { intros q Hq. clear -Hall Hq. induction r as [|[b vb] r IHr]; [reflexivity|]. simpl.
      assert (a < b) by (apply (Hall (b, vb)); left; reflexivity).
      destruct (N.eqb_spec q b); [lia|]. apply IHr. intros x Hx. apply Hall. right. assumption. }
    destruct (N.ltb_spec k a) as [Hlt|Hge].
    + simpl. destruct (N.eqb_spec k' k) as [->|Hne]; [|reflexivity].
      destruct (N.eqb_spec k a); [lia|]. apply Hnone'. lia.
    + destruct (N.eqb_spec k a) as [->|Hne].
      * destruct (N.eqb_spec k' a) as [->|Hne']; [apply Hnone'; lia|reflexivity].
      * simpl. destruct (N.eqb_spec k' a) as [->|Hne'].
        -- destruct (N.eqb_spec a k); [congruence|reflexivity].
        -- apply IH. assumption.
Qed.

(* ---------- LevelDbNeedleMap = the reference, for every history ---------- *)
Definition ldb_rel (s : ldb) (r : rmap) : Prop :=
  kv_sorted (l_db s) /\ forall k, om_get (l_db s) k = ref_get r k.

Lemma ldb_step_rel : forall osz s r o, ldb_rel s r ->
  ldb_rel (fst (ldb_step osz s o)) (fst (ref_step r o)) /\
  snd (ldb_step osz s o) = match snd (ref_step r o) with RGet v => Some v | _ => None end.
Proof.
  intros osz s r o [Hs Hrel]. destruct o as [k off sz|k off|k].
  - cbn [ldb_step fst snd]. rewrite ref_step_put_fst, ref_step_put_snd.
    split; [|destruct (ref_get r k) as [[]|]; reflexivity].
    unfold ldb_rel, ldb_put. cbn [l_db]. split; [apply om_put_sorted; assumption|].
    intros k'. rewrite om_get_put by assumption. rewrite ref_get_put. rewrite Hrel. reflexivity.
  - cbn [ldb_step ref_step fst snd].
    unfold ldb_delete. rewrite (Hrel k). destruct (ref_get r k) as [[ro rs]|] eqn:G.
    + unfold size_is_deleted, tombstone.
      destruct (Z.ltb_spec 0 rs) as [Hp|Hp]; cbn [fst snd].
      * destruct (Z.ltb_spec rs 0); [lia|]. destruct (Z.eqb_spec rs (-1)); [lia|]. cbn [orb].
        split; [|reflexivity]. unfold ldb_rel. cbn [l_db]. split; [apply om_put_sorted; assumption|].
        intros k'. rewrite om_get_put by assumption. rewrite ref_get_put, Hrel. reflexivity.
      * destruct (Z.ltb_spec rs 0) as [Hn|Hn]; cbn [orb].
        -- split; [split; assumption|reflexivity].
        -- assert (rs = 0%Z) by lia. subst rs. change (0 =? -1)%Z with false.
           split; [|reflexivity]. unfold ldb_rel. cbn [l_db]. split; [apply om_put_sorted; assumption|].
           intros k'. rewrite om_get_put by assumption. rewrite Hrel.
           destruct (N.eqb_spec k' k) as [->|]; [rewrite G|]; reflexivity.
    + cbn [fst snd]. split; [split; assumption|reflexivity].
  - cbn [ldb_step ref_step fst snd]. split; [split; assumption|]. unfold ldb_get. rewrite Hrel.
    destruct (ref_get r k) as [[ro rs]|]; reflexivity.
Qed.

Lemma ldb_run_rel : forall osz ops s r, ldb_rel s r ->
  ldb_rel (snd (ldb_run osz s ops)) (snd (ref_run r ops)).
Proof.
  intros osz ops. induction ops as [|o ops IH]; intros s r H; [exact H|].
  cbn [ldb_run ref_run]. destruct (ldb_step_rel osz s r o H) as [Hn _].
  destruct (ldb_step osz s o) as [s' x]. destruct (ref_step r o) as [r' y]. cbn [fst] in Hn.
  specialize (IH s' r' Hn). destruct (ldb_run osz s' ops). destruct (ref_run r' ops). exact IH.
Qed.

Lemma ldb_rel0 : ldb_rel ldb0 [].
Proof. split; [constructor|reflexivity]. Qed.

(* every lookup of the LevelDB-backed map, after any history, is the reference's *)
Theorem ldb_refines : forall osz ops k,
  ldb_get (snd (ldb_run osz ldb0 ops)) k =
  match ref_get (snd (ref_run [] ops)) k with Some (off, sz) => Some (k, off, sz) | None => None end.
Proof.
  intros osz ops k. destruct (ldb_run_rel osz ops ldb0 [] ldb_rel0) as [_ H].
  unfold ldb_get. rewrite H. reflexivity.
Qed.

(* ---------- replaying the .idx of a disciplined history ---------- *)
Definition live_part (v : option (N * Z)) : option (N * Z) :=
  match v with Some (off, sz) => if (sz <? 0)%Z then None else Some (off, sz) | None => None end.

Section Replay.
  Variable stp : omap -> entry -> omap.
  Hypothesis stp_put : forall m k off sz, off <> 0 -> (0 < sz)%Z ->
    stp m (mk_entry k off sz) = om_put m k (off, sz).
  Hypothesis stp_tomb : forall m k off, stp m (mk_entry k off tombstone) = om_del m k.

  Lemma replay_live : forall ops m r,
    kv_sorted m -> (forall k, om_get m k = live_part (ref_get r k)) ->
    disciplined_from r ops = true -> trig_empty_put ops = false ->
    let m' := fold_left stp (entries_of ops) m in
    kv_sorted m' /\ (forall k, om_get m' k = live_part (ref_get (snd (ref_run r ops)) k)) /\
    (forall x, In x m' -> In x m \/ exists k off sz, In (Put k off sz) ops /\ x = (k, (off, sz))).
  Proof.
    induction ops as [|o ops IH]; intros m r Hs Hrel Hd He; [simpl; auto|].
    cbn [disciplined_from] in Hd. apply andb_true_iff in Hd. destruct Hd as [Hd1 Hd2].
    cbn [trig_empty_put existsb] in He. apply orb_false_iff in He. destruct He as [He1 He2].
    cbn [entries_of flat_map]. fold (entries_of ops). rewrite fold_left_app.
    cbn [ref_run]. destruct (ref_step r o) as [r' y] eqn:Er. cbn [fst] in Hd2.
    assert (Hsnd : snd (let '(rs, fin) := ref_run r' ops in (y :: rs, fin)) = snd (ref_run r' ops))
      by (destruct (ref_run r' ops); reflexivity).
    rewrite Hsnd. clear Hsnd.
    destruct o as [k off sz|k off|k].
    - apply andb_true_iff in Hd1. destruct Hd1 as [Hoff Hsz].
      cbn [entry_of_op fold_left]. rewrite stp_put by lia.
      assert (Er' : r' = ref_put r k (off, sz)) by (rewrite <- (ref_step_put_fst r k off sz), Er; reflexivity).
      subst r'.
      destruct (IH (om_put m k (off, sz)) (ref_put r k (off, sz))) as [A [B C]]; auto.
      + apply om_put_sorted. assumption.
      + intros k'. rewrite om_get_put by assumption. rewrite ref_get_put.
        destruct (N.eqb_spec k' k); [|apply Hrel]. simpl. destruct (Z.ltb_spec sz 0); [lia|reflexivity].
      + split; [exact A|]. split; [exact B|]. intros x Hx. destruct (C x Hx) as [Hin|[k0 [o0 [s0 [Hin E]]]]].
        * apply om_put_in in Hin. destruct Hin as [->|Hin]; [|left; assumption].
          right. exists k, off, sz. split; [left; reflexivity|reflexivity].
        * right. exists k0, o0, s0. split; [right; assumption|assumption].
    - destruct (ref_get r k) as [[ro rs]|] eqn:G; [|discriminate].
      assert (Hlive : (0 < rs)%Z) by lia.
      rewrite (ref_step_del_live r k off ro rs G Hlive) in Er. injection Er as <- <-.
      cbn [entry_of_op fold_left]. rewrite stp_tomb.
      destruct (IH (om_del m k) (ref_put r k (ro, (- rs)%Z))) as [A [B C]]; auto.
      + apply om_del_sorted. assumption.
      + intros k'. rewrite om_get_del by assumption. rewrite ref_get_put.
        destruct (N.eqb_spec k' k); [|apply Hrel]. simpl. destruct (Z.ltb_spec (- rs) 0); [reflexivity|lia].
      + split; [exact A|]. split; [exact B|]. intros x Hx. destruct (C x Hx) as [Hin|[k0 [o0 [s0 [Hin E]]]]].
        * left. rewrite om_del_filter in Hin by assumption. apply filter_In in Hin. tauto.
        * right. exists k0, o0, s0. split; [right; assumption|assumption].
    - cbn [ref_step] in Er. injection Er as <- <-. cbn [entry_of_op fold_left].
      destruct (IH m r) as [A [B C]]; auto.
      split; [exact A|]. split; [exact B|]. intros x Hx. destruct (C x Hx) as [Hin|[k0 [o0 [s0 [Hin E]]]]].
      + left. assumption.
      + right. exists k0, o0, s0. split; [right; assumption|assumption].
  Qed.
End Replay.

Lemma gen_step_put : forall m k off sz, off <> 0 -> (0 < sz)%Z ->
  gen_step m (mk_entry k off sz) = om_put m k (off, sz).
Proof.
  intros. unfold gen_step, size_is_valid, tombstone. cbn [mk_entry e_key e_off e_size].
  destruct (N.eqb_spec off 0); [contradiction|]. destruct (Z.ltb_spec 0 sz); [|lia].
  destruct (Z.eqb_spec sz (-1)); [lia|]. reflexivity.
Qed.
Lemma gen_step_tomb : forall m k off, gen_step m (mk_entry k off tombstone) = om_del m k.
Proof. intros. unfold gen_step. cbn [mk_entry e_key e_off e_size]. rewrite andb_false_r. reflexivity. Qed.
Lemma rnm_step_put : forall m k off sz, off <> 0 -> (0 < sz)%Z ->
  rnm_step m (mk_entry k off sz) = om_put m k (off, sz).
Proof.
  intros. unfold rnm_step, tombstone. cbn [mk_entry e_key e_off e_size].
  destruct (N.eqb_spec off 0); [contradiction|]. destruct (Z.eqb_spec sz (-1)); [lia|]. reflexivity.
Qed.
Lemma rnm_step_tomb : forall m k off, rnm_step m (mk_entry k off tombstone) = om_del m k.
Proof.
  intros. unfold rnm_step, tombstone. cbn [mk_entry e_key e_off e_size].
  change ((-1 =? -1)%Z) with true. rewrite andb_false_r. reflexivity.
Qed.

(* ---------- the .idx written by the LevelDB map under the discipline ---------- *)
Lemma ldb_run_idx : forall osz ops s r, ldb_rel s r -> disciplined_from r ops = true ->
  l_idx (snd (ldb_run osz s ops)) = l_idx s ++ encode osz (entries_of ops).
Proof.
  intros osz ops. induction ops as [|o ops IH]; intros s r Hrel Hd; [simpl; symmetry; apply app_nil_r|].
  cbn [disciplined_from] in Hd. apply andb_true_iff in Hd. destruct Hd as [Hd1 Hd2].
  destruct (ldb_step_rel osz s r o Hrel) as [Hn _].
  cbn [ldb_run]. destruct (ldb_step osz s o) as [s' x] eqn:E. cbn [fst] in Hn.
  specialize (IH s' _ Hn Hd2). destruct (ldb_run osz s' ops) as [rs fin]. cbn [snd] in *.
  rewrite IH. cbn [entries_of flat_map]. fold (entries_of ops). rewrite encode_app, app_assoc. f_equal.
  destruct Hrel as [_ Hrel].
  destruct o as [k off sz|k off|k]; cbn [ldb_step] in E; injection E as <- _.
  - unfold ldb_put. cbn [l_idx entry_of_op]. unfold encode. simpl. rewrite app_nil_r. reflexivity.
  - unfold ldb_delete. rewrite Hrel. destruct (ref_get r k) as [[ro rs']|]; [|discriminate].
    assert ((0 < rs')%Z) by lia. unfold size_is_deleted, tombstone.
    destruct (Z.ltb_spec rs' 0); [lia|]. destruct (Z.eqb_spec rs' (-1)); [lia|]. cbn [orb l_idx entry_of_op].
    unfold encode. simpl. rewrite app_nil_r. reflexivity.
  - simpl. symmetry. apply app_nil_r.
Qed.

(* reopening the LevelDB map from the .idx alone: same live lookups *)
Theorem ldb_reload_lookups : forall osz ops k, ok_osz osz ->
  forallb (op_in_range osz) ops = true -> disciplined ops = true -> trig_empty_put ops = false ->
  let s := snd (ldb_run osz ldb0 ops) in
  live_view (ldb_get (ldb_load osz (l_idx s)) k) = live_view (ldb_get s k).
Proof.
  intros osz ops k Hosz Hr Hd He s.
  pose proof (ldb_run_idx osz ops ldb0 [] ldb_rel0 Hd) as Hidx. cbn [ldb0 l_idx app] in Hidx. fold ldb0 in Hidx.
  unfold s. rewrite ldb_refines. unfold ldb_get, ldb_load. cbn [l_db]. rewrite Hidx.
  rewrite walk_encode by (try assumption; apply entries_wf; assumption).
  destruct (replay_live gen_step gen_step_put gen_step_tomb ops [] [] ltac:(constructor) ltac:(reflexivity) Hd He) as [_ [B _]].
  cbv zeta in B. rewrite B. unfold live_part, live_view.
  destruct (ref_get (snd (ref_run [] ops)) k) as [[off sz]|]; [|reflexivity].
  destruct (sz <? 0)%Z eqn:E; simpl; rewrite ?E; reflexivity.
Qed.

(* ---------- the sorted-file map generated from the .idx ---------- *)
Lemma lookup_om_get : forall m k, lookup k (map entry_of_kv m) = om_get m k.
Proof.
  induction m as [|[a [o s]] r IH]; intros k; [reflexivity|]. unfold lookup in *. simpl.
  destruct (N.eqb_spec a k) as [->|Hne].
  - rewrite N.eqb_refl. reflexivity.
  - destruct (N.eqb_spec k a); [congruence|]. apply IH.
Qed.

Lemma sorted_keys_of_kv : forall m, kv_sorted m -> sorted_keys (map entry_of_kv m).
Proof.
  intros m H. induction H as [|x m Hs IH Hall]; simpl; [constructor|].
  constructor; [assumption|]. rewrite Forall_forall in *. intros e He.
  apply in_map_iff in He. destruct He as [y [<- Hy]]. simpl. apply (Hall y Hy).
Qed.

Theorem sorted_file_get : forall osz batch ops k, ok_osz osz -> k < two64 ->
  forallb (op_in_range osz) ops = true -> disciplined ops = true -> trig_empty_put ops = false ->
  let s := snd (nm_run osz batch nm0 ops) in
  sf_get osz (write_sorted_from_idx osz (nm_idx s)) k = live_view (nm_get batch s k).
Proof.
  intros osz batch ops k Hosz Hk Hr Hd He s.
  pose proof (nm_run_idx osz batch ops nm0) as Hidx. cbn [nm0 nm_idx app] in Hidx. fold nm0 in Hidx.
  unfold s. unfold write_sorted_from_idx, read_needle_map. rewrite Hidx.
  rewrite walk_encode by (try assumption; apply entries_wf; assumption).
  destruct (replay_live rnm_step rnm_step_put rnm_step_tomb ops [] [] ltac:(constructor) ltac:(reflexivity) Hd He) as [A [B C]].
  cbv zeta in A, B, C. set (M := fold_left rnm_step (entries_of ops) []) in *.
  assert (Hwf : Forall (wf_entry osz) (map entry_of_kv M)).
  { rewrite Forall_forall. intros e Hin. apply in_map_iff in Hin. destruct Hin as [x [<- Hx]].
    destruct (C x Hx) as [[]|[k0 [o0 [s0 [Hin ->]]]]].
    rewrite forallb_forall in Hr. specialize (Hr _ Hin). cbn [op_in_range] in Hr.
    unfold wf_entry, entry_of_kv. simpl. lia. }
  unfold sf_get, sorted_get, file_size.
  pose proof (search_lookup osz (map entry_of_kv M) k Hosz Hwf (sorted_keys_of_kv M A)) as Hs.
  unfold sres_val in Hs. rewrite lookup_om_get, B in Hs.
  (* the memory map's answer is the reference's *)
  assert (Hnm : nm_get batch (snd (nm_run osz batch nm0 ops)) k =
                match ref_get (snd (ref_run [] ops)) k with Some (off, sz) => Some (k, off, sz) | None => None end).
  { unfold nm_get.
    assert (Hmap : nm_map (snd (nm_run osz batch nm0 ops)) = snd (cm_run batch [] ops)).
    { clear. change ([] : cmap) with (nm_map nm0). generalize nm0. induction ops as [|o ops IH]; intros s0; [reflexivity|].
      cbn [nm_run cm_run]. destruct o as [kk off sz|kk off|kk]; cbn [nm_step cm_step].
      - unfold nm_put. destruct (cm_set batch (nm_map s0) kk off sz) as [[cm' oo] os].
        specialize (IH {| nm_map := cm'; nm_met := log_put (nm_met s0) kk os sz;
                          nm_idx := nm_idx s0 ++ enc_entry osz (mk_entry kk off sz) |}). cbn [nm_map] in IH.
        destruct (nm_run osz batch _ ops). destruct (cm_run batch cm' ops). exact IH.
      - unfold nm_delete. destruct (cm_delete batch (nm_map s0) kk) as [cm' ret].
        specialize (IH {| nm_map := cm'; nm_met := log_delete (nm_met s0) ret;
                          nm_idx := nm_idx s0 ++ enc_entry osz (mk_entry kk off tombstone) |}). cbn [nm_map] in IH.
        destruct (nm_run osz batch _ ops). destruct (cm_run batch cm' ops). exact IH.
      - specialize (IH s0). destruct (nm_run osz batch s0 ops). destruct (cm_run batch (nm_map s0) ops). exact IH. }
    rewrite Hmap. apply lookup_refines; [apply (keys_ok_of_range osz); assumption|assumption]. }
  rewrite Hnm. unfold live_part, live_view in *.
  destruct (search_sorted osz (encode osz (map entry_of_kv M)) (N.of_nat (length (encode osz (map entry_of_kv M)))) k) as [mi o sz| |];
    destruct (ref_get (snd (ref_run [] ops)) k) as [[off rs]|]; simpl in Hs |- *.
  - destruct (rs <? 0)%Z; [discriminate|]. injection Hs as -> ->. reflexivity.
  - discriminate.
  - destruct (rs <? 0)%Z; [reflexivity|discriminate].
  - reflexivity.
  - destruct (rs <? 0)%Z; [reflexivity|discriminate].
  - reflexivity.
Qed.

(* ---------- finding 2, concretely: the counters recomputed from the .idx ---------- *)
Definition rewrite_witness : list op := [Put 1 1 10%Z; Put 1 2 20%Z].

Theorem ldb_reload_counters_refuted : exists osz ops, ok_osz osz /\
  forallb (op_in_range osz) ops = true /\ disciplined ops = true /\ trig_empty_put ops = false /\
  l_met (ldb_load osz (l_idx (snd (ldb_run osz ldb0 ops)))) <> l_met (snd (ldb_run osz ldb0 ops)).
Proof.
  exists 4, rewrite_witness. split; [left; reflexivity|]. repeat split; try reflexivity.
  vm_compute. intros H. discriminate.
Qed.
